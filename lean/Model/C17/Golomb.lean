import Model.Common.Bytes
/-
BIP158 Golomb-Rice coded sets of btclib/block/block_filter.py.

The bit stream is a `List Bool` (most significant bit first); `_BitWriter` is
`bitsOf` + `pack` (zero padding to the octet), `_BitReader` is `unpack` + `readBits`,
`assert_exhausted` is `exhausted`.  `_golomb_encode/_golomb_decode`, the delta coding of
`from_block`, `_decode` (with its range check) and the merge walk of `match_any` follow the
code statement by statement.  Core Lean only, structural recursion throughout.
-/
namespace Btc.Golomb

/-- `_BitWriter.write(value, count)`: the `count` low bits of `value`, most significant first. -/
def bitsOf (value : Nat) : Nat → List Bool
  | 0 => []
  | c + 1 => value.testBit c :: bitsOf value c

/-- big-endian value of a bit list (`int.from_bytes(window) >> …  & mask` of `_BitReader.read`). -/
def valOf (bits : List Bool) : Nat := bits.foldl (fun acc b => 2 * acc + b.toNat) 0

/-- one octet from (up to) eight bits, zero padded on the right (`_buffer << (8 - _filled)`). -/
def byteOfBits (bits : List Bool) : UInt8 :=
  UInt8.ofNat (valOf (bits ++ List.replicate (8 - bits.length) false))

/-- `_BitWriter.flush()` of everything written: eight bits per octet, the last padded with zeros. -/
def pack : List Bool → Bytes
  | [] => []
  | b0 :: b1 :: b2 :: b3 :: b4 :: b5 :: b6 :: b7 :: rest =>
    byteOfBits [b0, b1, b2, b3, b4, b5, b6, b7] :: pack rest
  | bits => [byteOfBits bits]

/-- the bits of one octet, most significant first -/
def bitsOfByte (x : UInt8) : List Bool := bitsOf x.toNat 8

/-- `_BitReader(octets)`: all the bits. -/
def unpack : Bytes → List Bool
  | [] => []
  | x :: xs => bitsOfByte x ++ unpack xs

/-- `_golomb_encode(writer, value, p)`: `write(((1 << q) - 1) << 1, q + 1); write(value, p)`. -/
def golombEncode (value p : Nat) : List Bool :=
  let q := value >>> p
  bitsOf (((1 <<< q) - 1) <<< 1) (q + 1) ++ bitsOf value p

/-- the delta loop of `from_block`: `_golomb_encode(writer, value - last_value, P)`. -/
def encodeDeltas (p : Nat) : Nat → List Nat → List Bool
  | _, [] => []
  | last, v :: vs => golombEncode (v - last) p ++ encodeDeltas p v vs

/-- the Golomb-Rice coded set of a sorted list of values (`writer.flush()`). -/
def encodeSet (p : Nat) (values : List Nat) : Bytes := pack (encodeDeltas p 0 values)

inductive Err | short | range | excess | padding
  deriving DecidableEq, Repr

def Err.name : Err → String
  | .short => "short" | .range => "range" | .excess => "excess" | .padding => "padding"

/-- `_BitReader.read(count)`: value and rest, or "not enough binary data". -/
def readBits (count : Nat) (bits : List Bool) : Except Err (Nat × List Bool) :=
  if bits.length < count then .error .short
  else .ok (valOf (bits.take count), bits.drop count)

/-- `while reader.read(1): quotient += 1` -/
def readUnary : List Bool → Except Err (Nat × List Bool)
  | [] => .error .short
  | false :: rest => .ok (0, rest)
  | true :: rest =>
    match readUnary rest with
    | .ok (q, r) => .ok (q + 1, r)
    | .error e => .error e

/-- `_golomb_decode(reader, p)` -/
def golombDecode (p : Nat) (bits : List Bool) : Except Err (Nat × List Bool) :=
  match readUnary bits with
  | .error e => .error e
  | .ok (q, rest) =>
    match readBits p rest with
    | .error e => .error e
    | .ok (r, rest') => .ok ((q <<< p) + r, rest')

/-- `_BitReader.assert_exhausted()` -/
def exhausted (bits : List Bool) : Except Err Unit :=
  if bits.length ≥ 8 then .error .excess
  else if valOf bits ≠ 0 then .error .padding
  else .ok ()

/-- `BasicBlockFilter._decode` as the generator it is: the values yielded before the stream ends,
    and how it ends (`none`: cleanly, `assert_exhausted` passed; `some e`: the exception raised after
    the listed values were yielded).  `n` = element_count, `upper` = n·M. -/
def decodeStream (p upper : Nat) : Nat → Nat → List Bool → List Nat × Option Err
  | 0, _, bits =>
    match exhausted bits with
    | .ok () => ([], none)
    | .error e => ([], some e)
  | n + 1, value, bits =>
    match golombDecode p bits with
    | .error e => ([], some e)
    | .ok (d, rest) =>
      let value := value + d
      if value ≥ upper then ([], some .range)
      else
        let r := decodeStream p upper n value rest
        (value :: r.1, r.2)

/-- `element_hashes` / `assert_valid`'s decoding: the whole list or the first error. -/
def decodeSet (p upper n : Nat) (data : Bytes) : Except Err (List Nat) :=
  match decodeStream p upper n 0 (unpack data) with
  | (vs, none) => .ok vs
  | (_, some e) => .error e

inductive Walk | hit | miss | ranOut
  deriving DecidableEq, Repr

/-- the merge walk of `match_any` over sorted `targets` and the decoded values, in the order the
    generator yields them.  `hit`: `return True`; `miss`: targets ran out (`return False` inside the
    loop, the generator is not advanced further); `ranOut`: the `for` loop consumed every value. -/
def walk : List Nat → List Nat → Walk
  | _, [] => .ranOut
  | ts, v :: vs =>
    match ts.dropWhile (· < v) with
    | [] => .miss
    | t :: ts' => if t = v then .hit else walk (t :: ts') vs

/-- `match_any` given the hashed, de-duplicated, sorted targets: lazily over the decoded stream. -/
def matchAny (p upper n : Nat) (data : Bytes) (targets : List Nat) : Except Err Bool :=
  match targets with
  | [] => .ok false
  | _ =>
    let s := decodeStream p upper n 0 (unpack data)
    match walk targets s.1 with
    | .hit => .ok true
    | .miss => .ok false
    | .ranOut => match s.2 with
      | none => .ok false
      | some e => .error e

end Btc.Golomb
