import Model.Common.SipHash
import Generated.Filter
/-
BIP152 of btclib/p2p/compact_blocks.py: `_short_id` and the walk of `reconstruct`.
A transaction is represented by its wtxid (a number naming it) and the short id it hashes to;
the prefilled transactions by their positions.  Core Lean only.
-/
namespace Btc.CompactBlocks
open Btc

/-- `_short_id(key, wtxid)`: `siphash(k0, k1, wtxid[::-1]) & _MAX_SHORT_ID` -/
def shortId (k0 k1 : UInt64) (wtxid : Bytes) : Nat :=
  (siphash k0 k1 wtxid.reverse).toNat &&& Gen.Filter.MAX_SHORT_ID

inductive Slot | prefilled | missing | pool (wtxid : Nat)
  deriving DecidableEq, Repr

inductive Err | empty | positions | dupShortIds
  deriving DecidableEq, Repr

def Err.name : Err → String
  | .empty => "empty" | .positions => "positions" | .dupShortIds => "dup"

/-- `_assert_increasing` from `_NO_PREVIOUS_INDEX = -1`: strictly increasing -/
def increasing : List Nat → Bool
  | a :: b :: rest => decide (a < b) && increasing (b :: rest)
  | _ => true

/-- `_assert_positions` -/
def positionsOk (pre : List Nat) (count : Nat) : Bool :=
  increasing pre && (match pre.getLast? with | some l => decide (l < count) | none => true)

/-- `len(set(short_ids)) != len(short_ids)` -/
def hasDup : List Nat → Bool
  | [] => false
  | a :: rest => rest.contains a || hasDup rest

structure St where
  slots : List Slot
  wtxidOf : List (Nat × Nat)
  collided : List Nat

/-- one iteration of `for tx in pool:` -/
def step (positionOf : List (Nat × Nat)) (st : St) (tx : Nat × Nat) : St :=
  let (sid, wtxid) := tx
  match positionOf.lookup sid with
  | none => st
  | some pos =>
    if st.collided.contains sid then st
    else match st.wtxidOf.lookup sid with
      | none => { st with wtxidOf := (sid, wtxid) :: st.wtxidOf, slots := st.slots.set pos (.pool wtxid) }
      | some w =>
        if w ≠ wtxid then { st with collided := sid :: st.collided, slots := st.slots.set pos .missing }
        else st

/-- `reconstruct`: the slots of the partial block. `pool` = (short id, wtxid) per pool transaction. -/
def reconstruct (pre shortIds : List Nat) (pool : List (Nat × Nat)) : Except Err (List Slot) :=
  let count := shortIds.length + pre.length
  if count = 0 then .error .empty
  else if !positionsOk pre count then .error .positions
  else
    let slots0 := (List.range count).map fun i => if pre.contains i then Slot.prefilled else Slot.missing
    if hasDup shortIds then .error .dupShortIds
    else
      let free := (List.range count).filter fun i => !pre.contains i
      let positionOf := shortIds.zip free
      .ok (pool.foldl (step positionOf) ⟨slots0, [], []⟩).slots

inductive FillErr | count
  deriving DecidableEq, Repr

/-- the list comprehension of `PartialBlock.fill`: the supplied transactions are taken in order for the
    `None` entries -/
def fillGo : List (Option Nat) → List Nat → List Nat
  | [], _ => []
  | some t :: r, s => t :: fillGo r s
  | none :: r, x :: s => x :: fillGo r s
  | none :: r, [] => fillGo r []

/-- `PartialBlock.fill(transactions)`: exactly as many as are missing, else refused; `transactions` of a
    partial block are a wtxid or `none`. -/
def fillP (part : List (Option Nat)) (supplied : List Nat) : Except FillErr (List Nat) :=
  if supplied.length ≠ (part.filter Option.isNone).length then .error .count
  else .ok (fillGo part supplied)

/-- the `PartialBlock` `reconstruct` returns when the announced block is `blk` (wtxids): prefilled
    positions hold the block's own transactions, pool hits hold the pool transaction, the rest `None` -/
def partialView : List Slot → List Nat → List (Option Nat)
  | .pool w :: r, _ :: bs => some w :: partialView r bs
  | .prefilled :: r, b :: bs => some b :: partialView r bs
  | .missing :: r, _ :: bs => none :: partialView r bs
  | _, _ => []

/-- the block's transactions at the positions still missing, in order (what `blocktxn` answers) -/
def missingOf : List Slot → List Nat → List Nat
  | .missing :: r, b :: bs => b :: missingOf r bs
  | _ :: r, _ :: bs => missingOf r bs
  | _, _ => []

/-- the filled block when every pool hit is kept and the rest comes from the block (used in proofs) -/
def fill (slots : List Slot) (blk : List Nat) : List Nat :=
  (slots.zip blk).map fun
    | (.pool w, _) => w
    | (_, b) => b

/-! ### the whole exchange (executed by the driver's `cb.roundtrip`) -/

/-- the short ids a sender announces for `blk` (wtxids) with the positions `pre` prefilled: one per remaining
    position, in order (btclib has no builder for a `CmpctBlock`; this is the caller's side, as the harness does it) -/
def compactOf (sid : Nat → Nat) (blk pre : List Nat) : List Nat :=
  ((List.range blk.length).filter fun i => !pre.contains i).map fun j => sid (blk.getD j 0)

/-- `PartialBlock.missing_indexes` -/
def missingIndexes : List (Option Nat) → Nat → List Nat
  | [], _ => []
  | none :: r, i => i :: missingIndexes r (i + 1)
  | some _ :: r, i => missingIndexes r (i + 1)

inductive RtErr | reconstruct (e : Err) | fill
  deriving DecidableEq, Repr

/-- the whole BIP152 exchange for a block `blk` announced with `pre` prefilled under the short-id function `sid`,
    received by a node holding `pool`: `reconstruct`, then `getblocktxn` for `missing_indexes`, answered with the
    block's transactions at those positions, then `PartialBlock.fill`.  Returns (missing indexes, filled block). -/
def roundTrip (sid : Nat → Nat) (blk pre pool : List Nat) : Except RtErr (List Nat × List Nat) :=
  match reconstruct pre (compactOf sid blk pre) (pool.map fun w => (sid w, w)) with
  | .error e => .error (.reconstruct e)
  | .ok slots =>
    let part := partialView slots blk
    let missing := missingIndexes part 0
    match fillP part (missing.map fun j => blk.getD j 0) with
    | .error _ => .error .fill
    | .ok b => .ok (missing, b)

end Btc.CompactBlocks
