import Model.Common.SipHash
import Generated.Filter
/-
BIP152 of btclib/p2p/compact_blocks.py: `_short_id` and the walk of `reconstruct`.
A transaction is represented by its wtxid (a number naming it) and the short id it hashes to;
the prefilled transactions by their positions.  Core Lean only.
-/
namespace Btc.CompactBlocks
open Btc

/-- `_short_id(key, wtxid)`: `siphash(k0, k1, wtxid[::-1]) & _MAX_SHORT_ID` -/
def shortId (k0 k1 : UInt64) (wtxid : Bytes) : Nat :=
  (siphash k0 k1 wtxid.reverse).toNat &&& Gen.Filter.MAX_SHORT_ID

inductive Slot | prefilled | missing | pool (wtxid : Nat)
  deriving DecidableEq, Repr

inductive Err | empty | positions | dupShortIds
  deriving DecidableEq, Repr

def Err.name : Err → String
  | .empty => "empty" | .positions => "positions" | .dupShortIds => "dup"

/-- `_assert_increasing` from `_NO_PREVIOUS_INDEX = -1`: strictly increasing -/
def increasing : List Nat → Bool
  | a :: b :: rest => decide (a < b) && increasing (b :: rest)
  | _ => true

/-- `_assert_positions` -/
def positionsOk (pre : List Nat) (count : Nat) : Bool :=
  increasing pre && (match pre.getLast? with | some l => decide (l < count) | none => true)

/-- `len(set(short_ids)) != len(short_ids)` -/
def hasDup : List Nat → Bool
  | [] => false
  | a :: rest => rest.contains a || hasDup rest

structure St where
  slots : List Slot
  wtxidOf : List (Nat × Nat)
  collided : List Nat

/-- one iteration of `for tx in pool:` -/
def step (positionOf : List (Nat × Nat)) (st : St) (tx : Nat × Nat) : St :=
  let (sid, wtxid) := tx
  match positionOf.lookup sid with
  | none => st
  | some pos =>
    if st.collided.contains sid then st
    else match st.wtxidOf.lookup sid with
      | none => { st with wtxidOf := (sid, wtxid) :: st.wtxidOf, slots := st.slots.set pos (.pool wtxid) }
      | some w =>
        if w ≠ wtxid then { st with collided := sid :: st.collided, slots := st.slots.set pos .missing }
        else st

/-- `reconstruct`: the slots of the partial block. `pool` = (short id, wtxid) per pool transaction. -/
def reconstruct (pre shortIds : List Nat) (pool : List (Nat × Nat)) : Except Err (List Slot) :=
  let count := shortIds.length + pre.length
  if count = 0 then .error .empty
  else if !positionsOk pre count then .error .positions
  else
    let slots0 := (List.range count).map fun i => if pre.contains i then Slot.prefilled else Slot.missing
    if hasDup shortIds then .error .dupShortIds
    else
      let free := (List.range count).filter fun i => !pre.contains i
      let positionOf := shortIds.zip free
      .ok (pool.foldl (step positionOf) ⟨slots0, [], []⟩).slots

inductive FillErr | count
  deriving DecidableEq, Repr

/-- the list comprehension of `PartialBlock.fill`: the supplied transactions are taken in order for the
    `None` entries -/
def fillGo : List (Option Nat) → List Nat → List Nat
  | [], _ => []
  | some t :: r, s => t :: fillGo r s
  | none :: r, x :: s => x :: fillGo r s
  | none :: r, [] => fillGo r []

/-- `PartialBlock.fill(transactions)`: exactly as many as are missing, else refused; `transactions` of a
    partial block are a wtxid or `none`. -/
def fillP (part : List (Option Nat)) (supplied : List Nat) : Except FillErr (List Nat) :=
  if supplied.length ≠ (part.filter Option.isNone).length then .error .count
  else .ok (fillGo part supplied)

/-- the `PartialBlock` `reconstruct` returns when the announced block is `blk` (wtxids): prefilled
    positions hold the block's own transactions, pool hits hold the pool transaction, the rest `None` -/
def partialView : List Slot → List Nat → List (Option Nat)
  | .pool w :: r, _ :: bs => some w :: partialView r bs
  | .prefilled :: r, b :: bs => some b :: partialView r bs
  | .missing :: r, _ :: bs => none :: partialView r bs
  | _, _ => []

/-- the block's transactions at the positions still missing, in order (what `blocktxn` answers) -/
def missingOf : List Slot → List Nat → List Nat
  | .missing :: r, b :: bs => b :: missingOf r bs
  | _ :: r, _ :: bs => missingOf r bs
  | _, _ => []

/-- the filled block when every pool hit is kept and the rest comes from the block (used in proofs) -/
def fill (slots : List Slot) (blk : List Nat) : List Nat :=
  (slots.zip blk).map fun
    | (.pool w, _) => w
    | (_, b) => b

end Btc.CompactBlocks
