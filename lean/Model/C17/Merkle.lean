import Model.Common.Bytes
/-
Merkle trees of btclib/hashes.py, over an arbitrary node hash `h : α → α → α`
(for bytes: `h a b = H (a ++ b)`).

* `rootAndMutated`  = `merkle_root_and_mutated_from_hashes` (pairwise levels, odd last duplicated,
                      `mutated` = some level holds an equal pair at an even position);
* `rootFromBranch`  = `merkle_root_from_branch` (index parity picks the side, a right child equal to
                      its sibling refused, leftover index bits refused);
* `branch`          = the prover's side (btclib has no builder; this is Core's merkle branch): the
                      sibling met at each level, bottom-up.  The harness feeds it to the real verifier.
Core Lean only.
-/
namespace Btc.Merkle

variable {α : Type}

/-- one level up: `[hf(level[i] + level[i+1]) …]` after `level.append(level[-1])` on odd length -/
def nextLevel (h : α → α → α) : List α → List α
  | [] => []
  | [a] => [h a a]
  | a :: b :: rest => h a b :: nextLevel h rest

/-- `any(level[i] == level[i+1] for i in range(0, len(level)-1, 2))` -/
def levelMutated [DecidableEq α] : List α → Bool
  | a :: b :: rest => (a == b) || levelMutated rest
  | _ => false

theorem nextLevel_length (h : α → α → α) : ∀ l : List α, (nextLevel h l).length = (l.length + 1) / 2
  | [] => by simp [nextLevel]
  | [_] => by simp [nextLevel]
  | _ :: _ :: rest => by
    simp only [nextLevel, List.length_cons, nextLevel_length h rest]
    omega

/-- the `while len(level) != 1` loop; `none` = "empty merkle tree". `m` is the flag so far. -/
def rootLoop [DecidableEq α] (h : α → α → α) : List α → Bool → Option (α × Bool)
  | [], _ => none
  | [a], m => some (a, m)
  | a :: b :: rest, m =>
    rootLoop h (nextLevel h (a :: b :: rest)) (m || levelMutated (a :: b :: rest))
termination_by l => l.length
decreasing_by
  have := nextLevel_length h (a :: b :: rest)
  simp only [List.length_cons] at this ⊢
  omega

/-- `merkle_root_and_mutated_from_hashes` -/
def rootAndMutated [DecidableEq α] (h : α → α → α) (l : List α) : Option (α × Bool) := rootLoop h l false

def root [DecidableEq α] (h : α → α → α) (l : List α) : Option α := (rootAndMutated h l).map (·.1)

/-- position of the sibling of position `i` in a level (may be past the end for the odd last node) -/
def sibIdx (i : Nat) : Nat := if i % 2 = 1 then i - 1 else i + 1

/-- the sibling of position `i` (`i < l.length`): the neighbour, or the node itself when it is the
    duplicated odd last one. -/
def sibling (l : List α) (i : Nat) (dflt : α) : α :=
  (l[sibIdx i]?).getD ((l[i]?).getD dflt)

/-- merkle branch of leaf `i`: one sibling per level, bottom-up. -/
def branch (h : α → α → α) : List α → Nat → List α
  | [], _ => []
  | [_], _ => []
  | a :: b :: rest, i =>
    sibling (a :: b :: rest) i a :: branch h (nextLevel h (a :: b :: rest)) (i / 2)
termination_by l => l.length
decreasing_by
  have := nextLevel_length h (a :: b :: rest)
  simp only [List.length_cons] at this ⊢
  omega

inductive BranchErr | mutated | indexTooHigh | badLength | negative | innerTx
  deriving DecidableEq, Repr

def BranchErr.name : BranchErr → String
  | .mutated => "mutated" | .indexTooHigh => "toohigh" | .badLength => "length" | .negative => "negative"
  | .innerTx => "innertx"

/-- `merkle_root_from_branch` (the loop and the final leftover-bits check) -/
def rootFromBranch [DecidableEq α] (h : α → α → α) : α → List α → Nat → Except BranchErr α
  | r, [], i => if i ≠ 0 then .error .indexTooHigh else .ok r
  | r, s :: bs, i =>
    if i % 2 = 1 then
      if s = r then .error .mutated else rootFromBranch h (h s r) bs (i / 2)
    else rootFromBranch h (h r s) bs (i / 2)

/-- `merkle_root_from_branch` with a `check_inner_node` callback: `bad l r` = "the callback raises on the
    64 bytes `l ‖ r`" (`merkle_proof._assert_inner_node_is_not_a_tx`, CVE-2017-12842).  The callback runs
    after the CVE-2012-2459 refusal and before the pair is hashed. -/
def rootFromBranchChecked [DecidableEq α] (h : α → α → α) (bad : α → α → Bool) : α → List α → Nat → Except BranchErr α
  | r, [], i => if i ≠ 0 then .error .indexTooHigh else .ok r
  | r, s :: bs, i =>
    if i % 2 = 1 then
      if s = r then .error .mutated
      else if bad s r then .error .innerTx
      else rootFromBranchChecked h bad (h s r) bs (i / 2)
    else if bad r s then .error .innerTx
    else rootFromBranchChecked h bad (h r s) bs (i / 2)

/-- the (left, right) pairs hashed on the way up -/
def pathPairs (h : α → α → α) : α → List α → Nat → List (α × α)
  | _, [], _ => []
  | r, s :: bs, i =>
    if i % 2 = 1 then (s, r) :: pathPairs h (h s r) bs (i / 2)
    else (r, s) :: pathPairs h (h r s) bs (i / 2)

/-! ### the byte-level entry point with its width checks (`bytes_from_octets(·, 32)`) -/

def rootFromBranchBytesLoop (H : Bytes → Bytes) : Bytes → List Bytes → Nat → Except BranchErr Bytes
  | r, [], i => if i ≠ 0 then .error .indexTooHigh else .ok r
  | r, s :: bs, i =>
    if s.length ≠ 32 then .error .badLength
    else if i % 2 = 1 then
      if s = r then .error .mutated else rootFromBranchBytesLoop H (H (s ++ r)) bs (i / 2)
    else rootFromBranchBytesLoop H (H (r ++ s)) bs (i / 2)

def rootFromBranchBytes (H : Bytes → Bytes) (leaf : Bytes) (br : List Bytes) (index : Int) :
    Except BranchErr Bytes :=
  if index < 0 then .error .negative
  else if leaf.length ≠ 32 then .error .badLength
  else rootFromBranchBytesLoop H leaf br index.toNat

/-- the byte-level loop with the `check_inner_node` callback (`isTx pair` = the callback raises) -/
def rootFromBranchBytesCheckedLoop (H : Bytes → Bytes) (isTx : Bytes → Bool) :
    Bytes → List Bytes → Nat → Except BranchErr Bytes
  | r, [], i => if i ≠ 0 then .error .indexTooHigh else .ok r
  | r, s :: bs, i =>
    if s.length ≠ 32 then .error .badLength
    else if i % 2 = 1 then
      if s = r then .error .mutated
      else if isTx (s ++ r) then .error .innerTx
      else rootFromBranchBytesCheckedLoop H isTx (H (s ++ r)) bs (i / 2)
    else if isTx (r ++ s) then .error .innerTx
    else rootFromBranchBytesCheckedLoop H isTx (H (r ++ s)) bs (i / 2)

def rootFromBranchBytesChecked (H : Bytes → Bytes) (isTx : Bytes → Bool) (leaf : Bytes) (br : List Bytes)
    (index : Int) : Except BranchErr Bytes :=
  if index < 0 then .error .negative
  else if leaf.length ≠ 32 then .error .badLength
  else rootFromBranchBytesCheckedLoop H isTx leaf br index.toNat

/-- `merkle_proof.verify` (display byte order: txid, siblings and root reversed): every refusal is `False` -/
def proofVerify (H : Bytes → Bytes) (isTx : Bytes → Bool) (txid : Bytes) (br : List Bytes) (index : Int)
    (root : Bytes) : Bool :=
  root.length == 32 && txid.length == 32 && br.all (·.length == 32) &&
    (match rootFromBranchBytesChecked H isTx txid.reverse (br.map List.reverse) index with
     | .ok r => r.reverse == root
     | .error _ => false)

end Btc.Merkle
