import Model.C17.Merkle
import Generated.Pow
import Generated.Filter
/-
Block-level commitments of btclib/block/block.py and chain work of proof_of_work.py:
`assert_valid_merkle_root`, `witness_commitment`, `assert_valid_witness_commitment` over an arbitrary
hash, and `chain_work` as the sum of the translated `block_work`.  Hashes are in internal byte order
(the display-order reversal of `header.merkle_root` is representation glue done by the driver).
Core Lean only.
-/
namespace Btc.Block
open Btc

inductive Err | empty | badRoot | duplicate | unexpectedWitness | badNonce | badCommitment
  deriving DecidableEq, Repr

def Err.name : Err → String
  | .empty => "empty" | .badRoot => "root" | .duplicate => "duplicate"
  | .unexpectedWitness => "unexpected" | .badNonce => "nonce" | .badCommitment => "commitment"

/-- `Block.assert_valid_merkle_root`: the header root is the tree's over the txids, and the tree is not
    the CVE-2012-2459 mutation of a shorter list. -/
def assertMerkleRoot {α : Type} [DecidableEq α] (h : α → α → α) (headerRoot : α) (txids : List α) :
    Except Err Unit :=
  match Merkle.rootAndMutated h txids with
  | none => .error .empty
  | some (r, m) =>
    if r ≠ headerRoot then .error .badRoot
    else if m then .error .duplicate
    else .ok ()

/-- `Block.witness_commitment`: the 32 bytes after the prefix in the LAST coinbase output carrying it. -/
def witnessCommitment (coinbaseOutScripts : List Bytes) : Option Bytes :=
  ((coinbaseOutScripts.filter fun s =>
      decide (s.length ≥ Gen.Filter.COMMITMENT_LENGTH) && Gen.Filter.COMMITMENT_PREFIX.isPrefixOf s).map fun s =>
      (s.take Gen.Filter.COMMITMENT_LENGTH).drop Gen.Filter.COMMITMENT_PREFIX.length).getLast?

def zero32 : Bytes := List.replicate 32 0

/-- `Block.assert_valid_witness_commitment` (`wtxids`: hashes of the transactions after the coinbase,
    serialized with their witnesses). -/
def assertWitnessCommitment (H : Bytes → Bytes) (isSegwit : Bool) (coinbaseOutScripts : List Bytes)
    (coinbaseWitness : List Bytes) (wtxids : List Bytes) : Except Err Unit :=
  if !isSegwit then .ok ()
  else match witnessCommitment coinbaseOutScripts with
    | none => .error .unexpectedWitness
    | some c =>
      match coinbaseWitness with
      | [nonce] =>
        if nonce.length ≠ 32 then .error .badNonce
        else match Merkle.rootAndMutated (fun a b => H (a ++ b)) (zero32 :: wtxids) with
          | none => .error .empty
          | some (r, _) => if H (r ++ nonce) ≠ c then .error .badCommitment else .ok ()
      | _ => .error .badNonce

/-- `chain_work`: `sum(block_work(bits) for bits in bits_sequence)` over the translated `block_work` -/
def chainWork : List Bytes → Except Btc.Py.PyErr Int
  | [] => .ok 0
  | b :: rest => do
    let w ← Gen.Pow.block_work b
    let ws ← chainWork rest
    pure (w + ws)

inductive PowErr | width | negative | overflow | zero | aboveLimit | work
  deriving DecidableEq, Repr

def PowErr.name : PowErr → String
  | .width => "width" | .negative => "negative" | .overflow => "overflow" | .zero => "zero"
  | .aboveLimit => "above" | .work => "work"

/-- `BlockHeader.assert_valid_pow(pow_limit_bits)` over the translated codec, statement by statement: negative bits,
    then the target (overflow raised by `target_from_bits`), a zero target, a target above the limit's, the hash above
    the target.  The two `bytes > bytes` comparisons are between 32-byte big-endian strings, i.e. of the numbers. -/
def assertValidPow (bits limitBits hash : Bytes) : Except PowErr Unit :=
  match Gen.Pow.is_negative_bits bits with
  | .error _ => .error .width
  | .ok true => .error .negative
  | .ok false =>
    match Gen.Pow.target_from_bits bits with
    | .error _ => .error .overflow
    | .ok target =>
      if ofBE target = 0 then .error .zero
      else match Gen.Pow.target_from_bits limitBits with
        | .error _ => .error .overflow
        | .ok limit =>
          if ofBE target > ofBE limit then .error .aboveLimit
          else if ofBE hash > ofBE target then .error .work
          else .ok ()

end Btc.Block
