import Model.C17.Merkle
import Model.C05.Tx
/-
`merkle_proof._assert_inner_node_is_not_a_tx` (CVE-2017-12842): an inner node is refused when its 64
bytes are one whole serialized transaction that btclib writes back identically.  The transaction
parser/serializer is the C05 wire model (`Btc.Wire.Tx.parse`, `Tx.ser`, check_validity=False).
-/
namespace Btc.MerkleProof
open Btc

def innerNodeIsTx (node : Bytes) : Bool :=
  match Wire.Tx.parse node with
  | .ok (t, []) => t.ser true == node
  | _ => false

end Btc.MerkleProof
