import Model.Common.Py
/-
Hand transcription of Bitcoin Core's proof-of-work integer arithmetic, statement by statement:

* `arith_uint256::SetCompact(nCompact, pfNegative, pfOverflow)`   (src/arith_uint256.cpp)
* `arith_uint256::GetCompact(fNegative = false)`
* `CalculateNextWorkRequired` (src/pow.cpp, the non-BIP94 path, `fPowNoRetargeting = false`)
* `GetBlockProof` (src/chain.cpp)

`arith_uint256` is a natural number below 2^256: every operation that can leave that range is
followed by the explicit `% 2^256` the fixed-width type performs; `uint32_t`/`uint64_t` values
likewise.  This file is the *reference* the generated btclib functions (`Generated/Pow.lean`) are
proved equal to in `Props/C17.lean`; nothing here is derived from btclib.  Core Lean only.
-/
namespace Btc.CorePow

def U256 : Nat := 2 ^ 256
def U64 : Nat := 2 ^ 64
def U32 : Nat := 2 ^ 32

/-- `arith_uint256::bits()`: position of the highest set bit plus one, 0 for 0. -/
def bits (v : Nat) : Nat := Btc.Py.natBitLength v

structure SetCompactResult where
  value : Nat
  negative : Bool
  overflow : Bool
  deriving DecidableEq, Repr

/--
```
int nSize = nCompact >> 24;
uint32_t nWord = nCompact & 0x007fffff;
if (nSize <= 3) { nWord >>= 8 * (3 - nSize); *this = nWord; }
else { *this = nWord; *this <<= 8 * (nSize - 3); }
*pfNegative = nWord != 0 && (nCompact & 0x00800000) != 0;
*pfOverflow = nWord != 0 && ((nSize > 34) || (nWord > 0xff && nSize > 33) || (nWord > 0xffff && nSize > 32));
```
-/
def setCompact (nCompact : Nat) : SetCompactResult :=
  let nSize := nCompact >>> 24
  let nWord0 := nCompact &&& 0x007fffff
  let nWord := if nSize ≤ 3 then nWord0 >>> (8 * (3 - nSize)) else nWord0
  let this := if nSize ≤ 3 then nWord else (nWord <<< (8 * (nSize - 3))) % U256
  { value := this
    negative := nWord != 0 && (nCompact &&& 0x00800000) != 0
    overflow := nWord != 0 && (decide (nSize > 34) || (decide (nWord > 0xff) && decide (nSize > 33))
                  || (decide (nWord > 0xffff) && decide (nSize > 32))) }

/--
```
int nSize = (bits() + 7) / 8;
uint32_t nCompact = 0;
if (nSize <= 3) { nCompact = GetLow64() << 8 * (3 - nSize); }
else { arith_uint256 bn = *this >> 8 * (nSize - 3); nCompact = bn.GetLow64(); }
if (nCompact & 0x00800000) { nCompact >>= 8; nSize++; }
nCompact |= nSize << 24;
```
(`fNegative` is false at every call site modelled here, so the last `|=` of the sign is dropped.)
-/
def getCompact (this : Nat) : Nat :=
  let nSize := (bits this + 7) / 8
  let nCompact :=
    if nSize ≤ 3 then (((this % U64) <<< (8 * (3 - nSize))) % U64) % U32
    else ((this >>> (8 * (nSize - 3))) % U64) % U32
  let bump := (nCompact &&& 0x00800000) != 0
  let nCompact' := if bump then nCompact >>> 8 else nCompact
  let nSize' := if bump then nSize + 1 else nSize
  nCompact' ||| ((nSize' <<< 24) % U32)

/--
```
int64_t nActualTimespan = pindexLast->GetBlockTime() - nFirstBlockTime;
if (nActualTimespan < params.nPowTargetTimespan/4) nActualTimespan = params.nPowTargetTimespan/4;
if (nActualTimespan > params.nPowTargetTimespan*4) nActualTimespan = params.nPowTargetTimespan*4;
bnNew.SetCompact(pindexLast->nBits);
bnNew *= nActualTimespan;  bnNew /= params.nPowTargetTimespan;
if (bnNew > bnPowLimit) bnNew = bnPowLimit;
return bnNew.GetCompact();
```
`powTargetTimespan` = 14·24·60·60 on every network; `powLimit` is the network's limit (a uint256).
-/
def calculateNextWorkRequired (nBits : Nat) (actualTimespan : Int) (powLimit : Nat)
    (powTargetTimespan : Nat := 14 * 24 * 60 * 60) : Nat :=
  let lo : Int := (powTargetTimespan / 4 : Nat)
  let hi : Int := (powTargetTimespan * 4 : Nat)
  let t := if actualTimespan < lo then lo else actualTimespan
  let t := if t > hi then hi else t
  let bnNew := (setCompact nBits).value
  let bnNew := (bnNew * t.toNat) % U256
  let bnNew := bnNew / powTargetTimespan
  let bnNew := if bnNew > powLimit then powLimit else bnNew
  getCompact bnNew

/--
```
bnTarget.SetCompact(block.nBits, &fNegative, &fOverflow);
if (fNegative || fOverflow || bnTarget == 0) return 0;
return (~bnTarget / (bnTarget + 1)) + 1;
```
-/
def getBlockProof (nBits : Nat) : Nat :=
  let r := setCompact nBits
  if r.negative || r.overflow || r.value == 0 then 0
  else ((U256 - 1 - r.value) / (r.value + 1) + 1) % U256

end Btc.CorePow
