import Model.C07.Bip32
import Model.Common.Py
/-
C07 — the BIP85 applications of `btclib/bip85.py` that derive from a BIP32 path, bytes in, answer out.

Parameters: the BIP32 environment `E` (group operations, HMAC-SHA512, HASH160, version tables) and the
BIP85-DRNG `drng seed n` = `shake_256(seed).digest(n)` (the executable instance is `Btc.Keccak.shake256`).
`forced : Option Bytes` replaces the HMAC answer of `_entropy_from_der_path` (the harness stubs `bip85.hmac`
the same way) so that the key-range refusals of the WIF / XPRV applications are reached.

The path of every application is the one regenerated from the f-string of its source function
(`Gen.Bip32.BIP85_PATHS`), interpreted by `pathOf`; `Props.C07.bip85_paths_are_the_BIPs` pins the table to BIP85's text.
-/
namespace Btc.Bip85
open Btc Btc.Bip32

/-- an argument refused before anything is derived (`invalid number of …`, `invalid password length`, …) -/
inductive AErr
  | arg
  | bip32 (e : Bip32.Err)
  /-- the model's reading budget of the DRNG is exhausted (never an answer of the code, which reads on) -/
  | fuel
  deriving DecidableEq, Repr

def AErr.name : AErr → String
  | .arg => "arg" | .bip32 e => e.name | .fuel => "fuel"

def liftE {β} (r : Except Bip32.Err β) : Except AErr β :=
  match r with | .ok v => .ok v | .error e => .error (.bip32 e)

/-! ### paths -/

/-- one level of a path template: the purpose, a decimal literal `("", n)`, or an argument by the name the source
    gives it -/
def levelOf (args : List (String × Nat)) (s : String × Nat) : Option Nat :=
  if s.1 = "_PURPOSE" then some Gen.Bip32.BIP85_PURPOSE else
  if s.1 = "" then some s.2 else args.lookup s.1

/-- the levels (before hardening) of the path of application `fn`; `opt` says whether the optional levels are appended -/
def levelsOf (fn : String) (args : List (String × Nat)) (opt : Bool) : Option (List Nat) :=
  match Gen.Bip32.BIP85_PATHS.lookup fn with
  | none => none
  | some (lv, extra) => (lv ++ (if opt then extra else [])).mapM (levelOf args)

/-- `indexes_from_der_path(f"m/{a}h/{b}h/…")`: every level must be below 2^31 to be written hardened -/
def hardenAll (lv : List Nat) : Except AErr (List Nat) :=
  if lv.any (· ≥ HARDENED) then .error (.bip32 .badField) else .ok (lv.map (· + HARDENED))

section
variable {α : Type} (E : Env α)

/-- `_entropy_from_der_path` on indexes: the three path rules, `_derive`, the HMAC of the 32 key bytes -/
def entropyCore (forced : Option Bytes) (x : XKey) (idx : List Nat) : Except AErr Bytes :=
  if idx.length < Gen.Bip32.BIP85_MIN_INDEXES then .error (.bip32 .path) else
  if idx.head? ≠ some (Gen.Bip32.BIP85_PURPOSE + HARDENED) then .error (.bip32 .path) else
  if idx.any (· < HARDENED) then .error (.bip32 .path) else
  liftE ((deriveB E x idx none).map fun y =>
    match forced with
    | some e => e
    | none => E.mac Gen.Bip32.BIP85_KEY y.key.tail)

/-- the entropy of application `fn` with arguments `args`: key validated, path written and read back, derived -/
def appEntropy (forced : Option Bytes) (x : XKey) (fn : String) (args : List (String × Nat)) (opt : Bool := false) :
    Except AErr Bytes :=
  (liftE (assertValid E x)).bind fun _ =>
  match levelsOf fn args opt with
  | none => .error .arg
  | some lv => (hardenAll lv).bind fun idx => entropyCore E forced x idx

/-! ### the applications reading the 64 bytes -/

/-- 39': `entropy[: _ENTROPY_BYTES[words]]`, the entropy handed to BIP39 (language by its BIP85 code) -/
def bip39Entropy (forced : Option Bytes) (x : XKey) (words lang index : Nat) : Except AErr Bytes :=
  match Gen.Bip32.BIP85_ENTROPY_BYTES.lookup words with
  | none => .error .arg
  | some n =>
    if ¬ (Gen.Bip32.BIP85_LANGUAGES.any (·.2 = lang)) then .error .arg else
    (appEntropy E forced x "mnemonic_from_root_key"
      [("_LANGUAGE_INDEXES[lang]", lang), ("words", words), ("index", index)]).map (·.take n)

/-- 128169' (HEX): `entropy[:num_bytes]`, 16..64 -/
def hexApp (forced : Option Bytes) (x : XKey) (n index : Nat) : Except AErr Bytes :=
  if ¬ (Gen.Bip32.BIP85_MIN_BYTES ≤ n ∧ n ≤ Gen.Bip32.BIP85_MAX_BYTES) then .error .arg else
  (appEntropy E forced x "bytes_entropy_from_root_key" [("num_bytes", n), ("index", index)]).map (·.take n)

/-- 2' (HD-seed WIF): the payload Base58Check encodes — the network's WIF prefix, the leading 32 bytes as a scalar
    in `1..n-1`, the compressed marker -/
def wifPayload (forced : Option Bytes) (x : XKey) (index : Nat) : Except AErr Bytes :=
  (appEntropy E forced x "wif_from_root_key" [("index", index)]).bind fun e =>
  match Gen.Bip32.BIP85_NET_OF_VERSION.lookup x.version with
  | none => .error (.bip32 .badVersion)
  | some (wif, _) =>
    let q := ofBE (e.take 32)
    if 0 < q ∧ q < nN E then .ok (wif ++ beBytes 32 q ++ [1]) else .error (.bip32 .badKey)

/-- 32' (XPRV): chain code = the FIRST 32 bytes, key = the LAST 32 (BIP85's order, the reverse of BIP32's master key);
    depth, index, parent fingerprint zero; the version is the network's own xprv, not the root's -/
def xprvApp (forced : Option Bytes) (x : XKey) (index : Nat) : Except AErr XKey :=
  (appEntropy E forced x "xprv_from_root_key" [("index", index)]).bind fun e =>
  match Gen.Bip32.BIP85_NET_OF_VERSION.lookup x.version with
  | none => .error (.bip32 .badVersion)
  | some (_, ver) =>
    let y : XKey := { version := ver, depth := 0, parentFp := [0, 0, 0, 0], index := 0, chain := e.take 32,
                      key := 0 :: e.drop 32 }
    (liftE (assertValid E y)).map fun _ => y

/-! ### text encodings of the passwords -/

def B64_ALPHABET : List Char := "ABCDEFGHIJKLMNOPQRSTUVWXYZabcdefghijklmnopqrstuvwxyz0123456789+/".toList
/-- RFC 1924's alphabet, the one `base64.b85encode` writes -/
def B85_ALPHABET : List Char :=
  "0123456789ABCDEFGHIJKLMNOPQRSTUVWXYZabcdefghijklmnopqrstuvwxyz!#$%&()*+-;<=>?@^_`{|}~".toList

/-- the digits of `v` in base `b`, most significant first, exactly `k` of them -/
def digitsBE (b : Nat) : Nat → Nat → List Nat
  | 0, _ => []
  | k + 1, v => digitsBE b k (v / b) ++ [v % b]

/-- `base64.b64encode` -/
def b64encode : Bytes → List Char
  | [] => []
  | [a] => ((digitsBE 64 4 (ofBE [a, 0, 0])).take 2).map (B64_ALPHABET.getD · '?') ++ ['=', '=']
  | [a, b] => ((digitsBE 64 4 (ofBE [a, b, 0])).take 3).map (B64_ALPHABET.getD · '?') ++ ['=']
  | a :: b :: c :: rest => (digitsBE 64 4 (ofBE [a, b, c])).map (B64_ALPHABET.getD · '?') ++ b64encode rest

/-- `base64.b85encode` (no padding option): 4 bytes to 5 characters, a short last group zero-filled and its
    surplus characters dropped -/
def b85encode : Bytes → List Char
  | [] => []
  | [a] => ((digitsBE 85 5 (ofBE [a, 0, 0, 0])).take 2).map (B85_ALPHABET.getD · '?')
  | [a, b] => ((digitsBE 85 5 (ofBE [a, b, 0, 0])).take 3).map (B85_ALPHABET.getD · '?')
  | [a, b, c] => ((digitsBE 85 5 (ofBE [a, b, c, 0])).take 4).map (B85_ALPHABET.getD · '?')
  | a :: b :: c :: d :: rest => (digitsBE 85 5 (ofBE [a, b, c, d])).map (B85_ALPHABET.getD · '?') ++ b85encode rest

/-- 707764' (PWD BASE64): the leading `pwd_len` characters of the base64 of all 64 bytes, 20..86 -/
def pwd64 (forced : Option Bytes) (x : XKey) (len index : Nat) : Except AErr (List Char) :=
  if ¬ (Gen.Bip32.BIP85_MIN_B64_LEN ≤ len ∧ len ≤ Gen.Bip32.BIP85_MAX_B64_LEN) then .error .arg else
  (appEntropy E forced x "base64_password_from_root_key" [("pwd_len", len), ("index", index)]).map
    fun e => (b64encode e).take len

/-- 707785' (PWD BASE85): likewise in base85, 10..80 -/
def pwd85 (forced : Option Bytes) (x : XKey) (len index : Nat) : Except AErr (List Char) :=
  if ¬ (Gen.Bip32.BIP85_MIN_B85_LEN ≤ len ∧ len ≤ Gen.Bip32.BIP85_MAX_B85_LEN) then .error .arg else
  (appEntropy E forced x "base85_password_from_root_key" [("pwd_len", len), ("index", index)]).map
    fun e => (b85encode e).take len

end

/-! ### 89101' (DICE): trials off the DRNG, most significant bits, rejection -/

/-- `bits_per_roll = (sides - 1).bit_length()` -/
def bitsPerRoll (sides : Nat) : Nat := Py.natBitLength (sides - 1)
/-- `bytes_per_roll = -(-bits_per_roll // 8)` -/
def bytesPerRoll (sides : Nat) : Nat := (bitsPerRoll sides + 7) / 8
/-- `excess_bits = 8 * bytes_per_roll - bits_per_roll` -/
def excessBits (sides : Nat) : Nat := 8 * bytesPerRoll sides - bitsPerRoll sides

/-- one trial: the bytes read BIG-endian (BIP85), trimmed to their most significant `bits_per_roll` bits -/
def trialOf (sides : Nat) (chunk : Bytes) : Nat := ofBE chunk >>> excessBits sides

/-- the stream cut in reads of `k` bytes (`drng.read(k)` again and again); a short tail is dropped -/
def chunksOf (k : Nat) : Nat → Bytes → List Bytes
  | 0, _ => []
  | fuel + 1, s => if k = 0 ∨ s.length < k then [] else s.take k :: chunksOf k fuel (s.drop k)

/-- `while len(history) < rolls:` over the trials still available: a trial at or beyond `sides` is dropped, never
    folded; `none` when the trials run out first -/
def collect (sides : Nat) : List Nat → Nat → Option (List Nat)
  | [], n => if n = 0 then some [] else none
  | t :: ts, n =>
    if n = 0 then some [] else
    if t < sides then (collect sides ts (n - 1)).map (t :: ·) else collect sides ts n

/-- the rolls read off a stream prefix `s` -/
def rollsOfStream (sides rolls : Nat) (s : Bytes) : Option (List Nat) :=
  collect sides ((chunksOf (bytesPerRoll sides) s.length s).map (trialOf sides)) rolls

/-- how many trials the model reads before giving up (the code reads on for ever): 64 per roll and 256 more;
    each trial is accepted with probability above 1/2 (`Props.C07.bip85_trial_width`) -/
def trialBudget (rolls : Nat) : Nat := 64 * rolls + 256

section
variable {α : Type} (E : Env α)

/-- `rolls_from_root_key(root_key, rolls, sides, index)` -/
def rollsApp (drng : Bytes → Nat → Bytes) (forced : Option Bytes) (x : XKey) (rolls sides index : Nat) :
    Except AErr (List Nat) :=
  if rolls < Gen.Bip32.BIP85_MIN_ROLLS then .error .arg else
  if sides < Gen.Bip32.BIP85_MIN_SIDES then .error .arg else
  (appEntropy E forced x "rolls_from_root_key" [("sides", sides), ("rolls", rolls), ("index", index)]).bind fun e =>
  -- `BIP85DRNG(entropy)`: the seed must be 64 bytes
  if e.length ≠ Gen.Bip32.BIP85_DRNG_SEED_SIZE then .error (.bip32 .badField) else
  match rollsOfStream sides rolls (drng e (trialBudget rolls * bytesPerRoll sides)) with
  | some h => .ok h
  | none => .error .fuel

/-- `rsa_drng_from_root_key(...).read(n)`: the first `n` bytes of the stream of application 828365' -/
def rsaStream (drng : Bytes → Nat → Bytes) (forced : Option Bytes) (x : XKey) (keyBits keyIndex : Nat)
    (subKey : Option Nat) (n : Nat) : Except AErr Bytes :=
  (appEntropy E forced x "rsa_drng_from_root_key"
    [("key_bits", keyBits), ("key_index", keyIndex), ("sub_key", subKey.getD 0)] subKey.isSome).bind fun e =>
  if e.length ≠ Gen.Bip32.BIP85_DRNG_SEED_SIZE then .error (.bip32 .badField) else .ok (drng e n)

end

end Btc.Bip85
