import Model.Common.Bytes
import Generated.Bip32
/-
C07 — derivation-path spellings (`btclib/bip32/der_path.py`): text ("m/44h/0'/1H/0"), index
lists, and the 4-byte little-endian concatenation.  Strings are lists of characters; the model
covers Latin-1 text (that is what the driver can be handed), with Python's `str.strip()` and
`int()` restricted to it: whitespace = \t \n \v \f \r \x1c-\x1f space \x85 \xa0, digits = 0-9.
-/
namespace Btc.DerPath
open Btc

inductive Err
  /-- `invalid derivation index` / `invalid index` -/
  | index
  /-- `depth greater than 255` -/
  | depth
  /-- `invalid hardening symbol` -/
  | hardening
  /-- bytes not a multiple of four -/
  | size
  deriving DecidableEq, Repr

def Err.name : Err → String
  | .index => "index" | .depth => "depth" | .hardening => "hardening" | .size => "size"

def HARDENED : Nat := Gen.Bip32.HARDENED_OFFSET

def isWs (c : Char) : Bool :=
  c.toNat == 32 || (9 ≤ c.toNat && c.toNat ≤ 13) || (28 ≤ c.toNat && c.toNat ≤ 31) || c.toNat == 133 || c.toNat == 160

/-- what `int()` skips around the number: the same set WITHOUT \x1c-\x1f (CPython: `str.strip()` drops the four
    separators, `int()` does not accept them) -/
def isWsInt (c : Char) : Bool := isWs c && !(28 ≤ c.toNat && c.toNat ≤ 31)

def stripBy (p : Char → Bool) (s : List Char) : List Char := ((s.dropWhile p).reverse.dropWhile p).reverse

/-- `str.strip()` -/
def strip (s : List Char) : List Char := stripBy isWs s

/-- `str.split(sep)` -/
def splitOn (sep : Char) : List Char → List (List Char)
  | [] => [[]]
  | c :: cs =>
    if c = sep then [] :: splitOn sep cs
    else match splitOn sep cs with
      | h :: t => (c :: h) :: t
      | [] => [[c]]

def isDigit (c : Char) : Bool := c.isDigit

/-- digits with single underscores strictly between digits (what `int()` takes after the sign);
    `prev` is whether the previous character was a digit -/
def validBodyAux : Bool → List Char → Bool
  | prev, [] => prev
  | prev, c :: rest =>
    if isDigit c then validBodyAux true rest
    else if c == '_' && prev then (match rest with | d :: _ => isDigit d | [] => false) && validBodyAux false rest
    else false

/-- the optional sign of `int()` and what follows it -/
def signBody (s : List Char) : Bool × List Char :=
  match s with
  | '-' :: r => (true, r)
  | '+' :: r => (false, r)
  | _ => (false, s)

/-- Python's `int(s)` (base 10) on Latin-1 text -/
def pyInt (s : List Char) : Option Int :=
  let sb := signBody (stripBy isWsInt s)
  if validBodyAux false sb.2 then
    let v : Nat := Nat.ofDigitChars 10 (sb.2.filter (· ≠ '_')) 0
    some (if sb.1 then - (v : Int) else v)
  else none

/-- does the step end in one of the hardening symbols -/
def isHard (symbols : List Char) (s : List Char) : Bool :=
  match s.getLast? with
  | some c => symbols.contains c
  | none => false

/-- `_index_and_hardening_from_str` -/
def indexOfStep (symbols : List Char) (strict : Bool) (s : List Char) : Except Err Nat :=
  let hard := isHard symbols s
  let number := if hard then s.dropLast else s
  if strict && !(!number.isEmpty && number.all isDigit) then .error .index else
  match pyInt number with
  | none => .error .index
  | some v =>
    if 0 ≤ v ∧ v < (HARDENED : Int) then .ok (v.toNat + if hard then HARDENED else 0) else .error .index

def lower (c : Char) : Char := if 65 ≤ c.toNat ∧ c.toNat ≤ 90 then Char.ofNat (c.toNat + 32) else c

/-- the leading `m` (any case) is skipped -/
def skipM (steps : List (List Char)) : List (List Char) :=
  match steps with
  | h :: t => if h.map lower == ['m'] then t else steps
  | [] => steps

/-- `indexes_from_der_path(<str>)` (lenient reading: leading m skipped, empty steps dropped) -/
def indexesFromStr (s : List Char) : Except Err (List Nat) :=
  let steps := (skipM ((splitOn '/' s).map strip)).filter (fun st => !st.isEmpty)
  (steps.mapM (indexOfStep Gen.Bip32.HARDENINGS false)).bind fun idx =>
    if idx.length > Gen.Bip32.PATH_STR_MAX_LEN then .error .depth else .ok idx

/-- `indexes_from_der_path(<str>, bip380_enforced=True)` -/
def indexesFromStr380 (s : List Char) : Except Err (List Nat) :=
  let steps := (splitOn '/' s).map strip
  (steps.mapM (indexOfStep Gen.Bip32.BIP380_HARDENINGS true)).bind fun idx =>
    if idx.length > Gen.Bip32.PATH_STR_MAX_LEN then .error .depth else .ok idx

/-- `str_from_index_int` after `_assert_valid_index` -/
def strOfIndex (hardening : List Char) (i : Nat) : Except Err (List Char) :=
  if !(match hardening with | [c] => Gen.Bip32.BIP380_HARDENINGS.contains c | _ => false) then .error .hardening else
  if i < HARDENED then .ok (Nat.toDigits 10 i) else .ok (Nat.toDigits 10 (i - HARDENED) ++ hardening)

def intercalate (sep : Char) : List (List Char) → List Char
  | [] => []
  | [a] => a
  | a :: b :: rest => a ++ sep :: intercalate sep (b :: rest)

/-- `str_from_der_path(<list of int>, None, hardening)` -/
def strFromIndexes (idx : List Nat) (hardening : List Char) : Except Err (List Char) :=
  if idx.any (· > Gen.Bip32.PATH_MAX_INDEX) then .error .index else
  (idx.mapM (strOfIndex hardening)).map fun parts =>
    if parts.isEmpty then ['m'] else 'm' :: '/' :: intercalate '/' parts

/-- `bytes_from_der_path(<list of int>)` -/
def bytesFromIndexes (idx : List Nat) : Except Err Bytes :=
  if idx.any (· > Gen.Bip32.PATH_MAX_INDEX) then .error .index else
  .ok (idx.flatMap (leBytes 4))

def chunks4 : Nat → Bytes → List Nat
  | 0, _ => []
  | fuel + 1, b => if b.isEmpty then [] else ofLE (b.take 4) :: chunks4 fuel (b.drop 4)

/-- `indexes_from_der_path(<bytes>)` -/
def indexesFromBytes (b : Bytes) : Except Err (List Nat) :=
  if b.length % 4 ≠ 0 then .error .size else .ok (chunks4 b.length b)

end Btc.DerPath
