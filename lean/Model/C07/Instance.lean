import Model.C07.Bip32
import Model.Common.Hmac
import Model.Common.Ripemd160
/-
The executable instance of the BIP32 model: secp256k1 through the shared transcription of btclib's
curve arithmetic, HMAC-SHA512, HASH160, and the version tables regenerated from `btclib/network.py`.
-/
namespace Btc.Bip32
open Btc

def secpEnv (mac : Bytes → Bytes → Bytes := hmacSha512) : Env EC.Point :=
  { o := EC.ops EC.secp256k1, mac := mac, h160 := hash160, pubVersion := Gen.Bip32.pubVersion,
    isPrvVersion := fun v => Gen.Bip32.XPRV_VERSIONS_ALL.contains v,
    isPubVersion := fun v => Gen.Bip32.XPUB_VERSIONS_ALL.contains v }

end Btc.Bip32
