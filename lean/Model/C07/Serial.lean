import Model.C07.Bip32
/-
C07 — the 78 bytes of an extended key (`BIP32KeyData.serialize` / `BIP32KeyData.parse`): version ‖ depth ‖ parent
fingerprint ‖ index (big-endian) ‖ chain code ‖ key, `assert_valid` on both ways.  (Base58Check around it is C06's.)
-/
namespace Btc.Bip32
open Btc

/-- the 78 bytes, fields in BIP32's order -/
def serialBytes (x : XKey) : Bytes :=
  x.version ++ (UInt8.ofNat x.depth :: (x.parentFp ++ (beBytes 4 x.index ++ (x.chain ++ x.key))))

/-- the six fields read off 78 bytes -/
def fieldsOf (b : Bytes) : XKey :=
  let r1 := b.drop 4
  let r2 := r1.drop 1
  let r3 := r2.drop 4
  let r4 := r3.drop 4
  { version := b.take 4, depth := (r1.headD 0).toNat, parentFp := r2.take 4, index := ofBE (r3.take 4),
    chain := r4.take 32, key := r4.drop 32 }

section
variable {α : Type} (E : Env α)

/-- `BIP32KeyData.serialize` (`assert_valid` first) -/
def serialize (x : XKey) : Except Err Bytes := (assertValid E x).map fun _ => serialBytes x

/-- `BIP32KeyData.parse` on exactly 78 bytes (`assert_valid` on what was read) -/
def parse (b : Bytes) : Except Err XKey :=
  if b.length ≠ Gen.Bip32.REQUIRED_LENGTH then .error .badField else
  (assertValid E (fieldsOf b)).map fun _ => fieldsOf b

end
end Btc.Bip32
