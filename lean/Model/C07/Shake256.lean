import Model.Common.Bytes
/-
SHAKE256 (FIPS 202): Keccak-f[1600], rate 136 bytes, domain suffix 0x1F — the extendable-output function
BIP85-DRNG-SHAKE256 squeezes (`hashlib.shake_256(seed).digest(n)`).  Executable only (the theorems of C07 take the
stream as a parameter); validated against hashlib each run (`shake256` op of the driver).
-/
namespace Btc.Keccak
open Btc

def RC : Array UInt64 := #[
  0x0000000000000001, 0x0000000000008082, 0x800000000000808A, 0x8000000080008000, 0x000000000000808B,
  0x0000000080000001, 0x8000000080008081, 0x8000000000008009, 0x000000000000008A, 0x0000000000000088,
  0x0000000080008009, 0x000000008000000A, 0x000000008000808B, 0x800000000000008B, 0x8000000000008089,
  0x8000000000008003, 0x8000000000008002, 0x8000000000000080, 0x000000000000800A, 0x800000008000000A,
  0x8000000080008081, 0x8000000000008080, 0x0000000080000001, 0x8000000080008008]

/-- rotation offsets, indexed `x + 5 * y` -/
def ROT : Array Nat := #[
  0, 1, 62, 28, 27,
  36, 44, 6, 55, 20,
  3, 10, 43, 25, 39,
  41, 45, 15, 21, 8,
  18, 2, 61, 56, 14]

def rotl (x : UInt64) (n : Nat) : UInt64 :=
  if n % 64 = 0 then x else (x <<< (UInt64.ofNat (n % 64))) ||| (x >>> (UInt64.ofNat (64 - n % 64)))

def lane (a : Array UInt64) (x y : Nat) : UInt64 := a.getD ((x % 5) + 5 * (y % 5)) 0

/-- one round of Keccak-f[1600] -/
def round (a : Array UInt64) (rc : UInt64) : Array UInt64 :=
  let c : Array UInt64 := Array.ofFn (n := 5) fun x =>
    lane a x 0 ^^^ lane a x 1 ^^^ lane a x 2 ^^^ lane a x 3 ^^^ lane a x 4
  let d : Array UInt64 := Array.ofFn (n := 5) fun x => c.getD ((x.val + 4) % 5) 0 ^^^ rotl (c.getD ((x.val + 1) % 5) 0) 1
  let t : Array UInt64 := Array.ofFn (n := 25) fun i => a.getD i.val 0 ^^^ d.getD (i.val % 5) 0
  -- rho and pi: B[y, 2x + 3y] = rot(A[x, y]); read backwards: B[X, Y] comes from x = (X + 3Y) % 5, y = X
  let b : Array UInt64 := Array.ofFn (n := 25) fun i =>
    let bx := i.val % 5
    let by' := i.val / 5
    let x := (bx + 3 * by') % 5
    let y := bx
    rotl (lane t x y) (ROT.getD (x + 5 * y) 0)
  let e : Array UInt64 := Array.ofFn (n := 25) fun i =>
    let x := i.val % 5
    let y := i.val / 5
    lane b x y ^^^ ((~~~ lane b (x + 1) y) &&& lane b (x + 2) y)
  e.modify 0 (· ^^^ rc)

def permute (a : Array UInt64) : Array UInt64 := RC.foldl round a

def RATE : Nat := 136

/-- XOR a block of at most `RATE` bytes into the state (little-endian lanes) -/
def xorBlock (a : Array UInt64) (block : Bytes) : Array UInt64 :=
  Array.ofFn (n := 25) fun i =>
    a.getD i.val 0 ^^^ UInt64.ofNat (ofLE ((block.drop (8 * i.val)).take 8))

/-- absorb a message already padded to a multiple of the rate; `fuel` ≥ number of blocks -/
def absorb : Nat → Array UInt64 → Bytes → Array UInt64
  | 0, a, _ => a
  | fuel + 1, a, m => if m.isEmpty then a else absorb fuel (permute (xorBlock a (m.take RATE))) (m.drop RATE)

/-- the first `RATE` bytes of the state -/
def stateBytes (a : Array UInt64) : Bytes :=
  ((List.range 17).map fun i => leBytes 8 (a.getD i 0).toNat).flatten

/-- squeeze `blocks` blocks -/
def squeeze : Nat → Array UInt64 → Bytes
  | 0, _ => []
  | k + 1, a => stateBytes a ++ squeeze k (permute a)

/-- SHAKE padding: suffix 0x1F, zeros, last byte ORed with 0x80 -/
def pad (m : Bytes) : Bytes :=
  let z := RATE - 1 - m.length % RATE
  if z = 0 then m ++ [0x9F] else m ++ [0x1F] ++ List.replicate (z - 1) 0 ++ [0x80]

/-- `hashlib.shake_256(m).digest(n)` -/
def shake256 (m : Bytes) (n : Nat) : Bytes :=
  let p := pad m
  let a := absorb (p.length / RATE + 1) (Array.replicate 25 0) p
  (squeeze (n / RATE + 1) a).take n

end Btc.Keccak
