import Model.Common.GroupOps
import Model.Common.Bytes
import Generated.Bip32
/-
C07 — BIP32 derivation (`btclib/bip32/bip32.py`), written once over `Btc.GroupOps α`.

Two descriptions of the same thing live here, on purpose:

* the BIP's own: `ckdPriv`, `ckdPub`, `ckd`, and `deriveFold` = the plain fold of single child-key
  derivations over the path (each step sets all six fields of the child);
* btclib's: `deriveB` mirrors `_derive` function by function — the mutable working record
  `Working` (`_BIP32KeyData`, with its cached `prv_key_int`), depth set to the final depth up front,
  `indexes[:-1]` walked by `prvStepB` / `pubStepB` (`__prv_key_derivation` / `__pub_key_derivation`),
  the parent fingerprint taken one step short of the end, the public key computed for the
  fingerprint handed to the last private step, the public chain holding the *point* across steps
  (`_PubKeyTweakChain`), hardened indexes refused for the whole public path before any step.

`Props/C07.lean` proves the second is the first.  Parameters: the group operations `o`, the MAC
(`hmac.new(chain, data, "sha512").digest()`), `hash160`, and the xprv→xpub version table.
-/
namespace Btc.Bip32
open Btc

def HARDENED : Nat := Gen.Bip32.HARDENED_OFFSET
def MAX_DEPTH : Nat := Gen.Bip32.MAX_DEPTH

/-- `BIP32KeyData`: the six fields of an extended key -/
structure XKey where
  version : Bytes
  depth : Nat
  parentFp : Bytes
  index : Nat
  chain : Bytes
  key : Bytes
  deriving DecidableEq, Repr

inductive Err
  /-- `final depth greater than 255` -/
  | depth
  /-- `invalid hardened derivation from public key` -/
  | hardenedPub
  /-- `_invalid_child`: the hmac left half is not a valid scalar -/
  | childIL (i : Nat)
  /-- `_invalid_child`: the child private key is zero -/
  | childZero (i : Nat)
  /-- `_invalid_child`: the child public key is the point at infinity -/
  | childInf (i : Nat)
  | notPrivate
  | notPublic
  /-- 33 key bytes that are no scalar in 1..n-1 / no point -/
  | badKey
  | badVersion
  | badField
  | seedLen
  | notChild
  | hardenedChild
  | account
  | path
  deriving DecidableEq, Repr

/-- the same refusal seen from the public side: a zero private child is an infinity public child -/
def Err.toPub : Err → Err
  | .childZero i => .childInf i
  | e => e

def Err.name : Err → String
  | .depth => "depth" | .hardenedPub => "hardened" | .childIL _ => "child-il" | .childZero _ => "child-zero"
  | .childInf _ => "child-inf" | .notPrivate => "not-private" | .notPublic => "not-public" | .badKey => "bad-key"
  | .badVersion => "bad-version" | .badField => "bad-field" | .seedLen => "seed" | .notChild => "not-child"
  | .hardenedChild => "hardened-child" | .account => "account" | .path => "path"

/-- what the derivation is parameterised by -/
structure Env (α : Type) where
  o : GroupOps α
  /-- `hmac.new(key, msg, "sha512").digest()` -/
  mac : Bytes → Bytes → Bytes
  /-- `hashes.hash160` -/
  h160 : Bytes → Bytes
  /-- `network.xpubversion_from_xprvversion` -/
  pubVersion : Bytes → Option Bytes
  isPrvVersion : Bytes → Bool
  isPubVersion : Bytes → Bool

section
variable {α : Type} (E : Env α)

def nN : Nat := E.o.n.toNat

/-- the first four octets of HASH160 -/
def fpOf (key : Bytes) : Bytes := (E.h160 key).take 4

/-- `bytes_from_point(P, compressed=True)` for a 32-byte field -/
def serPoint (P : α) : Bytes :=
  (if E.o.y P % 2 = 0 then 2 else 3) :: beBytes 32 (E.o.x P).toNat

/-- `point_from_octets` on 33 compressed octets -/
def parsePoint (key : Bytes) : Option α :=
  match key with
  | [] => none
  | pfx :: xs =>
    if xs.length = 32 ∧ (pfx = 2 ∨ pfx = 3) then
      (E.o.liftX (ofBE xs : Nat)).map fun R => if pfx = 3 then E.o.neg R else R
    else none

/-- `bytes_from_prv_key_int(k)`: the compressed public key of a scalar -/
def pubOfPrv (k : Nat) : Bytes := serPoint E (E.o.mul (k : Int) E.o.gen)

def XKey.isPrivate (x : XKey) : Bool := x.key.head? == some 0
/-- the scalar spelled by `key[1:]` -/
def XKey.prvInt (x : XKey) : Nat := ofBE x.key.tail

/-- left and right halves of the MAC -/
def split (chain data : Bytes) : Bytes × Bytes :=
  let h := E.mac chain data
  (h.take 32, h.drop 32)

/-! ### the BIP's single steps -/

/-- the part of CKDpriv after the MAC: range check, tweak add, zero refusal, the child's six fields -/
def ckdPrivWith (x : XKey) (i : Nat) (pub : Bytes) (h : Bytes × Bytes) : Except Err XKey :=
  if ofBE h.1 ≥ nN E then .error (.childIL i) else
  let k' := (x.prvInt + ofBE h.1) % nN E
  if k' = 0 then .error (.childZero i) else
  .ok { version := x.version, depth := x.depth + 1, parentFp := fpOf E pub, index := i,
        chain := h.2, key := 0 :: beBytes 32 k' }

/-- CKDpriv: all six fields of the child of a private parent -/
def ckdPriv (x : XKey) (i : Nat) : Except Err XKey :=
  let pub := pubOfPrv E x.prvInt
  ckdPrivWith E x i pub (split E x.chain ((if i ≥ HARDENED then x.key else pub) ++ beBytes 4 i))

/-- the part of CKDpub after the MAC: range check, point tweak, infinity refusal, the six fields -/
def ckdPubWith (x : XKey) (i : Nat) (P : α) (h : Bytes × Bytes) : Except Err XKey :=
  if ofBE h.1 ≥ nN E then .error (.childIL i) else
  let P' := E.o.add P (E.o.mul ((ofBE h.1 : Nat) : Int) E.o.gen)
  if E.o.isZero P' then .error (.childInf i) else
  .ok { version := x.version, depth := x.depth + 1, parentFp := fpOf E x.key, index := i,
        chain := h.2, key := serPoint E P' }

/-- CKDpub: all six fields of the child of a public parent -/
def ckdPub (x : XKey) (i : Nat) : Except Err XKey :=
  if i ≥ HARDENED then .error .hardenedPub else
  match parsePoint E x.key with
  | none => .error .badKey
  | some P => ckdPubWith E x i P (split E x.chain (x.key ++ beBytes 4 i))

/-- one derivation step without the depth bound -/
def ckd' (x : XKey) (i : Nat) : Except Err XKey :=
  if x.isPrivate then ckdPriv E x i else ckdPub E x i

/-- one derivation step: a child deeper than 255 does not exist -/
def ckd (x : XKey) (i : Nat) : Except Err XKey :=
  if x.depth ≥ MAX_DEPTH then .error .depth else ckd' E x i

/-- BIP32's derivation along a path: the fold of single steps -/
def deriveFold (x : XKey) : List Nat → Except Err XKey
  | [] => .ok x
  | i :: p => (ckd E x i).bind fun y => deriveFold y p

/-- the same fold without the depth bound (used in proofs) -/
def deriveFold' (x : XKey) : List Nat → Except Err XKey
  | [] => .ok x
  | i :: p => (ckd' E x i).bind fun y => deriveFold' y p

/-- `_xpub_from_xprv`: neutered derivation -/
def neuter (x : XKey) : Except Err XKey :=
  if x.key.head? ≠ some 0 then .error .notPrivate else
  match E.pubVersion x.version with
  | none => .error .badVersion
  | some v =>
    if x.prvInt % nN E = 0 then .error .badKey else
    .ok { x with version := v, key := pubOfPrv E x.prvInt }

/-! ### btclib's shape -/

/-- `_BIP32KeyData`: the mutable working copy, with the cached scalar -/
structure Working where
  version : Bytes
  depth : Nat
  parentFp : Bytes
  index : Nat
  chain : Bytes
  key : Bytes
  prvKeyInt : Nat

/-- `__prv_key_derivation` after the MAC -/
def prvStepWith (w : Working) (i : Nat) (h : Bytes × Bytes) : Except Err Working :=
  if ofBE h.1 ≥ nN E then .error (.childIL i) else
  let k' := (w.prvKeyInt + ofBE h.1) % nN E
  if k' = 0 then .error (.childZero i) else
  .ok { w with chain := h.2, prvKeyInt := k', key := 0 :: beBytes 32 k' }

/-- `__prv_key_derivation(xkey, index, pub_key)`: mutates `chain_code`, `prv_key_int`, `key` only.
    (The delegated arm adds the tweak to `key[1:]`, the Python arm to `prv_key_int`; the two spell the
    same scalar — that invariant is part of what `Props.C07.deriveB_eq_fold` establishes.) -/
def prvStepB (w : Working) (i : Nat) (pubKey : Bytes) : Except Err Working :=
  let xb := (if i ≥ HARDENED then w.key
             else if pubKey ≠ [] then pubKey else pubOfPrv E w.prvKeyInt) ++ beBytes 4 i
  prvStepWith E w i (split E w.chain xb)

def walkPrv (w : Working) : List Nat → Except Err Working
  | [] => .ok w
  | i :: p => (prvStepB E w i []).bind fun w' => walkPrv w' p

/-- `__prv_key_path_derivation` (`indexes` non-empty): `last` is `indexes[-1]`, `init` is `indexes[:-1]` -/
def prvPathB (w : Working) (init : List Nat) (last : Nat) : Except Err Working :=
  (walkPrv E w init).bind fun w' =>
    let pub := pubOfPrv E w'.prvKeyInt
    prvStepB E { w' with parentFp := fpOf E pub } last pub

/-- `__pub_key_derivation` after the MAC -/
def pubStepWith (s : Working × α) (i : Nat) (h : Bytes × Bytes) : Except Err (Working × α) :=
  if ofBE h.1 ≥ nN E then .error (.childIL i) else
  let P' := E.o.add s.2 (E.o.mul ((ofBE h.1 : Nat) : Int) E.o.gen)
  if E.o.isZero P' then .error (.childInf i) else
  .ok ({ s.1 with chain := h.2, key := serPoint E P' }, P')

/-- `__pub_key_derivation(xkey, index, chain)`: the chain holds the point, `xkey` the serialized key -/
def pubStepB (s : Working × α) (i : Nat) : Except Err (Working × α) :=
  pubStepWith E s i (split E s.1.chain (s.1.key ++ beBytes 4 i))

def walkPub (s : Working × α) : List Nat → Except Err (Working × α)
  | [] => .ok s
  | i :: p => (pubStepB E s i).bind fun s' => walkPub s' p

/-- `__pub_key_path_derivation` -/
def pubPathB (w : Working) (init : List Nat) (last : Nat) : Except Err Working :=
  if (init ++ [last]).any (· ≥ HARDENED) then .error .hardenedPub else
  match parsePoint E w.key with
  | none => .error .badKey
  | some P =>
    (walkPub E (w, P) init).bind fun s =>
      (pubStepB E ({ s.1 with parentFp := fpOf E s.1.key }, s.2) last).map (·.1)

/-- `_force_version` -/
def forceVersion (version forced : Bytes) : Except Err Bytes :=
  if forced.length ≠ 4 then .error .badField else
  if (if E.isPrvVersion version then E.isPrvVersion forced else E.isPubVersion forced) then .ok forced
  else .error .badVersion

def Working.toXKey (w : Working) : XKey :=
  { version := w.version, depth := w.depth, parentFp := w.parentFp, index := w.index,
    chain := w.chain, key := w.key }

/-- `_derive`, first stage: the working copy at the final depth, version forced when asked
    (`if forced_version:` — None and the empty string are both "not forced") -/
def forceStage (x : XKey) (final : Nat) (forced : Option Bytes) : Except Err Working :=
  let w0 : Working :=
    { version := x.version, depth := final, parentFp := x.parentFp, index := x.index, chain := x.chain,
      key := x.key, prvKeyInt := if x.isPrivate then x.prvInt else 0 }
  match forced with
  | none => Except.ok w0
  | some [] => Except.ok w0
  | some f => (forceVersion E w0.version f).map fun v => { w0 with version := v }

/-- `_derive`, second stage: `if indexes:` walk the path privately or publicly, then set the index -/
def deriveWalk (isPrv : Bool) (w : Working) (idx : List Nat) : Except Err XKey :=
  match idx.getLast? with
  | none => .ok w.toXKey
  | some last =>
    ((if isPrv then prvPathB E w idx.dropLast last else pubPathB E w idx.dropLast last)).map
      fun (w' : Working) => Working.toXKey { w' with index := last }

/-- `_derive(xkey, indexes, forced_version)` -/
def deriveB (x : XKey) (idx : List Nat) (forced : Option Bytes) : Except Err XKey :=
  let final := x.depth + idx.length
  if final > MAX_DEPTH then .error .depth else
  (forceStage E x final forced).bind fun w => deriveWalk E x.isPrivate w idx

/-! ### validation, entry points -/

/-- `BIP32KeyData.assert_valid` (sizes, depth/index/fingerprint rule, key against version) -/
def assertValid (x : XKey) : Except Err Unit :=
  if x.version.length ≠ 4 ∨ x.parentFp.length ≠ 4 ∨ x.chain.length ≠ 32 ∨ x.key.length ≠ 33 then .error .badField else
  if x.index > Gen.Bip32.VALID_MAX_INDEX then .error .badField else
  if x.depth > Gen.Bip32.VALID_MAX_DEPTH then .error .badField else
  if x.depth = 0 ∧ (x.parentFp ≠ [0, 0, 0, 0] ∨ x.index ≠ 0) then .error .badField else
  if E.isPrvVersion x.version then
    if x.key.head? ≠ some 0 then .error .badKey
    else if 0 < x.prvInt ∧ x.prvInt < nN E then .ok () else .error .badKey
  else if E.isPubVersion x.version then
    if (parsePoint E x.key).isSome then .ok () else .error .badKey
  else .error .badVersion

/-- `derive_`: validate, `_derive`, validate the answer -/
def derive (x : XKey) (idx : List Nat) (forced : Option Bytes) : Except Err XKey :=
  (assertValid E x).bind fun _ =>
  -- `indexes_from_der_path`: every index is one of the 2^32
  if idx.any (· > Gen.Bip32.PATH_MAX_INDEX) then .error .badField else
  (deriveB E x idx forced).bind fun y => (assertValid E y).map fun _ => y

/-- `xpub_from_xprv_` -/
def xpubFromXprv (x : XKey) : Except Err XKey :=
  (assertValid E x).bind fun _ => (neuter E x).bind fun y => (assertValid E y).map fun _ => y

/-- `fingerprint` -/
def fingerprint (x : XKey) : Except Err Bytes :=
  (assertValid E x).bind fun _ =>
    if x.isPrivate then (neuter E x).map fun y => fpOf E y.key else .ok (fpOf E x.key)

/-- `_rootxprv_from_seed` (+ the constructor's validation) -/
def rootFromSeed (seed version : Bytes) : Except Err XKey :=
  let bits := seed.length * 8
  if bits < Gen.Bip32.SEED_MIN_BITS ∨ bits > Gen.Bip32.SEED_MAX_BITS then .error .seedLen else
  let h := split E Gen.Bip32.SEED_KEY seed
  if version.length ≠ 4 then .error .badField else
  let x : XKey := { version := version, depth := 0, parentFp := [0, 0, 0, 0], index := 0, chain := h.2, key := 0 :: h.1 }
  (assertValid E x).map fun _ => x

/-- the arithmetic of `crack_prv_key_var` (after the two keys were validated and found to be a public
    and a private one): relationship checks, then `(child - offset) mod n` -/
def crackCore (p c : XKey) : Except Err XKey :=
  if c.depth ≠ p.depth + 1 then .error .notChild else
  if c.parentFp ≠ fpOf E p.key then .error .notChild else
  if c.index ≥ HARDENED then .error .hardenedChild else
  let h := split E p.chain (p.key ++ beBytes 4 c.index)
  -- Python `(child_q - offset) % n`
  let q := ((c.prvInt : Int) - (ofBE h.1 : Nat)) % (nN E : Int)
  .ok { version := c.version, depth := p.depth, parentFp := p.parentFp, index := p.index,
        chain := p.chain, key := 0 :: beBytes 32 q.toNat }

/-- `crack_prv_key_var(parent_xpub, child_xprv)` -/
def crack (p c : XKey) : Except Err XKey :=
  (assertValid E p).bind fun _ =>
  if ¬ (p.key.head? = some 2 ∨ p.key.head? = some 3) then .error .notPublic else
  (assertValid E c).bind fun _ =>
  if c.key.head? ≠ some 0 then .error .notPrivate else
  (crackCore E p c).bind fun parent => (assertValid E parent).map fun _ => parent

/-- `_derive_from_account` behind `derive_from_account_` -/
def deriveFromAccount (x : XKey) (branch addr : Nat) (only01 : Bool) (maxIndex : Nat) : Except Err XKey :=
  (assertValid E x).bind fun _ =>
  if x.index < HARDENED then .error .account else
  if branch ≥ HARDENED ∨ branch > maxIndex ∨ (only01 ∧ branch ≠ 0 ∧ branch ≠ 1) then .error .account else
  if addr ≥ HARDENED ∨ addr > maxIndex then .error .account else
  (deriveB E x [branch, addr] none).bind fun y => (assertValid E y).map fun _ => y

/-- `derive_from_account_range_` -/
def deriveFromAccountRange (x : XKey) (branch : Nat) (addrs : List Nat) (only01 : Bool) (maxIndex : Nat) :
    Except Err (List XKey) :=
  (assertValid E x).bind fun _ =>
  if x.index < HARDENED then .error .account else
  if branch ≥ HARDENED ∨ branch > maxIndex ∨ (only01 ∧ branch ≠ 0 ∧ branch ≠ 1) then .error .account else
  if addrs.any (fun a => a ≥ HARDENED ∨ a > maxIndex) then .error .account else
  if addrs = [] then .ok [] else
  (deriveB E x [branch] none).bind fun b =>
    (addrs.mapM fun a => deriveB E b [a] none).bind fun ys =>
      (ys.mapM fun y => assertValid E y).map fun _ => ys

/-- the steps of `pub_key_derivation_tweaks`: the chain holds the point, `key` its serialization -/
def walkTweaks (key chain : Bytes) (P : α) : List Nat → Except Err (List Bytes)
  | [] => .ok []
  | i :: p =>
    let h := split E chain (key ++ beBytes 4 i)
    if ofBE h.1 ≥ nN E then .error (.childIL i) else
    let P' := E.o.add P (E.o.mul ((ofBE h.1 : Nat) : Int) E.o.gen)
    if E.o.isZero P' then .error (.childInf i) else
    (walkTweaks (serPoint E P') h.2 P' p).map fun ts => h.1 :: ts

/-- `pub_key_derivation_tweaks(pub_key, chain_code, der_path)`: the 32-byte tweak each unhardened step adds;
    a hardened index anywhere is refused before any step is walked -/
def pubTweaks (key chain : Bytes) (idx : List Nat) : Except Err (List Bytes) :=
  if key.length ≠ 33 ∨ chain.length ≠ 32 then .error .badField else
  if idx.any (· > Gen.Bip32.PATH_MAX_INDEX) then .error .badField else
  if idx.any (· ≥ HARDENED) then .error .hardenedPub else
  match parsePoint E key with
  | none => .error .badKey
  | some P => walkTweaks E key chain P idx

/-- `bip85._entropy_from_der_path` behind `entropy_from_der_path` -/
def bip85Entropy (x : XKey) (idx : List Nat) : Except Err Bytes :=
  (assertValid E x).bind fun _ =>
  if idx.length < Gen.Bip32.BIP85_MIN_INDEXES then .error .path else
  if idx.head? ≠ some (Gen.Bip32.BIP85_PURPOSE + HARDENED) then .error .path else
  if idx.any (· < HARDENED) then .error .path else
  (deriveB E x idx none).map fun y => E.mac Gen.Bip32.BIP85_KEY y.key.tail

end

end Btc.Bip32
