import Model.C15.Compile
/-
C15 — the static bounds: `miniscript.py: _computed_ops (_leaf_ops, _wrapper_ops, _binary_ops,
_thresh_ops), _computed_stack (_leaf_stack, _wrapper_stack, _binary_stack, _thresh_stack),
_computed_witness (_leaf_witness, _wrapper_witness, _binary_witness, _thresh_witness)` and the
properties read off them: `max_ops, max_stack_items, max_exec_stack_items, max_witness_size,
is_within_resource_limits, has_duplicate_keys, is_sane`.  Hand-modelled, tied by the `bounds`
correspondence stream; the leaf op-count rows, overheads and limits are the generated tables.
-/
namespace Btc.Miniscript

open Btc Gen.Miniscript

abbrev OB := Option Nat

/-- `_add`. -/
def addO : OB → OB → OB
  | some a, some b => some (a + b)
  | _, _ => none

/-- `_worst`. -/
def worstO : OB → OB → OB
  | none, b => b
  | a, none => a
  | some a, some b => some (max a b)

structure Bounds where
  sat : OB
  dsat : OB
  deriving DecidableEq, Repr

/-- `_Trace`. -/
structure Trace where
  net : Int
  peak : Int
  deriving DecidableEq, Repr

abbrev OT := Option Trace

/-- `_union`. -/
def unionT : OT → OT → OT
  | none, b => b
  | a, none => a
  | some a, some b => some ⟨max a.net b.net, max a.peak b.peak⟩

/-- `_concat`. -/
def concatT : OT → OT → OT
  | some a, some b => some ⟨a.net + b.net, max b.peak (b.net + a.peak)⟩
  | _, _ => none

def tEMPTY : OT := some ⟨0, 0⟩
def tPUSH : OT := some ⟨-1, 0⟩
def tNOP : OT := some ⟨0, 0⟩
def tIF : OT := some ⟨1, 1⟩
def tBINARY : OT := some ⟨1, 1⟩
def tONEARG : OT := some ⟨1, 1⟩
def tEQUALVERIFY : OT := some ⟨2, 2⟩

/-- `_hash_trace()`. -/
def hashTrace : OT :=
  concatT (concatT (concatT tPUSH tPUSH) (concatT tEQUALVERIFY tNOP)) (concatT tPUSH tONEARG)

/-- one step of the "reached[j]" recurrences of the thresh() analyses. -/
def dpGo {α : Type} (mid : α → α → α) (last : α → α) (prev : α) : List α → List α
  | [] => [last prev]
  | cur :: rest => mid prev cur :: dpGo mid last cur rest

def dpStep {α : Type} (first : α → α) (mid : α → α → α) (last : α → α) : List α → List α
  | [] => []
  | r0 :: rest => first r0 :: dpGo mid last r0 rest

/-- everything `__post_init__` computes beside the type and the script size. -/
structure Info where
  staticOps : Nat
  ops : Bounds
  stack : OT × OT
  witness : Bounds

def sigSize : Ctx → Nat
  | .tapscript => SIGNATURE_SIZE_TAPSCRIPT
  | .p2wsh => SIGNATURE_SIZE_P2WSH

def leafOpsRow (r : Nat × Option Nat × Option Nat) : Nat × Bounds := (r.1, ⟨r.2.1, r.2.2⟩)

def threshOpsStep (reached : List OB) (i : Info) : List OB :=
  dpStep (fun r0 => addO r0 i.ops.dsat)
    (fun prev cur => worstO (addO cur i.ops.dsat) (addO prev i.ops.sat))
    (fun l => addO l i.ops.sat) reached

def threshWitStep (reached : List OB) (i : Info) : List OB :=
  dpStep (fun r0 => addO r0 i.witness.dsat)
    (fun prev cur => worstO (addO cur i.witness.dsat) (addO prev i.witness.sat))
    (fun l => addO l i.witness.sat) reached

def threshStackStep (reached : List OT) (i : Info) (add : OT) : List OT :=
  dpStep (fun r0 => concatT (concatT r0 i.stack.2) add)
    (fun prev cur => concatT (unionT (concatT cur i.stack.2) (concatT prev i.stack.1)) add)
    (fun l => concatT (concatT l i.stack.1) add) reached

mutual
def info (ctx : Ctx) : Ms → Info
  | .f0 =>
    { staticOps := leafOps0.1, ops := (leafOpsRow leafOps0).2, stack := (none, tPUSH),
      witness := ⟨none, some 0⟩ }
  | .f1 =>
    { staticOps := leafOps1.1, ops := (leafOpsRow leafOps1).2, stack := (tPUSH, none),
      witness := ⟨some 0, none⟩ }
  | .pk_k _ =>
    { staticOps := leafOpsPkK.1, ops := (leafOpsRow leafOpsPkK).2, stack := (tPUSH, tPUSH),
      witness := ⟨some (1 + sigSize ctx), some 1⟩ }
  | .pk_h _ =>
    let t := concatT (concatT tPUSH tNOP) (concatT tPUSH tEQUALVERIFY)
    { staticOps := leafOpsPkH.1, ops := (leafOpsRow leafOpsPkH).2, stack := (t, t),
      witness := ⟨some (1 + sigSize ctx + (1 + keySize ctx)), some (1 + (1 + keySize ctx))⟩ }
  | .older _ | .after _ =>
    { staticOps := leafOpsLock.1, ops := (leafOpsRow leafOpsLock).2,
      stack := (concatT tPUSH tNOP, none), witness := ⟨some 0, none⟩ }
  | .hash _ _ =>
    { staticOps := leafOpsHash.1, ops := (leafOpsRow leafOpsHash).2, stack := (hashTrace, none),
      witness := ⟨some (1 + 32), none⟩ }
  | .multi k keys =>
    let t : OT := some ⟨k, k + keys.length + 2⟩
    { staticOps := 1, ops := ⟨some keys.length, some keys.length⟩, stack := (t, t),
      witness := ⟨some (k * (1 + sigSize ctx) + 1), some (k + 1)⟩ }
  | .multi_a k keys =>
    let t : OT := some ⟨(keys.length : Int) - 1, keys.length⟩
    { staticOps := keys.length + 1, ops := ⟨some 0, some 0⟩, stack := (t, t),
      witness := ⟨some (k * (1 + sigSize ctx) + keys.length - k), some keys.length⟩ }
  | .wrap w x =>
    let s := info ctx x
    let (ssat, sdsat) := s.stack
    match w with
    | .v =>
      { staticOps := s.staticOps + (typeOf ctx x).x.toNat, ops := ⟨s.ops.sat, none⟩,
        stack := (concatT ssat tONEARG, none), witness := ⟨s.witness.sat, none⟩ }
    | .a | .s | .n =>
      { staticOps := overhead w.frag + s.staticOps, ops := s.ops, stack := s.stack, witness := s.witness }
    | .c =>
      { staticOps := overhead w.frag + s.staticOps, ops := s.ops,
        stack := (concatT ssat tONEARG, concatT sdsat tONEARG), witness := s.witness }
    | .d =>
      let pre := concatT tPUSH tIF
      { staticOps := overhead w.frag + s.staticOps, ops := ⟨s.ops.sat, some 0⟩,
        stack := (concatT pre ssat, pre), witness := ⟨addO (some 2) s.witness.sat, some 1⟩ }
    | .j =>
      let pre := concatT (concatT tPUSH tNOP) tIF
      { staticOps := overhead w.frag + s.staticOps, ops := ⟨s.ops.sat, some 0⟩,
        stack := (concatT pre ssat, pre), witness := ⟨s.witness.sat, some 1⟩ }
  | .bin b x y =>
    let ix := info ctx x
    let iy := info ctx y
    let (xs, xd) := ix.stack
    let (ys, yd) := iy.stack
    let xo := ix.ops
    let yo := iy.ops
    let xw := ix.witness
    let yw := iy.witness
    let st := ix.staticOps + iy.staticOps + overhead b.frag
    match b with
    | .and_v =>
      { staticOps := st, ops := ⟨addO xo.sat yo.sat, none⟩, stack := (concatT xs ys, none),
        witness := ⟨addO xw.sat yw.sat, none⟩ }
    | .and_b =>
      { staticOps := st, ops := ⟨addO xo.sat yo.sat, addO xo.dsat yo.dsat⟩,
        stack := (concatT (concatT xs ys) tBINARY, concatT (concatT xd yd) tBINARY),
        witness := ⟨addO xw.sat yw.sat, addO xw.dsat yw.dsat⟩ }
    | .or_b =>
      { staticOps := st,
        ops := ⟨worstO (addO xo.sat yo.dsat) (addO yo.sat xo.dsat), addO xo.dsat yo.dsat⟩,
        stack := (concatT (unionT (concatT xs yd) (concatT xd ys)) tBINARY,
                  concatT (concatT xd yd) tBINARY),
        witness := ⟨worstO (addO xw.dsat yw.sat) (addO xw.sat yw.dsat), addO xw.dsat yw.dsat⟩ }
    | .or_c =>
      { staticOps := st, ops := ⟨worstO xo.sat (addO yo.sat xo.dsat), none⟩,
        stack := (unionT (concatT xs tIF) (concatT (concatT xd tIF) ys), none),
        witness := ⟨worstO xw.sat (addO xw.dsat yw.sat), none⟩ }
    | .or_d =>
      let taken := concatT (concatT xs tPUSH) tIF
      let notTaken := concatT (concatT xd tEMPTY) tIF
      { staticOps := st, ops := ⟨worstO xo.sat (addO yo.sat xo.dsat), addO xo.dsat yo.dsat⟩,
        stack := (unionT taken (concatT notTaken ys), concatT notTaken yd),
        witness := ⟨worstO xw.sat (addO xw.dsat yw.sat), addO xw.dsat yw.dsat⟩ }
    | .or_i =>
      { staticOps := st, ops := ⟨worstO xo.sat yo.sat, worstO xo.dsat yo.dsat⟩,
        stack := (concatT tIF (unionT xs ys), concatT tIF (unionT xd yd)),
        witness := ⟨worstO (addO xw.sat (some 2)) (addO yw.sat (some 1)),
                    worstO (addO xw.dsat (some 2)) (addO yw.dsat (some 1))⟩ }
  | .andor x y z =>
    let ix := info ctx x
    let iy := info ctx y
    let iz := info ctx z
    let (xs, xd) := ix.stack
    let (ys, _) := iy.stack
    let (zs, zd) := iz.stack
    { staticOps := ix.staticOps + iy.staticOps + iz.staticOps + overhead .andor,
      ops := ⟨worstO (addO iy.ops.sat ix.ops.sat) (addO ix.ops.dsat iz.ops.sat),
              addO ix.ops.dsat iz.ops.dsat⟩,
      stack := (unionT (concatT (concatT xs tIF) ys) (concatT (concatT xd tIF) zs),
                concatT (concatT xd tIF) zd),
      witness := ⟨worstO (addO ix.witness.sat iy.witness.sat) (addO ix.witness.dsat iz.witness.sat),
                  addO ix.witness.dsat iz.witness.dsat⟩ }
  | .thresh k x xs =>
    let ix := info ctx x
    let rest := infoL ctx xs
    let all := ix :: rest
    let static := all.foldl (fun acc i => acc + i.staticOps + 1) 0
    let ro := all.foldl threshOpsStep [some 0]
    let rw := all.foldl threshWitStep [some 0]
    let rs0 := threshStackStep [tEMPTY] ix tEMPTY
    let rs := rest.foldl (fun r i => threshStackStep r i tBINARY) rs0
    let equal := concatT tPUSH tONEARG
    { staticOps := static,
      ops := ⟨(ro.getD k none), (ro.getD 0 none)⟩,
      stack := (concatT (rs.getD k none) equal, concatT (rs.getD 0 none) equal),
      witness := ⟨(rw.getD k none), (rw.getD 0 none)⟩ }
def infoL (ctx : Ctx) : MsL → List Info
  | .nil => []
  | .cons x xs => info ctx x :: infoL ctx xs
end

mutual
/-- `key_expressions`: every key of the tree, left to right. -/
def keysOf : Ms → List Key
  | .pk_k k | .pk_h k => [k]
  | .multi _ keys | .multi_a _ keys => keys
  | .wrap _ x => keysOf x
  | .bin _ x y => keysOf x ++ keysOf y
  | .andor x y z => keysOf x ++ keysOf y ++ keysOf z
  | .thresh _ x xs => keysOf x ++ keysOfL xs
  | _ => []
def keysOfL : MsL → List Key
  | .nil => []
  | .cons x xs => keysOf x ++ keysOfL xs
end

def hasDup : List Key → Bool
  | [] => false
  | k :: ks => ks.contains k || hasDup ks

def leavesValue (p : Props) : Int := if p.B || p.K || p.W then 1 else 0

def maxOps (ctx : Ctx) (n : Ms) : OB := addO (some (info ctx n).staticOps) (info ctx n).ops.sat
def maxStackItems (ctx : Ctx) (n : Ms) : Option Int :=
  (info ctx n).stack.1.map fun t => t.net + leavesValue (typeOf ctx n)
def maxExecStackItems (ctx : Ctx) (n : Ms) : Option Int :=
  (info ctx n).stack.1.map fun t => t.peak + leavesValue (typeOf ctx n)
def maxWitnessSize (ctx : Ctx) (n : Ms) : OB := (info ctx n).witness.sat

/-- `is_within_resource_limits`. -/
def withinLimits (ctx : Ctx) (n : Ms) : Bool :=
  isValid ctx n &&
  match ctx with
  | .tapscript => match maxExecStackItems ctx n with
    | none => true
    | some i => decide (i ≤ MAX_STACK_SIZE)
  | .p2wsh =>
    (match maxOps ctx n with | none => true | some o => decide (o ≤ MAX_OPS_PER_SCRIPT)) &&
    (match maxStackItems ctx n with | none => true | some e => decide (e ≤ MAX_STANDARD_P2WSH_STACK_ITEMS))

/-- `is_sane`. -/
def isSane (ctx : Ctx) (n : Ms) : Bool :=
  let t := typeOf ctx n
  (isValid ctx n && t.B) && (withinLimits ctx n && t.m && t.k && !hasDup (keysOf n)) && t.s

def renderOB : OB → String
  | none => "None"
  | some n => toString n
def renderOI : Option Int → String
  | none => "None"
  | some n => toString n

end Btc.Miniscript
