import Model.C15.Compile
/-
C15 — line-protocol rendering of an expression (driver support only; no theorem depends on it).
Prefix notation, one token per item:
  0 | 1 | pk_k HEX | pk_h HEX | older N | after N | sha256 HEX | hash256 HEX | ripemd160 HEX |
  hash160 HEX | multi K N HEX*N | multi_a K N HEX*N | a: X | s: X | c: X | d: X | v: X | j: X | n: X |
  and_v X Y | and_b X Y | or_b X Y | or_c X Y | or_d X Y | or_i X Y | andor X Y Z | thresh K N X*N
-/
namespace Btc.Miniscript.Wire

open Btc Btc.Miniscript

def Wrap.name : Wrap → String
  | .a => "a:" | .s => "s:" | .c => "c:" | .d => "d:" | .v => "v:" | .j => "j:" | .n => "n:"

def Bin.name : Bin → String
  | .and_v => "and_v" | .and_b => "and_b" | .or_b => "or_b" | .or_c => "or_c" | .or_d => "or_d"
  | .or_i => "or_i"

def wrapOf? : String → Option Wrap
  | "a:" => some .a | "s:" => some .s | "c:" => some .c | "d:" => some .d | "v:" => some .v
  | "j:" => some .j | "n:" => some .n | _ => none

def binOf? : String → Option Bin
  | "and_v" => some .and_v | "and_b" => some .and_b | "or_b" => some .or_b | "or_c" => some .or_c
  | "or_d" => some .or_d | "or_i" => some .or_i | _ => none

def hashOf? : String → Option HashKind
  | "sha256" => some .sha256 | "hash256" => some .hash256 | "ripemd160" => some .ripemd160
  | "hash160" => some .hash160 | _ => none

def readHexN : Nat → List String → Option (List Bytes × List String)
  | 0, ts => some ([], ts)
  | n + 1, t :: ts => do
    let b ← fromHex? t
    let (bs, rest) ← readHexN n ts
    pure (b :: bs, rest)
  | _, [] => none

mutual
partial def readMs : List String → Option (Ms × List String)
  | "0" :: ts => some (.f0, ts)
  | "1" :: ts => some (.f1, ts)
  | "pk_k" :: h :: ts => (fromHex? h).map fun b => (.pk_k b, ts)
  | "pk_h" :: h :: ts => (fromHex? h).map fun b => (.pk_h b, ts)
  | "older" :: n :: ts => n.toNat?.map fun n => (.older n, ts)
  | "after" :: n :: ts => n.toNat?.map fun n => (.after n, ts)
  | "multi" :: k :: n :: ts => do
    let k ← k.toNat?
    let n ← n.toNat?
    let (keys, rest) ← readHexN n ts
    pure (.multi k keys, rest)
  | "multi_a" :: k :: n :: ts => do
    let k ← k.toNat?
    let n ← n.toNat?
    let (keys, rest) ← readHexN n ts
    pure (.multi_a k keys, rest)
  | "andor" :: ts => do
    let (x, ts) ← readMs ts
    let (y, ts) ← readMs ts
    let (z, ts) ← readMs ts
    pure (.andor x y z, ts)
  | "thresh" :: k :: n :: ts => do
    let k ← k.toNat?
    let n ← n.toNat?
    if n = 0 then none else
    let (x, ts) ← readMs ts
    let (xs, ts) ← readMsN (n - 1) ts
    pure (.thresh k x xs, ts)
  | t :: ts =>
    match wrapOf? t, binOf? t, hashOf? t with
    | some w, _, _ => do
      let (x, ts) ← readMs ts
      pure (.wrap w x, ts)
    | _, some b, _ => do
      let (x, ts) ← readMs ts
      let (y, ts) ← readMs ts
      pure (.bin b x y, ts)
    | _, _, some h =>
      match ts with
      | d :: ts => (fromHex? d).map fun b => (.hash h b, ts)
      | [] => none
    | _, _, _ => none
  | [] => none
partial def readMsN : Nat → List String → Option (MsL × List String)
  | 0, ts => some (.nil, ts)
  | n + 1, ts => do
    let (x, ts) ← readMs ts
    let (xs, ts) ← readMsN n ts
    pure (.cons x xs, ts)
end

mutual
partial def render : Ms → List String
  | .f0 => ["0"]
  | .f1 => ["1"]
  | .pk_k k => ["pk_k", toHex k]
  | .pk_h k => ["pk_h", toHex k]
  | .older n => ["older", toString n]
  | .after n => ["after", toString n]
  | .hash h d => [Gen.Miniscript.hashName h, toHex d]
  | .multi k keys => ["multi", toString k, toString keys.length] ++ keys.map toHex
  | .multi_a k keys => ["multi_a", toString k, toString keys.length] ++ keys.map toHex
  | .wrap w x => Wrap.name w :: render x
  | .bin b x y => Bin.name b :: (render x ++ render y)
  | .andor x y z => "andor" :: (render x ++ render y ++ render z)
  | .thresh k x xs => ["thresh", toString k, toString (xs.length + 1)] ++ render x ++ renderL xs
partial def renderL : MsL → List String
  | .nil => []
  | .cons x xs => render x ++ renderL xs
end

/-- `k1:h1,k2:h2` (or `-`): the hash160 of each key, as the harness computed it. -/
def readTable (s : String) : Option (List (Bytes × Bytes)) :=
  if s == "-" then some [] else
  (s.splitOn ",").mapM fun kv =>
    match kv.splitOn ":" with
    | [k, h] => do pure ((← fromHex? k), (← fromHex? h))
    | _ => none

def lookup (tbl : List (Bytes × Bytes)) (k : Bytes) : Bytes :=
  match tbl.find? (·.1 == k) with
  | some (_, h) => h
  | none => List.replicate 20 0

def ctxOf? : String → Option Ctx
  | "P2WSH" => some .p2wsh | "tapscript" => some .tapscript | _ => none

end Btc.Miniscript.Wire
