import Model.C15.Text
/-
C15 — the script decoder: `miniscript.py: from_script, _Decoder, _decomposed,
_assert_minimal_push, _script_number, _key_from_sec` and, underneath,
`script.py: read_op_code, op_code_spans`.

The source IS an explicit stack machine (`to_parse` the states still expected, `built` the
expressions completed, `pos` how far into the entries the walk has come) and the model keeps it
one: `step` is one turn of the `while self.to_parse` loop of `_Decoder.decode` on a `Machine`,
`run` turns it a bounded number of times.  Differences of representation, none of behaviour:

* `entries` is the suffix `self.entries[self.pos:]` (every access of the source is relative to
  `pos`, and `pos` only grows), so `_remaining()` is its length and `pos == len(entries)` is `[]`;
* `toParse` and `built` are lists whose HEAD is the top of the source's stacks (`list[-1]`), so
  `reversed(self.built[len - count:])` is `built.take count`;
* a KEY expression is the bytes the script writes (`Ast.lean`); `pk_h` asks
  `keyOfHash : Bytes → Option Key`, the `key_hashes` mapping restricted to the entries whose
  hash160 really is the key's (the source refuses both a missing entry and one filed under a hash
  that is not its own; the model does not recompute hash160);
* `none` is `BTClibValueError`, whichever of the source's messages it carries.
-/
namespace Btc.Miniscript.Decode

open Btc Btc.Miniscript Gen.Miniscript

/-- an entry of `_decomposed`: (op code, data). -/
abbrev Entry := UInt8 × Bytes

/-! ## `script.read_op_code`, `script.op_code_spans` -/

/-- one item of `op_code_spans`, with the two slices `_decomposed` takes of it:
    `data = script[start + prefix : stop]` and `encoded = script[start : stop]`. -/
structure Span where
  op : UInt8
  data : Bytes
  encoded : Bytes
  deriving DecidableEq, Repr

/-- `read_op_code(script, start)` on the suffix `script[start:]`: the span read and the suffix
    left; `none` where nothing whole can be read (end of script, truncated push). -/
def readOp : Bytes → Option (Span × Bytes)
  | [] => none
  | op :: rest =>
    if 0 < op.toNat ∧ op.toNat ≤ 78 then
      -- bytes of declared length: none for a direct push, 1 2 4 for OP_PUSHDATA1 2 4
      let size := if op.toNat ≤ 75 then 0 else 2 ^ (op.toNat - 76)
      if rest.length < size then none else
      let len := if op.toNat ≤ 75 then op.toNat else ofLE (rest.take size)
      let body := rest.drop size
      if body.length < len then none else
      some (⟨op, body.take len, op :: (rest.take size ++ body.take len)⟩, body.drop len)
    else some (⟨op, [], [op]⟩, rest)

/-- `list(op_code_spans(script))` together with `_decomposed`'s refusal of a script the walk does
    not reach the end of (`spans[-1][2] != len(script)`): `none` as soon as an op code cannot be
    read.  Every op code read takes at least one byte, so `script.length` is fuel enough. -/
def spansOf : Nat → Bytes → Option (List Span)
  | _, [] => some []
  | 0, _ :: _ => none
  | fuel + 1, b :: bs =>
    match readOp (b :: bs) with
    | none => none
    | some (sp, rest) => (spansOf fuel rest).map (sp :: ·)

/-! ## `_assert_minimal_push`, `_decomposed` -/

/-- what `_assert_minimal_push(op_code, data, encoded)` lets through. -/
def minimalPush (data encoded : Bytes) : Bool :=
  (match data with
   | [b] => !(b == 0x81 || (decide (1 ≤ b.toNat) && decide (b.toNat ≤ 16)))
   | _ => true) && pushData data == encoded

/-- `_VERIFY_FORMS`. -/
def verifyForm? (op : UInt8) : Option UInt8 :=
  if op == OP_CHECKSIGVERIFY then some OP_CHECKSIG
  else if op == OP_CHECKMULTISIGVERIFY then some OP_CHECKMULTISIG
  else if op == OP_EQUALVERIFY then some OP_EQUAL
  else if op == OP_NUMEQUALVERIFY then some OP_NUMEQUAL
  else none

/-- the four op codes that have a VERIFY form. -/
def hasVerifyForm (op : UInt8) : Bool :=
  op == OP_CHECKSIG || op == OP_CHECKMULTISIG || op == OP_EQUAL || op == OP_NUMEQUAL

/-- `position + 1 < len(spans) and spans[position + 1][0] == _OP_VERIFY`. -/
def nextIsVerify : List Span → Bool
  | sp :: _ => sp.op == OP_VERIFY
  | [] => false

/-- the loop of `_decomposed`, entries in script order (before `entries.reverse()`). -/
def entriesOf : List Span → Option (List Entry)
  | [] => some []
  | sp :: rest =>
    if OP_1.toNat ≤ sp.op.toNat ∧ sp.op.toNat ≤ OP_16.toNat then
      (entriesOf rest).map ((sp.op, [sp.op - OP_1 + 1]) :: ·)
    else
      match verifyForm? sp.op with
      | some base => (entriesOf rest).map fun l => (base, []) :: (OP_VERIFY, []) :: l
      | none =>
        if OP_0.toNat < sp.op.toNat ∧ sp.op.toNat ≤ OP_PUSHDATA4.toNat then
          if minimalPush sp.data sp.encoded then (entriesOf rest).map ((sp.op, sp.data) :: ·) else none
        else if hasVerifyForm sp.op && nextIsVerify rest then none
        else (entriesOf rest).map ((sp.op, []) :: ·)

/-- `_decomposed(script)`: the op codes and their data, last one first. -/
def decomposed (script : Bytes) : Option (List Entry) :=
  match spansOf script.length script with
  | none => none
  | some spans => (entriesOf spans).map List.reverse

/-! ## `_script_number` (with `utils.decode_num`, `utils.encode_num`) -/

/-- `utils.decode_num`: little-endian magnitude, the top bit of the last byte being the sign. -/
def decodeNum (data : Bytes) : Int :=
  match data.getLast? with
  | none => 0
  | some top =>
    if top.toNat ≥ 128 then -(Int.ofNat (ofLE data - 2 ^ (8 * data.length - 1)))
    else Int.ofNat (ofLE data)

/-- set the sign bit of the last byte (`| ((i < 0) << (n_bytes * 8 - 1))`). -/
def setSign : Bytes → Bytes
  | [] => []
  | [b] => [b ||| 0x80]
  | b :: bs => b :: setSign bs

/-- `utils.encode_num` on the integers `decode_num` answers for at most four bytes (all of them
    well inside the int64 it bounds). -/
def encodeInt (i : Int) : Bytes :=
  if i < 0 then setSign (encodeNum i.natAbs) else encodeNum i.toNat

/-- `_script_number(entry)`: the number an entry pushes, `none` where it pushes none. -/
def scriptNumber (e : Entry) : Option Int :=
  if e.1 == OP_0 then some 0
  else if e.2.isEmpty || decide (e.2.length > 4) then none
  else
    let number := decodeNum e.2
    if encodeInt number == e.2 then some number else none

/-! ## the machine -/

/-- the states of `_Decoder.to_parse`: the eight that read the script (`_SINGLE`, `_MAYBE_AND_V`,
    `_W_EXPR`, `_THRESH_BRANCH`, `_THRESH_END`, `_ENDIF`, `_ENDIF_NOTIF`, `_ENDIF_ELSE`; the two
    thresh() ones carry `count` and `threshold`) and the names of the fragments to build. -/
inductive DState
  | single
  | maybeAndV
  | wExpr
  | threshBranch (count threshold : Nat)
  | threshEnd (count threshold : Nat)
  | endif
  | endifNotif
  | endifElse
  | wrap (w : Wrap)
  | bin (b : Bin)
  | andor
  deriving DecidableEq, Repr, Inhabited

/-- `_Decoder`: `entries[pos:]`, `to_parse` (head = top), `built` (head = last built). -/
structure Machine where
  entries : List Entry
  toParse : List DState
  built : List Ms
  deriving DecidableEq, Inhabited

/-- what a reader of `_single` answers: a refusal (it raised), `None`, or a node and the entries
    left after it. -/
inductive Read
  | fail
  | pass
  | node (n : Ms) (rest : List Entry)
  deriving DecidableEq, Inhabited

/-- `for reader in (…): node = reader(); if node is not None: …`, the next reader being asked
    only where this one answered `None`. -/
def Read.orElse : Read → (Unit → Read) → Read
  | .pass, f => f ()
  | r, _ => r

/-- `_constant`. -/
def readConstant : List Entry → Read
  | (op, _) :: rest =>
    if op == OP_1 then .node .f1 rest else if op == OP_0 then .node .f0 rest else .pass
  | [] => .pass

/-- `_key`: a pk_k(), which is a key, or a pk_h(), which is its hash. -/
def readKey (ctx : Ctx) (keyOfHash : Bytes → Option Key) : List Entry → Read
  | [] => .pass
  | (op0, d0) :: rest =>
    if d0.length == 32 || d0.length == 33 then
      if d0.length != (if ctx == .tapscript then 32 else 33) then .fail else .node (.pk_k d0) rest
    else
      match rest with
      | (op1, _) :: (_, h) :: (op3, _) :: (op4, _) :: rest' =>
        if op0 == OP_VERIFY && op1 == OP_EQUAL && op3 == OP_HASH160 && op4 == OP_DUP
            && h.length == 20 then
          match keyOfHash h with
          | none => .fail
          | some key => .node (.pk_h key) rest'
        else .pass
      | _ => .pass

/-- `_timelock`; the node is built by `Miniscript(…)`, whose `_assert_number` refuses a lock time
    outside `1 ≤ n < _MAX_TIMELOCK`. -/
def readTimelock : List Entry → Read
  | (op, _) :: e1 :: rest =>
    if op == OP_CHECKSEQUENCEVERIFY || op == OP_CHECKLOCKTIMEVERIFY then
      match scriptNumber e1 with
      | none => .pass
      | some n =>
        if 1 ≤ n ∧ n < (MAX_TIMELOCK : Int) then
          .node (if op == OP_CHECKSEQUENCEVERIFY then .older n.toNat else .after n.toNat) rest
        else .fail
    else .pass
  | _ => .pass

/-- `_HASH_FRAGMENTS`: `_HASH_OP_CODES` read the other way. -/
def hashOfOp? (op : UInt8) : Option HashKind :=
  [HashKind.sha256, .hash256, .ripemd160, .hash160].find? fun h => hashOp h == op

/-- `_hash`: the size check, the digest, the comparison. -/
def readHash : List Entry → Read
  | (op0, _) :: (_, digest) :: (op2, _) :: (op3, _) :: (op4, _) :: e5 :: (op6, _) :: rest =>
    if op0 != OP_EQUAL then .pass
    else if !(op3 == OP_VERIFY && op4 == OP_EQUAL && scriptNumber e5 == some 32 && op6 == OP_SIZE) then
      .pass
    else
      match hashOfOp? op2 with
      | none => .pass
      | some h => if digest.length != dataSize h then .pass else .node (.hash h digest) rest
  | _ => .pass

/-- the key loop of `_multi`: `count` entries, each holding 33 bytes; the keys come out with the
    last read first (`keys.reverse()`), beside the entries left. -/
def takeKeys : Nat → List Entry → List Key → Option (List Key × List Entry)
  | 0, es, acc => some (acc, es)
  | _ + 1, [], _ => none
  | n + 1, (_, sec) :: es, acc => if sec.length != 33 then none else takeKeys n es (sec :: acc)

/-- `_multi`.  A number of keys below one is refused on every path of the source: zero keys by
    `Miniscript._assert_keys` (or "no threshold"), a negative number likewise — or, where
    `self.pos + 2 + count` falls off the front of `entries`, by an `IndexError` that is not a
    `BTClibValueError` (`from_script(bytes.fromhex("5101e4ae"))`; reported as a defect of the
    exception contract).  The constructor's `_assert_keys`/`_assert_number` is the last check. -/
def readMulti (ctx : Ctx) : List Entry → Read
  | (op0, _) :: e1 :: e2 :: rest =>
    if op0 != OP_CHECKMULTISIG then .pass
    else if ctx == .tapscript then .fail
    else
      match scriptNumber e1 with
      | none => .fail
      | some count =>
        if count < 1 then .fail
        else
          match takeKeys count.toNat (e2 :: rest) [] with
          | none => .fail
          | some (_, []) => .fail
          | some (keys, et :: rest') =>
            match scriptNumber et with
            | none => .fail
            | some threshold =>
              if keys.length ≤ MAX_PUBKEYS_PER_MULTISIG ∧ 1 ≤ threshold ∧ threshold ≤ (keys.length : Int) then
                .node (.multi threshold.toNat keys) rest'
              else .fail
  | _ => .pass

/-- the `while True` of `_multi_a`: a CHECKSIGADD per further key, the CHECKSIG of the first key
    ending it; keys with the last read first, beside the entries left. -/
def takeKeysA : List Entry → List Key → Option (List Key × List Entry)
  | (op, _) :: (_, sec) :: rest, acc =>
    if !(op == OP_CHECKSIGADD || op == OP_CHECKSIG) then none
    else if sec.length != 32 then none
    else if op == OP_CHECKSIG then some (sec :: acc, rest)
    else takeKeysA rest (sec :: acc)
  | _, _ => none

/-- `_multi_a`; the constructor's `_assert_keys`/`_assert_number` is the last check. -/
def readMultiA (ctx : Ctx) : List Entry → Read
  | (op0, _) :: e1 :: e2 :: e3 :: rest =>
    if op0 != OP_NUMEQUAL then .pass
    else if ctx != .tapscript then .fail
    else
      match scriptNumber e1 with
      | none => .fail
      | some threshold =>
        match takeKeysA (e2 :: e3 :: rest) [] with
        | none => .fail
        | some (keys, rest') =>
          if keys.length ≤ MAX_PUBKEYS_PER_MULTI_A ∧ 1 ≤ threshold ∧ threshold ≤ (keys.length : Int) then
            .node (.multi_a threshold.toNat keys) rest'
          else .fail
  | _ => .pass

/-- the six readers of `_single`, in its order. -/
def readLeaf (ctx : Ctx) (keyOfHash : Bytes → Option Key) (es : List Entry) : Read :=
  (readConstant es).orElse fun _ =>
  (readKey ctx keyOfHash es).orElse fun _ =>
  (readTimelock es).orElse fun _ =>
  (readHash es).orElse fun _ =>
  (readMulti ctx es).orElse fun _ =>
  readMultiA ctx es

/-- `_combinator`: the op code that closes a fragment, and the states its arguments are read in
    (`_expect(a, b, c)` stacks them with `a` on top). -/
def combinator (es : List Entry) (tp : List DState) : Option (List Entry × List DState) :=
  match es with
  | [] => none
  | (op, _) :: rest =>
    if op == OP_CHECKSIG then some (rest, .single :: .wrap .c :: tp)
    else if op == OP_VERIFY then some (rest, .single :: .wrap .v :: tp)
    else if op == OP_0NOTEQUAL then some (rest, .single :: .wrap .n :: tp)
    else if op == OP_ENDIF then some (rest, .single :: .maybeAndV :: .endif :: tp)
    else if op == OP_BOOLAND then some (rest, .wExpr :: .single :: .bin .and_b :: tp)
    else if op == OP_BOOLOR then some (rest, .wExpr :: .single :: .bin .or_b :: tp)
    else
      match rest with
      | e1 :: rest' :: rest'' =>
        -- `_remaining() >= 3`
        match scriptNumber e1 with
        | some number =>
          if op == OP_EQUAL then
            if number < 1 then none else some (rest' :: rest'', .threshBranch 0 number.toNat :: tp)
          else none
        | none => none
      | _ => none

/-- `_build(fragment, count)` for a wrapper (`count = 1`). -/
def buildWrap (w : Wrap) : List Ms → Option (List Ms)
  | x :: built => some (.wrap w x :: built)
  | _ => none

/-- `_build(fragment, 2)`: the arguments were read last one first. -/
def buildBin (b : Bin) : List Ms → Option (List Ms)
  | x :: y :: built => some (.bin b x y :: built)
  | _ => none

/-- `_build("andor", 3)`: the script writes andor(X,Y,Z) as `[X] NOTIF [Z] ELSE [Y] ENDIF`, so what
    is read last is X and what is read first is Y. -/
def buildAndor : List Ms → Option (List Ms)
  | x :: z :: y :: built => some (.andor x y z :: built)
  | _ => none

/-- one turn of the loop of `decode`, the state `st` having been popped from `m.toParse`:
    `_single` (with `_combinator`), `_maybe_and_v`, `_wrapped`, `_thresh_branch`, `_thresh_end`,
    `_endif`, `_endif_notif`, `_endif_else`, `_wrap_stacked`, `_build`. -/
def step (ctx : Ctx) (keyOfHash : Bytes → Option Key) (st : DState) (m : Machine) : Option Machine :=
  let es := m.entries
  let tp := m.toParse
  match st with
  | .single =>
    if es.isEmpty then none else
    match readLeaf ctx keyOfHash es with
    | .fail => none
    | .node n rest => some { m with entries := rest, built := n :: m.built }
    | .pass =>
      match combinator es tp with
      | none => none
      | some (rest, tp') => some { m with entries := rest, toParse := tp' }
  | .maybeAndV =>
    match es with
    | (op, _) :: _ =>
      if op == OP_IF || op == OP_ELSE || op == OP_NOTIF || op == OP_TOALTSTACK || op == OP_SWAP then some m
      else some { m with toParse := .single :: .maybeAndV :: .bin .and_v :: tp }
    | [] => some m
  | .wExpr =>
    match es with
    | [] => none
    | (op, _) :: rest =>
      if op == OP_FROMALTSTACK then
        some { m with entries := rest, toParse := .single :: .maybeAndV :: .wrap .a :: tp }
      else some { m with toParse := .single :: .maybeAndV :: .wrap .s :: tp }
  | .threshBranch count threshold =>
    match es with
    | [] => none
    | (op, _) :: rest =>
      if op == OP_ADD then
        some { m with entries := rest, toParse := .wExpr :: .threshBranch (count + 1) threshold :: tp }
      else some { m with toParse := .single :: .threshEnd (count + 1) threshold :: tp }
  | .threshEnd count threshold =>
    if threshold > count then none
    else if m.built.length < count then none   -- not reached: `count` expressions were built
    else
      match m.built.take count with
      | x :: xs => some { m with built := .thresh threshold x (MsL.ofList xs) :: m.built.drop count }
      | [] => none   -- not reached: `count ≥ 1`
  | .endif =>
    match es with
    | [] => none
    | (op, _) :: rest =>
      if op == OP_ELSE then some { m with entries := rest, toParse := .single :: .maybeAndV :: .endifElse :: tp }
      else if op == OP_NOTIF then some { m with entries := rest, toParse := .endifNotif :: tp }
      else if op != OP_IF then none
      else
        match rest with
        | (op1, _) :: rest1 =>
          if op1 == OP_DUP then some { m with entries := rest1, toParse := .wrap .d :: tp }
          else
            match rest1 with
            | (op2, _) :: rest2 =>
              if op1 == OP_0NOTEQUAL && op2 == OP_SIZE then
                some { m with entries := rest2, toParse := .wrap .j :: tp }
              else none
            | [] => none
        | [] => none
  | .endifNotif =>
    match es with
    | [] => none
    | (op, _) :: rest =>
      if op == OP_IFDUP then some { m with entries := rest, toParse := .single :: .bin .or_d :: tp }
      else some { m with toParse := .single :: .bin .or_c :: tp }
  | .endifElse =>
    match es with
    | [] => none
    | (op, _) :: rest =>
      if op == OP_IF then (buildBin .or_i m.built).map fun b => { m with entries := rest, built := b }
      else if op != OP_NOTIF then none
      else some { m with entries := rest, toParse := .single :: .andor :: tp }
  | .wrap .a =>
    match es with
    | (op, _) :: rest =>
      if op != OP_TOALTSTACK then none
      else (buildWrap .a m.built).map fun b => { m with entries := rest, built := b }
    | [] => none
  | .wrap .s =>
    match es with
    | (op, _) :: rest =>
      if op != OP_SWAP then none
      else (buildWrap .s m.built).map fun b => { m with entries := rest, built := b }
    | [] => none
  | .wrap w => (buildWrap w m.built).map fun b => { m with built := b }
  | .bin b => (buildBin b m.built).map fun bt => { m with built := bt }
  | .andor => (buildAndor m.built).map fun b => { m with built := b }

/-- `if self.built and not self.built[-1].is_valid: _assert_typed(self.built[-1])`: what lets the
    loop go on (`_assert_typed` refuses exactly what `is_valid` denies). -/
def topValid (ctx : Ctx) : List Ms → Bool
  | x :: _ => isValid ctx x
  | [] => true

/-- the loop of `decode`: `while self.to_parse`, the last node built being checked before each
    state is popped.  `none` is a refusal; running out of fuel with states left is one too, and
    is not reached with the fuel `fromScript` gives (see `fuelFor`). -/
def run (ctx : Ctx) (keyOfHash : Bytes → Option Key) : Nat → Machine → Option Machine
  | 0, m => if m.toParse.isEmpty then some m else none
  | fuel + 1, m =>
    match m.toParse with
    | [] => some m
    | st :: tp =>
      if !topValid ctx m.built then none
      else
        match step ctx keyOfHash st { m with toParse := tp } with
        | none => none
        | some m' => run ctx keyOfHash fuel m'

/-- turns of the loop that `n` entries can take: a state is popped per turn, and every state was
    pushed either beside a `single` (at most two others with it, and a `single` that does not fail
    takes an entry) or by a turn that took an entry (at most two of them). -/
def fuelFor (n : Nat) : Nat := 5 * n + 8

/-- the machine `decode` starts: `self._expect(*_BKV)`. -/
def start (entries : List Entry) : Machine := ⟨entries, [.single, .maybeAndV], []⟩

/-- `from_script(script, context, key_hashes)`; `none` is its `BTClibValueError`. -/
def fromScript (ctx : Ctx) (keyOfHash : Bytes → Option Key) (script : Bytes) : Option Ms :=
  if script.length > maxScriptSize ctx then none else
  match decomposed script with
  | none => none
  | some entries =>
    match run ctx keyOfHash (fuelFor entries.length) (start entries) with
    | none => none
    | some m =>
      -- `return self.built[0]`: the first built, which is the only one left
      match m.built.getLast? with
      | none => none
      | some node =>
        if !m.entries.isEmpty then none        -- the script holds more than one expression
        else if !isValid ctx node then none    -- `_assert_typed(node)`
        else if !(typeOf ctx node).B then none
        else some node

/-! ### the entry list of a compiled expression, in the order the decoder reads it -/

/-- what `_decomposed` answers for `compile n`, last op code first: VERIFY forms unfolded
    (`OP_CHECKSIGVERIFY` is `OP_CHECKSIG, OP_VERIFY`), a key under the op code that pushes it. -/
def rents (h160 : Bytes → Bytes) : Ms → List Entry
  | .f0 => [(OP_0, [])]
  | .f1 => [(OP_1, [1])]
  | .pk_k k => [(UInt8.ofNat k.length, k)]
  | .pk_h k =>
    [(OP_VERIFY, []), (OP_EQUAL, []), (UInt8.ofNat (h160 k).length, h160 k), (OP_HASH160, []), (OP_DUP, [])]
  | .wrap .c x => (OP_CHECKSIG, []) :: rents h160 x
  | .wrap .n x => (OP_0NOTEQUAL, []) :: rents h160 x
  | .wrap .v x => (OP_VERIFY, []) :: rents h160 x
  | .wrap .a x => (OP_FROMALTSTACK, []) :: (rents h160 x ++ [(OP_TOALTSTACK, [])])
  | .wrap .s x => rents h160 x ++ [(OP_SWAP, [])]
  | .wrap .d x => (OP_ENDIF, []) :: (rents h160 x ++ [(OP_IF, []), (OP_DUP, [])])
  | .wrap .j x => (OP_ENDIF, []) :: (rents h160 x ++ [(OP_IF, []), (OP_0NOTEQUAL, []), (OP_SIZE, [])])
  | .bin .and_v x y => rents h160 y ++ rents h160 x
  | .bin .and_b x y => (OP_BOOLAND, []) :: (rents h160 y ++ rents h160 x)
  | .bin .or_b x y => (OP_BOOLOR, []) :: (rents h160 y ++ rents h160 x)
  | .bin .or_c x z => (OP_ENDIF, []) :: (rents h160 z ++ (OP_NOTIF, []) :: rents h160 x)
  | .bin .or_d x z => (OP_ENDIF, []) :: (rents h160 z ++ (OP_NOTIF, []) :: (OP_IFDUP, []) :: rents h160 x)
  | .bin .or_i x z => (OP_ENDIF, []) :: (rents h160 z ++ (OP_ELSE, []) :: (rents h160 x ++ [(OP_IF, [])]))
  | .andor x y z =>
    (OP_ENDIF, []) :: (rents h160 y ++ (OP_ELSE, []) :: (rents h160 z ++ (OP_NOTIF, []) :: rents h160 x))
  | _ => []

/-- how an expression is read: by `_single` alone; by `_single` then `_maybe_and_v` (so that it may
    be an `and_v` chain); by `_wrapped` (an `a:` or `s:`). -/
inductive Mode | unit | seq | w
  deriving DecidableEq

/-- the fragment set of the read-back theorem: 0, 1, pk_k, pk_h, the seven wrappers, and_v, and_b,
    or_b, or_c, or_d, or_i, andor — with `and_v` chains nested to the LEFT (`and_v(and_v(A,B),C)`:
    what the decoder builds for `[A] [B] [C]`) and standing where the decoder looks for one (a
    branch closed by ENDIF, the argument of `a:`/`s:`/`d:`/`j:`, the whole script); `a:`/`s:` in the
    second place of and_b/or_b. -/
def rd : Mode → Ms → Bool
  | m, .f0 | m, .f1 | m, .pk_k _ | m, .pk_h _ => m != .w
  | m, .wrap w x =>
    match w with
    | .c | .n | .v => m != .w && rd .unit x
    | .d | .j => m != .w && rd .seq x
    | .a | .s => m == .w && rd .seq x
  | m, .bin b x y =>
    match b with
    | .and_v => m == .seq && rd .seq x && rd .unit y
    | .and_b | .or_b => m != .w && rd .unit x && rd .w y
    | .or_c | .or_d => m != .w && rd .unit x && rd .seq y
    | .or_i => m != .w && rd .seq x && rd .seq y
  | m, .andor x y z => m != .w && rd .unit x && rd .seq y && rd .seq z
  | _, _ => false

end Btc.Miniscript.Decode
