import Model.C15.Compile
/-
C15 — a minimal stack semantics of exactly the op codes miniscript emits, for the type-soundness
theorems (T3).  `Op` is the script as a list of instructions, `ser` its serialization (the inverse
of script decoding), `opsOf` the instruction list `_fragment_script` writes (proved to serialize to
`compile`), `exec` Bitcoin Core's `EvalScript` loop restricted to the op codes of the fragment set
covered so far: pushes (data and numbers), OP_0, OP_1, DUP, SIZE, EQUAL(VERIFY), the hash op codes, CSV, CLTV, CHECKSIG(VERIFY), VERIFY, BOOLAND, BOOLOR, 0NOTEQUAL, IFDUP, SWAP, ADD, NUMEQUAL(VERIFY), CHECKSIGADD, CHECKMULTISIG(VERIFY),
TOALTSTACK, FROMALTSTACK, IF, NOTIF, ELSE, ENDIF.  Any other op code is `none` ("not modelled"), never a wrong answer.
The full Core-shaped evaluator is C08's.
-/
namespace Btc.Miniscript

open Btc Gen.Miniscript

inductive Op
  | push (d : Bytes) | pushnum (n : Nat) | op0 | op1
  | dup | hash160 | equalverify | equal | size | hashop (h : HashKind) | csv | cltv
  | checksig | checksigverify | checkmultisig | checkmultisigverify | checksigadd
  | numequal | numequalverify | verify | toalt | fromalt | swap
  | opif | notif | opelse | endif | ifdup | zeronotequal | booland | boolor | add
  deriving DecidableEq, Repr

def Op.ser : Op → Bytes
  | .push d => pushData d
  | .pushnum n => pushNum n
  | .op0 => [OP_0] | .op1 => [OP_1]
  | .dup => [OP_DUP] | .hash160 => [OP_HASH160] | .equalverify => [OP_EQUALVERIFY]
  | .equal => [OP_EQUAL] | .size => [OP_SIZE] | .hashop h => [hashOp h]
  | .csv => [OP_CHECKSEQUENCEVERIFY] | .cltv => [OP_CHECKLOCKTIMEVERIFY]
  | .checksig => [OP_CHECKSIG] | .checksigverify => [OP_CHECKSIGVERIFY]
  | .checkmultisig => [OP_CHECKMULTISIG] | .checkmultisigverify => [OP_CHECKMULTISIGVERIFY]
  | .checksigadd => [OP_CHECKSIGADD] | .numequal => [OP_NUMEQUAL]
  | .numequalverify => [OP_NUMEQUALVERIFY] | .verify => [OP_VERIFY]
  | .toalt => [OP_TOALTSTACK] | .fromalt => [OP_FROMALTSTACK] | .swap => [OP_SWAP]
  | .opif => [OP_IF] | .notif => [OP_NOTIF] | .opelse => [OP_ELSE] | .endif => [OP_ENDIF]
  | .ifdup => [OP_IFDUP] | .zeronotequal => [OP_0NOTEQUAL] | .booland => [OP_BOOLAND]
  | .boolor => [OP_BOOLOR] | .add => [OP_ADD]

/-- serialization of an instruction list. -/
def ser (ops : List Op) : Bytes := ops.flatMap Op.ser

def multiAOps : List Key → List Op
  | [] => []
  | k0 :: rest => [.push k0, .checksig] ++ rest.flatMap fun k => [.push k, .checksigadd]

mutual
/-- the instructions of a fragment's script (`_fragment_script`, symbolically). -/
def opsOf (ctx : Ctx) (h160 : Bytes → Bytes) (verify : Bool) : Ms → List Op
  | .f0 => [.op0]
  | .f1 => [.op1]
  | .pk_k k => [.push k]
  | .pk_h k => [.dup, .hash160, .push (h160 k), .equalverify]
  | .older n => [.pushnum n, .csv]
  | .after n => [.pushnum n, .cltv]
  | .hash h d => [.size, .pushnum 32, .equalverify, .hashop h, .push d, if verify then .equalverify else .equal]
  | .multi k keys =>
    [.pushnum k] ++ keys.map .push ++ [.pushnum keys.length, if verify then .checkmultisigverify else .checkmultisig]
  | .multi_a k keys => multiAOps keys ++ [.pushnum k, if verify then .numequalverify else .numequal]
  | .wrap .a x => [.toalt] ++ opsOf ctx h160 false x ++ [.fromalt]
  | .wrap .s x => [.swap] ++ opsOf ctx h160 verify x
  | .wrap .c x => opsOf ctx h160 false x ++ [if verify then .checksigverify else .checksig]
  | .wrap .d x => [.dup, .opif] ++ opsOf ctx h160 false x ++ [.endif]
  | .wrap .v x => opsOf ctx h160 true x ++ (if (typeOf ctx x).x then [.verify] else [])
  | .wrap .j x => [.size, .zeronotequal, .opif] ++ opsOf ctx h160 false x ++ [.endif]
  | .wrap .n x => opsOf ctx h160 false x ++ [.zeronotequal]
  | .bin .and_v x y => opsOf ctx h160 false x ++ opsOf ctx h160 verify y
  | .bin .and_b x y => opsOf ctx h160 false x ++ opsOf ctx h160 false y ++ [.booland]
  | .bin .or_b x y => opsOf ctx h160 false x ++ opsOf ctx h160 false y ++ [.boolor]
  | .bin .or_c x y => opsOf ctx h160 false x ++ [.notif] ++ opsOf ctx h160 false y ++ [.endif]
  | .bin .or_d x y => opsOf ctx h160 false x ++ [.ifdup, .notif] ++ opsOf ctx h160 false y ++ [.endif]
  | .bin .or_i x y => [.opif] ++ opsOf ctx h160 false x ++ [.opelse] ++ opsOf ctx h160 false y ++ [.endif]
  | .andor x y z =>
    opsOf ctx h160 false x ++ [.notif] ++ opsOf ctx h160 false z ++ [.opelse] ++ opsOf ctx h160 false y ++ [.endif]
  | .thresh k x xs =>
    opsOf ctx h160 false x ++ opsRest ctx h160 xs ++ [.pushnum k, if verify then .equalverify else .equal]
def opsRest (ctx : Ctx) (h160 : Bytes → Bytes) : MsL → List Op
  | .nil => []
  | .cons x xs => opsOf ctx h160 false x ++ [.add] ++ opsRest ctx h160 xs
end

/-! ## execution -/

/-- Core's `CastToBool`: any non-zero byte, a trailing 0x80 (negative zero) excepted. -/
def castToBool : Bytes → Bool
  | [] => false
  | [b] => b != 0 && b != 0x80
  | b :: rest => b != 0 || castToBool rest

/-- the truth value BOOLAND/BOOLOR read: a script number, so at most four bytes. -/
def numTruth (v : Bytes) : Option Bool := if v.length ≤ 4 then some (castToBool v) else none

def boolBytes (b : Bool) : Bytes := if b then [1] else []

structure St where
  stack : List Bytes
  alt : List Bytes
  conds : List Bool
  deriving DecidableEq, Repr

/-- what the spend at hand decides: the signature check, the hash functions, and whether the
    transaction's nSequence / nLockTime meet the number on the stack (BIP112 / BIP65). -/
structure EvalEnv where
  sigOK : Key → Bytes → Bool
  hashF : HashKind → Bytes → Bytes
  csvOK : Bytes → Bool
  cltvOK : Bytes → Bool

/-- every enclosing OP_IF/OP_NOTIF branch is the taken one (Core's `fExec`). -/
def executing (conds : List Bool) : Bool := conds.all id

/-- a script number operand: at most four bytes, minimally encoded (MINIMALDATA). -/
def numVal (v : Bytes) : Option Int :=
  if v.length ≤ 4 ∧ Btc.Script.encodeNumRaw (Btc.Script.decodeNum v) = v then some (Btc.Script.decodeNum v)
  else none

/-- OP_CHECKMULTISIG's walk: signatures and keys from the top of the stack down (last first), each
    signature tried against the keys left. -/
def matchSigs (E : EvalEnv) : List Bytes → List Key → Bool
  | [], _ => true
  | _ :: _, [] => false
  | sg :: sgs, k :: ks => if E.sigOK k sg then matchSigs E sgs ks else matchSigs E (sg :: sgs) ks

/-- OP_CHECKMULTISIG(VERIFY) on a stack (top first): n, n keys, m, m signatures, the dummy (empty:
    NULLDUMMY); a failed check with a non-empty signature fails the script (NULLFAIL). -/
def checkMultisig (E : EvalEnv) (verify : Bool) (s : St) : Option St :=
  match s.stack with
  | nk :: rest =>
    match numVal nk with
    | some n =>
      if n < 0 ∨ n > 20 ∨ rest.length < n.toNat then none else
      let keys := rest.take n.toNat
      match rest.drop n.toNat with
      | nm :: rest2 =>
        match numVal nm with
        | some m =>
          if m < 0 ∨ m > n ∨ rest2.length < m.toNat then none else
          let sigs := rest2.take m.toNat
          match rest2.drop m.toNat with
          | dummy :: rest3 =>
            if dummy ≠ [] then none else
            if matchSigs E sigs keys then
              some { s with stack := if verify then rest3 else boolBytes true :: rest3 }
            else if sigs.all (·.isEmpty) && !verify then some { s with stack := boolBytes false :: rest3 }
            else none
          | [] => none
        | none => none
      | [] => none
    | none => none
  | [] => none

/-- an executed instruction other than IF/ELSE/ENDIF. `E.sigOK key sig` is the signature check of
    the spend at hand. -/
def stepExec (E : EvalEnv) (o : Op) (s : St) : Option St :=
  match o, s.stack with
  | .push d, st => some { s with stack := d :: st }
  | .op0, st => some { s with stack := [] :: st }
  | .op1, st => some { s with stack := [1] :: st }
  | .checksig, k :: sg :: st =>
    -- a signature that is not empty must verify (BIP342 consensus; NULLFAIL for P2WSH)
    if E.sigOK k sg then some { s with stack := boolBytes true :: st }
    else if sg = [] then some { s with stack := boolBytes false :: st }
    else none
  | .checksigverify, k :: sg :: st => if E.sigOK k sg then some { s with stack := st } else none
  | .verify, v :: st => if castToBool v then some { s with stack := st } else none
  | .swap, a :: b :: st => some { s with stack := b :: a :: st }
  | .toalt, a :: st => some { s with stack := st, alt := a :: s.alt }
  | .fromalt, st => match s.alt with
    | a :: al => some { s with stack := a :: st, alt := al }
    | [] => none
  | .booland, b :: a :: st =>
    match numTruth a, numTruth b with
    | some x, some y => some { s with stack := boolBytes (x && y) :: st }
    | _, _ => none
  | .boolor, b :: a :: st =>
    match numTruth a, numTruth b with
    | some x, some y => some { s with stack := boolBytes (x || y) :: st }
    | _, _ => none
  | .zeronotequal, v :: st =>
    match numTruth v with
    | some b => some { s with stack := boolBytes b :: st }
    | none => none
  | .ifdup, v :: st => some { s with stack := if castToBool v then v :: v :: st else v :: st }
  | .pushnum n, st => some { s with stack := encodeNum n :: st }
  | .dup, v :: st => some { s with stack := v :: v :: st }
  | .hash160, v :: st => some { s with stack := E.hashF .hash160 v :: st }
  | .hashop h, v :: st => some { s with stack := E.hashF h v :: st }
  | .equal, b :: a :: st => some { s with stack := boolBytes (a == b) :: st }
  | .equalverify, b :: a :: st => if a = b then some { s with stack := st } else none
  | .size, v :: st => some { s with stack := encodeNum v.length :: v :: st }
  | .add, b :: a :: st =>
    match numVal a, numVal b with
    | some x, some y => some { s with stack := Btc.Script.encodeNumRaw (x + y) :: st }
    | _, _ => none
  | .numequal, b :: a :: st =>
    match numVal a, numVal b with
    | some x, some y => some { s with stack := boolBytes (x == y) :: st }
    | _, _ => none
  | .numequalverify, b :: a :: st =>
    match numVal a, numVal b with
    | some x, some y => if x = y then some { s with stack := st } else none
    | _, _ => none
  | .checksigadd, k :: nv :: sg :: st =>
    match numVal nv with
    | some x =>
      if sg = [] then some { s with stack := Btc.Script.encodeNumRaw x :: st }
      else if E.sigOK k sg then some { s with stack := Btc.Script.encodeNumRaw (x + 1) :: st }
      else none
    | none => none
  | .checkmultisig, _ => checkMultisig E false s
  | .checkmultisigverify, _ => checkMultisig E true s
  | .csv, v :: _ => if E.csvOK v then some s else none
  | .cltv, v :: _ => if E.cltvOK v then some s else none
  | _, _ => none

/-- one instruction of `EvalScript`.  An OP_IF argument must be empty or 0x01 (MINIMALIF: consensus
    for tapscript, policy for P2WSH). -/
def step (E : EvalEnv) (o : Op) (s : St) : Option St :=
  match o with
  | .opif =>
    if executing s.conds then
      match s.stack with
      | v :: st => if v = [] ∨ v = [1] then some { s with stack := st, conds := castToBool v :: s.conds } else none
      | [] => none
    else some { s with conds := false :: s.conds }
  | .notif =>
    if executing s.conds then
      match s.stack with
      | v :: st => if v = [] ∨ v = [1] then some { s with stack := st, conds := (!castToBool v) :: s.conds } else none
      | [] => none
    else some { s with conds := false :: s.conds }
  | .opelse => match s.conds with
    | c :: cs => some { s with conds := (!c) :: cs }
    | [] => none
  | .endif => match s.conds with
    | _ :: cs => some { s with conds := cs }
    | [] => none
  | o => if executing s.conds then stepExec E o s else some s

def exec (E : EvalEnv) : List Op → St → Option St
  | [], s => some s
  | o :: os, s => (step E o s).bind (exec E os)

/-- an op code above OP_16: what BIP141's op count counts (executed or not). -/
def Op.nonPush : Op → Bool
  | .push _ | .pushnum _ | .op0 | .op1 => false
  | _ => true

def countNP (ops : List Op) : Nat := (ops.filter Op.nonPush).length

def Op.isCms : Op → Bool
  | .checkmultisig | .checkmultisigverify => true
  | _ => false

def hasCms (ops : List Op) : Bool := ops.any Op.isCms

/-- the keys an OP_CHECKMULTISIG about to run charges to the op count: the number on top of the
    stack (0 when it is no number: the op code fails anyway). -/
def cmsKeys (s : St) : Nat :=
  match s.stack with
  | nk :: _ => match numVal nk with
    | some n => n.toNat
    | none => 0
  | [] => 0

/-- what the EXECUTED OP_CHECKMULTISIGs of a run add to the op count (Core's and btclib's
    accounting: one per op code above OP_16 met, executed or not, plus the keys of every
    OP_CHECKMULTISIG that is executed). -/
def execCharge (E : EvalEnv) : List Op → St → Nat
  | [], _ => 0
  | o :: os, s =>
    (if executing s.conds && o.isCms then cmsKeys s else 0) +
      match step E o s with
      | some s' => execCharge E os s'
      | none => 0

/-- the limits the interpreter puts around an execution, which `exec` itself does not carry: 201
    counted op codes (`charge`: the keys of the executed OP_CHECKMULTISIGs) and 10 000 bytes of
    script (P2WSH), 520 bytes per initial stack element, 1000 initial elements.  NOT modelled: the
    1000-element bound on the stack DURING execution. -/
def withinEngineLimits (ctx : Ctx) (ops : List Op) (w : List Bytes) (charge : Nat) : Bool :=
  (ctx == .tapscript ||
    (decide (countNP ops + charge ≤ MAX_OPS_PER_SCRIPT) && decide ((ser ops).length ≤ 10000))) &&
  w.all (fun e => decide (e.length ≤ 520)) && decide (w.length ≤ MAX_STACK_SIZE)

/-- the verdict on a witness program: within the limits, the script runs to its end with every
    conditional closed, the altstack forgotten, and exactly one element left, which is true
    (CLEANSTACK is consensus for witness programs). `w` is the initial stack, top first. -/
def accepts (E : EvalEnv) (ctx : Ctx) (ops : List Op) (w : List Bytes) : Bool :=
  withinEngineLimits ctx ops w (execCharge E ops ⟨w, [], []⟩) &&
  match exec E ops ⟨w, [], []⟩ with
  | some ⟨[v], _, []⟩ => castToBool v
  | _ => false

end Btc.Miniscript
