import Model.C15.Compile
/-
C15 — the text form: writer (`Miniscript.__str__`, `_fragment_text`, `_sugared_text`,
`_plain_text`, `_wrapper_state`, `_is_wrapper`) and parser (`parse`, `_read_wrappers`,
`_read_fragment`, `_read_leaf`, `_read_more_thresh`, `_built`, `_assert_typed`).

The source's parser is an explicit stack machine (expressions nest as deep as the text is
long); the model is the recursive descent it implements, with a fuel equal to the length of
the text, so that it is total and structurally recursive.  KEY expressions are raw public
keys in hex (BIP380 key expressions are C14's).  Everything is over `List Char`.
-/
namespace Btc.Miniscript

open Btc Gen.Miniscript

/-! ## writer -/

def hexChars (b : Bytes) : List Char :=
  b.flatMap fun x => [hexChar (x.toNat / 16), hexChar (x.toNat % 16)]

def decChars (n : Nat) : List Char := Nat.toDigits 10 n

def Wrap.letter : Wrap → Char
  | .a => 'a' | .s => 's' | .c => 'c' | .d => 'd' | .v => 'v' | .j => 'j' | .n => 'n'

def Bin.chars : Bin → List Char
  | .and_v => ['a', 'n', 'd', '_', 'v']
  | .and_b => ['a', 'n', 'd', '_', 'b']
  | .or_b => ['o', 'r', '_', 'b']
  | .or_c => ['o', 'r', '_', 'c']
  | .or_d => ['o', 'r', '_', 'd']
  | .or_i => ['o', 'r', '_', 'i']

def HashKind.chars : HashKind → List Char
  | .sha256 => ['s', 'h', 'a', '2', '5', '6']
  | .hash256 => ['h', 'a', 's', 'h', '2', '5', '6']
  | .ripemd160 => ['r', 'i', 'p', 'e', 'm', 'd', '1', '6', '0']
  | .hash160 => ['h', 'a', 's', 'h', '1', '6', '0']

/-- every name the language has that takes a bracket. -/
inductive NameKind
  | bin (b : Bin) | andor | and_n | thresh | pk | pkh | pk_k | pk_h | older | after
  | hash (h : HashKind) | multi | multi_a
  deriving DecidableEq, Repr

def NameKind.chars : NameKind → List Char
  | .bin b => b.chars
  | .andor => ['a', 'n', 'd', 'o', 'r']
  | .and_n => ['a', 'n', 'd', '_', 'n']
  | .thresh => ['t', 'h', 'r', 'e', 's', 'h']
  | .pk => ['p', 'k']
  | .pkh => ['p', 'k', 'h']
  | .pk_k => ['p', 'k', '_', 'k']
  | .pk_h => ['p', 'k', '_', 'h']
  | .older => ['o', 'l', 'd', 'e', 'r']
  | .after => ['a', 'f', 't', 'e', 'r']
  | .hash h => h.chars
  | .multi => ['m', 'u', 'l', 't', 'i']
  | .multi_a => ['m', 'u', 'l', 't', 'i', '_', 'a']

/-- `name(` … `)` -/
def call (k : NameKind) (args : List Char) : List Char := k.chars ++ '(' :: (args ++ [')'])

def keyList (keys : List Key) : List Char := keys.flatMap fun k => ',' :: hexChars k

/-- the colon a wrapped expression carries. -/
def colon (wrapped : Bool) : List Char := if wrapped then [':'] else []

mutual
/-- `_fragment_text(wrapped, node, subs)` under `_tree_eval(self, False, _wrapper_state, …)`. -/
def printMs (wrapped : Bool) : Ms → List Char
  | .f0 => colon wrapped ++ ['0']
  | .f1 => colon wrapped ++ ['1']
  | .pk_k k => colon wrapped ++ call .pk_k (hexChars k)
  | .pk_h k => colon wrapped ++ call .pk_h (hexChars k)
  | .older n => colon wrapped ++ call .older (decChars n)
  | .after n => colon wrapped ++ call .after (decChars n)
  | .hash h d => colon wrapped ++ call (.hash h) (hexChars d)
  | .multi k keys => colon wrapped ++ call .multi (decChars k ++ keyList keys)
  | .multi_a k keys => colon wrapped ++ call .multi_a (decChars k ++ keyList keys)
  | .wrap w x =>
    match w, x with
    | .c, .pk_k k => colon wrapped ++ call .pk (hexChars k)
    | .c, .pk_h k => colon wrapped ++ call .pkh (hexChars k)
    | _, _ => w.letter :: printMs true x
  | .bin b x y =>
    if b = .and_v ∧ y = .f1 then 't' :: printMs true x
    else if b = .or_i ∧ x = .f0 then 'l' :: printMs true y
    else if b = .or_i ∧ y = .f0 then 'u' :: printMs true x
    else colon wrapped ++ call (.bin b) (printMs false x ++ ',' :: printMs false y)
  | .andor x y z =>
    if z = .f0 then colon wrapped ++ call .and_n (printMs false x ++ ',' :: printMs false y)
    else colon wrapped ++
      call .andor (printMs false x ++ ',' :: (printMs false y ++ ',' :: printMs false z))
  | .thresh k x xs =>
    colon wrapped ++ call .thresh (decChars k ++ ',' :: (printMs false x ++ printRest xs))
def printRest : MsL → List Char
  | .nil => []
  | .cons x xs => ',' :: (printMs false x ++ printRest xs)
end

/-- `str(node)`. -/
def toText (n : Ms) : List Char := printMs false n

/-! ## parser -/

/-- `_NAME_CHARACTERS`. -/
def isNameChar (c : Char) : Bool := c.isLower || c == '_' || c.isDigit

def kindOf (name : List Char) : Option NameKind :=
  [NameKind.bin .and_v, .bin .and_b, .bin .or_b, .bin .or_c, .bin .or_d, .bin .or_i, .andor, .and_n,
   .thresh, .pk, .pkh, .pk_k, .pk_h, .older, .after, .hash .sha256, .hash .hash256, .hash .ripemd160,
   .hash .hash160, .multi, .multi_a].find? fun k => k.chars == name

/-- `_NUMBER = [0-9]{1,10}` (ten digits spell every 32-bit lock time; a longer run is refused) then
    `int()`. -/
def parseDec (s : List Char) : Option Nat :=
  if s.isEmpty || !s.all Char.isDigit || decide (s.length > 10) then none
  else some (Nat.ofDigitChars 10 s 0)

/-- ASCII white space, which `bytes.fromhex` skips between two bytes. -/
def isWs (c : Char) : Bool := c == ' ' || c == '\t' || c == '\n' || c == '\r' || c == '\x0b' || c == '\x0c'

/-- `bytes.fromhex`: pairs of hex digits, white space allowed between pairs. -/
def fromHexWs : List Char → Option Bytes
  | [] => some []
  | [c] => if isWs c then some [] else none
  | c :: d :: rest =>
    if isWs c then fromHexWs (d :: rest)
    else
      match hexVal? c, hexVal? d, fromHexWs rest with
      | some x, some y, some r => some (UInt8.ofNat (16 * x + y) :: r)
      | _, _, _ => none

/-- a raw public key in hex: the context's size (a tapscript also reads the 33-byte SEC spelling
    of an x-only key and writes its 32 bytes). -/
def parseKey (ctx : Ctx) (s : List Char) : Option Key :=
  match fromHexWs s with
  | none => none
  | some b =>
    -- 32 bytes of hex written with white space are read by btclib as a PRIVATE key (BIP380 key
    -- expressions are C14's): outside this model, refused here, never generated by the harness
    if s.any isWs && b.length == 32 then none else
    match ctx, b with
    | .tapscript, p :: rest => if rest.length = 32 ∧ (p = 2 ∨ p = 3) then some rest else some b
    | _, _ => some b

/-- the argument of a leaf: up to its closing bracket; a bracket of its own is refused. -/
def argSpan : List Char → Option (List Char × List Char)
  | [] => none
  | c :: cs =>
    if c == ')' then some ([], cs)
    else if c == '(' then none
    else (argSpan cs).map fun (a, r) => (c :: a, r)

/-- split at commas (`_split_arguments`, no nesting inside a leaf). -/
def splitCommas : List Char → List (List Char)
  | [] => [[]]
  | c :: cs =>
    match splitCommas cs with
    | [] => [[]]
    | h :: t => if c == ',' then [] :: h :: t else (c :: h) :: t

/-- `_read_wrappers`: the run of letters ended by a colon, scanned from the second character on. -/
def scanColon : List Char → Option (List Char × List Char)
  | [] => none
  | c :: cs =>
    if c == ':' then some ([], cs)
    else if isNameChar c then (scanColon cs).map fun (l, r) => (c :: l, r)
    else none

def readWrappers (s : List Char) : List Char × List Char :=
  match s with
  | [] => ([], [])
  | c :: cs =>
    match scanColon cs with
    | some (ls, rest) => (c :: ls, rest)
    | none => ([], s)

/-- `_built` for one wrapper letter: the sugared ones are built as what they stand for. -/
def applyLetter (c : Char) (x : Ms) : Option Ms :=
  if c = 'a' then some (.wrap .a x) else if c = 's' then some (.wrap .s x)
  else if c = 'c' then some (.wrap .c x) else if c = 'd' then some (.wrap .d x)
  else if c = 'v' then some (.wrap .v x) else if c = 'j' then some (.wrap .j x)
  else if c = 'n' then some (.wrap .n x) else if c = 't' then some (.bin .and_v x .f1)
  else if c = 'l' then some (.bin .or_i .f0 x) else if c = 'u' then some (.bin .or_i x .f0)
  else none

def applyLetters : List Char → Ms → Option Ms
  | [], x => some x
  | c :: cs, x => (applyLetters cs x).bind (applyLetter c)

abbrev P (α : Type) := List Char → Option (α × List Char)

/-- `_WRAPPED_EXPR`: wrappers, then `_EXPR`. -/
def pWrappedWith (pe : P Ms) : P Ms := fun s =>
  let (ls, rest) := readWrappers s
  (pe rest).bind fun (x, r) => (applyLetters ls x).map fun n => (n, r)

def expect (c : Char) : List Char → Option (List Char)
  | d :: r => if d = c then some r else none
  | [] => none

/-- `_MORE_THRESH`: another argument after a comma, or the closing bracket. -/
def pMoreWith (pw : P Ms) : Nat → P MsL
  | 0, _ => none
  | m + 1, s =>
    match s with
    | c :: r =>
      if c = ',' then
        (pw r).bind fun (x, r) => (pMoreWith pw m r).map fun (xs, r) => (.cons x xs, r)
      else if c = ')' then some (.nil, r)
      else none
    | [] => none

def parseKeys (ctx : Ctx) : List (List Char) → Option (List Key)
  | [] => some []
  | k :: ks => (parseKey ctx k).bind fun k => (parseKeys ctx ks).map fun ks => k :: ks

/-- `_read_leaf` on the text between the brackets. -/
def pLeaf (ctx : Ctx) (k : NameKind) (arg : List Char) : Option Ms :=
  match k with
  | .pk => (parseKey ctx arg).map fun key => .wrap .c (.pk_k key)
  | .pkh => (parseKey ctx arg).map fun key => .wrap .c (.pk_h key)
  | .pk_k => (parseKey ctx arg).map .pk_k
  | .pk_h => (parseKey ctx arg).map .pk_h
  | .older => (parseDec arg).map .older
  | .after => (parseDec arg).map .after
  | .hash h => (fromHexWs arg).map (.hash h)
  | .multi =>
    match splitCommas arg with
    | t :: k1 :: ks => (parseDec t).bind fun t => (parseKeys ctx (k1 :: ks)).map (.multi t)
    | _ => none
  | .multi_a =>
    match splitCommas arg with
    | t :: k1 :: ks => (parseDec t).bind fun t => (parseKeys ctx (k1 :: ks)).map (.multi_a t)
    | _ => none
  | _ => none

/-- `_EXPR` / `_read_fragment`, by recursive descent with fuel. -/
def pExpr (ctx : Ctx) : Nat → P Ms
  | 0, _ => none
  | fuel + 1, s =>
    let name := s.takeWhile isNameChar
    let rest := s.dropWhile isNameChar
    if name = [] then none
    else if name = ['0'] then some (.f0, rest)
    else if name = ['1'] then some (.f1, rest)
    else
      match rest with
      | '(' :: r =>
        let pw := pWrappedWith (pExpr ctx fuel)
        match kindOf name with
        | none => none
        | some (.bin b) =>
          (pw r).bind fun (x, r) => (expect ',' r).bind fun r => (pw r).bind fun (y, r) =>
            (expect ')' r).map fun r => (.bin b x y, r)
        | some .andor =>
          (pw r).bind fun (x, r) => (expect ',' r).bind fun r => (pw r).bind fun (y, r) =>
            (expect ',' r).bind fun r => (pw r).bind fun (z, r) =>
              (expect ')' r).map fun r => (.andor x y z, r)
        | some .and_n =>
          (pw r).bind fun (x, r) => (expect ',' r).bind fun r => (pw r).bind fun (y, r) =>
            (expect ')' r).map fun r => (.andor x y .f0, r)
        | some .thresh =>
          let ds := r.takeWhile Char.isDigit
          (parseDec ds).bind fun k => (expect ',' (r.dropWhile Char.isDigit)).bind fun r =>
            (pw r).bind fun (x, r) => (pMoreWith pw r.length.succ r).map fun (xs, r) => (.thresh k x xs, r)
        | some k => (argSpan r).bind fun (arg, r) => (pLeaf ctx k arg).map fun n => (n, r)
      | _ => none

def digitsOK (n : Nat) : Bool := decide ((decChars n).length ≤ 10)

mutual
/-- every number of the expression is written with at most ten digits (what `_NUMBER` reads back;
    true of every lock time, and of any threshold below 10^10). -/
def numsOK : Ms → Bool
  | .older n | .after n => digitsOK n
  | .multi k _ | .multi_a k _ => digitsOK k
  | .wrap _ x => numsOK x
  | .bin _ x y => numsOK x && numsOK y
  | .andor x y z => numsOK x && numsOK y && numsOK z
  | .thresh k x xs => digitsOK k && numsOK x && numsOKL xs
  | _ => true
def numsOKL : MsL → Bool
  | .nil => true
  | .cons x xs => numsOK x && numsOKL xs
end

/-- the syntax of `parse`: the whole text is one wrapped expression. -/
def parseSyntax (ctx : Ctx) (s : List Char) : Option Ms :=
  match pWrappedWith (pExpr ctx s.length.succ) s with
  | some (n, []) => some n
  | _ => none

mutual
/-- every node built passes `_assert_typed` (typed, and of a size the context allows) and
    `_assert_shape`. -/
def allTyped (ctx : Ctx) : Ms → Bool
  | .wrap w x => isValid ctx (.wrap w x) && allTyped ctx x
  | .bin b x y => isValid ctx (.bin b x y) && allTyped ctx x && allTyped ctx y
  | .andor x y z => isValid ctx (.andor x y z) && allTyped ctx x && allTyped ctx y && allTyped ctx z
  | .thresh k x xs => isValid ctx (.thresh k x xs) && allTyped ctx x && allTypedL ctx xs
  | n => isValid ctx n
def allTypedL (ctx : Ctx) : MsL → Bool
  | .nil => true
  | .cons x xs => allTyped ctx x && allTypedL ctx xs
end

/-- `miniscript.parse(expression, context)`; `none` is its `BTClibValueError`. -/
def parse (ctx : Ctx) (s : List Char) : Option Ms :=
  match parseSyntax ctx s with
  | none => none
  | some n => if shaped ctx n && allTyped ctx n && (typeOf ctx n).B then some n else none

end Btc.Miniscript
