import Model.C15.Ast
import Generated.Miniscript
/-
C15 — the type system: `miniscript.py: _computed_properties`.  The per-fragment tables
(`_leaf_properties`, `_wrapper_properties`, `_and_properties`, `_or_properties`,
`_andor_properties`, `_mixed`, `_LEAF_PROPERTIES`) are the TRANSLATED source
(`Gen.Miniscript.*`, regenerated every run); `_thresh_properties` (a loop) and the
dispatch are modelled by hand here, as is `_assert_shape`.
-/
namespace Btc.Miniscript

open Btc Gen.Miniscript

/-- loop state of `_thresh_properties`. -/
structure ThreshAcc where
  allE : Bool := true
  allM : Bool := true
  arguments : Nat := 0
  signed : Nat := 0
  timelocks : Props := { k := true }
  count : Nat := 0

/-- one iteration of the loop of `_thresh_properties`; `none` is its early `return _NONE`. -/
def threshStep (threshold : Nat) (acc : ThreshAcc) (sub : Props) : Option ThreshAcc :=
  let req : Props := if acc.count = 0 then { B := true, d := true, u := true }
                     else { W := true, d := true, u := true }
  if !(sub.has req) then none else
  some {
    allE := acc.allE && sub.has { e := true }
    allM := acc.allM && sub.has { m := true }
    signed := acc.signed + (sub.has { s := true }).toNat
    arguments := acc.arguments + (if sub.has { z := true } then 0 else if sub.has { o := true } then 1 else 2)
    timelocks :=
      ((acc.timelocks ||| sub) &&& ({ g := true, h := true, i := true, j := true } : Props)) |||
        Props.when ((acc.timelocks &&& sub).has { k := true } &&
          (decide (threshold ≤ 1) || !(mixed acc.timelocks sub))) { k := true }
    count := acc.count + 1 }

def threshLoop (threshold : Nat) : ThreshAcc → List Props → Option ThreshAcc
  | acc, [] => some acc
  | acc, s :: rest =>
    match threshStep threshold acc s with
    | none => none
    | some a => threshLoop threshold a rest

/-- `_thresh_properties(subs, threshold)`. -/
def threshProperties (subs : List Props) (threshold : Nat) : Props :=
  match threshLoop threshold {} subs with
  | none => Props.none
  | some a =>
    ({ B := true, d := true, u := true } : Props)
      ||| Props.when (a.arguments == 0) { z := true }
      ||| Props.when (a.arguments == 1) { o := true }
      ||| Props.when (a.allE && a.signed == subs.length) { e := true }
      ||| Props.when (a.allE && a.allM && decide (a.signed + threshold ≥ subs.length)) { m := true }
      ||| Props.when (decide (a.signed + threshold ≥ subs.length + 1)) { s := true }
      ||| a.timelocks

def Bin.isAnd : Bin → Bool
  | .and_v | .and_b => true
  | _ => false

mutual
/-- `_computed_properties`: BIP379 type and properties of an expression; empty when ill-typed. -/
def typeOf (ctx : Ctx) : Ms → Props
  | .f0 => leaf0.sanitized
  | .f1 => leaf1.sanitized
  | .pk_k _ => leafPkK.sanitized
  | .pk_h _ => leafPkH.sanitized
  | .older n => (olderProperties n).sanitized
  | .after n => (afterProperties n).sanitized
  | .hash _ _ => leafHash.sanitized
  | .multi _ _ => leafMulti.sanitized
  | .multi_a _ _ => leafMultiA.sanitized
  | .wrap w x => (wrapperProperties w (typeOf ctx x) ctx).sanitized
  | .bin b x y =>
    if b.isAnd then (andProperties b (typeOf ctx x) (typeOf ctx y)).sanitized
    else (orProperties b (typeOf ctx x) (typeOf ctx y)).sanitized
  | .andor x y z => (andorProperties (typeOf ctx x) (typeOf ctx y) (typeOf ctx z)).sanitized
  | .thresh k x xs => (threshProperties (typeOf ctx x :: typesL ctx xs) k).sanitized
def typesL (ctx : Ctx) : MsL → List Props
  | .nil => []
  | .cons x xs => typeOf ctx x :: typesL ctx xs
end

/-! ## shape (`Miniscript._assert_shape`, `_assert_keys`, `_assert_number`) -/

def keySize : Ctx → Nat
  | .p2wsh => PUB_KEY_SIZE_P2WSH
  | .tapscript => PUB_KEY_SIZE_TAPSCRIPT

mutual
/-- what `_assert_shape` accepts (arity is structural here), plus what `parse`/`from_script`
    guarantee of a KEY expression: it writes `keySize ctx` bytes; and of a digest: `_DATA_SIZE`. -/
def shaped (ctx : Ctx) : Ms → Bool
  | .f0 | .f1 => true
  | .pk_k k | .pk_h k => k.length == keySize ctx
  | .older n | .after n => decide (1 ≤ n) && decide (n < MAX_TIMELOCK)
  | .hash h d => d.length == dataSize h
  | .multi k keys =>
    ctx == .p2wsh && decide (1 ≤ keys.length) && decide (keys.length ≤ MAX_PUBKEYS_PER_MULTISIG) &&
      decide (1 ≤ k) && decide (k ≤ keys.length) && keys.all (fun key => key.length == keySize ctx)
  | .multi_a k keys =>
    ctx == .tapscript && decide (1 ≤ keys.length) && decide (keys.length ≤ MAX_PUBKEYS_PER_MULTI_A) &&
      decide (1 ≤ k) && decide (k ≤ keys.length) && keys.all (fun key => key.length == keySize ctx)
  | .wrap _ x => shaped ctx x
  | .bin _ x y => shaped ctx x && shaped ctx y
  | .andor x y z => shaped ctx x && shaped ctx y && shaped ctx z
  | .thresh k x xs => decide (1 ≤ k) && decide (k ≤ xs.length + 1) && shaped ctx x && shapedL ctx xs
def shapedL (ctx : Ctx) : MsL → Bool
  | .nil => true
  | .cons x xs => shaped ctx x && shapedL ctx xs
end

end Btc.Miniscript
