import Model.C15.Types
import Model.C08.Num
/-
C15 — script templates and static script size:
`miniscript.py: Miniscript.script, _fragment_script, _leaf_fragment_script,
_multi_fragment_script, _verify_state, _pushed_number, _pushed_size,
_computed_script_size, _leaf_script_size` and, underneath,
`script.py: push_int, _serialize_bytes_command` and `utils.py: encode_num`.
Op code bytes, `_SCRIPT_TEMPLATES` and `_OVERHEAD` are the generated tables.
-/
namespace Btc.Miniscript

open Btc Gen.Miniscript

/-- `script._serialize_bytes_command`: the minimal push operator of `d`. -/
def pushData (d : Bytes) : Bytes :=
  if d.length < 76 then UInt8.ofNat d.length :: d
  else if d.length < 256 then 76 :: UInt8.ofNat d.length :: d
  else if d.length < 65536 then 77 :: (leBytes 2 d.length ++ d)
  else 78 :: (leBytes 4 d.length ++ d)

/-- `utils.encode_num` on a natural number: C08's model of it (`Model/C08/Num.lean`, proved there to
    be `CScriptNum::serialize` and inverted by `decode_num`). -/
def encodeNum (n : Nat) : Bytes := Btc.Script.encodeNumRaw (n : Int)

/-- `serialize([push_int(n)])`: the op code where the number has one, the CScriptNum push above. -/
def pushNum (n : Nat) : Bytes :=
  if n = 0 then [OP_0]
  else if n ≤ 16 then [UInt8.ofNat (OP_1.toNat + n - 1)]
  else pushData (encodeNum n)

/-- `_pushed_size`: by definition the length of the push, as in the source. -/
def pushedSize (n : Nat) : Nat := (pushNum n).length

/-- a `_SCRIPT_TEMPLATES` row with the subexpressions' scripts put in. -/
def instantiate (tpl : List Part) (subs : List Bytes) : Bytes :=
  tpl.flatMap fun p => match p with
    | .op b => [b]
    | .sub i => subs.getD i []

/-- `_verify_state` for the argument of a wrapper. -/
def Wrap.verifyState (verify : Bool) : Wrap → Bool
  | .v => true
  | .s => verify
  | _ => false

/-- `_verify_state` for argument `index` of a binary combinator. -/
def Bin.verifyState (verify : Bool) (index : Nat) : Bin → Bool
  | .and_v => if index = 1 then verify else false
  | _ => false

/-- `_multi_fragment_script` for `multi_a`: CHECKSIG for the first key, CHECKSIGADD for the rest. -/
def multiAKeys : List Key → Bytes
  | [] => []
  | k0 :: rest => pushData k0 ++ [OP_CHECKSIG] ++ rest.flatMap fun k => pushData k ++ [OP_CHECKSIGADD]

mutual
/-- `_fragment_script` under `_tree_eval(self, False, _verify_state, up)`: the script of a
    fragment, `verify` saying whether it is followed by an OP_VERIFY that it folds into its last
    op code.  `h160` is `hash160` (of the key bytes as the context writes them). -/
def compile (ctx : Ctx) (h160 : Bytes → Bytes) (verify : Bool) : Ms → Bytes
  | .f0 => [OP_0]
  | .f1 => [OP_1]
  | .pk_k k => pushData k
  | .pk_h k => [OP_DUP, OP_HASH160] ++ pushData (h160 k) ++ [OP_EQUALVERIFY]
  | .older n => pushNum n ++ [OP_CHECKSEQUENCEVERIFY]
  | .after n => pushNum n ++ [OP_CHECKLOCKTIMEVERIFY]
  | .hash h d =>
    [OP_SIZE] ++ pushNum 32 ++ [OP_EQUALVERIFY, hashOp h] ++ pushData d ++
      [if verify then OP_EQUALVERIFY else OP_EQUAL]
  | .multi k keys =>
    pushNum k ++ keys.flatMap pushData ++ pushNum keys.length ++
      [if verify then OP_CHECKMULTISIGVERIFY else OP_CHECKMULTISIG]
  | .multi_a k keys =>
    multiAKeys keys ++ pushNum k ++ [if verify then OP_NUMEQUALVERIFY else OP_NUMEQUAL]
  | .wrap .c x => compile ctx h160 false x ++ [if verify then OP_CHECKSIGVERIFY else OP_CHECKSIG]
  | .wrap .v x => compile ctx h160 true x ++ (if (typeOf ctx x).x then [OP_VERIFY] else [])
  | .wrap w x => instantiate (template w.frag) [compile ctx h160 (w.verifyState verify) x]
  | .bin b x y =>
    instantiate (template b.frag)
      [compile ctx h160 (b.verifyState verify 0) x, compile ctx h160 (b.verifyState verify 1) y]
  | .andor x y z =>
    instantiate (template .andor)
      [compile ctx h160 false x, compile ctx h160 false y, compile ctx h160 false z]
  | .thresh k x xs =>
    compile ctx h160 false x ++ compileRest ctx h160 xs ++ pushNum k ++
      [if verify then OP_EQUALVERIFY else OP_EQUAL]
/-- the further arguments of a thresh(): each followed by OP_ADD. -/
def compileRest (ctx : Ctx) (h160 : Bytes → Bytes) : MsL → Bytes
  | .nil => []
  | .cons x xs => compile ctx h160 false x ++ [OP_ADD] ++ compileRest ctx h160 xs
end

mutual
/-- `_computed_script_size` (with `_leaf_script_size`): the length of the script, computed
    without serializing it. -/
def scriptSize (ctx : Ctx) : Ms → Nat
  | .f0 | .f1 => 1
  | .pk_k _ => if ctx == .tapscript then 33 else 34
  | .pk_h _ => 3 + 21
  | .older n | .after n => 1 + pushedSize n
  | .hash h _ => 4 + 2 + (if dataSize h == 32 then 33 else 21)
  | .multi k keys => 1 + pushedSize keys.length + pushedSize k + 34 * keys.length
  | .multi_a k keys => (1 + 32 + 1) * keys.length + pushedSize k + 1
  | .wrap .v x => scriptSize ctx x + (typeOf ctx x).x.toNat
  | .wrap w x => scriptSize ctx x + overhead w.frag
  | .bin b x y => scriptSize ctx x + scriptSize ctx y + overhead b.frag
  | .andor x y z => scriptSize ctx x + scriptSize ctx y + scriptSize ctx z + overhead .andor
  | .thresh k x xs => scriptSize ctx x + scriptSizeL ctx xs + (xs.length + 1) + pushedSize k
def scriptSizeL (ctx : Ctx) : MsL → Nat
  | .nil => 0
  | .cons x xs => scriptSize ctx x + scriptSizeL ctx xs
end

/-- `_max_script_size`. -/
def maxScriptSize : Ctx → Nat
  | .tapscript => MAX_TAPSCRIPT_SIZE
  | .p2wsh => MAX_STANDARD_P2WSH_SCRIPT_SIZE

/-- `Miniscript.is_valid`. -/
def isValid (ctx : Ctx) (n : Ms) : Bool :=
  (typeOf ctx n).nonEmpty && decide (scriptSize ctx n ≤ maxScriptSize ctx)

/-- `Miniscript.script()`: refused (`BTClibValueError`) unless `is_valid`. -/
def script (ctx : Ctx) (h160 : Bytes → Bytes) (n : Ms) : Option Bytes :=
  if isValid ctx n then some (compile ctx h160 false n) else none

end Btc.Miniscript
