import Model.Common.Bytes
/-
C15 — miniscript.  Abstract syntax of `btclib/descriptors/miniscript.py: Miniscript`
(fragment, context, subs, keys, threshold, data) for both BIP379 dialects, and the
vocabulary the generated tables (`Generated/Miniscript.lean`) are written in:
the type-property record `Props` (one Boolean per BIP379 property letter, the
`frozenset[str]` of the source) with the source's set operations `| & _if _has`.

A KEY expression is modelled by the bytes it writes in the script (33 bytes SEC under
P2WSH, 32 bytes x-only under tapscript); the hash160 a `pk_h()` writes is a parameter
of `compile`.  The sugared spellings (`pk pkh t: l: u: and_n`) are not constructors:
the source builds them as what they stand for (`_built`, `_read_key_fragment`) and only
the printer/parser know them.
-/
namespace Btc.Miniscript

open Btc

/-- the two spend contexts of BIP379 (`P2WSH`, `TAPSCRIPT`). -/
inductive Ctx | p2wsh | tapscript
  deriving DecidableEq, Repr, Inhabited

inductive HashKind | sha256 | hash256 | ripemd160 | hash160
  deriving DecidableEq, Repr, Inhabited

/-- the seven wrappers `_WRAPPERS`. -/
inductive Wrap | a | s | c | d | v | j | n
  deriving DecidableEq, Repr, Inhabited

/-- the six two-argument combinators `_BINARY`. -/
inductive Bin | and_v | and_b | or_b | or_c | or_d | or_i
  deriving DecidableEq, Repr, Inhabited

abbrev Key := Bytes

mutual
/-- a miniscript expression. `thresh k x xs` is `thresh(k, x, xs…)`: at least one argument,
    as `_assert_shape` requires. -/
inductive Ms
  | f0
  | f1
  | pk_k (key : Key)
  | pk_h (key : Key)
  | older (n : Nat)
  | after (n : Nat)
  | hash (h : HashKind) (digest : Bytes)
  | multi (k : Nat) (keys : List Key)
  | multi_a (k : Nat) (keys : List Key)
  | wrap (w : Wrap) (x : Ms)
  | bin (b : Bin) (x y : Ms)
  | andor (x y z : Ms)
  | thresh (k : Nat) (x : Ms) (xs : MsL)
inductive MsL
  | nil
  | cons (x : Ms) (xs : MsL)
end

deriving instance DecidableEq for Ms, MsL
deriving instance Inhabited for Ms, MsL

def MsL.length : MsL → Nat
  | .nil => 0
  | .cons _ xs => xs.length + 1

def MsL.toList : MsL → List Ms
  | .nil => []
  | .cons x xs => x :: xs.toList

def MsL.ofList : List Ms → MsL
  | [] => .nil
  | x :: xs => .cons x (MsL.ofList xs)

/-- every fragment that has subexpressions and a fixed script template or overhead:
    the keys of `_OVERHEAD` / `_SCRIPT_TEMPLATES`. -/
inductive Frag
  | wa | ws | wc | wd | wv | wj | wn
  | and_v | and_b | or_b | or_c | or_d | or_i | andor
  deriving DecidableEq, Repr, Inhabited

def Wrap.frag : Wrap → Frag
  | .a => .wa | .s => .ws | .c => .wc | .d => .wd | .v => .wv | .j => .wj | .n => .wn

def Bin.frag : Bin → Frag
  | .and_v => .and_v | .and_b => .and_b | .or_b => .or_b | .or_c => .or_c | .or_d => .or_d
  | .or_i => .or_i

/-- one entry of a `_SCRIPT_TEMPLATES` row: an op code byte, or the place of a subexpression. -/
inductive Part
  | op (b : UInt8)
  | sub (i : Nat)
  deriving DecidableEq, Repr

/-! ## type properties -/

/-- BIP379's type and property letters, one Boolean each: the `frozenset[str]` of the source. -/
structure Props where
  B : Bool := false
  V : Bool := false
  K : Bool := false
  W : Bool := false
  z : Bool := false
  o : Bool := false
  n : Bool := false
  d : Bool := false
  u : Bool := false
  e : Bool := false
  f : Bool := false
  s : Bool := false
  m : Bool := false
  x : Bool := false
  k : Bool := false
  g : Bool := false
  h : Bool := false
  i : Bool := false
  j : Bool := false
  deriving DecidableEq, Repr, Inhabited

namespace Props

/-- `_NONE`. -/
def none : Props := {}

/-- set union `|`. -/
def or (a b : Props) : Props :=
  { B := a.B || b.B, V := a.V || b.V, K := a.K || b.K, W := a.W || b.W, z := a.z || b.z,
    o := a.o || b.o, n := a.n || b.n, d := a.d || b.d, u := a.u || b.u, e := a.e || b.e,
    f := a.f || b.f, s := a.s || b.s, m := a.m || b.m, x := a.x || b.x, k := a.k || b.k,
    g := a.g || b.g, h := a.h || b.h, i := a.i || b.i, j := a.j || b.j }

/-- set intersection `&`. -/
def and (a b : Props) : Props :=
  { B := a.B && b.B, V := a.V && b.V, K := a.K && b.K, W := a.W && b.W, z := a.z && b.z,
    o := a.o && b.o, n := a.n && b.n, d := a.d && b.d, u := a.u && b.u, e := a.e && b.e,
    f := a.f && b.f, s := a.s && b.s, m := a.m && b.m, x := a.x && b.x, k := a.k && b.k,
    g := a.g && b.g, h := a.h && b.h, i := a.i && b.i, j := a.j && b.j }

instance : OrOp Props := ⟨Props.or⟩
instance : AndOp Props := ⟨Props.and⟩

/-- `_if(condition, properties)`. -/
def when (c : Bool) (p : Props) : Props := if c then p else none

/-- `_has(properties, required)`: `required ⊆ properties`. -/
def has (p req : Props) : Bool :=
  (!req.B || p.B) && (!req.V || p.V) && (!req.K || p.K) && (!req.W || p.W) && (!req.z || p.z) &&
  (!req.o || p.o) && (!req.n || p.n) && (!req.d || p.d) && (!req.u || p.u) && (!req.e || p.e) &&
  (!req.f || p.f) && (!req.s || p.s) && (!req.m || p.m) && (!req.x || p.x) && (!req.k || p.k) &&
  (!req.g || p.g) && (!req.h || p.h) && (!req.i || p.i) && (!req.j || p.j)

/-- `bool(properties)`: non-empty. -/
def nonEmpty (p : Props) : Bool := p != none

/-- number of basic types held: `len(properties & _t("BVKW"))`. -/
def basicCount (p : Props) : Nat := p.B.toNat + p.V.toNat + p.K.toNat + p.W.toNat

/-- `_sanitized`. -/
def sanitized (p : Props) : Props := if p.basicCount = 1 then p else none

def ofChar (c : Char) : Props :=
  match c with
  | 'B' => { B := true } | 'V' => { V := true } | 'K' => { K := true } | 'W' => { W := true }
  | 'z' => { z := true } | 'o' => { o := true } | 'n' => { n := true } | 'd' => { d := true }
  | 'u' => { u := true } | 'e' => { e := true } | 'f' => { f := true } | 's' => { s := true }
  | 'm' => { m := true } | 'x' => { x := true } | 'k' => { k := true } | 'g' => { g := true }
  | 'h' => { h := true } | 'i' => { i := true } | 'j' => { j := true } | _ => {}

/-- `"".join(sorted(properties))` (ASCII order: upper case first). -/
def render (p : Props) : String :=
  let l : List (Bool × Char) :=
    [(p.B, 'B'), (p.K, 'K'), (p.V, 'V'), (p.W, 'W'), (p.d, 'd'), (p.e, 'e'), (p.f, 'f'),
     (p.g, 'g'), (p.h, 'h'), (p.i, 'i'), (p.j, 'j'), (p.k, 'k'), (p.m, 'm'), (p.n, 'n'),
     (p.o, 'o'), (p.s, 's'), (p.u, 'u'), (p.x, 'x'), (p.z, 'z')]
  let cs := (l.filter (·.1)).map (·.2)
  if cs.isEmpty then "-" else String.ofList cs

end Props

end Btc.Miniscript
