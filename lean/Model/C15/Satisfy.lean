import Model.C15.Bounds
/-
C15 — the non-malleable satisfier: `miniscript.py: SpendContext (_preimage, _after, _older),
_Input, _element, _NO_WITNESS, _NO_PUSHES, _ZERO_PUSH, _ONE_PUSH, _ZERO32_PUSH, _both, _better,
_Inputs, _key_input, _multi_input, _leaf_input, _wrapper_input, _and_input, _or_input,
_andor_input, _thresh_input, _computed_input` with `estimate=False` (so `choose` is `_better`
and `_assumed_signature` / `_larger` are never reached), and `Miniscript.satisfy`.
Hand-modelled function by function, tied by the `sat` correspondence stream.

A stack is in WITNESS order: the first element is the bottom of the stack (what the source
returns).  A key is the bytes the script writes (33-byte SEC under P2WSH, 32-byte x-only under
tapscript); the source looks a signature up under `KeyExpression.sec()`, which is those bytes
under P2WSH and `02 ‖ x` under tapscript, and then, under tapscript, under the x-only bytes
(`key_expression._offered_signature`).
-/
namespace Btc.Miniscript

open Btc Gen.Miniscript

/-- what a satisfaction reads: the `signatures` argument of `satisfy` and the `SpendContext`. -/
structure SatEnv where
  /-- signature offered for a key (a `Mapping` in the source: the first pair of a key is the entry). -/
  sigs : List (Key × Bytes)
  /-- (kind, digest, preimage): the four `*_preimages` mappings. -/
  preimages : List (HashKind × Bytes × Bytes)
  locktime : Nat
  sequence : Nat
  version : Nat

/-- `_Input`. -/
structure Input where
  stack : Option (List Bytes)
  hasSig : Bool := false
  malleable : Bool := false
  nonCanonical : Bool := false
  size : Nat := 0
  deriving DecidableEq, Repr

/-- `_element`. -/
def element (data : Bytes) : Input := { stack := some [data], size := data.length + 1 }

/-- `_NO_WITNESS`. -/
def noWitness : Input := { stack := none }
/-- `_NO_PUSHES`. -/
def noPushes : Input := { stack := some [] }
/-- `_ZERO_PUSH`. -/
def zeroPush : Input := element []
/-- `_ONE_PUSH`. -/
def onePush : Input := element [1]
/-- `_ZERO32_PUSH`. -/
def zero32Push : Input := { stack := some [List.replicate 32 0], malleable := true, size := 33 }

/-- `_both(first, second)`. -/
def both (first second : Input) : Input :=
  match first.stack, second.stack with
  | some s, some t =>
    { stack := some (s ++ t)
      hasSig := first.hasSig || second.hasSig
      malleable := first.malleable || second.malleable
      nonCanonical := first.nonCanonical || second.nonCanonical
      size := first.size + second.size }
  | _, _ => noWitness

/-- `_better(first, second)`. -/
def better (first second : Input) : Input :=
  if first.stack.isNone then second
  else if second.stack.isNone then first
  else if first.hasSig != second.hasSig then (if first.hasSig then second else first)
  else if !first.hasSig then
    { (if first.size ≤ second.size then first else second) with malleable := true }
  else if first.malleable != second.malleable then (if first.malleable then second else first)
  else if first.size ≤ second.size then first else second

/-- `replace(i, malleable=True, non_canonical=True)`. -/
def overcomplete (i : Input) : Input := { i with malleable := true, nonCanonical := true }

/-- `replace(i, non_canonical=True)`. -/
def nonCanon (i : Input) : Input := { i with nonCanonical := true }

/-- `_Inputs`. -/
structure Inputs where
  sat : Input
  dsat : Input
  deriving DecidableEq, Repr

/-! ## `SpendContext` -/

/-- the entry of a mapping: first pair of the key. -/
def lookupSig : List (Key × Bytes) → Key → Option Bytes
  | [], _ => none
  | (k, s) :: rest, key => if k = key then some s else lookupSig rest key

/-- `_offered_signature(signatures, sec, x_only=context == TAPSCRIPT)`, `key` being the bytes the
    script writes: `sec` is `key` under P2WSH and `02 ‖ key` under tapscript, where `sec[1:]`
    (= `key`) is asked next. -/
def offered (ctx : Ctx) (env : SatEnv) (key : Key) : Option Bytes :=
  match ctx with
  | .p2wsh => lookupSig env.sigs key
  | .tapscript =>
    match lookupSig env.sigs (2 :: key) with
    | some s => some s
    | none => lookupSig env.sigs key

def lookupPre : List (HashKind × Bytes × Bytes) → HashKind → Bytes → Option Bytes
  | [], _, _ => none
  | (h, d, p) :: rest, kind, digest =>
    if h = kind ∧ d = digest then some p else lookupPre rest kind digest

/-- `SpendContext._preimage`.  BIP379 takes a preimage of 32 bytes; on a mapping entry of another
    size the source RAISES (`bytes_from_octets(preimage, 32)`): the harness never offers one, and
    the model answers as if the entry were absent. -/
def preimageOf (env : SatEnv) (kind : HashKind) (digest : Bytes) : Option Bytes :=
  match lookupPre env.preimages kind digest with
  | some p => if p.length = 32 then some p else none
  | none => none

/-- `SpendContext._after`. -/
def afterMet (env : SatEnv) (value : Nat) : Bool :=
  if decide (value ≥ LOCKTIME_THRESHOLD) != decide (env.locktime ≥ LOCKTIME_THRESHOLD) then false
  else decide (value ≤ env.locktime) && env.sequence != 0xFFFFFFFF

/-- `SpendContext._older`. -/
def olderMet (env : SatEnv) (value : Nat) : Bool :=
  if decide (env.version < 2) || Nat.land env.sequence (2 ^ 31) != 0 then false
  else if Nat.land value SEQUENCE_LOCKTIME_TYPE_FLAG != Nat.land env.sequence SEQUENCE_LOCKTIME_TYPE_FLAG
    then false
  else decide (Nat.land value 0x0000FFFF ≤ Nat.land env.sequence 0x0000FFFF)

/-! ## leaves -/

/-- the `signature` of `_key_input` / `_multi_input` (estimate=False). -/
def sigInput (ctx : Ctx) (env : SatEnv) (key : Key) : Input :=
  match offered ctx env key with
  | some s => { element s with hasSig := true }
  | none => noWitness

/-- `_key_input`: `pkh = false` is `pk_k()`, `pkh = true` is `pk_h()`. -/
def keyInput (ctx : Ctx) (env : SatEnv) (pkh : Bool) (key : Key) : Inputs :=
  let signature := sigInput ctx env key
  if !pkh then ⟨signature, zeroPush⟩
  else
    let k := element key
    ⟨both signature k, both zeroPush k⟩

/-- one turn of the loop of `_multi_input`: `reached ↦ following`. -/
def multiStep (unused : Input) (reached : List Input) (signature : Input) : List Input :=
  dpStep (fun r0 => both r0 unused)
    (fun prev cur => better (both cur unused) (both prev signature))
    (fun l => both l signature) reached

/-- the dissatisfaction of a `multi()`: `_ZERO_PUSH` and `threshold` more. -/
def multiDsat : Nat → Input
  | 0 => zeroPush
  | k + 1 => both (multiDsat k) zeroPush

/-- `_multi_input`: `multiA = false` is `multi()`, `multiA = true` is `multi_a()`.
    (`reached[threshold]` is in range for every expression `_assert_shape` lets through; the
    source would raise IndexError elsewhere, the model answers `_NO_WITNESS`.) -/
def multiInput (ctx : Ctx) (env : SatEnv) (multiA : Bool) (threshold : Nat) (keys : List Key) : Inputs :=
  if multiA then
    -- `for key in reversed(node.keys)`
    let reached := keys.foldr (fun key r => multiStep zeroPush r (sigInput ctx env key)) [noPushes]
    ⟨reached.getD threshold noWitness, reached.getD 0 noWitness⟩
  else
    let reached := keys.foldl (fun r key => multiStep noPushes r (sigInput ctx env key)) [zeroPush]
    ⟨reached.getD threshold noWitness, multiDsat threshold⟩

/-! ## combinators -/

/-- `_wrapper_input`. -/
def wrapperInput (w : Wrap) (x : Inputs) : Inputs :=
  match w with
  | .a | .s | .c | .n => x
  | .d => ⟨both x.sat onePush, zeroPush⟩
  | .v => ⟨x.sat, noWitness⟩
  | .j =>
    let dissatisfiable := x.dsat.stack.isSome && !x.dsat.hasSig
    ⟨x.sat, { zeroPush with malleable := dissatisfiable }⟩

/-- `_and_input` and `_or_input`: the six two-argument fragments (`x` first argument, `y` second). -/
def binInput (b : Bin) (x y : Inputs) : Inputs :=
  match b with
  | .and_v => ⟨both y.sat x.sat, nonCanon (both y.dsat x.sat)⟩
  | .and_b =>
    let over := better (overcomplete (both y.sat x.dsat)) (overcomplete (both y.dsat x.sat))
    ⟨both y.sat x.sat, better (both y.dsat x.dsat) over⟩
  | .or_b =>
    let bothSat := overcomplete (both y.sat x.sat)
    ⟨better (better (both y.dsat x.sat) (both y.sat x.dsat)) bothSat, both y.dsat x.dsat⟩
  | .or_c => ⟨better x.sat (both y.sat x.dsat), noWitness⟩
  | .or_d => ⟨better x.sat (both y.sat x.dsat), both y.dsat x.dsat⟩
  | .or_i =>
    ⟨better (both x.sat onePush) (both y.sat zeroPush),
     better (both x.dsat onePush) (both y.dsat zeroPush)⟩

/-- `_andor_input`. -/
def andorInput (x y z : Inputs) : Inputs :=
  ⟨better (both y.sat x.sat) (both z.sat x.dsat),
   better (nonCanon (both y.dsat x.sat)) (both z.dsat x.dsat)⟩

/-- one turn of the first loop of `_thresh_input`. -/
def threshStepIn (reached : List Input) (sub : Inputs) : List Input :=
  dpStep (fun r0 => both r0 sub.dsat)
    (fun prev cur => better (both cur sub.dsat) (both prev sub.sat))
    (fun l => both l sub.sat) reached

/-- the second loop of `_thresh_input`, from `count` on. -/
def threshDsat (threshold : Nat) : Nat → List Input → Input → Input
  | _, [], acc => acc
  | count, reaching :: rest, acc =>
    let acc' :=
      if count = threshold then acc
      else better acc (if count = 0 then reaching else overcomplete reaching)
    threshDsat threshold (count + 1) rest acc'

/-- `_thresh_input` (`for sub in reversed(subs)` is the right fold). -/
def threshInput (threshold : Nat) (subs : List Inputs) : Inputs :=
  let reached := subs.foldr (fun sub r => threshStepIn r sub) [noPushes]
  ⟨reached.getD threshold noWitness, threshDsat threshold 0 reached noWitness⟩

/-! ## the walk -/

mutual
/-- `_computed_input(…, estimate=False)` over the tree (`_tree_eval` in `satisfy`). -/
def inputs (ctx : Ctx) (env : SatEnv) : Ms → Inputs
  | .f0 => ⟨noWitness, noPushes⟩
  | .f1 => ⟨noPushes, noWitness⟩
  | .pk_k key => keyInput ctx env false key
  | .pk_h key => keyInput ctx env true key
  | .older n => ⟨if olderMet env n then noPushes else noWitness, noWitness⟩
  | .after n => ⟨if afterMet env n then noPushes else noWitness, noWitness⟩
  | .hash h digest =>
    ⟨match preimageOf env h digest with
      | some p => element p
      | none => noWitness,
     zero32Push⟩
  | .multi k keys => multiInput ctx env false k keys
  | .multi_a k keys => multiInput ctx env true k keys
  | .wrap w x => wrapperInput w (inputs ctx env x)
  | .bin b x y => binInput b (inputs ctx env x) (inputs ctx env y)
  | .andor x y z => andorInput (inputs ctx env x) (inputs ctx env y) (inputs ctx env z)
  | .thresh k x xs => threshInput k (inputs ctx env x :: inputsL ctx env xs)
def inputsL (ctx : Ctx) (env : SatEnv) : MsL → List Inputs
  | .nil => []
  | .cons x xs => inputs ctx env x :: inputsL ctx env xs
end

/-- the two refusals of `Miniscript.satisfy`: "no satisfaction of …" and
    "no non-malleable satisfaction of …". -/
inductive SatErr | none | malleable
  deriving DecidableEq, Repr

/-- `Miniscript.satisfy`: the witness, first element at the bottom of the stack. -/
def satisfy (ctx : Ctx) (env : SatEnv) (n : Ms) : Except SatErr (List Bytes) :=
  let satisfaction := (inputs ctx env n).sat
  match satisfaction.stack with
  | Option.none => .error .none
  | some stack =>
    if satisfaction.malleable || !satisfaction.hasSig then .error .malleable else .ok stack

end Btc.Miniscript
