import Model.Common.Bytes
import Model.C20.Steps
import Generated.Lifecycle
/-!
# C20 — lifecycle transition systems (DESIGN §3 C20)

Small labelled transition systems mirroring the stateful objects of btclib:

* `Nonce`   — the caller-held `bytearray` consumed by `btclib.ecc.musig2.sign`;
* `Signer`  — `dsa.Signer` / `ssa.Signer` (`_wiped`, `wipe`, `with`);
* `SoftSigner` — `psbt_signer.SoftwareSigner` (`close`, `_assert_open`);
* `Wallet`  — `wallet.RangedWallet` (`_next_index`, the `_handed_out` ledger);
* `Memo`    — a cache with an arbitrary eviction policy wrapping a pure `f`
              (`functools.lru_cache`, `SessionContext._values`, lazy word-lists);
* `Backend` — the process-wide `_libsecp256k1_available` flag.

The step functions of the first four are *interpreters of the statement lists the translator
reads off the source* (`Gen.Lifecycle.*`, see `Model/C20/Steps.lean`): the order of the statements
in /repo is the definition of the step.  Core Lean only.
-/
namespace Btc.C20
open Btc

/-- exception classes as the harness canonicalises them; `foreign` = not a btclib exception. -/
inductive Err | value | type | runtime | foreign
  deriving DecidableEq, Repr, Inhabited

def Err.name : Err → String
  | .value => "value" | .type => "type" | .runtime => "runtime" | .foreign => "foreign"

/-! ## Nonce: `musig2.sign(sec_nonce, prv_key, session_ctx)` -/

/-- What `musig2.sign` reads besides the bytearray.  The session values are public functions of
    the context (modelled under C16/C03); here they are inputs, so that the model covers exactly
    the lifecycle logic: what is read, what is overwritten, what is refused, and in which order. -/
structure SignArgs where
  ctxOk : Bool      -- `session_values(session_ctx)` returns (the session assembles)
  ctxErr : Err      -- the class it raises otherwise (ValueError: a tweak; RuntimeError: a contribution)
  rOdd  : Bool      -- `values.R[1] % 2`
  b     : Int       -- `values.b`
  e     : Int       -- `values.e`
  a     : Int       -- key aggregation coefficient of the signer's key
  g     : Int       -- 1 if `values.Q[1]` is even else n - 1
  gacc  : Int       -- `values.gacc`
  prv   : Int       -- `prv_key`
  pk    : Bytes     -- `individual_pub_key(prv_key)`
  inSet : Bool      -- `pk in values.pub_keys_set`
  deriving Repr, Inhabited

/-- local variables of `musig2.sign` (unassigned = `none`: reading one is an UnboundLocalError). -/
structure SignLocals where
  k1 : Option Int := none
  k2 : Option Int := none
  d  : Option Int := none
  pk : Option Bytes := none
  a  : Option Int := none
  deriving Repr, Inhabited

/-- how the caller holds the secret nonce.  `musig2.sign` is written for a `bytearray`; the other
    spellings are what a caller can pass instead, and the source's promise for them is that "an
    immutable secnonce is one nothing can spend": the slice assignment (or the read) raises. -/
inductive NonceKind
  | buf        -- bytearray
  | view       -- writable memoryview: the slice assignment must keep the size
  | frozen     -- bytes / read-only memoryview: the slice assignment raises TypeError
  | text       -- hex str: `int.from_bytes` raises TypeError
  deriving DecidableEq, Repr, Inhabited

/-- `buf[:n] = bytearray(n)`. -/
def zeroPrefix (n : Nat) (bs : Bytes) : Bytes := List.replicate n 0 ++ bs.drop n

/-- Interpreter of the statement list of `musig2.sign`: returns the bytearray as the call leaves it
    and what the call answers. -/
def runSign (kind : NonceKind) (n : Int) (x : SignArgs) :
    List SignStep → Bytes → SignLocals → Bytes × Except Err Bytes
  | [], nonce, _ => (nonce, .error .foreign)
  | s :: rest, nonce, l =>
    match s with
    | .session => if x.ctxOk then runSign kind n x rest nonce l else (nonce, .error x.ctxErr)
    | .readK1 =>
      if kind = .text then (nonce, .error .foreign)
      else runSign kind n x rest nonce { l with k1 := some (ofBE (nonce.take 32) : Nat) }
    | .readK2 =>
      if kind = .text then (nonce, .error .foreign)
      else runSign kind n x rest nonce { l with k2 := some (ofBE ((nonce.take 64).drop 32) : Nat) }
    | .zero m =>
      match kind with
      | .buf => runSign kind n x rest (zeroPrefix m nonce) l
      | .view => if m ≤ nonce.length then runSign kind n x rest (zeroPrefix m nonce) l else (nonce, .error .foreign)
      | .frozen => (nonce, .error .foreign)
      | .text => (nonce, .error .foreign)
    | .checkK1 =>
      match l.k1 with
      | none => (nonce, .error .foreign)
      | some k => if 0 < k ∧ k < n then runSign kind n x rest nonce l else (nonce, .error .value)
    | .checkK2 =>
      match l.k2 with
      | none => (nonce, .error .foreign)
      | some k => if 0 < k ∧ k < n then runSign kind n x rest nonce l else (nonce, .error .value)
    | .negate =>
      match l.k1, l.k2 with
      | some k1, some k2 =>
        if x.rOdd then runSign kind n x rest nonce { l with k1 := some (n - k1), k2 := some (n - k2) }
        else runSign kind n x rest nonce l
      | _, _ => (nonce, .error .foreign)
    | .key =>
      if 0 < x.prv ∧ x.prv < n then runSign kind n x rest nonce { l with d := some x.prv }
      else (nonce, .error .value)
    | .pubKey =>
      match l.d with
      | some _ => runSign kind n x rest nonce { l with pk := some x.pk }
      | none => (nonce, .error .foreign)
    | .pkCheck off =>
      match l.pk with
      | some pk => if pk ≠ nonce.drop off then (nonce, .error .value) else runSign kind n x rest nonce l
      | none => (nonce, .error .foreign)
    | .coeff =>
      match l.pk with
      | some _ => if x.inSet then runSign kind n x rest nonce { l with a := some x.a } else (nonce, .error .value)
      | none => (nonce, .error .foreign)
    | .calc => runSign kind n x rest nonce l
    | .ret =>
      match l.k1, l.k2, l.d, l.a with
      | some k1, some k2, some d, some a =>
        (nonce, .ok (beBytes 32 ((k1 + x.b * k2 + x.e * a * (x.g * x.gacc * d % n)) % n).toNat))
      | _, _, _, _ => (nonce, .error .foreign)

/-- `musig2.sign` as the current source states it, on a nonce held in a given spelling. -/
def Nonce.signK (kind : NonceKind) (x : SignArgs) (nonce : Bytes) : Bytes × Except Err Bytes :=
  runSign kind (Gen.Lifecycle.N : Nat) x Gen.Lifecycle.musigSign nonce {}

/-- on the `bytearray` it is written for. -/
def Nonce.sign (x : SignArgs) (nonce : Bytes) : Bytes × Except Err Bytes := Nonce.signK .buf x nonce

/-- `psbt.musig2.partial_sign`, as far as the caller's nonce is concerned: the source hands the
    caller's own object to `musig2.sign` (`Gen.Lifecycle.partialSignPassesNonce`); were it to sign
    with a copy, the signature would come back and the caller's object would stay as it was. -/
def Nonce.partialSign (kind : NonceKind) (x : SignArgs) (nonce : Bytes) : Bytes × Except Err Bytes :=
  if Gen.Lifecycle.partialSignPassesNonce then Nonce.signK kind x nonce
  else (nonce, (Nonce.signK .buf x nonce).2)

/-- did the attempt return a signature? -/
def isSig : Except Err Bytes → Bool
  | .ok _ => true
  | .error _ => false

/-- a history of signing attempts (ecc level or psbt level, per op) on one caller-held object. -/
def Nonce.runK (kind : NonceKind) : List (Bool × SignArgs) → Bytes → List (Except Err Bytes) × Bytes
  | [], nonce => ([], nonce)
  | (psbtLevel, x) :: ops, nonce =>
    let r := if psbtLevel then Nonce.partialSign kind x nonce else Nonce.signK kind x nonce
    let (os, final) := Nonce.runK kind ops r.1
    (r.2 :: os, final)

/-- calls a caller can make that involve the bytearray: sign with it, or look at it. -/
inductive NonceOp
  | sign (x : SignArgs)
  | peek
  deriving Repr, Inhabited

inductive NonceOut
  | sig (s : Bytes)
  | err (e : Err)
  | bytes (b : Bytes)
  deriving DecidableEq, Repr, Inhabited

def Nonce.step (op : NonceOp) (nonce : Bytes) : Bytes × NonceOut :=
  match op with
  | .sign x => match Nonce.sign x nonce with
    | (nonce', .ok s) => (nonce', .sig s)
    | (nonce', .error e) => (nonce', .err e)
  | .peek => (nonce, .bytes nonce)

/-- run a history; outputs in call order, and the final bytearray. -/
def Nonce.run : List NonceOp → Bytes → List NonceOut × Bytes
  | [], nonce => ([], nonce)
  | op :: ops, nonce =>
    let (nonce', o) := Nonce.step op nonce
    let (os, final) := Nonce.run ops nonce'
    (o :: os, final)

/-- the first `2 * 32` bytes are there and are zero: what `sign` leaves behind. -/
def Spent (nonce : Bytes) : Prop := nonce.take 64 = List.replicate 64 0

def NonceOut.isSig : NonceOut → Bool
  | .sig _ => true
  | _ => false

/-! ## Signer: `dsa.Signer`, `ssa.Signer` -/

/-- what a `Signer` holds: the flag, the delegated key object (cffi buffer / keypair) and the scalar. -/
structure Signer where
  wiped  : Bool
  keyObj : Bool     -- `_prvkey_buffer is not None` / `_signer is not None`
  scalar : Bool     -- `_q != 0`
  deriving DecidableEq, Repr, Inhabited

/-- which source a `Signer` machine interprets. -/
structure SignerCode where
  sign : List SignerStep
  wipe : List WipeStep
  exitWipes : Bool
  enterReturnsSelf : Bool
  initLive : Bool
  deriving Repr

def dsaCode : SignerCode :=
  ⟨Gen.Lifecycle.dsaSignerSign, Gen.Lifecycle.dsaSignerWipe, Gen.Lifecycle.dsaSignerExitWipes,
   Gen.Lifecycle.dsaSignerEnterReturnsSelf, Gen.Lifecycle.dsaSignerInitLive⟩
def ssaCode : SignerCode :=
  ⟨Gen.Lifecycle.ssaSignerSign, Gen.Lifecycle.ssaSignerWipe, Gen.Lifecycle.ssaSignerExitWipes,
   Gen.Lifecycle.ssaSignerEnterReturnsSelf, Gen.Lifecycle.ssaSignerInitLive⟩

/-- a freshly constructed signer; `delegated` = the bindings serve (ec, hf) at construction. -/
def Signer.init (c : SignerCode) (delegated : Bool) : Signer :=
  ⟨!c.initLive, delegated, !delegated⟩

inductive SignerOut
  | sig            -- a signature made with the held key
  | none_          -- `None`
  | self_          -- the signer itself
  | err (e : Err)
  deriving DecidableEq, Repr, Inhabited

/-- `sign_`: `argsOk` = the message / aux arguments are acceptable. -/
def runSignerSign (argsOk : Bool) : List SignerStep → Signer → SignerOut
  | [], _ => .none_
  | .wipedCheck :: r, s => if s.wiped then .err .value else runSignerSign argsOk r s
  | .argCheck :: r, s => if argsOk then runSignerSign argsOk r s else .err .value
  | .produce :: _, s =>
    if s.keyObj || s.scalar then (if argsOk then .sig else .err .value) else .err .foreign

def runWipe : List WipeStep → Signer → Signer
  | [], s => s
  | .dropKey :: r, s => runWipe r { s with keyObj := false }
  | .zeroScalar :: r, s => runWipe r { s with scalar := false }
  | .setWiped :: r, s => runWipe r { s with wiped := true }

inductive SignerOp
  | sign (argsOk : Bool)
  | wipe
  | enter
  | exit
  deriving DecidableEq, Repr, Inhabited

def Signer.step (c : SignerCode) (op : SignerOp) (s : Signer) : Signer × SignerOut :=
  match op with
  | .sign ok => (s, runSignerSign ok c.sign s)
  | .wipe => (runWipe c.wipe s, .none_)
  | .enter => (s, if c.enterReturnsSelf then .self_ else .none_)
  | .exit => (if c.exitWipes then runWipe c.wipe s else s, .none_)

def Signer.run (c : SignerCode) : List SignerOp → Signer → List SignerOut × Signer
  | [], s => ([], s)
  | op :: ops, s =>
    let (s', o) := Signer.step c op s
    let (os, final) := Signer.run c ops s'
    (o :: os, final)

/-! ## SoftwareSigner -/

structure SoftSigner where
  closed : Bool
  deriving DecidableEq, Repr, Inhabited

def SoftSigner.init : SoftSigner := ⟨!Gen.Lifecycle.softwareSignerInitOpen⟩

/-- whether the method starts with `self._assert_open()` in the current source. -/
def guarded (m : String) : Bool := (Gen.Lifecycle.softwareSignerGuards.lookup m).getD false

inductive SoftOp
  | call (method : String) (argsOk : Bool)
  | close
  deriving DecidableEq, Repr, Inhabited

inductive SoftOut
  | answer         -- the method answered (a key, an address, a signature)
  | none_
  | err (e : Err)
  deriving DecidableEq, Repr, Inhabited

def SoftSigner.step (op : SoftOp) (s : SoftSigner) : SoftSigner × SoftOut :=
  match op with
  | .close => (if Gen.Lifecycle.softwareSignerCloseSets then ⟨true⟩ else s, .none_)
  | .call m ok =>
    if guarded m && s.closed && Gen.Lifecycle.softwareSignerAssertOpenRaises then (s, .err .value)
    else (s, if ok then .answer else .err .value)

def SoftSigner.run : List SoftOp → SoftSigner → List SoftOut × SoftSigner
  | [], s => ([], s)
  | op :: ops, s =>
    let (s', o) := SoftSigner.step op s
    let (os, final) := SoftSigner.run ops s'
    (o :: os, final)

/-- the methods of `SoftwareSigner` that can produce a signature or hand out a key: every public method whose body
    reaches the key material or a signing primitive, as the translator decides on the AST of the class itself (a new
    one appears here whatever its name, and in the guard table). -/
def signingMethods : List String := Gen.Lifecycle.softwareSignerSigning

/-! ## Wallet: `RangedWallet` -/

/-- what the ledger remembers of an address: the position it was computed from (`None` for a key
    that came in on its own through `KeyWallet.add`). -/
structure Info where
  branch : Option Int
  index  : Option Int
  deriving DecidableEq, Repr, Inhabited

/-- the pure part of a wallet: its chains and the address at a position. -/
structure Source (α : Type) where
  branches : List Int
  addr : Int → Nat → Option α       -- `_address(branch, index)`; `none` = it raises (subclass bound)
  isEmpty : α → Bool                -- `not address`

/-- `_next_index` (0 = key absent: a stored value is always ≥ 1) and `_handed_out` (insertion order). -/
structure Wallet (α : Type) where
  next : Int → Nat
  ledger : List (α × Info)

def Wallet.empty {α : Type} : Wallet α := ⟨fun _ => 0, []⟩

/-- `d[k] = v` on an insertion-ordered dict: overwrite in place, or append. -/
def record {α : Type} [DecidableEq α] (l : List (α × Info)) (a : α) (i : Info) : List (α × Info) :=
  if l.any (fun p => p.1 = a) then l.map (fun p => if p.1 = a then (a, i) else p) else l ++ [(a, i)]

def posOk {α : Type} (src : Source α) (b i : Int) : Bool :=
  Gen.Lifecycle.walletPosChecks.all fun c =>
    match c with
    | .branchKnown => src.branches.contains b
    | .indexNonNeg => decide (0 ≤ i)

def bumpVal (how : Bump) (old : Nat) (i : Int) : Nat :=
  match how with
  | .maxOldIdxSucc => max old (i + 1).toNat
  | .idxSucc => (i + 1).toNat
  | .oldSucc => old + 1
  | .other => 0

/-- Interpreter of the statement list of `RangedWallet.address`; `loc` is the local `address`. -/
def runAddress {α : Type} [DecidableEq α] (src : Source α) (b i : Int) :
    List WalletStep → Wallet α → Option α → Wallet α × Except Err α
  | [], w, _ => (w, .error .foreign)
  | .assertPosition :: r, w, loc =>
    if posOk src b i then runAddress src b i r w loc else (w, .error .value)
  | .derive :: r, w, _ =>
    match src.addr b i.toNat with
    | none => (w, .error .value)
    | some a => runAddress src b i r w (some a)
  | .refuseEmpty :: r, w, loc =>
    match loc with
    | none => (w, .error .foreign)
    | some a => if src.isEmpty a then (w, .error .value) else runAddress src b i r w loc
  | .bump how :: r, w, loc =>
    runAddress src b i r
      { w with next := fun b' => if b' = b then bumpVal how (w.next b) i else w.next b' } loc
  | .record :: _, w, loc =>
    match loc with
    | none => (w, .error .foreign)
    | some a => ({ w with ledger := record w.ledger a ⟨some b, some i⟩ }, .ok a)

def Wallet.address {α : Type} [DecidableEq α] (src : Source α) (w : Wallet α) (b i : Int) :
    Wallet α × Except Err α :=
  runAddress src b i Gen.Lifecycle.walletAddress w none

/-- `next_address(b) = address(b, _next_index.get(b, 0))`. -/
def Wallet.nextAddress {α : Type} [DecidableEq α] (src : Source α) (w : Wallet α) (b : Int) :
    Wallet α × Except Err α :=
  Wallet.address src w b (if w.next b = 0 then Gen.Lifecycle.walletNextDefault else w.next b : Nat)

/-- `position_of`: branches in order, one whole branch before the next, indexes `0..last`. -/
def positionOf {α : Type} [DecidableEq α] (src : Source α) (a : α) (last : Nat) : Option (Int × Nat) :=
  src.branches.findSome? fun b =>
    ((List.range (last + 1)).find? fun i => src.addr b i = some a).map fun i => (b, i)

inductive WalletOp (α : Type)
  | address (b i : Int)
  | next (b : Int)
  | positionOf (a : α) (last : Nat)
  | info (a : α)
  | contains (a : α)
  | len
  | add (a : Option α)  -- `KeyWallet.add(key)`: a loose key whose address is `a`; `none` = the key is refused
  deriving Repr

inductive WalletOut (α : Type)
  | addr (a : α)
  | err (e : Err)
  | pos (p : Option (Int × Nat))
  | info (i : Info)
  | bool (v : Bool)
  | nat (n : Nat)
  deriving DecidableEq, Repr

def Wallet.step {α : Type} [DecidableEq α] (src : Source α) (op : WalletOp α) (w : Wallet α) :
    Wallet α × WalletOut α :=
  match op with
  | .address b i => match Wallet.address src w b i with
    | (w', .ok a) => (w', .addr a)
    | (w', .error e) => (w', .err e)
  | .next b => match Wallet.nextAddress src w b with
    | (w', .ok a) => (w', .addr a)
    | (w', .error e) => (w', .err e)
  | .positionOf a last => (w, .pos (positionOf src a last))
  | .info a => match w.ledger.lookup a with
    | some i => (w, .info i)
    | none => (w, .err .value)
  | .contains a => (w, .bool (w.ledger.any fun p => p.1 = a))
  | .len => (w, .nat w.ledger.length)
  | .add (some a) => ({ w with ledger := record w.ledger a ⟨none, none⟩ }, .addr a)
  | .add none => (w, .err .value)

def Wallet.run {α : Type} [DecidableEq α] (src : Source α) :
    List (WalletOp α) → Wallet α → List (WalletOut α) × Wallet α
  | [], w => ([], w)
  | op :: ops, w =>
    let (w', o) := Wallet.step src op w
    let (os, final) := Wallet.run src ops w'
    (o :: os, final)

/-! ### the specification machine: the list of what has been handed out -/

/-- one successful hand-out: the position it was computed from (if any) and the address. -/
structure Hand (α : Type) where
  pos : Option (Int × Nat)
  a : α
  deriving DecidableEq, Repr

/-- `1 + max {i | (b, i) handed out}`, `0` if none. -/
def specNext {α : Type} : List (Hand α) → Int → Nat
  | [], _ => 0
  | h :: r, b =>
    match h.pos with
    | some (b', i) => if b' = b then max (i + 1) (specNext r b) else specNext r b
    | none => specNext r b

def insertNew {α : Type} [DecidableEq α] (l : List α) (a : α) : List α := if a ∈ l then l else l ++ [a]

/-- the addresses in first-hand-out order, each once. -/
def firstOcc {α : Type} [DecidableEq α] (l : List α) : List α := l.foldl insertNew []

/-- the position recorded for an address: that of the latest hand-out of it. -/
def lastInfo {α : Type} [DecidableEq α] : List (Hand α) → α → Option Info
  | [], _ => none
  | h :: r, a =>
    match lastInfo r a with
    | some i => some i
    | none => if h.a = a then some (match h.pos with
        | some (b, i) => ⟨some b, some (i : Int)⟩
        | none => ⟨none, none⟩) else none

/-- the specification: every answer is a function of the hand-outs so far. -/
def specStep {α : Type} [DecidableEq α] (src : Source α) (op : WalletOp α) (H : List (Hand α)) :
    List (Hand α) × WalletOut α :=
  let hand (b i : Int) : List (Hand α) × WalletOut α :=
    if src.branches.contains b && decide (0 ≤ i) then
      match src.addr b i.toNat with
      | some a => if src.isEmpty a then (H, .err .value) else (H ++ [⟨some (b, i.toNat), a⟩], .addr a)
      | none => (H, .err .value)
    else (H, .err .value)
  match op with
  | .address b i => hand b i
  | .next b => hand b (specNext H b)
  | .positionOf a last => (H, .pos (positionOf src a last))
  | .info a => match lastInfo H a with
    | some i => (H, .info i)
    | none => (H, .err .value)
  | .contains a => (H, .bool (decide (a ∈ H.map (·.a))))
  | .len => (H, .nat (firstOcc (H.map (·.a))).length)
  | .add (some a) => (H ++ [⟨none, a⟩], .addr a)
  | .add none => (H, .err .value)

def specRun {α : Type} [DecidableEq α] (src : Source α) :
    List (WalletOp α) → List (Hand α) → List (WalletOut α) × List (Hand α)
  | [], H => ([], H)
  | op :: ops, H =>
    let (H', o) := specStep src op H
    let (os, final) := specRun src ops H'
    (o :: os, final)

/-! ## Memo: a cache with an arbitrary eviction policy around a pure function -/

/-- an eviction / reordering policy: it may drop and reorder entries, never invent one. -/
structure Policy (κ ν : Type) where
  apply : List (κ × ν) → List (κ × ν)
  sub : ∀ c p, p ∈ apply c → p ∈ c

inductive MemoOp (χ κ ν : Type)
  | call (x : χ) (after : Policy κ ν)     -- look up / compute, insert, then evict as the policy says
  | evict (p : Policy κ ν)                -- `cache_clear`, a concurrent eviction, …

def Memo.step {χ κ ν : Type} [DecidableEq κ] (f : χ → ν) (key : χ → κ) (op : MemoOp χ κ ν)
    (c : List (κ × ν)) : List (κ × ν) × Option ν :=
  match op with
  | .call x after =>
    match c.lookup (key x) with
    | some v => (after.apply c, some v)
    | none => (after.apply ((key x, f x) :: c), some (f x))
  | .evict p => (p.apply c, none)

def Memo.run {χ κ ν : Type} [DecidableEq κ] (f : χ → ν) (key : χ → κ) :
    List (MemoOp χ κ ν) → List (κ × ν) → List (Option ν) × List (κ × ν)
  | [], c => ([], c)
  | op :: ops, c =>
    let (c', o) := Memo.step f key op c
    let (os, final) := Memo.run f key ops c'
    (o :: os, final)

/-- what the same history answers with no cache at all. -/
def Memo.reference {χ κ ν : Type} (f : χ → ν) : List (MemoOp χ κ ν) → List (Option ν)
  | [] => []
  | .call x _ :: ops => some (f x) :: Memo.reference f ops
  | .evict _ :: ops => none :: Memo.reference f ops

/-- `functools.lru_cache(maxsize)`: most recently used first; a hit moves to the front, a miss
    inserts at the front and drops what no longer fits. -/
structure Lru (κ ν : Type) where
  cache : List (κ × ν)
  hits : Nat
  misses : Nat

def Lru.call {χ κ ν : Type} [DecidableEq κ] (f : χ → ν) (key : χ → κ) (maxsize : Nat) (x : χ)
    (s : Lru κ ν) : Lru κ ν × ν :=
  match s.cache.lookup (key x) with
  | some v => (⟨(key x, v) :: s.cache.filter (fun p => p.1 ≠ key x), s.hits + 1, s.misses⟩, v)
  | none => (⟨((key x, f x) :: s.cache).take maxsize, s.hits, s.misses + 1⟩, f x)

/-! ## Curve identity: the key every curve-keyed cache and the backend dispatch see -/

/-- what a `Curve` is built from. -/
structure CurveId where
  p : Int
  a : Int
  b : Int
  gx : Int
  gy : Int
  n : Int
  h : Int
  deriving DecidableEq, Repr, Inhabited

def CurveField.get : CurveField → CurveId → Int
  | .p, c => c.p | .a, c => c.a | .b, c => c.b | .gx, c => c.gx | .gy, c => c.gy | .n, c => c.n | .h, c => c.h

/-- `_eq_key()` for a given list of components. -/
def eqKey (fs : List CurveField) (c : CurveId) : List Int := fs.map (·.get c)

/-- `Curve.__eq__` / `__hash__` as the source states them: through `Curve._eq_key`. -/
def curveKey (c : CurveId) : List Int := eqKey Gen.Lifecycle.curveEqKey c

/-- `_libsecp256k1_serves`: flag up and `ec == secp256k1` (hash function aside). -/
def servesCurve (secp : CurveId) (flag : Bool) (ec : CurveId) : Bool :=
  flag && decide (curveKey ec = curveKey secp)

/-! ## Lazy word-lists: what a second thread can see while the first one loads

The loader publishes three fields one assignment at a time (each assignment atomic under the GIL).  A
reader decides "already loaded" from the count and then reads the index / the words.  With every read of
the count under the lock the reader sees the loader's state before its first or after its last
publication only; with a lock-free fast path it may see any prefix. -/

/-- is `p` published once the loader has run its first `i` publications? -/
def visible (order : List Pub) (p : Pub) (i : Nat) : Bool := (order.take i).contains p

/-- the moments at which a reader may observe the loader: every prefix on a lock-free path, else the two ends. -/
def observable (order : List Pub) (fastPath : Bool) (i : Nat) : Bool :=
  i ≤ order.length && (fastPath || i == 0 || i == order.length)

/-- no reader ever takes a language for loaded and then finds its index or its words missing: for every moment
    `i` at which it may read the count and every later moment `j` at which it reads the rest. -/
def wordlistSafe (order : List Pub) (fastPath : Bool) : Bool :=
  (List.range (order.length + 1)).all fun i =>
    (List.range (order.length + 1)).all fun j =>
      !(observable order fastPath i && decide (i ≤ j) && visible order .count i) ||
        (visible order .index j && visible order .words j)

/-! ## Backend flag -/

inductive BackendOp (χ : Type)
  | set (serving : Bool) (installed : Bool)   -- `set_libsecp256k1_serving(serving=…)`
  | call (x : χ)

/-- a dispatching API: the bindings' arm where the flag is up and they serve the input. -/
def dispatch {χ ν : Type} (fC fPy : χ → ν) (serves : χ → Bool) (flag : Bool) (x : χ) : ν :=
  if flag && serves x then fC x else fPy x

def Backend.step {χ ν : Type} (fC fPy : χ → ν) (serves : χ → Bool) (op : BackendOp χ) (flag : Bool) :
    Bool × Option (Except Err ν) :=
  match op with
  | .set serving installed =>
    if serving && !installed then (flag, some (.error .value)) else (serving, none)
  | .call x => (flag, some (.ok (dispatch fC fPy serves flag x)))

def Backend.run {χ ν : Type} (fC fPy : χ → ν) (serves : χ → Bool) :
    List (BackendOp χ) → Bool → List (Option (Except Err ν))
  | [], _ => []
  | op :: ops, flag =>
    let (flag', o) := Backend.step fC fPy serves op flag
    o :: Backend.run fC fPy serves ops flag'

def Backend.reference {χ ν : Type} (M : χ → ν) : List (BackendOp χ) → Bool → List (Option (Except Err ν))
  | [], _ => []
  | .set serving installed :: ops, flag =>
    if serving && !installed then some (.error .value) :: Backend.reference M ops flag
    else none :: Backend.reference M ops serving
  | .call x :: ops, flag => some (.ok (M x)) :: Backend.reference M ops flag

/-! ## Objects that hold a delegated key object from construction (`dsa.Signer`, `ssa.Signer`, `_TweakChain`)

`__init__` asks `_libsecp256k1_serves(ec, hf)` once.  Where it answered yes the object HOLDS a bindings
object (`_prvkey_buffer`/`_pub_key_sec`, `_signer`, `_chain`) and every later use goes through it, whatever
the flag says by then.  Where it answered no the object holds nothing and each use goes to the free code
path, which asks the predicate AGAIN at its own dispatch sites (`ssa.sign_`, `_tweak_add_var`, `mult`): such
an object follows the flag as it stands at use.  A `_TweakChain` also lets go of its chain when a step lands
on infinity, and follows the flag from then on. -/

structure CapObj where
  held : Bool      -- a bindings object is held (decided at construction, lost only by `drop`)
  inner : Bool     -- the free path's own dispatch sites are ones the bindings serve for this (ec, hf)
  deriving DecidableEq, Repr, Inhabited

structure CapState where
  flag : Bool
  objs : List CapObj         -- in construction order

inductive CapOp (χ : Type)
  | set (serving : Bool) (installed : Bool)
  | build (served : Bool) (inner : Bool)  -- (ec, hf) served for the object itself / for the free path's sites
  | use (i : Nat) (x : χ)           -- call a method of the i-th object
  | drop (i : Nat) (x : χ)          -- a use after which the object no longer holds its bindings object
  | call (served : Bool) (x : χ)    -- a free dispatching function

/-- which arm answers a use of `o` under the flag as it stands. -/
def CapObj.delegates (o : CapObj) (flag : Bool) : Bool := o.held || (flag && o.inner)

def dropAt : List CapObj → Nat → List CapObj
  | [], _ => []
  | o :: r, 0 => { o with held := false } :: r
  | o :: r, i + 1 => o :: dropAt r i

def Cap.step {χ ν : Type} (fC fPy : χ → ν) (op : CapOp χ) (st : CapState) :
    CapState × Option (Except Err ν) :=
  match op with
  | .set serving installed =>
    if serving && !installed then (st, some (.error .value)) else ({ st with flag := serving }, none)
  | .build served inner => ({ st with objs := st.objs ++ [⟨st.flag && served, inner⟩] }, none)
  | .use i x =>
    match st.objs[i]? with
    | some o => (st, some (.ok (if o.delegates st.flag then fC x else fPy x)))
    | none => (st, some (.error .foreign))
  | .drop i x =>
    match st.objs[i]? with
    | some o => ({ st with objs := dropAt st.objs i }, some (.ok (if o.delegates st.flag then fC x else fPy x)))
    | none => (st, some (.error .foreign))
  | .call served x => (st, some (.ok (if st.flag && served then fC x else fPy x)))

def Cap.run {χ ν : Type} (fC fPy : χ → ν) : List (CapOp χ) → CapState → List (Option (Except Err ν)) × CapState
  | [], st => ([], st)
  | op :: ops, st =>
    let (st', o) := Cap.step fC fPy op st
    let (os, final) := Cap.run fC fPy ops st'
    (o :: os, final)

/-- `.drop i` does not occur in the history. -/
def noDrop {χ : Type} (i : Nat) : List (CapOp χ) → Bool
  | [] => true
  | .drop j _ :: r => j != i && noDrop i r
  | _ :: r => noDrop i r

/-- what a history answers when every object is rebuilt afresh at each use and there is one function `M`. -/
def Cap.reference {χ ν : Type} (M : χ → ν) : List (CapOp χ) → CapState → List (Option (Except Err ν))
  | [], _ => []
  | .set serving installed :: ops, st =>
    if serving && !installed then some (.error .value) :: Cap.reference M ops st
    else none :: Cap.reference M ops { st with flag := serving }
  | .build served inner :: ops, st =>
    none :: Cap.reference M ops { st with objs := st.objs ++ [⟨st.flag && served, inner⟩] }
  | .use i x :: ops, st =>
    (if i < st.objs.length then some (.ok (M x)) else some (.error .foreign)) :: Cap.reference M ops st
  | .drop i x :: ops, st =>
    if i < st.objs.length then some (.ok (M x)) :: Cap.reference M ops { st with objs := dropAt st.objs i }
    else some (.error .foreign) :: Cap.reference M ops st
  | .call _ x :: ops, st => some (.ok (M x)) :: Cap.reference M ops st

/-- a free-function history read as a history of the holding machine (no object is built or used). -/
def embedFree {χ : Type} (serves : χ → Bool) : BackendOp χ → CapOp χ
  | .set s i => .set s i
  | .call x => .call (serves x) x

/-! ## The memos of btclib this property accounts for

Every entry is an instance of the `Memo` machine above, whose theorem holds for ANY eviction policy: `lru n` is
functools' bounded LRU (`Lru`, `lru_call_transparent`), `unbounded` is `functools.cache` (no eviction but
`cache_clear`), `perInstance` is `functools.cached_property` (one entry per object, never evicted), `moduleTable` a
module-level dict filled on first use.  The list is COMPARED with what introspection of the imported package finds
(`Gen.Lifecycle.cacheInventory`, theorem `cache_inventory_covered`); the harness holds, for each name, the calls that
go through it and checks each run that they do (`cache.inventory` oracle). -/
def coveredCaches : List CacheDecl := [
  ⟨"btclib.bip32.bip32._cached_base58_decode", .lru 2048, false⟩,
  ⟨"btclib.curves.curve_group._cached_fixed_base_multiples", .lru 128, true⟩,
  ⟨"btclib.curves.curve_group._cached_multiples", .lru 128, true⟩,
  ⟨"btclib.curves.curve_group._cached_multiples_fixwind", .lru 128, true⟩,
  ⟨"btclib.curves.curve_group._cached_odd_multiples_aff", .lru 128, true⟩,
  ⟨"btclib.ecc.ellswift._CONSTANTS", .moduleTable, true⟩,
  ⟨"btclib.ecc.pedersen.second_generator", .lru 128, true⟩,
  ⟨"btclib.key.PrvKeyData.pub", .perInstance, false⟩,
  ⟨"btclib.key.PubKeyData.point", .perInstance, false⟩,
  ⟨"btclib.mnemonic.electrum._old_word_indexes", .unbounded, false⟩,
  ⟨"btclib.mnemonic.electrum._old_wordlist", .unbounded, false⟩,
  ⟨"btclib.script.script.Script.asm", .perInstance, false⟩]

end Btc.C20
