/-
C20 — vocabulary of the statement-level facts the translator (`tools/specs/lifecycle.py`)
reads off btclib's AST and writes into `Generated/Lifecycle.lean`.

Each stateful method the property speaks of is a short straight-line body.  The translator
classifies every top-level statement of that body into one of the tags below, *in source order*,
and the model (`Model/C20/Lifecycle.lean`) is an interpreter of those tag lists: the step function
of every transition system is therefore DEFINED by the order of the statements in /repo's
current source.  Moving `sec_nonce[:64] = bytearray(64)` below the range checks, testing `_wiped`
after signing, or replacing `max(old, index + 1)` by `index + 1` changes the generated list, hence
the model, hence breaks the proofs in `Props/C20.lean` (and the harness oracles then look for the
concrete failing history on the real code).  Core Lean only.
-/
namespace Btc.C20

/-- top-level statements of `btclib.ecc.musig2.sign`. -/
inductive SignStep
  | session            -- values = session_values(session_ctx)          (may raise: session does not assemble)
  | readK1             -- k_1_ = int.from_bytes(sec_nonce[:32], "big")
  | readK2             -- k_2_ = int.from_bytes(sec_nonce[32:64], "big")
  | zero (n : Nat)     -- sec_nonce[:n] = bytearray(n)
  | checkK1            -- if not 0 < k_1_ < n: raise
  | checkK2            -- if not 0 < k_2_ < n: raise
  | negate             -- if values.R[1] % 2: k_1_, k_2_ = n - k_1_, n - k_2_
  | key                -- d_ = scalar_from_prv_key(prv_key, secp256k1) (may raise)
  | pubKey             -- pk = individual_pub_key(d_)
  | pkCheck (off : Nat)-- if pk != bytes(sec_nonce[off:]): raise
  | coeff              -- a = _session_key_agg_coeff(session_ctx, pk)   (may raise: not a participant)
  | calc               -- g = … / d = … / s = …  (pure arithmetic on locals)
  | ret                -- return s.to_bytes(32, "big")
  deriving DecidableEq, Repr, Inhabited

/-- top-level statements of `Signer.sign_` (dsa and ssa), as far as the lifecycle sees them. -/
inductive SignerStep
  | wipedCheck         -- if self._wiped: raise BTClibValueError
  | argCheck           -- argument validation (assert_type / bytes_from_octets with a size)
  | produce            -- any statement that computes / returns a signature from the held key
  deriving DecidableEq, Repr, Inhabited

/-- top-level statements of `Signer.wipe`. -/
inductive WipeStep
  | dropKey            -- overwrite / drop the delegated key object (buffer or keypair) when present
  | zeroScalar         -- self._q = 0
  | setWiped           -- self._wiped = True
  deriving DecidableEq, Repr, Inhabited

/-- how `RangedWallet.address` updates `_next_index[branch]`. -/
inductive Bump
  | maxOldIdxSucc      -- max(self._next_index.get(branch, 0), index + 1)
  | idxSucc            -- index + 1
  | oldSucc            -- self._next_index.get(branch, 0) + 1
  | other
  deriving DecidableEq, Repr, Inhabited

/-- top-level statements of `RangedWallet.address`. -/
inductive WalletStep
  | assertPosition     -- self._assert_position(branch, index)          (may raise)
  | derive             -- address = self._address(branch, index)       (may raise: subclass bound)
  | refuseEmpty        -- if not address: raise
  | bump (how : Bump)  -- self._next_index[branch] = …
  | record             -- return self._record(AddressInfo(address, …, branch, index))
  deriving DecidableEq, Repr, Inhabited

/-- the two checks of `RangedWallet._assert_position`, in source order. -/
inductive PosCheck
  | branchKnown        -- if branch not in self.branches: raise
  | indexNonNeg        -- if index < 0: raise
  deriving DecidableEq, Repr, Inhabited

/-- the components of a curve's identity: what `Curve.__init__` is given (name and the two
    construction-time options are not parameters). `CurveGroup._eq_key` / `Curve._eq_key` return a
    tuple of some of these; the translator lists which, in order. -/
inductive CurveField
  | p | a | b | gx | gy | n | h
  deriving DecidableEq, Repr, Inhabited

/-- what `WordLists.load_lang` publishes, one assignment each. -/
inductive Pub
  | index      -- self._index[lang] = {word: i …}
  | words      -- self._wordlist[lang] = words
  | count      -- self._language_length[lang] = len(words)   (non-zero count = "already loaded")
  deriving DecidableEq, Repr, Inhabited

/-- how a memo of btclib holds its entries (`tools/specs/lifecycle.py: cache_inventory`, by introspection of the
    imported package): `functools.lru_cache(maxsize)`, `functools.cache` (no bound), `functools.cached_property` (one entry
    per instance), a module-level container filled by a function. -/
inductive CacheHold
  | lru (maxsize : Nat) | unbounded | perInstance | moduleTable
  deriving DecidableEq, Repr, Inhabited

/-- one memo of btclib: its qualified name, how it holds entries, whether a curve is part of its key. -/
structure CacheDecl where
  name : String
  hold : CacheHold
  curveKeyed : Bool
  deriving DecidableEq, Repr, Inhabited

end Btc.C20
