import Model.C11.Roles
/-
Reading a signer's answer (`btclib/psbt/psbt.py`: assert_signatures_only in full, assert_signed, new_signers
with _plain_key_signers / _taproot_signers, _assert_sig_hash_type, and WHICH signatures
_assert_ecdsa_sigs_verify / _assert_taproot_sigs_verify look at).  Whether ONE signature verifies
(sig-hash, ECDSA / BIP340 verification: C02, C03, C10) and which master fingerprint a psbt attributes a key to
(the hd_key_paths / taproot_hd_key_paths look-ups) are parameters.
-/
namespace Btc.C11

/-- does this entry (key, value) of this signature field of input `i` of psbt `p` verify against `p`'s
    transaction?  (key 0 for the one scalar signature field) -/
abbrev SigOracle := Psbt → Nat → String → Nat → Val → Bool

/-- the master fingerprint the psbt attributes the key of this entry to (`None`: no origin stated) -/
abbrev OriginOracle := Psbt → Nat → String → Nat → Option Nat

/-- the entries a signature field holds: a map's items; the scalar one, under key 0, when it is truthy -/
def sigEntries : Slot → List (Nat × Val)
  | .dict m => m
  | .scalar (some v) => if v.falsy then [] else [(0, v)]
  | .scalar none => []

/-- the entries of `now` the request did not have: a key that was not there (`if key in request_in.x: continue`),
    the scalar when the request's was falsy (`if request_in.taproot_key_spend_signature: key_sig = b""`) -/
def addedEntries (was now : Slot) : List (Nat × Val) :=
  match was, now with
  | .dict w, .dict n => n.filter fun kv => (dlookup w kv.1).isNone
  | was, now => if was.falsy then sigEntries now else []

def sigLocOf (i : Nat) (n : String) : Loc := ⟨.inp, i, n⟩

/-- `_assert_ecdsa_sigs_verify` + `_assert_taproot_sigs_verify`: every signature the answer ADDED (every one the
    input carries when there is no request) verifies -/
def sigsVerify (V : SigOracle) (req : Option Psbt) (ret : Psbt) (i : Nat) : Bool :=
  Gen.Combine.verifiedSigFields.all fun n =>
    let now := ret.slot (sigLocOf i n)
    let es := match req with
      | some r => addedEntries (r.slot (sigLocOf i n)) now
      | none => sigEntries now
    es.all fun kv => V ret i n kv.1 kv.2

/-- `_assert_sig_hash_type`: with PSBT_IN_SIGHASH_TYPE stated, every partial signature ends in that byte -/
def sigHashTypeOK (p : Psbt) (i : Nat) : Bool :=
  match (p.slot ⟨.inp, i, "sig_hash_type"⟩).int? with
  | none => true
  | some t =>
    match p.slot ⟨.inp, i, "partial_sigs"⟩ with
    | .dict m => m.all fun kv =>
        match kv.2 with
        | .bytes b => (b.getLast?.map fun x => (x.toNat : Int)) == some t
        | _ => false
    | _ => true

/-- `assert_signatures_only`, whole: the structural part (`sigOnly`), then per input the sig-hash type and
    the verification of what was added -/
def assertSignaturesOnly (V : SigOracle) (req ret : Psbt) : Bool :=
  sigOnly req ret && (List.range req.nIn).all fun i => sigHashTypeOK ret i && sigsVerify V (some req) ret i

def anyTruthy (p : Psbt) (i : Nat) (names : List String) : Bool :=
  names.any fun n => !(p.slot ⟨.inp, i, n⟩).falsy

/-- `assert_signed` (validity of the psbt: only that it has a transaction) -/
def assertSigned (V : SigOracle) (allowPartial : Bool) (p : Psbt) : Bool :=
  p.nIn != 0 && (unsignedTx p false).toBool &&
  (List.range p.nIn).all fun i =>
    !anyTruthy p i Gen.Combine.finalizedIfAny && sigHashTypeOK p i && sigsVerify V none p i
      && (allowPartial || anyTruthy p i Gen.Combine.signedIfAny)

def insertNat (n : Nat) : List Nat → List Nat
  | [] => [n]
  | m :: rest => if n < m then n :: m :: rest else if n = m then m :: rest else m :: insertNat n rest

/-- the fingerprints of a list of added entries, `none` when one has no stated origin (`_master_fingerprint` raises) -/
def attributeTo (O : OriginOracle) (ret : Psbt) (i : Nat) (n : String) : List (Nat × Val) → List Nat → Option (List Nat)
  | [], acc => some acc
  | kv :: rest, acc =>
    match O ret i n kv.1 with
    | none => none
    | some f => attributeTo O ret i n rest (insertNat f acc)

def signersOfInput (O : OriginOracle) (req ret : Psbt) (i : Nat) : List String → List Nat → Option (List Nat)
  | [], acc => some acc
  | n :: names, acc =>
    match attributeTo O ret i n (addedEntries (req.slot (sigLocOf i n)) (ret.slot (sigLocOf i n))) acc with
    | none => none
    | some acc' => signersOfInput O req ret i names acc'

def signersOfInputs (O : OriginOracle) (req ret : Psbt) : List Nat → List Nat → Option (List Nat)
  | [], acc => some acc
  | i :: is, acc =>
    match signersOfInput O req ret i Gen.Combine.newSignersFields acc with
    | none => none
    | some acc' => signersOfInputs O req ret is acc'

/-- `new_signers`: the set (sorted list) of master fingerprints the answer adds signatures of -/
def newSigners (O : OriginOracle) (req ret : Psbt) : Except Err (List Nat) :=
  if ret.nIn != req.nIn then .error .value
  else match signersOfInputs O req ret (List.range req.nIn) [] with
    | none => .error .value
    | some s => .ok s

end Btc.C11
