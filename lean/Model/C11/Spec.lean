/-
Vocabulary of the generated module `Generated/Combine.lean` (C11): merge rules, field shapes and
presence tests, as read off btclib's source by `tools/specs/combine.py`. Core Lean only.
-/
namespace Btc.C11

/-- which helper merges a field in `psbt.combine`:
    `_combine_field` (truthiness), `_combine_optional_field` (`is None`),
    `_combine_musig2_participants`, or the `_combined_tx_modifiable` bit rule. -/
inductive Rule | truthy | notNone | musig | modifiable
  deriving DecidableEq, Repr

inductive Kind | scalar | dict
  deriving DecidableEq, Repr

/-- the test `serialize` applies before it writes a field. -/
inductive Presence | truthy | notNone | always | never
  deriving DecidableEq, Repr

structure FieldSpec where
  name : String
  kind : Kind
  presence : Presence
  v2only : Bool
  deriving DecidableEq, Repr

inductive Sec | glob | inp | out
  deriving DecidableEq, Repr

/-- what `__init__` gives a field nothing was said about: `None`, `b""`, `{}`, or something else
    (an empty `Witness`, an empty list, the required `tx_version`). -/
inductive Dflt | none | emptyBytes | emptyDict | other
  deriving DecidableEq, Repr

end Btc.C11
