import Model.Common.Bytes
import Model.C11.Spec
import Generated.Combine
/-
The PSBT Combiner (`btclib/psbt/psbt.py`: combine, _combine_field, _combine_optional_field,
_combine_musig2_participants, _combined_tx_modifiable, _unsigned_tx, _lock_time), at the level
of parsed objects.  Which field is merged with which rule is NOT written here: it is
`Gen.Combine.{in,out,glob}Calls`, read off the source AST on every run.

A PSBT is a map `Loc → Slot`; a location is (section, index of the input/output, field name).
A slot mirrors the Python attribute: a scalar (`None` or a value, which may be falsy: `0`, `b""`)
or a dict, held as an association list sorted by key (the serializers sort by key, so this is the
canonical form; keys are byte strings, injectively encoded as naturals by the harness).
-/
namespace Btc.C11
open Btc

inductive Val | int (n : Int) | bytes (b : Bytes) | obj (b : Bytes)
  deriving DecidableEq, Repr

/-- Python truthiness of a held value: `0` and `b""` are falsy, an object (Tx, TxOut) never is. -/
def Val.falsy : Val → Bool
  | .int n => n == 0
  | .bytes b => b.isEmpty
  | .obj _ => false

abbrev Dict := List (Nat × Val)

def dlookup : Dict → Nat → Option Val
  | [], _ => none
  | (k', v) :: rest, k => if k = k' then some v else dlookup rest k

/-- `d[k] = v` on the key-sorted form. -/
def dinsert (k : Nat) (v : Val) : Dict → Dict
  | [] => [(k, v)]
  | (k', v') :: rest =>
    if k < k' then (k, v) :: (k', v') :: rest
    else if k = k' then (k, v) :: rest
    else (k', v') :: dinsert k v rest

/-- `a.update(b)`: the later operand wins on a shared key. -/
def dupdate (a : Dict) : Dict → Dict
  | [] => a
  | (k, v) :: rest => dupdate (dinsert k v a) rest

inductive Slot | scalar (v : Option Val) | dict (m : Dict)
  deriving DecidableEq, Repr

/-- `not x` -/
def Slot.falsy : Slot → Bool
  | .scalar none => true
  | .scalar (some v) => v.falsy
  | .dict m => m.isEmpty

/-- `x is None` -/
def Slot.isNone : Slot → Bool
  | .scalar none => true
  | _ => false

/-- `_combine_field` -/
def mergeTruthy (out item : Slot) : Slot :=
  if item.falsy then out
  else if out.falsy then item
  else match out, item with
    | .dict a, .dict b => .dict (dupdate a b)
    | _, _ => out

/-- `_combine_optional_field` -/
def mergeNotNone (out item : Slot) : Slot :=
  if item.isNone then out else if out.isNone then item else out

/-- `_combine_musig2_participants`: the refusal … -/
def musigConflict (out item : Slot) : Bool :=
  match out, item with
  | .dict a, .dict b => b.any fun kv => match dlookup a kv.1 with
      | some o => o != kv.2
      | none => false
  | _, _ => false

/-- … and the merge when nothing is refused. -/
def mergeMusig (out item : Slot) : Slot :=
  match out, item with
  | .dict a, .dict b => .dict (dupdate a b)
  | _, _ => out

def mergeRule : Rule → Slot → Slot → Slot
  | .truthy => mergeTruthy
  | .notNone => mergeNotNone
  | .musig => mergeMusig
  | .modifiable => fun out _ => out     -- assigned before the fold, not folded

structure Loc where
  sec : Sec
  idx : Nat
  name : String
  deriving DecidableEq, Repr

structure Psbt where
  version : Nat
  nIn : Nat
  nOut : Nat
  slot : Loc → Slot

inductive Err | value | index
  deriving DecidableEq, Repr

def callsOf : Sec → List (String × Rule)
  | .glob => Gen.Combine.globCalls
  | .inp => Gen.Combine.inCalls
  | .out => Gen.Combine.outCalls

def fieldsOf : Sec → List FieldSpec
  | .glob => Gen.Combine.globFields
  | .inp => Gen.Combine.inFields
  | .out => Gen.Combine.outFields

def idReadsOf : Sec → List String
  | .glob => Gen.Combine.globIdReads
  | .inp => Gen.Combine.inIdReads
  | .out => Gen.Combine.outIdReads

def lookupRule : List (String × Rule) → String → Option Rule
  | [], _ => none
  | (n, r) :: rest, f => if f = n then some r else lookupRule rest f

/-- the rule the combiner applies at a location (none: the field is not merged at all). -/
def ruleAt (l : Loc) : Option Rule := lookupRule (callsOf l.sec) l.name

def mergeAt (l : Loc) (out item : Slot) : Slot :=
  match ruleAt l with
  | some r => mergeRule r out item
  | none => out

/-- the locations of one psbt's maps carrying a field of the given rule -/
def locsWith (p : Psbt) (r : Rule) : List Loc :=
  let names (s : Sec) := ((callsOf s).filter (fun c => c.2 == r)).map (·.1)
  (names .glob).map (fun n => ⟨.glob, 0, n⟩)
  ++ (List.range p.nIn).flatMap (fun i => (names .inp).map fun n => ⟨.inp, i, n⟩)
  ++ (List.range p.nOut).flatMap (fun i => (names .out).map fun n => ⟨.out, i, n⟩)

/-- one round of the fold in `combine`: every merged field of every map of `item` into `out`. -/
def conflict (out item : Psbt) : Bool :=
  (locsWith out .musig).any fun l => musigConflict (out.slot l) (item.slot l)

def step (out item : Psbt) : Psbt :=
  { out with slot := fun l => mergeAt l (out.slot l) (item.slot l) }

def combineFold (base : Psbt) : List Psbt → Except Err Psbt
  | [] => .ok base
  | p :: rest => if conflict base p then .error .value else combineFold (step base p) rest

/-! ### identity: `_unsigned_tx`, `_lock_time` -/

def Slot.int? : Slot → Option Int
  | .scalar (some (.int n)) => some n
  | _ => none

def Slot.bytesD : Slot → Bytes
  | .scalar (some (.bytes b)) => b
  | _ => []

def maxL : List Int → Int
  | [] => 0
  | x :: xs => xs.foldl max x

/-- `_lock_time` -/
def lockTimeOf (required : List (Option Int × Option Int)) (fallback : Option Int) : Except Err Int :=
  let requiring := required.filter fun p => !(p.1.isNone && p.2.isNone)
  if requiring.isEmpty then .ok (fallback.getD 0)
  else if requiring.all (fun p => p.1.isSome) then .ok (maxL (requiring.filterMap (·.1)))
  else if requiring.all (fun p => p.2.isSome) then .ok (maxL (requiring.filterMap (·.2)))
  else .error .value

def requiredOf (p : Psbt) : List (Option Int × Option Int) :=
  (List.range p.nIn).map fun i =>
    ((p.slot ⟨.inp, i, "required_height_lock_time"⟩).int?, (p.slot ⟨.inp, i, "required_time_lock_time"⟩).int?)

def lockTime (p : Psbt) : Except Err Int :=
  lockTimeOf (requiredOf p) (p.slot ⟨.glob, 0, "fallback_lock_time"⟩).int?

/-- the unsigned transaction, as the values `Tx(...)` is built from -/
structure UTx where
  txVersion : Slot
  lockTime : Int
  vin : List (Slot × Int × Int)
  vout : List (Int × Bytes)
  deriving DecidableEq, Repr

def spInfoVersion : Bytes := [0]

def txIn (p : Psbt) (forId : Bool) (i : Nat) : Slot × Int × Int :=
  (p.slot ⟨.inp, i, "previous_tx_id"⟩,
   ((p.slot ⟨.inp, i, "output_index"⟩).int?).getD 0,
   if forId then 0 else ((p.slot ⟨.inp, i, "sequence"⟩).int?).getD Gen.Combine.FINAL_SEQUENCE)

def txOut (p : Psbt) (forId : Bool) (i : Nat) : Int × Bytes :=
  let info := p.slot ⟨.out, i, "sp_v0_info"⟩
  (((p.slot ⟨.out, i, "amount"⟩).int?).getD 0,
   if forId && !info.falsy then spInfoVersion ++ info.bytesD
   else (p.slot ⟨.out, i, "script_pub_key"⟩).bytesD)

/-- `_unsigned_tx(psbt, for_identifier=forId)` -/
def unsignedTx (p : Psbt) (forId : Bool) : Except Err UTx :=
  match lockTime p with
  | .error e => .error e
  | .ok lt => .ok ⟨p.slot ⟨.glob, 0, "tx_version"⟩, lt,
      (List.range p.nIn).map (txIn p forId), (List.range p.nOut).map (txOut p forId)⟩

/-- what `combine` compares: `unique_id` for version 2, `tx.id` otherwise (the hash is modelled as
    injective: the model compares the transactions themselves). -/
def identOf (version : Nat) (p : Psbt) : Except Err UTx :=
  unsignedTx p (version == Gen.Combine.PSBT_V2)

/-! ### `_combined_tx_modifiable` -/

def modLoc : Loc := ⟨.glob, 0, "tx_modifiable"⟩

def modBits : Nat := Gen.Combine.INPUTS_MODIFIABLE ||| Gen.Combine.OUTPUTS_MODIFIABLE

def Slot.nat? (s : Slot) : Option Nat := s.int?.map Int.toNat

def combinedModifiable (vals : List (Option Nat)) : Option Nat :=
  let flags := vals.filterMap id
  if flags.isEmpty then none
  else
    let andBits := vals.foldl (fun a v => a &&& v.getD 0) 0xFF
    let orBits := flags.foldl (· ||| ·) 0
    some ((andBits &&& modBits) ||| (orBits &&& (0xFF ^^^ modBits)))

def setSlot (p : Psbt) (l : Loc) (s : Slot) : Psbt :=
  { p with slot := fun l' => if l' = l then s else p.slot l' }

def modSlot (o : Option Nat) : Slot := .scalar (o.map fun n => .int n)

/-- the last check of `combine`: merging the inputs' required lock times must not have moved the
    lock time, i.e. the result is still of the transaction the operands are of. -/
def postCheck (v : Nat) (id0 : UTx) : Except Err Psbt → Except Err Psbt
  | .error e => .error e
  | .ok r => if Gen.Combine.combineRechecksIdentity && identOf v r != .ok id0 then .error .value else .ok r

/-- `psbt.combine` (validity of the operands is the harness's assumption, not modelled). -/
def combine (ps : List Psbt) : Except Err Psbt :=
  match ps with
  | [] => .error .index
  | p0 :: rest =>
    if rest.any (fun p => p.version != p0.version) then .error .value
    else match identOf p0.version p0 with
      | .error e => .error e
      | .ok id0 =>
        if rest.any (fun p => identOf p0.version p != .ok id0) then .error .value
        else
          let base := setSlot p0 modLoc (modSlot (combinedModifiable ((p0 :: rest).map fun p => (p.slot modLoc).nat?)))
          postCheck p0.version id0 (combineFold base rest)

end Btc.C11
