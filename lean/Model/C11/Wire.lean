import Model.C11.Roles
/-
The version 0 wire form (`btclib/psbt/psbt.py`: Psbt.serialize for version 0, Psbt.parse with
_settle_globals / _read_unsigned_tx / _read_tx_in / _read_tx_out; PsbtIn.serialize / PsbtOut.serialize
with `psbt_version == 0`).  Both versions are HELD BIP370's way; what the version decides is whether the
transaction's fields are written into the maps (version 2) or folded into PSBT_GLOBAL_UNSIGNED_TX
(version 0).  Which fields are version-2-only is `FieldSpec.v2only` of the generated universe; which of
them the transaction states (`Gen.Combine.*V0Tx`) and what a map that says nothing leaves in a field
(`Gen.Combine.*Defaults`) are generated too.
-/
namespace Btc.C11

/-- a field only a version 2 map writes (`_V2_ONLY`, the `psbt_version == 2` / `self.version == PSBT_V2` guards) -/
def v2Only (l : Loc) : Bool := (fieldsOf l.sec).any fun f => f.name == l.name && f.v2only

def dfltsOf : Sec → List (String × Dflt)
  | .glob => Gen.Combine.globDefaults
  | .inp => Gen.Combine.inDefaults
  | .out => Gen.Combine.outDefaults

def lookupDflt : List (String × Dflt) → String → Option Dflt
  | [], _ => none
  | (n, d) :: rest, f => if f = n then some d else lookupDflt rest f

/-- what `parse` leaves in a field its map does not carry (`__init__`'s default) -/
def dfltSlot (l : Loc) : Slot :=
  match lookupDflt (dfltsOf l.sec) l.name with
  | some .emptyDict => .dict []
  | some .emptyBytes => .scalar (some (.bytes []))
  | _ => .scalar none

/-- a version 0 psbt on the wire: BIP174's unsigned transaction, and the maps without the BIP370 fields -/
structure WireV0 where
  tx : UTx
  slot : Loc → Slot

/-- `Psbt.serialize` of a psbt that declares version 0: `self.tx`, and every map without its version-2-only fields -/
def writeV0 (p : Psbt) : Except Err WireV0 :=
  match unsignedTx p false with
  | .error e => .error e
  | .ok tx => .ok ⟨tx, fun l => if v2Only l then .scalar none else p.slot l⟩

def intSlot (n : Int) : Slot := .scalar (some (.int n))

/-- `Psbt.parse` of a version 0 psbt: `_settle_globals` (tx version, nLockTime as the fallback, the two counts),
    `_read_tx_in` (outpoint and sequence, the sequence always), `_read_tx_out` (amount and script); every other
    version-2-only field keeps `__init__`'s default. -/
def readV0 (w : WireV0) : Psbt where
  version := Gen.Combine.PSBT_V0
  nIn := w.tx.vin.length
  nOut := w.tx.vout.length
  slot l :=
    if !v2Only l then w.slot l
    else match l.sec with
      | .glob =>
        if l.name = "tx_version" then w.tx.txVersion
        else if l.name = "fallback_lock_time" then intSlot w.tx.lockTime
        else dfltSlot l
      | .inp =>
        match w.tx.vin[l.idx]? with
        | none => dfltSlot l
        | some x =>
          if l.name = "previous_tx_id" then x.1
          else if l.name = "output_index" then intSlot x.2.1
          else if l.name = "sequence" then intSlot x.2.2
          else dfltSlot l
      | .out =>
        match w.tx.vout[l.idx]? with
        | none => dfltSlot l
        | some x =>
          if l.name = "amount" then intSlot x.1
          else if l.name = "script_pub_key" then .scalar (some (.bytes x.2))
          else dfltSlot l

/-- serialize then parse, as version 0 -/
def wireRoundTrip (p : Psbt) : Except Err Psbt :=
  match writeV0 p with
  | .error e => .error e
  | .ok w => .ok (readV0 w)

/-- a location of one of the psbt's own maps -/
def InRange (p : Psbt) (l : Loc) : Prop :=
  match l.sec with
  | .glob => l.idx = 0
  | .inp => l.idx < p.nIn
  | .out => l.idx < p.nOut

/-- the fields the model's `readV0` fills from the transaction -/
def txField (l : Loc) : Bool :=
  match l.sec with
  | .glob => l.name == "tx_version" || l.name == "fallback_lock_time"
  | .inp => l.name == "previous_tx_id" || l.name == "output_index" || l.name == "sequence"
  | .out => l.name == "amount" || l.name == "script_pub_key"

end Btc.C11
