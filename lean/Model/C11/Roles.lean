import Model.C11.Combine
/-
The other roles, at the level of fields (`btclib/psbt/psbt.py`: Psbt.to_v0, Psbt.to_v2,
assert_signatures_only with _assert_unchanged / _assert_signatures_added_only).
Signature validity (`_assert_*_sigs_verify`) is C02/C03's and is not modelled here.
-/
namespace Btc.C11

def fallbackLoc : Loc := ⟨.glob, 0, "fallback_lock_time"⟩

/-- `Psbt.to_v2`: nothing but the version number. -/
def toV2 (p : Psbt) : Psbt := { p with version := Gen.Combine.PSBT_V2 }

def isRequiredLock (l : Loc) : Bool :=
  l.sec == .inp && (l.name == "required_time_lock_time" || l.name == "required_height_lock_time")

/-- the fields of the version 0 psbt `to_v0` makes, `lt` being the lock time computed from the inputs -/
def v0Slot (p : Psbt) (lt : Int) (l : Loc) : Slot :=
  if l = fallbackLoc then .scalar (some (.int lt))
  else if l = modLoc then .scalar none
  else if isRequiredLock l then .scalar none
  else p.slot l

/-- `Psbt.to_v0`: the computed lock time becomes the fallback, the required ones and the flags go. -/
def toV0 (p : Psbt) : Except Err Psbt :=
  match lockTime p with
  | .error e => .error e
  | .ok lt => .ok { p with version := Gen.Combine.PSBT_V0, slot := v0Slot p lt }

/-- `_assert_signatures_added_only`, one field -/
def addedOnly : Slot → Slot → Bool
  | .dict was, .dict now => was.all fun kv => dlookup now kv.1 == some kv.2
  | was, now => was.falsy || now == was

/-- `_assert_unchanged` + `_assert_signatures_added_only` on one map -/
def mapUnchanged (sec : Sec) (i : Nat) (req ret : Psbt) : Bool :=
  (fieldsOf sec).all fun f =>
    let l : Loc := ⟨sec, i, f.name⟩
    if sec == .inp && Gen.Combine.signatureFields.contains f.name then addedOnly (req.slot l) (ret.slot l)
    else req.slot l == ret.slot l

/-- the global fields `assert_signatures_only` compares (beside the transaction and tx_modifiable) -/
def checkedGlobals : List String := Gen.Combine.sigOnlyGlobals

/-- `assert_signatures_only`, without the verification of the signatures that arrived -/
def sigOnly (req ret : Psbt) : Bool :=
  ret.version == req.version
  && unsignedTx ret false == unsignedTx req false
  && (unsignedTx req false).toBool
  && checkedGlobals.all (fun n => ret.slot ⟨.glob, 0, n⟩ == req.slot ⟨.glob, 0, n⟩)
  && modSlot (combinedModifiable [(req.slot modLoc).nat?, (ret.slot modLoc).nat?]) == ret.slot modLoc
  && (List.range req.nIn).all (fun i => mapUnchanged .inp i req ret)
  && (List.range req.nOut).all (fun i => mapUnchanged .out i req ret)

end Btc.C11
