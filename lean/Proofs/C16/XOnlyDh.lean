import Proofs.C16.LG
import Proofs.C16.Basic
/-
C16 — the group step of `ellswift.xdh` (BIP324's x-only ECDH): `mult(q, (x_theirs, y_even(x_theirs)))[0]`.
`xOnlyDh` is a SPECIFICATION-side definition (no driver op runs it; `ellswift.xdh` itself is compared with the bindings
and checked by the `ellswift.*` oracles on the real code).  Theorem: the two parties, each lifting the OTHER's
x-coordinate to the even-y point and multiplying by its own secret, get the same x — whatever the parities.
-/
namespace Btc.C16
open Btc Btc.Py

section
variable {α G : Type} [AddCommGroup G] {o : GroupOps α} (L : Lawful o G)

/-- `mult(q, (x, y_even(x)))[0]`: `none` when `x` is no x-coordinate (`_y_even_var` raises) or the product is infinity -/
def xOnlyDh (o : GroupOps α) (q : Int) (x : Int) : Option Int :=
  match o.liftX x with
  | none => none
  | some P => if o.isZero (o.mul q P) then none else some (o.x (o.mul q P))

include L in
/-- **T5 (x-only ECDH, the multiplication inside `ellswift.xdh`).** For secrets `a, b ∈ 1..n-1`: party A lifting
`x(b•G)` and party B lifting `x(a•G)` compute the same x-coordinate `x(ab•G)`, and neither fails — both parities of
both public keys (the lift may be the NEGATIVE of the peer's key: `a•(−b•G) = −(ab•G)` has the same x). -/
theorem xOnlyDh_symmetric (a b : Int) (ha : 0 < a ∧ a < o.n) (hb : 0 < b ∧ b < o.n) :
    xOnlyDh o a (o.x (o.mul b o.gen)) = xOnlyDh o b (o.x (o.mul a o.gen)) ∧
    xOnlyDh o a (o.x (o.mul b o.gen)) = some (o.x (o.mul a (o.mul b o.gen))) := by
  have LG := L.toLawfulGroup
  have hA : L.abs (o.mul a o.gen) ≠ 0 := by
    rw [L.abs_mul]; exact smul_ne_zero L ha.1 ha.2 _ L.gen_ne_zero
  have hB : L.abs (o.mul b o.gen) ≠ 0 := by
    rw [L.abs_mul]; exact smul_ne_zero L hb.1 hb.2 _ L.gen_ne_zero
  have hAB : L.abs (o.mul a (o.mul b o.gen)) ≠ 0 := by
    rw [L.abs_mul]; exact smul_ne_zero L ha.1 ha.2 _ hB
  -- one side: lifting x(P) and multiplying by q gives x(q•P)
  have side : ∀ (q : Int) (P : α), L.abs P ≠ 0 → L.abs (o.mul q P) ≠ 0 →
      xOnlyDh o q (o.x P) = some (o.x (o.mul q P)) := by
    intro q P hP hqP
    obtain ⟨Q, hl, -, hQ⟩ := liftX_x L P hP
    unfold xOnlyDh
    rw [hl]
    have hq : L.abs (o.mul q Q) = L.abs (o.mul q P) ∨ L.abs (o.mul q Q) = - L.abs (o.mul q P) := by
      rw [L.abs_mul, L.abs_mul, hQ]
      split
      · exact Or.inl rfl
      · exact Or.inr (by rw [smul_neg])
    have hne : L.abs (o.mul q Q) ≠ 0 := by
      rcases hq with h | h
      · rw [h]; exact hqP
      · rw [h]; exact neg_ne_zero.mpr hqP
    have hz : o.isZero (o.mul q Q) = false := by
      cases hzz : o.isZero (o.mul q Q) with
      | false => rfl
      | true => exact absurd ((L.isZero_iff _).mp hzz) hne
    simp only [hz, Bool.false_eq_true, if_false]
    congr 1
    exact (L.x_eq_iff _ _ hne hqP).mpr hq
  have hBA : L.abs (o.mul b (o.mul a o.gen)) = L.abs (o.mul a (o.mul b o.gen)) := by
    rw [L.abs_mul, L.abs_mul, L.abs_mul, L.abs_mul, smul_smul, smul_smul, mul_comm]
  have s1 := side a (o.mul b o.gen) hB hAB
  have s2 := side b (o.mul a o.gen) hA (by rw [hBA]; exact hAB)
  refine ⟨?_, s1⟩
  rw [s1, s2]
  congr 1
  exact (L.x_eq_iff _ _ hAB (by rw [hBA]; exact hAB)).mpr (Or.inl hBA.symm)

end
end Btc.C16
