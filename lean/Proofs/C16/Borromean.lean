import Proofs.C16.Dleq
/-
C16 — Borromean ring signatures (btclib/ecc/borromean.py): the ring-closing step only.
`sign` sets `s[i][j*] = (k + q·e[i][j*]) % n` at the signer's index; `assert_as_valid` recomputes the
commitment there as `double_mult_var(-e, P, s, G)` and hashes its compressed encoding.  The two
encodings coincide, so the verifier's hash chain re-enters the signer's at `j* + 1` and closes on `e0`.
(The chain itself — the walk over rings and positions — has no Lean model: oracle `borromean.sign_verify`.)
-/
namespace Btc.C16
open Btc Btc.Py

section
variable {α G : Type} [AddCommGroup G] {o : GroupOps α} (L : Lawful o G)

include L in
theorem borromean_closing_step (q k e : Int) (hk : 0 < k ∧ k < o.n) :
    L.abs (o.dmul (-e) (o.mul q o.gen) ((k + q * e) % o.n) o.gen) = L.abs (o.mul k o.gen) ∧
    cbytes o (o.dmul (-e) (o.mul q o.gen) ((k + q * e) % o.n) o.gen) = cbytes o (o.mul k o.gen) := by
  have h : L.abs (o.dmul (-e) (o.mul q o.gen) ((k + q * e) % o.n) o.gen) = L.abs (o.mul k o.gen) := by
    rw [L.abs_dmul, L.abs_mul, L.abs_mul, L.zsmul_mod, smul_smul, ← add_smul]
    congr 1; ring
  have hne : L.abs (o.mul k o.gen) ≠ 0 := by
    rw [L.abs_mul]; exact smul_ne_zero L hk.1 hk.2 _ L.gen_ne_zero
  exact ⟨h, cbytes_congr L h (by rw [h]; exact hne)⟩

end
end Btc.C16
