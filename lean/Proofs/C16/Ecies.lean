import Proofs.C16.SilentPayments
import Proofs.C16.Musig2Agg
import Model.C16.Ecies
/-
C16 — ECIES (T7): decrypt ∘ encrypt = id for the recipient, for any cipher with `D(k, iv, E(k, iv, m)) = m`
and any MAC with 32-byte tags; a wrong key derives its MAC key from a different KDF input, so
acceptance needs the two MAC values to coincide.
-/
namespace Btc.C16
open Btc Btc.Py

section
variable {α G : Type} [AddCommGroup G] {o : GroupOps α} (L : Lawful o G)
variable (h512 : Bytes → Bytes) (mac : Bytes → Bytes → Bytes)

theorem ecies_sizes : eMagicSize = 4 ∧ eEphSize = 33 ∧ eMacSize = 32 ∧ eBlockSize = 16 := by decide

theorem envelopeCheck_ok_inv {magic eph ct tag : Bytes} {E : α}
    (h : envelopeCheck o magic eph ct tag = .ok E) :
    magic.length = 4 ∧ eph.length = 33 ∧ cpoint o eph = .ok E ∧ 16 ≤ ct.length ∧ tag.length = 32 := by
  unfold envelopeCheck at h
  rw [ecies_sizes.1, ecies_sizes.2.1, ecies_sizes.2.2.1, ecies_sizes.2.2.2] at h
  split at h
  · cases h
  rename_i a1
  split at h
  · cases h
  rename_i a2
  split at h
  · cases h
  rename_i E' hE
  split at h
  · cases h
  rename_i a3
  split at h
  · cases h
  split at h
  · cases h
  rename_i a5
  cases h
  exact ⟨not_not.mp a1, not_not.mp a2, hE, not_lt.mp a3, not_not.mp a5⟩

include L in
/-- **T7.** What `encrypt` answers for the public key `P = d•G`, `decrypt` with `d` turns back into the
message — any ephemeral key, any message, any magic; the cipher and the MAC are parameters. -/
theorem ecies_roundtrip (hp : o.p ≤ 256 ^ 32)
    (encF decF : Bytes → Bytes → Bytes → R Bytes)
    (hD : ∀ k iv m c, encF k iv m = .ok c → decF k iv c = .ok m)
    (d : Int) (hd : 0 < d ∧ d < o.n) (P : α) (hP : L.abs P = d • L.abs o.gen)
    (q : Int) (msg magic env : Bytes)
    (h : eciesEncrypt o h512 mac encF msg P q magic = .ok env) :
    eciesDecrypt o h512 mac decF env d magic = .ok msg := by
  unfold eciesEncrypt at h
  split at h
  · cases h
  rename_i hq
  have hq' : 0 < q ∧ q < o.n := (scalarOk_iff q).mp (by simpa using hq)
  split at h
  · cases h
  rename_i ct hct
  split at h
  · cases h
  split at h
  · cases h
  rename_i E hE
  cases h
  obtain ⟨hm, he, hcp, hc16, htag⟩ := envelopeCheck_ok_inv hE
  set eph := cbytes o (o.mul q o.gen) with heph
  set tag := mac (eciesKeys o h512 q P).2.2 (magic ++ (eph ++ ct)) with htagdef
  -- parse ∘ serialize
  have t1 : (magic ++ (eph ++ (ct ++ tag))).take 4 = magic := List.take_left' hm
  have d1 : (magic ++ (eph ++ (ct ++ tag))).drop 4 = eph ++ (ct ++ tag) := List.drop_left' hm
  have t2 : (eph ++ (ct ++ tag)).take 33 = eph := List.take_left' he
  have d2 : (eph ++ (ct ++ tag)).drop 33 = ct ++ tag := List.drop_left' he
  have hl : (ct ++ tag).length - 32 = ct.length := by rw [List.length_append, htag]; omega
  have t3 : (ct ++ tag).take ((ct ++ tag).length - 32) = ct := by rw [hl]; exact List.take_left' rfl
  have d3 : (ct ++ tag).drop ((ct ++ tag).length - 32) = tag := by rw [hl]; exact List.drop_left' rfl
  have hlen : ¬ (magic ++ (eph ++ (ct ++ tag))).length < 4 + 33 + 16 + 32 := by
    simp only [List.length_append, hm, he, htag]; omega
  -- the shared point is the same on both sides
  have hE0 : L.abs E = q • L.abs o.gen := by
    have hK : L.abs (o.mul q o.gen) ≠ 0 := by
      rw [L.abs_mul]; exact smul_ne_zero L hq'.1 hq'.2 _ L.gen_ne_zero
    obtain ⟨E', hc', hE'⟩ := cpoint_cbytes L hp _ hK
    rw [hcp] at hc'; cases hc'
    rw [hE', L.abs_mul]
  have hkeys : eciesKeys o h512 d E = eciesKeys o h512 q P := by
    unfold eciesKeys
    have hs : L.abs (o.mul d E) = L.abs (o.mul q P) := by
      rw [L.abs_mul, L.abs_mul, hE0, hP, smul_smul, smul_smul, mul_comm]
    have hne : L.abs (o.mul d E) ≠ 0 := by
      rw [L.abs_mul]
      exact smul_ne_zero L hd.1 hd.2 E (by rw [hE0]; exact smul_ne_zero L hq'.1 hq'.2 _ L.gen_ne_zero)
    rw [cbytes_congr L hs hne]
  unfold eciesDecrypt
  rw [ecies_sizes.1, ecies_sizes.2.1, ecies_sizes.2.2.1, ecies_sizes.2.2.2]
  rw [if_neg hlen, t1, if_neg (by simp)]
  simp only [d1, t2, d2, t3, d3, hE]
  have hdok : scalarOk o d = true := (scalarOk_iff d).mpr hd
  simp only [hdok, Bool.not_true, Bool.false_eq_true, if_false, hkeys]
  rw [if_neg (by simp [htagdef])]
  exact hD _ _ _ _ hct

/-- what an accepted envelope says (any key `d'`): the tag it carries is the MAC of the framing under
the MAC key derived from `d'•E`, `E` the ephemeral point — MAC-then-decrypt: the cipher runs only then. -/
theorem ecies_accept_inv (decF : Bytes → Bytes → Bytes → R Bytes) (data : Bytes) (d' : Int) (magic m : Bytes)
    (h : eciesDecrypt o h512 mac decF data d' magic = .ok m) :
    ∃ E : α, cpoint o ((data.drop 4).take 33) = .ok E ∧
      ((data.drop 4).drop 33).drop (((data.drop 4).drop 33).length - 32)
        = mac (eciesKeys o h512 d' E).2.2
            (data.take 4 ++ ((data.drop 4).take 33
              ++ ((data.drop 4).drop 33).take (((data.drop 4).drop 33).length - 32))) := by
  unfold eciesDecrypt at h
  rw [ecies_sizes.1, ecies_sizes.2.1, ecies_sizes.2.2.1, ecies_sizes.2.2.2] at h
  split at h
  · cases h
  split at h
  · cases h
  dsimp only at h
  split at h
  · cases h
  rename_i E hE
  split at h
  · cases h
  split at h
  · cases h
  rename_i a1
  exact ⟨E, (envelopeCheck_ok_inv hE).2.2.1, not_not.mp a1⟩

include L in
/-- a key that is not the recipient's (`d' ≢ d mod n`) feeds the KDF a different octet string: the two
MAC keys are `h512` of DISTINCT inputs — acceptance under `d'` (previous theorem) therefore needs a
collision of `h512`'s last 32 bytes or of the MAC. -/
theorem ecies_wrong_key_kdf_input (hp : o.p ≤ 256 ^ 32) (d d' q : Int) (hq : 0 < q ∧ q < o.n)
    (hdd : (d' - d) % o.n ≠ 0) (P E : α) (hP : L.abs P = d • L.abs o.gen) (hE : L.abs E = q • L.abs o.gen)
    (h1 : L.abs (o.mul d' E) ≠ 0) (h2 : L.abs (o.mul q P) ≠ 0) :
    cbytes o (o.mul d' E) ≠ cbytes o (o.mul q P) := by
  intro hc
  have := cbytes_inj L hp h1 h2 hc
  rw [L.abs_mul, L.abs_mul, hE, hP, smul_smul, smul_smul] at this
  have hz : ((d' - d) * q) • L.abs o.gen = 0 := by
    have e : (d' - d) * q = d' * q - q * d := by ring
    rw [e, sub_smul, this, sub_self]
  rw [mul_smul] at hz
  have hqg : L.abs (o.mul q o.gen) ≠ 0 := by
    rw [L.abs_mul]; exact smul_ne_zero L hq.1 hq.2 _ L.gen_ne_zero
  rw [← L.abs_mul] at hz
  exact smul_ne_zero_of_mod L hdd _ hqg hz

end
end Btc.C16
