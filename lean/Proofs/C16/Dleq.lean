import Proofs.C16.Basic
import Model.C16.Dleq
/-
C16 — ECDH symmetry (T5) and DLEQ (T8): completeness, the verification equation, special soundness.
-/
namespace Btc.C16
open Btc Btc.Py

section
variable {α G : Type} [AddCommGroup G] {o : GroupOps α} (L : Lawful o G)

/-- coordinates and parity are functions of the (non-zero) group element -/
theorem x_congr {P Q : α} (h : L.abs P = L.abs Q) (hP : L.abs P ≠ 0) : o.x P = o.x Q :=
  (L.x_eq_iff P Q hP (h ▸ hP)).mpr (Or.inl h)

theorem evenY_congr {P Q : α} (h : L.abs P = L.abs Q) (hP : L.abs P ≠ 0) : evenY o P = evenY o Q := by
  have := L.y_congr P Q h hP
  cases h1 : evenY o P <;> cases h2 : evenY o Q <;> simp_all [evenY]

theorem cbytes_congr {P Q : α} (h : L.abs P = L.abs Q) (hP : L.abs P ≠ 0) : cbytes o P = cbytes o Q := by
  unfold cbytes; rw [evenY_congr L h hP, x_congr L h hP]

theorem isZero_congr {P Q : α} (h : L.abs P = L.abs Q) : o.isZero P = o.isZero Q := by
  have h1 := L.isZero_iff P
  have h2 := L.isZero_iff Q
  cases hp : o.isZero P <;> cases hq : o.isZero Q <;> simp_all

theorem isZero_false_of_ne {P : α} (h : L.abs P ≠ 0) : o.isZero P = false := by
  cases hz : o.isZero P with
  | false => rfl
  | true => exact absurd ((L.isZero_iff P).mp hz) h

/-! ### T5: ECDH -/

include L in
/-- **T5.** Both parties of an ECDH exchange derive the same keying data, for ANY key derivation
function applied to the shared x-coordinate (and both fail together when the shared point is ∞). -/
theorem dh_symmetric (kdf : Bytes → R Bytes) (a b : Int) :
    diffieHellman o kdf a (o.mul b o.gen) = diffieHellman o kdf b (o.mul a o.gen) := by
  have h : L.abs (o.mul a (o.mul b o.gen)) = L.abs (o.mul b (o.mul a o.gen)) := by
    rw [L.abs_mul, L.abs_mul, L.abs_mul, L.abs_mul, smul_smul, smul_smul, mul_comm]
  unfold diffieHellman
  simp only
  rw [isZero_congr L h]
  by_cases hz : o.isZero (o.mul b (o.mul a o.gen)) = true
  · simp [hz]
  · have hne : L.abs (o.mul a (o.mul b o.gen)) ≠ 0 := by
      rw [h]; exact fun h0 => hz ((L.isZero_iff _).mpr h0)
    simp only [hz]
    rw [x_congr L h hne]

include L in
/-- the same for two arbitrary key pairs on any base point `P`: `a•(b•P)` and `b•(a•P)` -/
theorem dh_symmetric_base (kdf : Bytes → R Bytes) (a b : Int) (P : α) :
    diffieHellman o kdf a (o.mul b P) = diffieHellman o kdf b (o.mul a P) := by
  have h : L.abs (o.mul a (o.mul b P)) = L.abs (o.mul b (o.mul a P)) := by
    rw [L.abs_mul, L.abs_mul, L.abs_mul, L.abs_mul, smul_smul, smul_smul, mul_comm]
  unfold diffieHellman
  simp only
  rw [isZero_congr L h]
  by_cases hz : o.isZero (o.mul b (o.mul a P)) = true
  · simp [hz]
  · have hne : L.abs (o.mul a (o.mul b P)) ≠ 0 := by
      rw [h]; exact fun h0 => hz ((L.isZero_iff _).mpr h0)
    simp only [hz]
    rw [x_congr L h hne]

/-! ### T8: DLEQ -/

variable (H : Bytes → Bytes → Bytes)

theorem dleq_sizes : Gen.Interactive.DLEQ_SCALAR_SIZE = 32 ∧ Gen.Interactive.DLEQ_PROOF_SIZE = 64 := by
  decide

/-- the verification equation, exactly: `assert_proof_as_valid` accepts iff the message and proof
have the right sizes, `s < n`, `R₁ = s•G' − e•A ≠ ∞`, `R₂ = s•B − e•C ≠ ∞` and `e` is the challenge
of `(A, B, C, G', R₁, R₂, m)`. -/
theorem dleqVerify_iff (A B C Gp : α) (proof : Bytes) (msg : Option Bytes) :
    dleqVerify o H A B C proof Gp msg = .ok () ↔
      ∃ m, dleqMsg msg = .ok m ∧ proof.length = 64 ∧
        fromBytesBE (proof.drop 32) < o.n ∧
        o.isZero (o.dmul (fromBytesBE (proof.drop 32)) Gp (-(fromBytesBE (proof.take 32))) A) = false ∧
        o.isZero (o.dmul (fromBytesBE (proof.drop 32)) B (-(fromBytesBE (proof.take 32))) C) = false ∧
        fromBytesBE (proof.take 32) =
          dleqChallenge o H A B C (o.dmul (fromBytesBE (proof.drop 32)) Gp (-(fromBytesBE (proof.take 32))) A)
            (o.dmul (fromBytesBE (proof.drop 32)) B (-(fromBytesBE (proof.take 32))) C) Gp m := by
  unfold dleqVerify
  rw [dleq_sizes.1, dleq_sizes.2]
  cases hm : dleqMsg msg with
  | error e => simp
  | ok m =>
    simp only [Except.ok.injEq, exists_eq_left']
    by_cases h1 : proof.length = 64
    · by_cases h2 : fromBytesBE (proof.drop 32) < o.n
      · by_cases h3 : o.isZero (o.dmul (fromBytesBE (proof.drop 32)) Gp (-(fromBytesBE (proof.take 32))) A) = true
        · simp [h1, h2, h3, not_le.mpr h2]
        · by_cases h4 : o.isZero (o.dmul (fromBytesBE (proof.drop 32)) B (-(fromBytesBE (proof.take 32))) C) = true
          · simp [h1, h2, h3, h4, not_le.mpr h2]
          · simp [h1, h2, h3, h4, not_le.mpr h2]
      · simp [h1, h2, not_lt.mp h2]
    · simp [h1]

include L in
/-- completeness for any nonce: the proof `(e, s = k + e·a)` built from a nonce `k ∈ 1..n-1` verifies
for the statement `A = a•G'`, `C = a•B` it was made for — any generator `G' ≠ ∞`, any `B ≠ ∞`, any
message; `H` any hash with 32-byte digests. -/
theorem dleq_complete_nonce (hn : o.n ≤ 256 ^ 32) (hH : ∀ t m, (H t m).length = 32)
    (a k : Int) (hk0 : 0 < k) (hk1 : k < o.n) (B Gp : α) (hB : L.abs B ≠ 0) (hG : L.abs Gp ≠ 0)
    (msg : Option Bytes) (m : Bytes) (hm : dleqMsg msg = .ok m) :
    dleqVerify o H (o.mul a Gp) B (o.mul a B) (dleqProofOf o H a k B Gp m) Gp msg = .ok () := by
  rw [dleqVerify_iff]
  refine ⟨m, hm, ?_⟩
  set e := dleqChallenge o H (o.mul a Gp) B (o.mul a B) (o.mul k Gp) (o.mul k B) Gp m with he
  have he0 : 0 ≤ e := by rw [he]; unfold dleqChallenge fromBytesBE; exact Int.natCast_nonneg _
  have he1 : e < 256 ^ 32 := by
    rw [he]; unfold dleqChallenge fromBytesBE
    have := ofBE_lt (H Gen.Interactive.DLEQ_CHALLENGE_TAG
      (cbytes o (o.mul a Gp) ++ cbytes o B ++ cbytes o (o.mul a B) ++ cbytes o Gp ++ cbytes o (o.mul k Gp)
        ++ cbytes o (o.mul k B) ++ m))
    rw [hH] at this
    exact_mod_cast this
  have hs0 : 0 ≤ (k + e * a) % o.n := Int.emod_nonneg _ (ne_of_gt L.n_pos)
  have hs1 : (k + e * a) % o.n < o.n := Int.emod_lt_of_pos _ L.n_pos
  have hproof : dleqProofOf o H a k B Gp m = sBytes e ++ sBytes ((k + e * a) % o.n) := rfl
  have htake : (dleqProofOf o H a k B Gp m).take 32 = sBytes e := by
    rw [hproof]; exact List.take_left' (length_sBytes e)
  have hdrop : (dleqProofOf o H a k B Gp m).drop 32 = sBytes ((k + e * a) % o.n) := by
    rw [hproof]; exact List.drop_left' (length_sBytes e)
  have hlen : (dleqProofOf o H a k B Gp m).length = 64 := by
    rw [hproof, List.length_append, length_sBytes, length_sBytes]
  rw [htake, hdrop, fromBytesBE_sBytes he0 he1, fromBytesBE_sBytes hs0 (by omega)]
  -- the two recomputed commitments are k•G' and k•B
  have hR : ∀ X : α, L.abs (o.dmul ((k + e * a) % o.n) X (-e) (o.mul a X)) = L.abs (o.mul k X) := by
    intro X
    rw [L.abs_dmul, L.abs_mul, L.abs_mul, L.zsmul_mod, smul_smul, ← add_smul]
    congr 1; ring
  have hkG : L.abs (o.mul k Gp) ≠ 0 := by rw [L.abs_mul]; exact smul_ne_zero L hk0 hk1 _ hG
  have hkB : L.abs (o.mul k B) ≠ 0 := by rw [L.abs_mul]; exact smul_ne_zero L hk0 hk1 _ hB
  have hR1n : L.abs (o.dmul ((k + e * a) % o.n) Gp (-e) (o.mul a Gp)) ≠ 0 := by rw [hR]; exact hkG
  have hR2n : L.abs (o.dmul ((k + e * a) % o.n) B (-e) (o.mul a B)) ≠ 0 := by rw [hR]; exact hkB
  refine ⟨hlen, hs1, isZero_false_of_ne L hR1n, isZero_false_of_ne L hR2n, ?_⟩
  have c1 := cbytes_congr L (hR Gp) hR1n
  have c2 := cbytes_congr L (hR B) hR2n
  unfold dleqChallenge
  rw [c1, c2]
  exact he

/-- **T8 (completeness).** Whenever `generate_proof` answers, the proof verifies for the statement it
was made for; and it answers for every in-range `a` unless the derived nonce is zero. -/
theorem dleq_generate_verifies
    (a : Int) (B Gp : α) (aux : Bytes) (msg : Option Bytes)
    (π : Bytes) (h : dleqGenerate o H a B aux Gp msg = .ok π) :
    dleqVerify o H (o.mul a Gp) B (o.mul a B) π Gp msg = .ok () := by
  unfold dleqGenerate at h
  split at h
  · cases h
  split at h
  · cases h
  rename_i m hm
  split at h
  · cases h
  dsimp only at h
  split at h
  · cases h
  split at h
  · rename_i hv
    cases h
    exact hv
  · cases h

include L in
theorem dleq_generate_defined (hn : o.n ≤ 256 ^ 32) (hH : ∀ t m, (H t m).length = 32)
    (a : Int) (ha : 0 < a ∧ a < o.n) (B Gp : α) (hB : L.abs B ≠ 0) (hG : L.abs Gp ≠ 0) (aux : Bytes)
    (haux : aux.length = 32) (msg : Option Bytes) (m : Bytes) (hm : dleqMsg msg = .ok m)
    (hk : dleqNonce o H a (o.mul a Gp) (o.mul a B) aux m ≠ 0) :
    ∃ π, dleqGenerate o H a B aux Gp msg = .ok π := by
  have hk0 : 0 < dleqNonce o H a (o.mul a Gp) (o.mul a B) aux m := by
    refine lt_of_le_of_ne ?_ (Ne.symm hk)
    unfold dleqNonce; exact Int.emod_nonneg _ (ne_of_gt L.n_pos)
  have hk1 : dleqNonce o H a (o.mul a Gp) (o.mul a B) aux m < o.n := by
    unfold dleqNonce; exact Int.emod_lt_of_pos _ L.n_pos
  have hv := dleq_complete_nonce L H hn hH a _ hk0 hk1 B Gp hB hG msg m hm
  refine ⟨dleqProofOf o H a (dleqNonce o H a (o.mul a Gp) (o.mul a B) aux m) B Gp m, ?_⟩
  unfold dleqGenerate
  have hs : scalarOk o a = true := (scalarOk_iff a).mpr ha
  simp only [hs, Bool.not_true, Bool.false_eq_true, if_false, hm, dleq_sizes.1, haux, ne_eq,
    not_true_eq_false, hk, hv]

include L in
/-- **T8 (special soundness).** Two accepting transcripts with the same commitments `R₁`, `R₂` and
challenges that differ modulo `n` determine a witness: there is `w` with `A = w•G'` and `C = w•B`.
(So a statement with no common discrete logarithm passes verification for at most one challenge
value modulo `n` per commitment pair: acceptance needs the hash to hit it.) -/
theorem dleq_special_soundness (A B C Gp : α) (e s e' s' : Int)
    (h1 : L.abs (o.dmul s Gp (-e) A) = L.abs (o.dmul s' Gp (-e') A))
    (h2 : L.abs (o.dmul s B (-e) C) = L.abs (o.dmul s' B (-e') C))
    (hne : (e - e') % o.n ≠ 0) :
    ∃ w : Int, L.abs A = w • L.abs Gp ∧ L.abs C = w • L.abs B := by
  have hpos : 0 < (e - e') % o.n :=
    lt_of_le_of_ne (Int.emod_nonneg _ (ne_of_gt L.n_pos)) (Ne.symm hne)
  have hlt : (e - e') % o.n < o.n := Int.emod_lt_of_pos _ L.n_pos
  -- inverse of (e - e') modulo n
  have := prime_fact L
  have hnz : (((e - e') % o.n : Int) : ZMod (N o)) ≠ 0 := by
    intro hz
    have hd := (ZMod.intCast_zmod_eq_zero_iff_dvd _ (N o)).mp hz
    rw [n_cast L] at hd
    have := Int.le_of_dvd hpos hd
    omega
  have hnz' : (((e - e' : Int)) : ZMod (N o)) ≠ 0 := by rw [← cast_mod L]; exact hnz
  obtain ⟨j, hj⟩ : ∃ j : Int, ((j * (e - e') : Int) : ZMod (N o)) = ((1 : Int) : ZMod (N o)) := by
    refine ⟨((((e - e' : Int)) : ZMod (N o))⁻¹).val, ?_⟩
    rw [Int.cast_mul, Int.cast_natCast, ZMod.natCast_zmod_val, Int.cast_one]
    exact inv_mul_cancel₀ hnz'
  have key : ∀ (X Y : G), s • X + -e • Y = s' • X + -e' • Y → (e - e') • Y = (s - s') • X := by
    intro X Y h
    rw [neg_smul, neg_smul] at h
    rw [sub_smul, sub_smul, sub_eq_sub_iff_add_eq_add]
    calc e • Y + s' • X = (s' • X + -(e' • Y)) + (e • Y + e' • Y) := by abel
      _ = (s • X + -(e • Y)) + (e • Y + e' • Y) := by rw [h]
      _ = s • X + e' • Y := by abel
  rw [L.abs_dmul, L.abs_dmul] at h1 h2
  refine ⟨j * (s - s'), ?_, ?_⟩
  · have := smul_eq_of_cast L A hj
    rw [one_smul, mul_smul, key _ _ h1, smul_smul] at this
    exact this.symm
  · have := smul_eq_of_cast L C hj
    rw [one_smul, mul_smul, key _ _ h2, smul_smul] at this
    exact this.symm

end
end Btc.C16
