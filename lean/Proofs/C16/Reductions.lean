import Proofs.C16.LG
import Proofs.C16.Ecies
/-
C16 — "for no other key" (ECIES) and "for no altered statement" (DLEQ) as reductions with EXPLICIT witnesses: if the
wrong key / the altered statement is accepted, two named, different octet strings collide under the hash or the MAC.
(An existential `∃ x ≠ y, H x = H y` would be a pigeonhole triviality for a real hash; the witnesses here are terms.)
Plus the DLEQ verification equation in group terms.
-/
namespace Btc.C16
open Btc Btc.Py

theorem ofBE_inj {x y : Bytes} (hl : x.length = y.length) (h : ofBE x = ofBE y) : x = y := by
  rw [← beBytes_ofBE x, ← beBytes_ofBE y, hl, h]

theorem fromBytesBE_inj {x y : Bytes} (hl : x.length = y.length) (h : fromBytesBE x = fromBytesBE y) : x = y := by
  unfold fromBytesBE at h
  exact ofBE_inj hl (by exact_mod_cast h)

theorem append_inj_33 {a a' b b' : Bytes} (ha : a.length = 33) (ha' : a'.length = 33) (h : a ++ b = a' ++ b') :
    a = a' ∧ b = b' := List.append_inj h (by rw [ha, ha'])

section
variable {α G : Type} [AddCommGroup G] {o : GroupOps α}
variable (H : Bytes → Bytes → Bytes)

/-- the octet string `_challenge` hashes -/
def dleqPreimage (o : GroupOps α) (A B C R1 R2 Gp : α) (m : Bytes) : Bytes :=
  cbytes o A ++ cbytes o B ++ cbytes o C ++ cbytes o Gp ++ cbytes o R1 ++ cbytes o R2 ++ m

theorem dleqChallenge_eq (A B C R1 R2 Gp : α) (m : Bytes) :
    dleqChallenge o H A B C R1 R2 Gp m
      = fromBytesBE (H Gen.Interactive.DLEQ_CHALLENGE_TAG (dleqPreimage o A B C R1 R2 Gp m)) := rfl

/-- two preimages are equal only if the encoded statement `(A, B, C, G', m)` is the same -/
theorem dleqPreimage_inj {A B C R1 R2 Gp A' B' C' R1' R2' Gp' : α} {m m' : Bytes}
    (h : dleqPreimage o A B C R1 R2 Gp m = dleqPreimage o A' B' C' R1' R2' Gp' m') :
    cbytes o A = cbytes o A' ∧ cbytes o B = cbytes o B' ∧ cbytes o C = cbytes o C' ∧ cbytes o Gp = cbytes o Gp'
      ∧ m = m' := by
  unfold dleqPreimage at h
  simp only [List.append_assoc] at h
  obtain ⟨h1, h⟩ := append_inj_33 (length_cbytes _) (length_cbytes _) h
  obtain ⟨h2, h⟩ := append_inj_33 (length_cbytes _) (length_cbytes _) h
  obtain ⟨h3, h⟩ := append_inj_33 (length_cbytes _) (length_cbytes _) h
  obtain ⟨h4, h⟩ := append_inj_33 (length_cbytes _) (length_cbytes _) h
  obtain ⟨_, h⟩ := append_inj_33 (length_cbytes _) (length_cbytes _) h
  obtain ⟨_, h⟩ := append_inj_33 (length_cbytes _) (length_cbytes _) h
  exact ⟨h1, h2, h3, h4, h⟩

/-- **T8 (no altered statement).** Take the honest proof `(e, s)` made with secret `a` and nonce `k` for the statement
`(A = a•G', B, C = a•B)`, generator `G'`, message `m`.  If `assert_proof_as_valid` accepts it for ANY statement
`(A', B', C')`, generator `G''`, message `m'` whose encoding differs from the original's in at least one of the five
places (an altered point, generator or message), then the two challenge preimages — both written out: the original
`A‖B‖C‖G'‖k•G'‖k•B‖m` and the verifier's `A'‖B'‖C'‖G''‖(s•G''−e•A')‖(s•B'−e•C')‖m'` — are DIFFERENT octet strings with the
SAME tagged hash.  No group law is used: for any `GroupOps`, any hash with 32-byte digests. -/
theorem dleq_altered_statement_collides (hn : 0 < o.n ∧ o.n ≤ 256 ^ 32) (hH : ∀ t m, (H t m).length = 32)
    (a k : Int) (B Gp : α) (m : Bytes) (A' B' C' Gp' : α) (msg' : Option Bytes) (m' : Bytes)
    (hm' : dleqMsg msg' = .ok m')
    (halt : ¬ (cbytes o (o.mul a Gp) = cbytes o A' ∧ cbytes o B = cbytes o B' ∧ cbytes o (o.mul a B) = cbytes o C'
      ∧ cbytes o Gp = cbytes o Gp' ∧ m = m'))
    (hacc : dleqVerify o H A' B' C' (dleqProofOf o H a k B Gp m) Gp' msg' = .ok ()) :
    let e := dleqChallenge o H (o.mul a Gp) B (o.mul a B) (o.mul k Gp) (o.mul k B) Gp m
    let s := (k + e * a) % o.n
    let t := dleqPreimage o (o.mul a Gp) B (o.mul a B) (o.mul k Gp) (o.mul k B) Gp m
    let t' := dleqPreimage o A' B' C' (o.dmul s Gp' (-e) A') (o.dmul s B' (-e) C') Gp' m'
    t ≠ t' ∧ H Gen.Interactive.DLEQ_CHALLENGE_TAG t = H Gen.Interactive.DLEQ_CHALLENGE_TAG t' := by
  intro e s t t'
  have he0 : 0 ≤ e := by show 0 ≤ dleqChallenge _ _ _ _ _ _ _ _ _; unfold dleqChallenge fromBytesBE; exact Int.natCast_nonneg _
  have he1 : e < 256 ^ 32 := by
    show dleqChallenge _ _ _ _ _ _ _ _ _ < _
    rw [dleqChallenge_eq]; unfold fromBytesBE
    have := ofBE_lt (H Gen.Interactive.DLEQ_CHALLENGE_TAG t)
    rw [hH] at this
    exact_mod_cast this
  have hs0 : 0 ≤ s := Int.emod_nonneg _ (ne_of_gt hn.1)
  have hs1 : s < o.n := Int.emod_lt_of_pos _ hn.1
  have hproof : dleqProofOf o H a k B Gp m = sBytes e ++ sBytes s := rfl
  have htake : (dleqProofOf o H a k B Gp m).take 32 = sBytes e := by
    rw [hproof]; exact List.take_left' (length_sBytes e)
  have hdrop : (dleqProofOf o H a k B Gp m).drop 32 = sBytes s := by
    rw [hproof]; exact List.drop_left' (length_sBytes e)
  obtain ⟨m2, hm2, -, -, -, -, hch⟩ := (dleqVerify_iff H A' B' C' Gp' _ msg').mp hacc
  rw [hm'] at hm2; cases hm2
  rw [htake, hdrop, fromBytesBE_sBytes he0 he1, fromBytesBE_sBytes hs0 (by omega)] at hch
  refine ⟨?_, ?_⟩
  · intro htt
    exact halt (dleqPreimage_inj htt)
  · have : fromBytesBE (H Gen.Interactive.DLEQ_CHALLENGE_TAG t) = fromBytesBE (H Gen.Interactive.DLEQ_CHALLENGE_TAG t') := hch
    exact fromBytesBE_inj (by rw [hH, hH]) this

variable (L : LawfulGroup o G)

include L in
/-- **T8 (verification equation, in the group).** `assert_proof_as_valid` accepts `(e, s)` exactly when the sizes are
right, `s < n`, the two commitments `R₁ = s•G' − e•A` and `R₂ = s•B − e•C` are not the identity, and `e` is the challenge
hash of `(A, B, C, G', R₁, R₂, m)` — for ANY representatives of `R₁`, `R₂` (the hash reads their encodings, which are
functions of the group element). -/
theorem dleq_verify_group_iff (A B C Gp : α) (proof : Bytes) (msg : Option Bytes) :
    dleqVerify o H A B C proof Gp msg = .ok () ↔
      ∃ m, dleqMsg msg = .ok m ∧ proof.length = 64 ∧ fromBytesBE (proof.drop 32) < o.n ∧
        fromBytesBE (proof.drop 32) • L.abs Gp - fromBytesBE (proof.take 32) • L.abs A ≠ 0 ∧
        fromBytesBE (proof.drop 32) • L.abs B - fromBytesBE (proof.take 32) • L.abs C ≠ 0 ∧
        ∀ R1 R2 : α,
          L.abs R1 = fromBytesBE (proof.drop 32) • L.abs Gp - fromBytesBE (proof.take 32) • L.abs A →
          L.abs R2 = fromBytesBE (proof.drop 32) • L.abs B - fromBytesBE (proof.take 32) • L.abs C →
          fromBytesBE (proof.take 32) = dleqChallenge o H A B C R1 R2 Gp m := by
  rw [dleqVerify_iff]
  set s := fromBytesBE (proof.drop 32)
  set e := fromBytesBE (proof.take 32)
  have habs : ∀ X Y : α, L.abs (o.dmul s X (-e) Y) = s • L.abs X - e • L.abs Y := by
    intro X Y; rw [L.abs_dmul, neg_smul, sub_eq_add_neg]
  have hz : ∀ X Y : α, o.isZero (o.dmul s X (-e) Y) = false ↔ s • L.abs X - e • L.abs Y ≠ 0 := by
    intro X Y
    rw [← habs]
    constructor
    · intro h h0; rw [(L.isZero_iff _).mpr h0] at h; cases h
    · exact LG.isZero_false_of_ne L
  constructor
  · rintro ⟨m, hm, hl, hs, h1, h2, hc⟩
    refine ⟨m, hm, hl, hs, (hz _ _).mp h1, (hz _ _).mp h2, ?_⟩
    intro R1 R2 hR1 hR2
    rw [hc]
    unfold dleqChallenge
    rw [LG.cbytes_congr L ((habs Gp A).trans hR1.symm) (by rw [habs]; exact (hz _ _).mp h1),
      LG.cbytes_congr L ((habs B C).trans hR2.symm) (by rw [habs]; exact (hz _ _).mp h2)]
  · rintro ⟨m, hm, hl, hs, h1, h2, hc⟩
    exact ⟨m, hm, hl, hs, (hz _ _).mpr h1, (hz _ _).mpr h2, hc _ _ (habs _ _) (habs _ _)⟩

end

section
variable {α G : Type} [AddCommGroup G] {o : GroupOps α} (L : Lawful o G)
variable (h512 : Bytes → Bytes) (mac : Bytes → Bytes → Bytes)

/-- `ecies_accept_inv` with the key check: `decrypt` answers only for a key in `1..n-1` -/
theorem ecies_accept_key_ok (decF : Bytes → Bytes → Bytes → R Bytes) (data : Bytes) (d' : Int) (magic m : Bytes)
    (h : eciesDecrypt o h512 mac decF data d' magic = .ok m) : scalarOk o d' = true := by
  unfold eciesDecrypt at h
  split at h
  · cases h
  split at h
  · cases h
  dsimp only at h
  split at h
  · cases h
  split at h
  · cases h
  rename_i a1
  simpa using a1

include L in
/-- **T7 (for no other key), as a reduction with explicit witnesses.** `env` is what `encrypt` answered for the public
key `P = d•G` with ephemeral key `q`.  If `decrypt` with a key `d' ≢ d (mod n)` ACCEPTS `env` (returns any plaintext at
all), then the two KDF inputs — the compressed shared points `d'•(q•G)` the intruder computes and `q•P` the sender used —
are DIFFERENT 33-byte strings whose derived MAC keys (last 32 bytes of `sha512`) give the SAME tag on the envelope's
framing `magic ‖ eph ‖ ciphertext`: a forgery of the MAC under an unrelated key, or a collision of `sha512`'s tail.
For any cipher, MAC and `sha512` (parameters). -/
theorem ecies_wrong_key_forges (hp : o.p ≤ 256 ^ 32) (encF decF : Bytes → Bytes → Bytes → R Bytes)
    (d : Int) (hd : 0 < d ∧ d < o.n) (P : α) (hP : L.abs P = d • L.abs o.gen)
    (q : Int) (msg magic env : Bytes) (henc : eciesEncrypt o h512 mac encF msg P q magic = .ok env)
    (d' : Int) (hdd : (d' - d) % o.n ≠ 0) (m' : Bytes)
    (hdec : eciesDecrypt o h512 mac decF env d' magic = .ok m') :
    cbytes o (o.mul d' (o.mul q o.gen)) ≠ cbytes o (o.mul q P) ∧
    mac ((h512 (cbytes o (o.mul d' (o.mul q o.gen)))).drop 32) (env.take (env.length - 32))
      = mac ((h512 (cbytes o (o.mul q P))).drop 32) (env.take (env.length - 32)) := by
  have hd'ok := (scalarOk_iff (o := o) d').mp (ecies_accept_key_ok h512 mac decF env d' magic m' hdec)
  obtain ⟨E, hcpE, htagE⟩ := ecies_accept_inv h512 mac decF env d' magic m' hdec
  unfold eciesEncrypt at henc
  split at henc
  · cases henc
  rename_i hq
  have hq' : 0 < q ∧ q < o.n := (scalarOk_iff q).mp (by simpa using hq)
  split at henc
  · cases henc
  rename_i ct hct
  split at henc
  · cases henc
  split at henc
  · cases henc
  rename_i E0 hE0
  cases henc
  obtain ⟨hm, he, hcp, hc16, htag⟩ := envelopeCheck_ok_inv hE0
  set eph := cbytes o (o.mul q o.gen) with heph
  set tag := mac (eciesKeys o h512 q P).2.2 (magic ++ (eph ++ ct)) with htagdef
  have t1 : (magic ++ (eph ++ (ct ++ tag))).take 4 = magic := List.take_left' hm
  have d1 : (magic ++ (eph ++ (ct ++ tag))).drop 4 = eph ++ (ct ++ tag) := List.drop_left' hm
  have t2 : (eph ++ (ct ++ tag)).take 33 = eph := List.take_left' he
  have d2 : (eph ++ (ct ++ tag)).drop 33 = ct ++ tag := List.drop_left' he
  have hl : (ct ++ tag).length - 32 = ct.length := by rw [List.length_append, htag]; omega
  have t3 : (ct ++ tag).take ((ct ++ tag).length - 32) = ct := by rw [hl]; exact List.take_left' rfl
  have d3 : (ct ++ tag).drop ((ct ++ tag).length - 32) = tag := by rw [hl]; exact List.drop_left' rfl
  rw [d1, t2, d2, t3, d3, t1] at htagE
  rw [d1, t2] at hcpE
  have hfr : (magic ++ (eph ++ (ct ++ tag))).take ((magic ++ (eph ++ (ct ++ tag))).length - 32)
      = magic ++ (eph ++ ct) := by
    have e1 : magic ++ (eph ++ (ct ++ tag)) = (magic ++ (eph ++ ct)) ++ tag := by simp
    rw [e1]
    have e2 : ((magic ++ (eph ++ ct)) ++ tag).length - 32 = (magic ++ (eph ++ ct)).length := by
      rw [List.length_append, htag]; omega
    rw [e2]; exact List.take_left' rfl
  -- the ephemeral point the intruder parses is q•G
  have hK : L.abs (o.mul q o.gen) ≠ 0 := by
    rw [L.abs_mul]; exact smul_ne_zero L hq'.1 hq'.2 _ L.gen_ne_zero
  have hEabs : L.abs E = q • L.abs o.gen := by
    obtain ⟨E', hc', hE'⟩ := cpoint_cbytes L hp _ hK
    rw [hcpE] at hc'; cases hc'
    rw [hE', L.abs_mul]
  have h1 : L.abs (o.mul d' E) ≠ 0 := by
    rw [L.abs_mul]; exact smul_ne_zero L hd'ok.1 hd'ok.2 E (by rw [hEabs, ← L.abs_mul]; exact hK)
  have h2 : L.abs (o.mul q P) ≠ 0 := by
    rw [L.abs_mul]
    exact smul_ne_zero L hq'.1 hq'.2 P (by rw [hP]; exact smul_ne_zero L hd.1 hd.2 _ L.gen_ne_zero)
  have hcong : cbytes o (o.mul d' E) = cbytes o (o.mul d' (o.mul q o.gen)) :=
    cbytes_congr L (by rw [L.abs_mul, L.abs_mul, hEabs, L.abs_mul]) h1
  have hne := ecies_wrong_key_kdf_input L hp d d' q hq' hdd P E hP hEabs h1 h2
  rw [hcong] at hne
  refine ⟨hne, ?_⟩
  rw [hfr, ← hcong]
  have k1 : (eciesKeys o h512 d' E).2.2 = (h512 (cbytes o (o.mul d' E))).drop 32 := rfl
  have k2 : (eciesKeys o h512 q P).2.2 = (h512 (cbytes o (o.mul q P))).drop 32 := rfl
  rw [← k1, ← k2, ← htagE]

end
end Btc.C16
