import Model.C16.EllSwift
/-
C16 — ElligatorSwift: the EXECUTABLE model (`Model/C16/EllSwift.lean`, the one tied to the code by
correspondence) satisfies `xswiftec (u, xswiftec_inv x u c) = x` EXHAUSTIVELY on two small curves
`y² = x³ + b`, `p ≡ 3 (mod 4)`, `−b` not a cube (no point of order 2, as on secp256k1): every
x-coordinate `x`, every `u ≠ 0`, every case `c ∈ 0..7` — including which of the three candidates is
selected. Kernel-evaluated (`decide +kernel`).
-/
namespace Btc.C16.Swift

def toy (p b : Int) : Params := (params p b).getD ⟨p, b, 0, 0⟩

def okCase (P : Params) (x u : Nat) (case : Nat) : Bool :=
  match xswiftecInv P x u case with
  | some (some t) => xswiftec P u t == some (x : Int)
  | some none => true
  | none => false

/-- every x-coordinate `x < n`, every `0 < u < n`, every case: the inverse, when defined, maps back to `x` -/
def allOk (P : Params) (n : Nat) : Bool :=
  (List.range n).all fun x => !(isX P x) ||
    (List.range n).all fun u => u == 0 || (List.range 8).all fun c => okCase P x u c

/-- number of (x, u, case) triples on which the inverse is defined (non-vacuity) -/
def defined (P : Params) (n : Nat) : Nat :=
  ((List.range n).flatMap fun (x : Nat) => (List.range n).flatMap fun (u : Nat) => (List.range 8).filter fun c =>
    isX P x && u != 0 && (match xswiftecInv P x u c with | some (some _) => true | _ => false)).length

theorem roundtrip_p19_b2 : allOk (toy 19 2) 19 = true := by decide +kernel
theorem roundtrip_p43_b7 : allOk (toy 43 7) 43 = true := by decide +kernel
/-- on `y² = x³ + 8` over `F₁₉` a point of order 2 exists (and btclib's `_constants` accepts the curve): before
/repo c67c7290 the inverse answered `t = 0` there, which the forward map reads as `t = 1` (90 of 408 preimages did
not map back); with `return t or None` mirrored in the model the round trip holds on this curve too -/
theorem roundtrip_p19_b8 : allOk (toy 19 8) 19 = true := by decide +kernel
theorem defined_p19_b8 : defined (toy 19 8) 19 = 318 := by decide +kernel
theorem defined_p19_b2 : defined (toy 19 2) 19 = 300 := by decide +kernel

end Btc.C16.Swift
