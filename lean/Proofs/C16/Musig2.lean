import Proofs.C16.Basic
import Mathlib.Tactic.Module
/-
C16 — MuSig2 proofs: inversion lemmas for the model's fallible functions, T1 (tweak invariant),
T2 (an honest partial signature verifies).
-/
namespace Btc.C16
open Btc Btc.Py

section
variable {α G : Type} [AddCommGroup G] {o : GroupOps α} (L : Lawful o G)
variable (H : Bytes → Bytes → Bytes)

/-- what a successful `sign` says about its arguments and its answer -/
theorem sign_ok_inv {k1 k2 d σ : Int} {snPk : Bytes} {s : SessionCtx}
    (hs : sign o H k1 k2 snPk d s = .ok σ) :
    ∃ v, sessionValues o H s = .ok v ∧ (0 < k1 ∧ k1 < o.n) ∧ (0 < k2 ∧ k2 < o.n) ∧ (0 < d ∧ d < o.n)
      ∧ individualPubKey o d = snPk ∧ s.pubKeys.contains (individualPubKey o d) = true
      ∧ σ = ((if evenY o v.R then k1 else o.n - k1) + v.b * (if evenY o v.R then k2 else o.n - k2)
              + v.e * keyAggCoeff o H v.L v.second (individualPubKey o d)
                * (gOf o v.Q * v.gacc * d % o.n)) % o.n := by
  unfold sign at hs
  split at hs
  · cases hs
  · rename_i v hv
    refine ⟨v, hv, ?_⟩
    dsimp only at hs
    split_ifs at hs with a1 a2 a3 a4 a5 a6
    all_goals
      have e := Except.ok.inj hs
      simp only [Bool.not_eq_true', Bool.not_eq_false] at a1 a2 a3 a5
      simp only [ne_eq, not_not] at a4
      refine ⟨(scalarOk_iff k1).mp a1, (scalarOk_iff k2).mp a2, (scalarOk_iff d).mp a3, a4, a5, ?_⟩
      first
        | (rw [if_pos a6, if_pos a6]; exact e.symm)
        | (rw [if_neg a6, if_neg a6]; exact e.symm)


theorem take_cbytes_append (A B : α) : (cbytes o A ++ cbytes o B).take pkSize = cbytes o A :=
  List.take_left' (length_cbytes A)

theorem drop_cbytes_append (A B : α) : (cbytes o A ++ cbytes o B).drop pkSize = cbytes o B :=
  List.drop_left' (length_cbytes A)

include L in
theorem gOf_cast (Q : α) : ((gOf o Q : Int) : ZMod (N o)) = if evenY o Q then 1 else -1 := by
  unfold gOf
  split <;> simp [cast_n L]

include L in
/-- **T2.** Whatever the session (any key list containing the signer, in any order, with any
duplicates; any tweak list; any message; any aggregate nonce, adaptor or not), whenever `sign`
answers, its answer passes `partial_sig_verify_` against the signer's own public nonce and key. -/
theorem partial_sig_verifies (hp : o.p ≤ 256 ^ 32) (hn : o.n ≤ 256 ^ 32)
    {k1 k2 d σ : Int} {s : SessionCtx}
    (hs : sign o H k1 k2 (individualPubKey o d) d s = .ok σ) :
    partialSigVerify o H (sBytes σ) (cbytes o (o.mul k1 o.gen) ++ cbytes o (o.mul k2 o.gen))
      (individualPubKey o d) s = .ok true := by
  obtain ⟨v, hv, ⟨hk1a, hk1b⟩, ⟨hk2a, hk2b⟩, ⟨hd0, hd1⟩, -, hmem, hσ⟩ := sign_ok_inv H hs
  have hg := L.gen_ne_zero
  have hK1 : L.abs (o.mul k1 o.gen) ≠ 0 := by rw [L.abs_mul]; exact smul_ne_zero L hk1a hk1b _ hg
  have hK2 : L.abs (o.mul k2 o.gen) ≠ 0 := by rw [L.abs_mul]; exact smul_ne_zero L hk2a hk2b _ hg
  have hD : L.abs (o.mul d o.gen) ≠ 0 := by rw [L.abs_mul]; exact smul_ne_zero L hd0 hd1 _ hg
  obtain ⟨Q1, hc1, hQ1⟩ := cpoint_cbytes L hp _ hK1
  obtain ⟨Q2, hc2, hQ2⟩ := cpoint_cbytes L hp _ hK2
  obtain ⟨P, hcP, hPa⟩ := cpoint_cbytes L hp _ hD
  have hσ0 : 0 ≤ σ ∧ σ < o.n := by
    rw [hσ]; exact ⟨Int.emod_nonneg _ (ne_of_gt L.n_pos), Int.emod_lt_of_pos _ L.n_pos⟩
  have hfb : fromBytesBE (sBytes σ) = σ := fromBytesBE_sBytes hσ0.1 (by omega)
  unfold partialSigVerify
  rw [hv]
  simp only [length_sBytes, scalarSize_eq, ne_eq, not_true_eq_false, if_false, hfb, ge_iff_le,
    not_le.mpr hσ0.2, List.length_append, length_cbytes, nonceSize_eq, pkSize_eq, Nat.reduceAdd]
  have ht := take_cbytes_append (o := o) (o.mul k1 o.gen) (o.mul k2 o.gen)
  have hdr := drop_cbytes_append (o := o) (o.mul k1 o.gen) (o.mul k2 o.gen)
  rw [pkSize_eq] at ht hdr
  rw [ht, hdr, hc1, hc2]
  unfold individualPubKey at hmem ⊢
  simp only [length_cbytes, not_true_eq_false, if_false, hcP, hmem, Bool.not_true, Bool.false_eq_true]
  congr 1
  rw [L.eq_iff, L.abs_mul, L.abs_add, L.abs_mul, hPa, L.abs_mul]
  have key : ∀ X : G, X = (if evenY o v.R then (k1 + v.b * k2) else -(k1 + v.b * k2)) • L.abs o.gen →
      σ • L.abs o.gen = X + (v.e * keyAggCoeff o H v.L v.second (cbytes o (o.mul d o.gen))
        * (gOf o v.Q * v.gacc % o.n) % o.n) • d • L.abs o.gen := by
    intro X hX
    rw [hX, smul_smul, ← add_smul]
    apply smul_eq_of_cast L
    rw [hσ]
    unfold individualPubKey
    push_cast [cast_mod L, cast_n L, gOf_cast L]
    split <;> split <;> ring
  apply key
  by_cases hev : evenY o v.R = true
  · rw [if_pos hev, if_pos hev]
    rw [L.abs_add, L.abs_mul, hQ1, hQ2, L.abs_mul, L.abs_mul]
    module
  · rw [if_neg hev, if_neg hev]
    rw [L.abs_neg, L.abs_add, L.abs_mul, hQ1, hQ2, L.abs_mul, L.abs_mul]
    module


/-! ### T1: the tweak invariant -/

theorem applyTweak_ok_inv {c c' : KeyAggCtx α} {tweak : Bytes} {x : Bool}
    (h : applyTweak o c tweak x = .ok c') :
    tweak.length = scalarSize ∧ fromBytesBE tweak < o.n ∧
    c'.Q = tweakQ o c (fromBytesBE tweak) x ∧ o.isZero c'.Q = false ∧
    c'.gacc = tweakG o c x * c.gacc % o.n ∧ c'.tacc = (fromBytesBE tweak + tweakG o c x * c.tacc) % o.n := by
  unfold applyTweak at h
  split at h
  · cases h
  split at h
  · cases h
  split at h
  · cases h
  rename_i a1 a2 a3
  cases h
  exact ⟨not_not.mp a1, not_le.mp a2, rfl, by simpa using a3, rfl, rfl⟩

include L in
theorem applyTweak_invariant {c c' : KeyAggCtx α} {tweak : Bytes} {x : Bool} (P0 : α)
    (h : applyTweak o c tweak x = .ok c')
    (h0 : L.abs c.Q = c.gacc • L.abs P0 + c.tacc • L.abs o.gen) :
    L.abs c'.Q = c'.gacc • L.abs P0 + c'.tacc • L.abs o.gen := by
  obtain ⟨-, -, hQ, -, hg, ht⟩ := applyTweak_ok_inv h
  rw [hQ, hg, ht]
  unfold tweakQ
  rw [L.abs_add, L.abs_mul]
  have hn1 : ∀ (m : Int) (P : α), ((o.n - 1) * m % o.n) • L.abs P = -(m • L.abs P) := by
    intro m P
    rw [← neg_smul]
    apply smul_eq_of_cast L
    push_cast [cast_mod L, cast_n L]; ring
  have h1 : ∀ (m : Int) (P : α), (1 * m % o.n) • L.abs P = m • L.abs P := by
    intro m P
    apply smul_eq_of_cast L
    push_cast [cast_mod L]; ring
  have hadd : ∀ (a b : Int) (P : α), ((a + b) % o.n) • L.abs P = a • L.abs P + b • L.abs P := by
    intro a b P
    rw [← add_smul]
    apply smul_eq_of_cast L
    push_cast [cast_mod L]; ring
  unfold tweakG
  by_cases hx : (x && !(evenY o c.Q)) = true
  · simp only [hx, if_true]
    by_cases hn : o.n - 1 = 1
    · -- n = 2: `g == 1` holds although the x-only negation was asked; n-1 = 1 acts as -1 too
      simp only [hn, if_true]
      rw [h0, h1, hadd]
      have : (1 * c.tacc) • L.abs o.gen = c.tacc • L.abs o.gen := by rw [one_mul]
      rw [this]; abel
    · simp only [hn, if_false]
      rw [L.abs_neg, h0, hn1, hadd]
      have : ((o.n - 1) * c.tacc) • L.abs o.gen = -(c.tacc • L.abs o.gen) := by
        rw [← neg_smul]; apply smul_eq_of_cast L; push_cast [cast_n L]; ring
      rw [this]; abel
  · simp only [hx]
    simp only [Bool.false_eq_true, if_false, if_true]
    rw [h0, h1, hadd, one_mul]; abel

include L in
/-- **T1.** Tweak invariant: after any list of plain / x-only tweaks the accumulators satisfy
`Q = gacc•Q₀ + tacc•G`, where `Q₀` is the key before tweaking. -/
theorem applyTweaks_invariant (tw : List (Bytes × Bool)) (c c' : KeyAggCtx α) (P0 : α)
    (h : applyTweaks o c tw = .ok c')
    (h0 : L.abs c.Q = c.gacc • L.abs P0 + c.tacc • L.abs o.gen) :
    L.abs c'.Q = c'.gacc • L.abs P0 + c'.tacc • L.abs o.gen := by
  induction tw generalizing c with
  | nil => simp only [applyTweaks] at h; cases h; exact h0
  | cons hd tl ih =>
    obtain ⟨t, x⟩ := hd
    simp only [applyTweaks] at h
    split at h
    · cases h
    · rename_i c1 hc1
      exact ih c1 h (applyTweak_invariant L P0 hc1 h0)

theorem applyTweaks_nonzero (tw : List (Bytes × Bool)) (c c' : KeyAggCtx α)
    (h : applyTweaks o c tw = .ok c') (h0 : o.isZero c.Q = false) : o.isZero c'.Q = false := by
  induction tw generalizing c with
  | nil => simp only [applyTweaks] at h; cases h; exact h0
  | cons hd tl ih =>
    obtain ⟨t, x⟩ := hd
    simp only [applyTweaks] at h
    split at h
    · cases h
    · rename_i c1 hc1
      exact ih c1 h (applyTweak_ok_inv hc1).2.2.2.1

theorem keyAgg_ok_inv {pks : List Bytes} {c : KeyAggCtx α} (h : keyAgg o H pks = .ok c) :
    keyAggSum o H (hashPubKeys H pks) (secondPubKey pks) pks = .ok c.Q ∧ o.isZero c.Q = false
      ∧ c.gacc = 1 ∧ c.tacc = 0 := by
  unfold keyAgg at h
  split at h
  · cases h
  split at h
  · cases h
  rename_i Q hQ
  split at h
  · cases h
  split at h
  · cases h
  rename_i a2 a3
  cases h
  exact ⟨hQ, by simpa using a3, rfl, rfl⟩

include L in
/-- T1 for `key_agg_and_tweak`: `Q = gacc•Q₀ + tacc•G` with `Q₀` the aggregate of `key_agg`. -/
theorem keyAggAndTweak_invariant {pks : List Bytes} {tw : List (Bytes × Bool)} {c : KeyAggCtx α}
    (h : keyAggAndTweak o H pks tw = .ok c) :
    ∃ c0, keyAgg o H pks = .ok c0 ∧ o.isZero c.Q = false ∧
      L.abs c.Q = c.gacc • L.abs c0.Q + c.tacc • L.abs o.gen := by
  unfold keyAggAndTweak at h
  split at h
  · cases h
  · rename_i c0 hc0
    obtain ⟨-, hz, hg, ht⟩ := keyAgg_ok_inv H hc0
    refine ⟨c0, hc0, applyTweaks_nonzero tw c0 c h hz, applyTweaks_invariant L tw c0 c c0.Q h ?_⟩
    rw [hg, ht]; simp

end
end Btc.C16
