import Proofs.C16.SilentPaymentsE2E
/-
C16 — BIP352: btclib's `output_keys` derives the keys GROUP BY GROUP (groups by scan key in order of first
appearance, `k` counting inside a group) and then puts them back in the order of the addresses
(`positions`, `first`): model `outputKeys`.  Here: whenever that computation answers, its answer IS the
one-walk specification `outputKeysWalk` (recipient `i` gets `output_key(secret(B_scan_i), B_m_i, k_i)`,
`k_i` = number of earlier recipients with that scan key) — the re-ordering puts every key back where
its address was.  With `sp_end_to_end` (about the walk): what `output_keys` creates for an address,
that address's scanner finds.
-/
namespace Btc.C16
open Btc Btc.Py

section
variable {α G : Type} [AddCommGroup G] {o : GroupOps α} (L : LawfulGroup o G)
variable (H : Bytes → Bytes → Bytes)

/-- the `k`-th member of the group of `Bs`, with the group's key -/
def groupNth (o : GroupOps α) (Bs : α) (k : Nat) : List (α × List α) → Option (α × α)
  | [] => none
  | (K, l) :: rest => if o.eq K Bs then (l[k]?).map (fun Bm => (K, Bm)) else groupNth o Bs k rest

include L in
theorem eq_refl' (a : α) : o.eq a a = true := (L.eq_iff a a).mpr rfl

include L in
theorem eq_congr_left {a b : α} (h : o.eq a b = true) (c : α) : o.eq a c = o.eq b c := by
  have h1 := L.eq_iff a c
  have h2 := L.eq_iff b c
  have h3 := (L.eq_iff a b).mp h
  cases ha : o.eq a c <;> cases hb : o.eq b c <;> simp_all

/-- `groupOutputs`: one key per member, the `k`-th member gets counter `k₀ + k` -/
theorem groupOutputs_get (secret : α) (l : List α) (k0 : Nat) (xs : List Bytes)
    (h : groupOutputs o H secret l k0 = .ok xs) :
    xs.length = l.length ∧ ∀ k Bm, l[k]? = some Bm →
      ∃ x, outputKey o H secret Bm (k0 + k) = .ok x ∧ xs[k]? = some x := by
  induction l generalizing k0 xs with
  | nil => simp only [groupOutputs] at h; cases h; simp
  | cons B tl ih =>
    simp only [groupOutputs] at h
    split at h
    · cases h
    rename_i x hx
    split at h
    · cases h
    rename_i rest hrest
    cases h
    obtain ⟨hl, hg⟩ := ih (k0 + 1) rest hrest
    refine ⟨by simp [hl], ?_⟩
    intro k Bm hk
    cases k with
    | zero => simp at hk; subst hk; exact ⟨x, by simpa using hx, by simp⟩
    | succ k =>
      simp at hk
      obtain ⟨y, hy, hy2⟩ := hg k Bm hk
      exact ⟨y, by rw [← hy]; congr 1; omega, by simpa using hy2⟩

/-- Lemma A: the key of the `k`-th member of `Bs`'s group sits at `first[Bs] + k` of the grouped answer -/
theorem allGroupOutputs_getD (ha : Int) (Gs : List (α × List α)) (grouped : List Bytes)
    (h : allGroupOutputs o H ha Gs = .ok grouped) (Bs : α) (k : Nat) (K Bm : α)
    (hn : groupNth o Bs k Gs = some (K, Bm)) :
    o.eq K Bs = true ∧ ∃ x, outputKey o H (o.mul ha K) Bm k = .ok x ∧
      grouped.getD (groupOffset o Bs Gs + k) [] = x := by
  induction Gs generalizing grouped with
  | nil => simp [groupNth] at hn
  | cons g rest ih =>
    obtain ⟨K', l⟩ := g
    simp only [allGroupOutputs] at h
    split at h
    · cases h
    rename_i xs hxs
    split at h
    · cases h
    rename_i ys hys
    cases h
    obtain ⟨hlen, hget⟩ := groupOutputs_get H _ l 0 xs hxs
    simp only [groupNth] at hn
    by_cases he : o.eq K' Bs = true
    · simp only [he, if_true] at hn
      cases hlk : l[k]? with
      | none => simp [hlk] at hn
      | some B =>
        simp only [hlk, Option.map_some, Option.some.injEq, Prod.mk.injEq] at hn
        obtain ⟨rfl, rfl⟩ := hn
        obtain ⟨x, hx, hx2⟩ := hget k B hlk
        refine ⟨he, x, by simpa using hx, ?_⟩
        simp only [groupOffset, he, if_true, Nat.zero_add]
        have hk : k < xs.length := by
          rcases List.getElem?_eq_some_iff.mp hx2 with ⟨hk, _⟩; exact hk
        rw [List.getD_eq_getElem?_getD, List.getElem?_append_left hk, hx2]; rfl
    · have he' : o.eq K' Bs = false := by simpa using he
      simp only [he', Bool.false_eq_true, if_false] at hn
      obtain ⟨h1, x, hx, hx2⟩ := ih ys hys hn
      refine ⟨h1, x, hx, ?_⟩
      simp only [groupOffset, he', Bool.false_eq_true, if_false]
      rw [List.getD_eq_getElem?_getD, List.getElem?_append_right (by omega)]
      have : l.length + groupOffset o Bs rest + k - xs.length = groupOffset o Bs rest + k := by omega
      rw [this, ← List.getD_eq_getElem?_getD]; exact hx2

/-- groups only grow at their end -/
theorem groupNth_insert_mono (Bs : α) (k : Nat) (Bs' Bm : α) (g : List (α × List α)) (p : α × α)
    (h : groupNth o Bs k g = some p) : groupNth o Bs k (insertGroup o Bs' Bm g) = some p := by
  induction g with
  | nil => simp [groupNth] at h
  | cons a rest ih =>
    obtain ⟨K, l⟩ := a
    simp only [insertGroup]
    by_cases h1 : o.eq K Bs' = true
    · simp only [h1, if_true]
      simp only [groupNth] at h ⊢
      by_cases h2 : o.eq K Bs = true
      · simp only [h2, if_true] at h ⊢
        cases hlk : l[k]? with
        | none => simp [hlk] at h
        | some B =>
          have hk : k < l.length := by
            rcases List.getElem?_eq_some_iff.mp hlk with ⟨hk, _⟩; exact hk
          rw [List.getElem?_append_left hk]
          exact h
      · have h2' : o.eq K Bs = false := by simpa using h2
        simp only [h2', Bool.false_eq_true, if_false] at h ⊢
        exact h
    · have h1' : o.eq K Bs' = false := by simpa using h1
      simp only [h1', Bool.false_eq_true, if_false]
      simp only [groupNth] at h ⊢
      by_cases h2 : o.eq K Bs = true
      · simp only [h2, if_true] at h ⊢; exact h
      · have h2' : o.eq K Bs = false := by simpa using h2
        simp only [h2', Bool.false_eq_true, if_false] at h ⊢; exact ih h

theorem groupNth_fold_mono (Bs : α) (k : Nat) (rest : List (α × α)) (g : List (α × List α)) (p : α × α)
    (h : groupNth o Bs k g = some p) :
    groupNth o Bs k (rest.foldl (fun g r => insertGroup o r.1 r.2 g) g) = some p := by
  induction rest generalizing g with
  | nil => exact h
  | cons r tl ih => exact ih _ (groupNth_insert_mono Bs k r.1 r.2 g p h)

include L in
/-- the member just appended is the `len(group)`-th of its group -/
theorem groupNth_insert_new (Bs' Bm : α) (g : List (α × List α)) :
    ∃ K, groupNth o Bs' (groupLen o Bs' g) (insertGroup o Bs' Bm g) = some (K, Bm) := by
  induction g with
  | nil => exact ⟨Bs', by simp [insertGroup, groupNth, groupLen, eq_refl' L]⟩
  | cons a rest ih =>
    obtain ⟨K, l⟩ := a
    by_cases h1 : o.eq K Bs' = true
    · exact ⟨K, by simp [insertGroup, groupNth, groupLen, h1]⟩
    · obtain ⟨K2, hK2⟩ := ih
      exact ⟨K2, by simpa [insertGroup, groupNth, groupLen, h1] using hK2⟩

include L in
/-- `len(group)` after one more address -/
theorem groupLen_insert (Bs Bs' Bm : α) (g : List (α × List α)) :
    groupLen o Bs (insertGroup o Bs' Bm g) = groupLen o Bs g + (if o.eq Bs' Bs then 1 else 0) := by
  induction g with
  | nil => simp [insertGroup, groupLen]
  | cons a rest ih =>
    obtain ⟨K, l⟩ := a
    by_cases h1 : o.eq K Bs' = true
    · have h2 := eq_congr_left L h1 Bs
      simp only [insertGroup, h1, if_true, groupLen, h2]
      split <;> simp
    · have h1' : o.eq K Bs' = false := by simpa using h1
      simp only [insertGroup, h1', Bool.false_eq_true, if_false, groupLen]
      by_cases h3 : o.eq K Bs = true
      · have h4 : o.eq Bs' Bs = false := by
          cases h5 : o.eq Bs' Bs with
          | false => rfl
          | true =>
            exfalso; apply h1
            have := (L.eq_iff K Bs).mp h3
            have := (L.eq_iff Bs' Bs).mp h5
            exact (L.eq_iff K Bs').mpr (by simp_all)
        simp [h3, h4]
      · have h3' : o.eq K Bs = false := by simpa using h3
        simp only [h3', Bool.false_eq_true, if_false]; exact ih

include L in
theorem groupLen_fold (Bs : α) (rest before : List (α × α)) (g : List (α × List α))
    (hinv : ∀ Bs, groupLen o Bs g = countScan o Bs before) :
    groupLen o Bs (rest.foldl (fun g r => insertGroup o r.1 r.2 g) g) = countScan o Bs (before ++ rest) := by
  induction rest generalizing before g with
  | nil => simpa using hinv Bs
  | cons r tl ih =>
    have := ih (before ++ [r]) (insertGroup o r.1 r.2 g) (fun B => by
      rw [groupLen_insert L, countScan_append, hinv])
    simpa using this

theorem groupLen_le (Bs : α) (g : List (α × List α)) (m : Nat)
    (h : g.any (fun g => g.2.length > m) = false) : groupLen o Bs g ≤ m := by
  induction g with
  | nil => simp [groupLen]
  | cons a rest ih =>
    obtain ⟨K, l⟩ := a
    simp only [List.any_cons, Bool.or_eq_false_iff, decide_eq_false_iff_not] at h
    simp only [groupLen]
    split
    · omega
    · exact ih h.2

theorem outputKey_congr {s1 s2 : α} (h : cbytes o s1 = cbytes o s2) (Bm : α) (k : Nat) :
    outputKey o H s1 Bm k = outputKey o H s2 Bm k := by
  unfold outputKey outputTweak; rw [h]

include L in
/-- the re-ordering: reading the grouped keys at `first[B_scan] + k` along `positions` is the walk in address order -/
theorem senderWalk_of_grouped (ha : Int) (hha : 0 < ha ∧ ha < o.n) (rest before : List (α × α))
    (g : List (α × List α)) (hinv : ∀ Bs, groupLen o Bs g = countScan o Bs before)
    (hnz : ∀ r ∈ rest, L.abs r.1 ≠ 0) (grouped : List Bytes)
    (hg : allGroupOutputs o H ha (rest.foldl (fun g r => insertGroup o r.1 r.2 g) g) = .ok grouped) :
    senderWalk o H ha before rest = .ok ((positionsOf o rest g).map fun pos =>
      grouped.getD (groupOffset o pos.1 (rest.foldl (fun g r => insertGroup o r.1 r.2 g) g) + pos.2) []) := by
  induction rest generalizing before g with
  | nil => simp [senderWalk, positionsOf]
  | cons r tl ih =>
    simp only [List.foldl_cons] at hg ⊢
    obtain ⟨K, hK⟩ := groupNth_insert_new L r.1 r.2 g
    have hK' := groupNth_fold_mono r.1 _ tl _ _ hK
    obtain ⟨hKe, x, hx, hx2⟩ := allGroupOutputs_getD H ha _ grouped hg r.1 _ K r.2 hK'
    have habs : L.abs (o.mul ha K) = L.abs (o.mul ha r.1) := by
      rw [L.abs_mul, L.abs_mul, (L.eq_iff K r.1).mp hKe]
    have hne : L.abs (o.mul ha K) ≠ 0 := by
      rw [L.abs_mul, (L.eq_iff K r.1).mp hKe]
      exact LG.smul_ne_zero L hha.1 hha.2 r.1 (hnz r List.mem_cons_self)
    rw [outputKey_congr H (LG.cbytes_congr L habs hne), hinv] at hx
    have hih := ih (before ++ [r]) (insertGroup o r.1 r.2 g)
      (fun B => by rw [groupLen_insert L, countScan_append, hinv])
      (fun q hq => hnz q (List.mem_cons_of_mem _ hq)) hg
    simp only [senderWalk, hx, hih, positionsOf, List.map_cons, hx2]

include L in
/-- **`output_keys` is the walk.** Whenever btclib's group-then-reorder computation answers (addresses carry points
of the curve, never infinity: `hnz`), the one-walk specification answers the same keys in the same order. -/
theorem outputKeys_is_walk (keys : List (Int × Bool)) (outpoints : List Bytes) (recips : List (α × α))
    (hnz : ∀ r ∈ recips, L.abs r.1 ≠ 0) (outs : List Bytes)
    (h : outputKeys o H keys outpoints recips = .ok outs) :
    outputKeysWalk o H keys outpoints recips = .ok outs := by
  unfold outputKeys at h
  unfold outputKeysWalk
  split at h
  · cases h
  rename_i a ha
  split at h
  · cases h
  rename_i lowest hl
  split at h
  · cases h
  rename_i hh hih
  split at h
  · cases h
  rename_i hk
  split at h
  · cases h
  rename_i hs
  split at h
  · cases h
  rename_i grouped hgr
  cases h
  have hk' : (groupsOf o recips).any (fun g => g.2.length > Gen.Interactive.SP_K_MAX) = false := by
    simpa using hk
  have hany : recips.any (fun r => countScan o r.1 recips > Gen.Interactive.SP_K_MAX) = false := by
    rw [List.any_eq_false]
    intro r _
    have h1 := groupLen_fold L r.1 recips [] [] (fun B => by simp [groupLen, countScan])
    have h2 := groupLen_le (o := o) r.1 (groupsOf o recips) _ hk'
    simp only [List.nil_append] at h1
    unfold groupsOf at h2
    rw [h1] at h2
    simpa using h2
  have hs' : scalarOk o (hh * a % o.n) = true := by simpa using hs
  rw [if_neg (by simp [hany]), if_neg (by simp [hs'])]
  have hha := (scalarOk_iff (o := o) _).mp hs'
  exact senderWalk_of_grouped L H _ hha recips [] [] (fun B => by simp [groupLen, countScan]) hnz grouped hgr

end

section
variable {α G : Type} [AddCommGroup G] {o : GroupOps α} (L : LawfulGroup o G)
variable (H : Bytes → Bytes → Bytes)

include L in
/-- **T9, end to end, on `output_keys` as btclib computes it** (`outputKeys`: group by scan key, derive group by group,
re-order into address order): `sp_end_to_end` through `outputKeys_is_walk`. -/
theorem sp_end_to_end_output_keys (keys : List (Int × Bool)) (outpoints : List Bytes) (recips : List (α × α))
    (hnz : ∀ r ∈ recips, L.abs r.1 ≠ 0) (outs : List Bytes)
    (hsend : outputKeys o H keys outpoints recips = .ok outs)
    (bScan : Int) (hb : 0 < bScan ∧ bScan < o.n) (Bspend : α)
    (hrec : ∀ r ∈ recips, o.eq r.1 (o.mul bScan o.gen) = true → r = (o.mul bScan o.gen, Bspend))
    (txOuts : List Bytes) (hsub : outs.Subperm txOuts) (res : List (Bytes × Int))
    (hscan : scanTransactionOutputs o H bScan Bspend outpoints (keys.map fun k => spInputPoint o k.1 k.2) txOuts []
      = .ok res) :
    ∃ exp, exp <+: res ∧ exp.map Prod.fst = mine o (o.mul bScan o.gen) outs recips :=
  sp_end_to_end L H keys outpoints recips outs (outputKeys_is_walk L H keys outpoints recips hnz outs hsend)
    bScan hb Bspend hrec txOuts hsub res hscan

end
end Btc.C16
