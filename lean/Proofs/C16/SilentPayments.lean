import Proofs.C16.Dleq
import Model.C16.SilentPayments
/-
C16 — BIP352 proofs (T9): sender and scanner derive the same input hash, shared secret and tweaks
(taproot inputs negated to even y); the scanner's step-k logic finds the sender's k-th output,
labelled or not; everything the scanner reports is in the transaction and is opened by
`b_spend + tweak`.
-/
namespace Btc.C16
open Btc Btc.Py

section
variable {α G : Type} [AddCommGroup G] {o : GroupOps α} (L : Lawful o G)
variable (H : Bytes → Bytes → Bytes)

/-- the public key the scanner is given for an input: the key itself, or for a taproot input the
even-y point of its x-only key -/
def spInputPoint (o : GroupOps α) (a : Int) (taproot : Bool) : α :=
  if taproot && !(evenY o (o.mul a o.gen)) then o.neg (o.mul a o.gen) else o.mul a o.gen

include L in
theorem abs_spInputPoint (a : Int) (tr : Bool) :
    L.abs (spInputPoint o a tr) = spInputKey o a tr • L.abs o.gen := by
  unfold spInputPoint spInputKey
  split
  · rw [L.abs_neg, L.abs_mul, sub_smul, L.order, zero_sub]
  · rw [L.abs_mul]

include L in
theorem prvKeySumAux_spec (keys : List (Int × Bool)) (t r : Int)
    (h : prvKeySumAux o keys t = .ok r) :
    r • L.abs o.gen = t • L.abs o.gen
      + L.abs (sumPoints o (keys.map fun k => spInputPoint o k.1 k.2)) ∧ (keys ≠ [] → 0 ≤ r ∧ r < o.n) := by
  induction keys generalizing t with
  | nil =>
    simp only [prvKeySumAux] at h; cases h
    simp [sumPoints, L.abs_zero]
  | cons k tl ih =>
    obtain ⟨a, tr⟩ := k
    simp only [prvKeySumAux] at h
    split at h
    · cases h
    · obtain ⟨h1, h2⟩ := ih _ h
      refine ⟨?_, fun _ => ?_⟩
      · rw [h1, L.zsmul_mod, add_smul, List.map_cons, sumPoints, L.abs_add, abs_spInputPoint L]
        abel
      · cases tl with
        | nil =>
          simp only [prvKeySumAux] at h; cases h
          exact ⟨Int.emod_nonneg _ (ne_of_gt L.n_pos), Int.emod_lt_of_pos _ L.n_pos⟩
        | cons _ _ => exact h2 (by simp)

include L in
/-- **T9 (inputs).** The scanner's public-key sum is the sender's private-key sum times `G`:
taproot inputs are negated to even y on both sides. -/
theorem pubKeySum_of_prvKeySum (keys : List (Int × Bool)) (a : Int) (h : prvKeySum o keys = .ok a) :
    0 < a ∧ a < o.n ∧
    ∃ A, pubKeySum o (keys.map fun k => spInputPoint o k.1 k.2) = .ok A ∧ L.abs A = a • L.abs o.gen
      ∧ L.abs A ≠ 0 := by
  unfold prvKeySum at h
  split at h
  · cases h
  rename_i total ht
  split at h
  · cases h
  rename_i hne
  cases h
  obtain ⟨h1, h2⟩ := prvKeySumAux_spec L keys 0 a ht
  have hk : keys ≠ [] := by
    intro hk; subst hk; simp only [prvKeySumAux] at ht; cases ht; exact hne rfl
  obtain ⟨h0, hlt⟩ := h2 hk
  have hpos : 0 < a := lt_of_le_of_ne h0 (Ne.symm hne)
  rw [zero_smul, zero_add] at h1
  have hA : L.abs (sumPoints o (keys.map fun k => spInputPoint o k.1 k.2)) ≠ 0 := by
    rw [← h1]; exact smul_ne_zero L hpos hlt _ L.gen_ne_zero
  refine ⟨hpos, hlt, _, ?_, h1.symm, hA⟩
  unfold pubKeySum
  rw [isZero_false_of_ne L hA]; simp

include L in
/-- **T9 (agreement).** Sender and scanner compute the same input hash and, for a recipient whose
scan key is `B_scan = b_scan•G`, the same shared secret — hence the same tweaks `t_k` for every `k`. -/
theorem sp_agreement (keys : List (Int × Bool)) (a : Int) (h : prvKeySum o keys = .ok a)
    (A : α) (hA : pubKeySum o (keys.map fun k => spInputPoint o k.1 k.2) = .ok A)
    (lowest : Bytes) (hh : Int) (hih : inputHash o H lowest (o.mul a o.gen) = .ok hh)
    (bScan : Int) (hb : 0 < bScan ∧ bScan < o.n) :
    inputHash o H lowest A = .ok hh ∧
    ∀ k, outputTweak o H (o.mul (hh * a % o.n) (o.mul bScan o.gen)) k
        = outputTweak o H (o.mul bScan (o.mul hh A)) k := by
  obtain ⟨ha0, ha1, A', hA', hAa, hAn⟩ := pubKeySum_of_prvKeySum L keys a h
  rw [hA] at hA'; cases hA'
  have hcb : cbytes o (o.mul a o.gen) = cbytes o A :=
    cbytes_congr L (by rw [L.abs_mul, hAa]) (by rw [L.abs_mul, ← hAa]; exact hAn)
  have hih' : inputHash o H lowest A = .ok hh := by
    unfold inputHash at hih ⊢; rw [← hcb]; exact hih
  refine ⟨hih', fun k => ?_⟩
  have hh_range : 0 < hh ∧ hh < o.n := by
    unfold inputHash spScalar at hih
    split at hih
    · rename_i hs; cases hih; exact (scalarOk_iff _).mp hs
    · cases hih
  have hsec : L.abs (o.mul (hh * a % o.n) (o.mul bScan o.gen)) = L.abs (o.mul bScan (o.mul hh A)) := by
    rw [L.abs_mul, L.abs_mul, L.abs_mul, L.abs_mul, hAa, smul_smul, smul_smul, smul_smul]
    apply smul_eq_of_cast L
    push_cast [cast_mod L]; ring
  have hne : L.abs (o.mul (hh * a % o.n) (o.mul bScan o.gen)) ≠ 0 := by
    rw [hsec]
    have h1 : L.abs (o.mul hh A) ≠ 0 := by
      rw [L.abs_mul]; exact smul_ne_zero L hh_range.1 hh_range.2 A hAn
    rw [L.abs_mul]; exact smul_ne_zero L hb.1 hb.2 _ h1
  unfold outputTweak
  rw [cbytes_congr L hsec hne]

/-! ### what the scanner reports is spendable -/

/-- a label map as `label_lookup` builds it: each key is the compressed encoding of `ℓ•G ≠ ∞` for
its value `ℓ` -/
def LabelsOk (o : GroupOps α) (L : Lawful o G) (labels : List (Bytes × Int)) : Prop :=
  ∀ kv ∈ labels, ∃ P : α, kv.1 = cbytes o P ∧ L.abs P = kv.2 • L.abs o.gen ∧ L.abs P ≠ 0

theorem lookupLabel_mem {key : Bytes} {labels : List (Bytes × Int)} {v : Int}
    (h : lookupLabel key labels = some v) : (key, v) ∈ labels := by
  induction labels with
  | nil => simp [lookupLabel] at h
  | cons kv tl ih =>
    obtain ⟨k, w⟩ := kv
    simp only [lookupLabel] at h
    split at h
    · rename_i hk; cases h; subst hk; exact List.mem_cons_self
    · exact List.mem_cons_of_mem _ (ih h)

theorem lookupLabel_some_of_mem {key : Bytes} {labels : List (Bytes × Int)} {v : Int}
    (h : (key, v) ∈ labels) : ∃ w, lookupLabel key labels = some w := by
  induction labels with
  | nil => cases h
  | cons kv tl ih =>
    obtain ⟨k, w⟩ := kv
    simp only [lookupLabel]
    split
    · exact ⟨w, rfl⟩
    · rename_i hk
      rcases List.mem_cons.mp h with h | h
      · cases h; exact absurd rfl hk
      · exact ih h

include L in
/-- compressed encodings identify non-zero elements -/
theorem cbytes_inj (hp : o.p ≤ 256 ^ 32) {P Q : α} (hP : L.abs P ≠ 0) (hQ : L.abs Q ≠ 0)
    (h : cbytes o P = cbytes o Q) : L.abs P = L.abs Q := by
  unfold cbytes at h
  have hpre := (List.cons.inj h).1
  have hx := (List.cons.inj h).2
  have hxe : o.x P = o.x Q := by
    have r1 := L.x_range P hP
    have r2 := L.x_range Q hQ
    have e1 := ofBE_sBytes r1.1 (show o.x P < 256 ^ 32 by omega)
    have e2 := ofBE_sBytes r2.1 (show o.x Q < 256 ^ 32 by omega)
    rw [← e1, ← e2, hx]
  have hev : evenY o P = evenY o Q := by
    cases h1 : evenY o P <;> cases h2 : evenY o Q <;> simp [h1, h2] at hpre <;> rfl
  rcases (L.x_eq_iff P Q hP hQ).mp hxe with h1 | h1
  · exact h1
  · exfalso
    have hn : L.abs P = L.abs (o.neg Q) := by rw [L.abs_neg]; exact h1
    have c := L.y_congr P (o.neg Q) hn hP
    have d := L.y_neg Q hQ
    have eP := evenY_iff (o := o) P
    have eQ := evenY_iff (o := o) Q
    cases h2 : evenY o Q with
    | true =>
      rw [h2] at hev
      have : o.y Q % 2 = 0 := eQ.mp h2
      exact (d.mp (c.mp (eP.mp hev))) this
    | false =>
      rw [h2] at hev
      have hq : ¬ o.y Q % 2 = 0 := fun hq => by rw [eQ.mpr hq] at h2; cases h2
      have hpn : ¬ o.y P % 2 = 0 := fun hq' => by rw [eP.mpr hq'] at hev; cases hev
      exact hpn (c.mpr (d.mpr hq))

include L in
/-- one step of the scan, soundness: a match on `out` reports `out` itself as the key, and a tweak
`tw` such that `(b_spend + tw)•G` is a non-zero point whose x-coordinate is that key. -/
theorem findMatch_sound (hp : o.p ≤ 256 ^ 32) (labels : List (Bytes × Int)) (hlab : LabelsOk o L labels)
    (Pk : α) (c tk : Int) (hPk : L.abs Pk = (c + tk) • L.abs o.gen) (hPk0 : L.abs Pk ≠ 0)
    (rem : List Bytes) (hlen : ∀ x ∈ rem, x.length = 32)
    (out x : Bytes) (tw : Int)
    (h : findMatch o Pk (sBytes (o.x Pk)) tk labels rem = .ok (some (out, (x, tw)))) :
    out ∈ rem ∧ x = out ∧ ∃ P : α, L.abs P = (c + tw) • L.abs o.gen ∧ L.abs P ≠ 0 ∧ sBytes (o.x P) = x := by
  induction rem with
  | nil => simp [findMatch] at h
  | cons y tl ih =>
    have ihl := fun hh => ih (fun z hz => hlen z (List.mem_cons_of_mem _ hz)) hh
    have mem_tl : ∀ {p : Prop}, (out ∈ tl ∧ p) → (out ∈ y :: tl ∧ p) :=
      fun hh => ⟨List.mem_cons_of_mem _ hh.1, hh.2⟩
    simp only [findMatch] at h
    split at h
    · rename_i hxy
      simp only [Except.ok.injEq, Option.some.injEq, Prod.mk.injEq] at h
      obtain ⟨h1, h2, h3⟩ := h
      subst h1 h2 h3
      exact ⟨List.mem_cons_self, hxy, Pk, hPk, hPk0, rfl⟩
    split at h
    · exact mem_tl (ihl h)
    split at h
    · cases h
    · exact mem_tl (ihl h)
    · rename_i Pkm lab hl
      split at h
      · cases h
      rename_i xx hxx
      simp only [Except.ok.injEq, Option.some.injEq, Prod.mk.injEq] at h
      obtain ⟨h1, h2, h3⟩ := h
      subst h1 h2 h3
      -- unfold `labelled`
      have hylen : y.length = 32 := hlen y List.mem_cons_self
      unfold labelled at hl
      split at hl
      · cases hl
      rename_i cand hcand
      obtain ⟨hc0, hcx, -⟩ := L.liftX_some _ _ hcand
      have hsb : sBytes (o.x cand) = y := by
        rw [hcx]; unfold sBytes fromBytesBE
        rw [Int.toNat_natCast, scalarSize_eq, ← hylen]; exact beBytes_ofBE y
      have fin : ∀ (lp : α) (twv : Int), lookupLabel (cbytes o lp) labels = some twv → L.abs lp ≠ 0 →
          (L.abs (o.add Pk lp) = L.abs cand ∨ L.abs (o.add Pk lp) = - L.abs cand) →
          xOnly o (o.add Pk lp) = .ok xx →
          xx = y ∧ ∃ P : α, L.abs P = (c + (tk + twv) % o.n) • L.abs o.gen ∧ L.abs P ≠ 0 ∧ sBytes (o.x P) = xx := by
        intro lp twv hlk hlp0 hor hxo
        obtain ⟨Lp, hkey, hLa, hL0⟩ := hlab _ (lookupLabel_mem hlk)
        have hlpabs : L.abs lp = twv • L.abs o.gen := by
          rw [← hLa]; exact cbytes_inj L hp hlp0 hL0 hkey
        have hsum0 : L.abs (o.add Pk lp) ≠ 0 := by
          rcases hor with h1 | h1 <;> rw [h1]
          · exact hc0
          · exact neg_ne_zero.mpr hc0
        have hxe : o.x (o.add Pk lp) = o.x cand := by
          rcases hor with h1 | h1
          · exact x_congr L h1 hsum0
          · have : L.abs (o.add Pk lp) = L.abs (o.neg cand) := by rw [L.abs_neg]; exact h1
            rw [x_congr L this hsum0, L.x_neg]
        unfold xOnly at hxo
        rw [isZero_false_of_ne L hsum0] at hxo
        simp only [Bool.false_eq_true, if_false, Except.ok.injEq] at hxo
        refine ⟨by rw [← hxo, hxe, hsb], o.add Pk lp, ?_, hsum0, hxo⟩
        rw [L.abs_add, hPk, hlpabs, ← add_smul]
        apply smul_eq_of_cast L
        push_cast [cast_mod L]; ring
      dsimp only at hl
      split at hl
      · cases hl
      rename_i hz1
      split at hl
      · rename_i tw1 hlk1
        simp only [Except.ok.injEq, Option.some.injEq, Prod.mk.injEq] at hl
        obtain ⟨rfl, rfl⟩ := hl
        have hl0 : L.abs (o.add cand (o.neg Pk)) ≠ 0 := fun h0 => hz1 ((L.isZero_iff _).mpr h0)
        obtain ⟨e1, e2⟩ := fin _ _ hlk1 hl0 (Or.inl (by rw [L.abs_add, L.abs_add, L.abs_neg]; abel)) hxx
        exact ⟨List.mem_cons_self, e1, e2⟩
      · split at hl
        · cases hl
        rename_i hz2
        split at hl
        · rename_i tw2 hlk2
          simp only [Except.ok.injEq, Option.some.injEq, Prod.mk.injEq] at hl
          obtain ⟨rfl, rfl⟩ := hl
          have hl0 : L.abs (o.add (o.neg cand) (o.neg Pk)) ≠ 0 := fun h0 => hz2 ((L.isZero_iff _).mpr h0)
          obtain ⟨e1, e2⟩ := fin _ _ hlk2 hl0
            (Or.inr (by rw [L.abs_add, L.abs_add, L.abs_neg, L.abs_neg]; abel)) hxx
          exact ⟨List.mem_cons_self, e1, e2⟩
        · cases hl


theorem xOnly_ok_inv {P : α} {x : Bytes} (h : xOnly o P = .ok x) : o.isZero P = false ∧ x = sBytes (o.x P) := by
  unfold xOnly at h
  split at h
  · cases h
  · rename_i hz; cases h; exact ⟨by simpa using hz, rfl⟩

include L in
/-- **T9 (soundness of the scan loop).** Every entry `(key, tweak)` the scan reports is one of the
outputs it was given, and `(b_spend + tweak)•G` is a non-zero point whose x-coordinate is that key. -/
theorem scanLoop_sound (hp : o.p ≤ 256 ^ 32) (labels : List (Bytes × Int)) (hlab : LabelsOk o L labels)
    (bSpend : Int) (Bspend secret : α) (hB : L.abs Bspend = bSpend • L.abs o.gen)
    (fuel k : Nat) (rem : List Bytes) (hlen : ∀ x ∈ rem, x.length = 32) (res : List (Bytes × Int))
    (h : scanLoop o H secret Bspend labels fuel k rem = .ok res) :
    ∀ e ∈ res, e.1 ∈ rem ∧ ∃ P : α, L.abs P = (bSpend + e.2) • L.abs o.gen ∧ L.abs P ≠ 0
      ∧ sBytes (o.x P) = e.1 := by
  induction fuel generalizing k rem res with
  | zero => simp only [scanLoop] at h; cases h; intro e he; cases he
  | succ f ih =>
    simp only [scanLoop] at h
    split at h
    · cases h
    rename_i tk htk
    split at h
    · cases h
    rename_i xPk hxPk
    obtain ⟨hz, hxe⟩ := xOnly_ok_inv hxPk
    subst hxe
    have hPk : L.abs (o.add Bspend (o.mul tk o.gen)) = (bSpend + tk) • L.abs o.gen := by
      rw [L.abs_add, L.abs_mul, hB, add_smul]
    have hPk0 : L.abs (o.add Bspend (o.mul tk o.gen)) ≠ 0 := by
      intro h0; rw [(L.isZero_iff _).mpr h0] at hz; cases hz
    split at h
    · cases h
    · cases h; intro e he; cases he
    · rename_i out found hfm
      split at h
      · cases h
      rename_i rest hrest
      cases h
      obtain ⟨x, tw⟩ := found
      obtain ⟨hm, hxo, P, hPa, hP0, hPx⟩ :=
        findMatch_sound L hp labels hlab _ bSpend tk hPk hPk0 rem hlen out x tw hfm
      intro e he
      rcases List.mem_cons.mp he with rfl | he
      · exact ⟨by rw [hxo]; exact hm, P, hPa, hP0, hPx⟩
      · have hlen' : ∀ z ∈ rem.erase out, z.length = 32 := fun z hz => hlen z (List.mem_of_mem_erase hz)
        obtain ⟨h1, h2⟩ := ih (k + 1) (rem.erase out) hlen' rest hrest e he
        exact ⟨List.mem_of_mem_erase h1, h2⟩

include L in
/-- T9 for the public entry point `scan_outputs` -/
theorem scanOutputs_sound (hp : o.p ≤ 256 ^ 32) (labels : List (Bytes × Int)) (hlab : LabelsOk o L labels)
    (bScan bSpend : Int) (Bspend T : α) (hB : L.abs Bspend = bSpend • L.abs o.gen)
    (outputs : List Bytes) (res : List (Bytes × Int))
    (h : scanOutputs o H bScan Bspend T outputs labels = .ok res) :
    ∀ e ∈ res, e.1 ∈ outputs ∧ ∃ P : α, L.abs P = (bSpend + e.2) • L.abs o.gen ∧ L.abs P ≠ 0
      ∧ sBytes (o.x P) = e.1 := by
  unfold scanOutputs at h
  split at h
  · cases h
  split at h
  · cases h
  rename_i hany
  have hlen : ∀ x ∈ outputs, x.length = 32 := by
    intro x hx
    by_contra hne
    apply hany
    rw [List.any_eq_true]
    exact ⟨x, hx, by rw [scalarSize_eq]; exact decide_eq_true hne⟩
  exact scanLoop_sound L H hp labels hlab bSpend Bspend _ hB _ 0 outputs hlen res h


/-! ### BIP375: the sum of the per-input shares is the share of the summed key -/

include L in
theorem abs_sum_inputShares (keys : List (Int × Bool)) (Bscan : α) :
    L.abs (sumPoints o (inputShares o keys Bscan))
      = (keys.map fun k => spInputKey o k.1 k.2).sum • L.abs Bscan := by
  induction keys with
  | nil => simp [inputShares, sumPoints, L.abs_zero]
  | cons k tl ih =>
    unfold inputShares at ih ⊢
    simp only [List.map_cons, sumPoints, L.abs_add, L.abs_mul, ih, List.sum_cons, add_smul]

include L in
theorem prvKeySumAux_sum (keys : List (Int × Bool)) (t r : Int) (h : prvKeySumAux o keys t = .ok r)
    (P : α) : r • L.abs P = (t + (keys.map fun k => spInputKey o k.1 k.2).sum) • L.abs P := by
  induction keys generalizing t with
  | nil => simp only [prvKeySumAux] at h; cases h; simp
  | cons k tl ih =>
    obtain ⟨a, tr⟩ := k
    simp only [prvKeySumAux] at h
    split at h
    · cases h
    · rw [ih _ h, List.map_cons, List.sum_cons]
      apply smul_eq_of_cast L
      push_cast [cast_mod L]; ring

include L in
/-- **T9 (BIP375 shares).** For ANY list of input keys — repeated keys included: two or three inputs
locked to one key contribute equal shares and every one of them counts — the sum of the per-input
ECDH shares `aᵢ•B_scan` is `a•B_scan` for `a = prv_key_sum`, so `pub_key_sum` of the shares answers
(non-zero) and the secret the PSBT roles derive from it, `h•Σ shares`, is the sender's `(h·a)•B_scan`:
same tweaks `t_k`, same outputs as `output_keys`. -/
theorem sp_share_sum (keys : List (Int × Bool)) (a : Int) (h : prvKeySum o keys = .ok a)
    (Bscan : α) (hB : L.abs Bscan ≠ 0) (hh : Int) (hh0 : 0 < hh) (hh1 : hh < o.n) :
    ∃ S, pubKeySum o (inputShares o keys Bscan) = .ok S ∧ L.abs S = a • L.abs Bscan ∧
      ∀ k, outputTweak o H (o.mul hh S) k = outputTweak o H (o.mul (hh * a % o.n) Bscan) k := by
  obtain ⟨ha0, ha1, -⟩ := pubKeySum_of_prvKeySum L keys a h
  have hsum : L.abs (sumPoints o (inputShares o keys Bscan)) = a • L.abs Bscan := by
    rw [abs_sum_inputShares L]
    unfold prvKeySum at h
    split at h
    · cases h
    rename_i total ht
    split at h
    · cases h
    cases h
    have := prvKeySumAux_sum L keys 0 a ht Bscan
    rw [zero_add] at this
    exact this.symm
  have hne : L.abs (sumPoints o (inputShares o keys Bscan)) ≠ 0 := by
    rw [hsum]; exact smul_ne_zero L ha0 ha1 _ hB
  refine ⟨_, ?_, hsum, fun k => ?_⟩
  · unfold pubKeySum; rw [isZero_false_of_ne L hne]; simp
  · have hsec : L.abs (o.mul hh (sumPoints o (inputShares o keys Bscan)))
        = L.abs (o.mul (hh * a % o.n) Bscan) := by
      rw [L.abs_mul, L.abs_mul, hsum, smul_smul]
      apply smul_eq_of_cast L
      push_cast [cast_mod L]; ring
    have hne2 : L.abs (o.mul hh (sumPoints o (inputShares o keys Bscan))) ≠ 0 := by
      rw [L.abs_mul]; exact smul_ne_zero L hh0 hh1 _ hne
    unfold outputTweak
    rw [cbytes_congr L hsec hne2]

end
end Btc.C16
