import Proofs.C16.SilentPayments
import Mathlib.Data.List.Perm.Subperm
/-
C16 — BIP352 completeness of the scan walk for an UNLABELLED wallet: every output of the sender's
chain `x(B_spend + t_k•G)`, k = k₀, k₀+1, …, present among the transaction outputs (decoys and other
recipients' outputs allowed, any order), is reported, in order, with its tweak `t_k`.
-/
namespace Btc.C16
open Btc Btc.Py

section
variable {α : Type} {o : GroupOps α} (H : Bytes → Bytes → Bytes)

/-- the sender's outputs for one recipient from counter `k` on: `(x(B_spend + t_k•G), t_k), …` -/
inductive SpChain (o : GroupOps α) (H : Bytes → Bytes → Bytes) (secret Bspend : α) :
    Nat → List (Bytes × Int) → Prop
  | nil (k : Nat) : SpChain o H secret Bspend k []
  | cons {k : Nat} {t : Int} {x : Bytes} {tl : List (Bytes × Int)} :
      outputTweak o H secret k = .ok t → xOnly o (o.add Bspend (o.mul t o.gen)) = .ok x →
      SpChain o H secret Bspend (k + 1) tl → SpChain o H secret Bspend k ((x, t) :: tl)

theorem findMatch_unlabelled (Pk : α) (xPk : Bytes) (tk : Int) (rem : List Bytes) (h : xPk ∈ rem) :
    findMatch o Pk xPk tk [] rem = .ok (some (xPk, (xPk, tk))) := by
  induction rem with
  | nil => cases h
  | cons y tl ih =>
    simp only [findMatch]
    by_cases hy : xPk = y
    · subst hy; simp
    · rcases List.mem_cons.mp h with h | h
      · exact absurd h hy
      · simp [hy, ih h]

/-- **T9 (completeness, unlabelled).** -/
theorem scanLoop_complete_unlabelled (secret Bspend : α) (exp : List (Bytes × Int)) (k fuel : Nat)
    (hch : SpChain o H secret Bspend k exp) (hfuel : exp.length ≤ fuel) (rem : List Bytes)
    (hsub : (exp.map Prod.fst).Subperm rem) (res : List (Bytes × Int))
    (h : scanLoop o H secret Bspend [] fuel k rem = .ok res) : exp <+: res := by
  induction hch generalizing fuel rem res with
  | nil k => exact List.nil_prefix
  | @cons k t x tl ht hx _ ih =>
    cases fuel with
    | zero => simp at hfuel
    | succ f =>
      have hmem : x ∈ rem := hsub.subset (by simp)
      simp only [scanLoop, ht, hx, findMatch_unlabelled _ _ _ _ hmem] at h
      split at h
      · cases h
      · rename_i rest hrest
        cases h
        have hsub' : (tl.map Prod.fst).Subperm (rem.erase x) := by
          have := hsub.erase x
          simpa using this
        exact List.prefix_cons_inj _ |>.mpr (ih f (by simpa using hfuel) _ hsub' rest hrest)


/-- the sender side of the chain: `output_keys`' derivation for ONE group — `j` payments to the SAME
address `B_spend` under the group's secret, `k` counting from `k₀` (`groupOutputs`, the loop
`output_key(secret, B_m, k) for k, B_m in enumerate(B_m_values)`) — produces exactly a chain `SpChain`:
the counter advances by one per repeated recipient, and each key is `x(B_spend + t_k•G)`. -/
theorem groupOutputs_chain (secret Bspend : α) (j k : Nat) (xs : List Bytes)
    (h : groupOutputs o H secret (List.replicate j Bspend) k = .ok xs) :
    ∃ exp, exp.map Prod.fst = xs ∧ exp.length = j ∧ SpChain o H secret Bspend k exp := by
  induction j generalizing k xs with
  | zero =>
    simp only [List.replicate, groupOutputs] at h; cases h
    exact ⟨[], rfl, rfl, .nil k⟩
  | succ j ih =>
    simp only [List.replicate, groupOutputs] at h
    split at h
    · cases h
    rename_i x hx
    split at h
    · cases h
    rename_i rest hrest
    cases h
    obtain ⟨exp, he, hl, hc⟩ := ih (k + 1) rest hrest
    unfold outputKey at hx
    split at hx
    · cases hx
    rename_i t ht
    exact ⟨(x, t) :: exp, by simp [he], by simp [hl], .cons ht hx hc⟩

end
end Btc.C16
