import Proofs.C16.Ecies
import Proofs.C16.ToyExamples
/-
C16 — non-vacuity of the ECIES theorems: an envelope `encrypt` actually answers, on the lawful group ℤ/3
(`Proofs/C12/Toy.lean`), with a cipher that appends one byte (a 15-byte message gives one 16-byte block), a "sha512" and
a "MAC" that depend on their inputs.  Used by the `example`s of Props/C16.lean.
-/
namespace Props.C16
open Btc Btc.Py Btc.C16
namespace EciesEx
def h512 : Bytes → Bytes := fun b => List.replicate 64 (b.foldl (· + ·) 0)
def mac : Bytes → Bytes → Bytes := fun k m => List.replicate 32 (k.headD 0 + m.foldl (· + ·) 0)
def enc : Bytes → Bytes → Bytes → R Bytes := fun _ _ m => .ok (m ++ [0])
def dec : Bytes → Bytes → Bytes → R Bytes := fun _ _ c => .ok c.dropLast
def msg : Bytes := [1, 2, 3, 4, 5, 6, 7, 8, 9, 10, 11, 12, 13, 14, 15]
def magic : Bytes := [66, 73, 69, 49]
def env : Bytes := magic ++ (cbytes ToyEx.T (ToyEx.T.mul 1 ToyEx.T.gen) ++ ((msg ++ [0]) ++ List.replicate 32 136))
theorem henc : eciesEncrypt ToyEx.T h512 mac enc msg (ToyEx.T.mul 2 ToyEx.T.gen) 1 magic = .ok env := by decide +kernel
theorem hD : ∀ k iv m c, enc k iv m = .ok c → dec k iv c = .ok m := by
  intro k iv m c h; simp only [enc, Except.ok.injEq] at h; subst h; simp [dec]
end EciesEx
end Props.C16
