import Mathlib.Tactic.Ring
import Mathlib.Tactic.LinearCombination
import Mathlib.Tactic.FieldSimp
import Mathlib.Algebra.Field.Basic
/-
C16 — ElligatorSwift (T6), the field identities behind `xswiftec (u, xswiftec_inv x u c) = x`.

Both branches of `_xswiftec_inv_var` produce `(v, s, w)` with `w² = s` and `s·(u² + uv + v²) = −(u³ + b)`
(branch `case & 2 = 0`: `v = x`, `s = −(u³+b)/(u²+ux+x²)`; other branch: `s = x − u`, `v = (−u + r/s)/2` with
`r² = −s(4(u³+b) + 3su²)`, which is the same relation) and answer `t = ±w·(u(1 ∓ √−3)/2 + v)`.
For such a `t` the forward map's `X = (u³+b−t²)/(2t)`, `Y = (X+t)/(√−3·u)` satisfy `Y = ∓w/2`, hence the
candidates are `x₁ = u + 4Y² = u + s` and `{x₂, x₃} ∋ v`: the `x` the inverse was asked for is among the
three candidates, in the slot the branch guards reserve for it.  Any field of characteristic ≠ 2, 3.
-/
namespace Btc.C16.Swift
section
variable {F : Type} [Field F]

/-- `2(X+t) = −w·c·u` for `2t = w·(u(1−c) + 2v)` -/
theorem two_X_add_t (u v w c b t X : F) (hc : c ^ 2 = -3) (h2 : (2 : F) ≠ 0)
    (hs : w ^ 2 * (u ^ 2 + u * v + v ^ 2) = -(u ^ 3 + b))
    (ht : 2 * t = w * (u * (1 - c) + 2 * v)) (ht0 : t ≠ 0)
    (hX : 2 * t * X = u ^ 3 + b - t ^ 2) : 2 * (X + t) = -(w * c * u) := by
  have h4 : (4 : F) * (t * (2 * (X + t) + w * c * u)) = 0 := by
    linear_combination 4 * hX + 4 * hs + (2 * t + w * (u * (1 - c) + 2 * v) + 2 * w * c * u) * ht
      - w ^ 2 * u ^ 2 * hc
  have h4ne : (4 : F) ≠ 0 := by
    have : (4 : F) = 2 * 2 := by norm_num
    rw [this]; exact mul_ne_zero h2 h2
  have := (mul_eq_zero.mp h4).resolve_left h4ne
  have := (mul_eq_zero.mp this).resolve_left ht0
  linear_combination this

/-- **T6 (field identity, the `1 − √−3` cases).** With `t = w·(u(1−c)/2 + v)`: `Y = −w/2`, so the first
candidate is `u + w²` and the third candidate `(X/Y − u)/2` is `v`. -/
theorem candidates_minus (u v w c b t X Y : F) (hc : c ^ 2 = -3) (h2 : (2 : F) ≠ 0) (hc0 : c ≠ 0)
    (hu : u ≠ 0) (hs : w ^ 2 * (u ^ 2 + u * v + v ^ 2) = -(u ^ 3 + b))
    (ht : 2 * t = w * (u * (1 - c) + 2 * v)) (ht0 : t ≠ 0)
    (hX : X = (u ^ 3 + b - t ^ 2) / (2 * t)) (hY : Y = (X + t) / (c * u)) :
    Y = -w / 2 ∧ u + 4 * Y * Y = u + w ^ 2 ∧ (Y ≠ 0 → (X / Y - u) / 2 = v) := by
  have h2t : 2 * t * X = u ^ 3 + b - t ^ 2 := by
    rw [hX]; field_simp
  have key := two_X_add_t u v w c b t X hc h2 hs ht ht0 h2t
  have hcu : c * u ≠ 0 := mul_ne_zero hc0 hu
  have hYv : Y = -w / 2 := by
    rw [hY, div_eq_div_iff hcu h2]
    linear_combination key
  refine ⟨hYv, by rw [hYv]; field_simp; ring, fun hY0 => ?_⟩
  have hw : w ≠ 0 := by
    intro h0; apply hY0; rw [hYv, h0]; simp
  rw [hYv]
  field_simp
  linear_combination (-1 : F) * key + ht

/-- **T6 (field identity, the `1 + √−3` cases).** With `t = w·(u(1+c)/2 + v)`: `Y = w/2`, the first
candidate is `u + w²` and the second candidate `(−X/Y − u)/2` is `v`. -/
theorem candidates_plus (u v w c b t X Y : F) (hc : c ^ 2 = -3) (h2 : (2 : F) ≠ 0) (hc0 : c ≠ 0)
    (hu : u ≠ 0) (hs : w ^ 2 * (u ^ 2 + u * v + v ^ 2) = -(u ^ 3 + b))
    (ht : 2 * t = w * (u * (1 + c) + 2 * v)) (ht0 : t ≠ 0)
    (hX : X = (u ^ 3 + b - t ^ 2) / (2 * t)) (hY : Y = (X + t) / (c * u)) :
    Y = w / 2 ∧ u + 4 * Y * Y = u + w ^ 2 ∧ (Y ≠ 0 → (-X / Y - u) / 2 = v) := by
  have h2t : 2 * t * X = u ^ 3 + b - t ^ 2 := by
    rw [hX]; field_simp
  have hc' : (-c) ^ 2 = -3 := by rw [neg_sq]; exact hc
  have ht' : 2 * t = w * (u * (1 - -c) + 2 * v) := by rw [sub_neg_eq_add]; exact ht
  have key := two_X_add_t u v w (-c) b t X hc' h2 hs ht' ht0 h2t
  have hcu : c * u ≠ 0 := mul_ne_zero hc0 hu
  have hYv : Y = w / 2 := by
    rw [hY, div_eq_div_iff hcu h2]
    linear_combination key
  refine ⟨hYv, by rw [hYv]; field_simp; ring, fun hY0 => ?_⟩
  have hw : w ≠ 0 := by
    intro h0; apply hY0; rw [hYv, h0]; simp
  rw [hYv]
  field_simp
  linear_combination (-1 : F) * key + ht

/-- the second branch of the inverse (`case & 2 ≠ 0`) establishes the same relation: from `s = x − u ≠ 0`,
`r² = −s(4(u³+b) + 3su²)` and `2v = −u + r/s` follows `s·(u²+uv+v²) = −(u³+b)` -/
theorem branch2_relation (u v s r b : F) (h2 : (2 : F) ≠ 0) (hs0 : s ≠ 0)
    (hr : r ^ 2 = -s * (4 * (u ^ 3 + b) + 3 * s * u * u)) (hv : 2 * v = -u + r / s) :
    s * (u ^ 2 + u * v + v ^ 2) = -(u ^ 3 + b) := by
  have hrs : r = s * (2 * v + u) := by
    field_simp at hv
    linear_combination -hv
  have h4ne : (4 : F) ≠ 0 := by
    have : (4 : F) = 2 * 2 := by norm_num
    rw [this]; exact mul_ne_zero h2 h2
  have h : (4 : F) * s * (s * (u ^ 2 + u * v + v ^ 2) + (u ^ 3 + b)) = 0 := by
    rw [hrs] at hr
    linear_combination hr
  have := (mul_eq_zero.mp h).resolve_left (mul_ne_zero h4ne hs0)
  linear_combination this

end
end Btc.C16.Swift
