import Proofs.C16.SilentPayments
import Proofs.C16.Pedersen
/-
C16 — the theorems that never call `o.liftX`, over `Btc.LawfulGroup` (every field of `Lawful` except the two
`lift_x` laws; C01 proves it for `opsSub K` with NO `p ≡ 3 (mod 4)`: `lawfulGroup_ec`): ECDH symmetry, DLEQ
completeness / special soundness, Pedersen, the BIP352 input sums.  The texts are those of the `Lawful` proofs
(Proofs/C16/{Basic,Dleq,Pedersen,SilentPayments}.lean) with the hypothesis bundle weakened; the `Lawful` versions are
corollaries through `Lawful.toLawfulGroup` (Props/C16.lean).
-/
namespace Btc.C16.LG
open Btc Btc.Py Btc.C16

section
variable {α G : Type} [AddCommGroup G] {o : GroupOps α} (L : LawfulGroup o G)
variable (H : Bytes → Bytes → Bytes)

include L in
theorem n_cast : ((N o : Nat) : Int) = o.n := Int.toNat_of_nonneg (le_of_lt L.n_pos)

include L in
theorem cast_mod (a : Int) : ((a % o.n : Int) : ZMod (N o)) = (a : ZMod (N o)) := by
  conv_lhs => rw [← n_cast L]
  exact ZMod.intCast_mod a (N o)

include L in
theorem cast_n : ((o.n : Int) : ZMod (N o)) = 0 := by
  have h : ((o.n : Int) : ZMod (N o)) = (((N o : Nat) : Int) : ZMod (N o)) := by rw [n_cast L]
  rw [h, Int.cast_natCast, ZMod.natCast_self]

/-- two integer scalars with the same image in `ZMod n` act identically -/
theorem smul_eq_of_cast {a b : Int} (g : α) (h : (a : ZMod (N o)) = (b : ZMod (N o))) :
    a • L.abs g = b • L.abs g := by
  have h' := (ZMod.intCast_eq_intCast_iff a b (N o)).mp h
  have h'' : a % o.n = b % o.n := by
    have := h'
    unfold Int.ModEq at this
    rwa [n_cast L] at this
  rw [← L.zsmul_mod a, h'', L.zsmul_mod]

include L in
theorem prime_fact : Fact (Nat.Prime (N o)) := ⟨L.n_prime⟩

/-- a scalar in `1..n-1` does not kill a non-zero element -/
theorem smul_ne_zero {k : Int} (hk0 : 0 < k) (hkn : k < o.n) (P : α) (hP : L.abs P ≠ 0) :
    k • L.abs P ≠ 0 := by
  intro h
  have := prime_fact L
  have hne : (k : ZMod (N o)) ≠ 0 := by
    intro hz
    have hd := (ZMod.intCast_zmod_eq_zero_iff_dvd k (N o)).mp hz
    rw [n_cast L] at hd
    have := Int.le_of_dvd hk0 hd
    omega
  -- k has an inverse modulo n
  obtain ⟨j, hj⟩ : ∃ j : Int, ((j * k : Int) : ZMod (N o)) = ((1 : Int) : ZMod (N o)) := by
    refine ⟨((k : ZMod (N o))⁻¹).val, ?_⟩
    push_cast
    rw [ZMod.natCast_zmod_val, inv_mul_cancel₀ hne]
  have h1 := smul_eq_of_cast L P hj
  rw [mul_zsmul, h, zsmul_zero, one_zsmul] at h1
  exact hP h1.symm

/-- coordinates and parity are functions of the (non-zero) group element -/
theorem x_congr {P Q : α} (h : L.abs P = L.abs Q) (hP : L.abs P ≠ 0) : o.x P = o.x Q :=
  (L.x_eq_iff P Q hP (h ▸ hP)).mpr (Or.inl h)

theorem evenY_congr {P Q : α} (h : L.abs P = L.abs Q) (hP : L.abs P ≠ 0) : evenY o P = evenY o Q := by
  have := L.y_congr P Q h hP
  cases h1 : evenY o P <;> cases h2 : evenY o Q <;> simp_all [evenY]

theorem cbytes_congr {P Q : α} (h : L.abs P = L.abs Q) (hP : L.abs P ≠ 0) : cbytes o P = cbytes o Q := by
  unfold cbytes; rw [evenY_congr L h hP, x_congr L h hP]

theorem isZero_congr {P Q : α} (h : L.abs P = L.abs Q) : o.isZero P = o.isZero Q := by
  have h1 := L.isZero_iff P
  have h2 := L.isZero_iff Q
  cases hp : o.isZero P <;> cases hq : o.isZero Q <;> simp_all

theorem isZero_false_of_ne {P : α} (h : L.abs P ≠ 0) : o.isZero P = false := by
  cases hz : o.isZero P with
  | false => rfl
  | true => exact absurd ((L.isZero_iff P).mp hz) h


include L in
/-- **T5.** Both parties of an ECDH exchange derive the same keying data, for ANY key derivation
function applied to the shared x-coordinate (and both fail together when the shared point is ∞). -/
theorem dh_symmetric (kdf : Bytes → R Bytes) (a b : Int) :
    diffieHellman o kdf a (o.mul b o.gen) = diffieHellman o kdf b (o.mul a o.gen) := by
  have h : L.abs (o.mul a (o.mul b o.gen)) = L.abs (o.mul b (o.mul a o.gen)) := by
    rw [L.abs_mul, L.abs_mul, L.abs_mul, L.abs_mul, smul_smul, smul_smul, mul_comm]
  unfold diffieHellman
  simp only
  rw [isZero_congr L h]
  by_cases hz : o.isZero (o.mul b (o.mul a o.gen)) = true
  · simp [hz]
  · have hne : L.abs (o.mul a (o.mul b o.gen)) ≠ 0 := by
      rw [h]; exact fun h0 => hz ((L.isZero_iff _).mpr h0)
    simp only [hz]
    rw [x_congr L h hne]

include L in
/-- the same for two arbitrary key pairs on any base point `P`: `a•(b•P)` and `b•(a•P)` -/
theorem dh_symmetric_base (kdf : Bytes → R Bytes) (a b : Int) (P : α) :
    diffieHellman o kdf a (o.mul b P) = diffieHellman o kdf b (o.mul a P) := by
  have h : L.abs (o.mul a (o.mul b P)) = L.abs (o.mul b (o.mul a P)) := by
    rw [L.abs_mul, L.abs_mul, L.abs_mul, L.abs_mul, smul_smul, smul_smul, mul_comm]
  unfold diffieHellman
  simp only
  rw [isZero_congr L h]
  by_cases hz : o.isZero (o.mul b (o.mul a P)) = true
  · simp [hz]
  · have hne : L.abs (o.mul a (o.mul b P)) ≠ 0 := by
      rw [h]; exact fun h0 => hz ((L.isZero_iff _).mpr h0)
    simp only [hz]
    rw [x_congr L h hne]



include L in
/-- completeness for any nonce: the proof `(e, s = k + e·a)` built from a nonce `k ∈ 1..n-1` verifies
for the statement `A = a•G'`, `C = a•B` it was made for — any generator `G' ≠ ∞`, any `B ≠ ∞`, any
message; `H` any hash with 32-byte digests. -/
theorem dleq_complete_nonce (hn : o.n ≤ 256 ^ 32) (hH : ∀ t m, (H t m).length = 32)
    (a k : Int) (hk0 : 0 < k) (hk1 : k < o.n) (B Gp : α) (hB : L.abs B ≠ 0) (hG : L.abs Gp ≠ 0)
    (msg : Option Bytes) (m : Bytes) (hm : dleqMsg msg = .ok m) :
    dleqVerify o H (o.mul a Gp) B (o.mul a B) (dleqProofOf o H a k B Gp m) Gp msg = .ok () := by
  rw [dleqVerify_iff]
  refine ⟨m, hm, ?_⟩
  set e := dleqChallenge o H (o.mul a Gp) B (o.mul a B) (o.mul k Gp) (o.mul k B) Gp m with he
  have he0 : 0 ≤ e := by rw [he]; unfold dleqChallenge fromBytesBE; exact Int.natCast_nonneg _
  have he1 : e < 256 ^ 32 := by
    rw [he]; unfold dleqChallenge fromBytesBE
    have := ofBE_lt (H Gen.Interactive.DLEQ_CHALLENGE_TAG
      (cbytes o (o.mul a Gp) ++ cbytes o B ++ cbytes o (o.mul a B) ++ cbytes o Gp ++ cbytes o (o.mul k Gp)
        ++ cbytes o (o.mul k B) ++ m))
    rw [hH] at this
    exact_mod_cast this
  have hs0 : 0 ≤ (k + e * a) % o.n := Int.emod_nonneg _ (ne_of_gt L.n_pos)
  have hs1 : (k + e * a) % o.n < o.n := Int.emod_lt_of_pos _ L.n_pos
  have hproof : dleqProofOf o H a k B Gp m = sBytes e ++ sBytes ((k + e * a) % o.n) := rfl
  have htake : (dleqProofOf o H a k B Gp m).take 32 = sBytes e := by
    rw [hproof]; exact List.take_left' (length_sBytes e)
  have hdrop : (dleqProofOf o H a k B Gp m).drop 32 = sBytes ((k + e * a) % o.n) := by
    rw [hproof]; exact List.drop_left' (length_sBytes e)
  have hlen : (dleqProofOf o H a k B Gp m).length = 64 := by
    rw [hproof, List.length_append, length_sBytes, length_sBytes]
  rw [htake, hdrop, fromBytesBE_sBytes he0 he1, fromBytesBE_sBytes hs0 (by omega)]
  -- the two recomputed commitments are k•G' and k•B
  have hR : ∀ X : α, L.abs (o.dmul ((k + e * a) % o.n) X (-e) (o.mul a X)) = L.abs (o.mul k X) := by
    intro X
    rw [L.abs_dmul, L.abs_mul, L.abs_mul, L.zsmul_mod, smul_smul, ← add_smul]
    congr 1; ring
  have hkG : L.abs (o.mul k Gp) ≠ 0 := by rw [L.abs_mul]; exact smul_ne_zero L hk0 hk1 _ hG
  have hkB : L.abs (o.mul k B) ≠ 0 := by rw [L.abs_mul]; exact smul_ne_zero L hk0 hk1 _ hB
  have hR1n : L.abs (o.dmul ((k + e * a) % o.n) Gp (-e) (o.mul a Gp)) ≠ 0 := by rw [hR]; exact hkG
  have hR2n : L.abs (o.dmul ((k + e * a) % o.n) B (-e) (o.mul a B)) ≠ 0 := by rw [hR]; exact hkB
  refine ⟨hlen, hs1, isZero_false_of_ne L hR1n, isZero_false_of_ne L hR2n, ?_⟩
  have c1 := cbytes_congr L (hR Gp) hR1n
  have c2 := cbytes_congr L (hR B) hR2n
  unfold dleqChallenge
  rw [c1, c2]
  exact he

include L in
theorem dleq_generate_defined (hn : o.n ≤ 256 ^ 32) (hH : ∀ t m, (H t m).length = 32)
    (a : Int) (ha : 0 < a ∧ a < o.n) (B Gp : α) (hB : L.abs B ≠ 0) (hG : L.abs Gp ≠ 0) (aux : Bytes)
    (haux : aux.length = 32) (msg : Option Bytes) (m : Bytes) (hm : dleqMsg msg = .ok m)
    (hk : dleqNonce o H a (o.mul a Gp) (o.mul a B) aux m ≠ 0) :
    ∃ π, dleqGenerate o H a B aux Gp msg = .ok π := by
  have hk0 : 0 < dleqNonce o H a (o.mul a Gp) (o.mul a B) aux m := by
    refine lt_of_le_of_ne ?_ (Ne.symm hk)
    unfold dleqNonce; exact Int.emod_nonneg _ (ne_of_gt L.n_pos)
  have hk1 : dleqNonce o H a (o.mul a Gp) (o.mul a B) aux m < o.n := by
    unfold dleqNonce; exact Int.emod_lt_of_pos _ L.n_pos
  have hv := dleq_complete_nonce L H hn hH a _ hk0 hk1 B Gp hB hG msg m hm
  refine ⟨dleqProofOf o H a (dleqNonce o H a (o.mul a Gp) (o.mul a B) aux m) B Gp m, ?_⟩
  unfold dleqGenerate
  have hs : scalarOk o a = true := (scalarOk_iff a).mpr ha
  simp only [hs, Bool.not_true, Bool.false_eq_true, if_false, hm, dleq_sizes.1, haux, ne_eq,
    not_true_eq_false, hk, hv]

include L in
/-- **T8 (special soundness).** Two accepting transcripts with the same commitments `R₁`, `R₂` and
challenges that differ modulo `n` determine a witness: there is `w` with `A = w•G'` and `C = w•B`.
(So a statement with no common discrete logarithm passes verification for at most one challenge
value modulo `n` per commitment pair: acceptance needs the hash to hit it.) -/
theorem dleq_special_soundness (A B C Gp : α) (e s e' s' : Int)
    (h1 : L.abs (o.dmul s Gp (-e) A) = L.abs (o.dmul s' Gp (-e') A))
    (h2 : L.abs (o.dmul s B (-e) C) = L.abs (o.dmul s' B (-e') C))
    (hne : (e - e') % o.n ≠ 0) :
    ∃ w : Int, L.abs A = w • L.abs Gp ∧ L.abs C = w • L.abs B := by
  have hpos : 0 < (e - e') % o.n :=
    lt_of_le_of_ne (Int.emod_nonneg _ (ne_of_gt L.n_pos)) (Ne.symm hne)
  have hlt : (e - e') % o.n < o.n := Int.emod_lt_of_pos _ L.n_pos
  -- inverse of (e - e') modulo n
  have := prime_fact L
  have hnz : (((e - e') % o.n : Int) : ZMod (N o)) ≠ 0 := by
    intro hz
    have hd := (ZMod.intCast_zmod_eq_zero_iff_dvd _ (N o)).mp hz
    rw [n_cast L] at hd
    have := Int.le_of_dvd hpos hd
    omega
  have hnz' : (((e - e' : Int)) : ZMod (N o)) ≠ 0 := by rw [← cast_mod L]; exact hnz
  obtain ⟨j, hj⟩ : ∃ j : Int, ((j * (e - e') : Int) : ZMod (N o)) = ((1 : Int) : ZMod (N o)) := by
    refine ⟨((((e - e' : Int)) : ZMod (N o))⁻¹).val, ?_⟩
    rw [Int.cast_mul, Int.cast_natCast, ZMod.natCast_zmod_val, Int.cast_one]
    exact inv_mul_cancel₀ hnz'
  have key : ∀ (X Y : G), s • X + -e • Y = s' • X + -e' • Y → (e - e') • Y = (s - s') • X := by
    intro X Y h
    rw [neg_smul, neg_smul] at h
    rw [sub_smul, sub_smul, sub_eq_sub_iff_add_eq_add]
    calc e • Y + s' • X = (s' • X + -(e' • Y)) + (e • Y + e' • Y) := by abel
      _ = (s • X + -(e • Y)) + (e • Y + e' • Y) := by rw [h]
      _ = s • X + e' • Y := by abel
  rw [L.abs_dmul, L.abs_dmul] at h1 h2
  refine ⟨j * (s - s'), ?_, ?_⟩
  · have := smul_eq_of_cast L A hj
    rw [one_smul, mul_smul, key _ _ h1, smul_smul] at this
    exact this.symm
  · have := smul_eq_of_cast L C hj
    rw [one_smul, mul_smul, key _ _ h2, smul_smul] at this
    exact this.symm


include L in
theorem pedersen_verify_commit (Hp : α) (r v : Int) (C : α) (h : pedersenCommit o Hp r v = .ok C) :
    pedersenVerify o Hp r v C = true := by
  unfold pedersenVerify
  rw [h]
  exact (L.eq_iff C C).mpr rfl

include L in
/-- a point opens as `(r, v)` exactly when it is `r•G + v•H` (and that is not ∞) -/
theorem pedersen_verify_iff (Hp : α) (r v : Int) (C : α) :
    pedersenVerify o Hp r v C = true ↔
      L.abs C = r • L.abs o.gen + v • L.abs Hp ∧ L.abs C ≠ 0 := by
  unfold pedersenVerify pedersenCommit
  have hab : L.abs (o.dmul v Hp r o.gen) = r • L.abs o.gen + v • L.abs Hp := by
    rw [L.abs_dmul, add_comm]
  by_cases hz : o.isZero (o.dmul v Hp r o.gen) = true
  · simp only [hz, if_true]
    have h0 := (L.isZero_iff _).mp hz
    constructor
    · intro h; cases h
    · rintro ⟨h1, h2⟩; exact absurd (by rw [h1, ← hab, h0]) h2
  · simp only [hz]
    have hne : L.abs (o.dmul v Hp r o.gen) ≠ 0 := fun h0 => hz ((L.isZero_iff _).mpr h0)
    simp only [Bool.false_eq_true, if_false]
    rw [L.eq_iff, hab]
    constructor
    · intro h; exact ⟨h, by rw [h, ← hab]; exact hne⟩
    · exact fun h => h.1

include L in
/-- commitments are additively homomorphic -/
theorem pedersen_add (Hp : α) (r1 v1 r2 v2 : Int) :
    L.abs (o.dmul (v1 + v2) Hp (r1 + r2) o.gen)
      = L.abs (o.dmul v1 Hp r1 o.gen) + L.abs (o.dmul v2 Hp r2 o.gen) := by
  rw [L.abs_dmul, L.abs_dmul, L.abs_dmul, add_smul, add_smul]; abel


include L in
theorem abs_spInputPoint (a : Int) (tr : Bool) :
    L.abs (spInputPoint o a tr) = spInputKey o a tr • L.abs o.gen := by
  unfold spInputPoint spInputKey
  split
  · rw [L.abs_neg, L.abs_mul, sub_smul, L.order, zero_sub]
  · rw [L.abs_mul]

include L in
theorem prvKeySumAux_spec (keys : List (Int × Bool)) (t r : Int)
    (h : prvKeySumAux o keys t = .ok r) :
    r • L.abs o.gen = t • L.abs o.gen
      + L.abs (sumPoints o (keys.map fun k => spInputPoint o k.1 k.2)) ∧ (keys ≠ [] → 0 ≤ r ∧ r < o.n) := by
  induction keys generalizing t with
  | nil =>
    simp only [prvKeySumAux] at h; cases h
    simp [sumPoints, L.abs_zero]
  | cons k tl ih =>
    obtain ⟨a, tr⟩ := k
    simp only [prvKeySumAux] at h
    split at h
    · cases h
    · obtain ⟨h1, h2⟩ := ih _ h
      refine ⟨?_, fun _ => ?_⟩
      · rw [h1, L.zsmul_mod, add_smul, List.map_cons, sumPoints, L.abs_add, abs_spInputPoint L]
        abel
      · cases tl with
        | nil =>
          simp only [prvKeySumAux] at h; cases h
          exact ⟨Int.emod_nonneg _ (ne_of_gt L.n_pos), Int.emod_lt_of_pos _ L.n_pos⟩
        | cons _ _ => exact h2 (by simp)

include L in
/-- **T9 (inputs).** The scanner's public-key sum is the sender's private-key sum times `G`:
taproot inputs are negated to even y on both sides. -/
theorem pubKeySum_of_prvKeySum (keys : List (Int × Bool)) (a : Int) (h : prvKeySum o keys = .ok a) :
    0 < a ∧ a < o.n ∧
    ∃ A, pubKeySum o (keys.map fun k => spInputPoint o k.1 k.2) = .ok A ∧ L.abs A = a • L.abs o.gen
      ∧ L.abs A ≠ 0 := by
  unfold prvKeySum at h
  split at h
  · cases h
  rename_i total ht
  split at h
  · cases h
  rename_i hne
  cases h
  obtain ⟨h1, h2⟩ := prvKeySumAux_spec L keys 0 a ht
  have hk : keys ≠ [] := by
    intro hk; subst hk; simp only [prvKeySumAux] at ht; cases ht; exact hne rfl
  obtain ⟨h0, hlt⟩ := h2 hk
  have hpos : 0 < a := lt_of_le_of_ne h0 (Ne.symm hne)
  rw [zero_smul, zero_add] at h1
  have hA : L.abs (sumPoints o (keys.map fun k => spInputPoint o k.1 k.2)) ≠ 0 := by
    rw [← h1]; exact smul_ne_zero L hpos hlt _ L.gen_ne_zero
  refine ⟨hpos, hlt, _, ?_, h1.symm, hA⟩
  unfold pubKeySum
  rw [isZero_false_of_ne L hA]; simp

include L in
/-- **T9 (agreement).** Sender and scanner compute the same input hash and, for a recipient whose
scan key is `B_scan = b_scan•G`, the same shared secret — hence the same tweaks `t_k` for every `k`. -/
theorem sp_agreement (keys : List (Int × Bool)) (a : Int) (h : prvKeySum o keys = .ok a)
    (A : α) (hA : pubKeySum o (keys.map fun k => spInputPoint o k.1 k.2) = .ok A)
    (lowest : Bytes) (hh : Int) (hih : inputHash o H lowest (o.mul a o.gen) = .ok hh)
    (bScan : Int) (hb : 0 < bScan ∧ bScan < o.n) :
    inputHash o H lowest A = .ok hh ∧
    ∀ k, outputTweak o H (o.mul (hh * a % o.n) (o.mul bScan o.gen)) k
        = outputTweak o H (o.mul bScan (o.mul hh A)) k := by
  obtain ⟨ha0, ha1, A', hA', hAa, hAn⟩ := pubKeySum_of_prvKeySum L keys a h
  rw [hA] at hA'; cases hA'
  have hcb : cbytes o (o.mul a o.gen) = cbytes o A :=
    cbytes_congr L (by rw [L.abs_mul, hAa]) (by rw [L.abs_mul, ← hAa]; exact hAn)
  have hih' : inputHash o H lowest A = .ok hh := by
    unfold inputHash at hih ⊢; rw [← hcb]; exact hih
  refine ⟨hih', fun k => ?_⟩
  have hh_range : 0 < hh ∧ hh < o.n := by
    unfold inputHash spScalar at hih
    split at hih
    · rename_i hs; cases hih; exact (scalarOk_iff _).mp hs
    · cases hih
  have hsec : L.abs (o.mul (hh * a % o.n) (o.mul bScan o.gen)) = L.abs (o.mul bScan (o.mul hh A)) := by
    rw [L.abs_mul, L.abs_mul, L.abs_mul, L.abs_mul, hAa, smul_smul, smul_smul, smul_smul]
    apply smul_eq_of_cast L
    push_cast [cast_mod L]; ring
  have hne : L.abs (o.mul (hh * a % o.n) (o.mul bScan o.gen)) ≠ 0 := by
    rw [hsec]
    have h1 : L.abs (o.mul hh A) ≠ 0 := by
      rw [L.abs_mul]; exact smul_ne_zero L hh_range.1 hh_range.2 A hAn
    rw [L.abs_mul]; exact smul_ne_zero L hb.1 hb.2 _ h1
  unfold outputTweak
  rw [cbytes_congr L hsec hne]

end
end Btc.C16.LG

/-! ### the `Lawful` forms: one-line weakenings through `Lawful.toLawfulGroup` (not counted as obligations) -/
namespace Btc.C16.LG
open Btc Btc.Py Btc.C16
section
variable {α G : Type} [AddCommGroup G] {o : GroupOps α}

theorem dh_symmetric_lawful (L : Lawful o G) (kdf : Bytes → R Bytes) (a b : Int) :
    diffieHellman o kdf a (o.mul b o.gen) = diffieHellman o kdf b (o.mul a o.gen) :=
  dh_symmetric L.toLawfulGroup kdf a b

theorem dleq_complete_lawful (L : Lawful o G) (H : Bytes → Bytes → Bytes) (hn : o.n ≤ 256 ^ 32)
    (hH : ∀ t m, (H t m).length = 32) (a k : Int) (hk0 : 0 < k) (hk1 : k < o.n) (B Gp : α)
    (hB : L.abs B ≠ 0) (hG : L.abs Gp ≠ 0) (msg : Option Bytes) (m : Bytes) (hm : dleqMsg msg = .ok m) :
    dleqVerify o H (o.mul a Gp) B (o.mul a B) (dleqProofOf o H a k B Gp m) Gp msg = .ok () :=
  dleq_complete_nonce L.toLawfulGroup H hn hH a k hk0 hk1 B Gp hB hG msg m hm

theorem pedersen_verify_commit_lawful (L : Lawful o G) (Hp : α) (r v : Int) (C : α)
    (h : pedersenCommit o Hp r v = .ok C) : pedersenVerify o Hp r v C = true :=
  pedersen_verify_commit L.toLawfulGroup Hp r v C h

theorem pubKeySum_of_prvKeySum_lawful (L : Lawful o G) (keys : List (Int × Bool)) (a : Int)
    (h : prvKeySum o keys = .ok a) :
    0 < a ∧ a < o.n ∧
    ∃ A, pubKeySum o (keys.map fun k => spInputPoint o k.1 k.2) = .ok A ∧ L.abs A = a • L.abs o.gen
      ∧ L.abs A ≠ 0 :=
  pubKeySum_of_prvKeySum L.toLawfulGroup keys a h

end
end Btc.C16.LG
