import Model.C16.Musig2
import Proofs.Common.Lawful
import Proofs.Common.Bytes
import Mathlib.Tactic.Ring
import Mathlib.Tactic.LinearCombination
import Mathlib.Data.ZMod.Basic
/-
C16 toolkit: scalar arithmetic modulo the group order seen through `ZMod`, non-vanishing of
`k•G`, and the compressed-point round trip `cpoint (cbytes P) = P`.
-/
namespace Btc.C16
open Btc Btc.Py

section
variable {α G : Type} [AddCommGroup G] {o : GroupOps α} (L : Lawful o G)

/-- the order as a natural number -/
abbrev N (o : GroupOps α) : Nat := o.n.toNat

include L in
theorem n_cast : ((N o : Nat) : Int) = o.n := Int.toNat_of_nonneg (le_of_lt L.n_pos)

include L in
theorem cast_mod (a : Int) : ((a % o.n : Int) : ZMod (N o)) = (a : ZMod (N o)) := by
  conv_lhs => rw [← n_cast L]
  exact ZMod.intCast_mod a (N o)

include L in
theorem cast_n : ((o.n : Int) : ZMod (N o)) = 0 := by
  have h : ((o.n : Int) : ZMod (N o)) = (((N o : Nat) : Int) : ZMod (N o)) := by rw [n_cast L]
  rw [h, Int.cast_natCast, ZMod.natCast_self]

/-- two integer scalars with the same image in `ZMod n` act identically -/
theorem smul_eq_of_cast {a b : Int} (g : α) (h : (a : ZMod (N o)) = (b : ZMod (N o))) :
    a • L.abs g = b • L.abs g := by
  have h' := (ZMod.intCast_eq_intCast_iff a b (N o)).mp h
  have h'' : a % o.n = b % o.n := by
    have := h'
    unfold Int.ModEq at this
    rwa [n_cast L] at this
  rw [← L.zsmul_mod a, h'', L.zsmul_mod]

include L in
theorem prime_fact : Fact (Nat.Prime (N o)) := ⟨L.n_prime⟩

/-- a scalar in `1..n-1` does not kill a non-zero element -/
theorem smul_ne_zero {k : Int} (hk0 : 0 < k) (hkn : k < o.n) (P : α) (hP : L.abs P ≠ 0) :
    k • L.abs P ≠ 0 := by
  intro h
  have := prime_fact L
  have hne : (k : ZMod (N o)) ≠ 0 := by
    intro hz
    have hd := (ZMod.intCast_zmod_eq_zero_iff_dvd k (N o)).mp hz
    rw [n_cast L] at hd
    have := Int.le_of_dvd hk0 hd
    omega
  -- k has an inverse modulo n
  obtain ⟨j, hj⟩ : ∃ j : Int, ((j * k : Int) : ZMod (N o)) = ((1 : Int) : ZMod (N o)) := by
    refine ⟨((k : ZMod (N o))⁻¹).val, ?_⟩
    push_cast
    rw [ZMod.natCast_zmod_val, inv_mul_cancel₀ hne]
  have h1 := smul_eq_of_cast L P hj
  rw [mul_zsmul, h, zsmul_zero, one_zsmul] at h1
  exact hP h1.symm

theorem scalarOk_iff (q : Int) : scalarOk o q = true ↔ 0 < q ∧ q < o.n := by
  simp [scalarOk]

theorem evenY_iff (P : α) : evenY o P = true ↔ o.y P % 2 = 0 := by
  simp [evenY]

/-! ### byte helpers -/

theorem length_leBytes (len n : Nat) : (leBytes len n).length = len := by
  induction len generalizing n with
  | zero => rfl
  | succ k ih => simp [leBytes, ih]

theorem length_beBytes (len n : Nat) : (beBytes len n).length = len := by
  simp [beBytes]

theorem length_sBytes (x : Int) : (sBytes x).length = 32 := by
  simp [sBytes]; rfl

theorem pkSize_eq : pkSize = 33 := rfl
theorem scalarSize_eq : scalarSize = 32 := rfl
theorem nonceSize_eq : nonceSize = 66 := rfl

theorem ofBE_sBytes {x : Int} (h0 : 0 ≤ x) (h1 : x < 256 ^ 32) : ((ofBE (sBytes x) : Nat) : Int) = x := by
  unfold sBytes
  rw [ofBE_beBytes, scalarSize_eq]
  have : x.toNat < 256 ^ 32 := by omega
  rw [Nat.mod_eq_of_lt this]
  omega

/-- `fromBytesBE (sBytes x) = x` for a scalar that fits in 32 bytes -/
theorem fromBytesBE_sBytes {x : Int} (h0 : 0 ≤ x) (h1 : x < 256 ^ 32) : fromBytesBE (sBytes x) = x :=
  ofBE_sBytes h0 h1

theorem length_cbytes (P : α) : (cbytes o P).length = 33 := by
  simp [cbytes, length_sBytes]

theorem cbytes_ne_inf (P : α) : cbytes o P ≠ infBytes := by
  unfold cbytes infBytes
  intro h
  have h0 := congrArg List.head? h
  by_cases he : evenY o P <;> simp [he, Gen.Interactive.MUSIG_INF_BYTES] at h0

/-! ### the compressed-point round trip -/

/-- lifting the x of a non-zero element gives that element or its negative, by the parity of y -/
theorem liftX_x (P : α) (hP : L.abs P ≠ 0) :
    ∃ Q, o.liftX (o.x P) = some Q ∧ o.y Q % 2 = 0 ∧
      L.abs Q = (if o.y P % 2 = 0 then L.abs P else - L.abs P) := by
  cases hl : o.liftX (o.x P) with
  | none => exact absurd rfl (L.liftX_none _ hl P hP)
  | some Q =>
    obtain ⟨hQ, hx, hy⟩ := L.liftX_some _ _ hl
    refine ⟨Q, rfl, hy, ?_⟩
    have hcases := (L.x_eq_iff Q P hQ hP).mp hx
    by_cases hev : o.y P % 2 = 0
    · simp only [hev, if_true]
      rcases hcases with h | h
      · exact h
      · -- abs Q = abs (neg P): parities disagree
        exfalso
        have hn : L.abs Q = L.abs (o.neg P) := by rw [L.abs_neg]; exact h
        have h1 := (L.y_congr Q (o.neg P) hn hQ).mp hy
        exact ((L.y_neg P hP).mp h1) hev
    · simp only [hev, if_false]
      rcases hcases with h | h
      · exfalso
        exact hev ((L.y_congr Q P h hQ).mp hy)
      · exact h

/-- `_cpoint (_cbytes P)` answers `P` (as a group element), for `p ≤ 2^256` -/
theorem cpoint_cbytes (hp : o.p ≤ 256 ^ 32) (P : α) (hP : L.abs P ≠ 0) :
    ∃ Q, cpoint o (cbytes o P) = .ok Q ∧ L.abs Q = L.abs P := by
  obtain ⟨hx0, hx1⟩ := L.x_range P hP
  obtain ⟨Q, hl, _, hQ⟩ := liftX_x L P hP
  have hlen : (cbytes o P).length = pkSize := length_cbytes P
  have hof : ((ofBE (sBytes (o.x P)) : Nat) : Int) = o.x P := ofBE_sBytes hx0 (by omega)
  by_cases hev : o.y P % 2 = 0
  · have he : evenY o P = true := (evenY_iff P).mpr hev
    refine ⟨Q, ?_, by simpa [hev] using hQ⟩
    unfold cpoint
    rw [if_neg (by simp [hlen])]
    simp [cbytes, he, hof, hl]
  · have he : evenY o P = false := by
      cases h : evenY o P with
      | false => rfl
      | true => exact absurd ((evenY_iff P).mp h) hev
    refine ⟨o.neg Q, ?_, by rw [L.abs_neg, hQ]; simp [hev]⟩
    unfold cpoint
    rw [if_neg (by simp [hlen])]
    simp [cbytes, he, hof, hl]

/-- `_cpoint_ext (_cbytes_ext P)` answers `P`, infinity included -/
theorem cpointExt_cbytesExt (hp : o.p ≤ 256 ^ 32) (P : α) :
    ∃ Q, cpointExt o (cbytesExt o P) = .ok Q ∧ L.abs Q = L.abs P := by
  by_cases hz : o.isZero P = true
  · refine ⟨o.zero, ?_, by rw [L.abs_zero, (L.isZero_iff P).mp hz]⟩
    simp [cpointExt, cbytesExt, hz, infBytes, pkSize, Gen.Interactive.MUSIG_INF_BYTES,
      Gen.Interactive.MUSIG_PK_SIZE]
  · have hP : L.abs P ≠ 0 := fun h => hz ((L.isZero_iff P).mpr h)
    obtain ⟨Q, hc, hQ⟩ := cpoint_cbytes L hp P hP
    refine ⟨Q, ?_, hQ⟩
    have hz' : o.isZero P = false := by simpa using hz
    simp [cpointExt, cbytesExt, hz', length_cbytes, pkSize_eq, cbytes_ne_inf, hc]

end
end Btc.C16
