import Proofs.C16.SilentPaymentsComplete
import Proofs.C16.LG
/-
C16 — BIP352 end to end: the outputs `output_keys` (specification form `outputKeysWalk`: several addresses, several
scan keys, btclib's address order) creates for a recipient are found by that recipient's
`scan_transaction_outputs`, in order, among decoys — sender's and scanner's secrets agree (taproot negation included),
the chain is congruent under equal tweaks, the scan walk is complete.  No `lift_x` is involved: `LawfulGroup`.
-/
namespace Btc.C16
open Btc Btc.Py

section
variable {α G : Type} [AddCommGroup G] {o : GroupOps α}
variable (H : Bytes → Bytes → Bytes)

/-- a chain only depends on the secret through the tweaks `t_k` -/
theorem SpChain.congr {s1 s2 Bspend : α} (hs : ∀ k, outputTweak o H s1 k = outputTweak o H s2 k)
    {k : Nat} {exp : List (Bytes × Int)} (h : SpChain o H s1 Bspend k exp) : SpChain o H s2 Bspend k exp := by
  induction h with
  | nil k => exact .nil k
  | cons ht hx _ ih => exact .cons (by rw [← hs]; exact ht) hx ih

theorem countScan_append (Bs : α) (l : List (α × α)) (r : α × α) :
    countScan o Bs (l ++ [r]) = countScan o Bs l + (if o.eq r.1 Bs then 1 else 0) := by
  induction l with
  | nil => simp [countScan]
  | cons a tl ih => simp only [List.cons_append, countScan, ih]; omega

/-- this recipient's outputs among the sender's, in address order -/
def mine (o : GroupOps α) (Bs : α) (outs : List Bytes) (recips : List (α × α)) : List Bytes :=
  ((outs.zip recips).filter (fun p => o.eq p.2.1 Bs)).map (·.1)

theorem mine_sublist (Bs : α) (outs : List Bytes) (recips : List (α × α)) : (mine o Bs outs recips).Sublist outs := by
  unfold mine
  have h1 : ((outs.zip recips).filter (fun p => o.eq p.2.1 Bs)).Sublist (outs.zip recips) := List.filter_sublist
  have h2 := h1.map (·.1)
  have h3 : ((outs.zip recips).map (·.1)).Sublist outs := by
    rw [List.map_fst_zip']
    exact List.take_sublist _ _
  exact h2.trans h3

theorem mine_length_le (Bs : α) (outs : List Bytes) (recips : List (α × α)) :
    (mine o Bs outs recips).length ≤ countScan o Bs recips := by
  unfold mine
  rw [List.length_map]
  induction recips generalizing outs with
  | nil => simp
  | cons r tl ih =>
    cases outs with
    | nil => simp
    | cons x xs =>
      simp only [List.zip_cons_cons, List.filter_cons, countScan]
      split <;> simp_all <;> have := ih xs <;> omega

/-- the sender's walk, for a scan key all of whose payments go to ONE address `(Bs, Bspend)`: the outputs of that
address form a chain from `k = countScan Bs before` on -/
theorem senderWalk_chain (ha : Int) (Bs Bspend : α) (recips before : List (α × α)) (outs : List Bytes)
    (hrec : ∀ r ∈ recips, o.eq r.1 Bs = true → r = (Bs, Bspend))
    (h : senderWalk o H ha before recips = .ok outs) :
    ∃ exp, exp.map Prod.fst = mine o Bs outs recips ∧
      SpChain o H (o.mul ha Bs) Bspend (countScan o Bs before) exp := by
  induction recips generalizing before outs with
  | nil => simp only [senderWalk] at h; cases h; exact ⟨[], rfl, .nil _⟩
  | cons r tl ih =>
    simp only [senderWalk] at h
    split at h
    · cases h
    rename_i x hx
    split at h
    · cases h
    rename_i xs hxs
    cases h
    obtain ⟨exp, he, hc⟩ := ih (before ++ [r]) xs (fun q hq => hrec q (List.mem_cons_of_mem _ hq)) hxs
    rw [countScan_append] at hc
    by_cases heq : o.eq r.1 Bs = true
    · have hr := hrec r List.mem_cons_self heq
      subst hr
      simp only [heq, if_true] at hc
      unfold outputKey at hx
      split at hx
      · cases hx
      rename_i t ht
      refine ⟨(x, t) :: exp, ?_, .cons ht hx hc⟩
      simp [mine, heq, he]
      exact he
    · simp only [heq] at hc
      refine ⟨exp, ?_, by simpa using hc⟩
      simp [mine, heq]
      exact he

end
end Btc.C16
