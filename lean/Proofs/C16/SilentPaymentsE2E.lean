import Proofs.C16.SilentPaymentsComplete
import Proofs.C16.LG
/-
C16 — BIP352 end to end: the outputs `output_keys` (specification form `outputKeysWalk`: several addresses, several
scan keys, btclib's address order) creates for a recipient are found by that recipient's
`scan_transaction_outputs`, in order, among decoys — sender's and scanner's secrets agree (taproot negation included),
the chain is congruent under equal tweaks, the scan walk is complete.  No `lift_x` is involved: `LawfulGroup`.
-/
namespace Btc.C16
open Btc Btc.Py

section
variable {α G : Type} [AddCommGroup G] {o : GroupOps α}
variable (H : Bytes → Bytes → Bytes)

/-- a chain only depends on the secret through the tweaks `t_k` -/
theorem SpChain.congr {s1 s2 Bspend : α} (hs : ∀ k, outputTweak o H s1 k = outputTweak o H s2 k)
    {k : Nat} {exp : List (Bytes × Int)} (h : SpChain o H s1 Bspend k exp) : SpChain o H s2 Bspend k exp := by
  induction h with
  | nil k => exact .nil k
  | cons ht hx _ ih => exact .cons (by rw [← hs]; exact ht) hx ih

theorem countScan_append (Bs : α) (l : List (α × α)) (r : α × α) :
    countScan o Bs (l ++ [r]) = countScan o Bs l + (if o.eq r.1 Bs then 1 else 0) := by
  induction l with
  | nil => simp [countScan]
  | cons a tl ih => simp only [List.cons_append, countScan, ih]; omega

/-- this recipient's outputs among the sender's, in address order -/
def mine (o : GroupOps α) (Bs : α) (outs : List Bytes) (recips : List (α × α)) : List Bytes :=
  ((outs.zip recips).filter (fun p => o.eq p.2.1 Bs)).map (·.1)

theorem mine_sublist (Bs : α) (outs : List Bytes) (recips : List (α × α)) : (mine o Bs outs recips).Sublist outs := by
  unfold mine
  have h1 : ((outs.zip recips).filter (fun p => o.eq p.2.1 Bs)).Sublist (outs.zip recips) := List.filter_sublist
  have h2 := h1.map (·.1)
  have h3 : ∀ (a : List Bytes) (b : List (α × α)), ((a.zip b).map (·.1)).Sublist a := by
    intro a
    induction a with
    | nil => intro b; simp
    | cons x xs ih =>
      intro b
      cases b with
      | nil => simp
      | cons y ys => simpa using (ih ys)
  have h3 := h3 outs recips
  exact h2.trans h3

theorem mine_length_le (Bs : α) (outs : List Bytes) (recips : List (α × α)) :
    (mine o Bs outs recips).length ≤ countScan o Bs recips := by
  unfold mine
  rw [List.length_map]
  induction recips generalizing outs with
  | nil => simp
  | cons r tl ih =>
    cases outs with
    | nil => simp
    | cons x xs =>
      simp only [List.zip_cons_cons, List.filter_cons, countScan]
      split <;> simp_all <;> have := ih xs <;> omega

/-- the sender's walk, for a scan key all of whose payments go to ONE address `(Bs, Bspend)`: the outputs of that
address form a chain from `k = countScan Bs before` on -/
theorem senderWalk_chain (ha : Int) (Bs Bspend : α) (recips before : List (α × α)) (outs : List Bytes)
    (hrec : ∀ r ∈ recips, o.eq r.1 Bs = true → r = (Bs, Bspend))
    (h : senderWalk o H ha before recips = .ok outs) :
    ∃ exp, exp.map Prod.fst = mine o Bs outs recips ∧
      SpChain o H (o.mul ha Bs) Bspend (countScan o Bs before) exp := by
  induction recips generalizing before outs with
  | nil => simp only [senderWalk] at h; cases h; exact ⟨[], rfl, .nil _⟩
  | cons r tl ih =>
    simp only [senderWalk] at h
    split at h
    · cases h
    rename_i x hx
    split at h
    · cases h
    rename_i xs hxs
    cases h
    obtain ⟨exp, he, hc⟩ := ih (before ++ [r]) xs (fun q hq => hrec q (List.mem_cons_of_mem _ hq)) hxs
    rw [countScan_append] at hc
    by_cases heq : o.eq r.1 Bs = true
    · have hr := hrec r List.mem_cons_self heq
      subst hr
      simp only [heq, if_true] at hc
      unfold outputKey at hx
      split at hx
      · cases hx
      rename_i t ht
      refine ⟨(x, t) :: exp, ?_, .cons ht hx hc⟩
      simp [mine, heq, he]
    · simp only [heq] at hc
      refine ⟨exp, ?_, by simpa using hc⟩
      simp [mine, heq]
      exact he

end

section
variable {α G : Type} [AddCommGroup G] {o : GroupOps α} (L : LawfulGroup o G)
variable (H : Bytes → Bytes → Bytes)

include L in
/-- **T9, end to end.** The sender pays any list of addresses (several scan keys, repeated addresses, any order) from any
input set (taproot inputs negated to even y); the recipient with scan key `b_scan` and spend point `B_spend`, all of
whose payments go to its unlabelled address, scans the transaction — its outputs contain the sender's keys (decoys and
anything else allowed, any order) — with the input public keys it sees (even-y points for taproot inputs) and no
labels. Then whatever the scan answers STARTS with this recipient's outputs, in address order, each with its tweak:
every output the sender created for that address is found (and, by `scanOutputs_sound`, opened by `b_spend + tweak`). -/
theorem sp_end_to_end (keys : List (Int × Bool)) (outpoints : List Bytes) (recips : List (α × α)) (outs : List Bytes)
    (hsend : outputKeysWalk o H keys outpoints recips = .ok outs)
    (bScan : Int) (hb : 0 < bScan ∧ bScan < o.n) (Bspend : α)
    (hrec : ∀ r ∈ recips, o.eq r.1 (o.mul bScan o.gen) = true → r = (o.mul bScan o.gen, Bspend))
    (txOuts : List Bytes) (hsub : outs.Subperm txOuts) (res : List (Bytes × Int))
    (hscan : scanTransactionOutputs o H bScan Bspend outpoints (keys.map fun k => spInputPoint o k.1 k.2) txOuts []
      = .ok res) :
    ∃ exp, exp <+: res ∧ exp.map Prod.fst = mine o (o.mul bScan o.gen) outs recips := by
  -- the sender
  unfold outputKeysWalk at hsend
  split at hsend
  · cases hsend
  rename_i a ha
  split at hsend
  · cases hsend
  rename_i lowest hl
  split at hsend
  · cases hsend
  rename_i h hih
  split at hsend
  · cases hsend
  rename_i hkmax
  split at hsend
  · cases hsend
  -- the scanner
  unfold scanTransactionOutputs at hscan
  split at hscan
  · cases hscan
  rename_i A hA
  rw [hl] at hscan
  simp only at hscan
  obtain ⟨hihA, htw⟩ := LG.sp_agreement L H keys a ha A hA lowest h hih bScan hb
  rw [hihA] at hscan
  simp only at hscan
  unfold scanOutputs at hscan
  split at hscan
  · cases hscan
  split at hscan
  · cases hscan
  -- the chain
  obtain ⟨exp, he, hc⟩ := senderWalk_chain H (h * a % o.n) (o.mul bScan o.gen) Bspend recips [] outs hrec hsend
  have hc' : SpChain o H (o.mul bScan (o.mul h A)) Bspend 0 exp := SpChain.congr H htw hc
  have hlen : exp.length ≤ Gen.Interactive.SP_K_MAX := by
    have e1 : exp.length = (mine o (o.mul bScan o.gen) outs recips).length := by rw [← he, List.length_map]
    rw [e1]
    cases hm : mine o (o.mul bScan o.gen) outs recips with
    | nil => simp
    | cons x xs =>
      rw [← hm]
      refine le_trans (mine_length_le _ outs recips) ?_
      -- some recipient has this scan key: the K_MAX check of `output_keys` bounds its group
      have hx : x ∈ mine o (o.mul bScan o.gen) outs recips := by rw [hm]; exact List.mem_cons_self
      unfold mine at hx
      obtain ⟨pr, hpr, -⟩ := List.mem_map.mp hx
      obtain ⟨hz, heq⟩ := List.mem_filter.mp hpr
      have hmem : pr.2 ∈ recips := (List.of_mem_zip (show (pr.1, pr.2) ∈ outs.zip recips from hz)).2
      have hr := hrec pr.2 hmem heq
      have hk : ¬ (countScan o pr.2.1 recips > Gen.Interactive.SP_K_MAX) := by
        intro hgt
        apply hkmax
        rw [List.any_eq_true]
        exact ⟨pr.2, hmem, decide_eq_true hgt⟩
      rw [hr] at hk
      exact not_lt.mp hk
  have hsp : (exp.map Prod.fst).Subperm txOuts := by
    rw [he]; exact (mine_sublist _ outs recips).subperm.trans hsub
  exact ⟨exp, scanLoop_complete_unlabelled H _ Bspend exp 0 _ hc' hlen txOuts hsp res hscan, he⟩

end
end Btc.C16
