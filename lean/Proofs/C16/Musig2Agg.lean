import Proofs.C16.Musig2
/-
C16 — MuSig2 proofs, second part: honest sessions (T3 aggregate, T4 adaptor) and the
"BIP340 equation ⇒ `bip340Verify`" lemma they rest on.
-/
namespace Btc.C16
open Btc Btc.Py

/-- one honest signer: its secret key and the two secret nonces of the session -/
structure Signer where
  d : Int
  k1 : Int
  k2 : Int

section
variable {α G : Type} [AddCommGroup G] {o : GroupOps α} (L : Lawful o G)
variable (H : Bytes → Bytes → Bytes)

/-- all three secrets are scalars in `1..n-1` -/
def Signer.ok (o : GroupOps α) (t : Signer) : Prop :=
  (0 < t.d ∧ t.d < o.n) ∧ (0 < t.k1 ∧ t.k1 < o.n) ∧ (0 < t.k2 ∧ t.k2 < o.n)

/-- the signer's plain public key (`individual_pub_key`) -/
def Signer.pk (o : GroupOps α) (t : Signer) : Bytes := individualPubKey o t.d

/-- the signer's public nonce (`nonce_gen_`'s second answer for these secret nonces) -/
def Signer.pubNonce (o : GroupOps α) (t : Signer) : Bytes :=
  cbytes o (o.mul t.k1 o.gen) ++ cbytes o (o.mul t.k2 o.gen)

/-! ### BIP340: the verification equation implies `bip340Verify` -/

include L in
theorem evenRep (P : α) (hP : L.abs P ≠ 0) :
    ∃ P', L.abs P' = (if evenY o P then L.abs P else - L.abs P) ∧ o.y P' % 2 = 0 ∧ o.x P' = o.x P := by
  by_cases he : evenY o P = true
  · exact ⟨P, by simp [he], (evenY_iff P).mp he, rfl⟩
  · refine ⟨o.neg P, by simp [he, L.abs_neg], ?_, L.x_neg P⟩
    exact (L.y_neg P hP).mpr (fun h => he ((evenY_iff P).mpr h))

include L in
/-- If `s•G = R' + e•Q'` with `R'`, `Q'` the even-y representatives of `R ≠ 0`, `Q ≠ 0` and `e` the
BIP340 challenge of `(x R, x Q, msg)`, non-zero, then `(x R, s)` verifies under the x-only key `x Q`. -/
theorem bip340Verify_of_equation (Q Rn : α) (hQ : L.abs Q ≠ 0) (hR : L.abs Rn ≠ 0) (msg : Bytes)
    (s : Int) (hs0 : 0 ≤ s) (hs1 : s < o.n)
    (he : challenge o H (o.x Rn) (o.x Q) msg ≠ 0)
    (heq : s • L.abs o.gen = (if evenY o Rn then L.abs Rn else - L.abs Rn)
      + challenge o H (o.x Rn) (o.x Q) msg • (if evenY o Q then L.abs Q else - L.abs Q)) :
    bip340Verify o H (o.x Q) msg (o.x Rn) s = true := by
  obtain ⟨R1, hl1, -, -⟩ := liftX_x L Rn hR
  obtain ⟨P, hlP, -, hPa⟩ := liftX_x L Q hQ
  obtain ⟨R', hR'a, hR'y, hR'x⟩ := evenRep L Rn hR
  have hPa' : L.abs P = (if evenY o Q then L.abs Q else - L.abs Q) := by
    rw [hPa]; by_cases h : o.y Q % 2 = 0
    · simp [h, (evenY_iff Q).mpr h]
    · have : evenY o Q = false := by
        cases h' : evenY o Q with
        | false => rfl
        | true => exact absurd ((evenY_iff Q).mp h') h
      simp [h, this]
  unfold bip340Verify
  simp only [hl1, hlP, hs0, hs1, decide_true, Bool.and_self, Bool.not_true, Bool.false_eq_true,
    if_false, he]
  set e := challenge o H (o.x Rn) (o.x Q) msg with hedef
  -- the recomputed nonce point
  have hK : L.abs (o.dmul (o.n - e) P s o.gen) = L.abs R' := by
    rw [L.abs_dmul, sub_smul, L.order, zero_sub, heq, hPa', hR'a]; abel
  have hR'0 : L.abs R' ≠ 0 := by
    rw [hR'a]; split
    · exact hR
    · exact neg_ne_zero.mpr hR
  have hK0 : L.abs (o.dmul (o.n - e) P s o.gen) ≠ 0 := by rw [hK]; exact hR'0
  have hz : o.isZero (o.dmul (o.n - e) P s o.gen) = false := by
    cases hzz : o.isZero (o.dmul (o.n - e) P s o.gen) with
    | false => rfl
    | true => exact absurd ((L.isZero_iff _).mp hzz) hK0
  have hy : evenY o (o.dmul (o.n - e) P s o.gen) = true :=
    (evenY_iff _).mpr ((L.y_congr _ R' hK hK0).mpr hR'y)
  have hx : o.x (o.dmul (o.n - e) P s o.gen) = o.x Rn := by
    rw [← hR'x]; exact (L.x_eq_iff _ R' hK0 hR'0).mpr (Or.inl hK)
  simp [hz, hy, hx]

/-! ### honest key aggregation and nonce aggregation -/

include L in
theorem keyAggSum_honest (hp : o.p ≤ 256 ^ 32) (Lh sec : Bytes) (l : List Signer)
    (hl : ∀ t ∈ l, t.ok o) :
    ∃ S, keyAggSum o H Lh sec (l.map (Signer.pk o)) = .ok S ∧
      L.abs S = ((l.map (fun t => keyAggCoeff o H Lh sec (t.pk o) * t.d)).sum) • L.abs o.gen := by
  induction l with
  | nil => exact ⟨o.zero, rfl, by simp [L.abs_zero]⟩
  | cons t tl ih =>
    obtain ⟨S, hS, hSa⟩ := ih (fun u hu => hl u (List.mem_cons_of_mem _ hu))
    have ht := hl t List.mem_cons_self
    have hD : L.abs (o.mul t.d o.gen) ≠ 0 := by
      rw [L.abs_mul]; exact smul_ne_zero L ht.1.1 ht.1.2 _ L.gen_ne_zero
    obtain ⟨P, hcP, hPa⟩ := cpoint_cbytes L hp _ hD
    refine ⟨o.add (o.mul (keyAggCoeff o H Lh sec (t.pk o)) P) S, ?_, ?_⟩
    · simp only [List.map_cons, keyAggSum]
      unfold Signer.pk individualPubKey at hS ⊢
      rw [hcP]; simp only [hS]
    · rw [L.abs_add, L.abs_mul, hPa, L.abs_mul, hSa, List.map_cons, List.sum_cons, add_smul, smul_smul]

include L in
theorem parseAll_honest (hp : o.p ≤ 256 ^ 32) (f : Signer → Int) (l : List Signer)
    (hf : ∀ t ∈ l, 0 < f t ∧ f t < o.n) :
    ∃ Ps, parseAll (cpoint o) (l.map (fun t => cbytes o (o.mul (f t) o.gen))) = .ok Ps ∧
      L.abs (sumPoints o Ps) = ((l.map f).sum) • L.abs o.gen := by
  induction l with
  | nil => exact ⟨[], rfl, by simp [sumPoints, L.abs_zero]⟩
  | cons t tl ih =>
    obtain ⟨Ps, hPs, hPa⟩ := ih (fun u hu => hf u (List.mem_cons_of_mem _ hu))
    have ht := hf t List.mem_cons_self
    have hD : L.abs (o.mul (f t) o.gen) ≠ 0 := by
      rw [L.abs_mul]; exact smul_ne_zero L ht.1 ht.2 _ L.gen_ne_zero
    obtain ⟨P, hcP, hP⟩ := cpoint_cbytes L hp _ hD
    refine ⟨P :: Ps, ?_, ?_⟩
    · simp only [List.map_cons, parseAll, hcP, hPs]
    · simp only [sumPoints, L.abs_add, hP, L.abs_mul, hPa, List.map_cons, List.sum_cons, add_smul]

theorem length_pubNonce (t : Signer) : (t.pubNonce o).length = nonceSize := by
  simp [Signer.pubNonce, length_cbytes, nonceSize_eq]

include L in
/-- honest `nonce_agg`: the two halves are the sums of the signers' nonce points -/
theorem nonceAgg_honest (hp : o.p ≤ 256 ^ 32) (l : List Signer) (hl : ∀ t ∈ l, t.ok o) :
    ∃ S1 S2, nonceAgg o (l.map (Signer.pubNonce o)) = .ok (cbytesExt o S1 ++ cbytesExt o S2) ∧
      L.abs S1 = ((l.map Signer.k1).sum) • L.abs o.gen ∧
      L.abs S2 = ((l.map Signer.k2).sum) • L.abs o.gen := by
  obtain ⟨P1, h1, h1a⟩ := parseAll_honest L hp Signer.k1 l (fun t ht => (hl t ht).2.1)
  obtain ⟨P2, h2, h2a⟩ := parseAll_honest L hp Signer.k2 l (fun t ht => (hl t ht).2.2)
  refine ⟨sumPoints o P1, sumPoints o P2, ?_, h1a, h2a⟩
  unfold nonceAgg
  have hany : (l.map (Signer.pubNonce o)).any (fun pn => decide (pn.length ≠ nonceSize)) = false := by
    simp [length_pubNonce]
  rw [if_neg (by rw [hany]; simp)]
  have e1 : (l.map (Signer.pubNonce o)).map (fun x => x.take pkSize)
      = l.map (fun t => cbytes o (o.mul t.k1 o.gen)) := by
    rw [List.map_map]; apply List.map_congr_left; intro t _
    exact take_cbytes_append (o.mul t.k1 o.gen) (o.mul t.k2 o.gen)
  have e2 : (l.map (Signer.pubNonce o)).map (fun x => x.drop pkSize)
      = l.map (fun t => cbytes o (o.mul t.k2 o.gen)) := by
    rw [List.map_map]; apply List.map_congr_left; intro t _
    exact drop_cbytes_append (o.mul t.k1 o.gen) (o.mul t.k2 o.gen)
  rw [e1, e2, h1, h2]

theorem length_cbytesExt (P : α) : (cbytesExt o P).length = pkSize := by
  unfold cbytesExt
  split
  · rfl
  · exact length_cbytes P

/-! ### the session built on an honest aggregate nonce -/

include L in
/-- `session_values`' points for an aggregate nonce `cbytes_ext S₁ ‖ cbytes_ext S₂`, no adaptor -/
theorem sessionPoints_inv (hp : o.p ≤ 256 ^ 32) (S1 S2 : α) (s : SessionCtx)
    (han : s.aggNonce = cbytesExt o S1 ++ cbytesExt o S2) (had : s.adaptor = none)
    {kc : KeyAggCtx α} {R1 R2 : α} (h : sessionPoints o H s = .ok (kc, R1, R2)) :
    keyAggAndTweak o H s.pubKeys s.tweaks = .ok kc ∧ L.abs R1 = L.abs S1 ∧ L.abs R2 = L.abs S2 := by
  obtain ⟨Q1, hq1, hq1a⟩ := cpointExt_cbytesExt L hp S1
  obtain ⟨Q2, hq2, hq2a⟩ := cpointExt_cbytesExt L hp S2
  unfold sessionPoints at h
  rw [han, List.take_left' (length_cbytesExt S1), List.drop_left' (length_cbytesExt S1), hq1, hq2, had] at h
  split at h
  · cases h
  · rename_i kc' hkc
    simp only [Except.ok.injEq, Prod.mk.injEq] at h
    obtain ⟨rfl, rfl, rfl⟩ := h
    exact ⟨hkc, hq1a, hq2a⟩

include L in
/-- the same with an adaptor `T = t•G` folded into `R₁` -/
theorem sessionPoints_inv_adaptor (hp : o.p ≤ 256 ^ 32) (S1 S2 : α) (s : SessionCtx) (t : Int)
    (ht0 : 0 < t) (ht1 : t < o.n)
    (han : s.aggNonce = cbytesExt o S1 ++ cbytesExt o S2)
    (had : s.adaptor = some (cbytes o (o.mul t o.gen)))
    {kc : KeyAggCtx α} {R1 R2 : α} (h : sessionPoints o H s = .ok (kc, R1, R2)) :
    keyAggAndTweak o H s.pubKeys s.tweaks = .ok kc ∧ L.abs R1 = L.abs S1 + t • L.abs o.gen
      ∧ L.abs R2 = L.abs S2 := by
  obtain ⟨Q1, hq1, hq1a⟩ := cpointExt_cbytesExt L hp S1
  obtain ⟨Q2, hq2, hq2a⟩ := cpointExt_cbytesExt L hp S2
  have hT : L.abs (o.mul t o.gen) ≠ 0 := by
    rw [L.abs_mul]; exact smul_ne_zero L ht0 ht1 _ L.gen_ne_zero
  obtain ⟨T, hcT, hTa⟩ := cpoint_cbytes L hp _ hT
  unfold sessionPoints at h
  rw [han, List.take_left' (length_cbytesExt S1), List.drop_left' (length_cbytesExt S1), hq1, hq2, had] at h
  simp only [hcT] at h
  split at h
  · cases h
  · rename_i kc' hkc
    simp only [Except.ok.injEq, Prod.mk.injEq] at h
    obtain ⟨rfl, rfl, rfl⟩ := h
    exact ⟨hkc, by rw [L.abs_add, hq1a, hTa, L.abs_mul], hq2a⟩

theorem sessionValues_inv {s : SessionCtx} {v : SessionValues α} (h : sessionValues o H s = .ok v) :
    ∃ kc R1 R2, sessionPoints o H s = .ok (kc, R1, R2) ∧ v.Q = kc.Q ∧ v.gacc = kc.gacc ∧ v.tacc = kc.tacc
      ∧ v.b = nonceCoeff o H kc R1 R2 s.msg ∧ v.R = finalNonce o v.b R1 R2
      ∧ v.e = challenge o H (o.x v.R) (o.x v.Q) s.msg ∧ v.e ≠ 0
      ∧ v.L = hashPubKeys H s.pubKeys ∧ v.second = secondPubKey s.pubKeys := by
  unfold sessionValues at h
  split at h
  · cases h
  · rename_i kc R1 R2 hsp
    dsimp only at h
    split at h
    · cases h
    · rename_i he
      cases h
      exact ⟨kc, R1, R2, hsp, rfl, rfl, rfl, rfl, rfl, rfl, he, rfl, rfl⟩


/-! ### scalars: everything in an honest session is a multiple of `G` -/

include L in
theorem smul_ne_zero_of_mod {m : Int} (hm : m % o.n ≠ 0) (P : α) (hP : L.abs P ≠ 0) : m • L.abs P ≠ 0 := by
  rw [← L.zsmul_mod]
  have h0 : 0 ≤ m % o.n := Int.emod_nonneg _ (ne_of_gt L.n_pos)
  exact smul_ne_zero L (lt_of_le_of_ne h0 (Ne.symm hm)) (Int.emod_lt_of_pos _ L.n_pos) P hP

/-- sign of the even-y representative, as a scalar -/
def sgn (o : GroupOps α) (P : α) : Int := if evenY o P then 1 else -1

include L in
theorem gOf_cast' (Q : α) : ((gOf o Q : Int) : ZMod (N o)) = ((sgn o Q : Int) : ZMod (N o)) := by
  rw [gOf_cast L]; unfold sgn; split <;> simp

include L in
/-- BIP340 verification from a scalar identity: `Q = qq•G`, `R = rr•G`, and
`s ≡ sgn(R)·rr + e·sgn(Q)·qq (mod n)`. -/
theorem bip340Verify_of_scalars (Q Rn : α) (qq rr : Int) (hQa : L.abs Q = qq • L.abs o.gen)
    (hRa : L.abs Rn = rr • L.abs o.gen) (hQ : L.abs Q ≠ 0) (hR : L.abs Rn ≠ 0) (msg : Bytes)
    (s : Int) (hs0 : 0 ≤ s) (hs1 : s < o.n)
    (he : challenge o H (o.x Rn) (o.x Q) msg ≠ 0)
    (hc : (s : ZMod (N o)) = ((sgn o Rn * rr + challenge o H (o.x Rn) (o.x Q) msg * (sgn o Q * qq) : Int)
      : ZMod (N o))) :
    bip340Verify o H (o.x Q) msg (o.x Rn) s = true := by
  apply bip340Verify_of_equation L H Q Rn hQ hR msg s hs0 hs1 he
  rw [smul_eq_of_cast L o.gen hc, add_smul, mul_smul, mul_smul, mul_smul, ← hQa, ← hRa]
  unfold sgn
  congr 1
  · split <;> simp
  · congr 1; split <;> simp

include L in
theorem sumPsigs_honest (hn : o.n ≤ 256 ^ 32) (sigs : List Int) (h : ∀ σ ∈ sigs, 0 ≤ σ ∧ σ < o.n)
    (acc : Int) :
    ∃ r, sumPsigs o.n (sigs.map sBytes) acc = .ok r ∧
      ((r : Int) : ZMod (N o)) = ((acc + sigs.sum : Int) : ZMod (N o)) := by
  induction sigs generalizing acc with
  | nil => exact ⟨acc, rfl, by simp⟩
  | cons σ tl ih =>
    have hσ := h σ List.mem_cons_self
    have hfb : fromBytesBE (sBytes σ) = σ := fromBytesBE_sBytes hσ.1 (by omega)
    obtain ⟨r, hr, hrc⟩ := ih (fun u hu => h u (List.mem_cons_of_mem _ hu)) ((acc + σ) % o.n)
    refine ⟨r, ?_, ?_⟩
    · simp only [List.map_cons, sumPsigs, length_sBytes, scalarSize_eq, ne_eq, not_true_eq_false,
        if_false, hfb, ge_iff_le, not_le.mpr hσ.2]
      exact hr
    · rw [hrc, List.sum_cons]
      generalize tl.sum = T
      push_cast [cast_mod L]; ring

include L in
/-- the partial signatures of an honest signer list, summed (in `ZMod n`) -/
theorem sum_sigs {s : SessionCtx} {v : SessionValues α} (hv : sessionValues o H s = .ok v)
    (l : List Signer) (sigs : List Int)
    (hs : List.Forall₂ (fun t σ => sign o H t.k1 t.k2 (t.pk o) t.d s = .ok σ) l sigs) :
    (∀ σ ∈ sigs, 0 ≤ σ ∧ σ < o.n) ∧
    ((sigs.sum : Int) : ZMod (N o)) =
      ((sgn o v.R * ((l.map Signer.k1).sum + v.b * (l.map Signer.k2).sum)
        + v.e * (sgn o v.Q * (v.gacc *
            (l.map (fun t => keyAggCoeff o H v.L v.second (t.pk o) * t.d)).sum)) : Int) : ZMod (N o)) := by
  induction hs with
  | nil => exact ⟨by simp, by simp⟩
  | @cons t σ tl stl h1 _ ih =>
    obtain ⟨v', hv', -, -, -, -, -, hσ⟩ := sign_ok_inv H h1
    rw [hv] at hv'
    cases hv'
    refine ⟨?_, ?_⟩
    · intro u hu
      rcases List.mem_cons.mp hu with rfl | hu
      · rw [hσ]; exact ⟨Int.emod_nonneg _ (ne_of_gt L.n_pos), Int.emod_lt_of_pos _ L.n_pos⟩
      · exact ih.1 u hu
    · obtain ⟨-, ih2⟩ := ih
      simp only [List.sum_cons, List.map_cons]
      generalize (tl.map Signer.k1).sum = A at ih2 ⊢
      generalize (tl.map Signer.k2).sum = B at ih2 ⊢
      generalize (tl.map (fun t => keyAggCoeff o H v.L v.second (t.pk o) * t.d)).sum = C at ih2 ⊢
      generalize stl.sum = D at ih2 ⊢
      push_cast at ih2 ⊢
      rw [ih2, hσ]
      unfold Signer.pk sgn
      push_cast [cast_mod L, cast_n L, gOf_cast L]
      split <;> split <;> ring

include L in
/-- the core of T3/T4: in a session whose key list is that of honest signers and whose nonce halves
are `r₁•G`, `r₂•G` with `R = (r₁ + b r₂)•G ≠ 0`, the aggregate of the honest partial signatures is
`s ≡ sgn(R)(Σk₁ + bΣk₂) + e·sgn(Q)·q (mod n)` where `Q = q•G`. -/
theorem honest_core (hp : o.p ≤ 256 ^ 32) (hn : o.n ≤ 256 ^ 32) (l : List Signer)
    (hl : ∀ t ∈ l, t.ok o) (s : SessionCtx) (hpk : s.pubKeys = l.map (Signer.pk o))
    {v : SessionValues α} (hv : sessionValues o H s = .ok v) (r1 r2 : Int)
    (hpts : ∀ kc R1 R2, sessionPoints o H s = .ok (kc, R1, R2) →
      keyAggAndTweak o H s.pubKeys s.tweaks = .ok kc ∧ L.abs R1 = r1 • L.abs o.gen
        ∧ L.abs R2 = r2 • L.abs o.gen)
    (hR : (r1 + v.b * r2) % o.n ≠ 0)
    (sigs : List Int)
    (hs : List.Forall₂ (fun t σ => sign o H t.k1 t.k2 (t.pk o) t.d s = .ok σ) l sigs) :
    L.abs v.R = (r1 + v.b * r2) • L.abs o.gen ∧ L.abs v.R ≠ 0 ∧
    v.e = challenge o H (o.x v.R) (o.x v.Q) s.msg ∧ v.e ≠ 0 ∧
    ∃ qq, L.abs v.Q = qq • L.abs o.gen ∧ L.abs v.Q ≠ 0 ∧
      ∃ sg, aggS o H (sigs.map sBytes) s = .ok (o.x v.R, sg) ∧ 0 ≤ sg ∧ sg < o.n ∧
        ((sg : Int) : ZMod (N o)) =
          ((sgn o v.R * ((l.map Signer.k1).sum + v.b * (l.map Signer.k2).sum)
            + v.e * (sgn o v.Q * qq) : Int) : ZMod (N o)) := by
  obtain ⟨kc, R1, R2, hsp, hvQ, hvg, hvt, hvb, hvR, hve, hve0, hvL, hvs⟩ := sessionValues_inv H hv
  obtain ⟨hkat, hR1, hR2⟩ := hpts kc R1 R2 hsp
  obtain ⟨c0, hc0, hz, hinv⟩ := keyAggAndTweak_invariant L H hkat
  obtain ⟨hsum, -, -, -⟩ := keyAgg_ok_inv H hc0
  obtain ⟨S, hS, hSa⟩ := keyAggSum_honest L H hp (hashPubKeys H (l.map (Signer.pk o)))
    (secondPubKey (l.map (Signer.pk o))) l hl
  rw [hpk] at hsum
  rw [hsum] at hS
  cases hS
  -- the final nonce
  have hR0a : L.abs (o.add R1 (o.mul v.b R2)) = (r1 + v.b * r2) • L.abs o.gen := by
    rw [L.abs_add, L.abs_mul, hR1, hR2, add_smul, mul_smul]
  have hR0n : L.abs (o.add R1 (o.mul v.b R2)) ≠ 0 := by
    rw [hR0a]; exact smul_ne_zero_of_mod L hR _ L.gen_ne_zero
  have hfin : v.R = o.add R1 (o.mul v.b R2) := by
    rw [hvR]; unfold finalNonce
    have : o.isZero (o.add R1 (o.mul v.b R2)) = false := by
      cases hzz : o.isZero (o.add R1 (o.mul v.b R2)) with
      | false => rfl
      | true => exact absurd ((L.isZero_iff _).mp hzz) hR0n
    simp [this]
  have hQn : L.abs v.Q ≠ 0 := by
    rw [hvQ]; intro h0
    have := (L.isZero_iff _).mpr h0
    rw [hz] at this; cases this
  refine ⟨by rw [hfin]; exact hR0a, by rw [hfin]; exact hR0n, hve, hve0, ?_⟩
  set q0 := (l.map (fun t => keyAggCoeff o H (hashPubKeys H (l.map (Signer.pk o)))
      (secondPubKey (l.map (Signer.pk o))) (t.pk o) * t.d)).sum with hq0
  refine ⟨kc.gacc * q0 + kc.tacc, ?_, hQn, ?_⟩
  · rw [hvQ, hinv, hSa, add_smul, mul_smul]
  obtain ⟨hrange, hsumc⟩ := sum_sigs L H hv l sigs hs
  obtain ⟨sm, hsm, hsmc⟩ := sumPsigs_honest L hn sigs hrange 0
  refine ⟨(sm + v.e * gOf o v.Q * v.tacc) % o.n, ?_, Int.emod_nonneg _ (ne_of_gt L.n_pos),
    Int.emod_lt_of_pos _ L.n_pos, ?_⟩
  · unfold aggS; rw [hv]; simp only [hsm]
  · rw [hvL, hvs, hpk, ← hq0, hvg] at hsumc
    rw [zero_add] at hsmc
    generalize (l.map Signer.k1).sum = A at hsumc ⊢
    generalize (l.map Signer.k2).sum = B at hsumc ⊢
    generalize sigs.sum = D at hsumc hsmc
    push_cast [cast_mod L] at hsumc hsmc ⊢
    rw [hsmc, hsumc, hvt, gOf_cast' L]; ring


/-- the session context of an honest run -/
def honestCtx (o : GroupOps α) (l : List Signer) (an : Bytes) (tweaks : List (Bytes × Bool)) (msg : Bytes)
    (adaptor : Option Bytes) : SessionCtx :=
  ⟨an, l.map (Signer.pk o), tweaks, msg, adaptor⟩

include L in
/-- **T3.** -/
theorem aggregate_verifies (hp : o.p ≤ 256 ^ 32) (hn : o.n ≤ 256 ^ 32) (l : List Signer)
    (hl : ∀ t ∈ l, t.ok o) (tweaks : List (Bytes × Bool)) (msg an : Bytes)
    (han : nonceAgg o (l.map (Signer.pubNonce o)) = .ok an)
    {v : SessionValues α} (hv : sessionValues o H (honestCtx o l an tweaks msg none) = .ok v)
    (hR : ((l.map Signer.k1).sum + v.b * (l.map Signer.k2).sum) % o.n ≠ 0)
    (sigs : List Int)
    (hs : List.Forall₂ (fun t σ => sign o H t.k1 t.k2 (t.pk o) t.d (honestCtx o l an tweaks msg none) = .ok σ)
      l sigs) :
    ∃ r sg, partialSigAgg o H (sigs.map sBytes) (honestCtx o l an tweaks msg none) = .ok (r, sg) ∧
      bip340Verify o H (o.x v.Q) msg r sg = true := by
  obtain ⟨S1, S2, hna, hS1, hS2⟩ := nonceAgg_honest L hp l hl
  rw [han] at hna
  have han' : an = cbytesExt o S1 ++ cbytesExt o S2 := Except.ok.inj hna
  obtain ⟨hRa, hRn, hve, hve0, qq, hQa, hQn, sg, hagg, hsg0, hsg1, hsgc⟩ :=
    honest_core L H hp hn l hl (honestCtx o l an tweaks msg none) rfl hv _ _
      (fun kc R1 R2 hsp => by
        obtain ⟨h1, h2, h3⟩ := sessionPoints_inv L H hp S1 S2 _ han' rfl hsp
        exact ⟨h1, h2.trans hS1, h3.trans hS2⟩) hR sigs hs
  refine ⟨o.x v.R, sg, ?_, ?_⟩
  · unfold partialSigAgg; simpa [honestCtx] using hagg
  · have hmsg : (honestCtx o l an tweaks msg none).msg = msg := rfl
    rw [hmsg] at hve
    refine bip340Verify_of_scalars L H v.Q v.R qq _ hQa hRa hQn hRn msg sg hsg0 hsg1 (hve ▸ hve0) ?_
    rw [← hve]; exact hsgc

include L in
/-- **T4.** -/
theorem adaptor_completes (hp : o.p ≤ 256 ^ 32) (hn : o.n ≤ 256 ^ 32) (l : List Signer)
    (hl : ∀ t ∈ l, t.ok o) (tweaks : List (Bytes × Bool)) (msg an : Bytes) (t : Int)
    (ht0 : 0 < t) (ht1 : t < o.n)
    (han : nonceAgg o (l.map (Signer.pubNonce o)) = .ok an)
    {v : SessionValues α}
    (hv : sessionValues o H (honestCtx o l an tweaks msg (some (cbytes o (o.mul t o.gen)))) = .ok v)
    (hR : (((l.map Signer.k1).sum + t) + v.b * (l.map Signer.k2).sum) % o.n ≠ 0)
    (sigs : List Int)
    (hs : List.Forall₂ (fun u σ => sign o H u.k1 u.k2 (u.pk o) u.d
      (honestCtx o l an tweaks msg (some (cbytes o (o.mul t o.gen)))) = .ok σ) l sigs) :
    ∃ pre sig,
      partialSigAggAdaptor o H (sigs.map sBytes) (honestCtx o l an tweaks msg (some (cbytes o (o.mul t o.gen))))
        = .ok pre ∧
      adapt o H pre t (honestCtx o l an tweaks msg (some (cbytes o (o.mul t o.gen)))) = .ok sig ∧
      bip340Verify o H (o.x v.Q) msg sig.1 sig.2 = true ∧
      extractAdaptor o H sig pre (honestCtx o l an tweaks msg (some (cbytes o (o.mul t o.gen)))) = .ok t := by
  obtain ⟨S1, S2, hna, hS1, hS2⟩ := nonceAgg_honest L hp l hl
  rw [han] at hna
  have han' : an = cbytesExt o S1 ++ cbytesExt o S2 := Except.ok.inj hna
  set s := honestCtx o l an tweaks msg (some (cbytes o (o.mul t o.gen))) with hsdef
  obtain ⟨hRa, hRn, hve, hve0, qq, hQa, hQn, sg, hagg, hsg0, hsg1, hsgc⟩ :=
    honest_core L H hp hn l hl s rfl hv _ _
      (fun kc R1 R2 hsp => by
        obtain ⟨h1, h2, h3⟩ := sessionPoints_inv_adaptor L H hp S1 S2 s t ht0 ht1 han' rfl hsp
        refine ⟨h1, ?_, h3.trans hS2⟩
        rw [h2, hS1, add_smul]) hR sigs hs
  obtain ⟨Rl, hRl, -, -⟩ := liftX_x L v.R hRn
  have htok : scalarOk o t = true := (scalarOk_iff t).mpr ⟨ht0, ht1⟩
  set t' : Int := if evenY o v.R then t else o.n - t with ht'
  refine ⟨(o.x v.R, sg), (o.x v.R, (sg + t') % o.n), ?_, ?_, ?_, ?_⟩
  · unfold partialSigAggAdaptor; simpa [s, honestCtx] using hagg
  · unfold adapt; rw [hv]; simp [htok, hRl, ht']
  · have hmsg : s.msg = msg := rfl
    rw [hmsg] at hve
    refine bip340Verify_of_scalars L H v.Q v.R qq _ hQa hRa hQn hRn msg _
      (Int.emod_nonneg _ (ne_of_gt L.n_pos)) (Int.emod_lt_of_pos _ L.n_pos) (hve ▸ hve0) ?_
    rw [← hve]
    generalize (l.map Signer.k1).sum = A at hsgc ⊢
    generalize (l.map Signer.k2).sum = B at hsgc ⊢
    push_cast [cast_mod L] at hsgc ⊢
    rw [hsgc, ht']; unfold sgn
    split <;> push_cast [cast_n L] <;> ring
  · unfold extractAdaptor; rw [hv]
    simp only [Except.ok.injEq]
    have hnpos := L.n_pos
    have e1 : ((sg + t') % o.n - sg) % o.n = t' % o.n := by
      rw [Int.emod_sub_emod]; congr 1; ring
    rw [e1, ht']
    by_cases hev : evenY o v.R = true
    · simp only [hev, if_true]; exact Int.emod_eq_of_lt (le_of_lt ht0) ht1
    · simp only [hev]
      simp only [Bool.false_eq_true, if_false]
      have h1 : (o.n - t) % o.n = o.n - t := Int.emod_eq_of_lt (by omega) (by omega)
      have : -(o.n - t) = t + (-1) * o.n := by ring
      rw [h1, this, Int.add_mul_emod_self_right]; exact Int.emod_eq_of_lt (le_of_lt ht0) ht1

end
end Btc.C16
