import Proofs.C16.Basic
import Model.C16.Pedersen
/- C16 — Pedersen: an honest commitment opens (T10), commitments add. -/
namespace Btc.C16
open Btc Btc.Py

section
variable {α G : Type} [AddCommGroup G] {o : GroupOps α} (L : Lawful o G)

include L in
theorem pedersen_verify_commit (Hp : α) (r v : Int) (C : α) (h : pedersenCommit o Hp r v = .ok C) :
    pedersenVerify o Hp r v C = true := by
  unfold pedersenVerify
  rw [h]
  exact (L.eq_iff C C).mpr rfl

include L in
/-- a point opens as `(r, v)` exactly when it is `r•G + v•H` (and that is not ∞) -/
theorem pedersen_verify_iff (Hp : α) (r v : Int) (C : α) :
    pedersenVerify o Hp r v C = true ↔
      L.abs C = r • L.abs o.gen + v • L.abs Hp ∧ L.abs C ≠ 0 := by
  unfold pedersenVerify pedersenCommit
  have hab : L.abs (o.dmul v Hp r o.gen) = r • L.abs o.gen + v • L.abs Hp := by
    rw [L.abs_dmul, add_comm]
  by_cases hz : o.isZero (o.dmul v Hp r o.gen) = true
  · simp only [hz, if_true]
    have h0 := (L.isZero_iff _).mp hz
    constructor
    · intro h; cases h
    · rintro ⟨h1, h2⟩; exact absurd (by rw [h1, ← hab, h0]) h2
  · simp only [hz]
    have hne : L.abs (o.dmul v Hp r o.gen) ≠ 0 := fun h0 => hz ((L.isZero_iff _).mpr h0)
    simp only [Bool.false_eq_true, if_false]
    rw [L.eq_iff, hab]
    constructor
    · intro h; exact ⟨h, by rw [h, ← hab]; exact hne⟩
    · exact fun h => h.1

include L in
/-- commitments are additively homomorphic -/
theorem pedersen_add (Hp : α) (r1 v1 r2 v2 : Int) :
    L.abs (o.dmul (v1 + v2) Hp (r1 + r2) o.gen)
      = L.abs (o.dmul v1 Hp r1 o.gen) + L.abs (o.dmul v2 Hp r2 o.gen) := by
  rw [L.abs_dmul, L.abs_dmul, L.abs_dmul, add_smul, add_smul]; abel

end
end Btc.C16
