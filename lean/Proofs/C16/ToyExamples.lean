import Proofs.C12.Toy
import Proofs.C16.Musig2Agg
/-
C16 — non-vacuity: the JOINT hypotheses of the MuSig2 theorems T2–T4 hold on a concrete session over a
lawful group (ℤ/3 with the x / parity / lift_x maps of `Proofs/C12/Toy.lean`, `Lawful` PROVED there),
evaluated by the kernel: two signers using the SAME key (duplicates allowed), an x-only tweak that
negates an odd-y aggregate followed by a plain tweak, a constant "hash".  Props/C16.lean instantiates
T2, T3 and T4 on it with no hypothesis left.
-/
namespace Btc.C16.ToyEx
open Btc Btc.C16 Btc.Taproot

deriving instance DecidableEq for Btc.C16.SessionValues

def Ht : Bytes → Bytes → Bytes := fun _ _ => [1]
abbrev T := Toy.ops
def l0 : List Signer := [⟨1, 1, 1⟩, ⟨1, 1, 1⟩]
def an0 : Bytes := cbytesExt T (2 : ZMod 3) ++ cbytesExt T (2 : ZMod 3)
def tw0 : List (Bytes × Bool) := [(sBytes 1, true), (sBytes 2, false)]
def v0 : SessionValues (ZMod 3) := ⟨1, 2, 0, 1, 1, 1, [1], infBytes⟩
/-- the session values with the adaptor `T = 1•G` folded into `R₁` -/
def vA : SessionValues (ZMod 3) := ⟨1, 2, 0, 1, 2, 1, [1], infBytes⟩
def adaptor : Option Bytes := some (cbytes T (T.mul 1 T.gen))

theorem hp : T.p ≤ 256 ^ 32 ∧ T.n ≤ 256 ^ 32 := by decide
theorem hl0 : ∀ t ∈ l0, t.ok T := by
  intro t ht
  simp only [l0, List.mem_cons, List.not_mem_nil, or_false, or_self] at ht
  subst ht; unfold Signer.ok; decide
theorem han0 : nonceAgg T (l0.map (Signer.pubNonce T)) = .ok an0 := by decide +kernel
theorem hv0 : sessionValues T Ht (honestCtx T l0 an0 tw0 [7] none) = .ok v0 := by decide +kernel
theorem hs0 : List.Forall₂ (fun t σ => sign T Ht t.k1 t.k2 (t.pk T) t.d (honestCtx T l0 an0 tw0 [7] none) = .ok σ)
    l0 [1, 1] := .cons (by decide +kernel) (.cons (by decide +kernel) .nil)
theorem hR0 : ((l0.map Signer.k1).sum + v0.b * (l0.map Signer.k2).sum) % T.n ≠ 0 := by decide
theorem hvA : sessionValues T Ht (honestCtx T l0 an0 tw0 [7] adaptor) = .ok vA := by decide +kernel
theorem hsA : List.Forall₂ (fun t σ => sign T Ht t.k1 t.k2 (t.pk T) t.d (honestCtx T l0 an0 tw0 [7] adaptor) = .ok σ)
    l0 [0, 0] := .cons (by decide +kernel) (.cons (by decide +kernel) .nil)
theorem hRA : (((l0.map Signer.k1).sum + 1) + vA.b * (l0.map Signer.k2).sum) % T.n ≠ 0 := by decide

end Btc.C16.ToyEx
