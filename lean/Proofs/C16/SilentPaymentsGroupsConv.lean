import Proofs.C16.SilentPaymentsGroups
/-
C16 — BIP352: the converse of `outputKeys_is_walk`.  Whenever the one-walk specification `outputKeysWalk` answers, so
does btclib's group-then-reorder computation `outputKeys` (every member of every group IS some recipient at the counter
the walk gives it: `GroupsFrom`), hence with the same keys: the two forms agree on every successful run.
-/
namespace Btc.C16
open Btc Btc.Py

section
variable {α G : Type} [AddCommGroup G] {o : GroupOps α} (L : LawfulGroup o G)
variable (H : Bytes → Bytes → Bytes)

/-- every member of a group answers ⇒ the group answers -/
theorem groupOutputs_ok_of (secret : α) (l : List α) (k0 : Nat)
    (h : ∀ k Bm, l[k]? = some Bm → ∃ x, outputKey o H secret Bm (k0 + k) = .ok x) :
    ∃ xs, groupOutputs o H secret l k0 = .ok xs := by
  induction l generalizing k0 with
  | nil => exact ⟨[], rfl⟩
  | cons B tl ih =>
    obtain ⟨x, hx⟩ := h 0 B (by simp)
    obtain ⟨xs, hxs⟩ := ih (k0 + 1) (fun k Bm hk => by
      obtain ⟨y, hy⟩ := h (k + 1) Bm (by simpa using hk)
      exact ⟨y, by rw [← hy]; congr 1; omega⟩)
    refine ⟨x :: xs, ?_⟩
    simp only [groupOutputs]
    rw [show k0 + 0 = k0 from rfl] at hx
    rw [hx, hxs]

theorem allGroupOutputs_ok_of (ha : Int) (Gs : List (α × List α))
    (h : ∀ g ∈ Gs, ∀ k Bm, g.2[k]? = some Bm → ∃ x, outputKey o H (o.mul ha g.1) Bm k = .ok x) :
    ∃ ys, allGroupOutputs o H ha Gs = .ok ys := by
  induction Gs with
  | nil => exact ⟨[], rfl⟩
  | cons g rest ih =>
    obtain ⟨K, l⟩ := g
    obtain ⟨xs, hxs⟩ := groupOutputs_ok_of H (o.mul ha K) l 0 (fun k Bm hk => by
      obtain ⟨x, hx⟩ := h (K, l) List.mem_cons_self k Bm hk
      exact ⟨x, by simpa using hx⟩)
    obtain ⟨ys, hys⟩ := ih (fun g hg => h g (List.mem_cons_of_mem _ hg))
    exact ⟨xs ++ ys, by simp only [allGroupOutputs, hxs, hys]⟩

/-- every member of every group is some recipient, at the counter the walk gives it -/
def GroupsFrom (o : GroupOps α) (g : List (α × List α)) (before : List (α × α)) : Prop :=
  ∀ gr ∈ g, ∀ k Bm, gr.2[k]? = some Bm →
    ∃ pre r post, before = pre ++ r :: post ∧ o.eq gr.1 r.1 = true ∧ r.2 = Bm ∧ countScan o r.1 pre = k

include L in
/-- the members of the groups after one more address: the old ones where they were, the new one at `len(group)` -/
theorem insertGroup_members (Q : α → Nat → α → Prop) (Bs' Bm' : α) (g : List (α × List α)) :
    (∀ gr ∈ g, ∀ k Bm, gr.2[k]? = some Bm → Q gr.1 k Bm) →
    (∀ K, o.eq K Bs' = true → Q K (groupLen o Bs' g) Bm') →
    ∀ gr ∈ insertGroup o Bs' Bm' g, ∀ k Bm, gr.2[k]? = some Bm → Q gr.1 k Bm := by
  induction g with
  | nil =>
    intro _ newm gr hgr k Bm hk
    simp only [insertGroup, List.mem_singleton] at hgr
    subst hgr
    cases k with
    | zero =>
      simp at hk; subst hk
      simpa [groupLen] using newm Bs' (eq_refl' L Bs')
    | succ k => simp at hk
  | cons a rest ih =>
    obtain ⟨K, l⟩ := a
    intro old newm gr hgr k Bm hk
    by_cases h1 : o.eq K Bs' = true
    · simp only [insertGroup, h1, if_true, List.mem_cons] at hgr
      rcases hgr with rfl | hgr
      · by_cases hkl : k < l.length
        · rw [List.getElem?_append_left hkl] at hk
          exact old (K, l) List.mem_cons_self k Bm hk
        · have hk' : k = l.length := by
            have : k < (l ++ [Bm']).length := by
              rcases List.getElem?_eq_some_iff.mp hk with ⟨h, _⟩; exact h
            simp at this; omega
          subst hk'
          simp at hk; subst hk
          simpa [groupLen, h1] using newm K h1
      · exact old gr (List.mem_cons_of_mem _ hgr) k Bm hk
    · have h1' : o.eq K Bs' = false := by simpa using h1
      simp only [insertGroup, h1', Bool.false_eq_true, if_false, List.mem_cons] at hgr
      rcases hgr with rfl | hgr
      · exact old (K, l) List.mem_cons_self k Bm hk
      · have hl : groupLen o Bs' ((K, l) :: rest) = groupLen o Bs' rest := by simp [groupLen, h1']
        exact ih (fun gr' hgr' => old gr' (List.mem_cons_of_mem _ hgr'))
          (fun K' hK' => by rw [← hl]; exact newm K' hK') gr hgr k Bm hk

include L in
theorem groupsFrom_insert (g : List (α × List α)) (before : List (α × α)) (r : α × α)
    (hinv : ∀ Bs, groupLen o Bs g = countScan o Bs before) (hg : GroupsFrom o g before) :
    GroupsFrom o (insertGroup o r.1 r.2 g) (before ++ [r]) := by
  unfold GroupsFrom
  refine insertGroup_members L
    (fun K k Bm => ∃ (pre : List (α × α)) (r' : α × α) (post : List (α × α)),
      before ++ [r] = pre ++ r' :: post ∧ o.eq K r'.1 = true ∧ r'.2 = Bm ∧ countScan o r'.1 pre = k) r.1 r.2 g ?_ ?_
  · intro gr hgr k Bm hk
    obtain ⟨pre, r', post, e, h1, h2, h3⟩ := hg gr hgr k Bm hk
    exact ⟨pre, r', post ++ [r], by rw [e]; simp, h1, h2, h3⟩
  · intro K hK
    exact ⟨before, r, [], by simp, hK, rfl, (hinv r.1).symm⟩

include L in
theorem groupsFrom_fold (rest before : List (α × α)) (g : List (α × List α))
    (hinv : ∀ Bs, groupLen o Bs g = countScan o Bs before) (hg : GroupsFrom o g before) :
    GroupsFrom o (rest.foldl (fun g r => insertGroup o r.1 r.2 g) g) (before ++ rest) := by
  induction rest generalizing before g with
  | nil => simpa using hg
  | cons r tl ih =>
    have := ih (before ++ [r]) (insertGroup o r.1 r.2 g)
      (fun B => by rw [groupLen_insert L, countScan_append, hinv]) (groupsFrom_insert L g before r hinv hg)
    simpa using this

/-- the walk answers ⇒ each of its steps answered -/
theorem senderWalk_step_ok (ha : Int) (before pre : List (α × α)) (r : α × α) (post : List (α × α))
    (outs : List Bytes) (h : senderWalk o H ha before (pre ++ r :: post) = .ok outs) :
    ∃ x, outputKey o H (o.mul ha r.1) r.2 (countScan o r.1 (before ++ pre)) = .ok x := by
  induction pre generalizing before outs with
  | nil =>
    simp only [List.nil_append, senderWalk] at h
    split at h
    · cases h
    · rename_i x hx; exact ⟨x, by simpa using hx⟩
  | cons q tl ih =>
    simp only [List.cons_append, senderWalk] at h
    split at h
    · cases h
    split at h
    · cases h
    rename_i xs hxs
    obtain ⟨x, hx⟩ := ih (before ++ [q]) xs hxs
    exact ⟨x, by simpa using hx⟩

include L in
/-- **the converse**: whenever the one-walk specification answers, so does btclib's group-then-reorder computation
(and then, by `outputKeys_is_walk`, with the same keys) -/
theorem walk_is_outputKeys (keys : List (Int × Bool)) (outpoints : List Bytes) (recips : List (α × α))
    (hnz : ∀ r ∈ recips, L.abs r.1 ≠ 0) (outs : List Bytes)
    (h : outputKeysWalk o H keys outpoints recips = .ok outs) :
    outputKeys o H keys outpoints recips = .ok outs := by
  have key : ∃ outs', outputKeys o H keys outpoints recips = .ok outs' := by
    unfold outputKeysWalk at h
    unfold outputKeys
    split at h
    · cases h
    rename_i a ha
    split at h
    · cases h
    rename_i lowest hl
    split at h
    · cases h
    rename_i hh hih
    split at h
    · cases h
    rename_i hk
    split at h
    · cases h
    rename_i hs
    have hk' : recips.any (fun r => countScan o r.1 recips > Gen.Interactive.SP_K_MAX) = false := by simpa using hk
    have hs' : scalarOk o (hh * a % o.n) = true := by simpa using hs
    have hha := (scalarOk_iff (o := o) _).mp hs'
    have hgf := groupsFrom_fold L recips [] [] (fun B => by simp [groupLen, countScan])
      (fun gr hgr => by cases hgr)
    simp only [List.nil_append] at hgf
    -- the K_MAX check
    have hany : (groupsOf o recips).any (fun g => g.2.length > Gen.Interactive.SP_K_MAX) = false := by
      rw [List.any_eq_false]
      intro gr hgr
      simp only [gt_iff_lt, decide_eq_true_eq, not_lt]
      by_contra hlt
      have hlt := not_le.mp hlt
      -- the last member of the group
      have hpos : gr.2.length - 1 < gr.2.length := by omega
      obtain ⟨pre, r, post, e, h1, -, h3⟩ := hgf gr hgr (gr.2.length - 1) gr.2[gr.2.length - 1]
        (List.getElem?_eq_getElem hpos)
      have hr : r ∈ recips := by rw [e]; simp
      have := List.any_eq_false.mp hk' r hr
      simp only [gt_iff_lt, decide_eq_true_eq, not_lt] at this
      have hc : countScan o r.1 recips ≥ countScan o r.1 pre + 1 := by
        rw [e]
        have : ∀ (l1 l2 : List (α × α)), countScan o r.1 (l1 ++ l2) = countScan o r.1 l1 + countScan o r.1 l2 := by
          intro l1 l2; induction l1 with
          | nil => simp [countScan]
          | cons a t ih => simp only [List.cons_append, countScan, ih]; omega
        rw [this]
        simp only [countScan, eq_refl' L r.1, if_true]
        omega
      omega
    rw [if_neg (by simp [hany]), if_neg (by simp [hs'])]
    obtain ⟨grouped, hgr⟩ := allGroupOutputs_ok_of H (hh * a % o.n) (groupsOf o recips) (by
      intro gr hgr k Bm hk
      obtain ⟨pre, r, post, e, h1, h2, h3⟩ := hgf gr hgr k Bm hk
      rw [e] at h
      obtain ⟨x, hx⟩ := senderWalk_step_ok H _ [] pre r post outs h
      simp only [List.nil_append] at hx
      refine ⟨x, ?_⟩
      rw [← h2, ← h3, ← hx]
      have hr : r ∈ recips := by rw [e]; simp
      have habs : L.abs (o.mul (hh * a % o.n) gr.1) = L.abs (o.mul (hh * a % o.n) r.1) := by
        rw [L.abs_mul, L.abs_mul, (L.eq_iff gr.1 r.1).mp h1]
      have hne : L.abs (o.mul (hh * a % o.n) gr.1) ≠ 0 := by
        rw [habs, L.abs_mul]; exact LG.smul_ne_zero L hha.1 hha.2 r.1 (hnz r hr)
      exact outputKey_congr H (LG.cbytes_congr L habs hne) _ _)
    unfold groupsOf at hgr ⊢
    rw [hgr]
    exact ⟨_, rfl⟩
  obtain ⟨outs', h'⟩ := key
  have := outputKeys_is_walk L H keys outpoints recips hnz outs' h'
  rw [h] at this
  cases this
  exact h'

end
end Btc.C16
