import Model.C14.CoreImport
/-! C14 — `core_import` ranges: widening never narrows, the watched range is the union.  Core Lean only. -/
namespace Btc.CoreImport
open Btc Gen.Descriptor

theorem widenedRange_covers (wanted : Range) (watched : Option Range) (r : Range)
    (h : widenedRange wanted watched = some r) :
    r.1 ≤ wanted.1 ∧ wanted.2 ≤ r.2 ∧
      r.1 ≤ (watched.getD CORE_DEFAULT_RANGE).1 ∧ (watched.getD CORE_DEFAULT_RANGE).2 ≤ r.2 := by
  unfold widenedRange at h
  split at h
  · cases h
  · simp only [Option.some.injEq] at h
    subst h
    simp only
    omega

theorem widenedRange_idem (wanted : Range) (watched : Option Range) (r : Range)
    (h : widenedRange wanted watched = some r) : widenedRange wanted (some r) = some r := by
  unfold widenedRange at h ⊢
  split at h
  · cases h
  · rename_i hk
    simp only [Option.some.injEq] at h
    subst h
    simp only [hk, Bool.false_eq_true, if_false, Option.getD_some, Option.some.injEq]
    ext <;> simp only <;> omega

theorem foldl_min_le (l : List Range) (a : Int) :
    l.foldl (fun a x => min a x.1) a ≤ a ∧ ∀ x ∈ l, l.foldl (fun a x => min a x.1) a ≤ x.1 := by
  induction l generalizing a with
  | nil => simp
  | cons y ys ih =>
    simp only [List.foldl_cons]
    have := ih (min a y.1)
    refine ⟨by omega, ?_⟩
    intro x hx
    rcases List.mem_cons.mp hx with rfl | hx
    · omega
    · exact this.2 x hx

theorem foldl_max_ge (l : List Range) (a : Int) :
    a ≤ l.foldl (fun a x => max a x.2) a ∧ ∀ x ∈ l, x.2 ≤ l.foldl (fun a x => max a x.2) a := by
  induction l generalizing a with
  | nil => simp
  | cons y ys ih =>
    simp only [List.foldl_cons]
    have := ih (max a y.2)
    refine ⟨by omega, ?_⟩
    intro x hx
    rcases List.mem_cons.mp hx with rfl | hx
    · omega
    · exact this.2 x hx

/-- the watched range contains the range of every entry that holds the same expression. -/
theorem watchedRange_union (d : List Char) (es : List Entry) (r : Range) (h : watchedRange d es = some r) :
    ∀ x ∈ matching d es, r.1 ≤ x.1 ∧ x.2 ≤ r.2 := by
  unfold watchedRange at h
  cases hm : matching d es with
  | nil => rw [hm] at h; cases h
  | cons y ys =>
    rw [hm] at h
    simp only [Option.some.injEq] at h
    subst h
    intro x hx
    have h1 := foldl_min_le ys y.1
    have h2 := foldl_max_ge ys y.2
    rcases List.mem_cons.mp hx with rfl | hx
    · exact ⟨h1.1, h2.1⟩
    · exact ⟨h1.2 x hx, h2.2 x hx⟩

theorem watchedRange_none_iff (d : List Char) (es : List Entry) : watchedRange d es = none ↔ matching d es = [] := by
  unfold watchedRange
  cases matching d es <;> simp

/-! ### JSON replies -/

theorem watchedRange_eq_unionOf (d : List Char) (es : List Entry) : watchedRange d es = unionOf (matching d es) := by
  unfold watchedRange unionOf
  cases matching d es <;> rfl

theorem matching_cons (d : List Char) (e : Entry) (es : List Entry) :
    matching d (e :: es) =
      (if comparable e.desc = comparable d then (match e.range with | some r => [r] | none => []) else []) ++
        matching d es := by
  unfold matching
  simp only [List.filterMap_cons]
  by_cases h : comparable e.desc = comparable d
  · cases hr : e.range <;> simp [h, hr]
  · simp [h]

/-- reading a well-typed reply gives the ranges of the matching entries: nothing is refused. -/
theorem collectRanges_toJ (d : List Char) : ∀ (es : List Entry),
    collectRanges (comparable d) (es.map Entry.toJ) = .ok (matching d es)
  | [] => rfl
  | e :: es => by
    rw [List.map_cons, matching_cons]
    unfold collectRanges
    rw [collectRanges_toJ d es]
    obtain ⟨desc, range⟩ := e
    by_cases h : comparable desc = comparable d
    · cases range with
      | none => simp [Entry.toJ, J.fields, getField, List.lookup, h, bind, Except.bind, pure, Except.pure]
      | some r =>
        simp [Entry.toJ, J.fields, getField, List.lookup, h, bind, Except.bind, pure, Except.pure, J.list, J.toInt]
    · cases range with
      | none => simp [Entry.toJ, J.fields, getField, List.lookup, h, bind, Except.bind, pure, Except.pure]
      | some r => simp [Entry.toJ, J.fields, getField, List.lookup, h, bind, Except.bind, pure, Except.pure]

/-- on a well-typed reply the JSON reader IS the integer model. -/
theorem watchedRangeJ_replyOf (d : List Char) (es : List Entry) :
    watchedRangeJ d (replyOf es) = .ok (watchedRange d es) := by
  unfold watchedRangeJ replyOf
  simp [J.fields, getField, List.lookup, J.list, bind, Except.bind, pure, Except.pure, collectRanges_toJ,
    watchedRange_eq_unionOf]

theorem foldl_min_attained (l : List Range) (a : Int) :
    l.foldl (fun a x => min a x.1) a = a ∨ ∃ x ∈ l, l.foldl (fun a x => min a x.1) a = x.1 := by
  induction l generalizing a with
  | nil => simp
  | cons y ys ih =>
    simp only [List.foldl_cons]
    rcases ih (min a y.1) with h | ⟨x, hx, h⟩
    · by_cases hm : a ≤ y.1
      · left; rw [h]; omega
      · right; exact ⟨y, List.mem_cons_self .., by rw [h]; omega⟩
    · right; exact ⟨x, List.mem_cons_of_mem _ hx, h⟩

theorem foldl_max_attained (l : List Range) (a : Int) :
    l.foldl (fun a x => max a x.2) a = a ∨ ∃ x ∈ l, l.foldl (fun a x => max a x.2) a = x.2 := by
  induction l generalizing a with
  | nil => simp
  | cons y ys ih =>
    simp only [List.foldl_cons]
    rcases ih (max a y.2) with h | ⟨x, hx, h⟩
    · by_cases hm : y.2 ≤ a
      · left; rw [h]; omega
      · right; exact ⟨y, List.mem_cons_self .., by rw [h]; omega⟩
    · right; exact ⟨x, List.mem_cons_of_mem _ hx, h⟩

/-- the union is the smallest range containing every listed range: it contains each, and both ends are attained. -/
theorem unionOf_spec (l : List Range) (r : Range) (h : unionOf l = some r) :
    (∀ x ∈ l, r.1 ≤ x.1 ∧ x.2 ≤ r.2) ∧ (∃ x ∈ l, x.1 = r.1) ∧ (∃ x ∈ l, x.2 = r.2) := by
  cases l with
  | nil => cases h
  | cons y ys =>
    simp only [unionOf, Option.some.injEq] at h
    subst h
    have h1 := foldl_min_le ys y.1
    have h2 := foldl_max_ge ys y.2
    refine ⟨?_, ?_, ?_⟩
    · intro x hx
      rcases List.mem_cons.mp hx with rfl | hx
      · exact ⟨h1.1, h2.1⟩
      · exact ⟨h1.2 x hx, h2.2 x hx⟩
    · rcases foldl_min_attained ys y.1 with h | ⟨x, hx, h⟩
      · exact ⟨y, List.mem_cons_self .., h.symm⟩
      · exact ⟨x, List.mem_cons_of_mem _ hx, h.symm⟩
    · rcases foldl_max_attained ys y.2 with h | ⟨x, hx, h⟩
      · exact ⟨y, List.mem_cons_self .., h.symm⟩
      · exact ⟨x, List.mem_cons_of_mem _ hx, h.symm⟩

theorem unionOf_none_iff (l : List Range) : unionOf l = none ↔ l = [] := by
  cases l <;> simp [unionOf]

/-- what `watched_range` answers on ANY reply it does not refuse: the union of the ranges it collected. -/
theorem watchedRangeJ_ok (d : List Char) (reply : J) (o : Option Range) (h : watchedRangeJ d reply = .ok o) :
    ∃ kv ds l rs, reply = .obj kv ∧ kv.lookup "descriptors".toList = some ds ∧ ds = .arr l ∧
      collectRanges (comparable d) l = .ok rs ∧ o = unionOf rs := by
  unfold watchedRangeJ at h
  cases reply with
  | obj kv =>
    cases hl : kv.lookup "descriptors".toList with
    | none =>
      have hg : getField kv "descriptors" = .error .value := by unfold getField; rw [hl]
      simp only [J.fields, bind, Except.bind, hg] at h
      cases h
    | some ds =>
      have hg : getField kv "descriptors" = .ok ds := by unfold getField; rw [hl]
      simp only [J.fields, bind, Except.bind, hg] at h
      cases ds with
      | arr l =>
        simp only [J.list] at h
        cases hc : collectRanges (comparable d) l with
        | error e => simp [hc] at h
        | ok rs =>
          simp only [hc, pure, Except.pure, Except.ok.injEq] at h
          exact ⟨kv, _, l, rs, rfl, hl, rfl, hc, h.symm⟩
      | _ => simp [J.list] at h
  | _ => simp [J.fields, bind, Except.bind] at h

def Honoured (p : J × J) : Prop :=
  (∃ kv, p.1 = .obj kv) ∧ ∃ kv, p.2 = .obj kv ∧ ((kv.lookup "success".toList).map J.truthy).getD false = true

theorem importedLoop_ok_iff : ∀ (rq an : List J), importedLoop rq an = .ok () ↔ ∀ p ∈ rq.zip an, Honoured p
  | [], _ => by simp [importedLoop]
  | _ :: _, [] => by simp [importedLoop]
  | r :: rq, a :: an => by
    have ih := importedLoop_ok_iff rq an
    simp only [importedLoop, List.zip_cons_cons, List.forall_mem_cons, bind, Except.bind]
    cases r with
    | obj rkv =>
      cases a with
      | obj akv =>
        simp only [J.fields]
        cases hs : ((akv.lookup "success".toList).map J.truthy).getD false with
        | false =>
          simp only [Bool.not_false, if_true, reduceCtorEq, false_iff, not_and]
          intro h
          obtain ⟨_, kv, e, hk⟩ := h
          cases e; rw [hs] at hk; cases hk
        | true =>
          simp only [Bool.not_true, Bool.false_eq_true, if_false, ih]
          constructor
          · intro h; exact ⟨⟨⟨rkv, rfl⟩, akv, rfl, hs⟩, h⟩
          · intro h; exact h.2
      | _ =>
        simp only [J.fields, reduceCtorEq, false_iff, not_and]
        intro h; obtain ⟨_, kv, e, _⟩ := h; cases e
    | _ =>
      simp only [J.fields, reduceCtorEq, false_iff, not_and]
      intro h; obtain ⟨⟨kv, e⟩, _⟩ := h; cases e

end Btc.CoreImport
