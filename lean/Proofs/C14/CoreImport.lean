import Model.C14.CoreImport
/-! C14 — `core_import` ranges: widening never narrows, the watched range is the union.  Core Lean only. -/
namespace Btc.CoreImport
open Btc Gen.Descriptor

theorem widenedRange_covers (wanted : Range) (watched : Option Range) (r : Range)
    (h : widenedRange wanted watched = some r) :
    r.1 ≤ wanted.1 ∧ wanted.2 ≤ r.2 ∧
      r.1 ≤ (watched.getD CORE_DEFAULT_RANGE).1 ∧ (watched.getD CORE_DEFAULT_RANGE).2 ≤ r.2 := by
  unfold widenedRange at h
  split at h
  · cases h
  · simp only [Option.some.injEq] at h
    subst h
    simp only
    omega

theorem widenedRange_idem (wanted : Range) (watched : Option Range) (r : Range)
    (h : widenedRange wanted watched = some r) : widenedRange wanted (some r) = some r := by
  unfold widenedRange at h ⊢
  split at h
  · cases h
  · rename_i hk
    simp only [Option.some.injEq] at h
    subst h
    simp only [hk, Bool.false_eq_true, if_false, Option.getD_some, Option.some.injEq]
    ext <;> simp only <;> omega

theorem foldl_min_le (l : List Range) (a : Int) :
    l.foldl (fun a x => min a x.1) a ≤ a ∧ ∀ x ∈ l, l.foldl (fun a x => min a x.1) a ≤ x.1 := by
  induction l generalizing a with
  | nil => simp
  | cons y ys ih =>
    simp only [List.foldl_cons]
    have := ih (min a y.1)
    refine ⟨by omega, ?_⟩
    intro x hx
    rcases List.mem_cons.mp hx with rfl | hx
    · omega
    · exact this.2 x hx

theorem foldl_max_ge (l : List Range) (a : Int) :
    a ≤ l.foldl (fun a x => max a x.2) a ∧ ∀ x ∈ l, x.2 ≤ l.foldl (fun a x => max a x.2) a := by
  induction l generalizing a with
  | nil => simp
  | cons y ys ih =>
    simp only [List.foldl_cons]
    have := ih (max a y.2)
    refine ⟨by omega, ?_⟩
    intro x hx
    rcases List.mem_cons.mp hx with rfl | hx
    · omega
    · exact this.2 x hx

/-- the watched range contains the range of every entry that holds the same expression. -/
theorem watchedRange_union (d : List Char) (es : List Entry) (r : Range) (h : watchedRange d es = some r) :
    ∀ x ∈ matching d es, r.1 ≤ x.1 ∧ x.2 ≤ r.2 := by
  unfold watchedRange at h
  cases hm : matching d es with
  | nil => rw [hm] at h; cases h
  | cons y ys =>
    rw [hm] at h
    simp only [Option.some.injEq] at h
    subst h
    intro x hx
    have h1 := foldl_min_le ys y.1
    have h2 := foldl_max_ge ys y.2
    rcases List.mem_cons.mp hx with rfl | hx
    · exact ⟨h1.1, h2.1⟩
    · exact ⟨h1.2 x hx, h2.2 x hx⟩

theorem watchedRange_none_iff (d : List Char) (es : List Entry) : watchedRange d es = none ↔ matching d es = [] := by
  unfold watchedRange
  cases matching d es <;> simp

end Btc.CoreImport
