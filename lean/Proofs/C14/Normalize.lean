import Model.C14.Normalize
import Proofs.C14.Derive
/-!
C14 — `normalized()`: idempotence (structural: after re-rooting no hardened step is left in the path), the
written derivation (origin path ++ path, wildcard) is kept, and a descriptor none of whose keys is re-rooted
describes the same scripts (only the hardening symbol changed, which derivation does not read).
-/
namespace Btc.Desc
open Btc Gen.Descriptor

theorem rerootAt_drop : ∀ (p : List Nat) (n : Nat), rerootAt p = some n → rerootAt (p.drop n) = none
  | [], _, h => by simp [rerootAt] at h
  | s :: rest, n, h => by
    simp only [rerootAt] at h
    cases hr : rerootAt rest with
    | some m =>
      simp only [hr, Option.some.injEq] at h
      subst h
      simpa using rerootAt_drop rest m hr
    | none =>
      simp only [hr] at h
      split at h
      · simp only [Option.some.injEq] at h
        subst h
        simpa using hr
      · cases h

variable {α : Type} (E : DEnv α)

/-- a key that `_normalized_key` re-roots: extended, not `/*h`, with a hardened step in its path. -/
def Key.rerooted (k : Key) : Bool :=
  match k.atom with
  | .pub _ _ => false
  | .xkey _ => k.wildcard != some true && (rerootAt k.path).isSome

theorem normalize_not_rerooted (prv : PrvKeys) (k : Key) (h : k.rerooted = false) :
    Key.normalize E prv k = some { k with hard := NORMAL_HARD } := by
  unfold Key.rerooted at h
  unfold Key.normalize
  cases ha : k.atom with
  | pub s x => rfl
  | xkey t =>
    simp only [ha] at h
    by_cases hw : k.wildcard = some true
    · simp [hw]
    · cases hr : rerootAt k.path with
      | none => simp [hw]
      | some n => simp [hw, hr] at h

/-- the re-rooted key: no hardened step left, so a second pass changes nothing. -/
theorem normalize_result_not_rerooted (prv : PrvKeys) (k k' : Key) (h : Key.normalize E prv k = some k') :
    k'.rerooted = false ∧ k'.hard = NORMAL_HARD := by
  unfold Key.normalize at h
  cases ha : k.atom with
  | pub s x =>
    simp only [ha, Option.some.injEq] at h
    subst h
    simp [Key.rerooted, ha]
  | xkey t =>
    simp only [ha] at h
    by_cases hw : k.wildcard = some true
    · simp only [hw, if_true, Option.some.injEq] at h
      subst h
      simp [Key.rerooted, ha, hw]
    · simp only [hw, if_false] at h
      cases hr : rerootAt k.path with
      | none =>
        simp only [hr, Option.some.injEq] at h
        subst h
        simp [Key.rerooted, ha, hr]
      | some n =>
        simp only [hr] at h
        split at h
        · cases h
        · split at h
          · simp only [Option.some.injEq] at h
            subst h
            simp [Key.rerooted, rerootAt_drop _ _ hr]
          · cases h

theorem normalize_idem (prv prv' : PrvKeys) (k k' : Key) (h : Key.normalize E prv k = some k') :
    Key.normalize E prv' k' = some k' := by
  obtain ⟨h1, h2⟩ := normalize_result_not_rerooted E prv k k' h
  rw [normalize_not_rerooted E prv' k' h1]
  obtain ⟨o, a, p, w, hd⟩ := k'
  simp only at h2
  subst h2
  rfl

/-- origin path ++ path and the wildcard are what was written. -/
theorem normalize_keeps_derivation (prv : PrvKeys) (k k' : Key) (h : Key.normalize E prv k = some k') :
    k'.wildcard = k.wildcard ∧
    (k'.origin.map (·.path)).getD [] ++ k'.path = (k.origin.map (·.path)).getD [] ++ k.path := by
  unfold Key.normalize at h
  cases ha : k.atom with
  | pub s x =>
    simp only [ha, Option.some.injEq] at h
    subst h; exact ⟨rfl, rfl⟩
  | xkey t =>
    simp only [ha] at h
    by_cases hw : k.wildcard = some true
    · simp only [hw, if_true, Option.some.injEq] at h
      subst h; exact ⟨hw.symm, rfl⟩
    · simp only [hw, if_false] at h
      cases hr : rerootAt k.path with
      | none =>
        simp only [hr, Option.some.injEq] at h
        subst h; exact ⟨rfl, rfl⟩
      | some n =>
        simp only [hr] at h
        split at h
        · cases h
        · split at h
          · rename_i fp op text hob _
            simp only [Option.some.injEq] at h
            subst h
            refine ⟨rfl, ?_⟩
            simp only [Option.map_some, Option.getD_some, List.append_assoc, List.take_append_drop]
            unfold originBase at hob
            cases ho : k.origin with
            | none =>
              simp only [ho] at hob
              split at hob
              · split at hob
                · simp only [Option.some.injEq, Prod.mk.injEq] at hob
                  simp [← hob.2]
                · cases hob
              · cases hob
            | some o =>
              simp only [ho] at hob
              split at hob
              · rename_i hemp
                have he : o.path = [] := by simpa using hemp
                split at hob
                · split at hob
                  · simp only [Option.some.injEq, Prod.mk.injEq] at hob
                    simp [← hob.2, he]
                  · cases hob
                · cases hob
              · simp only [Option.some.injEq, Prod.mk.injEq] at hob
                simp [← hob.2]
          · cases h

/-! ### lifting through `_mapped_keys` -/

theorem mapO_lift {f g : Key → Option Key} (hfg : ∀ k k', f k = some k' → g k' = some k') :
    ∀ (ks ks' : List Key), mapO f ks = some ks' → mapO g ks' = some ks'
  | [], ks', h => by simp only [mapO, Option.some.injEq] at h; subst h; rfl
  | k :: ks, ks', h => by
    simp only [mapO] at h
    cases hk : f k with
    | none => simp [hk] at h
    | some k1 =>
      simp only [hk] at h
      cases hr : mapO f ks with
      | none => simp [hr] at h
      | some r =>
        simp only [hr, Option.map_some, Option.some.injEq] at h
        subst h
        simp [mapO, hfg k k1 hk, mapO_lift hfg ks r hr]

theorem Tree.mapKeysO_lift {f g : Key → Option Key} (hfg : ∀ k k', f k = some k' → g k' = some k') :
    ∀ (t t' : Tree), t.mapKeysO f = some t' → t'.mapKeysO g = some t'
  | .pk k, t', h => by
    simp only [Tree.mapKeysO] at h
    cases hk : f k with
    | none => simp [hk] at h
    | some k1 => simp only [hk, Option.map_some, Option.some.injEq] at h; subst h; simp [Tree.mapKeysO, hfg k k1 hk]
  | .multiA thr ks s, t', h => by
    simp only [Tree.mapKeysO] at h
    cases hk : mapO f ks with
    | none => simp [hk] at h
    | some r =>
      simp only [hk, Option.map_some, Option.some.injEq] at h; subst h
      simp [Tree.mapKeysO, mapO_lift hfg ks r hk]
  | .branch l r, t', h => by
    simp only [Tree.mapKeysO] at h
    cases hl : l.mapKeysO f with
    | none => simp [hl] at h
    | some a =>
      cases hr : r.mapKeysO f with
      | none => simp [hl, hr] at h
      | some b =>
        simp only [hl, hr, Option.some.injEq] at h; subst h
        simp [Tree.mapKeysO, Tree.mapKeysO_lift hfg l a hl, Tree.mapKeysO_lift hfg r b hr]
  | .ms n, t', h => by simp only [Tree.mapKeysO, Option.some.injEq] at h; subst h; rfl

theorem D.mapKeysO_lift {f g : Key → Option Key} (hfg : ∀ k k', f k = some k' → g k' = some k') :
    ∀ (d d' : D), d.mapKeysO f = some d' → d'.mapKeysO g = some d'
  | .pk k, d', h | .pkh k, d', h | .wpkh k, d', h | .combo k, d', h | .rawtr k, d', h => by
    simp only [D.mapKeysO] at h
    cases hk : f k with
    | none => simp [hk] at h
    | some k1 => simp only [hk, Option.map_some, Option.some.injEq] at h; subst h; simp [D.mapKeysO, hfg k k1 hk]
  | .sh d, d', h | .wsh d, d', h => by
    simp only [D.mapKeysO] at h
    cases hd : d.mapKeysO f with
    | none => simp [hd] at h
    | some d1 =>
      simp only [hd, Option.map_some, Option.some.injEq] at h; subst h
      simp [D.mapKeysO, D.mapKeysO_lift hfg d d1 hd]
  | .multi thr ks s, d', h => by
    simp only [D.mapKeysO] at h
    cases hk : mapO f ks with
    | none => simp [hk] at h
    | some r =>
      simp only [hk, Option.map_some, Option.some.injEq] at h; subst h
      simp [D.mapKeysO, mapO_lift hfg ks r hk]
  | .tr k none, d', h => by
    simp only [D.mapKeysO] at h
    cases hk : f k with
    | none => simp [hk] at h
    | some k1 => simp only [hk, Option.map_some, Option.some.injEq] at h; subst h; simp [D.mapKeysO, hfg k k1 hk]
  | .tr k (some t), d', h => by
    simp only [D.mapKeysO] at h
    cases hk : f k with
    | none => simp [hk] at h
    | some k1 =>
      cases ht : t.mapKeysO f with
      | none => simp [hk, ht] at h
      | some t1 =>
        simp only [hk, ht, Option.some.injEq] at h; subst h
        simp [D.mapKeysO, hfg k k1 hk, Tree.mapKeysO_lift hfg t t1 ht]
  | .addr a, d', h | .raw a, d', h | .ms a, d', h => by
    simp only [D.mapKeysO, Option.some.injEq] at h; subst h; rfl

/-- `normalized` is idempotent, whatever private keys the second pass is handed. -/
theorem normalized_idem (prv prv' : PrvKeys) (d d' : D) (h : normalized E prv d = some d') :
    normalized E prv' d' = some d' :=
  D.mapKeysO_lift (fun k k' hk => normalize_idem E prv prv' k k' hk) d d' h

/-! ### a key map that answers `g` on every key of the descriptor -/

theorem mapO_total {f : Key → Option Key} {g : Key → Key} :
    ∀ (ks : List Key), (∀ k ∈ ks, f k = some (g k)) → mapO f ks = some (ks.map g)
  | [], _ => rfl
  | k :: ks, h => by
    simp [mapO, h k (List.mem_cons_self ..), mapO_total ks fun k' hk' => h k' (List.mem_cons_of_mem _ hk')]

theorem Tree.mapKeysO_total {f : Key → Option Key} {g : Key → Key} :
    ∀ (t : Tree), (∀ k ∈ t.keys, f k = some (g k)) → t.mapKeysO f = some (t.mapKeys g)
  | .pk k, h => by simp [Tree.mapKeysO, Tree.mapKeys, h k (by simp [Tree.keys])]
  | .multiA thr ks s, h => by
    simp [Tree.mapKeysO, Tree.mapKeys, mapO_total ks fun k hk => h k (by simpa [Tree.keys] using hk)]
  | .branch l r, h => by
    simp [Tree.mapKeysO, Tree.mapKeys,
      Tree.mapKeysO_total l fun k hk => h k (by simp [Tree.keys, hk]),
      Tree.mapKeysO_total r fun k hk => h k (by simp [Tree.keys, hk])]
  | .ms n, _ => rfl

theorem D.mapKeysO_total {f : Key → Option Key} {g : Key → Key} :
    ∀ (d : D), (∀ k ∈ d.keys, f k = some (g k)) → d.mapKeysO f = some (d.mapKeys g)
  | .pk k, h | .pkh k, h | .wpkh k, h | .combo k, h | .rawtr k, h => by
    simp [D.mapKeysO, D.mapKeys, h k (by simp [D.keys])]
  | .sh d, h | .wsh d, h => by
    simp [D.mapKeysO, D.mapKeys, D.mapKeysO_total d fun k hk => h k (by simpa [D.keys] using hk)]
  | .multi thr ks s, h => by
    simp [D.mapKeysO, D.mapKeys, mapO_total ks fun k hk => h k (by simpa [D.keys] using hk)]
  | .tr k none, h => by simp [D.mapKeysO, D.mapKeys, h k (by simp [D.keys])]
  | .tr k (some t), h => by
    simp [D.mapKeysO, D.mapKeys, h k (by simp [D.keys]),
      Tree.mapKeysO_total t fun k' hk' => h k' (by simp [D.keys, hk'])]
  | .addr a, _ | .raw a, _ | .ms a, _ => rfl

/-! ### derivation does not read the hardening symbol -/

def Key.withHard (hd : Hard) (k : Key) : Key := { k with hard := hd }

theorem sec_withHard (net : String) (prv : PrvKeys) (hd : Hard) (k : Key) (i : Nat) :
    Key.sec E net prv (k.withHard hd) i = Key.sec E net prv k i := rfl

theorem mapO_withHard (net : String) (prv : PrvKeys) (hd : Hard) (i : Nat) : ∀ (ks : List Key),
    mapO (fun k => Key.sec E net prv k i) (ks.map (Key.withHard hd)) = mapO (fun k => Key.sec E net prv k i) ks
  | [] => rfl
  | k :: ks => by simp only [List.map_cons, mapO, sec_withHard, mapO_withHard net prv hd i ks]

theorem tapTree_withHard (net : String) (prv : PrvKeys) (hd : Hard) (i : Nat) : ∀ (t : Tree),
    tapTree E net prv i (t.mapKeys (Key.withHard hd)) = tapTree E net prv i t
  | .pk k => by simp only [Tree.mapKeys, tapTree, sec_withHard]
  | .multiA thr ks s => by simp only [Tree.mapKeys, tapTree, mapO_withHard]
  | .branch l r => by
    simp only [Tree.mapKeys, tapTree, tapTree_withHard net prv hd i l, tapTree_withHard net prv hd i r]
  | .ms n => rfl

theorem scripts_withHard (net : String) (prv : PrvKeys) (hd : Hard) (i : Nat) : ∀ (d : D),
    scripts E net prv i (d.mapKeys (Key.withHard hd)) = scripts E net prv i d
  | .pk k | .pkh k | .wpkh k | .combo k | .rawtr k => by simp only [D.mapKeys, scripts, sec_withHard]
  | .sh d => by simp only [D.mapKeys, scripts, scripts_withHard net prv hd i d]
  | .wsh d => by simp only [D.mapKeys, scripts, scripts_withHard net prv hd i d]
  | .multi t ks s => by simp only [D.mapKeys, scripts, multiKeys, mapO_withHard]
  | .tr k none => by simp only [D.mapKeys, Option.map_none, scripts, sec_withHard]
  | .tr k (some t) => by simp only [D.mapKeys, Option.map_some, scripts, sec_withHard, tapTree_withHard]
  | .addr a => rfl
  | .raw s => rfl
  | .ms n => rfl

/-- a descriptor none of whose keys is re-rooted: `normalized` answers, with the symbol `h`, the same scripts. -/
theorem normalized_not_rerooted (net : String) (prv prv' : PrvKeys) (d : D)
    (h : ∀ k ∈ d.keys, k.rerooted = false) :
    normalized E prv d = some (d.mapKeys (Key.withHard NORMAL_HARD)) ∧
    ∀ i, scripts E net prv' i (d.mapKeys (Key.withHard NORMAL_HARD)) = scripts E net prv' i d :=
  ⟨D.mapKeysO_total d fun k hk => normalize_not_rerooted E prv k (h k hk),
   fun i => scripts_withHard E net prv' NORMAL_HARD i d⟩

end Btc.Desc
