import Proofs.C14.Roundtrip
import Model.C14.Musig
/-! C14 — `_parse_musig(str(key)) == key` for BIP390 key expressions.  Core Lean only. -/
set_option linter.unusedSimpArgs false
namespace Btc.Desc
open Btc Gen.Descriptor

theorem splitLastC_absent (c : Char) : ∀ (s : List Char), c ∉ s → splitLastC c s = none
  | [], _ => rfl
  | x :: xs, h => by
    have hx : x ≠ c := fun e => h (by simp [e])
    simp [splitLastC, splitLastC_absent c xs (fun e => h (List.mem_cons_of_mem _ e)), hx]

theorem splitLastC_last (c : Char) (a b : List Char) (h : c ∉ b) : splitLastC c (a ++ c :: b) = some (a, b) := by
  induction a with
  | nil => simp [splitLastC, splitLastC_absent c b h]
  | cons x xs ih => simp [splitLastC, ih]

/-- what `parse` can build for a `musig()`: participants that are compressed keys or extended keys, an
    unhardened path, and — when the aggregate derives — every participant extended and none ranged. -/
structure MusigOk (o : KeyOracle) (m : Musig) : Prop where
  nonempty : m.participants ≠ []
  keys : ∀ k ∈ m.participants, KeyOk o false true k
  written : ∀ k ∈ m.participants, strKey k ≠ []
  path : PathOk m.path ∧ ∀ i ∈ m.path, i < HARDENED_OFFSET
  derives : (m.path ≠ [] ∨ m.wildcard = true) → ∀ k ∈ m.participants, k.isXkey = true ∧ k.isRanged = false

theorem anyHard_false (path : List Nat) (h : ∀ i ∈ path, i < HARDENED_OFFSET) :
    (path.any fun i => decide (HARDENED_OFFSET ≤ i)) = false := by
  rw [Bool.eq_false_iff]
  intro hc
  obtain ⟨i, hi, hd⟩ := List.any_eq_true.mp hc
  have := h i hi
  simp only [decide_eq_true_eq] at hd
  omega

theorem musigDerPath_str (path : List Nat) (w : Bool) (hp : PathOk path) (hh : ∀ i ∈ path, i < HARDENED_OFFSET) :
    musigDerPath (strSteps .h path ++ (if w then ['/', '*'] else [])) = .ok (path, w) := by
  have hw : (if w then ['/', '*'] else []) = strWildcard .h (if w then some false else none) := by cases w <;> rfl
  rw [hw, tail_eq]
  cases hS : tailSteps .h path (if w then some false else none) with
  | nil =>
    have : path = [] ∧ w = false := by
      cases w <;> cases path <;> simp_all [tailSteps, wsteps]
    obtain ⟨rfl, rfl⟩ := this
    rfl
  | cons s ss =>
    have hns := tailSteps_no_slash .h path (if w then some false else none)
    rw [hS] at hns
    have hsp := splitOn_slashed s ss (hns s (List.mem_cons_self ..)) (fun x hx => hns x (List.mem_cons_of_mem _ hx))
    simp only [slashed, List.flatMap_cons, List.cons_append] at hsp ⊢
    simp only [musigDerPath, hsp]
    rw [← hS, splitWildcard_tail]
    cases w <;>
      simp [joinedPath_str .h path hp, anyHard_false path hh]

theorem musig_args_Tr (o : KeyOracle) (ps : List Key) (h : ∀ k ∈ ps, KeyOk o false true k) :
    ∀ a ∈ ps.map strKey, Tr a := by
  intro a ha
  obtain ⟨k, hk, rfl⟩ := List.mem_map.mp ha
  exact Tr_strKey o false true k (h k hk)

theorem tail_no_close (path : List Nat) (w : Bool) : ')' ∉ strSteps Hard.h path ++ (if w then ['/', '*'] else []) := by
  intro h
  rcases List.mem_append.mp h with h | h
  · exact strSteps_no _ _ ')' (by decide) (by decide) (by decide) (by decide) h
  · cases w <;> simp at h

/-- T2 for `musig()` key expressions. -/
theorem parseMusig_strMusig (o : KeyOracle) (m : Musig) (h : MusigOk o m) : parseMusig o (strMusig m) = .ok m := by
  obtain ⟨ps, path, w⟩ := m
  have hne : ps ≠ [] := h.nonempty
  unfold strMusig parseMusig
  simp only
  rw [call_eq, List.append_assoc, List.append_assoc]
  simp only [List.singleton_append]
  rw [splitLastC_last ')' _ _ (tail_no_close path w)]
  have hd : List.drop (nMusig.length + 1) (nMusig ++ '(' :: joinArgs (ps.map strKey)) = joinArgs (ps.map strKey) := by
    rw [List.drop_append]; simp
  simp only [hd, splitArgs_join _ (by simpa using hne) (musig_args_Tr o ps h.keys)]
  have hargs : ¬ (ps.map strKey = [[]]) := by
    cases ps with
    | nil => exact absurd rfl hne
    | cons k ks =>
      intro e
      simp only [List.map_cons, List.cons.injEq] at e
      exact h.written k (List.mem_cons_self ..) e.1
  simp only [hargs, if_false, mapP_keys o false true false ps h.keys, musigDerPath_str path w h.path.1 h.path.2]
  have hcond : ((!path.isEmpty || w) && (ps.any (fun k => !k.isXkey) || ps.any Key.isRanged)) = false := by
    by_cases hd' : path ≠ [] ∨ w = true
    · have hx := h.derives hd'
      have a1 : ps.any (fun k => !k.isXkey) = false := by
        rw [Bool.eq_false_iff]; intro hc
        obtain ⟨k, hk, hb⟩ := List.any_eq_true.mp hc
        simp [(hx k hk).1] at hb
      have a2 : ps.any Key.isRanged = false := by
        rw [Bool.eq_false_iff]; intro hc
        obtain ⟨k, hk, hb⟩ := List.any_eq_true.mp hc
        simp [(hx k hk).2] at hb
      simp [a1, a2]
    · have : path = [] ∧ w = false := by
        cases w <;> cases path <;> simp_all
      simp [this.1, this.2]
  simp only [hcond, Bool.false_eq_true, if_false]

end Btc.Desc
