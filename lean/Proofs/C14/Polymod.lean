import Model.C14.Descsum
/-!
BIP380 checksum polymod: bounds, XOR-linearity, the zero-input step has trivial kernel, and two
symbol errors at most three places apart (what one changed character produces) are never cancelled.
Core Lean only.
-/
namespace Btc.Descsum
open Gen.Descsum

theorem xor_eq_zero {a b : Nat} (h : a ^^^ b = 0) : a = b := by
  have : a ^^^ (a ^^^ b) = a := by rw [h, Nat.xor_zero]
  rw [← Nat.xor_assoc, Nat.xor_self, Nat.zero_xor] at this
  exact this.symm

theorem xor_self_cancel {a b : Nat} (h : a = a ^^^ b) : b = 0 := by
  have : a ^^^ a = a ^^^ (a ^^^ b) := by rw [← h]
  rw [Nat.xor_self, ← Nat.xor_assoc, Nat.xor_self, Nat.zero_xor] at this
  exact this.symm

theorem xor_left_comm (a b c : Nat) : a ^^^ (b ^^^ c) = b ^^^ (a ^^^ c) := by
  rw [← Nat.xor_assoc, Nat.xor_comm a b, Nat.xor_assoc]

theorem poly_consts : POLY_INIT = 1 ∧ POLY_TOP = 35 ∧ POLY_MASK = 2 ^ 35 - 1 ∧ POLY_SHIFT = 5 := by decide

/-! ### the feedback word -/
/-- what the five conditional XORs add for a given `top`. -/
def fb (top : Nat) : Nat := genLoop top GENERATOR 0 0

theorem genLoop_acc (top : Nat) (gs : List Nat) (i chk : Nat) :
    genLoop top gs i chk = chk ^^^ genLoop top gs i 0 := by
  induction gs generalizing i chk with
  | nil => simp [genLoop]
  | cons g gs ih =>
    simp only [genLoop]
    rw [ih, ih (i + 1) (0 ^^^ _), Nat.zero_xor, Nat.xor_assoc]

theorem genLoop_lt (top : Nat) (gs : List Nat) (hg : ∀ g ∈ gs, g < 2 ^ 40) (i chk : Nat)
    (hc : chk < 2 ^ 40) : genLoop top gs i chk < 2 ^ 40 := by
  induction gs generalizing i chk with
  | nil => simpa [genLoop] using hc
  | cons g gs ih =>
    simp only [genLoop]
    apply ih (fun x hx => hg x (List.mem_cons_of_mem _ hx))
    apply Nat.xor_lt_two_pow hc
    split
    · exact hg g (List.mem_cons_self ..)
    · omega

theorem generator_lt : ∀ g ∈ GENERATOR, g < 2 ^ 40 := by decide

theorem fb_lt (top : Nat) : fb top < 2 ^ 40 := genLoop_lt top _ generator_lt 0 0 (by omega)

theorem step_def (c v : Nat) :
    polymodStep c v = ((c &&& POLY_MASK) <<< POLY_SHIFT) ^^^ v ^^^ fb (c >>> POLY_TOP) := by
  unfold polymodStep fb
  rw [genLoop_acc]

theorem top_lt {c : Nat} (h : c < 2 ^ 40) : c >>> POLY_TOP < 32 := by
  have e : POLY_TOP = 35 := rfl
  rw [e, Nat.shiftRight_eq_div_pow]; omega

theorem step_lt (c v : Nat) (hv : v < 2 ^ 40) : polymodStep c v < 2 ^ 40 := by
  rw [step_def]
  have h1 : (c &&& POLY_MASK) <<< POLY_SHIFT < 2 ^ 40 := by
    have : c &&& POLY_MASK ≤ POLY_MASK := Nat.and_le_right
    have e : POLY_MASK = 34359738367 := rfl
    have e2 : POLY_SHIFT = 5 := rfl
    rw [Nat.shiftLeft_eq, e2]; omega
  exact Nat.xor_lt_two_pow (Nat.xor_lt_two_pow h1 hv) (fb_lt _)

theorem polymodFrom_lt (vs : List Nat) (c : Nat) (hc : c < 2 ^ 40) (hv : ∀ v ∈ vs, v < 2 ^ 40) :
    polymodFrom c vs < 2 ^ 40 := by
  induction vs generalizing c with
  | nil => exact hc
  | cons v vs ih =>
    simp only [polymodFrom, List.foldl_cons] at *
    exact ih _ (step_lt c v (hv v (List.mem_cons_self ..))) (fun x hx => hv x (List.mem_cons_of_mem _ hx))

/-! ### linearity -/
/-- zero-input step: multiplication by x in GF(32)[x]/g. -/
def step0 (c : Nat) : Nat := polymodStep c 0

theorem step_split (c v : Nat) : polymodStep c v = step0 c ^^^ v := by
  unfold step0
  rw [step_def, step_def, Nat.xor_zero, Nat.xor_assoc, Nat.xor_comm v, ← Nat.xor_assoc]

theorem fb_linear : ∀ a, a < 32 → ∀ b, b < 32 → fb (a ^^^ b) = fb a ^^^ fb b := by
  decide +kernel

theorem step0_linear (a b : Nat) (ha : a < 2 ^ 40) (hb : b < 2 ^ 40) :
    step0 (a ^^^ b) = step0 a ^^^ step0 b := by
  unfold step0
  rw [step_def, step_def, step_def]
  simp only [Nat.xor_zero]
  rw [Nat.and_xor_distrib_right, Nat.shiftLeft_xor_distrib, Nat.shiftRight_xor_distrib,
    fb_linear _ (top_lt ha) _ (top_lt hb)]
  simp only [Nat.xor_assoc, xor_left_comm]

theorem step0_lt (c : Nat) : step0 c < 2 ^ 40 := step_lt c 0 (by omega)

/-- the step is linear in (state, symbol) jointly. -/
theorem step_linear (a b x y : Nat) (ha : a < 2 ^ 40) (hb : b < 2 ^ 40) :
    polymodStep (a ^^^ b) (x ^^^ y) = polymodStep a x ^^^ polymodStep b y := by
  rw [step_split, step_split a, step_split b, step0_linear a b ha hb]
  simp only [Nat.xor_assoc, xor_left_comm]

/-- `k` zero-input steps. -/
def shiftK : Nat → Nat → Nat
  | 0, d => d
  | k + 1, d => shiftK k (step0 d)

theorem shiftK_lt (k d : Nat) (h : d < 2 ^ 40) : shiftK k d < 2 ^ 40 := by
  induction k generalizing d with
  | zero => exact h
  | succ k ih => exact ih _ (step0_lt d)

theorem shiftK_succ' (k d : Nat) : shiftK (k + 1) d = step0 (shiftK k d) := by
  induction k generalizing d with
  | zero => rfl
  | succ k ih => simp only [shiftK] at *; rw [ih]

/-- injecting an error `d` into the state shows up as `x^k·d` after `k` more symbols. -/
theorem polymodFrom_xor (vs : List Nat) (a d : Nat) (ha : a < 2 ^ 40) (hd : d < 2 ^ 40)
    (hv : ∀ v ∈ vs, v < 2 ^ 40) :
    polymodFrom (a ^^^ d) vs = polymodFrom a vs ^^^ shiftK vs.length d := by
  induction vs generalizing a d with
  | nil => rfl
  | cons v vs ih =>
    simp only [polymodFrom, List.foldl_cons, List.length_cons, shiftK] at *
    have h1 : polymodStep (a ^^^ d) v = polymodStep a v ^^^ step0 d := by
      rw [step_split, step_split, step0_linear a d ha hd]
      simp only [Nat.xor_assoc, Nat.xor_comm]
    rw [h1]
    exact ih _ _ (step_lt a v (hv v (List.mem_cons_self ..))) (step0_lt d) (fun x hx => hv x (List.mem_cons_of_mem _ hx))

/-- XOR-linearity of the polymod: symbol-wise XOR of two equally long sequences, started from the
    XOR of two states, gives the XOR of the two results. -/
theorem polymodFrom_zipXor (xs ys : List Nat) (a b : Nat) (ha : a < 2 ^ 40) (hb : b < 2 ^ 40)
    (hl : xs.length = ys.length) (hx : ∀ v ∈ xs, v < 2 ^ 40) (hy : ∀ v ∈ ys, v < 2 ^ 40) :
    polymodFrom (a ^^^ b) (List.zipWith (· ^^^ ·) xs ys) = polymodFrom a xs ^^^ polymodFrom b ys := by
  induction xs generalizing ys a b with
  | nil =>
    cases ys with
    | nil => rfl
    | cons _ _ => simp at hl
  | cons x xs ih =>
    cases ys with
    | nil => simp at hl
    | cons y ys =>
      simp only [polymodFrom, List.zipWith_cons_cons, List.foldl_cons] at *
      rw [step_linear a b x y ha hb]
      exact ih ys _ _ (step_lt a x (hx x (List.mem_cons_self ..))) (step_lt b y (hy y (List.mem_cons_self ..)))
        (by simpa using hl) (fun v hv => hx v (List.mem_cons_of_mem _ hv)) (fun v hv => hy v (List.mem_cons_of_mem _ hv))

/-! ### the zero-input step has trivial kernel -/
theorem fb_low_inj : ∀ t, t < 32 → fb t % 32 = 0 → t = 0 := by decide +kernel

theorem fb_zero : fb 0 = 0 := by decide

theorem step0_eq_zero (c : Nat) (hc : c < 2 ^ 40) (h : step0 c = 0) : c = 0 := by
  unfold step0 at h
  rw [step_def] at h
  simp only [Nat.xor_zero] at h
  have e := xor_eq_zero h
  have e1 : POLY_MASK = 2 ^ 35 - 1 := rfl
  have e2 : POLY_SHIFT = 5 := rfl
  have e3 : POLY_TOP = 35 := rfl
  rw [e1, e2, e3, Nat.and_two_pow_sub_one_eq_mod, Nat.shiftLeft_eq, Nat.shiftRight_eq_div_pow] at e
  have ht : c / 2 ^ 35 < 32 := by omega
  have hz : c / 2 ^ 35 = 0 := fb_low_inj _ ht (by rw [← e]; omega)
  rw [hz, fb_zero] at e
  omega

theorem shiftK_eq_zero (k d : Nat) (hd : d < 2 ^ 40) (h : shiftK k d = 0) : d = 0 := by
  induction k generalizing d with
  | zero => exact h
  | succ k ih => exact step0_eq_zero d hd (ih _ (step0_lt d) h)

theorem xor_shift_add (x d : Nat) (hd : d < 32) : (x * 32) ^^^ d = x * 32 + d := by
  have h1 : ((x * 32) ^^^ d) % 2 ^ 5 = d := by
    rw [Nat.xor_mod_two_pow]
    have : x * 32 % 2 ^ 5 = 0 := by omega
    rw [this, Nat.zero_xor]; omega
  have h2 : ((x * 32) ^^^ d) >>> 5 = x := by
    rw [Nat.shiftRight_xor_distrib, Nat.shiftRight_eq_div_pow, Nat.shiftRight_eq_div_pow]
    have a : x * 32 / 2 ^ 5 = x := by omega
    have b : d / 2 ^ 5 = 0 := by omega
    rw [a, b, Nat.xor_zero]
  rw [Nat.shiftRight_eq_div_pow] at h2
  omega

/-- below 2^35 nothing is fed back: the step just shifts the symbol in. -/
theorem step_small (s d : Nat) (hs : s < 2 ^ 35) (hd : d < 32) : polymodStep s d = s * 32 + d := by
  rw [step_def]
  have e1 : POLY_MASK = 2 ^ 35 - 1 := rfl
  have e2 : POLY_SHIFT = 5 := rfl
  have e3 : POLY_TOP = 35 := rfl
  rw [e1, e2, e3, Nat.and_two_pow_sub_one_eq_mod, Nat.shiftLeft_eq, Nat.shiftRight_eq_div_pow]
  have a : s % 2 ^ 35 = s := Nat.mod_eq_of_lt hs
  have b : s / 2 ^ 35 = 0 := by omega
  rw [a, b, fb_zero, Nat.xor_zero]
  exact xor_shift_add s d hd

theorem step0_small (s : Nat) (hs : s < 2 ^ 35) : step0 s = s * 32 := by
  have := step_small s 0 hs (by omega)
  unfold step0; omega

/-- what one changed character does to the symbol sequence: its own symbol changes (`a → a'`) and
    the group symbol at most three places later changes (`b → b'`); the polymod differs unless both
    are unchanged.  No bound on the lengths before or after. -/
theorem double_substitution (mid post : List Nat) (c a a' b b' : Nat)
    (ha : a < 32) (ha' : a' < 32) (hb : b < 32) (hb' : b' < 32) (hm : mid.length ≤ 2)
    (hmid : ∀ x ∈ mid, x < 2 ^ 40) (hpost : ∀ x ∈ post, x < 2 ^ 40)
    (h : polymodFrom c (a :: (mid ++ b :: post)) = polymodFrom c (a' :: (mid ++ b' :: post))) :
    a = a' ∧ b = b' := by
  unfold polymodFrom at h
  rw [List.foldl_cons, List.foldl_append, List.foldl_cons, List.foldl_cons, List.foldl_append,
    List.foldl_cons] at h
  have hd1 : a ^^^ a' < 32 := Nat.xor_lt_two_pow (n := 5) ha ha'
  have hd2 : b ^^^ b' < 32 := Nat.xor_lt_two_pow (n := 5) hb hb'
  have e1 : polymodStep c a' = polymodStep c a ^^^ (a ^^^ a') := by
    rw [step_split, step_split, Nat.xor_assoc, ← Nat.xor_assoc a, Nat.xor_self, Nat.zero_xor]
  have hs1 : polymodStep c a < 2 ^ 40 := step_lt c a (by omega)
  have e2 := polymodFrom_xor mid (polymodStep c a) (a ^^^ a') hs1 (by omega) hmid
  unfold polymodFrom at e2
  rw [e1, e2] at h
  generalize hm0 : List.foldl polymodStep (polymodStep c a) mid = m at h
  have hmlt : m < 2 ^ 40 := by
    rw [← hm0]; exact polymodFrom_lt mid _ hs1 hmid
  have hsk : shiftK mid.length (a ^^^ a') < 2 ^ 40 := shiftK_lt _ _ (by omega)
  have e3 : polymodStep (m ^^^ shiftK mid.length (a ^^^ a')) b'
      = polymodStep m b ^^^ (shiftK (mid.length + 1) (a ^^^ a') ^^^ (b ^^^ b')) := by
    rw [step_split, step_split m, step0_linear m _ hmlt hsk, shiftK_succ']
    generalize step0 m = x
    generalize step0 (shiftK mid.length (a ^^^ a')) = y
    apply Nat.eq_of_testBit_eq; intro i
    simp only [Nat.testBit_xor]
    generalize x.testBit i = p
    generalize y.testBit i = q
    generalize b.testBit i = r
    generalize b'.testBit i = s
    cases p <;> cases q <;> cases r <;> cases s <;> rfl
  have hE : shiftK (mid.length + 1) (a ^^^ a') ^^^ (b ^^^ b') < 2 ^ 40 :=
    Nat.xor_lt_two_pow (shiftK_lt _ _ (by omega)) (by omega)
  have e4 := polymodFrom_xor post (polymodStep m b) _ (step_lt m b (by omega)) hE hpost
  unfold polymodFrom at e4
  rw [e3, e4] at h
  have z := shiftK_eq_zero _ _ hE (xor_self_cancel h)
  -- x^k·d1 ^ d2 = 0 with d1, d2 < 32 and k ≤ 3 forces d1 = d2 = 0
  have key : a ^^^ a' = 0 ∧ b ^^^ b' = 0 := by
    generalize a ^^^ a' = d1 at *
    generalize b ^^^ b' = d2 at *
    match mid, hm with
    | [], _ =>
      simp only [List.length_nil, shiftK] at z
      rw [step0_small d1 (by omega)] at z
      have := xor_eq_zero z
      omega
    | [_], _ =>
      simp only [List.length_cons, List.length_nil, shiftK] at z
      rw [step0_small d1 (by omega), step0_small (d1 * 32) (by omega)] at z
      have := xor_eq_zero z
      omega
    | [_, _], _ =>
      simp only [List.length_cons, List.length_nil, shiftK] at z
      rw [step0_small d1 (by omega), step0_small (d1 * 32) (by omega),
        step0_small (d1 * 32 * 32) (by omega)] at z
      have := xor_eq_zero z
      omega
    | _ :: _ :: _ :: _, h3 => simp at h3
  exact ⟨xor_eq_zero key.1, xor_eq_zero key.2⟩

end Btc.Descsum
