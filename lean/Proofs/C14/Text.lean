import Init.Data.Nat.ToString
import Model.C14.Descriptor
/-!
C14 — T2 groundwork: `_split_arguments` sees through balanced text, numbers and hex read back, path
steps read back.  Core Lean only.
-/
namespace Btc.Desc
open Btc Gen.Descriptor

/-! ### `_split_arguments` on balanced text -/

/-- prefix the current (first) segment. -/
def prependHead (s : List Char) : List (List Char) → List (List Char)
  | h :: t => (s ++ h) :: t
  | [] => [s]

theorem consHead_eq (c : Char) (l : List (List Char)) : consHead c l = prependHead [c] l := by
  cases l <;> rfl

theorem prependHead_append (s t : List Char) (l : List (List Char)) :
    prependHead s (prependHead t l) = prependHead (s ++ t) l := by
  cases l <;> simp [prependHead]

theorem prependHead_nil (l : List (List Char)) (h : l ≠ []) : prependHead [] l = l := by
  cases l with
  | nil => exact absurd rfl h
  | cons a b => rfl

/-- the scanner passes over `s` at every depth, commas excluded: `s` only extends the segment. -/
def Tr (s : List Char) : Prop :=
  ∀ d rest, splitArgsFrom d (s ++ rest) = (splitArgsFrom d rest).map (prependHead s)

/-- the same at positive depth only (where a comma splits nothing). -/
def Wr (s : List Char) : Prop :=
  ∀ d rest, splitArgsFrom (d + 1) (s ++ rest) = (splitArgsFrom (d + 1) rest).map (prependHead s)

def PlainC (c : Char) : Prop := c ≠ '(' ∧ c ≠ ')' ∧ c ≠ '{' ∧ c ≠ '}' ∧ c ≠ ','

theorem splitArgsFrom_ne_nil : ∀ (s : List Char) (d : Nat) (r : List (List Char)),
    splitArgsFrom d s = some r → r ≠ [] := by
  intro s
  induction s with
  | nil =>
    intro d r h
    simp only [splitArgsFrom] at h
    split at h
    · cases h; simp
    · cases h
  | cons c cs ih =>
    intro d r h
    simp only [splitArgsFrom] at h
    split at h
    · cases hx : splitArgsFrom (d + 1) cs with
      | none => rw [hx] at h; cases h
      | some x => rw [hx] at h; cases h; cases x <;> simp [consHead]
    · split at h
      · split at h
        · cases h
        · cases hx : splitArgsFrom (d - 1) cs with
          | none => rw [hx] at h; cases h
          | some x => rw [hx] at h; cases h; cases x <;> simp [consHead]
      · split at h
        · cases hx : splitArgsFrom 0 cs with
          | none => rw [hx] at h; cases h
          | some x => rw [hx] at h; cases h; simp
        · cases hx : splitArgsFrom d cs with
          | none => rw [hx] at h; cases h
          | some x => rw [hx] at h; cases h; cases x <;> simp [consHead]

theorem Tr_nil : Tr [] := by
  intro d rest
  simp only [List.nil_append]
  cases h : splitArgsFrom d rest with
  | none => rfl
  | some r => simp [prependHead_nil r (splitArgsFrom_ne_nil _ _ _ h)]

theorem Tr_single {c : Char} (h : PlainC c) : Tr [c] := by
  intro d rest
  obtain ⟨h1, h2, h3, h4, h5⟩ := h
  simp only [List.cons_append, List.nil_append, splitArgsFrom, h1, h2, h3, h4, h5, or_self, false_and,
    if_false]
  congr 1

theorem Wr_comma : Wr [','] := by
  intro d rest
  have e : ¬ (',' = '(' ∨ ',' = '{') := by decide
  have e2 : ¬ (',' = ')' ∨ ',' = '}') := by decide
  simp only [List.cons_append, List.nil_append, splitArgsFrom, e, e2, if_false, Nat.add_one_ne_zero,
    and_false]
  congr 1

theorem Tr.wr {s : List Char} (h : Tr s) : Wr s := fun d rest => h (d + 1) rest

theorem Tr_append {s t : List Char} (hs : Tr s) (ht : Tr t) : Tr (s ++ t) := by
  intro d rest
  rw [List.append_assoc, hs, ht, Option.map_map]
  congr 1
  funext l
  exact prependHead_append s t l

theorem Wr_append {s t : List Char} (hs : Wr s) (ht : Wr t) : Wr (s ++ t) := by
  intro d rest
  rw [List.append_assoc, hs, ht, Option.map_map]
  congr 1
  funext l
  exact prependHead_append s t l

theorem Wr_nil : Wr [] := Tr_nil.wr

/-- a bracketed group is passed over whole, whichever of `(`/`{` opens and `)`/`}` closes. -/
theorem Tr_group {s : List Char} (hs : Wr s) (o c : Char) (ho : o = '(' ∨ o = '{') (hc : c = ')' ∨ c = '}') :
    Tr (o :: (s ++ [c])) := by
  intro d rest
  have hc' : ¬ (c = '(' ∨ c = '{') := by rcases hc with rfl | rfl <;> decide
  simp only [List.cons_append, splitArgsFrom, ho, if_true]
  rw [List.append_assoc, hs]
  simp only [List.cons_append, List.nil_append, splitArgsFrom, hc', hc, if_false, if_true,
    Nat.add_one_ne_zero, Nat.add_sub_cancel, Option.map_map]
  congr 1
  funext l
  simp only [Function.comp, consHead_eq, prependHead_append]
  rfl

theorem Tr_of_plain : ∀ (s : List Char), (∀ c ∈ s, PlainC c) → Tr s := by
  intro s
  induction s with
  | nil => intro _; exact Tr_nil
  | cons c cs ih =>
    intro h
    have := Tr_append (Tr_single (h c (List.mem_cons_self ..))) (ih fun x hx => h x (List.mem_cons_of_mem _ hx))
    simpa using this

theorem Wr_joinArgs : ∀ (args : List (List Char)), (∀ a ∈ args, Tr a) → Wr (joinArgs args) := by
  intro args
  induction args with
  | nil => intro _; exact Wr_nil
  | cons a rest ih =>
    intro h
    cases rest with
    | nil => simpa [joinArgs] using (h a (List.mem_cons_self ..)).wr
    | cons b rest' =>
      simp only [joinArgs]
      have h2 := ih fun x hx => h x (List.mem_cons_of_mem _ hx)
      have := Wr_append (h a (List.mem_cons_self ..)).wr (Wr_append Wr_comma h2)
      simpa using this

/-- `_split_arguments(",".join(args)) == args` when every argument is balanced text. -/
theorem splitArgs_joinArgs : ∀ (args : List (List Char)), args ≠ [] → (∀ a ∈ args, Tr a) →
    splitArgsFrom 0 (joinArgs args) = some args := by
  intro args
  induction args with
  | nil => intro h; exact absurd rfl h
  | cons a rest ih =>
    intro _ h
    cases rest with
    | nil =>
      have := h a (List.mem_cons_self ..) 0 []
      simpa [joinArgs, splitArgsFrom, prependHead] using this
    | cons b rest' =>
      simp only [joinArgs]
      rw [h a (List.mem_cons_self ..) 0]
      have e : ¬ (',' = '(' ∨ ',' = '{') := by decide
      have e2 : ¬ (',' = ')' ∨ ',' = '}') := by decide
      simp only [splitArgsFrom, e, e2, if_false, and_self, if_true]
      rw [ih (by simp) fun x hx => h x (List.mem_cons_of_mem _ hx)]
      simp [prependHead]

theorem Tr_call (name : List Char) (args : List (List Char)) (hn : ∀ c ∈ name, PlainC c)
    (ha : ∀ a ∈ args, Tr a) : Tr (call name args) := by
  unfold call
  exact Tr_append (Tr_of_plain name hn) (Tr_group (Wr_joinArgs args ha) '(' ')' (Or.inl rfl) (Or.inl rfl))

/-! ### pieces of text -/

theorem takeWhile_name (name rest : List Char) (h : ∀ c ∈ name, c ≠ '(') :
    (name ++ '(' :: rest).takeWhile (· != '(') = name := by
  induction name with
  | nil => simp
  | cons c cs ih =>
    have hc : (c != '(') = true := by simpa using h c (List.mem_cons_self ..)
    simp only [List.cons_append, List.takeWhile_cons, hc, if_true]
    rw [ih fun x hx => h x (List.mem_cons_of_mem _ hx)]

theorem partition_found (sep : Char) (a b : List Char) (h : sep ∉ a) :
    partition sep (a ++ sep :: b) = (a, true, b) := by
  induction a with
  | nil => simp [partition, Descsum.partition]
  | cons x xs ih =>
    have hx : x ≠ sep := fun e => h (by simp [e])
    have hxs : sep ∉ xs := fun e => h (List.mem_cons_of_mem _ e)
    simp only [partition, List.cons_append, Descsum.partition, hx, if_false] at ih ⊢
    rw [ih hxs]

theorem partition_absent (sep : Char) (a : List Char) (h : sep ∉ a) :
    partition sep a = (a, false, []) := by
  induction a with
  | nil => rfl
  | cons x xs ih =>
    have hx : x ≠ sep := fun e => h (by simp [e])
    have hxs : sep ∉ xs := fun e => h (List.mem_cons_of_mem _ e)
    simp only [partition, Descsum.partition, hx, if_false] at ih ⊢
    rw [ih hxs]

/-- `"/" + step` for each step. -/
def slashed (steps : List (List Char)) : List Char := steps.flatMap fun s => '/' :: s

theorem splitOn_plain (sep : Char) (s : List Char) (h : sep ∉ s) : splitOn sep s = [s] := by
  induction s with
  | nil => rfl
  | cons c cs ih =>
    have hc : c ≠ sep := fun e => h (by simp [e])
    simp only [splitOn, hc, if_false, ih fun e => h (List.mem_cons_of_mem _ e)]

theorem splitOn_append (sep : Char) (s rest : List Char) (h : sep ∉ s) :
    splitOn sep (s ++ sep :: rest) = s :: splitOn sep rest := by
  induction s with
  | nil => simp [splitOn]
  | cons c cs ih =>
    have hc : c ≠ sep := fun e => h (by simp [e])
    simp only [List.cons_append, splitOn, hc, if_false, ih fun e => h (List.mem_cons_of_mem _ e)]

theorem splitOn_slashed (s : List Char) (ss : List (List Char)) (hs : '/' ∉ s) (hss : ∀ x ∈ ss, '/' ∉ x) :
    splitOn '/' (s ++ slashed ss) = s :: ss := by
  induction ss generalizing s with
  | nil => simpa [slashed] using splitOn_plain '/' s hs
  | cons x xs ih =>
    simp only [slashed, List.flatMap_cons, List.cons_append] at ih ⊢
    rw [splitOn_append '/' s _ hs]
    rw [ih x (hss x (List.mem_cons_self ..)) fun y hy => hss y (List.mem_cons_of_mem _ hy)]

/-! ### numbers and hex -/

theorem decChars_isDigit (n : Nat) : ∀ c ∈ decChars n, c.isDigit = true := fun _ hc =>
  Nat.isDigit_of_mem_toDigits (by omega) (by omega) hc

theorem decChars_ne_nil (n : Nat) : decChars n ≠ [] := by
  intro h
  have := @Nat.length_toDigits_pos 10 n
  simp [decChars] at h

theorem parseDec_decChars (n : Nat) : parseDec (decChars n) = some n := by
  have h1 : (decChars n).isEmpty = false := by
    cases h : decChars n with
    | nil => exact absurd h (decChars_ne_nil n)
    | cons => rfl
  have h2 : (decChars n).all isDigit = true := List.all_eq_true.mpr (decChars_isDigit n)
  unfold parseDec
  rw [h1, h2]
  simp [decChars, Nat.ofDigitChars_ten_toDigits]

theorem hexVal_hexChar : ∀ n, n < 16 → hexVal? (hexChar n) = some n := by decide

theorem hexChars_mem (b : Bytes) : ∀ c ∈ hexChars b, ∃ n, n < 16 ∧ c = hexChar n := by
  intro c hc
  simp only [hexChars, List.mem_flatMap, List.mem_cons, List.not_mem_nil, or_false] at hc
  obtain ⟨x, _, rfl | rfl⟩ := hc
  · exact ⟨_, by have := x.toNat_lt; omega, rfl⟩
  · exact ⟨_, by omega, rfl⟩

theorem hexBytes_hexChars (b : Bytes) : hexBytes (hexChars b) = some b := by
  unfold hexBytes
  induction b with
  | nil => rfl
  | cons x xs ih =>
    have h1 : x.toNat / 16 < 16 := by have := x.toNat_lt; omega
    have h2 : x.toNat % 16 < 16 := by omega
    have hx : UInt8.ofNat (16 * (x.toNat / 16) + x.toNat % 16) = x := by
      rw [Nat.div_add_mod]; exact UInt8.ofNat_toNat
    simp only [hexChars, List.flatMap_cons, List.cons_append, List.nil_append] at ih ⊢
    simp only [fromHexChars, hexVal_hexChar _ h1, hexVal_hexChar _ h2, ih, hx, bind, Option.bind, pure]

theorem hexChars_length (b : Bytes) : (hexChars b).length = 2 * b.length := by
  induction b with
  | nil => rfl
  | cons x xs ih => simp only [hexChars, List.flatMap_cons, List.length_append, List.length_cons,
      List.length_nil] at ih ⊢; omega

/-- every character a hex digit or decimal digit writes is one of these. -/
def alnumLow (c : Char) : Bool := c.isDigit || ('a' ≤ c && c ≤ 'f')

theorem hexChar_alnum : ∀ n, n < 16 → alnumLow (hexChar n) = true := by decide

theorem hexChars_isHexDigit (b : Bytes) : (hexChars b).all isHexDigit = true := by
  rw [List.all_eq_true]
  intro c hc
  obtain ⟨n, hn, rfl⟩ := hexChars_mem b c hc
  simp [isHexDigit, hexVal_hexChar n hn]

end Btc.Desc
