import Proofs.C14.Polymod
/-!
BIP380 checksum, string level: the generated tables are the BIP's, btclib's functions equal the
reference transcription, one changed character changes the checksum (any length), a character
outside the charset is refused.  Core Lean only.
-/
set_option linter.unusedSimpArgs false
namespace Btc.Descsum
open Gen.Descsum

/-! ### tables -/
theorem input_charset_eq_ref : INPUT_CHARSET = Ref.INPUT_CHARSET := by decide
theorem checksum_charset_eq_ref : CHECKSUM_CHARSET = Ref.CHECKSUM_CHARSET := by decide
theorem generator_eq_ref : GENERATOR = Ref.GENERATOR := by decide
theorem index_keys : INPUT_INDEX.map (·.1) = INPUT_CHARSET := by decide
theorem expand_consts :
    SYM_MASK = 31 ∧ GROUP_SHIFT = 5 ∧ GROUP_W0 = 9 ∧ GROUP_W1 = 3 ∧ TAIL_W = 3 := by decide
theorem chk_consts : CHK_LEN = 8 ∧ CHK_FINAL = 1 ∧ CHK_BITS = 5 ∧ CHK_MASK = 31 := by decide

theorem index_val_lt : ∀ p ∈ INPUT_INDEX, p.2 < 95 := by decide
theorem index_inj : ∀ p ∈ INPUT_INDEX, ∀ q ∈ INPUT_INDEX, p.2 = q.2 → p.1 = q.1 := by decide +kernel
theorem index_eq_ref_on : ∀ c ∈ INPUT_CHARSET, inputIndex c = Ref.INPUT_CHARSET.idxOf? c := by
  decide +kernel

theorem inputIndex_some {c : Char} {v : Nat} (h : inputIndex c = some v) : (c, v) ∈ INPUT_INDEX := by
  unfold inputIndex at h
  cases hf : INPUT_INDEX.find? (·.1 == c) with
  | none => rw [hf] at h; cases h
  | some p =>
    rw [hf] at h
    have hp := List.find?_some hf
    have hm := List.mem_of_find?_eq_some hf
    simp only [Option.map_some, Option.some.injEq] at h
    have : p.1 = c := by simpa using hp
    rw [← this, ← h]; exact hm

theorem inputIndex_lt {c : Char} {v : Nat} (h : inputIndex c = some v) : v < 95 :=
  index_val_lt _ (inputIndex_some h)

theorem inputIndex_mem {c : Char} {v : Nat} (h : inputIndex c = some v) : c ∈ INPUT_CHARSET := by
  rw [← index_keys]
  exact List.mem_map.mpr ⟨_, inputIndex_some h, rfl⟩

theorem inputIndex_inj {c c' : Char} {v : Nat} (h : inputIndex c = some v) (h' : inputIndex c' = some v) :
    c = c' :=
  index_inj _ (inputIndex_some h) _ (inputIndex_some h') rfl

theorem inputIndex_none {c : Char} (h : c ∉ INPUT_CHARSET) : inputIndex c = none := by
  unfold inputIndex
  rw [Option.map_eq_none_iff, List.find?_eq_none]
  intro p hp hc
  apply h
  rw [← index_keys]
  have : p.1 = c := by simpa using hc
  exact List.mem_map.mpr ⟨p, hp, this⟩

theorem inputIndex_isSome_iff (c : Char) : (inputIndex c).isSome = true ↔ c ∈ INPUT_CHARSET := by
  constructor
  · intro h
    cases hv : inputIndex c with
    | none => rw [hv] at h; cases h
    | some v => exact inputIndex_mem hv
  · intro h
    cases hv : inputIndex c with
    | none =>
      have := index_eq_ref_on c h
      rw [hv] at this
      have hn := List.idxOf?_eq_none_iff.mp this.symm
      rw [← input_charset_eq_ref] at hn
      exact absurd h hn
    | some v => rfl

/-- the dictionary lookup is the reference's `find` (the charset has no repeated character). -/
theorem inputIndex_eq_ref (c : Char) : inputIndex c = Ref.INPUT_CHARSET.idxOf? c := by
  by_cases h : c ∈ INPUT_CHARSET
  · exact index_eq_ref_on c h
  · rw [inputIndex_none h]
    rw [input_charset_eq_ref] at h
    exact (List.idxOf?_eq_none_iff.mpr h).symm

/-! ### btclib = reference -/
theorem polymodStep_eq_ref (chk value : Nat) :
    polymodStep chk value =
      [0, 1, 2, 3, 4].foldl (fun c i => c ^^^ (if (chk >>> 35 >>> i) &&& 1 = 1 then Ref.GENERATOR.getD i 0 else 0))
        (((chk &&& 0x7ffffffff) <<< 5) ^^^ value) := by
  rfl

theorem polymod_eq_ref (symbols : List Nat) : polymod symbols = Ref.descsumPolymod symbols := by
  unfold polymod polymodFrom Ref.descsumPolymod
  have e : POLY_INIT = 1 := rfl
  rw [e]
  congr 1

/-- group state as the list the reference keeps. -/
def Grp.toList : Grp → List Nat
  | .g0 => [] | .g1 a => [a] | .g2 a b => [a, b]

theorem expandFrom_eq_ref (g : Grp) (s : List Char) :
    expandFrom g s = Ref.expandFrom g.toList s := by
  induction s generalizing g with
  | nil => cases g <;> rfl
  | cons c cs ih =>
    cases g with
    | g0 =>
      simp only [expandFrom, Ref.expandFrom, Grp.toList, inputIndex_eq_ref, List.nil_append]
      cases Ref.INPUT_CHARSET.idxOf? c with
      | none => rfl
      | some v => simp only [ih]; rfl
    | g1 a =>
      simp only [expandFrom, Ref.expandFrom, Grp.toList, inputIndex_eq_ref, List.cons_append, List.nil_append]
      cases Ref.INPUT_CHARSET.idxOf? c with
      | none => rfl
      | some v => simp only [ih]; rfl
    | g2 a b =>
      simp only [expandFrom, Ref.expandFrom, Grp.toList, inputIndex_eq_ref, List.cons_append, List.nil_append]
      cases Ref.INPUT_CHARSET.idxOf? c with
      | none => rfl
      | some v => simp only [ih]; rfl

theorem expand_eq_ref (s : List Char) : expand s = Ref.descsumExpand s := expandFrom_eq_ref .g0 s

/-- `body + '#' + checksum(body)` is the reference's `descsum_create(body)`, for every string
    (both fail exactly on a character outside the charset). -/
theorem checksum_eq_ref (body : List Char) :
    (checksum body).map (fun c => body ++ '#' :: c) = Ref.descsumCreate body := by
  unfold checksum Ref.descsumCreate
  rw [← expand_eq_ref]
  cases expand body with
  | none => rfl
  | some e =>
    simp only [Option.map_some, Option.some.injEq, List.append_cancel_left_eq, List.cons.injEq, true_and]
    unfold checksumSymbols digits checksumChar
    rw [polymod_eq_ref, checksum_charset_eq_ref]
    rfl

/-! ### symbols are small -/
def Grp.ok : Grp → Prop
  | .g0 => True | .g1 a => a < 3 | .g2 a b => a < 3 ∧ b < 3

theorem lo_lt (v : Nat) : v &&& SYM_MASK < 32 := by
  have e : SYM_MASK = 2 ^ 5 - 1 := rfl
  rw [e, Nat.and_two_pow_sub_one_eq_mod]; omega

theorem hi_lt {v : Nat} (h : v < 95) : v >>> GROUP_SHIFT < 3 := by
  have e : GROUP_SHIFT = 5 := rfl
  rw [e, Nat.shiftRight_eq_div_pow]; omega

theorem expandFrom_lt (s : List Char) : ∀ (g : Grp) (E : List Nat), g.ok → expandFrom g s = some E →
    ∀ x ∈ E, x < 32 := by
  induction s with
  | nil =>
    intro g E hg h x hx
    have e : TAIL_W = 3 := rfl
    cases g with
    | g0 => simp only [expandFrom, Option.some.injEq] at h; subst h; cases hx
    | g1 a =>
      simp only [expandFrom, Option.some.injEq] at h; subst h
      simp only [List.mem_singleton] at hx; simp only [Grp.ok] at hg; omega
    | g2 a b =>
      simp only [expandFrom, Option.some.injEq] at h; subst h
      simp only [List.mem_singleton] at hx; simp only [Grp.ok] at hg; rw [e] at hx; omega
  | cons c cs ih =>
    intro g E hg h x hx
    have e0 : GROUP_W0 = 9 := rfl
    have e1 : GROUP_W1 = 3 := rfl
    cases g with
    | g0 =>
      simp only [expandFrom] at h
      cases hv : inputIndex c with
      | none => rw [hv] at h; cases h
      | some v =>
        rw [hv] at h
        simp only at h
        cases hr : expandFrom (.g1 (v >>> GROUP_SHIFT)) cs with
        | none => rw [hr] at h; cases h
        | some r =>
          rw [hr] at h
          simp only [Option.map_some, Option.some.injEq] at h; subst h
          rcases List.mem_cons.mp hx with hx | hx
          · rw [hx]; exact lo_lt v
          · exact ih (.g1 (v >>> GROUP_SHIFT)) r (hi_lt (inputIndex_lt hv)) hr x hx
    | g1 a =>
      simp only [expandFrom] at h
      cases hv : inputIndex c with
      | none => rw [hv] at h; cases h
      | some v =>
        rw [hv] at h
        simp only at h
        cases hr : expandFrom (.g2 a (v >>> GROUP_SHIFT)) cs with
        | none => rw [hr] at h; cases h
        | some r =>
          rw [hr] at h
          simp only [Option.map_some, Option.some.injEq] at h; subst h
          rcases List.mem_cons.mp hx with hx | hx
          · rw [hx]; exact lo_lt v
          · exact ih (.g2 a (v >>> GROUP_SHIFT)) r ⟨hg, hi_lt (inputIndex_lt hv)⟩ hr x hx
    | g2 a b =>
      simp only [expandFrom] at h
      cases hv : inputIndex c with
      | none => rw [hv] at h; cases h
      | some v =>
        rw [hv] at h
        simp only at h
        cases hr : expandFrom .g0 cs with
        | none => rw [hr] at h; cases h
        | some r =>
          rw [hr] at h
          simp only [Option.map_some, Option.some.injEq] at h; subst h
          rcases List.mem_cons.mp hx with hx | hx
          · rw [hx]; exact lo_lt v
          · rcases List.mem_cons.mp hx with hx | hx
            · have := hi_lt (inputIndex_lt hv)
              simp only [Grp.ok] at hg
              rw [hx, e0, e1]; omega
            · exact ih .g0 r trivial hr x hx

/-! ### one changed character -/
theorem index_of_halves {v v' : Nat} (hl : v &&& SYM_MASK = v' &&& SYM_MASK)
    (hh : v >>> GROUP_SHIFT = v' >>> GROUP_SHIFT) : v = v' := by
  have e : SYM_MASK = 2 ^ 5 - 1 := rfl
  have e2 : GROUP_SHIFT = 5 := rfl
  rw [e, Nat.and_two_pow_sub_one_eq_mod, Nat.and_two_pow_sub_one_eq_mod] at hl
  rw [e2, Nat.shiftRight_eq_div_pow, Nat.shiftRight_eq_div_pow] at hh
  omega

/-- the symbols a character contributes, as a function of the character: its own symbol first and,
    at most two symbols later, a group symbol `k + w·(index >> 5)`; everything else is the same
    whatever the character is. -/
theorem expand_shape (g : Grp) (hg : g.ok) (post : List Char) (c : Char) (v : Nat) (E : List Nat)
    (hv : inputIndex c = some v) (hE : expandFrom g (c :: post) = some E) :
    ∃ (mid T : List Nat) (k w : Nat), mid.length ≤ 2 ∧ (∀ x ∈ mid, x < 32) ∧ (∀ x ∈ T, x < 32) ∧
      0 < w ∧ k + w * 2 < 32 ∧
      ∀ (c' : Char) (v' : Nat), inputIndex c' = some v' →
        expandFrom g (c' :: post) = some ((v' &&& SYM_MASK) :: (mid ++ (k + w * (v' >>> GROUP_SHIFT)) :: T)) := by
  have e0 : GROUP_W0 = 9 := rfl
  have e1 : GROUP_W1 = 3 := rfl
  have e2 : TAIL_W = 3 := rfl
  have hhi := hi_lt (inputIndex_lt hv)
  cases g with
  | g2 a b =>
    simp only [Grp.ok] at hg
    simp only [expandFrom, hv] at hE
    cases hT : expandFrom .g0 post with
    | none => rw [hT] at hE; cases hE
    | some T =>
      refine ⟨[], T, a * GROUP_W0 + b * GROUP_W1, 1, by simp, by simp, expandFrom_lt post .g0 T trivial hT,
        by (try simp only [e0, e1, e2]); omega, by (try simp only [e0, e1, e2]); omega, ?_⟩
      intro c' v' hv'
      simp only [expandFrom, hv', hT, Option.map_some, List.nil_append, Nat.one_mul]
  | g1 a =>
    simp only [Grp.ok] at hg
    cases post with
    | nil =>
      refine ⟨[], [], a * TAIL_W, 1, by simp, by simp, by simp, by (try simp only [e0, e1, e2]); omega, by (try simp only [e0, e1, e2]); omega, ?_⟩
      intro c' v' hv'
      simp only [expandFrom, hv', Option.map_some, List.nil_append, Nat.one_mul]
    | cons d post' =>
      simp only [expandFrom, hv] at hE
      cases hu : inputIndex d with
      | none => simp [hu] at hE
      | some u =>
        have hhu := hi_lt (inputIndex_lt hu)
        simp only [hu] at hE
        cases hT : expandFrom .g0 post' with
        | none => simp [hT] at hE
        | some T =>
          refine ⟨[u &&& SYM_MASK], T, a * GROUP_W0 + (u >>> GROUP_SHIFT), GROUP_W1, by simp,
            by simpa using lo_lt u, expandFrom_lt post' .g0 T trivial hT, by (try simp only [e0, e1, e2]); omega, by (try simp only [e0, e1, e2]); omega, ?_⟩
          intro c' v' hv'
          simp only [expandFrom, hv', hu, hT, Option.map_some, List.cons_append, List.nil_append,
            Option.some.injEq, List.cons.injEq, true_and, and_true]
          rw [Nat.mul_comm GROUP_W1]; omega
  | g0 =>
    cases post with
    | nil =>
      refine ⟨[], [], 0, 1, by simp, by simp, by simp, by (try simp only [e0, e1, e2]); omega, by (try simp only [e0, e1, e2]); omega, ?_⟩
      intro c' v' hv'
      simp only [expandFrom, hv', Option.map_some, List.nil_append, Nat.one_mul, Nat.zero_add]
    | cons d post' =>
      simp only [expandFrom, hv] at hE
      cases hu : inputIndex d with
      | none => simp [hu] at hE
      | some u =>
        have hhu := hi_lt (inputIndex_lt hu)
        simp only [hu] at hE
        cases post' with
        | nil =>
          refine ⟨[u &&& SYM_MASK], [], u >>> GROUP_SHIFT, TAIL_W, by simp, by simpa using lo_lt u,
            by simp, by (try simp only [e0, e1, e2]); omega, by (try simp only [e0, e1, e2]); omega, ?_⟩
          intro c' v' hv'
          simp only [expandFrom, hv', hu, Option.map_some, List.cons_append, List.nil_append,
            Option.some.injEq, List.cons.injEq, true_and, and_true]
          rw [Nat.mul_comm TAIL_W]; omega
        | cons t post'' =>
          simp only [expandFrom] at hE
          cases ht : inputIndex t with
          | none => simp [ht] at hE
          | some w =>
            have hht := hi_lt (inputIndex_lt ht)
            simp only [ht] at hE
            cases hT : expandFrom .g0 post'' with
            | none => simp [hT] at hE
            | some T =>
              refine ⟨[u &&& SYM_MASK, w &&& SYM_MASK], T,
                (u >>> GROUP_SHIFT) * GROUP_W1 + (w >>> GROUP_SHIFT), GROUP_W0, by simp, ?_,
                expandFrom_lt post'' .g0 T trivial hT, by (try simp only [e0, e1, e2]); omega, by (try simp only [e0, e1, e2]); omega, ?_⟩
              · intro x hx
                simp only [List.mem_cons, List.not_mem_nil, or_false] at hx
                rcases hx with hx | hx <;> rw [hx] <;> exact lo_lt _
              · intro c' v' hv'
                simp only [expandFrom, hv', hu, ht, hT, Option.map_some, List.cons_append, List.nil_append,
                  Option.some.injEq, List.cons.injEq, true_and, and_true]
                rw [Nat.mul_comm GROUP_W0]; omega

/-- two valid strings that differ in exactly one character have different polymods, whatever
    state the computation starts from and whatever symbols `Z` follow (no bound on any length). -/
theorem subst_polymod (pre : List Char) : ∀ (g : Grp) (chk : Nat) (post : List Char) (c c' : Char)
    (v v' : Nat) (E E' Z : List Nat), g.ok → inputIndex c = some v → inputIndex c' = some v' →
    (∀ z ∈ Z, z < 2 ^ 40) →
    expandFrom g (pre ++ c :: post) = some E → expandFrom g (pre ++ c' :: post) = some E' →
    polymodFrom chk (E ++ Z) = polymodFrom chk (E' ++ Z) → v = v' := by
  induction pre with
  | nil =>
    intro g chk post c c' v v' E E' Z hg hv hv' hZ hE hE' h
    simp only [List.nil_append] at hE hE'
    obtain ⟨mid, T, k, w, hm, hmid, hT, hw, hk, hall⟩ := expand_shape g hg post c v E hv hE
    have r1 := hall c v hv
    have r2 := hall c' v' hv'
    rw [hE] at r1; rw [hE'] at r2
    simp only [Option.some.injEq] at r1 r2
    subst r1; subst r2
    have hhi := hi_lt (inputIndex_lt hv)
    have hhi' := hi_lt (inputIndex_lt hv')
    have b1 : k + w * (v >>> GROUP_SHIFT) < 32 := by
      have := Nat.mul_le_mul_left w (show v >>> GROUP_SHIFT ≤ 2 by omega); omega
    have b2 : k + w * (v' >>> GROUP_SHIFT) < 32 := by
      have := Nat.mul_le_mul_left w (show v' >>> GROUP_SHIFT ≤ 2 by omega); omega
    have := double_substitution mid (T ++ Z) chk _ _ _ _ (lo_lt v) (lo_lt v') b1 b2 hm
      (fun x hx => by have := hmid x hx; omega)
      (fun x hx => by
        rcases List.mem_append.mp hx with hx | hx
        · have := hT x hx; omega
        · exact hZ x hx)
      (by simpa [List.append_assoc] using h)
    exact index_of_halves this.1 (Nat.eq_of_mul_eq_mul_left hw (Nat.add_left_cancel this.2))
  | cons p ps ih =>
    intro g chk post c c' v v' E E' Z hg hv hv' hZ hE hE' h
    simp only [List.cons_append] at hE hE'
    cases hp : inputIndex p with
    | none => simp [expandFrom, hp] at hE
    | some u =>
      have hhu := hi_lt (inputIndex_lt hp)
      cases g with
      | g0 =>
        simp only [expandFrom, hp] at hE hE'
        cases hr : expandFrom (.g1 (u >>> GROUP_SHIFT)) (ps ++ c :: post) with
        | none => simp [hr] at hE
        | some r =>
          cases hr' : expandFrom (.g1 (u >>> GROUP_SHIFT)) (ps ++ c' :: post) with
          | none => simp [hr'] at hE'
          | some r' =>
            simp only [hr, hr', Option.map_some, Option.some.injEq] at hE hE'
            subst hE; subst hE'
            simp only [polymodFrom, List.cons_append, List.foldl_cons] at h
            exact ih (.g1 (u >>> GROUP_SHIFT)) _ post c c' v v' r r' Z hhu hv hv' hZ hr hr' h
      | g1 a =>
        simp only [Grp.ok] at hg
        simp only [expandFrom, hp] at hE hE'
        cases hr : expandFrom (.g2 a (u >>> GROUP_SHIFT)) (ps ++ c :: post) with
        | none => simp [hr] at hE
        | some r =>
          cases hr' : expandFrom (.g2 a (u >>> GROUP_SHIFT)) (ps ++ c' :: post) with
          | none => simp [hr'] at hE'
          | some r' =>
            simp only [hr, hr', Option.map_some, Option.some.injEq] at hE hE'
            subst hE; subst hE'
            simp only [polymodFrom, List.cons_append, List.foldl_cons] at h
            exact ih (.g2 a (u >>> GROUP_SHIFT)) _ post c c' v v' r r' Z ⟨hg, hhu⟩ hv hv' hZ hr hr' h
      | g2 a b =>
        simp only [expandFrom, hp] at hE hE'
        cases hr : expandFrom .g0 (ps ++ c :: post) with
        | none => simp [hr] at hE
        | some r =>
          cases hr' : expandFrom .g0 (ps ++ c' :: post) with
          | none => simp [hr'] at hE'
          | some r' =>
            simp only [hr, hr', Option.map_some, Option.some.injEq] at hE hE'
            subst hE; subst hE'
            simp only [polymodFrom, List.cons_append, List.foldl_cons] at h
            exact ih .g0 _ post c c' v v' r r' Z trivial hv hv' hZ hr hr' h


/-! ### strings -/
theorem expandFrom_valid (s : List Char) : ∀ (g : Grp) (E : List Nat), expandFrom g s = some E →
    ∀ c ∈ s, ∃ v, inputIndex c = some v := by
  induction s with
  | nil => intro g E _ c hc; cases hc
  | cons p ps ih =>
    intro g E h c hc
    cases hp : inputIndex p with
    | none => cases g <;> simp [expandFrom, hp] at h
    | some u =>
      rcases List.mem_cons.mp hc with hc | hc
      · exact ⟨u, by rw [hc]; exact hp⟩
      · cases g with
        | g0 =>
          simp only [expandFrom, hp] at h
          cases hr : expandFrom (.g1 (u >>> GROUP_SHIFT)) ps with
          | none => simp [hr] at h
          | some r => exact ih _ r hr c hc
        | g1 a =>
          simp only [expandFrom, hp] at h
          cases hr : expandFrom (.g2 a (u >>> GROUP_SHIFT)) ps with
          | none => simp [hr] at h
          | some r => exact ih _ r hr c hc
        | g2 a b =>
          simp only [expandFrom, hp] at h
          cases hr : expandFrom .g0 ps with
          | none => simp [hr] at h
          | some r => exact ih _ r hr c hc

theorem expandFrom_some (s : List Char) : ∀ (g : Grp), (∀ c ∈ s, c ∈ INPUT_CHARSET) →
    ∃ E, expandFrom g s = some E := by
  induction s with
  | nil => intro g _; cases g <;> exact ⟨_, rfl⟩
  | cons p ps ih =>
    intro g h
    have hp := (inputIndex_isSome_iff p).mpr (h p (List.mem_cons_self ..))
    cases hv : inputIndex p with
    | none => rw [hv] at hp; cases hp
    | some u =>
      have hps : ∀ c ∈ ps, c ∈ INPUT_CHARSET := fun c hc => h c (List.mem_cons_of_mem _ hc)
      cases g with
      | g0 =>
        obtain ⟨r, hr⟩ := ih (.g1 (u >>> GROUP_SHIFT)) hps
        exact ⟨_, by simp only [expandFrom, hv, hr, Option.map_some]; rfl⟩
      | g1 a =>
        obtain ⟨r, hr⟩ := ih (.g2 a (u >>> GROUP_SHIFT)) hps
        exact ⟨_, by simp only [expandFrom, hv, hr, Option.map_some]; rfl⟩
      | g2 a b =>
        obtain ⟨r, hr⟩ := ih .g0 hps
        exact ⟨_, by simp only [expandFrom, hv, hr, Option.map_some]; rfl⟩

theorem checksum_isSome_iff (body : List Char) :
    (∃ cs, checksum body = some cs) ↔ ∀ c ∈ body, c ∈ INPUT_CHARSET := by
  unfold checksum expand
  constructor
  · rintro ⟨cs, h⟩ c hc
    cases hE : expandFrom .g0 body with
    | none => rw [hE] at h; cases h
    | some E =>
      obtain ⟨v, hv⟩ := expandFrom_valid body .g0 E hE c hc
      exact inputIndex_mem hv
  · intro h
    obtain ⟨E, hE⟩ := expandFrom_some body .g0 h
    exact ⟨_, by rw [hE]; rfl⟩

theorem digits_lt (pm : Nat) : ∀ x ∈ digits pm, x < 32 := by
  intro x hx
  unfold digits at hx
  obtain ⟨i, _, rfl⟩ := List.mem_map.mp hx
  have e : CHK_MASK = 2 ^ 5 - 1 := rfl
  rw [e, Nat.and_two_pow_sub_one_eq_mod]; omega

theorem digits_inj {p q : Nat} (hp : p < 2 ^ 40) (hq : q < 2 ^ 40) (h : digits p = digits q) : p = q := by
  unfold digits at h
  have r : List.range CHK_LEN = [0, 1, 2, 3, 4, 5, 6, 7] := by decide
  have e1 : CHK_BITS = 5 := rfl
  have e2 : CHK_LEN = 8 := rfl
  have e3 : CHK_MASK = 2 ^ 5 - 1 := rfl
  rw [r] at h
  simp only [List.map_cons, List.map_nil, List.cons.injEq, and_true, e1, e2, e3,
    Nat.and_two_pow_sub_one_eq_mod, Nat.shiftRight_eq_div_pow] at h
  omega

theorem checksumChar_inj : ∀ d, d < 32 → ∀ e, e < 32 → checksumChar d = checksumChar e → d = e := by
  decide +kernel
theorem checksumChar_ne_hash : ∀ d, d < 32 → checksumChar d ≠ '#' := by decide +kernel
theorem checksumChar_mem : ∀ d, d < 32 → checksumChar d ∈ INPUT_CHARSET := by decide +kernel
theorem hash_mem : '#' ∈ INPUT_CHARSET := by decide

theorem map_checksumChar_inj : ∀ (l l' : List Nat), (∀ x ∈ l, x < 32) → (∀ x ∈ l', x < 32) →
    l.map checksumChar = l'.map checksumChar → l = l' := by
  intro l
  induction l with
  | nil => intro l' _ _ h; cases l' with | nil => rfl | cons _ _ => simp at h
  | cons a l ih =>
    intro l' h1 h2 h
    cases l' with
    | nil => simp at h
    | cons b l' =>
      simp only [List.map_cons, List.cons.injEq] at h
      rw [checksumChar_inj a (h1 a (List.mem_cons_self ..)) b (h2 b (List.mem_cons_self ..)) h.1,
        ih l' (fun x hx => h1 x (List.mem_cons_of_mem _ hx)) (fun x hx => h2 x (List.mem_cons_of_mem _ hx)) h.2]

theorem xor_right_cancel {a b c : Nat} (h : a ^^^ c = b ^^^ c) : a = b := by
  have := congrArg (· ^^^ c) h
  simpa [Nat.xor_assoc] using this

/-- the checksum of a valid body determines the polymod of its expansion. -/
theorem checksum_polymod {E E' : List Nat} (hE : ∀ x ∈ E, x < 32) (hE' : ∀ x ∈ E', x < 32)
    (h : (checksumSymbols E).map checksumChar = (checksumSymbols E').map checksumChar) :
    polymodFrom POLY_INIT (E ++ List.replicate CHK_LEN 0) = polymodFrom POLY_INIT (E' ++ List.replicate CHK_LEN 0) := by
  have hb : ∀ (F : List Nat), (∀ x ∈ F, x < 32) →
      polymod (F ++ List.replicate CHK_LEN 0) ^^^ CHK_FINAL < 2 ^ 40 := by
    intro F hF
    apply Nat.xor_lt_two_pow _ (by decide)
    apply polymodFrom_lt _ _ (by decide)
    intro v hv
    rcases List.mem_append.mp hv with hv | hv
    · have := hF v hv; omega
    · rw [List.eq_of_mem_replicate hv]; omega
  have := map_checksumChar_inj _ _ (digits_lt _) (digits_lt _) h
  exact xor_right_cancel (digits_inj (hb E hE) (hb E' hE') this)

/-- T1 detection: two valid bodies that differ in exactly one character have different checksums
    (every length). -/
theorem checksum_subst_ne (pre post : List Char) (c c' : Char) (cs cs' : List Char) (hne : c ≠ c')
    (h : checksum (pre ++ c :: post) = some cs) (h' : checksum (pre ++ c' :: post) = some cs') :
    cs ≠ cs' := by
  intro heq
  unfold checksum expand at h h'
  cases hE : expandFrom .g0 (pre ++ c :: post) with
  | none => rw [hE] at h; cases h
  | some E =>
    cases hE' : expandFrom .g0 (pre ++ c' :: post) with
    | none => rw [hE'] at h'; cases h'
    | some E' =>
      rw [hE] at h; rw [hE'] at h'
      simp only [Option.map_some, Option.some.injEq] at h h'
      obtain ⟨v, hv⟩ := expandFrom_valid _ .g0 E hE c (by simp)
      obtain ⟨v', hv'⟩ := expandFrom_valid _ .g0 E' hE' c' (by simp)
      have hp := checksum_polymod (expandFrom_lt _ .g0 E trivial hE) (expandFrom_lt _ .g0 E' trivial hE')
        (by rw [h, h', heq])
      have := subst_polymod pre .g0 POLY_INIT post c c' v v' E E' (List.replicate CHK_LEN 0) trivial hv hv'
        (fun z hz => by rw [List.eq_of_mem_replicate hz]; omega) hE hE' hp
      subst this
      exact hne (inputIndex_inj hv hv')

theorem checksum_chars {body cs : List Char} (h : checksum body = some cs) :
    ∀ x ∈ cs, x ≠ '#' ∧ x ∈ INPUT_CHARSET := by
  unfold checksum at h
  cases hE : expand body with
  | none => rw [hE] at h; cases h
  | some E =>
    rw [hE] at h
    simp only [Option.map_some, Option.some.injEq] at h
    subst h
    intro x hx
    obtain ⟨d, hd, rfl⟩ := List.mem_map.mp hx
    have := digits_lt _ d hd
    exact ⟨checksumChar_ne_hash d this, checksumChar_mem d this⟩

theorem partition_append (a b : List Char) (h : '#' ∉ a) : partition '#' (a ++ '#' :: b) = (a, true, b) := by
  induction a with
  | nil => simp [partition]
  | cons x xs ih =>
    have hx : x ≠ '#' := fun e => h (by simp [e])
    have hxs : '#' ∉ xs := fun e => h (List.mem_cons_of_mem _ e)
    simp only [List.cons_append, partition, hx, if_false, ih hxs]

theorem partition_none (a : List Char) (h : '#' ∉ a) : partition '#' a = (a, false, []) := by
  induction a with
  | nil => rfl
  | cons x xs ih =>
    have hx : x ≠ '#' := fun e => h (by simp [e])
    have hxs : '#' ∉ xs := fun e => h (List.mem_cons_of_mem _ e)
    simp only [partition, hx, if_false, ih hxs]

theorem partition_mem (d : List Char) (x : Char) (hx : x ∈ d) :
    x ∈ (partition '#' d).1 ∨ x = '#' ∨ (x ∈ (partition '#' d).2.2 ∧ (partition '#' d).2.1 = true) := by
  induction d with
  | nil => cases hx
  | cons y ys ih =>
    by_cases hy : y = '#'
    · simp only [partition, hy, if_true]
      rcases List.mem_cons.mp hx with hx | hx
      · exact Or.inr (Or.inl (hx.trans hy))
      · exact Or.inr (Or.inr ⟨hx, trivial⟩)
    · simp only [partition, hy, if_false]
      rcases List.mem_cons.mp hx with hx | hx
      · exact Or.inl (by simp [hx])
      · rcases ih hx with h | h | h
        · exact Or.inl (List.mem_cons_of_mem _ h)
        · exact Or.inr (Or.inl h)
        · exact Or.inr (Or.inr h)

end Btc.Descsum
