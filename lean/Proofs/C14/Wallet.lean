import Model.C14.Wallet
import Proofs.C14.Scan
/-!
C14 — `DescriptorWallet` over labelled chains: `dict(sorted(by_branch.items()))` is ascending, holds one entry
per label (the last written), is the identity on `dict(enumerate(…))`; the scan answers the label.  Core Lean only.
-/
namespace Btc.Desc
open Btc Gen.Descriptor

/-! ### `dict(sorted(dict(items).items()))` -/

theorem lookup_cons_pair (b : Nat) (y : Nat × D) (ys : List (Nat × D)) :
    (y :: ys).lookup b = if b = y.1 then some y.2 else ys.lookup b := by
  obtain ⟨k, d⟩ := y
  rw [List.lookup_cons]
  by_cases h : b = k
  · simp [h]
  · have : (b == k) = false := by simpa using h
    simp [this, h]

theorem lookup_insertChain (b : Nat) (x : Nat × D) : ∀ (l : List (Nat × D)),
    (insertChain x l).lookup b = if b = x.1 then some x.2 else l.lookup b
  | [] => by simp [insertChain, lookup_cons_pair]
  | y :: ys => by
    simp only [insertChain]
    split
    · rename_i hlt
      rw [lookup_cons_pair, lookup_cons_pair, lookup_insertChain b x ys]
      by_cases hy : b = y.1
      · have : ¬ b = x.1 := by omega
        rw [if_pos hy, if_neg this, if_pos hy]
      · rw [if_neg hy, if_neg hy]
    · split
      · rename_i _ heq
        rw [lookup_cons_pair, lookup_cons_pair]
        by_cases hx : b = x.1
        · simp [hx]
        · have : ¬ b = y.1 := by omega
          simp [hx, this]
      · rw [lookup_cons_pair]

theorem mem_insertChain (x : Nat × D) : ∀ (l : List (Nat × D)) (z : Nat × D),
    z ∈ insertChain x l → z = x ∨ z ∈ l
  | [], z, h => by simp [insertChain] at h; exact Or.inl h
  | y :: ys, z, h => by
    simp only [insertChain] at h
    split at h
    · rcases List.mem_cons.mp h with h | h
      · exact Or.inr (h ▸ List.mem_cons_self ..)
      · rcases mem_insertChain x ys z h with h | h
        · exact Or.inl h
        · exact Or.inr (List.mem_cons_of_mem _ h)
    · split at h
      · rcases List.mem_cons.mp h with h | h
        · exact Or.inl h
        · exact Or.inr (List.mem_cons_of_mem _ h)
      · rcases List.mem_cons.mp h with h | h
        · exact Or.inl h
        · exact Or.inr h

def Ascending (l : List (Nat × D)) : Prop := l.Pairwise fun a b => a.1 < b.1

theorem insertChain_ascending (x : Nat × D) : ∀ (l : List (Nat × D)), Ascending l → Ascending (insertChain x l)
  | [], _ => by simp [insertChain, Ascending]
  | y :: ys, h => by
    unfold Ascending at h ⊢
    rw [List.pairwise_cons] at h
    simp only [insertChain]
    split
    · rename_i hlt
      rw [List.pairwise_cons]
      refine ⟨?_, insertChain_ascending x ys h.2⟩
      intro z hz
      rcases mem_insertChain x ys z hz with rfl | hz
      · exact hlt
      · exact h.1 z hz
    · split
      · rename_i _ heq
        rw [List.pairwise_cons]
        exact ⟨fun z hz => by have := h.1 z hz; omega, h.2⟩
      · rename_i h1 h2
        rw [List.pairwise_cons]
        refine ⟨?_, List.pairwise_cons.mpr h⟩
        intro z hz
        rcases List.mem_cons.mp hz with rfl | hz
        · omega
        · have := h.1 z hz; omega

theorem foldl_insertChain_ascending (items acc : List (Nat × D)) (h : Ascending acc) :
    Ascending (items.foldl (fun acc x => insertChain x acc) acc) := by
  induction items generalizing acc with
  | nil => exact h
  | cons x xs ih => exact ih _ (insertChain_ascending x acc h)

/-- `branches` is ascending. -/
theorem walletChains_ascending (items : List (Nat × D)) : Ascending (walletChains items) :=
  foldl_insertChain_ascending items [] List.Pairwise.nil

theorem lookup_foldl_insertChain (b : Nat) (items acc : List (Nat × D)) :
    (items.foldl (fun acc x => insertChain x acc) acc).lookup b =
      (match items.reverse.lookup b with | some d => some d | none => acc.lookup b) := by
  induction items generalizing acc with
  | nil => simp
  | cons x xs ih =>
    rw [List.foldl_cons, ih, lookup_insertChain]
    simp only [List.reverse_cons, List.lookup_append]
    cases hx : xs.reverse.lookup b with
    | some d => simp
    | none =>
      by_cases hb : b = x.1 <;> simp [lookup_cons_pair, hb]

/-- the chain kept under a label is the LAST one the mapping's items wrote under it (`dict(items)`). -/
theorem lookup_walletChains (b : Nat) (items : List (Nat × D)) :
    (walletChains items).lookup b = items.reverse.lookup b := by
  unfold walletChains
  rw [lookup_foldl_insertChain]
  cases items.reverse.lookup b <;> simp

theorem insertChain_append (n : Nat) (d : D) : ∀ (acc : List (Nat × D)), (∀ y ∈ acc, y.1 < n) →
    insertChain (n, d) acc = acc ++ [(n, d)]
  | [], _ => rfl
  | y :: ys, h => by
    have hy : y.1 < n := h y (List.mem_cons_self ..)
    simp only [insertChain, hy, if_true, List.cons_append]
    rw [insertChain_append n d ys fun z hz => h z (List.mem_cons_of_mem _ hz)]

theorem foldl_enumerateFrom (l : List D) : ∀ (n : Nat) (acc : List (Nat × D)), (∀ y ∈ acc, y.1 < n) →
    (enumerateFrom n l).foldl (fun acc x => insertChain x acc) acc = acc ++ enumerateFrom n l := by
  induction l with
  | nil => intro n acc _; simp [enumerateFrom]
  | cons d ds ih =>
    intro n acc h
    simp only [enumerateFrom, List.foldl_cons]
    rw [insertChain_append n d acc h, ih (n + 1)]
    · simp
    · intro y hy
      rcases List.mem_append.mp hy with hy | hy
      · have := h y hy; omega
      · simp at hy; subst hy; simp

/-- a sequence of descriptors is its own chain list: labels `0 … n-1` in order. -/
theorem walletChains_enumerate (l : List D) : walletChains (enumerateFrom 0 l) = enumerateFrom 0 l := by
  unfold walletChains
  rw [foldl_enumerateFrom l 0 [] (by simp)]
  simp

theorem enumerateFrom_getElem? (l : List D) : ∀ (n k : Nat), (enumerateFrom n l)[k]? = (l[k]?).map fun d => (n + k, d) := by
  induction l with
  | nil => intro n k; simp [enumerateFrom]
  | cons d ds ih =>
    intro n k
    cases k with
    | zero => simp [enumerateFrom]
    | succ k =>
      simp only [enumerateFrom, List.getElem?_cons_succ, ih]
      cases ds[k]? <;> simp; omega

/-! ### the scan answers the label -/
variable {α : Type} (E : DEnv α)

/-- the per-chain verdict of `Descriptor.index_of` at one index: `none` = the derivation raised. -/
def chainHit (net : String) (prv : PrvKeys) (s : Bytes) (c : Nat × D) (i : Nat) : Option Bool :=
  (scriptPubKeys E net prv c.2 i).map fun l => decide (s ∈ l)

/-- the range searched of one chain: `last_index`, or index 0 only when it is not ranged. -/
def chainLast (last : Nat) (c : Nat × D) : Nat := if c.2.isRanged then last else 0

theorem chainsPositionOf_hit_iff (net : String) (prv : PrvKeys) (chains : List (Nat × D)) (s : Bytes) (last b i : Nat) :
    chainsPositionOf E net prv chains s last = some (some (b, i)) ↔
      ∃ pre d post, chains = pre ++ (b, d) :: post ∧ Scan.AllMiss (chainHit E net prv s) (chainLast last) pre ∧
        i ≤ (if d.isRanged then last else 0) ∧ (∃ l, scriptPubKeys E net prv d i = some l ∧ s ∈ l) ∧
        ∀ j, j < i → ∃ l, scriptPubKeys E net prv d j = some l ∧ s ∉ l := by
  have key : chainsPositionOf E net prv chains s last = some (some (b, i)) ↔
      ∃ d, Scan.scanE (chainHit E net prv s) (chainLast last) chains = some (some ((b, d), i)) := by
    unfold chainsPositionOf
    change (Option.map _ (Scan.scanE (chainHit E net prv s) (chainLast last) chains)) = _ ↔ _
    cases Scan.scanE (chainHit E net prv s) (chainLast last) chains with
    | none => simp
    | some r =>
      cases r with
      | none => simp
      | some p =>
        obtain ⟨⟨b', d'⟩, i'⟩ := p
        simp only [Option.map_some, Option.some.injEq, Prod.mk.injEq]
        constructor
        · rintro ⟨rfl, rfl⟩; exact ⟨d', ⟨rfl, rfl⟩, rfl⟩
        · rintro ⟨d, ⟨rfl, _⟩, rfl⟩; exact ⟨rfl, rfl⟩
  rw [key]
  constructor
  · rintro ⟨d, h⟩
    obtain ⟨pre, post, e, hpre, h1, h2, h3⟩ := (Scan.scanE_hit_iff _ _ _ _ _).mp h
    refine ⟨pre, d, post, e, hpre, h1, ?_, ?_⟩
    · simp only [chainHit] at h2
      cases hl : scriptPubKeys E net prv d i with
      | none => simp [hl] at h2
      | some l => exact ⟨l, rfl, by simpa [hl] using h2⟩
    · intro j hj
      have := h3 j hj
      simp only [chainHit] at this
      cases hl : scriptPubKeys E net prv d j with
      | none => simp [hl] at this
      | some l => exact ⟨l, rfl, by simpa [hl] using this⟩
  · rintro ⟨pre, d, post, e, hpre, h1, ⟨l, hl, hm⟩, h3⟩
    refine ⟨d, (Scan.scanE_hit_iff _ _ _ _ _).mpr ⟨pre, post, e, hpre, h1, by simp [chainHit, hl, hm], ?_⟩⟩
    intro j hj
    obtain ⟨l', hl', hn⟩ := h3 j hj
    simp [chainHit, hl', hn]

theorem chainsPositionOf_none_iff (net : String) (prv : PrvKeys) (chains : List (Nat × D)) (s : Bytes) (last : Nat) :
    chainsPositionOf E net prv chains s last = some none ↔
      Scan.AllMiss (chainHit E net prv s) (chainLast last) chains := by
  rw [← Scan.scanE_none_iff]
  unfold chainsPositionOf
  change (Option.map _ (Scan.scanE (chainHit E net prv s) (chainLast last) chains)) = _ ↔ _
  cases Scan.scanE (chainHit E net prv s) (chainLast last) chains with
  | none => simp
  | some r => cases r <;> simp

/-- in an ascending chain list the entry under a label is unique: it is the one `lookup` finds. -/
theorem lookup_of_split (chains pre post : List (Nat × D)) (b : Nat) (d : D) (h : Ascending chains)
    (e : chains = pre ++ (b, d) :: post) : chains.lookup b = some d := by
  subst e
  induction pre with
  | nil => simp [lookup_cons_pair]
  | cons y ys ih =>
    unfold Ascending at h
    rw [List.cons_append, List.pairwise_cons] at h
    have : y.1 < b := h.1 (b, d) (by simp)
    have hb : ¬ b = y.1 := by omega
    rw [List.cons_append, lookup_cons_pair, if_neg hb]
    exact ih h.2

end Btc.Desc
