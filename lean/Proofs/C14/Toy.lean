import Proofs.E2E.C07
import Model.C14.Wallet
/-!
C14 — a BIP32 wallet that RUNS inside the kernel: the wallet model `bip32WalletSpk` over btclib's own curve arithmetic
(`Btc.EC.ops`) on the 31-point curve y² = x³ + 7 over F₄₃ (C01's toy curve, `CurveOk` proved there), a toy MAC and a
"HASH160" that keeps the parity byte and the x-coordinate.  Used to inhabit the hypotheses of the `position_of` theorems
with the REAL derivation function instead of a hand-written table.
-/
namespace Btc.Desc
open Btc Btc.E2E Btc.Bip32

def toyData14 : EnvData := { toyData with h160 := fun b => b.take 1 ++ (b.reverse.take 19) }

def toyE : DEnv EC.Point :=
  { bip := ecEnv Btc.C01.Toy.toyC toyData14, sha256 := fun b => b.take 32, tag := fun _ m => m.take 32,
    hash256 := fun b => b.take 32 }

/-- the hardened child `0h` of C07's toy master key: an account key (`derive_from_account_` wants a hardened index). -/
def toyAcct : XKey := ⟨[4, 136, 173, 228], 1, [2, 12, 0, 0], 2 ^ 31, List.replicate 32 7, 0 :: beBytes 32 21⟩

theorem toyAcct_is_child : deriveFold toyE.bip toyX [2 ^ 31] = .ok toyAcct := by decide +kernel

/-- a p2pkh script over the toy "HASH160" of the point (parity, x). -/
def toyScript (par x : UInt8) : Bytes := [118, 169, 20, par, x] ++ List.replicate 18 0 ++ [136, 172]

/-- what the wallet pays to at the eight positions `{0,1} × {0..3}` (kernel-evaluated BIP32 derivation). -/
theorem toy_table :
    ((List.range 2).map fun b => (List.range 4).map fun i => bip32WalletSpk toyE .p2pkh toyAcct b i) =
      [[some (toyScript 3 12), some (toyScript 3 21), some (toyScript 2 35), some (toyScript 2 7)],
       [some (toyScript 2 13), some (toyScript 3 37), some (toyScript 2 40), some (toyScript 2 42)]] := by
  decide +kernel

theorem any_ne {o : Option Bytes} {s : Bytes} (h : (o.any fun u => decide (u ≠ s)) = true) :
    ∃ u, o = some u ∧ u ≠ s := by
  cases o with
  | none => simp at h
  | some u => exact ⟨u, rfl, by simpa using h⟩

theorem toy_at : bip32WalletSpk toyE .p2pkh toyAcct 1 1 = some (toyScript 3 37) := by decide +kernel

theorem toy_pre : ∀ b' ∈ [0], ∀ j, j ≤ 3 →
    ((bip32WalletSpk toyE .p2pkh toyAcct b' j).any fun u => decide (u ≠ toyScript 3 37)) = true := by decide +kernel

theorem toy_before : ∀ j, j < 1 →
    ((bip32WalletSpk toyE .p2pkh toyAcct 1 j).any fun u => decide (u ≠ toyScript 3 37)) = true := by decide +kernel

end Btc.Desc
