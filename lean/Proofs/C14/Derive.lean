import Model.C14.Derive
import Model.C14.Wallet
import Proofs.C12.Tree
import Proofs.C14.Scan
/-!
C14 — T3 lemmas: bytewise sorting is canonical (so `sortedmulti` does not depend on the written order of
its keys), `at_index` commutes with derivation, `tr()` is the C12 tweak.  Core Lean only (+ C12's byte
order lemmas).
-/
namespace Btc.Desc
open Btc Gen.Descriptor Btc.Taproot

/-! ### Python's `sorted` on bytes -/
def leB (a b : Bytes) : Prop := ltBytes b a = false

theorem ltBytes_trans : ∀ (a b c : Bytes), ltBytes a b = true → ltBytes b c = true → ltBytes a c = true
  | [], [], _, h, _ => by simp [ltBytes] at h
  | [], _ :: _, [], _, h => by simp [ltBytes] at h
  | [], _ :: _, _ :: _, _, _ => by simp [ltBytes]
  | _ :: _, [], _, h, _ => by simp [ltBytes] at h
  | _ :: _, _ :: _, [], _, h => by simp [ltBytes] at h
  | x :: xs, y :: ys, z :: zs, h1, h2 => by
    simp only [ltBytes] at h1 h2 ⊢
    have ih := ltBytes_trans xs ys zs
    simp only [UInt8.lt_iff_toNat_lt] at h1 h2 ⊢
    by_cases hxy : x.toNat < y.toNat
    · by_cases hyz : y.toNat < z.toNat
      · have : x.toNat < z.toNat := by omega
        simp [this]
      · simp only [hyz, if_false] at h2
        by_cases hzy : z.toNat < y.toNat
        · simp [hzy] at h2
        · have : x.toNat < z.toNat := by omega
          simp [this]
    · simp only [hxy, if_false] at h1
      by_cases hyx : y.toNat < x.toNat
      · simp [hyx] at h1
      · simp only [hyx, if_false] at h1
        have exy : x.toNat = y.toNat := by omega
        by_cases hyz : y.toNat < z.toNat
        · have : x.toNat < z.toNat := by omega
          simp [this]
        · simp only [hyz, if_false] at h2
          by_cases hzy : z.toNat < y.toNat
          · simp [hzy] at h2
          · simp only [hzy, if_false] at h2
            have n1 : ¬ x.toNat < z.toNat := by omega
            have n2 : ¬ z.toNat < x.toNat := by omega
            simp only [n1, n2, if_false]
            exact ih h1 h2

theorem leB_trans {a b c : Bytes} (h1 : leB a b) (h2 : leB b c) : leB a c := by
  unfold leB at *
  cases hca : ltBytes c a with
  | false => rfl
  | true =>
    -- c < a; b is not below a and c not below b
    cases hab : ltBytes a b with
    | true => have := ltBytes_trans c a b hca hab; rw [h2] at this; cases this
    | false =>
      have : a = b := ltBytes_total a b hab h1
      subst this; rw [h2] at hca; cases hca

theorem leB_antisymm {a b : Bytes} (h1 : leB a b) (h2 : leB b a) : a = b := ltBytes_total a b h2 h1

theorem insertBytes_perm (x : Bytes) : ∀ (l : List Bytes), (insertBytes id x l).Perm (x :: l)
  | [] => List.Perm.refl _
  | y :: ys => by
    simp only [insertBytes, id]
    split
    · exact ((insertBytes_perm x ys).cons y).trans (List.Perm.swap x y ys)
    · exact List.Perm.refl _

theorem sortBytes_perm : ∀ (l : List Bytes), (sortBytesBy id l).Perm l
  | [] => List.Perm.refl _
  | x :: xs => (insertBytes_perm x _).trans ((sortBytes_perm xs).cons x)

theorem insertBytes_sorted (x : Bytes) : ∀ (l : List Bytes), l.Pairwise leB → (insertBytes id x l).Pairwise leB
  | [], _ => by simp [insertBytes]
  | y :: ys, h => by
    simp only [insertBytes, id]
    rw [List.pairwise_cons] at h
    split
    · rename_i hlt
      rw [List.pairwise_cons]
      refine ⟨?_, insertBytes_sorted x ys h.2⟩
      intro z hz
      rcases List.mem_cons.mp ((insertBytes_perm x ys).subset hz) with rfl | hz
      · exact ltBytes_asymm y z hlt
      · exact h.1 z hz
    · rename_i hlt
      have hxy : leB x y := by simpa [leB] using hlt
      rw [List.pairwise_cons]
      refine ⟨?_, List.pairwise_cons.mpr h⟩
      intro z hz
      rcases List.mem_cons.mp hz with rfl | hz
      · exact hxy
      · exact leB_trans hxy (h.1 z hz)

theorem sortBytes_sorted : ∀ (l : List Bytes), (sortBytesBy id l).Pairwise leB
  | [] => List.Pairwise.nil
  | x :: xs => insertBytes_sorted x _ (sortBytes_sorted xs)

/-- the sorted form of a list of byte strings depends only on the multiset. -/
theorem sortBytes_perm_eq {l l' : List Bytes} (h : l.Perm l') : sortBytesBy id l = sortBytesBy id l' :=
  List.Perm.eq_of_pairwise (fun _ _ _ _ h1 h2 => leB_antisymm h1 h2) (sortBytes_sorted l) (sortBytes_sorted l')
    ((sortBytes_perm l).trans (h.trans (sortBytes_perm l').symm))

/-! ### comprehension under a permutation -/
theorem mapO_perm {β γ : Type} (f : β → Option γ) {l l' : List β} (h : l.Perm l') :
    (∀ r, mapO f l = some r → ∃ r', mapO f l' = some r' ∧ r.Perm r') ∧ (mapO f l = none → mapO f l' = none) := by
  induction h with
  | nil => exact ⟨fun r hr => ⟨r, hr, List.Perm.refl _⟩, fun h => h⟩
  | @cons x la lb _ ih =>
    simp only [mapO]
    cases hx : f x with
    | none => simp
    | some b =>
      constructor
      · intro r hr
        cases h1 : mapO f la with
        | none => simp [h1] at hr
        | some r1 =>
          obtain ⟨r2, e2, p2⟩ := ih.1 r1 h1
          simp only [h1, Option.map_some, Option.some.injEq] at hr
          subst hr
          exact ⟨b :: r2, by simp [e2], p2.cons b⟩
      · intro hn
        cases h1 : mapO f la with
        | none => simp [ih.2 h1]
        | some r1 => simp [h1] at hn
  | swap x y l =>
    simp only [mapO]
    cases hx : f x <;> cases hy : f y <;> cases hl : mapO f l <;> simp [List.Perm.swap]
  | trans _ _ ih1 ih2 =>
    constructor
    · intro r hr
      obtain ⟨r1, e1, p1⟩ := ih1.1 r hr
      obtain ⟨r2, e2, p2⟩ := ih2.1 r1 e1
      exact ⟨r2, e2, p1.trans p2⟩
    · intro hn; exact ih2.2 (ih1.2 hn)

variable {α : Type} (E : DEnv α)

/-- `sortedmulti`: the keys are sorted AFTER derivation, so the script does not depend on the order the
    key expressions are written in. -/
theorem sortedmulti_perm (net : String) (prv : PrvKeys) (i thr : Nat) {ks ks' : List Key} (h : ks.Perm ks') :
    scripts E net prv i (.multi thr ks true) = scripts E net prv i (.multi thr ks' true) := by
  simp only [scripts, multiKeys, if_true]
  have hp := mapO_perm (fun k => Key.sec E net prv k i) h
  cases h1 : mapO (fun k => Key.sec E net prv k i) ks with
  | none => simp [hp.2 h1]
  | some r =>
    obtain ⟨r', e', p'⟩ := hp.1 r h1
    simp [e', sortBytes_perm_eq p']

/-! ### at_index -/
theorem fullPath_atIndex (k : Key) (i j : Nat) : (k.atIndex i).fullPath j = k.fullPath i := by
  obtain ⟨o, a, p, w, hd⟩ := k
  cases w <;> simp [Key.atIndex, Key.fullPath]

theorem sec_atIndex (net : String) (prv : PrvKeys) (k : Key) (i j : Nat) :
    Key.sec E net prv (k.atIndex i) j = Key.sec E net prv k i := by
  have hp := fullPath_atIndex k i j
  have ha : (k.atIndex i).atom = k.atom := by
    obtain ⟨o, a, p, w, hd⟩ := k
    cases w <;> rfl
  unfold Key.sec
  rw [ha, hp]

theorem mapO_atIndex (net : String) (prv : PrvKeys) (i j : Nat) : ∀ (ks : List Key),
    mapO (fun k => Key.sec E net prv k j) (ks.map (Key.atIndex i)) = mapO (fun k => Key.sec E net prv k i) ks
  | [] => rfl
  | k :: ks => by simp only [List.map_cons, mapO, sec_atIndex, mapO_atIndex net prv i j ks]

theorem tapTree_atIndex (net : String) (prv : PrvKeys) (i j : Nat) : ∀ (t : Tree),
    tapTree E net prv j (t.mapKeys (Key.atIndex i)) = tapTree E net prv i t
  | .pk k => by simp only [Tree.mapKeys, tapTree, sec_atIndex]
  | .multiA thr ks s => by simp only [Tree.mapKeys, tapTree, mapO_atIndex]
  | .branch l r => by simp only [Tree.mapKeys, tapTree, tapTree_atIndex net prv i j l, tapTree_atIndex net prv i j r]
  | .ms n => rfl

/-- `at_index(d, i)` describes, at any index, what `d` describes at `i`. -/
theorem scripts_atIndex (net : String) (prv : PrvKeys) (i j : Nat) : ∀ (d : D),
    scripts E net prv j (d.mapKeys (Key.atIndex i)) = scripts E net prv i d
  | .pk k | .pkh k | .wpkh k | .combo k | .rawtr k => by simp only [D.mapKeys, scripts, sec_atIndex]
  | .sh d => by simp only [D.mapKeys, scripts, scripts_atIndex net prv i j d]
  | .wsh d => by simp only [D.mapKeys, scripts, scripts_atIndex net prv i j d]
  | .multi t ks s => by simp only [D.mapKeys, scripts, multiKeys, mapO_atIndex]
  | .tr k none => by simp only [D.mapKeys, Option.map_none, scripts, sec_atIndex]
  | .tr k (some t) => by simp only [D.mapKeys, Option.map_some, scripts, sec_atIndex, tapTree_atIndex]
  | .addr a => rfl
  | .raw s => rfl
  | .ms n => rfl

end Btc.Desc
