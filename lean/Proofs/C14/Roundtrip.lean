import Proofs.C14.Key
/-!
C14 — T2: `parse(str(d)) == d` for descriptors and script trees.  Core Lean only.
-/
set_option linter.unusedSimpArgs false
namespace Btc.Desc
open Btc Gen.Descriptor

/-! ### written keys are balanced text -/
theorem KeyC.plain {c : Char} (h : KeyC c) : PlainC c := h.1

theorem StepC.plain {c : Char} (h : StepC c) : PlainC c :=
  ⟨h.ne _ (by decide) (by decide) (by decide), h.ne _ (by decide) (by decide) (by decide),
   h.ne _ (by decide) (by decide) (by decide), h.ne _ (by decide) (by decide) (by decide),
   h.ne _ (by decide) (by decide) (by decide)⟩

theorem plain_of_not (c : Char) (h1 : c ≠ '(') (h2 : c ≠ ')') (h3 : c ≠ '{') (h4 : c ≠ '}') (h5 : c ≠ ',') :
    PlainC c := ⟨h1, h2, h3, h4, h5⟩

theorem hexChars_plain (b : Bytes) : ∀ c ∈ hexChars b, PlainC c := fun c hc => (hexChars_keyC b c hc).1.plain

theorem strSteps_plain (hd : Hard) (path : List Nat) : ∀ c ∈ strSteps hd path, PlainC c := by
  intro c hc
  rw [strSteps_eq] at hc
  rcases slashed_mem _ _ hc with rfl | ⟨s, hs, hcs⟩
  · exact plain_of_not _ (by decide) (by decide) (by decide) (by decide) (by decide)
  · obtain ⟨j, _, rfl⟩ := List.mem_map.mp hs
    exact (strIndex_stepC hd j c hcs).plain

theorem strKey_plain (o : KeyOracle) (x cm : Bool) (k : Key) (h : KeyOk o x cm k) : ∀ c ∈ strKey k, PlainC c := by
  intro c hc
  rw [strKey_eq] at hc
  rcases List.mem_append.mp hc with hc | hc
  · cases hk : k.origin with
    | none => rw [hk] at hc; cases hc
    | some og =>
      rw [hk] at hc
      simp only [List.mem_cons, List.mem_append, List.not_mem_nil, or_false] at hc
      rcases hc with rfl | (e | e) | rfl
      · exact plain_of_not _ (by decide) (by decide) (by decide) (by decide) (by decide)
      · exact hexChars_plain _ c e
      · exact strSteps_plain _ _ c e
      · exact plain_of_not _ (by decide) (by decide) (by decide) (by decide) (by decide)
  · rcases atomText_mem o x cm k h c hc with e | rfl | rfl | e
    · exact e.plain
    · exact plain_of_not _ (by decide) (by decide) (by decide) (by decide) (by decide)
    · exact plain_of_not _ (by decide) (by decide) (by decide) (by decide) (by decide)
    · exact e.plain

theorem Tr_strKey (o : KeyOracle) (x cm : Bool) (k : Key) (h : KeyOk o x cm k) : Tr (strKey k) :=
  Tr_of_plain _ (strKey_plain o x cm k h)

theorem decChars_plain (n : Nat) : ∀ c ∈ decChars n, PlainC c := fun c hc =>
  (show StepC c from Or.inl (decChars_isDigit n c hc)).plain

/-! ### lists of keys -/
theorem mapP_keys (o : KeyOracle) (x cm m : Bool) : ∀ (ks : List Key), (∀ k ∈ ks, KeyOk o x cm k) →
    mapP (parseKey o x cm m) (ks.map strKey) = .ok ks := by
  intro ks
  induction ks with
  | nil => intro _; rfl
  | cons k ks ih =>
    intro h
    simp only [List.map_cons, mapP, parseKey_strKey o x cm m k (h k (List.mem_cons_self ..)),
      ih fun j hj => h j (List.mem_cons_of_mem _ hj)]

theorem parseThreshold_decChars (t : Nat) (ht : t < 10 ^ THRESHOLD_MAX_DIGITS) :
    parseThreshold (decChars t) = some t := by
  have hl : (decChars t).length ≤ THRESHOLD_MAX_DIGITS :=
    (Nat.length_toDigits_le_iff (b := 10) (by omega) (by decide)).mpr ht
  unfold parseThreshold
  rw [if_neg (by omega), parseDec_decChars]

theorem parseMultiArgs_str (o : KeyOracle) (x cm m : Bool) (t : Nat) (ks : List Key) (hne : ks ≠ [])
    (ht : t < 10 ^ THRESHOLD_MAX_DIGITS) (h : ∀ k ∈ ks, KeyOk o x cm k) :
    parseMultiArgs o x cm m (decChars t :: ks.map strKey) = .ok (t, ks) := by
  cases ks with
  | nil => exact absurd rfl hne
  | cons k ks =>
    have := mapP_keys o x cm m (k :: ks) h
    simp only [List.map_cons] at this
    simp only [parseMultiArgs, List.map_cons, parseThreshold_decChars t ht, this]

theorem multi_args_Tr (o : KeyOracle) (x cm : Bool) (t : Nat) (ks : List Key) (h : ∀ k ∈ ks, KeyOk o x cm k) :
    ∀ a ∈ decChars t :: ks.map strKey, Tr a := by
  intro a ha
  rcases List.mem_cons.mp ha with rfl | ha
  · exact Tr_of_plain _ (decChars_plain t)
  · obtain ⟨k, hk, rfl⟩ := List.mem_map.mp ha
    exact Tr_strKey o x cm k (h k hk)

/-! ### calls -/
theorem name_plain (name : List Char) (h : ∀ c ∈ name, c.isLower = true ∨ c = '_') : ∀ c ∈ name, PlainC c := by
  intro c hc
  rcases h c hc with e | rfl
  · refine ⟨?_, ?_, ?_, ?_, ?_⟩ <;> (intro hx; subst hx; exact absurd e (by decide))
  · exact ⟨by decide, by decide, by decide, by decide, by decide⟩

theorem Fn.chars_lower (fn : Fn) : ∀ c ∈ fn.chars, c.isLower = true ∨ c = '_' := by
  cases fn <;> decide

theorem call_eq (name : List Char) (args : List (List Char)) :
    call name args = (name ++ '(' :: joinArgs args) ++ [')'] := by
  simp [call]

theorem getLast?_call (name : List Char) (args : List (List Char)) : (call name args).getLast? = some ')' := by
  rw [call_eq, List.getLast?_append]; simp

theorem leaf_closed (name : List Char) (args : List (List Char)) :
    ((call name args).contains '(' && (call name args).getLast? != some ')') = false := by
  rw [getLast?_call]; simp

theorem inner_call (name : List Char) (args : List (List Char)) : inner name (call name args) = joinArgs args := by
  unfold inner call
  have : List.drop (name.length + 1) (name ++ '(' :: (joinArgs args ++ [')'])) = joinArgs args ++ [')'] := by
    rw [List.drop_append]
    simp
  rw [this]; simp

theorem takeWhile_call (name : List Char) (args : List (List Char)) (h : ∀ c ∈ name, PlainC c) :
    (call name args).takeWhile (· != '(') = name :=
  takeWhile_name name _ fun c hc => (h c hc).1

theorem splitFunction_call (name : List Char) (args : List (List Char)) (h : ∀ c ∈ name, PlainC c) (hn : name ≠ []) :
    splitFunction (call name args) = .ok (name, joinArgs args) := by
  unfold splitFunction
  rw [takeWhile_call name args h, getLast?_call]
  have h1 : ¬ name.length = (call name args).length := by simp [call]
  have h2 : name.isEmpty = false := by cases name with | nil => exact absurd rfl hn | cons => rfl
  have := inner_call name args
  unfold inner at this
  simp [h1, h2, this]

theorem splitArgs_join (args : List (List Char)) (hne : args ≠ []) (h : ∀ a ∈ args, Tr a) :
    splitArgs (joinArgs args) = .ok args := by
  unfold splitArgs
  rw [splitArgs_joinArgs args hne h]

/-! ### script trees -/
inductive TreeOk (o : KeyOracle) : Tree → Prop
  | pk {k : Key} : KeyOk o true true k → TreeOk o (.pk k)
  | multiA {t : Nat} {ks : List Key} {s : Bool} : ks ≠ [] → t < 10 ^ THRESHOLD_MAX_DIGITS →
      (∀ k ∈ ks, KeyOk o true true k) → TreeOk o (.multiA t ks s)
  | branch {l r : Tree} : TreeOk o l → TreeOk o r → TreeOk o (.branch l r)

def Tree.height : Tree → Nat
  | .branch l r => max l.height r.height + 1
  | _ => 0

theorem Tr_strTree (o : KeyOracle) : ∀ (t : Tree), TreeOk o t → Tr (strTree t) := by
  intro t h
  induction h with
  | pk hk =>
    exact Tr_call nPk _ (name_plain _ (by decide)) (by
      intro a ha; simp only [List.mem_singleton] at ha; subst ha; exact Tr_strKey o true true _ hk)
  | @multiA t ks s hne _ hk =>
    unfold strTree
    cases s
    · exact Tr_call nMultiA _ (name_plain _ (by decide)) (multi_args_Tr o true true t ks hk)
    · exact Tr_call nSortedmultiA _ (name_plain _ (by decide)) (multi_args_Tr o true true t ks hk)
  | branch _ _ ihl ihr =>
    unfold strTree
    have hw : Wr (strTree _ ++ ',' :: strTree _) := Wr_append ihl.wr (Wr_append Wr_comma ihr.wr)
    have := Tr_group hw '{' '}' (Or.inr rfl) (Or.inr rfl)
    simpa using this

theorem fnOf_chars (fn : Fn) : fnOf fn.chars = some fn := by cases fn <;> decide
theorem chars_not_musig (fn : Fn) : (fn.chars == nMusig) = false := by cases fn <;> decide
theorem chars_not_tree (fn : Fn) : isTreeFn fn.chars = false := by cases fn <;> decide
theorem chars_ne_nil (fn : Fn) : fn.chars ≠ [] := by cases fn <;> decide

theorem strTree_head (o : KeyOracle) (t : Tree) (h : TreeOk o t) :
    (∃ l r, t = .branch l r) ∨ (strTree t).head? ≠ some '{' := by
  cases h with
  | pk _ => right; simp [strTree, call, nPk]
  | @multiA _ _ s _ _ _ => right; cases s <;> simp [strTree, call, nMultiA, nSortedmultiA]
  | branch _ _ => left; exact ⟨_, _, rfl⟩

theorem parseTree_strTree (o : KeyOracle) : ∀ (t : Tree) (fuel depth : Nat), TreeOk o t → t.height < fuel →
    depth + t.height ≤ MAX_TREE_DEPTH → parseTree o fuel depth (strTree t) = .ok t := by
  intro t
  induction t with
  | pk k =>
    intro fuel depth h hf hd
    cases fuel with
    | zero => omega
    | succ f =>
      cases h with
      | pk hk =>
        have hd' : ¬ depth > MAX_TREE_DEPTH := by simp only [Tree.height] at hd; omega
        have hp := name_plain nPk (by decide)
        have hT : ∀ a ∈ [strKey k], Tr a := by
          intro a ha; simp only [List.mem_singleton] at ha; subst ha; exact Tr_strKey o true true _ hk
        have hh : (call nPk [strKey k]).head? ≠ some '{' := by simp [call, nPk]
        have e1 : isTreeFn nPk = false := by decide
        have e2 : (nPk == nMusig) = false := by decide
        have e3 : fnOf nPk = some .pk := by decide
        show parseTree o (f + 1) depth (call nPk [strKey k]) = _
        simp only [parseTree, hd', if_false, hh, leaf_closed, takeWhile_call nPk _ hp, inner_call, e1, e2, e3,
          Bool.false_eq_true, splitArgs_join _ (by simp) hT, oneArg, parseKey_strKey o true true true k hk,
          Except.map]
  | multiA thr ks s =>
    intro fuel depth h hf hd
    cases fuel with
    | zero => omega
    | succ f =>
      cases h with
      | multiA hne htl hk =>
        have hd' : ¬ depth > MAX_TREE_DEPTH := by simp only [Tree.height] at hd; omega
        have hT := multi_args_Tr o true true thr ks hk
        cases s with
        | false =>
          have hp := name_plain nMultiA (by decide)
          have hh : (call nMultiA (decChars thr :: ks.map strKey)).head? ≠ some '{' := by simp [call, nMultiA]
          have e1 : isTreeFn nMultiA = true := by decide
          have e2 : (nMultiA == nSortedmultiA) = false := by decide
          show parseTree o (f + 1) depth (call nMultiA (decChars thr :: ks.map strKey)) = _
          simp only [parseTree, hd', if_false, hh, leaf_closed, Bool.false_eq_true, takeWhile_call nMultiA _ hp, inner_call, e1, e2, if_true,
            splitArgs_join _ (by simp) hT, parseMultiArgs_str o true true true thr ks hne htl hk]
        | true =>
          have hp := name_plain nSortedmultiA (by decide)
          have hh : (call nSortedmultiA (decChars thr :: ks.map strKey)).head? ≠ some '{' := by
            simp [call, nSortedmultiA]
          have e1 : isTreeFn nSortedmultiA = true := by decide
          have e2 : (nSortedmultiA == nSortedmultiA) = true := by decide
          show parseTree o (f + 1) depth (call nSortedmultiA (decChars thr :: ks.map strKey)) = _
          simp only [parseTree, hd', if_false, hh, leaf_closed, Bool.false_eq_true, takeWhile_call nSortedmultiA _ hp, inner_call, e1, e2, if_true,
            splitArgs_join _ (by simp) hT, parseMultiArgs_str o true true true thr ks hne htl hk]
  | ms n => intro fuel depth h; cases h
  | branch l r ihl ihr =>
    intro fuel depth h hf hd
    cases fuel with
    | zero => omega
    | succ f =>
      cases h with
      | branch hl hr =>
        simp only [Tree.height] at hf hd
        have hd' : ¬ depth > MAX_TREE_DEPTH := by omega
        have hT : ∀ a ∈ [strTree l, strTree r], Tr a := by
          intro a ha
          simp only [List.mem_cons, List.not_mem_nil, or_false] at ha
          rcases ha with rfl | rfl
          · exact Tr_strTree o _ hl
          · exact Tr_strTree o _ hr
        have hj : joinArgs [strTree l, strTree r] = strTree l ++ ',' :: strTree r := rfl
        have e0 : '{' :: (strTree l ++ ',' :: (strTree r ++ ['}'])) = ('{' :: (strTree l ++ ',' :: strTree r)) ++ ['}'] := by
          simp
        have e1 : ('{' :: (strTree l ++ ',' :: (strTree r ++ ['}']))).getLast? = some '}' := by
          rw [e0, List.getLast?_append]; simp
        have e2 : (List.drop 1 ('{' :: (strTree l ++ ',' :: (strTree r ++ ['}'])))).dropLast
            = joinArgs [strTree l, strTree r] := by
          have e3 : strTree l ++ ',' :: (strTree r ++ ['}']) = (strTree l ++ ',' :: strTree r) ++ ['}'] := by simp
          rw [hj]
          simp only [List.drop_succ_cons, List.drop_zero, e3, List.dropLast_concat]
        simp only [strTree, parseTree, hd', if_false, List.head?_cons, if_true, e1, ne_eq, not_true_eq_false, e2,
          splitArgs_join _ (by simp) hT,
          ihl f (depth + 1) hl (by omega) (by omega), ihr f (depth + 1) hr (by omega) (by omega)]


/-! ### descriptors -/

/-- the descriptors `parse` can build from text in position `ctx` (covered constructors: pk, pkh,
    wpkh, combo, sh, wsh, multi, sortedmulti, tr with and without a tree of pk / multi_a /
    sortedmulti_a leaves, rawtr, addr, raw). -/
inductive DOk (o : KeyOracle) : Ctx → D → Prop
  | pk {ctx : Ctx} {k : Key} : ctx ≠ .tr → KeyOk o false (noUncompressed ctx) k → DOk o ctx (.pk k)
  | pkh {ctx : Ctx} {k : Key} : ctx ≠ .tr → KeyOk o false (noUncompressed ctx) k → DOk o ctx (.pkh k)
  | wpkh {ctx : Ctx} {k : Key} : ctx = .top ∨ ctx = .sh → KeyOk o false true k → DOk o ctx (.wpkh k)
  | combo {k : Key} : KeyOk o false false k → DOk o .top (.combo k)
  | sh {d : D} : DOk o .sh d → DOk o .top (.sh d)
  | wsh {ctx : Ctx} {d : D} : ctx = .top ∨ ctx = .sh → DOk o .wsh d → DOk o ctx (.wsh d)
  | multi {ctx : Ctx} {t : Nat} {ks : List Key} {s : Bool} : ctx ≠ .tr → ks ≠ [] → t < 10 ^ THRESHOLD_MAX_DIGITS →
      (∀ k ∈ ks, KeyOk o false (noUncompressed ctx) k) → DOk o ctx (.multi t ks s)
  | tr {k : Key} : KeyOk o true true k → DOk o .top (.tr k none)
  | trTree {k : Key} {t : Tree} : KeyOk o true true k → TreeOk o t → t.height ≤ MAX_TREE_DEPTH →
      DOk o .top (.tr k (some t))
  | rawtr {k : Key} : KeyOk o true true k → DOk o .top (.rawtr k)
  | addr {a : List Char} : o.validAddr a = true → (∀ c ∈ a, PlainC c) → DOk o .top (.addr a)
  | raw {s : Bytes} : DOk o .top (.raw s)

/-- nesting: what the fuel has to cover. -/
def D.size : D → Nat
  | .sh d => d.size + 1
  | .wsh d => d.size + 1
  | .tr _ (some t) => t.height + 2
  | _ => 1

/-- `_parse_expression` on a written call: the table lookup, the position rule and the argument
    split all succeed, and what is left is the function's own reader. -/
theorem parseExpr_call (o : KeyOracle) (f : Nat) (ctx : Ctx) (fn : Fn) (args : List (List Char))
    (hne : args ≠ []) (hT : ∀ a ∈ args, Tr a) (hal : fn.allowed ctx = true) :
    parseExpr o (f + 1) ctx (call fn.chars args)
      = parseFn o (parseExpr o f) (parseTree o f 0) fn ctx args := by
  have hp := name_plain fn.chars fn.chars_lower
  simp only [parseExpr, takeWhile_call fn.chars args hp, chars_not_musig, chars_not_tree, fnOf_chars,
    splitFunction_call fn.chars args hp (chars_ne_nil fn), hal, splitArgs_join args hne hT,
    Bool.false_eq_true, if_false, Bool.false_and, Bool.not_true]

theorem Tr_strD (o : KeyOracle) : ∀ (ctx : Ctx) (d : D), DOk o ctx d → Tr (strD d) := by
  intro ctx d h
  induction h with
  | pk _ hk => exact Tr_call nPk _ (name_plain _ (by decide)) (by
      intro a ha; simp only [List.mem_singleton] at ha; subst ha; exact Tr_strKey o _ _ _ hk)
  | pkh _ hk => exact Tr_call nPkh _ (name_plain _ (by decide)) (by
      intro a ha; simp only [List.mem_singleton] at ha; subst ha; exact Tr_strKey o _ _ _ hk)
  | wpkh _ hk => exact Tr_call nWpkh _ (name_plain _ (by decide)) (by
      intro a ha; simp only [List.mem_singleton] at ha; subst ha; exact Tr_strKey o _ _ _ hk)
  | combo hk => exact Tr_call nCombo _ (name_plain _ (by decide)) (by
      intro a ha; simp only [List.mem_singleton] at ha; subst ha; exact Tr_strKey o _ _ _ hk)
  | sh _ ih => exact Tr_call nSh _ (name_plain _ (by decide)) (by
      intro a ha; simp only [List.mem_singleton] at ha; subst ha; exact ih)
  | wsh _ _ ih => exact Tr_call nWsh _ (name_plain _ (by decide)) (by
      intro a ha; simp only [List.mem_singleton] at ha; subst ha; exact ih)
  | @multi ctx t ks s _ _ _ hk =>
    unfold strD
    cases s
    · exact Tr_call nMulti _ (name_plain _ (by decide)) (multi_args_Tr o _ _ t ks hk)
    · exact Tr_call nSortedmulti _ (name_plain _ (by decide)) (multi_args_Tr o _ _ t ks hk)
  | tr hk => exact Tr_call nTr _ (name_plain _ (by decide)) (by
      intro a ha; simp only [List.mem_singleton] at ha; subst ha; exact Tr_strKey o _ _ _ hk)
  | trTree hk ht _ => exact Tr_call nTr _ (name_plain _ (by decide)) (by
      intro a ha
      simp only [List.mem_cons, List.not_mem_nil, or_false] at ha
      rcases ha with rfl | rfl
      · exact Tr_strKey o _ _ _ hk
      · exact Tr_strTree o _ ht)
  | rawtr hk => exact Tr_call nRawtr _ (name_plain _ (by decide)) (by
      intro a ha; simp only [List.mem_singleton] at ha; subst ha; exact Tr_strKey o _ _ _ hk)
  | addr _ hp => exact Tr_call nAddr _ (name_plain _ (by decide)) (by
      intro a ha; simp only [List.mem_singleton] at ha; subst ha; exact Tr_of_plain _ hp)
  | raw => exact Tr_call nRaw _ (name_plain _ (by decide)) (by
      intro a ha; simp only [List.mem_singleton] at ha; subst ha; exact Tr_of_plain _ (hexChars_plain _))

theorem pairsAligned_hexChars (b : Bytes) : pairsAligned (hexChars b) = true := by
  induction b with
  | nil => rfl
  | cons x xs ih =>
    simp only [hexChars, List.flatMap_cons, List.cons_append, List.nil_append] at ih ⊢
    have h1 : x.toNat / 16 < 16 := by have := x.toNat_lt; omega
    have h2 : x.toNat % 16 < 16 := by omega
    have n1 : hexChar (x.toNat / 16) ≠ ' ' := fun e => by
      have := hexChar_alnum _ h1; rw [e] at this; revert this; decide
    have n2 : hexChar (x.toNat % 16) ≠ ' ' := fun e => by
      have := hexChar_alnum _ h2; rw [e] at this; revert this; decide
    unfold pairsAligned
    split
    · rename_i heq; cases heq
    · rename_i heq; simp only [List.cons.injEq] at heq; exact absurd heq.1 n1
    · rename_i heq; simp only [List.cons.injEq] at heq; exact absurd heq.2.1 n2
    · rename_i heq; simp only [List.cons.injEq] at heq; obtain ⟨_, _, rfl⟩ := heq; exact ih
    · rename_i heq; simp at heq

theorem filter_hexChars (b : Bytes) : (hexChars b).filter (· != ' ') = hexChars b := by
  rw [List.filter_eq_self]
  intro c hc
  have := (hexChars_keyC b c hc).2.2
  simpa using this

/-- T2 after the checksum: `_parse_expression(str(d), context) == d`. -/
theorem parseExpr_strD (o : KeyOracle) : ∀ (ctx : Ctx) (d : D), DOk o ctx d → ∀ fuel, d.size ≤ fuel →
    parseExpr o fuel ctx (strD d) = .ok d := by
  intro ctx d h
  induction h with
  | @pk ctx k hc hk =>
    intro fuel hf
    cases fuel with
    | zero => simp [D.size] at hf
    | succ f =>
      have hx : (ctx == Ctx.tr) = false := by cases ctx <;> simp_all
      show parseExpr o (f + 1) ctx (call Fn.pk.chars [strKey k]) = _
      rw [parseExpr_call o f ctx .pk _ (by simp) (by
        intro a ha; simp only [List.mem_singleton] at ha; subst ha; exact Tr_strKey o _ _ _ hk) rfl]
      simp only [parseFn, oneArg, Except.bind, hx, parseKey_strKey o false _ false k hk, Except.map]
  | @pkh ctx k hc hk =>
    intro fuel hf
    cases fuel with
    | zero => simp [D.size] at hf
    | succ f =>
      show parseExpr o (f + 1) ctx (call Fn.pkh.chars [strKey k]) = _
      rw [parseExpr_call o f ctx .pkh _ (by simp) (by
        intro a ha; simp only [List.mem_singleton] at ha; subst ha; exact Tr_strKey o _ _ _ hk)
        (by cases ctx <;> simp_all [Fn.allowed])]
      simp only [parseFn, oneArg, Except.bind, parseKey_strKey o false _ false k hk, Except.map]
  | @wpkh ctx k hc hk =>
    intro fuel hf
    cases fuel with
    | zero => simp [D.size] at hf
    | succ f =>
      show parseExpr o (f + 1) ctx (call Fn.wpkh.chars [strKey k]) = _
      rw [parseExpr_call o f ctx .wpkh _ (by simp) (by
        intro a ha; simp only [List.mem_singleton] at ha; subst ha; exact Tr_strKey o _ _ _ hk)
        (by rcases hc with rfl | rfl <;> rfl)]
      simp only [parseFn, oneArg, Except.bind, parseKey_strKey o false true false k hk, Except.map]
  | @combo k hk =>
    intro fuel hf
    cases fuel with
    | zero => simp [D.size] at hf
    | succ f =>
      show parseExpr o (f + 1) .top (call Fn.combo.chars [strKey k]) = _
      rw [parseExpr_call o f .top .combo _ (by simp) (by
        intro a ha; simp only [List.mem_singleton] at ha; subst ha; exact Tr_strKey o _ _ _ hk) rfl]
      simp only [parseFn, oneArg, Except.bind, parseKey_strKey o false false false k hk, Except.map]
  | @sh d hd ih =>
    intro fuel hf
    cases fuel with
    | zero => simp [D.size] at hf
    | succ f =>
      show parseExpr o (f + 1) .top (call Fn.sh.chars [strD d]) = _
      rw [parseExpr_call o f .top .sh _ (by simp) (by
        intro a ha; simp only [List.mem_singleton] at ha; subst ha; exact Tr_strD o _ _ hd) rfl]
      simp only [D.size] at hf
      simp only [parseFn, oneArg, Except.bind, ih f (by omega), Except.map]
  | @wsh ctx d hc hd ih =>
    intro fuel hf
    cases fuel with
    | zero => simp [D.size] at hf
    | succ f =>
      show parseExpr o (f + 1) ctx (call Fn.wsh.chars [strD d]) = _
      rw [parseExpr_call o f ctx .wsh _ (by simp) (by
        intro a ha; simp only [List.mem_singleton] at ha; subst ha; exact Tr_strD o _ _ hd)
        (by rcases hc with rfl | rfl <;> rfl)]
      simp only [D.size] at hf
      simp only [parseFn, oneArg, Except.bind, ih f (by omega), Except.map]
  | @multi ctx t ks s hc hne htl hk =>
    intro fuel hf
    cases fuel with
    | zero => simp [D.size] at hf
    | succ f =>
      have hal : ∀ fn, fn = Fn.multi ∨ fn = Fn.sortedmulti → fn.allowed ctx = true := by
        intro fn hfn; rcases hfn with rfl | rfl <;> cases ctx <;> simp_all [Fn.allowed]
      cases s with
      | false =>
        show parseExpr o (f + 1) ctx (call Fn.multi.chars (decChars t :: ks.map strKey)) = _
        rw [parseExpr_call o f ctx .multi _ (by simp) (multi_args_Tr o _ _ t ks hk) (hal _ (Or.inl rfl))]
        simp only [parseFn, parseMultiArgs_str o false _ false t ks hne htl hk, Except.map]
      | true =>
        show parseExpr o (f + 1) ctx (call Fn.sortedmulti.chars (decChars t :: ks.map strKey)) = _
        rw [parseExpr_call o f ctx .sortedmulti _ (by simp) (multi_args_Tr o _ _ t ks hk) (hal _ (Or.inr rfl))]
        simp only [parseFn, parseMultiArgs_str o false _ false t ks hne htl hk, Except.map]
  | @tr k hk =>
    intro fuel hf
    cases fuel with
    | zero => simp [D.size] at hf
    | succ f =>
      show parseExpr o (f + 1) .top (call Fn.tr.chars [strKey k]) = _
      rw [parseExpr_call o f .top .tr _ (by simp) (by
        intro a ha; simp only [List.mem_singleton] at ha; subst ha; exact Tr_strKey o _ _ _ hk) rfl]
      simp only [parseFn, parseKey_strKey o true true true k hk, Except.map]
  | @trTree k t hk ht hh =>
    intro fuel hf
    cases fuel with
    | zero => simp [D.size] at hf
    | succ f =>
      show parseExpr o (f + 1) .top (call Fn.tr.chars [strKey k, strTree t]) = _
      rw [parseExpr_call o f .top .tr _ (by simp) (by
        intro a ha
        simp only [List.mem_cons, List.not_mem_nil, or_false] at ha
        rcases ha with rfl | rfl
        · exact Tr_strKey o _ _ _ hk
        · exact Tr_strTree o _ ht) rfl]
      simp only [D.size] at hf
      simp only [parseFn, parseKey_strKey o true true true k hk, Except.bind,
        parseTree_strTree o t f 0 ht (by omega) (by omega), Except.map]
  | @rawtr k hk =>
    intro fuel hf
    cases fuel with
    | zero => simp [D.size] at hf
    | succ f =>
      show parseExpr o (f + 1) .top (call Fn.rawtr.chars [strKey k]) = _
      rw [parseExpr_call o f .top .rawtr _ (by simp) (by
        intro a ha; simp only [List.mem_singleton] at ha; subst ha; exact Tr_strKey o _ _ _ hk) rfl]
      simp only [parseFn, oneArg, Except.bind, parseKey_strKey o true true true k hk, Except.map]
  | @addr a hv hp =>
    intro fuel hf
    cases fuel with
    | zero => simp [D.size] at hf
    | succ f =>
      show parseExpr o (f + 1) .top (call Fn.addr.chars [a]) = _
      rw [parseExpr_call o f .top .addr _ (by simp) (by
        intro x hx; simp only [List.mem_singleton] at hx; subst hx; exact Tr_of_plain _ hp) rfl]
      simp only [parseFn, oneArg, Except.bind, hv, if_true]
  | @raw s =>
    intro fuel hf
    cases fuel with
    | zero => simp [D.size] at hf
    | succ f =>
      show parseExpr o (f + 1) .top (call Fn.raw.chars [hexChars s]) = _
      rw [parseExpr_call o f .top .raw _ (by simp) (by
        intro x hx; simp only [List.mem_singleton] at hx; subst hx; exact Tr_of_plain _ (hexChars_plain _)) rfl]
      simp only [parseFn, oneArg, Except.bind, filter_hexChars, hexBytes_hexChars, pairsAligned_hexChars, if_true]

/-! ### the fuel `parse` gives is enough -/
theorem call_length (name : List Char) (args : List (List Char)) :
    (call name args).length = name.length + (joinArgs args).length + 2 := by
  simp [call]; omega

theorem height_lt_length (o : KeyOracle) : ∀ (t : Tree), TreeOk o t → t.height + 1 ≤ (strTree t).length := by
  intro t h
  induction h with
  | pk _ => simp [Tree.height, strTree, call_length]
  | multiA _ _ _ => simp [Tree.height, strTree, call_length]
  | branch _ _ ihl ihr =>
    simp only [Tree.height, strTree, List.length_cons, List.length_append, List.length_nil]
    omega

theorem size_le_length (o : KeyOracle) : ∀ (ctx : Ctx) (d : D), DOk o ctx d → d.size ≤ (strD d).length := by
  intro ctx d h
  induction h with
  | sh _ ih => simp only [D.size, strD, call_length, joinArgs]; omega
  | wsh _ _ ih => simp only [D.size, strD, call_length, joinArgs]; omega
  | trTree _ ht _ =>
    have := height_lt_length o _ ht
    simp only [D.size, strD, call_length, joinArgs, List.length_append, List.length_cons]; omega
  | _ => simp only [D.size, strD, call_length]; omega

/-! ### what the reader builds for an x-only spelling -/
theorem fixedPubKey_xonly_even (o : KeyOracle) (x : Bool) (key : List Char) (sec : Bytes)
    (h : fixedPubKey o x key = .ok (sec, true)) (hl : sec.length = 33) : sec.head? = some 2 := by
  unfold fixedPubKey at h
  split at h
  · unfold pubKeyFromHex at h
    split at h
    · cases h
    · rename_i b _
      by_cases h64 : key.length = 64
      · simp only [h64, if_true] at h
        split at h
        · cases h
        · split at h
          · simp only [Except.ok.injEq, Prod.mk.injEq] at h; obtain ⟨rfl, _⟩ := h; rfl
          · cases h
      · simp only [h64, if_false] at h
        by_cases h66 : key.length = 66
        · simp only [h66, if_true] at h
          split at h
          · split at h
            · simp at h
            · cases h
          · cases h
        · simp only [h66, if_false] at h
          split at h
          · split at h
            · split at h
              · simp at h
              · cases h
            · cases h
          · cases h
  · split at h
    · rename_i s hs
      simp only [Except.ok.injEq, Prod.mk.injEq] at h
      obtain ⟨rfl, rfl⟩ := h
      by_cases hc : s.length = 33
      · simp [hc]
      · simp only [Bool.true_and, beq_iff_eq, hc, if_false] at hl
    · cases h

theorem parseKey_xonly_even (o : KeyOracle) (x c m : Bool) (e : List Char) (k : Key) (sec : Bytes)
    (h : parseKey o x c m e = .ok k) (ha : k.atom = .pub sec true) (hl : sec.length = 33) :
    sec.head? = some 2 := by
  unfold parseKey at h
  split at h
  · split at h <;> cases h
  · split at h
    · cases h
    · split at h
      · cases h
      · simp only at h
        split at h
        · split at h
          · cases h
          · simp only [Except.ok.injEq] at h; subst h; cases ha
        · split at h
          · cases h
          · split at h
            · cases h
            · rename_i hf
              split at h
              · cases h
              · simp only [Except.ok.injEq] at h; subst h
                simp only [Atom.pub.injEq] at ha
                obtain ⟨rfl, rfl⟩ := ha
                exact fixedPubKey_xonly_even o x _ _ hf hl

/-- a tr() leaf that has a `(` ends with `)`. -/
theorem parseTree_unclosed (o : KeyOracle) (fuel depth : Nat) (e : List Char) (h1 : e.head? ≠ some '{')
    (h2 : '(' ∈ e) (h3 : e.getLast? ≠ some ')') : parseTree o fuel depth e = .error .value := by
  cases fuel with
  | zero => rfl
  | succ f =>
    have hc : e.contains '(' = true := by simpa using h2
    have hl : (e.getLast? != some ')') = true := by simpa using h3
    simp only [parseTree, h1, if_false, hc, hl, Bool.and_self, if_true]
    split <;> rfl

end Btc.Desc
