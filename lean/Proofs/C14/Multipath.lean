import Proofs.C14.Text
import Model.C14.Multipath
/-! C14 — T4: multipath expansion chooses the j-th alternative everywhere.  Core Lean only. -/
set_option linter.unusedSimpArgs false
namespace Btc.Desc
open Btc

/-- `";".join(alts)` -/
def joinSemi : List (List Char) → List Char
  | [] => []
  | [a] => a
  | a :: b :: rest => a ++ ';' :: joinSemi (b :: rest)

/-- a multipath template: the text before the first step, then (alternatives, text after) per step. -/
abbrev Tmpl := List Char × List (List (List Char) × List Char)

/-- the multipath descriptor text of a template: `<a;b;…>` for every step. -/
def printT (t : Tmpl) : List Char :=
  t.1 ++ t.2.flatMap fun s => '<' :: (joinSemi s.1 ++ '>' :: s.2)

theorem scanStep_inner (inner rest : List Char) (h : ∀ c ∈ inner, c ≠ '<' ∧ c ≠ '>') :
    scanStep (inner ++ '>' :: rest) = some (inner, rest) := by
  induction inner with
  | nil => simp [scanStep]
  | cons c cs ih =>
    have hc := h c (List.mem_cons_self ..)
    simp only [List.cons_append, scanStep, hc.1, hc.2, if_false,
      ih fun x hx => h x (List.mem_cons_of_mem _ hx), Option.map_some]

theorem pieces_text (t rest : List Char) (h : ∀ c ∈ t, c ≠ '<') :
    pieces (t ++ rest) = (t ++ (pieces rest).1, (pieces rest).2) := by
  induction t with
  | nil => rfl
  | cons c cs ih =>
    have hc := h c (List.mem_cons_self ..)
    simp only [List.cons_append, pieces, hc, if_false, ih fun x hx => h x (List.mem_cons_of_mem _ hx)]

theorem pieces_step (inner rest : List Char) (h : ∀ c ∈ inner, c ≠ '<' ∧ c ≠ '>') :
    pieces ('<' :: (inner ++ '>' :: rest)) = ([], (inner, (pieces rest).1) :: (pieces rest).2) := by
  have e : inner ++ '>' :: rest = (inner ++ ['>']) ++ rest := by simp
  have hp := pieces_text (inner ++ ['>']) rest (by
    intro c hc
    rcases List.mem_append.mp hc with hc | hc
    · exact (h c hc).1
    · simp only [List.mem_singleton] at hc; rw [hc]; decide)
  simp only [pieces, if_true, scanStep_inner inner rest h]
  rw [e, hp]
  simp

theorem joinSemi_ok (alts : List (List Char)) (h : ∀ a ∈ alts, ∀ c ∈ a, c ≠ '<' ∧ c ≠ '>' ∧ c ≠ ';') :
    ∀ c ∈ joinSemi alts, c ≠ '<' ∧ c ≠ '>' := by
  induction alts with
  | nil => intro c hc; cases hc
  | cons a rest ih =>
    cases rest with
    | nil =>
      intro c hc
      have := h a (List.mem_cons_self ..) c (by simpa [joinSemi] using hc)
      exact ⟨this.1, this.2.1⟩
    | cons b rest' =>
      intro c hc
      simp only [joinSemi, List.mem_append, List.mem_cons] at hc
      rcases hc with hc | rfl | hc
      · have := h a (List.mem_cons_self ..) c hc; exact ⟨this.1, this.2.1⟩
      · exact ⟨by decide, by decide⟩
      · exact ih (fun x hx => h x (List.mem_cons_of_mem _ hx)) c hc

theorem splitOn_joinSemi (alts : List (List Char)) (hne : alts ≠ []) (h : ∀ a ∈ alts, ';' ∉ a) :
    splitOn ';' (joinSemi alts) = alts := by
  induction alts with
  | nil => exact absurd rfl hne
  | cons a rest ih =>
    cases rest with
    | nil => simpa [joinSemi] using splitOn_plain ';' a (h a (List.mem_cons_self ..))
    | cons b rest' =>
      simp only [joinSemi]
      rw [splitOn_append ';' a _ (h a (List.mem_cons_self ..)),
        ih (by simp) fun x hx => h x (List.mem_cons_of_mem _ hx)]

/-- well-formed template: no `<` in the texts, no `<` `>` `;` in the alternatives, every step has
    alternatives. -/
def TmplOk (t : Tmpl) : Prop :=
  (∀ c ∈ t.1, c ≠ '<') ∧
  ∀ s ∈ t.2, s.1 ≠ [] ∧ (∀ a ∈ s.1, ∀ c ∈ a, c ≠ '<' ∧ c ≠ '>' ∧ c ≠ ';') ∧ ∀ c ∈ s.2, c ≠ '<'

theorem pieces_steps (steps : List (List (List Char) × List Char))
    (h : ∀ s ∈ steps, s.1 ≠ [] ∧ (∀ a ∈ s.1, ∀ c ∈ a, c ≠ '<' ∧ c ≠ '>' ∧ c ≠ ';') ∧ ∀ c ∈ s.2, c ≠ '<') :
    pieces (steps.flatMap fun s => '<' :: (joinSemi s.1 ++ '>' :: s.2))
      = ([], steps.map fun s => (joinSemi s.1, s.2)) := by
  induction steps with
  | nil => rfl
  | cons s rest ih =>
    have hs := h s (List.mem_cons_self ..)
    simp only [List.flatMap_cons, List.cons_append, List.append_assoc]
    rw [pieces_step _ _ (joinSemi_ok s.1 hs.2.1), pieces_text s.2 _ hs.2.2,
      ih fun x hx => h x (List.mem_cons_of_mem _ hx)]
    simp

theorem pieces_printT (t : Tmpl) (h : TmplOk t) :
    pieces (printT t) = (t.1, t.2.map fun s => (joinSemi s.1, s.2)) := by
  unfold printT
  rw [pieces_text t.1 _ h.1, pieces_steps t.2 h.2]
  simp

/-- T4: the expansion of a multipath text is, for each alternative index `j` below the common number
    of alternatives, the text with the `j`-th alternative chosen at every step — in that order. -/
theorem expandText_printT (t : Tmpl) (h : TmplOk t) (n : Nat) (hn : 2 ≤ n) (hne : t.2 ≠ [])
    (hl : ∀ s ∈ t.2, s.1.length = n) :
    expandText (printT t) = some ((List.range n).map (chooseAlt t.1 t.2)) := by
  unfold expandText
  rw [pieces_printT t h]
  have hmap : (t.2.map fun s => (joinSemi s.1, s.2)).map (fun s => (splitOn ';' s.1, s.2)) = t.2 := by
    rw [List.map_map]
    conv => rhs; rw [← List.map_id t.2]
    apply List.map_congr_left
    intro s hs
    have := h.2 s hs
    simp only [Function.comp, id]
    rw [splitOn_joinSemi s.1 this.1 fun a ha hc => (this.2.1 a ha ';' hc).2.2 rfl]
  simp only [hmap]
  cases ht : t.2 with
  | nil => exact absurd ht hne
  | cons s rest =>
    have hs : s.1.length = n := hl s (by rw [ht]; exact List.mem_cons_self ..)
    have hall : ((s :: rest).all fun x => x.1.length == s.1.length) = true := by
      rw [List.all_eq_true]
      intro x hx
      have := hl x (by rw [ht]; exact hx)
      simp [this, hs]
    have hlt : ¬ s.1.length < 2 := by omega
    rw [hs] at hall hlt
    simp only [hs, hall, Bool.not_true, Bool.false_eq_true, if_false, hlt]

/-- a text with no `<` is one descriptor: itself. -/
theorem expandText_single (body : List Char) (h : ∀ c ∈ body, c ≠ '<') : expandText body = some [body] := by
  unfold expandText
  have := pieces_text body [] h
  simp only [List.append_nil] at this
  rw [this]
  simp [pieces]

end Btc.Desc
