import Proofs.C14.Text
/-!
C14 — T2 for KEY expressions: `_parse_key(str(key)) == key`.  Core Lean only.
-/
set_option linter.unusedSimpArgs false
namespace Btc.Desc
open Btc Gen.Descriptor

/-! ### characters of a written step -/

/-- the characters `str_from_index_int` writes. -/
def StepC (c : Char) : Prop := c.isDigit = true ∨ c = 'h' ∨ c = '\''

theorem StepC.ne {c : Char} (h : StepC c) (x : Char) (hx : x.isDigit = false) (h1 : x ≠ 'h') (h2 : x ≠ '\'') :
    c ≠ x := by
  rintro rfl
  rcases h with h | h | h
  · rw [hx] at h; cases h
  · exact h1 h
  · exact h2 h

theorem Hard.char_stepC (hd : Hard) : StepC hd.char := by cases hd <;> simp [StepC, Hard.char]

theorem strIndex_stepC (hd : Hard) (i : Nat) : ∀ c ∈ strIndex hd i, StepC c := by
  intro c hc
  unfold strIndex at hc
  split at hc
  · exact Or.inl (decChars_isDigit _ c hc)
  · rcases List.mem_append.mp hc with h | h
    · exact Or.inl (decChars_isDigit _ c h)
    · simp only [List.mem_singleton] at h; rw [h]; exact hd.char_stepC

theorem strIndex_ne_nil (hd : Hard) (i : Nat) : strIndex hd i ≠ [] := by
  unfold strIndex
  split
  · exact decChars_ne_nil _
  · simp

theorem strIndex_head_digit (hd : Hard) (i : Nat) : ∃ c cs, strIndex hd i = c :: cs ∧ c.isDigit = true := by
  unfold strIndex
  split
  · cases h : decChars i with
    | nil => exact absurd h (decChars_ne_nil _)
    | cons c cs => exact ⟨c, cs, rfl, decChars_isDigit i c (by rw [h]; simp)⟩
  · cases h : decChars (i - HARDENED_OFFSET) with
    | nil => exact absurd h (decChars_ne_nil _)
    | cons c cs => exact ⟨c, cs ++ [hd.char], rfl, decChars_isDigit _ c (by rw [h]; simp)⟩

/-! ### `str.strip()` -/
theorem dropWhile_self {p : Char → Bool} : ∀ (s : List Char), (∀ c ∈ s, p c = false) → s.dropWhile p = s
  | [], _ => rfl
  | c :: cs, h => by simp [List.dropWhile, h c (List.mem_cons_self ..)]

theorem stripSp_self (s : List Char) (h : ∀ c ∈ s, c ≠ ' ') : stripSp s = s := by
  unfold stripSp
  have h1 : ∀ c ∈ s, (c == ' ') = false := fun c hc => by simpa using h c hc
  rw [dropWhile_self s h1, dropWhile_self s.reverse (fun c hc => h1 c (List.mem_reverse.mp hc)), List.reverse_reverse]

theorem stripSp_strIndex (hd : Hard) (i : Nat) : stripSp (strIndex hd i) = strIndex hd i :=
  stripSp_self _ fun c hc => (strIndex_stepC hd i c hc).ne ' ' (by decide) (by decide) (by decide)

/-! ### one step -/
def symOf (hd : Hard) (i : Nat) : Option Hard := if i < HARDENED_OFFSET then none else some hd

theorem hardOf_digit {c : Char} (h : c.isDigit = true) : hardOf c = none := by
  unfold hardOf
  have h1 : c ≠ 'h' := by rintro rfl; revert h; decide
  have h2 : c ≠ '\'' := by rintro rfl; revert h; decide
  simp [h1, h2]

theorem hardOf_char (hd : Hard) : hardOf hd.char = some hd := by cases hd <;> simp [hardOf, Hard.char]

theorem getLast?_decChars (n : Nat) : ∃ c, (decChars n).getLast? = some c ∧ c.isDigit = true := by
  cases h : (decChars n).getLast? with
  | none => exact absurd (List.getLast?_eq_none_iff.mp h) (decChars_ne_nil n)
  | some c => exact ⟨c, rfl, decChars_isDigit n c (List.mem_of_getLast? h)⟩

theorem decChars_short (i : Nat) (hi : i < HARDENED_OFFSET) : ¬ (decChars i).length > INT_MAX_STR_DIGITS := by
  have h10 : i < 10 ^ 10 := Nat.lt_of_lt_of_le hi (by decide)
  have := (Nat.length_toDigits_le_iff (b := 10) (n := i) (k := 10) (by omega) (by omega)).mpr h10
  have e : INT_MAX_STR_DIGITS = 4300 := rfl
  unfold decChars
  omega

theorem stepOf_plain (i : Nat) (hi : i < HARDENED_OFFSET) : stepOf (decChars i) = .ok (i, none) := by
  obtain ⟨c, hc, hd'⟩ := getLast?_decChars i
  simp only [stepOf, hc, Option.bind_some, hardOf_digit hd', Option.isSome_none, Bool.false_eq_true,
    if_false, decChars_short i hi, parseDec_decChars, hi, if_true, Nat.add_zero]

theorem stepOf_hardened (hd : Hard) (i : Nat) (hlt : i < HARDENED_OFFSET) :
    stepOf (decChars i ++ [hd.char]) = .ok (i + HARDENED_OFFSET, some hd) := by
  have hl : (decChars i ++ [hd.char]).getLast? = some hd.char := by simp
  simp only [stepOf, hl, Option.bind_some, hardOf_char, Option.isSome_some, if_true, List.dropLast_concat,
    decChars_short i hlt, if_false, parseDec_decChars, hlt]

theorem stepOf_strIndex (hd : Hard) (i : Nat) (h : i < 2 * HARDENED_OFFSET) :
    stepOf (strIndex hd i) = .ok (i, symOf hd i) := by
  by_cases hi : i < HARDENED_OFFSET
  · rw [strIndex, symOf, if_pos hi, if_pos hi]
    exact stepOf_plain i hi
  · rw [strIndex, symOf, if_neg hi, if_neg hi]
    have hlt : i - HARDENED_OFFSET < HARDENED_OFFSET := Nat.sub_lt_left_of_lt_add (Nat.le_of_not_lt hi) (by rw [← Nat.two_mul]; exact h)
    rw [stepOf_hardened hd _ hlt, Nat.sub_add_cancel (Nat.le_of_not_lt hi)]

/-! ### paths -/
def anyHard (path : List Nat) : Bool := path.any fun i => decide (HARDENED_OFFSET ≤ i)

def hardSym (hd : Hard) (path : List Nat) : Option Hard := if anyHard path then some hd else none

def PathOk (path : List Nat) : Prop := path.length ≤ MAX_PATH_STEPS ∧ ∀ i ∈ path, i < 2 * HARDENED_OFFSET

theorem mapP_steps (hd : Hard) : ∀ (path : List Nat), (∀ i ∈ path, i < 2 * HARDENED_OFFSET) →
    mapP stepOf ((path.map (strIndex hd)).map stripSp) = .ok (path.map fun i => (i, symOf hd i)) := by
  intro path
  induction path with
  | nil => intro _; rfl
  | cons i is ih =>
    intro h
    simp only [List.map_cons, mapP, stripSp_strIndex, stepOf_strIndex hd i (h i (List.mem_cons_self ..)),
      ih fun j hj => h j (List.mem_cons_of_mem _ hj)]

theorem lastHard_syms (hd : Hard) : ∀ (path : List Nat),
    lastHard (path.map fun i => (symOf hd i)) = hardSym hd path := by
  intro path
  induction path with
  | nil => rfl
  | cons i is ih =>
    simp only [List.map_cons, lastHard, ih, hardSym, anyHard, List.any_cons]
    by_cases h1 : (is.any fun i => decide (HARDENED_OFFSET ≤ i)) = true
    · simp [h1]
    · have h1' : (is.any fun i => decide (HARDENED_OFFSET ≤ i)) = false := by simpa using h1
      simp only [h1', Bool.false_eq_true, if_false, Bool.or_false, decide_eq_true_eq, symOf]
      by_cases h2 : i < HARDENED_OFFSET
      · have : ¬ HARDENED_OFFSET ≤ i := by omega
        simp [h2, this]
      · have : HARDENED_OFFSET ≤ i := by omega
        simp [h2, this]

theorem stepsPath_str (hd : Hard) (path : List Nat) (h : PathOk path) :
    stepsPath (path.map (strIndex hd)) = .ok (path, hardSym hd path) := by
  unfold stepsPath
  rw [mapP_steps hd path h.2]
  have hl : ¬ (path.map fun i => (i, symOf hd i)).length > MAX_PATH_STEPS := by
    simp only [List.length_map]; have := h.1; omega
  simp only [hl, if_false, List.map_map]
  have e1 : (path.map ((fun x : Nat × Option Hard => x.1) ∘ fun i => (i, symOf hd i))) = path := by
    simp [Function.comp_def]
  have e2 : (path.map ((fun x : Nat × Option Hard => x.2) ∘ fun i => (i, symOf hd i)))
      = path.map fun i => symOf hd i := by simp [Function.comp_def]
  rw [e1, e2, lastHard_syms]

theorem strSteps_eq (hd : Hard) (path : List Nat) : strSteps hd path = slashed (path.map (strIndex hd)) := by
  simp [strSteps, slashed, List.flatMap_map]

theorem step_no_slash (hd : Hard) (i : Nat) : '/' ∉ strIndex hd i := fun h =>
  (strIndex_stepC hd i _ h).ne '/' (by decide) (by decide) (by decide) rfl

/-- `_der_path` + `_hardening` on the text after the first `/`. -/
theorem derPath_str (hd : Hard) (i : Nat) (is : List Nat) (h : PathOk (i :: is)) :
    derPath (strIndex hd i ++ slashed (is.map (strIndex hd))) = .ok (i :: is, hardSym hd (i :: is)) := by
  unfold derPath
  have hne : (strIndex hd i ++ slashed (is.map (strIndex hd))).isEmpty = false := by
    cases hs : strIndex hd i with
    | nil => exact absurd hs (strIndex_ne_nil hd i)
    | cons => rfl
  rw [hne]
  simp only [Bool.false_eq_true, if_false]
  rw [splitOn_slashed _ _ (step_no_slash hd i)
    (fun x hx => by obtain ⟨j, _, rfl⟩ := List.mem_map.mp hx; exact step_no_slash hd j)]
  exact stepsPath_str hd (i :: is) h

/-! ### key origin -/
theorem hexChars_no (b : Bytes) (x : Char) (hx : alnumLow x = false) : x ∉ hexChars b := by
  intro h
  obtain ⟨n, hn, rfl⟩ := hexChars_mem b x h
  rw [hexChar_alnum n hn] at hx; cases hx

theorem slashed_mem (steps : List (List Char)) (c : Char) (h : c ∈ slashed steps) :
    c = '/' ∨ ∃ s ∈ steps, c ∈ s := by
  simp only [slashed, List.mem_flatMap, List.mem_cons] at h
  obtain ⟨s, hs, rfl | hc⟩ := h
  · exact Or.inl rfl
  · exact Or.inr ⟨s, hs, hc⟩

theorem strSteps_no (hd : Hard) (path : List Nat) (x : Char) (hx : x.isDigit = false) (h0 : x ≠ '/')
    (h1 : x ≠ 'h') (h2 : x ≠ '\'') : x ∉ strSteps hd path := by
  rw [strSteps_eq]
  intro h
  rcases slashed_mem _ _ h with h | ⟨s, hs, hc⟩
  · exact h0 h
  · obtain ⟨j, _, rfl⟩ := List.mem_map.mp hs
    exact (strIndex_stepC hd j x hc).ne x hx h1 h2 rfl

theorem keyOrigin_str (hd : Hard) (og : Origin) (hf : og.fp.length = 4) (hp : PathOk og.path) :
    keyOrigin (hexChars og.fp ++ strSteps hd og.path) = .ok (og, hardSym hd og.path) := by
  have hno : '/' ∉ hexChars og.fp := hexChars_no _ '/' (by decide)
  have hlen : (hexChars og.fp).length = 8 := by rw [hexChars_length, hf]
  unfold keyOrigin
  cases hpath : og.path with
  | nil =>
    simp only [strSteps, List.flatMap_nil, List.append_nil]
    rw [partition_absent '/' _ hno]
    simp only [hlen, hexChars_isHexDigit, hexBytes_hexChars, derPath, List.isEmpty_nil, if_true, ne_eq,
      not_true_eq_false, Bool.not_true, Bool.false_eq_true, or_self, if_false]
    cases og; simp_all [hardSym, anyHard]
  | cons i is =>
    rw [strSteps_eq]
    simp only [List.map_cons, slashed, List.flatMap_cons, List.cons_append]
    rw [partition_found '/' _ _ hno]
    simp only [hlen, hexChars_isHexDigit, hexBytes_hexChars, ne_eq, not_true_eq_false, Bool.not_true,
      Bool.false_eq_true, or_self, if_false]
    have := derPath_str hd i is (hpath ▸ hp)
    simp only [slashed] at this
    rw [this]
    cases og; simp_all


theorem originAndRest_some (hd : Hard) (og : Origin) (rest : List Char) (hf : og.fp.length = 4) (hp : PathOk og.path) :
    originAndRest ('[' :: (hexChars og.fp ++ strSteps hd og.path ++ [']']) ++ rest)
      = .ok (some og, hardSym hd og.path, rest) := by
  have hno : ']' ∉ hexChars og.fp ++ strSteps hd og.path := by
    intro h
    rcases List.mem_append.mp h with h | h
    · exact hexChars_no _ ']' (by decide) h
    · exact strSteps_no hd og.path ']' (by decide) (by decide) (by decide) (by decide) h
  simp only [List.cons_append, List.append_assoc, List.nil_append, originAndRest]
  rw [← List.append_assoc, partition_found ']' _ rest hno]
  simp only [Bool.not_true, Bool.false_eq_true, if_false, keyOrigin_str hd og hf hp]

theorem originAndRest_none (e : List Char) (h1 : e.head? ≠ some '[') (h2 : ']' ∉ e) :
    originAndRest e = .ok (none, none, e) := by
  unfold originAndRest
  cases e with
  | nil => simp
  | cons c cs =>
    have : c ≠ '[' := by simpa using h1
    split
    · rename_i tl heq; cases heq; exact absurd rfl this
    · have h3 : ¬ (']' = c ∨ ']' ∈ cs) := by simpa using h2
      simp only [List.contains_cons, List.contains_eq_mem] 
      simp [not_or.mp h3]

/-! ### the wildcard step -/
def wsteps (hd : Hard) : Option Bool → List (List Char)
  | none => []
  | some false => [['*']]
  | some true => [['*', hd.char]]

theorem strWildcard_eq (hd : Hard) (w : Option Bool) : strWildcard hd w = slashed (wsteps hd w) := by
  cases w with
  | none => rfl
  | some b => cases b <;> rfl

theorem splitWildcard_plain (steps : List (List Char)) (h : ∀ s ∈ steps, s.head? ≠ some '*') :
    splitWildcard steps = (steps, none, none) := by
  unfold splitWildcard
  cases hl : steps.getLast? with
  | none => rfl
  | some s =>
    have hm := h s (List.mem_of_getLast? hl)
    split
    · rename_i heq; cases heq; exact absurd rfl hm
    · rename_i heq; cases heq; exact absurd rfl hm
    · rename_i heq; cases heq; exact absurd rfl hm
    · rfl

theorem splitWildcard_wild (hd : Hard) (steps : List (List Char)) (b : Bool) :
    splitWildcard (steps ++ wsteps hd (some b)) = (steps, some b, if b then some hd else none) := by
  unfold splitWildcard
  cases b with
  | false => simp [wsteps]
  | true => cases hd <;> simp [wsteps, Hard.char]

/-! ### well-formed keys -/
def KeyC (c : Char) : Prop :=
  PlainC c ∧ c ≠ '[' ∧ c ≠ ']' ∧ c ≠ '/' ∧ c ≠ '<'

/-- the hardening symbol the reader reconstructs: the one written, when anything is hardened. -/
def Key.somethingHard (k : Key) : Bool :=
  (match k.origin with | some og => anyHard og.path | none => false) ||
  (match k.atom with | .xkey _ => anyHard k.path || k.wildcard == some true | .pub _ _ => false)

/-- what `parse` can build (and `str` writes back faithfully), at a position that allows x-only keys
    (`xOnly`) and/or requires compressed ones (`compressed`). -/
structure KeyOk (o : KeyOracle) (xOnly compressed : Bool) (k : Key) : Prop where
  origin : ∀ og, k.origin = some og → og.fp.length = 4 ∧ PathOk og.path
  hard : k.somethingHard = true ∨ k.hard = .h
  atom : match k.atom with
    | .xkey t => o.xkey t = some t ∧ (∀ c ∈ t, KeyC c) ∧ t.head? ≠ some '[' ∧ PathOk k.path
    | .pub sec x =>
      k.path = [] ∧ k.wildcard = none ∧ o.validPub sec = true ∧
      o.xkey (hexChars (if x then sec.drop 1 else sec)) = none ∧
      (if x then xOnly = true ∧ ∃ b, sec = 2 :: b ∧ b.length = 32
       else (∃ b, (sec = 2 :: b ∨ sec = 3 :: b) ∧ b.length = 32) ∨
            (compressed = false ∧ ∃ b, sec = 4 :: b ∧ b.length = 64))

theorem not_musig (e : List Char) (h : '(' ∉ e) : startsWith (nMusig ++ ['(']) e = false := by
  unfold startsWith
  rw [Bool.eq_false_iff]
  intro hp
  have := List.isPrefixOf_iff_prefix.mp hp
  obtain ⟨t, rfl⟩ := this
  exact h (by simp [nMusig])

theorem hexChars_keyC (b : Bytes) : ∀ c ∈ hexChars b, KeyC c ∧ c ≠ '*' ∧ c ≠ ' ' := by
  intro c hc
  obtain ⟨n, hn, rfl⟩ := hexChars_mem b c hc
  have : ∀ n, n < 16 → KeyC (hexChar n) ∧ hexChar n ≠ '*' ∧ hexChar n ≠ ' ' := by
    intro n hn
    have ha := hexChar_alnum n hn
    refine ⟨⟨⟨?_, ?_, ?_, ?_, ?_⟩, ?_, ?_, ?_, ?_⟩, ?_, ?_⟩ <;>
      (intro e; rw [e] at ha; revert ha; decide)
  exact this n hn


theorem wsteps_mem (hd : Hard) (w : Option Bool) (s : List Char) (hs : s ∈ wsteps hd w) (c : Char) (hc : c ∈ s) :
    c = '*' ∨ StepC c := by
  cases w with
  | none => cases hs
  | some b =>
    cases b with
    | false =>
      simp only [wsteps, List.mem_singleton] at hs; subst hs
      simp only [List.mem_singleton] at hc; exact Or.inl hc
    | true =>
      simp only [wsteps, List.mem_singleton] at hs; subst hs
      simp only [List.mem_cons, List.not_mem_nil, or_false] at hc
      rcases hc with hc | hc
      · exact Or.inl hc
      · exact Or.inr (hc ▸ hd.char_stepC)

/-- the steps written after an extended key: path steps, then the wildcard step. -/
def tailSteps (hd : Hard) (path : List Nat) (w : Option Bool) : List (List Char) :=
  path.map (strIndex hd) ++ wsteps hd w

theorem tail_eq (hd : Hard) (path : List Nat) (w : Option Bool) :
    strSteps hd path ++ strWildcard hd w = slashed (tailSteps hd path w) := by
  rw [strSteps_eq, strWildcard_eq]
  simp [slashed, tailSteps]

theorem tailSteps_no_slash (hd : Hard) (path : List Nat) (w : Option Bool) :
    ∀ s ∈ tailSteps hd path w, '/' ∉ s := by
  intro s hs h
  rcases List.mem_append.mp hs with hs | hs
  · obtain ⟨j, _, rfl⟩ := List.mem_map.mp hs
    exact step_no_slash hd j h
  · rcases wsteps_mem hd w s hs '/' h with e | e
    · revert e; decide
    · exact e.ne '/' (by decide) (by decide) (by decide) rfl

theorem tail_mem (hd : Hard) (path : List Nat) (w : Option Bool) (c : Char)
    (h : c ∈ strSteps hd path ++ strWildcard hd w) : c = '/' ∨ c = '*' ∨ StepC c := by
  rw [tail_eq] at h
  rcases slashed_mem _ _ h with h | ⟨s, hs, hc⟩
  · exact Or.inl h
  · rcases List.mem_append.mp hs with hs | hs
    · obtain ⟨j, _, rfl⟩ := List.mem_map.mp hs
      exact Or.inr (Or.inr (strIndex_stepC hd j c hc))
    · exact Or.inr (wsteps_mem hd w s hs c hc)

theorem splitWildcard_tail (hd : Hard) (path : List Nat) (w : Option Bool) :
    splitWildcard (tailSteps hd path w)
      = (path.map (strIndex hd), w, if w = some true then some hd else none) := by
  cases w with
  | none =>
    simp only [tailSteps, wsteps, List.append_nil]
    rw [splitWildcard_plain]
    · simp
    · intro s hs
      obtain ⟨j, _, rfl⟩ := List.mem_map.mp hs
      obtain ⟨c, cs, e, hc⟩ := strIndex_head_digit hd j
      rw [e]
      simp only [List.head?_cons, ne_eq, Option.some.injEq]
      rintro rfl; revert hc; decide
  | some b =>
    rw [tailSteps, splitWildcard_wild]
    cases b <;> simp

theorem xkey_partition (hd : Hard) (t : List Char) (path : List Nat) (w : Option Bool) (ht : '/' ∉ t) :
    (partition '/' (t ++ (strSteps hd path ++ strWildcard hd w))).1 = t ∧
    (if (partition '/' (t ++ (strSteps hd path ++ strWildcard hd w))).2.1
      then splitOn '/' (partition '/' (t ++ (strSteps hd path ++ strWildcard hd w))).2.2 else [])
      = tailSteps hd path w := by
  rw [tail_eq]
  cases hS : tailSteps hd path w with
  | nil =>
    simp only [slashed, List.flatMap_nil, List.append_nil]
    rw [partition_absent '/' t ht]
    simp
  | cons s ss =>
    simp only [slashed, List.flatMap_cons, List.cons_append]
    rw [partition_found '/' t _ ht]
    have hns := tailSteps_no_slash hd path w
    rw [hS] at hns
    have := splitOn_slashed s ss (hns s (List.mem_cons_self ..)) (fun x hx => hns x (List.mem_cons_of_mem _ hx))
    simp only [slashed] at this
    simp [this]

theorem joinedPath_str (hd : Hard) (path : List Nat) (h : PathOk path) :
    joinedPath (path.map (strIndex hd)) = .ok (path, hardSym hd path) := by
  unfold joinedPath
  cases path with
  | nil => simp [hardSym, anyHard]
  | cons i is =>
    have : ¬ (List.map (strIndex hd) (i :: is) = [] ∨ List.map (strIndex hd) (i :: is) = [[]]) := by
      simp only [List.map_cons, reduceCtorEq, List.cons.injEq, false_or, not_and]
      intro e; exact absurd e (strIndex_ne_nil hd i)
    rw [if_neg this]
    exact stepsPath_str hd (i :: is) h

/-- the text of the key proper (after the origin). -/
def atomText (k : Key) : List Char :=
  match k.atom with
  | .pub sec xonly => hexChars (if xonly then sec.drop 1 else sec)
  | .xkey t => t ++ strSteps k.hard k.path ++ strWildcard k.hard k.wildcard

theorem atomText_mem (o : KeyOracle) (x c : Bool) (k : Key) (h : KeyOk o x c k) (ch : Char) (hc : ch ∈ atomText k) :
    KeyC ch ∨ ch = '/' ∨ ch = '*' ∨ StepC ch := by
  unfold atomText at hc
  have ha := h.atom
  cases hk : k.atom with
  | pub sec xonly =>
    rw [hk] at hc
    exact Or.inl (hexChars_keyC _ ch hc).1
  | xkey t =>
    rw [hk] at hc ha
    simp only [List.append_assoc] at hc
    rcases List.mem_append.mp hc with hc | hc
    · exact Or.inl (ha.2.1 ch hc)
    · exact Or.inr (tail_mem k.hard k.path k.wildcard ch hc)

theorem atomText_no (o : KeyOracle) (x c : Bool) (k : Key) (h : KeyOk o x c k) (ch : Char)
    (h1 : ¬ KeyC ch) (h2 : ch ≠ '/') (h3 : ch ≠ '*') (h4 : ch.isDigit = false) (h5 : ch ≠ 'h') (h6 : ch ≠ '\'') :
    ch ∉ atomText k := by
  intro hc
  rcases atomText_mem o x c k h ch hc with e | e | e | e
  · exact h1 e
  · exact h2 e
  · exact h3 e
  · exact e.ne ch h4 h5 h6 rfl

theorem atomText_head (o : KeyOracle) (x c : Bool) (k : Key) (h : KeyOk o x c k) : (atomText k).head? ≠ some '[' := by
  unfold atomText
  have ha := h.atom
  cases hk : k.atom with
  | pub sec xonly =>
    simp only
    intro e
    have : '[' ∈ hexChars (if xonly then sec.drop 1 else sec) := List.mem_of_mem_head? e
    exact hexChars_no _ '[' (by decide) this
  | xkey t =>
    rw [hk] at ha
    simp only [List.append_assoc]
    cases t with
    | nil =>
      simp only [List.nil_append]
      intro e
      have hm : '[' ∈ strSteps k.hard k.path ++ strWildcard k.hard k.wildcard := List.mem_of_mem_head? e
      rcases tail_mem _ _ _ _ hm with e | e | e
      · revert e; decide
      · revert e; decide
      · exact e.ne '[' (by decide) (by decide) (by decide) rfl
    | cons a as => simpa using ha.2.2.1

theorem strKey_eq (k : Key) :
    strKey k = (match k.origin with
      | none => []
      | some og => '[' :: (hexChars og.fp ++ strSteps k.hard og.path ++ [']'])) ++ atomText k := by
  unfold strKey atomText
  cases k.atom <;> rfl

theorem notKeyC_paren : ¬ KeyC '(' := fun h => h.1.1 rfl
theorem notKeyC_rbracket : ¬ KeyC ']' := fun h => h.2.2.1 rfl
theorem notKeyC_lt : ¬ KeyC '<' := fun h => h.2.2.2.2 rfl

/-- what `_origin_and_rest` answers on a written key. -/
theorem originAndRest_strKey (o : KeyOracle) (x c : Bool) (k : Key) (h : KeyOk o x c k) :
    originAndRest (strKey k) = .ok (k.origin,
      (match k.origin with | some og => hardSym k.hard og.path | none => none), atomText k) := by
  rw [strKey_eq]
  cases hk : k.origin with
  | none =>
    simp only [List.nil_append]
    exact originAndRest_none _ (atomText_head o x c k h)
      (atomText_no o x c k h ']' notKeyC_rbracket (by decide) (by decide) (by decide) (by decide) (by decide))
  | some og =>
    have := h.origin og hk
    exact originAndRest_some k.hard og (atomText k) this.1 this.2

theorem strKey_no_paren (o : KeyOracle) (x c : Bool) (k : Key) (h : KeyOk o x c k) : '(' ∉ strKey k := by
  rw [strKey_eq]
  intro hm
  rcases List.mem_append.mp hm with hm | hm
  · cases hk : k.origin with
    | none => rw [hk] at hm; cases hm
    | some og =>
      rw [hk] at hm
      simp only [List.mem_cons, List.mem_append, List.not_mem_nil, or_false] at hm
      rcases hm with e | (e | e) | e
      · revert e; decide
      · exact hexChars_no _ '(' (by decide) e
      · exact strSteps_no _ _ '(' (by decide) (by decide) (by decide) (by decide) e
      · revert e; decide
  · exact atomText_no o x c k h '(' notKeyC_paren (by decide) (by decide) (by decide) (by decide) (by decide) hm


theorem contains_false {l : List Char} {x : Char} (h : x ∉ l) : l.contains x = false := by
  simpa using h

theorem hexkey_fixed (o : KeyOracle) (xOnly compressed : Bool) (sec : Bytes) (x : Bool)
    (hv : o.validPub sec = true)
    (hs : if x then xOnly = true ∧ ∃ b, sec = 2 :: b ∧ b.length = 32
          else (∃ b, (sec = 2 :: b ∨ sec = 3 :: b) ∧ b.length = 32) ∨
               (compressed = false ∧ ∃ b, sec = 4 :: b ∧ b.length = 64)) :
    fixedPubKey o xOnly (hexChars (if x then sec.drop 1 else sec)) = .ok (sec, x) ∧
      (compressed && sec.length != 33) = false := by
  unfold fixedPubKey
  rw [hexChars_isHexDigit]
  simp only [if_true]
  unfold pubKeyFromHex
  rw [hexBytes_hexChars, hexChars_length]
  cases x with
  | true =>
    simp only [if_true] at hs ⊢
    obtain ⟨hx, b, rfl, hb⟩ := hs
    simp only [List.drop_succ_cons, List.drop_zero, hb, hx, Bool.not_true, Bool.false_eq_true, if_false, if_true, hv,
      List.length_cons]
    simp
  | false =>
    simp only [Bool.false_eq_true, if_false] at hs ⊢
    rcases hs with ⟨b, hb, hl⟩ | ⟨hc, b, rfl, hl⟩
    · have h66 : 2 * sec.length = 66 := by rcases hb with rfl | rfl <;> simp [hl]
      have hne : ¬ (2 * sec.length = 64) := by omega
      have ht : List.take 2 (hexChars sec) = ['0', '2'] ∨ List.take 2 (hexChars sec) = ['0', '3'] := by
        rcases hb with rfl | rfl
        · left; simp [hexChars, hexChar]
        · right; simp [hexChars, hexChar]
      have hl33 : sec.length = 33 := by omega
      simp only [hne, if_false, h66, if_true, ht, hv, hl33]
      simp
    · have h130 : 2 * (4 :: b).length = 130 := by simp [hl]
      have hne : ¬ (2 * (4 :: b).length = 64) := by omega
      have hne2 : ¬ (2 * (4 :: b).length = 66) := by omega
      have ht : List.take 2 (hexChars (4 :: b)) = ['0', '4'] := by simp [hexChars, hexChar]
      simp only [hne, hne2, if_false, h130, if_true, ht, hv, hc]
      simp

/-- T2 for KEY expressions: reading the written key gives the key back (whatever `musig_allowed` is). -/
theorem parseKey_strKey (o : KeyOracle) (xOnly compressed musigOk : Bool) (k : Key)
    (h : KeyOk o xOnly compressed k) : parseKey o xOnly compressed musigOk (strKey k) = .ok k := by
  unfold parseKey
  rw [not_musig _ (strKey_no_paren o xOnly compressed k h), originAndRest_strKey o xOnly compressed k h]
  have n1 := contains_false (atomText_no o xOnly compressed k h ']' notKeyC_rbracket (by decide) (by decide)
    (by decide) (by decide) (by decide))
  have n2 := contains_false (atomText_no o xOnly compressed k h '<' notKeyC_lt (by decide) (by decide)
    (by decide) (by decide) (by decide))
  have n3 := contains_false (atomText_no o xOnly compressed k h '(' notKeyC_paren (by decide) (by decide)
    (by decide) (by decide) (by decide))
  simp only [Bool.false_eq_true, if_false, n1, n2, n3, Bool.or_self]
  have ha := h.atom
  have hh := h.hard
  obtain ⟨origin, atom, path, wildcard, hard⟩ := k
  cases atom with
  | pub sec x =>
    simp only at ha
    obtain ⟨rfl, rfl, hv, hx, hs⟩ := ha
    have hno : '/' ∉ hexChars (if x then sec.drop 1 else sec) := hexChars_no _ '/' (by decide)
    obtain ⟨hf, hcomp⟩ := hexkey_fixed o xOnly compressed sec x hv hs
    simp only [atomText, partition_absent '/' _ hno, hx, Bool.false_eq_true, if_false, hf, hcomp]
    congr 2
    simp only [Key.somethingHard, Bool.or_false] at hh
    cases origin with
    | none => simp at hh; simp [hh]
    | some og =>
      simp only [hardSym]
      rcases hh with hh | hh
      · simp [hh]
      · cases hah : anyHard og.path <;> simp [hh]
  | xkey t =>
    simp only at ha
    obtain ⟨hxk, htc, _, hp⟩ := ha
    have ht : '/' ∉ t := fun e => (htc '/' e).2.2.2.1 rfl
    obtain ⟨e1, e2⟩ := xkey_partition hard t path wildcard ht
    simp only [atomText, List.append_assoc, e1, hxk, e2, splitWildcard_tail, joinedPath_str hard path hp]
    congr 2
    simp only [Key.somethingHard] at hh
    cases wildcard with
    | some b =>
      cases b with
      | true => simp
      | false =>
        simp only [reduceCtorEq, if_false, hardSym]
        cases hap : anyHard path with
        | true => simp
        | false =>
          simp only [Bool.false_eq_true, if_false]
          cases origin with
          | none => simp [hap] at hh; simp [hh]
          | some og =>
            simp only [hardSym]
            cases hao : anyHard og.path with
            | true => simp
            | false => simp [hap, hao] at hh; simp [hh]
    | none =>
      simp only [reduceCtorEq, if_false, hardSym]
      cases hap : anyHard path with
      | true => simp
      | false =>
        simp only [Bool.false_eq_true, if_false]
        cases origin with
        | none => simp [hap] at hh; simp [hh]
        | some og =>
          simp only [hardSym]
          cases hao : anyHard og.path with
          | true => simp
          | false => simp [hap, hao] at hh; simp [hh]

end Btc.Desc
