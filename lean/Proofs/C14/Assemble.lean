import Proofs.C14.Derive
import Proofs.C07.Laws
/-!
C14 — T3 at full strength: what a descriptor describes at an index is the STANDARD SCRIPT ASSEMBLED BY HAND from the
public keys BIP32 derives at that index.  `assemble` is written on descriptors whose key expressions are literal public
keys: no BIP32, no index, no `prv_keys` — opcodes and pushes only; `Key.derived` is the literal key BIP32 gives.
-/
namespace Btc.Desc
open Btc Gen.Descriptor

/-- a key expression that is nothing but these SEC octets. -/
def Key.fixed (sec : Bytes) : Key := { origin := none, atom := .pub sec false, path := [], wildcard := none, hard := .h }

/-- the octets of a literal key expression. -/
def Key.lit (k : Key) : Option Bytes :=
  match k.atom with
  | .pub s _ => some s
  | .xkey _ => none

section
variable {α : Type} (E : DEnv α)

/-- the leaf scripts of a tr() tree over literal keys, by hand. -/
def assembleTree : Tree → Option Taproot.Tree
  | .pk k => k.lit.map fun s => .leaf 0xC0 (push (s.drop 1) ++ [0xac])
  | .multiA thr ks sort =>
    (mapO Key.lit ks).bind fun secs =>
      (multiAScript thr (if sort then sortBytesBy (·.drop 1) secs else secs)).map fun s => .leaf 0xC0 s
  | .branch l r =>
    match assembleTree l, assembleTree r with
    | some a, some b => some (.node a b)
    | _, _ => none
  | .ms n => (Miniscript.script .tapscript E.bip.h160 n).map fun s => .leaf 0xC0 s

/-- the standard scripts of a descriptor over literal keys, assembled by hand (opcodes written out):
    p2pk `<key> CHECKSIG`, p2pkh `DUP HASH160 <h160 key> EQUALVERIFY CHECKSIG`, p2wpkh `0 <h160 key>` (compressed keys
    only), p2sh `HASH160 <h160 script> EQUAL`, p2wsh `0 <sha256 script>`, p2ms `m <keys…> n CHECKMULTISIG` (1..16 keys,
    sorted bytewise for sortedmulti), p2tr `1 <C12 output key of (key, tree)>`, rawtr `1 <x>`, addr / raw as given. -/
def assemble : D → Option (List Bytes)
  | .pk k => k.lit.map fun s => [push s ++ [0xac]]
  | .pkh k => k.lit.map fun s => [[0x76, 0xa9] ++ push (E.bip.h160 s) ++ [0x88, 0xac]]
  | .wpkh k => k.lit.bind fun s => if s.length = 33 then some [0x00 :: push (E.bip.h160 s)] else none
  | .combo k =>
    k.lit.map fun s =>
      [push s ++ [0xac], [0x76, 0xa9] ++ push (E.bip.h160 s) ++ [0x88, 0xac]] ++
        (if s.length = 33 then
          [0x00 :: push (E.bip.h160 s), [0xa9] ++ push (E.bip.h160 (0x00 :: push (E.bip.h160 s))) ++ [0x87]]
         else [])
  | .sh d => match assemble d with | some [s] => some [[0xa9] ++ push (E.bip.h160 s) ++ [0x87]] | _ => none
  | .wsh d => match assemble d with | some [s] => some [0x00 :: push (E.sha256 s)] | _ => none
  | .multi thr ks sort =>
    (mapO Key.lit ks).bind fun secs =>
      (p2ms thr (if sort then sortBytesBy id secs else secs)).map fun s => [s]
  | .tr k none => k.lit.bind fun s => (p2tr E s none).map fun x => [x]
  | .tr k (some t) =>
    match assembleTree E t, k.lit with
    | some tt, some s => (p2tr E s (some tt)).map fun x => [x]
    | _, _ => none
  | .rawtr k => k.lit.map fun s => [0x51 :: push (s.drop 1)]
  | .addr a =>
    match Address.fromAddress E.hash256 (textNats a) with
    | .ok (s, _) => some [s]
    | .error _ => none
  | .raw s => some [s]
  | .ms n => (Miniscript.script .p2wsh E.bip.h160 n).map fun s => [s]

/-- the literal key BIP32 derivation gives for a key expression at an index (`KeyExpression.sec`). -/
def Key.derived (net : String) (prv : PrvKeys) (i : Nat) (k : Key) : Key :=
  Key.fixed ((Key.sec E net prv k i).getD [])

/-- every key expression of the descriptor derives at this index. -/
def allDerive (net : String) (prv : PrvKeys) (i : Nat) (ks : List Key) : Bool :=
  ks.all fun k => (Key.sec E net prv k i).isSome

theorem mapO_eq {β γ : Type} (f : β → Option γ) (dflt : γ) : ∀ (l : List β),
    mapO f l = if l.all (fun a => (f a).isSome) then some (l.map fun a => (f a).getD dflt) else none
  | [] => rfl
  | a :: as => by
    simp only [mapO, List.all_cons, List.map_cons, mapO_eq f dflt as]
    cases f a with
    | none => simp
    | some b => by_cases h : (as.all fun a => (f a).isSome) = true <;> simp [h]

theorem mapO_lit_fixed (h : Key → Key) (g : Key → Bytes) (hg : ∀ k, (h k).lit = some (g k)) : ∀ (ks : List Key),
    mapO Key.lit (ks.map h) = some (ks.map g)
  | [] => rfl
  | k :: ks => by
    simp only [List.map_cons, mapO, hg k, mapO_lit_fixed h g hg ks, Option.map_some]

theorem opChecksig : OP_CHECKSIG = 0xac := rfl

variable (net : String) (prv : PrvKeys) (i : Nat)

theorem tapTree_eq_assemble : ∀ (t : Tree),
    tapTree E net prv i t =
      if allDerive E net prv i t.keys then assembleTree E (t.mapKeys (Key.derived E net prv i)) else none
  | .pk k => by
    simp only [tapTree, Tree.keys, allDerive, List.all_cons, List.all_nil, Bool.and_true, Tree.mapKeys, assembleTree,
      Key.derived, Key.lit, Key.fixed, opChecksig]
    cases Key.sec E net prv k i <;> simp
  | .multiA thr ks s => by
    simp only [tapTree, Tree.keys, allDerive, Tree.mapKeys, assembleTree]
    rw [mapO_eq (fun k => Key.sec E net prv k i) [] ks,
      mapO_lit_fixed (Key.derived E net prv i) (fun k => (Key.sec E net prv k i).getD []) (fun _ => rfl)]
    by_cases h : (ks.all fun k => (Key.sec E net prv k i).isSome) = true <;> simp [h]
  | .branch l r => by
    simp only [tapTree, Tree.keys, Tree.mapKeys, assembleTree, tapTree_eq_assemble l, tapTree_eq_assemble r, allDerive,
      List.all_append]
    by_cases h1 : (l.keys.all fun k => (Key.sec E net prv k i).isSome) = true <;>
      by_cases h2 : (r.keys.all fun k => (Key.sec E net prv k i).isSome) = true <;> simp [h1, h2, allDerive]
    · cases assembleTree E (l.mapKeys (Key.derived E net prv i)) <;> rfl
  | .ms n => by simp [tapTree, Tree.keys, allDerive, Tree.mapKeys, assembleTree]

/-- T3: `Descriptor._scripts(index, prv_keys)` = derive every key expression by BIP32 at `index` (refused as soon as one
    does not derive), then assemble the standard script by hand from the derived public keys. -/
theorem scripts_eq_assemble : ∀ (d : D),
    scripts E net prv i d =
      if allDerive E net prv i d.keys then assemble E (d.mapKeys (Key.derived E net prv i)) else none
  | .pk k => by
    simp only [scripts, D.keys, allDerive, List.all_cons, List.all_nil, Bool.and_true, D.mapKeys, assemble,
      Key.derived, Key.lit, Key.fixed, p2pk, opChecksig]
    cases Key.sec E net prv k i <;> simp
  | .pkh k => by
    simp only [scripts, D.keys, allDerive, List.all_cons, List.all_nil, Bool.and_true, D.mapKeys, assemble,
      Key.derived, Key.lit, Key.fixed, p2pkh, opChecksig]
    cases Key.sec E net prv k i <;> simp
  | .wpkh k => by
    simp only [scripts, D.keys, allDerive, List.all_cons, List.all_nil, Bool.and_true, D.mapKeys, assemble,
      Key.derived, Key.lit, Key.fixed, p2wpkh]
    cases Key.sec E net prv k i with
    | none => simp
    | some s => by_cases h : s.length = 33 <;> simp [h]
  | .combo k => by
    simp only [scripts, D.keys, allDerive, List.all_cons, List.all_nil, Bool.and_true, D.mapKeys, assemble,
      Key.derived, Key.lit, Key.fixed, p2pk, p2pkh, p2wpkh, p2sh, opChecksig]
    cases Key.sec E net prv k i with
    | none => simp
    | some s => by_cases h : s.length = 33 <;> simp [h]
  | .sh d => by
    simp only [scripts, D.keys, D.mapKeys, assemble, scripts_eq_assemble d, p2sh]
    by_cases h : allDerive E net prv i d.keys = true
    · simp only [h, if_true]
      cases assemble E (D.mapKeys (Key.derived E net prv i) d) with
      | none => rfl
      | some l =>
        match l with
        | [] => rfl
        | [_] => rfl
        | _ :: _ :: _ => rfl
    · simp [h]
  | .wsh d => by
    simp only [scripts, D.keys, D.mapKeys, assemble, scripts_eq_assemble d, p2wsh]
    by_cases h : allDerive E net prv i d.keys = true
    · simp only [h, if_true]
      cases assemble E (D.mapKeys (Key.derived E net prv i) d) with
      | none => rfl
      | some l =>
        match l with
        | [] => rfl
        | [_] => rfl
        | _ :: _ :: _ => rfl
    · simp [h]
  | .multi thr ks s => by
    simp only [scripts, multiKeys, D.keys, allDerive, D.mapKeys, assemble]
    rw [mapO_eq (fun k => Key.sec E net prv k i) [] ks,
      mapO_lit_fixed (Key.derived E net prv i) (fun k => (Key.sec E net prv k i).getD []) (fun _ => rfl)]
    by_cases h : (ks.all fun k => (Key.sec E net prv k i).isSome) = true <;> simp [h]
  | .tr k none => by
    simp only [scripts, D.keys, allDerive, List.all_cons, List.all_nil, Bool.and_true, D.mapKeys, Option.map_none,
      assemble, Key.derived, Key.lit, Key.fixed]
    cases Key.sec E net prv k i <;> simp
  | .tr k (some t) => by
    simp only [scripts, D.keys, allDerive, List.all_cons, D.mapKeys, Option.map_some, assemble, Key.derived, Key.lit,
      Key.fixed, tapTree_eq_assemble E net prv i t]
    cases hk : Key.sec E net prv k i with
    | none =>
      simp only [Option.isSome_none, Bool.false_and, Bool.false_eq_true, if_false]
      split
      · rename_i h1 h2; cases h2
      · rfl
    | some s =>
      by_cases h : (t.keys.all fun k => (Key.sec E net prv k i).isSome) = true
      · simp only [h, if_true, Option.isSome_some, Bool.true_and, Option.getD_some]
        cases assembleTree E (Tree.mapKeys (Key.derived E net prv i) t) <;> rfl
      · simp [h]
  | .rawtr k => by
    simp only [scripts, D.keys, allDerive, List.all_cons, List.all_nil, Bool.and_true, D.mapKeys, assemble,
      Key.derived, Key.lit, Key.fixed]
    cases Key.sec E net prv k i <;> simp
  | .addr a => by
    simp only [scripts, D.keys, allDerive, List.all_nil, if_true, D.mapKeys, assemble]
    cases Address.fromAddress E.hash256 (textNats a) with
    | error e => rfl
    | ok p => obtain ⟨s, n⟩ := p; rfl
  | .raw s => by simp [scripts, D.keys, allDerive, D.mapKeys, assemble]
  | .ms n => by simp [scripts, D.keys, allDerive, D.mapKeys, assemble]

/-- what BIP32 derivation a key expression stands for (`KeyExpression.sec`): a fixed key is itself; an extended key is
    C07's `derive` of (the key `prv_keys` holds for it, else the written one) along the written path followed by the
    wildcard step `index` (`+2^31` for `*h`), then its public key — when its version is one of the network's. -/
theorem key_sec_is_bip32 (k : Key) :
    Key.sec E net prv k i =
      match k.atom with
      | .pub sec _ => some sec
      | .xkey t =>
        match decodeXkey E ((prv.lookup t).getD t), networkOf net with
        | some x, some n =>
          match Bip32.derive E.bip x (k.path ++ (match k.wildcard with
              | none => [] | some hd => [(if hd then HARDENED_OFFSET else 0) + i])) none with
          | .error _ => none
          | .ok y =>
            if y.isPrivate then
              (if n.xprv.contains (versionNats y.version) then some (Bip32.pubOfPrv E.bip y.prvInt) else none)
            else (if n.xpub.contains (versionNats y.version) then some y.key else none)
        | _, _ => none := by
  unfold Key.sec Key.fullPath
  rfl

/-- a hardened step — written in the path or the `*h` wildcard — cannot be walked from an extended PUBLIC key: the key
    expression is refused at every index (unless `prv_keys` holds the private key for it). -/
theorem hardened_from_xpub_refused (k : Key) (t : List Char) (x : Bip32.XKey) (hk : k.atom = .xkey t)
    (hx : decodeXkey E ((prv.lookup t).getD t) = some x) (hpub : x.isPrivate = false)
    (hh : ∃ s ∈ k.fullPath i, s ≥ Bip32.HARDENED) : Key.sec E net prv k i = none := by
  unfold Key.sec
  simp only [hk, hx]
  cases networkOf net with
  | none => rfl
  | some n =>
    have hd : ∃ e, Bip32.derive E.bip x (k.fullPath i) none = .error e := by
      unfold Bip32.derive
      cases Bip32.assertValid E.bip x with
      | error e => exact ⟨e, rfl⟩
      | ok _ =>
        simp only [Except.bind]
        split
        · exact ⟨_, rfl⟩
        · by_cases hdp : x.depth + (k.fullPath i).length ≤ Bip32.MAX_DEPTH
          · rw [Bip32.deriveB_public_hardened x _ hpub hdp hh]; exact ⟨_, rfl⟩
          · have : Bip32.deriveB E.bip x (k.fullPath i) none = .error .depth := by
              unfold Bip32.deriveB; simp only; rw [if_pos (by omega)]
            rw [this]; exact ⟨_, rfl⟩
    obtain ⟨e, he⟩ := hd
    simp only [he]

end
end Btc.Desc
