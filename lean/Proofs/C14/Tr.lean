import Proofs.C14.Derive
import Proofs.C12.Tweak
import Proofs.C12.Glue
/-!
C14 — `tr()` and C12: the script a `tr(KEY, TREE)` descriptor describes at an index carries the output key
`P + t·G` (P the derived internal key, t the TapTweak of its x and the root of the derived tree) and every leaf
of the derived tree has a control block that C12's `check_output_pubkey` accepts against THAT key.
-/
namespace Btc.Desc
open Btc Gen.Descriptor Btc.Taproot

variable {α G : Type} [AddCommGroup G] (E : DEnv α)

/-- the unfolding: `TrDescriptor._scripts` is `ScriptPubKey.p2tr` = OP_1 and C12's `_tweaked_pubkey`. -/
theorem tr_scripts_unfold (net : String) (prv : PrvKeys) (i : Nat) (k : Key) (t : Tree)
    (sec : Bytes) (tt : Taproot.Tree) (hk : Key.sec E net prv k i = some sec) (hne : sec ≠ [])
    (ht : tapTree E net prv i t = some tt) :
    scripts E net prv i (.tr k none) =
      (match Taproot.tweakedPubkey E.bip.o E.tag sec [] with
        | .ok (q, _) => some [0x51 :: push q] | .error _ => none) ∧
    scripts E net prv i (.tr k (some t)) =
      (match Taproot.tweakedPubkey E.bip.o E.tag sec (Taproot.root E.tag tt) with
        | .ok (q, _) => some [0x51 :: push q] | .error _ => none) := by
  cases sec with
  | nil => exact absurd rfl hne
  | cons b bs =>
    constructor
    · simp only [scripts, hk, Option.bind_some, p2tr, Taproot.outputPubkey, Taproot.outputPubkeyAndInternalKey,
        Taproot.truthyKey, Option.getD_some]
      cases Taproot.tweakedPubkey E.bip.o E.tag (b :: bs) [] with
      | error e => rfl
      | ok r => rfl
    · simp only [scripts, hk, ht, p2tr, Taproot.outputPubkey, Taproot.outputPubkeyAndInternalKey, Taproot.truthyKey,
        Option.getD_some]
      cases Taproot.tweakedPubkey E.bip.o E.tag (b :: bs) (Taproot.root E.tag tt) with
      | error e => rfl
      | ok r => rfl

theorem push32 (q : Bytes) (h : q.length = 32) : push q = 0x20 :: q := by
  simp [push, h]

/-- `tr(KEY, TREE)` at index `i`, in the group: the one script is `OP_1 0x20 q` with `q` the x of `P + t·G`, and
    every leaf of the derived tree spends it through C12's control block. -/
theorem tr_tree_link (L : Lawful E.bip.o G) (hp : E.bip.o.p ≤ 2 ^ 256) (h32 : Len32 E.tag)
    (net : String) (prv : PrvKeys) (i : Nat) (k : Key) (t : Tree) (sec : Bytes) (tt : Taproot.Tree) (P : α) (tw : Int)
    (hk : Key.sec E net prv k i = some sec) (ht : tapTree E net prv i t = some tt)
    (hdepth : tt.depth ≤ 128)
    (hP : pointFromOctets E.bip.o sec = .ok P)
    (htw : tapTweak E.bip.o E.tag (xOnly sec) (root E.tag tt) = .ok tw)
    (hQ : L.abs (tweakPoint E.bip.o P tw) ≠ 0) :
    let q := (outKey E.bip.o (tweakPoint E.bip.o P tw)).1
    scripts E net prv i (.tr k (some t)) = some [p2trScript q] ∧ q.length = 32 ∧
    ((ofBE q : Nat) : Int) = E.bip.o.x (tweakPoint E.bip.o P tw) ∧
    ∀ j : Nat, j < (leaves E.tag tt).length →
      ∃ s c, inputScriptSig E.bip.o E.tag (some sec) tt j = .ok (s, c) ∧
        checkOutputPubkey E.bip.o E.tag q s c = .ok true := by
  intro q
  obtain ⟨hout, hleaves⟩ := completeness_aux L L.y_congr hp h32 sec tt P tw hdepth hP htw hQ
  have hql : q.length = 32 := outKey_length _
  refine ⟨?_, hql, ofBE_outKey L hp _ hQ, hleaves⟩
  simp only [scripts, hk, ht, p2tr, hout]
  show some [(0x51 : UInt8) :: push q] = some [p2trScript q]
  rw [push32 q hql]; rfl

/-- `tr(KEY)` at index `i`: `OP_1 0x20 q` with `q` the x of `P + t·G`, `t` the TapTweak of the key alone. -/
theorem tr_key_link (L : Lawful E.bip.o G) (hp : E.bip.o.p ≤ 2 ^ 256)
    (net : String) (prv : PrvKeys) (i : Nat) (k : Key) (sec : Bytes) (P : α) (tw : Int)
    (hk : Key.sec E net prv k i = some sec)
    (hP : pointFromOctets E.bip.o sec = .ok P)
    (htw : tapTweak E.bip.o E.tag (xOnly sec) [] = .ok tw)
    (hQ : L.abs (tweakPoint E.bip.o P tw) ≠ 0) :
    let q := (outKey E.bip.o (tweakPoint E.bip.o P tw)).1
    scripts E net prv i (.tr k none) = some [p2trScript q] ∧ q.length = 32 ∧
    ((ofBE q : Nat) : Int) = E.bip.o.x (tweakPoint E.bip.o P tw) := by
  intro q
  have hql : q.length = 32 := outKey_length _
  have hne : sec ≠ [] := by
    rintro rfl; simp [pointFromOctets] at hP
  refine ⟨?_, hql, ofBE_outKey L hp _ hQ⟩
  have hq := tweakedPubkey_ok (H := E.tag) sec [] P tw hP htw
  cases sec with
  | nil => exact absurd rfl hne
  | cons b bs =>
    simp only [scripts, hk, Option.bind_some, p2tr, Taproot.outputPubkey, Taproot.outputPubkeyAndInternalKey,
      Taproot.truthyKey, Option.getD_some, hq]
    show Option.map _ (some ((0x51 : UInt8) :: push q)) = some [p2trScript q]
    rw [push32 q hql]; rfl

end Btc.Desc
