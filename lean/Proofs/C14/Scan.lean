import Model.C14.Scan
/-! find-first semantics of the two scans.  Core Lean only. -/
namespace Btc.Scan

theorem findFrom_some_iff (hit : Nat → Bool) (n start i : Nat) :
    findFrom hit start n = some i ↔
      start ≤ i ∧ i < start + n ∧ hit i = true ∧ ∀ j, start ≤ j → j < i → hit j = false := by
  induction n generalizing start with
  | zero => simp [findFrom]; intro h1 h2; omega
  | succ n ih =>
    simp only [findFrom]
    by_cases hs : hit start = true
    · simp only [hs, if_true, Option.some.injEq]
      constructor
      · intro e; subst e
        exact ⟨Nat.le_refl _, by omega, hs, fun j h1 h2 => by omega⟩
      · rintro ⟨h1, _, _, h4⟩
        rcases Nat.lt_or_ge start i with h | h
        · have := h4 start (Nat.le_refl _) h; rw [hs] at this; cases this
        · omega
    · have hs' : hit start = false := by simpa using hs
      simp only [hs', Bool.false_eq_true, if_false]
      rw [ih]
      constructor
      · rintro ⟨h1, h2, h3, h4⟩
        refine ⟨by omega, by omega, h3, fun j hj1 hj2 => ?_⟩
        rcases Nat.eq_or_lt_of_le hj1 with e | l
        · rw [← e]; exact hs'
        · exact h4 j l hj2
      · rintro ⟨h1, h2, h3, h4⟩
        have : start ≠ i := fun e => by rw [e] at hs'; rw [hs'] at h3; cases h3
        exact ⟨by omega, by omega, h3, fun j hj1 hj2 => h4 j (by omega) hj2⟩

theorem findFrom_none_iff (hit : Nat → Bool) (n start : Nat) :
    findFrom hit start n = none ↔ ∀ j, start ≤ j → j < start + n → hit j = false := by
  induction n generalizing start with
  | zero => simp [findFrom]; intro j h1 h2; omega
  | succ n ih =>
    simp only [findFrom]
    by_cases hs : hit start = true
    · simp only [hs, if_true]
      constructor
      · intro h; cases h
      · intro h; have := h start (Nat.le_refl _) (by omega); rw [hs] at this; cases this
    · have hs' : hit start = false := by simpa using hs
      simp only [hs', Bool.false_eq_true, if_false]
      rw [ih]
      constructor
      · intro h j h1 h2
        rcases Nat.eq_or_lt_of_le h1 with e | l
        · rw [← e]; exact hs'
        · exact h j l (by omega)
      · intro h j h1 h2; exact h j (by omega) (by omega)

theorem findFirst_some_iff (hit : Nat → Bool) (last i : Nat) :
    findFirst hit last = some i ↔ i ≤ last ∧ hit i = true ∧ ∀ j, j < i → hit j = false := by
  unfold findFirst
  rw [findFrom_some_iff]
  constructor
  · rintro ⟨_, h2, h3, h4⟩; exact ⟨by omega, h3, fun j hj => h4 j (Nat.zero_le _) hj⟩
  · rintro ⟨h1, h2, h3⟩; exact ⟨Nat.zero_le _, by omega, h2, fun j _ hj => h3 j hj⟩

theorem findFirst_none_iff (hit : Nat → Bool) (last : Nat) :
    findFirst hit last = none ↔ ∀ j, j ≤ last → hit j = false := by
  unfold findFirst
  rw [findFrom_none_iff]
  constructor
  · intro h j hj; exact h j (Nat.zero_le _) (by omega)
  · intro h j _ hj; exact h j (by omega)

variable {β σ : Type} [DecidableEq σ]

theorem positionOf_some_iff (spk : β → Nat → σ) (s : σ) (last : Nat) (bs : List β) (b : β) (i : Nat) :
    positionOf spk s last bs = some (b, i) ↔
      ∃ pre post, bs = pre ++ b :: post ∧ (∀ b' ∈ pre, ∀ j, j ≤ last → spk b' j ≠ s) ∧
        i ≤ last ∧ spk b i = s ∧ ∀ j, j < i → spk b j ≠ s := by
  induction bs with
  | nil => simp [positionOf]
  | cons x xs ih =>
    simp only [positionOf]
    cases hf : findFirst (fun i => decide (spk x i = s)) last with
    | some k =>
      have hk := (findFirst_some_iff _ last k).mp hf
      simp only [decide_eq_true_eq, decide_eq_false_iff_not] at hk
      simp only [Option.some.injEq, Prod.mk.injEq]
      constructor
      · rintro ⟨rfl, rfl⟩
        exact ⟨[], xs, rfl, by simp, hk.1, hk.2.1, hk.2.2⟩
      · rintro ⟨pre, post, e, hpre, h1, h2, h3⟩
        cases pre with
        | nil =>
          simp only [List.nil_append, List.cons.injEq] at e
          obtain ⟨rfl, _⟩ := e
          refine ⟨rfl, ?_⟩
          rcases Nat.lt_trichotomy k i with l | l | l
          · exact absurd hk.2.1 (h3 k l)
          · exact l
          · exact absurd h2 (hk.2.2 i l)
        | cons p pre =>
          simp only [List.cons_append, List.cons.injEq] at e
          obtain ⟨rfl, _⟩ := e
          exact absurd hk.2.1 (hpre x (List.mem_cons_self ..) k hk.1)
    | none =>
      have hn := (findFirst_none_iff _ last).mp hf
      simp only [decide_eq_false_iff_not] at hn
      rw [ih]
      constructor
      · rintro ⟨pre, post, e, hpre, h⟩
        refine ⟨x :: pre, post, by rw [e]; rfl, ?_, h⟩
        intro b' hb' j hj
        rcases List.mem_cons.mp hb' with e' | e'
        · rw [e']; exact hn j hj
        · exact hpre b' e' j hj
      · rintro ⟨pre, post, e, hpre, h1, h2, h3⟩
        cases pre with
        | nil =>
          simp only [List.nil_append, List.cons.injEq] at e
          obtain ⟨rfl, _⟩ := e
          exact absurd h2 (hn i h1)
        | cons p pre =>
          simp only [List.cons_append, List.cons.injEq] at e
          obtain ⟨rfl, rfl⟩ := e
          exact ⟨pre, post, rfl, fun b' hb' => hpre b' (List.mem_cons_of_mem _ hb'), h1, h2, h3⟩

theorem positionOf_none_iff (spk : β → Nat → σ) (s : σ) (last : Nat) (bs : List β) :
    positionOf spk s last bs = none ↔ ∀ b ∈ bs, ∀ j, j ≤ last → spk b j ≠ s := by
  induction bs with
  | nil => simp [positionOf]
  | cons x xs ih =>
    simp only [positionOf]
    cases hf : findFirst (fun i => decide (spk x i = s)) last with
    | some k =>
      have hk := (findFirst_some_iff _ last k).mp hf
      simp only [decide_eq_true_eq] at hk
      constructor
      · intro h; cases h
      · intro h; exact absurd hk.2.1 (h x (List.mem_cons_self ..) k hk.1)
    | none =>
      have hn := (findFirst_none_iff _ last).mp hf
      simp only [decide_eq_false_iff_not] at hn
      simp only [ih]
      constructor
      · intro h b hb j hj
        rcases List.mem_cons.mp hb with e | e
        · rw [e]; exact hn j hj
        · exact h b e j hj
      · intro h b hb j hj; exact h b (List.mem_cons_of_mem _ hb) j hj


/-! ### the scan with the raise mirrored -/

theorem findFromE_hit_iff (hit : Nat → Option Bool) (n start i : Nat) :
    findFromE hit start n = some (some i) ↔
      start ≤ i ∧ i < start + n ∧ hit i = some true ∧ ∀ j, start ≤ j → j < i → hit j = some false := by
  induction n generalizing start with
  | zero => simp [findFromE]; intro h1 h2; omega
  | succ n ih =>
    simp only [findFromE]
    cases hs : hit start with
    | none =>
      simp only [reduceCtorEq, false_iff, not_and]
      intro h1 _ h3 h4
      rcases Nat.eq_or_lt_of_le h1 with e | l
      · rw [← e, hs] at h3; cases h3
      · have := h4 start (Nat.le_refl _) l; rw [hs] at this; cases this
    | some v =>
      cases v with
      | true =>
        simp only [Option.some.injEq]
        constructor
        · intro e; subst e; exact ⟨Nat.le_refl _, by omega, hs, fun j h1 h2 => by omega⟩
        · rintro ⟨h1, _, _, h4⟩
          rcases Nat.eq_or_lt_of_le h1 with e | l
          · exact e
          · have := h4 start (Nat.le_refl _) l; rw [hs] at this; cases this
      | false =>
        simp only
        rw [ih]
        constructor
        · rintro ⟨h1, h2, h3, h4⟩
          refine ⟨by omega, by omega, h3, fun j hj1 hj2 => ?_⟩
          rcases Nat.eq_or_lt_of_le hj1 with e | l
          · rw [← e]; exact hs
          · exact h4 j l hj2
        · rintro ⟨h1, h2, h3, h4⟩
          have : start ≠ i := fun e => by rw [e, h3] at hs; cases hs
          exact ⟨by omega, by omega, h3, fun j hj1 hj2 => h4 j (by omega) hj2⟩

theorem findFromE_end_iff (hit : Nat → Option Bool) (n start : Nat) :
    findFromE hit start n = some none ↔ ∀ j, start ≤ j → j < start + n → hit j = some false := by
  induction n generalizing start with
  | zero => simp [findFromE]; intro j h1 h2; omega
  | succ n ih =>
    simp only [findFromE]
    cases hs : hit start with
    | none =>
      simp only [reduceCtorEq, false_iff]
      intro h; have := h start (Nat.le_refl _) (by omega); rw [hs] at this; cases this
    | some v =>
      cases v with
      | true =>
        simp only [Option.some.injEq, reduceCtorEq, false_iff]
        intro h; have := h start (Nat.le_refl _) (by omega); rw [hs] at this; cases this
      | false =>
        simp only
        rw [ih]
        constructor
        · intro h j h1 h2
          rcases Nat.eq_or_lt_of_le h1 with e | l
          · rw [← e]; exact hs
          · exact h j l (by omega)
        · intro h j h1 h2; exact h j (by omega) (by omega)

theorem findFromE_raise_iff (hit : Nat → Option Bool) (n start : Nat) :
    findFromE hit start n = none ↔
      ∃ i, start ≤ i ∧ i < start + n ∧ hit i = none ∧ ∀ j, start ≤ j → j < i → hit j = some false := by
  induction n generalizing start with
  | zero => simp [findFromE]; intro i h1 h2; omega
  | succ n ih =>
    simp only [findFromE]
    cases hs : hit start with
    | none =>
      simp only [true_iff]
      exact ⟨start, Nat.le_refl _, by omega, hs, fun j h1 h2 => by omega⟩
    | some v =>
      have hne : ∀ i, start ≤ i → hit i = none → start < i := by
        intro i h1 h3
        rcases Nat.eq_or_lt_of_le h1 with e | l
        · rw [← e, hs] at h3; cases h3
        · exact l
      cases v with
      | true =>
        simp only [reduceCtorEq, false_iff, not_exists, not_and]
        intro i h1 _ h3 h4
        have := h4 start (Nat.le_refl _) (hne i h1 h3); rw [hs] at this; cases this
      | false =>
        simp only
        rw [ih]
        constructor
        · rintro ⟨i, h1, h2, h3, h4⟩
          refine ⟨i, by omega, by omega, h3, fun j hj1 hj2 => ?_⟩
          rcases Nat.eq_or_lt_of_le hj1 with e | l
          · rw [← e]; exact hs
          · exact h4 j l hj2
        · rintro ⟨i, h1, h2, h3, h4⟩
          have := hne i h1 h3
          exact ⟨i, by omega, by omega, h3, fun j hj1 hj2 => h4 j (by omega) hj2⟩

variable {β : Type}

/-- every position of these branches is derivable and is not a match. -/
def AllMiss (hit : β → Nat → Option Bool) (lastOf : β → Nat) (bs : List β) : Prop :=
  ∀ b ∈ bs, ∀ j, j ≤ lastOf b → hit b j = some false

theorem findE_zero_end (hit : β → Nat → Option Bool) (lastOf : β → Nat) (b : β) :
    findFromE (hit b) 0 (lastOf b + 1) = some none ↔ ∀ j, j ≤ lastOf b → hit b j = some false := by
  rw [findFromE_end_iff]
  constructor
  · intro h j hj; exact h j (Nat.zero_le _) (by omega)
  · intro h j _ hj; exact h j (by omega)

/-- find-first, answered: `(b, i)` is the lexicographically first match and every position before it derives. -/
theorem scanE_hit_iff (hit : β → Nat → Option Bool) (lastOf : β → Nat) (bs : List β) (b : β) (i : Nat) :
    scanE hit lastOf bs = some (some (b, i)) ↔
      ∃ pre post, bs = pre ++ b :: post ∧ AllMiss hit lastOf pre ∧
        i ≤ lastOf b ∧ hit b i = some true ∧ ∀ j, j < i → hit b j = some false := by
  induction bs with
  | nil => simp [scanE]
  | cons x xs ih =>
    simp only [scanE]
    cases hf : findFromE (hit x) 0 (lastOf x + 1) with
    | none =>
      obtain ⟨k, _, hk2, hk3, hk4⟩ := (findFromE_raise_iff _ _ _).mp hf
      simp only [reduceCtorEq, false_iff, not_exists, not_and]
      intro pre post e hpre h1 h2 h3
      cases pre with
      | nil =>
        simp only [List.nil_append, List.cons.injEq] at e
        obtain ⟨rfl, _⟩ := e
        rcases Nat.lt_trichotomy k i with l | l | l
        · have := h3 k l; rw [hk3] at this; cases this
        · rw [l, h2] at hk3; cases hk3
        · have := hk4 i (Nat.zero_le _) l; rw [h2] at this; cases this
      | cons p pre =>
        simp only [List.cons_append, List.cons.injEq] at e
        obtain ⟨rfl, _⟩ := e
        have := hpre x (List.mem_cons_self ..) k (by omega); rw [hk3] at this; cases this
    | some r =>
      cases r with
      | some k =>
        obtain ⟨_, hk2, hk3, hk4⟩ := (findFromE_hit_iff _ _ _ _).mp hf
        simp only [Option.some.injEq, Prod.mk.injEq]
        constructor
        · rintro ⟨rfl, rfl⟩
          exact ⟨[], xs, rfl, by simp [AllMiss], by omega, hk3, fun j hj => hk4 j (Nat.zero_le _) hj⟩
        · rintro ⟨pre, post, e, hpre, h1, h2, h3⟩
          cases pre with
          | nil =>
            simp only [List.nil_append, List.cons.injEq] at e
            obtain ⟨rfl, _⟩ := e
            refine ⟨rfl, ?_⟩
            rcases Nat.lt_trichotomy k i with l | l | l
            · have := h3 k l; rw [hk3] at this; cases this
            · exact l
            · have := hk4 i (Nat.zero_le _) l; rw [h2] at this; cases this
          | cons p pre =>
            simp only [List.cons_append, List.cons.injEq] at e
            obtain ⟨rfl, _⟩ := e
            have := hpre x (List.mem_cons_self ..) k (by omega); rw [hk3] at this; cases this
      | none =>
        have hn := (findE_zero_end hit lastOf x).mp hf
        simp only
        rw [ih]
        constructor
        · rintro ⟨pre, post, e, hpre, h⟩
          refine ⟨x :: pre, post, by rw [e]; rfl, ?_, h⟩
          intro b' hb' j hj
          rcases List.mem_cons.mp hb' with e' | e'
          · subst e'; exact hn j hj
          · exact hpre b' e' j hj
        · rintro ⟨pre, post, e, hpre, h1, h2, h3⟩
          cases pre with
          | nil =>
            simp only [List.nil_append, List.cons.injEq] at e
            obtain ⟨rfl, _⟩ := e
            have := hn i h1; rw [h2] at this; cases this
          | cons p pre =>
            simp only [List.cons_append, List.cons.injEq] at e
            obtain ⟨rfl, rfl⟩ := e
            exact ⟨pre, post, rfl, fun b' hb' => hpre b' (List.mem_cons_of_mem _ hb'), h1, h2, h3⟩

/-- "not mine": every position derives and none matches. -/
theorem scanE_none_iff (hit : β → Nat → Option Bool) (lastOf : β → Nat) (bs : List β) :
    scanE hit lastOf bs = some none ↔ AllMiss hit lastOf bs := by
  induction bs with
  | nil => simp [scanE, AllMiss]
  | cons x xs ih =>
    simp only [scanE]
    cases hf : findFromE (hit x) 0 (lastOf x + 1) with
    | none =>
      obtain ⟨k, _, hk2, hk3, _⟩ := (findFromE_raise_iff _ _ _).mp hf
      simp only [reduceCtorEq, false_iff]
      intro h; have := h x (List.mem_cons_self ..) k (by omega); rw [hk3] at this; cases this
    | some r =>
      cases r with
      | some k =>
        obtain ⟨_, hk2, hk3, _⟩ := (findFromE_hit_iff _ _ _ _).mp hf
        simp only [Option.some.injEq, reduceCtorEq, false_iff]
        intro h; have := h x (List.mem_cons_self ..) k (by omega); rw [hk3] at this; cases this
      | none =>
        have hn := (findE_zero_end hit lastOf x).mp hf
        simp only
        rw [ih]
        constructor
        · intro h b hb j hj
          rcases List.mem_cons.mp hb with e | e
          · subst e; exact hn j hj
          · exact h b e j hj
        · intro h b hb j hj; exact h b (List.mem_cons_of_mem _ hb) j hj

/-- the raise: the first position that is not a miss cannot be derived. -/
theorem scanE_raise_iff (hit : β → Nat → Option Bool) (lastOf : β → Nat) (bs : List β) :
    scanE hit lastOf bs = none ↔
      ∃ pre b post i, bs = pre ++ b :: post ∧ AllMiss hit lastOf pre ∧
        i ≤ lastOf b ∧ hit b i = none ∧ ∀ j, j < i → hit b j = some false := by
  induction bs with
  | nil => simp [scanE]
  | cons x xs ih =>
    simp only [scanE]
    cases hf : findFromE (hit x) 0 (lastOf x + 1) with
    | none =>
      obtain ⟨k, _, hk2, hk3, hk4⟩ := (findFromE_raise_iff _ _ _).mp hf
      simp only [true_iff]
      exact ⟨[], x, xs, k, rfl, by simp [AllMiss], by omega, hk3, fun j hj => hk4 j (Nat.zero_le _) hj⟩
    | some r =>
      have key : ∀ pre b post i, x :: xs = pre ++ b :: post → AllMiss hit lastOf pre → i ≤ lastOf b →
          hit b i = none → (∀ j, j < i → hit b j = some false) →
          ∃ pre', pre = x :: pre' ∧ xs = pre' ++ b :: post := by
        intro pre b post i e hpre h1 h2 h3
        cases pre with
        | nil =>
          simp only [List.nil_append, List.cons.injEq] at e
          obtain ⟨rfl, _⟩ := e
          exfalso
          have : findFromE (hit x) 0 (lastOf x + 1) = none :=
            (findFromE_raise_iff _ _ _).mpr ⟨i, Nat.zero_le _, by omega, h2, fun j _ hj => h3 j hj⟩
          rw [hf] at this; cases this
        | cons p pre' =>
          simp only [List.cons_append, List.cons.injEq] at e
          obtain ⟨rfl, rfl⟩ := e
          exact ⟨pre', rfl, rfl⟩
      cases r with
      | some k =>
        obtain ⟨_, hk2, hk3, _⟩ := (findFromE_hit_iff _ _ _ _).mp hf
        simp only [reduceCtorEq, false_iff, not_exists, not_and]
        intro pre b post i e hpre h1 h2 h3
        obtain ⟨pre', rfl, _⟩ := key pre b post i e hpre h1 h2 h3
        have := hpre x (List.mem_cons_self ..) k (by omega); rw [hk3] at this; cases this
      | none =>
        have hn := (findE_zero_end hit lastOf x).mp hf
        simp only
        rw [ih]
        constructor
        · rintro ⟨pre, b, post, i, e, hpre, h⟩
          refine ⟨x :: pre, b, post, i, by rw [e]; rfl, ?_, h⟩
          intro b' hb' j hj
          rcases List.mem_cons.mp hb' with e' | e'
          · subst e'; exact hn j hj
          · exact hpre b' e' j hj
        · rintro ⟨pre, b, post, i, e, hpre, h1, h2, h3⟩
          obtain ⟨pre', rfl, e'⟩ := key pre b post i e hpre h1 h2 h3
          exact ⟨pre', b, post, i, e', fun b' hb' => hpre b' (List.mem_cons_of_mem _ hb'), h1, h2, h3⟩

end Btc.Scan
