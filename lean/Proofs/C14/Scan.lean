import Model.C14.Scan
/-! find-first semantics of the two scans.  Core Lean only. -/
namespace Btc.Scan

theorem findFrom_some_iff (hit : Nat → Bool) (n start i : Nat) :
    findFrom hit start n = some i ↔
      start ≤ i ∧ i < start + n ∧ hit i = true ∧ ∀ j, start ≤ j → j < i → hit j = false := by
  induction n generalizing start with
  | zero => simp [findFrom]; intro h1 h2; omega
  | succ n ih =>
    simp only [findFrom]
    by_cases hs : hit start = true
    · simp only [hs, if_true, Option.some.injEq]
      constructor
      · intro e; subst e
        exact ⟨Nat.le_refl _, by omega, hs, fun j h1 h2 => by omega⟩
      · rintro ⟨h1, _, _, h4⟩
        rcases Nat.lt_or_ge start i with h | h
        · have := h4 start (Nat.le_refl _) h; rw [hs] at this; cases this
        · omega
    · have hs' : hit start = false := by simpa using hs
      simp only [hs', Bool.false_eq_true, if_false]
      rw [ih]
      constructor
      · rintro ⟨h1, h2, h3, h4⟩
        refine ⟨by omega, by omega, h3, fun j hj1 hj2 => ?_⟩
        rcases Nat.eq_or_lt_of_le hj1 with e | l
        · rw [← e]; exact hs'
        · exact h4 j l hj2
      · rintro ⟨h1, h2, h3, h4⟩
        have : start ≠ i := fun e => by rw [e] at hs'; rw [hs'] at h3; cases h3
        exact ⟨by omega, by omega, h3, fun j hj1 hj2 => h4 j (by omega) hj2⟩

theorem findFrom_none_iff (hit : Nat → Bool) (n start : Nat) :
    findFrom hit start n = none ↔ ∀ j, start ≤ j → j < start + n → hit j = false := by
  induction n generalizing start with
  | zero => simp [findFrom]; intro j h1 h2; omega
  | succ n ih =>
    simp only [findFrom]
    by_cases hs : hit start = true
    · simp only [hs, if_true]
      constructor
      · intro h; cases h
      · intro h; have := h start (Nat.le_refl _) (by omega); rw [hs] at this; cases this
    · have hs' : hit start = false := by simpa using hs
      simp only [hs', Bool.false_eq_true, if_false]
      rw [ih]
      constructor
      · intro h j h1 h2
        rcases Nat.eq_or_lt_of_le h1 with e | l
        · rw [← e]; exact hs'
        · exact h j l (by omega)
      · intro h j h1 h2; exact h j (by omega) (by omega)

theorem findFirst_some_iff (hit : Nat → Bool) (last i : Nat) :
    findFirst hit last = some i ↔ i ≤ last ∧ hit i = true ∧ ∀ j, j < i → hit j = false := by
  unfold findFirst
  rw [findFrom_some_iff]
  constructor
  · rintro ⟨_, h2, h3, h4⟩; exact ⟨by omega, h3, fun j hj => h4 j (Nat.zero_le _) hj⟩
  · rintro ⟨h1, h2, h3⟩; exact ⟨Nat.zero_le _, by omega, h2, fun j _ hj => h3 j hj⟩

theorem findFirst_none_iff (hit : Nat → Bool) (last : Nat) :
    findFirst hit last = none ↔ ∀ j, j ≤ last → hit j = false := by
  unfold findFirst
  rw [findFrom_none_iff]
  constructor
  · intro h j hj; exact h j (Nat.zero_le _) (by omega)
  · intro h j _ hj; exact h j (by omega)

variable {β σ : Type} [DecidableEq σ]

theorem positionOf_some_iff (spk : β → Nat → σ) (s : σ) (last : Nat) (bs : List β) (b : β) (i : Nat) :
    positionOf spk s last bs = some (b, i) ↔
      ∃ pre post, bs = pre ++ b :: post ∧ (∀ b' ∈ pre, ∀ j, j ≤ last → spk b' j ≠ s) ∧
        i ≤ last ∧ spk b i = s ∧ ∀ j, j < i → spk b j ≠ s := by
  induction bs with
  | nil => simp [positionOf]
  | cons x xs ih =>
    simp only [positionOf]
    cases hf : findFirst (fun i => decide (spk x i = s)) last with
    | some k =>
      have hk := (findFirst_some_iff _ last k).mp hf
      simp only [decide_eq_true_eq, decide_eq_false_iff_not] at hk
      simp only [Option.some.injEq, Prod.mk.injEq]
      constructor
      · rintro ⟨rfl, rfl⟩
        exact ⟨[], xs, rfl, by simp, hk.1, hk.2.1, hk.2.2⟩
      · rintro ⟨pre, post, e, hpre, h1, h2, h3⟩
        cases pre with
        | nil =>
          simp only [List.nil_append, List.cons.injEq] at e
          obtain ⟨rfl, _⟩ := e
          refine ⟨rfl, ?_⟩
          rcases Nat.lt_trichotomy k i with l | l | l
          · exact absurd hk.2.1 (h3 k l)
          · exact l
          · exact absurd h2 (hk.2.2 i l)
        | cons p pre =>
          simp only [List.cons_append, List.cons.injEq] at e
          obtain ⟨rfl, _⟩ := e
          exact absurd hk.2.1 (hpre x (List.mem_cons_self ..) k hk.1)
    | none =>
      have hn := (findFirst_none_iff _ last).mp hf
      simp only [decide_eq_false_iff_not] at hn
      rw [ih]
      constructor
      · rintro ⟨pre, post, e, hpre, h⟩
        refine ⟨x :: pre, post, by rw [e]; rfl, ?_, h⟩
        intro b' hb' j hj
        rcases List.mem_cons.mp hb' with e' | e'
        · rw [e']; exact hn j hj
        · exact hpre b' e' j hj
      · rintro ⟨pre, post, e, hpre, h1, h2, h3⟩
        cases pre with
        | nil =>
          simp only [List.nil_append, List.cons.injEq] at e
          obtain ⟨rfl, _⟩ := e
          exact absurd h2 (hn i h1)
        | cons p pre =>
          simp only [List.cons_append, List.cons.injEq] at e
          obtain ⟨rfl, rfl⟩ := e
          exact ⟨pre, post, rfl, fun b' hb' => hpre b' (List.mem_cons_of_mem _ hb'), h1, h2, h3⟩

theorem positionOf_none_iff (spk : β → Nat → σ) (s : σ) (last : Nat) (bs : List β) :
    positionOf spk s last bs = none ↔ ∀ b ∈ bs, ∀ j, j ≤ last → spk b j ≠ s := by
  induction bs with
  | nil => simp [positionOf]
  | cons x xs ih =>
    simp only [positionOf]
    cases hf : findFirst (fun i => decide (spk x i = s)) last with
    | some k =>
      have hk := (findFirst_some_iff _ last k).mp hf
      simp only [decide_eq_true_eq] at hk
      constructor
      · intro h; cases h
      · intro h; exact absurd hk.2.1 (h x (List.mem_cons_self ..) k hk.1)
    | none =>
      have hn := (findFirst_none_iff _ last).mp hf
      simp only [decide_eq_false_iff_not] at hn
      simp only [ih]
      constructor
      · intro h b hb j hj
        rcases List.mem_cons.mp hb with e | e
        · rw [e]; exact hn j hj
        · exact h b e j hj
      · intro h b hb j hj; exact h b (List.mem_cons_of_mem _ hb) j hj

end Btc.Scan
