import Proofs.C09.Impl
/-
C09 helper lemmas: which fields of a `PrecomputedTxData` each hash type reads, and the PSBT route
(`_prev_out`, `_assert_input_index`, `ecdsa_sig_hash`, `taproot_sig_hash`, `PsbtView.taproot_sig_hash`).
Core Lean only.
-/
namespace Btc.Sighash.Impl

open Btc Btc.Py Btc.Sighash

/-! ## which cached hashes a hash type reads -/

theorem segHashPrevouts_reads (S : Bytes → Bytes) (tx : Tx) (w : Nat) (p p' : Precomputed)
    (h : anyoneCanPay w = false → p.shaPrevouts = p'.shaPrevouts) :
    segHashPrevouts S tx w (some p) = segHashPrevouts S tx w (some p') := by
  unfold segHashPrevouts
  cases ha : anyoneCanPay w
  · simp [hashOrPre, h ha]
  · simp

theorem segHashSequence_reads (S : Bytes → Bytes) (tx : Tx) (w : Nat) (p p' : Precomputed)
    (h : anyoneCanPay w = false → baseType w ≠ Gen.SigHash.SINGLE → baseType w ≠ Gen.SigHash.NONE →
      p.shaSequences = p'.shaSequences) :
    segHashSequence S tx w (some p) = segHashSequence S tx w (some p') := by
  unfold segHashSequence
  split
  · next hc =>
    have ha : anyoneCanPay w = false := by simpa using hc.1
    simp [hashOrPre, h ha hc.2.1 hc.2.2]
  · rfl

theorem segHashOutputs_reads (S : Bytes → Bytes) (tx : Tx) (i w : Nat) (p p' : Precomputed)
    (h : baseType w ≠ Gen.SigHash.SINGLE → baseType w ≠ Gen.SigHash.NONE → p.shaOutputs = p'.shaOutputs) :
    segHashOutputs S tx i w (some p) = segHashOutputs S tx i w (some p') := by
  unfold segHashOutputs
  split
  · next hc => simp [hashOrPre, h hc.1 hc.2]
  · rfl

theorem segwitV0_cache_reads (S : Bytes → Bytes) (sc : Bytes) (tx : Tx) (i ht amount : Int) (p p' : Precomputed)
    (h1 : anyoneCanPay (word ht) = false → p.shaPrevouts = p'.shaPrevouts)
    (h2 : anyoneCanPay (word ht) = false → baseType (word ht) ≠ Gen.SigHash.SINGLE →
      baseType (word ht) ≠ Gen.SigHash.NONE → p.shaSequences = p'.shaSequences)
    (h3 : baseType (word ht) ≠ Gen.SigHash.SINGLE → baseType (word ht) ≠ Gen.SigHash.NONE →
      p.shaOutputs = p'.shaOutputs) :
    segwitV0 S sc tx i ht amount (some p) = segwitV0 S sc tx i ht amount (some p') := by
  unfold segwitV0
  simp only [segHashPrevouts_reads S tx (word ht) p p' h1, segHashSequence_reads S tx (word ht) p p' h2]
  congr 1; funext _; congr 1; funext n
  rw [segHashOutputs_reads S tx n (word ht) p p' h3]

theorem tapMid_reads (S : Bytes → Bytes) (tx : Tx) (prevouts : List TxOut) (w : Nat) (p p' : Precomputed)
    (h1 : tapAcp w = false → p.shaPrevouts = p'.shaPrevouts ∧ p.shaAmounts = p'.shaAmounts ∧
      p.shaScriptPubKeys = p'.shaScriptPubKeys ∧ p.shaSequences = p'.shaSequences)
    (h2 : tapNone w = false → tapSingle w = false → p.shaOutputs = p'.shaOutputs) :
    tapMid S tx prevouts w (some p) = tapMid S tx prevouts w (some p') := by
  unfold tapMid
  cases ha : tapAcp w <;> cases hn : tapNone w <;> cases hs : tapSingle w <;>
    simp_all [pure, Except.pure, bind, Except.bind]

theorem taproot_cache_reads (S : Bytes → Bytes) (tx : Tx) (i : Int) (prevouts : List TxOut) (ht extFlag : Int)
    (annex msgExt : Bytes) (p p' : Precomputed)
    (h1 : tapAcp ht.toNat = false → p.shaPrevouts = p'.shaPrevouts ∧ p.shaAmounts = p'.shaAmounts ∧
      p.shaScriptPubKeys = p'.shaScriptPubKeys ∧ p.shaSequences = p'.shaSequences)
    (h2 : tapNone ht.toNat = false → tapSingle ht.toNat = false → p.shaOutputs = p'.shaOutputs) :
    taproot S tx i prevouts ht extFlag annex msgExt (some p) =
      taproot S tx i prevouts ht extFlag annex msgExt (some p') := by
  unfold taproot taprootChecked
  simp only [tapMid_reads S tx prevouts ht.toNat p p' h1 h2]

/-- a hash type whose message holds no transaction-wide hash at all reads no cache: any object handed over
    (even one of another transaction) changes nothing -/
theorem taproot_acp_none_single_ignores_cache (S : Bytes → Bytes) (tx : Tx) (i : Int) (prevouts : List TxOut)
    (ht extFlag : Int) (annex msgExt : Bytes) (p : Precomputed)
    (ha : tapAcp ht.toNat = true) (hb : tapNone ht.toNat = true ∨ tapSingle ht.toNat = true) :
    taproot S tx i prevouts ht extFlag annex msgExt (some p) =
      taproot S tx i prevouts ht extFlag annex msgExt none := by
  unfold taproot taprootChecked tapMid
  rcases hb with hb | hb <;> simp [ha, hb]

/-! ## the PSBT route -/

theorem assertInputIndex_ok {n : Nat} {i : Int} {k : Nat} (h : assertInputIndex n i = .ok k) :
    0 ≤ i ∧ i < n ∧ k = i.toNat := by
  unfold assertInputIndex at h
  split at h
  · next hc => cases h; exact ⟨hc.1, hc.2, rfl⟩
  · cases h

theorem assertInputIndex_bad {n : Nat} {i : Int} (h : i < 0 ∨ (n : Int) ≤ i) :
    assertInputIndex n i = .error .value := by
  unfold assertInputIndex
  rw [if_neg (by omega)]
  rfl

/-- the hash type `_ecdsa_sig_hash` settles on -/
def ecdsaType (p : PsbtIn) (ht : Option Int) : Int :=
  match ht with
  | some h => h
  | none => match p.sigHashType with | some h => h | none => (Gen.SigHash.ALL : Int)

/-- the script `_sig_hash_from_psbt_in` dispatches on -/
def spentScript (p : PsbtIn) (po : TxOut) : Bytes := if isP2sh po.spk then p.redeemScript else po.spk

/-- `_ecdsa_sig_hash`, opened: an answer is the DIRECT digest over the script code the fields name and the amount
    of the output the utxo lookup found, under one of the six ECDSA types -/
theorem ecdsaSigHash_ok {S : Bytes → Bytes} {p : PsbtIn} {tx : Tx} {i : Int} {ht : Option Int} {d : Bytes}
    (h : ecdsaSigHash S p tx i ht = .ok d) :
    ∃ po, p.prevOut = some po ∧
      intMem (ecdsaType p ht) Gen.SigHash.SIG_HASH_TYPES = true ∧ ecdsaType p ht ≠ (Gen.SigHash.DEFAULT : Int) ∧
      isP2tr (spentScript p po) = false ∧
      (if isP2wpkh (spentScript p po) then
          segwitV0 S (p2pkhScript ((spentScript p po).drop 2)) tx i (ecdsaType p ht) po.value none
        else if isP2wsh (spentScript p po) then
          (if p.witnessScript.isEmpty then .error .value
            else segwitV0 S p.witnessScript tx i (ecdsaType p ht) po.value none)
        else if (spentScript p po).isEmpty then .error .value
        else if !p.hasNonWitnessUtxo then .error .value
        else legacy S (spentScript p po) tx i (ecdsaType p ht)) = .ok d := by
  unfold ecdsaSigHash at h
  change (do
    if !intMem (ecdsaType p ht) Gen.SigHash.SIG_HASH_TYPES then throw PyErr.value
    if ecdsaType p ht = (Gen.SigHash.DEFAULT : Int) then throw PyErr.value
    let spent := match p.prevOut with
      | none => []
      | some po => if isP2sh po.spk then p.redeemScript else po.spk
    if isP2tr spent then throw PyErr.value
    match ← sigHashFromPsbtIn S p tx i (ecdsaType p ht) with
    | none => throw PyErr.value
    | some d => pure d : R Bytes) = .ok d at h
  cases hm : intMem (ecdsaType p ht) Gen.SigHash.SIG_HASH_TYPES
  · simp [hm, bind, Except.bind, throw, throwThe, MonadExceptOf.throw] at h
  by_cases hd : ecdsaType p ht = (Gen.SigHash.DEFAULT : Int)
  · simp [hd, bind, Except.bind, throw, throwThe, MonadExceptOf.throw] at h
  cases hpo : p.prevOut with
  | none =>
    simp [hm, hd, hpo, sigHashFromPsbtIn, bind, Except.bind, throw, throwThe, MonadExceptOf.throw, pure,
      Except.pure, isP2tr] at h
  | some po =>
    refine ⟨po, rfl, rfl, hd, ?_⟩
    simp only [hm, hd, hpo, sigHashFromPsbtIn, bind, Except.bind, throw, throwThe, MonadExceptOf.throw, pure,
      Except.pure, Bool.not_true, Bool.false_eq_true, ↓reduceIte] at h
    change _ at h
    have hs : (if isP2sh po.spk then p.redeemScript else po.spk) = spentScript p po := rfl
    rw [hs] at h
    cases ht' : isP2tr (spentScript p po)
    · refine ⟨rfl, ?_⟩
      simp only [ht', Bool.false_eq_true, ↓reduceIte] at h
      by_cases h1 : isP2wpkh (spentScript p po) = true
      · simp only [h1, true_or, ↓reduceIte] at h ⊢
        have hne : (p2pkhScript ((spentScript p po).drop 2)).isEmpty = false := by
          simp [p2pkhScript]
        simp only [hne, Bool.false_eq_true, ↓reduceIte] at h
        cases hx : segwitV0 S (p2pkhScript ((spentScript p po).drop 2)) tx i (ecdsaType p ht) po.value none with
        | error e => simp [hx] at h
        | ok v => simp [hx] at h; rw [h]
      · simp only [h1, false_or, Bool.false_eq_true, ↓reduceIte] at h ⊢
        by_cases h2 : isP2wsh (spentScript p po) = true
        · simp only [h2, ↓reduceIte] at h ⊢
          cases he : p.witnessScript.isEmpty
          · simp only [he, Bool.false_eq_true, ↓reduceIte] at h ⊢
            cases hx : segwitV0 S p.witnessScript tx i (ecdsaType p ht) po.value none with
            | error e => simp [hx] at h
            | ok v => simp [hx] at h; rw [h]
          · simp [he] at h
        · simp only [h2, Bool.false_eq_true, ↓reduceIte] at h ⊢
          cases he : (spentScript p po).isEmpty
          · simp only [he, Bool.false_eq_true, false_or, ↓reduceIte] at h ⊢
            cases hn : p.hasNonWitnessUtxo
            · simp [hn] at h
            · simp only [hn, Bool.not_true, Bool.false_eq_true, ↓reduceIte] at h ⊢
              cases hx : legacy S (spentScript p po) tx i (ecdsaType p ht) with
              | error e => simp [hx] at h
              | ok v => simp [hx] at h; rw [h]
          · simp [he] at h
    · simp [ht'] at h

theorem spentOutputs_ok {inputs : List PsbtInput} {spent : List TxOut} (h : spentOutputs inputs = .ok spent) :
    inputs.map prevOutOf = spent.map some := by
  induction inputs generalizing spent with
  | nil => cases h; rfl
  | cons p ps ih =>
    unfold spentOutputs at h
    cases hp : prevOutOf p with
    | none => simp [hp] at h
    | some o =>
      simp only [hp] at h
      obtain ⟨r, hr, h⟩ := bind_ok h
      cases h
      simp [hp, ih hr]

theorem spentOutputs_missing {inputs : List PsbtInput} (h : ∃ p ∈ inputs, prevOutOf p = none) :
    spentOutputs inputs = .error .value := by
  induction inputs with
  | nil => simp at h
  | cons p ps ih =>
    unfold spentOutputs
    cases hp : prevOutOf p with
    | none => rfl
    | some o =>
      obtain ⟨q, hq, hn⟩ := h
      rcases List.mem_cons.mp hq with rfl | hq
      · rw [hp] at hn; cases hn
      · simp [ih ⟨q, hq, hn⟩, bind, Except.bind]

end Btc.Sighash.Impl
