import Proofs.C09.Wire
import Proofs.C09.CodeSep
/-
C09 helper lemmas: what the legacy preimage commits to.  Core Lean only.
-/
namespace Btc.Sighash

open Btc

theorem blankOut_wf : blankOut.WF := ⟨by simp only [I64, blankOut]; omega, by simp [Sized, blankOut]⟩

theorem getD_wf_out {l : List TxOut} (h : ∀ o ∈ l, o.WF) (j : Nat) : (l.getD j blankOut).WF := by
  rw [List.getD_eq_getElem?_getD]
  cases hj : l[j]? with
  | none => simpa using blankOut_wf
  | some o => simpa using h o (List.mem_of_getElem? hj)

/-- the virtual transaction of the legacy serializer is well formed when the real one is -/
theorem legacyTx_wf {sc : Bytes} {tx : Tx} {nIn ht : Nat} (wf : tx.WF) (hsc : Sized sc)
    (hin : nIn < tx.vin.length) (hno : nIn < 18446744073709551615) : (legacyTx sc tx nIn ht).WF := by
  refine ⟨wf.version, wf.lockTime, ?_, ?_, ?_, ?_⟩
  · intro i hi
    simp only [legacyTx, List.mem_map, List.mem_range] at hi
    obtain ⟨j, hj, rfl⟩ := hi
    have hidx : legacyIdx nIn ht j < tx.vin.length := by
      unfold legacyNIn at hj; unfold legacyIdx; split <;> simp_all
    have hw : (tx.vin.getD (legacyIdx nIn ht j) dfltIn).WF := by
      rw [List.getD_eq_getElem?_getD, List.getElem?_eq_getElem hidx]
      exact wf.vin _ (List.getElem_mem hidx)
    refine ⟨hw.prev, ?_, ?_⟩
    · show Sized (if legacyIdx nIn ht j ≠ nIn then [] else withoutCodeSeparators sc)
      split
      · simp [Sized]
      · have := withoutCodeSeparators_length_le sc
        unfold Sized at hsc ⊢; omega
    · show U32 (if legacyIdx nIn ht j ≠ nIn ∧ (isSingle ht ∨ isNone ht) then 0
        else (tx.vin.getD (legacyIdx nIn ht j) dfltIn).sequence)
      split
      · unfold U32; omega
      · exact hw.sequence
  · intro o ho
    simp only [legacyTx, List.mem_map, List.mem_range] at ho
    obtain ⟨j, _, rfl⟩ := ho
    unfold legacyOut
    split
    · exact blankOut_wf
    · exact getD_wf_out wf.vout j
  · simp only [legacyTx, List.length_map, List.length_range, legacyNIn]
    split
    · omega
    · exact wf.nin
  · simp only [legacyTx, List.length_map, List.length_range, legacyNOut]
    split
    · omega
    · split
      · omega
      · exact wf.nout

/-- equal legacy preimages: the serializer wrote the same virtual transaction and the same type -/
theorem legacyPreimage_inj {sc sc' : Bytes} {tx tx' : Tx} {nIn nIn' ht ht' : Nat}
    (wf : (legacyTx sc tx nIn ht).WF) (wf' : (legacyTx sc' tx' nIn' ht').WF)
    (hht : ht < 4294967296) (hht' : ht' < 4294967296)
    (h : legacyPreimage sc tx nIn ht = legacyPreimage sc' tx' nIn' ht') :
    legacyTx sc tx nIn ht = legacyTx sc' tx' nIn' ht' ∧ ht = ht' := by
  unfold legacyPreimage at h
  obtain ⟨h1, h2⟩ := serTx_prefixInj _ _ _ _ wf wf' h
  have := le4_inj (a := (ht : Int)) (b := (ht' : Int)) (by unfold U32; omega) (by unfold U32; omega) h2
  exact ⟨h1, by omega⟩

theorem map_range_inj {f g : Nat → α} {n m : Nat} (h : (List.range n).map f = (List.range m).map g) :
    n = m ∧ ∀ j, j < n → f j = g j := by
  have hl : n = m := by simpa using congrArg List.length h
  subst hl
  refine ⟨rfl, fun j hj => ?_⟩
  have := congrArg (fun l => l[j]?) h
  simpa [hj] using this

/-- two lists whose items agree under `f` at every position -/
theorem map_eq_of_getD {l l' : List α} {f : α → β} (d : α) (hl : l.length = l'.length)
    (h : ∀ j, j < l.length → f (l.getD j d) = f (l'.getD j d)) : l.map f = l'.map f := by
  apply List.ext_getElem (by simpa using hl)
  intro j h1 h2
  simp only [List.length_map] at h1 h2
  have := h j h1
  simp only [List.getD_eq_getElem?_getD, List.getElem?_eq_getElem h1, List.getElem?_eq_getElem h2,
    Option.getD_some] at this
  simpa using this

section
variable {sc sc' : Bytes} {tx tx' : Tx} {nIn ht : Nat}
variable (h : legacyTx sc tx nIn ht = legacyTx sc' tx' nIn ht)
include h

theorem legacyTx_version : tx.version = tx'.version ∧ tx.lockTime = tx'.lockTime := by
  have h1 := congrArg Tx.version h
  have h2 := congrArg Tx.lockTime h
  exact ⟨h1, h2⟩

theorem legacyTx_vin : legacyNIn tx ht = legacyNIn tx' ht ∧
    ∀ j, j < legacyNIn tx ht → legacyIn sc tx nIn ht j = legacyIn sc' tx' nIn ht j :=
  map_range_inj (congrArg Tx.vin h)

theorem legacyTx_vout : legacyNOut tx nIn ht = legacyNOut tx' nIn ht ∧
    ∀ j, j < legacyNOut tx nIn ht → legacyOut tx nIn ht j = legacyOut tx' nIn ht j :=
  map_range_inj (congrArg Tx.vout h)

/-- the signed input: outpoint, sequence, and the script code less its OP_CODESEPARATORs -/
theorem legacyTx_own (hin : nIn < tx.vin.length) :
    (tx.vin.getD nIn dfltIn).prev = (tx'.vin.getD nIn dfltIn).prev ∧
    (tx.vin.getD nIn dfltIn).sequence = (tx'.vin.getD nIn dfltIn).sequence ∧
    withoutCodeSeparators sc = withoutCodeSeparators sc' := by
  obtain ⟨_, hj⟩ := legacyTx_vin h
  by_cases hacp : anyoneCanPay ht
  · have := hj 0 (by simp [legacyNIn, hacp])
    simp only [legacyIn, legacyIdx, hacp, ↓reduceIte, ne_eq, not_true_eq_false, false_and, TxIn.mk.injEq] at this
    exact ⟨this.1, this.2.2, this.2.1⟩
  · have := hj nIn (by simp [legacyNIn, hacp]; exact hin)
    simp only [legacyIn, legacyIdx, hacp, Bool.false_eq_true, ↓reduceIte, ne_eq, not_true_eq_false, false_and,
      TxIn.mk.injEq] at this
    exact ⟨this.1, this.2.2, this.2.1⟩

/-- without ANYONECANPAY: the number of inputs and every outpoint -/
theorem legacyTx_prevouts (hacp : anyoneCanPay ht = false) :
    tx.vin.length = tx'.vin.length ∧ tx.vin.map (·.prev) = tx'.vin.map (·.prev) := by
  obtain ⟨hn, hj⟩ := legacyTx_vin h
  simp only [legacyNIn, hacp, Bool.false_eq_true, ↓reduceIte] at hn hj
  refine ⟨hn, map_eq_of_getD dfltIn hn (fun j hlt => ?_)⟩
  have := congrArg TxIn.prev (hj j hlt)
  simpa [legacyIn, legacyIdx, hacp] using this

/-- with neither ANYONECANPAY nor NONE nor SINGLE: every sequence -/
theorem legacyTx_sequences (hacp : anyoneCanPay ht = false) (hs : isSingle ht = false) (hn : isNone ht = false) :
    tx.vin.map (·.sequence) = tx'.vin.map (·.sequence) := by
  obtain ⟨hn', hj⟩ := legacyTx_vin h
  simp only [legacyNIn, hacp, Bool.false_eq_true, ↓reduceIte] at hn' hj
  refine map_eq_of_getD dfltIn hn' (fun j hlt => ?_)
  have := congrArg TxIn.sequence (hj j hlt)
  simpa [legacyIn, legacyIdx, hacp, hs, hn] using this

/-- with neither NONE nor SINGLE: every output -/
theorem legacyTx_outputs (hs : isSingle ht = false) (hn : isNone ht = false) : tx.vout = tx'.vout := by
  obtain ⟨hn', hj⟩ := legacyTx_vout h
  simp only [legacyNOut, hs, hn, Bool.false_eq_true, ↓reduceIte] at hn' hj
  have := map_eq_of_getD (f := id) blankOut hn' (fun j hlt => by
    have := hj j hlt
    simpa [legacyOut, hs] using this)
  simpa using this

/-- SINGLE: the output at the position of the input -/
theorem legacyTx_single (hs : isSingle ht = true) :
    tx.vout.getD nIn blankOut = tx'.vout.getD nIn blankOut := by
  obtain ⟨_, hj⟩ := legacyTx_vout h
  have hn : isNone ht = false := by
    unfold isSingle at hs; unfold isNone
    simp only [beq_iff_eq] at hs
    simp [hs, Gen.SigHash.SINGLE, Gen.SigHash.NONE]
  have := hj nIn (by simp [legacyNOut, hs, hn])
  simpa [legacyOut, hs] using this

end

end Btc.Sighash
