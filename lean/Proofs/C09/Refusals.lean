import Proofs.C09.Spec
import Proofs.C09.Psbt
/-
C09 helper lemmas: the refusal table in the REFUSING direction (a declared error ⇒ `err value`), the converse
of the `…_ok_…` lemmas of `Proofs/C09/Impl.lean`.  Core Lean only.
-/
namespace Btc.Sighash.Impl

open Btc Btc.Py Btc.Sighash

theorem serialized_hash_type_total {ht : Int} (h : -2147483648 ≤ ht ∧ ht < 4294967296) :
    Gen.SigHash.serialized_hash_type ht = .ok (le4 (word ht)) := by
  unfold Gen.SigHash.serialized_hash_type
  rw [if_neg (by omega), land_mask32 h]
  have hw : word ht < 4294967296 := by simp only [word]; omega
  simp only [Py.toBytesLE]
  rw [if_neg (by omega), if_neg (by simp; omega)]
  simp [le4]

theorem serialized_hash_type_wide {ht : Int} (h : ht < -2147483648 ∨ 4294967296 ≤ ht) :
    Gen.SigHash.serialized_hash_type ht = .error .value := by
  unfold Gen.SigHash.serialized_hash_type
  rw [if_pos (by omega)]
  rfl

theorem forAll_camount_err {l : List TxOut} {e : PyErr}
    (h : forAll (fun o => assertCAmount o.value) l = .error e) : e = .value := by
  induction l with
  | nil => cases h
  | cons x xs ih =>
    unfold forAll at h
    cases hx : assertCAmount x.value with
    | error e' =>
      simp only [hx, bind, Except.bind] at h
      cases h
      unfold assertCAmount at hx
      split at hx
      · cases hx
      · cases hx; rfl
    | ok u =>
      simp only [hx, bind, Except.bind] at h
      exact ih h

theorem assertVin_bad {tx : Tx} {i : Int} (h : i < 0 ∨ (tx.vin.length : Int) ≤ i) :
    assertVin tx i = .error .value := by
  unfold assertVin
  rw [if_neg (by omega)]
  rfl

/-- BIP341's table, refusing direction -/
theorem taproot_refuses {S : Bytes → Bytes} {tx : Tx} {i : Int} {prevouts : List TxOut} {ht extFlag : Int}
    {annex msgExt : Bytes} {pre : Option Precomputed}
    (h : i < 0 ∨ (tx.vin.length : Int) ≤ i ∨ prevouts.length ≠ tx.vin.length ∨
      intMem ht Gen.SigHash.SIG_HASH_TYPES = false ∨ (tapSingle ht.toNat = true ∧ i.toNat ≥ tx.vout.length)) :
    taproot S tx i prevouts ht extFlag annex msgExt pre = .error .value := by
  unfold taproot
  cases hf : forAll (fun o => assertCAmount o.value) prevouts with
  | error e => rw [forAll_camount_err hf]; rfl
  | ok u =>
    simp only [bind, Except.bind]
    by_cases hi : i < 0 ∨ (tx.vin.length : Int) ≤ i
    · rw [assertVin_bad hi]
    · have hv : assertVin tx i = .ok i.toNat := by
        unfold assertVin
        rw [if_pos (by omega)]
        rfl
      rw [hv]
      simp only
      by_cases hl : prevouts.length ≠ tx.vin.length
      · rw [if_pos hl]; rfl
      · rw [if_neg hl]
        cases hm : intMem ht Gen.SigHash.SIG_HASH_TYPES
        · simp only [Bool.not_false, ↓reduceIte]; rfl
        · simp only [Bool.not_true, Bool.false_eq_true, ↓reduceIte]
          have hs : tapSingle ht.toNat = true ∧ i.toNat ≥ tx.vout.length := by
            rcases h with h | h | h | h | h
            · omega
            · omega
            · exact absurd h hl
            · rw [hm] at h; cases h
            · exact h
          rw [if_pos hs]; rfl

theorem legacy_refuses {S : Bytes → Bytes} {sc : Bytes} {tx : Tx} {i ht : Int}
    (h : ht < -2147483648 ∨ 4294967296 ≤ ht ∨ i < 0 ∨ (tx.vin.length : Int) ≤ i) :
    legacy S sc tx i ht = .error .value := by
  unfold legacy
  by_cases hw : ht < -2147483648 ∨ 4294967296 ≤ ht
  · rw [serialized_hash_type_wide hw]; rfl
  · rw [serialized_hash_type_total (by omega)]
    simp only [bind, Except.bind]
    rw [assertVin_bad (by omega)]

theorem assertCAmount_bad {x : Int} (h : x < -9223372036854775808 ∨ 9223372036854775808 ≤ x) :
    assertCAmount x = .error .value := by
  unfold assertCAmount
  rw [if_neg (by simp only [Gen.SigHash.CAMOUNT_LO, Gen.SigHash.CAMOUNT_HI]; omega)]
  rfl

theorem assertCAmount_good {x : Int} (h : ¬ (x < -9223372036854775808 ∨ 9223372036854775808 ≤ x)) :
    assertCAmount x = .ok () := by
  unfold assertCAmount
  rw [if_pos (by simp only [Gen.SigHash.CAMOUNT_LO, Gen.SigHash.CAMOUNT_HI]; omega)]
  rfl

theorem segwitV0_refuses {S : Bytes → Bytes} {sc : Bytes} {tx : Tx} {i ht amount : Int} {pre : Option Precomputed}
    (h : amount < -9223372036854775808 ∨ 9223372036854775808 ≤ amount ∨ i < 0 ∨ (tx.vin.length : Int) ≤ i) :
    segwitV0 S sc tx i ht amount pre = .error .value := by
  unfold segwitV0
  by_cases ha : amount < -9223372036854775808 ∨ 9223372036854775808 ≤ amount
  · rw [assertCAmount_bad ha]; rfl
  · rw [assertCAmount_good ha]
    simp only [bind, Except.bind]
    rw [assertVin_bad (by omega)]

/-- `from_tx`: an index naming no input, or not one spent output per input -/
theorem fromTx_refuses {S H160 : Bytes → Bytes} {prevouts : List TxOut} {tx : Tx} {wits : List (List Bytes)}
    {i ht : Int} {pre : Option Precomputed} {codesep : Int}
    (h : i < 0 ∨ (tx.vin.length : Int) ≤ i ∨ prevouts.length ≠ tx.vin.length) :
    fromTx S H160 prevouts tx wits i ht pre codesep = .error .value := by
  unfold fromTx
  cases hf : forAll (fun o => assertCAmount o.value) prevouts with
  | error e => rw [forAll_camount_err hf]; rfl
  | ok u =>
    simp only [bind, Except.bind]
    by_cases hi : i < 0 ∨ (tx.vin.length : Int) ≤ i
    · rw [assertVin_bad hi]
    · have hv : assertVin tx i = .ok i.toNat := by
        unfold assertVin
        rw [if_pos (by omega)]
        rfl
      rw [hv]
      have hl : prevouts.length ≠ tx.vin.length := by omega
      simp only [hl, ne_eq, not_false_eq_true, ↓reduceIte]
      rfl

/-- BIP341's annex rule as `taproot_annex_and_ext` applies it: what is handed on as the annex is empty or begins
    with the tag 0x50 -- an element without the tag is never an annex -- and an empty stack is refused -/
theorem annexAndExt_annex_tagged {S : Bytes → Bytes} {stack : List Bytes} {a e : Bytes}
    (h : annexAndExt S stack = .ok (a, e)) :
    stack ≠ [] ∧ (a = [] ∨ (a.head? = some (UInt8.ofNat Gen.SigHash.ANNEX_TAG) ∧ stack.getLast? = some a ∧
      stack.length ≥ 2)) := by
  unfold annexAndExt at h
  cases stack with
  | nil => simp [bind, Except.bind, throw, throwThe, MonadExceptOf.throw] at h
  | cons x xs =>
    refine ⟨by simp, ?_⟩
    simp only [List.isEmpty_cons, Bool.false_eq_true, ↓reduceIte, pure, Except.pure] at h
    by_cases hc : (x :: xs).length ≥ 2 ∧
        ((x :: xs).getLast?.getD []).head? = some (UInt8.ofNat Gen.SigHash.ANNEX_TAG)
    · right
      have hl : (x :: xs).getLast? = some ((x :: xs).getLast?.getD []) := by
        cases hg : (x :: xs).getLast? with
        | none => simp at hg
        | some v => rfl
      have ha : a = (x :: xs).getLast?.getD [] := by
        simp only [hc, and_self, ↓reduceIte] at h
        split at h
        · split at h
          · cases h
          · cases h; rfl
        · cases h; rfl
      rw [ha]
      exact ⟨hc.2, hl, hc.1⟩
    · left
      simp only [hc, ↓reduceIte] at h
      split at h
      · split at h
        · cases h
        · cases h; rfl
      · cases h; rfl

end Btc.Sighash.Impl
