import Model.C09.Impl
/-
C09 helper lemmas: btclib's offset-walking `find_and_delete` is Core's `FindAndDelete`, for all scripts and
targets.  Core Lean only.
-/
namespace Btc.Sighash.Impl

open Btc Btc.Py Btc.Sighash

theorem fadIdx_eq (s t : Bytes) (fuel : Nat) : ∀ (pc2 pc : Nat) (kept : Bytes) (found : Nat), pc2 ≤ pc →
    fadIdx s t fuel pc2 pc kept found =
      (kept ++ ((s.drop pc2).take (pc - pc2) ++ (fadAux t s.length fuel (s.drop pc)).1),
        found + (fadAux t s.length fuel (s.drop pc)).2) := by
  induction fuel with
  | zero =>
    intro pc2 pc kept found h
    simp only [fadIdx, fadAux, Nat.add_zero]
    have : s.drop pc = (s.drop pc2).drop (pc - pc2) := by
      rw [List.drop_drop]; congr 1; omega
    rw [this, List.take_append_drop]
  | succ fuel ih =>
    intro pc2 pc kept found h
    unfold fadIdx fadAux
    simp only [List.drop_drop]
    cases hr : readOp (List.drop (pc + matchCount t s.length (List.drop pc s) * t.length) s) with
    | none => simp [List.append_assoc]
    | some v =>
      obtain ⟨op, n⟩ := v
      simp only
      rw [ih _ _ _ _ (by omega)]
      have e : pc + matchCount t s.length (List.drop pc s) * t.length + n -
          (pc + matchCount t s.length (List.drop pc s) * t.length) = n := by omega
      rw [e]
      simp only [List.append_assoc, Nat.add_assoc]

/-- btclib's `find_and_delete` IS Core's `FindAndDelete`: same result, same count, every script and target -/
theorem findAndDeleteImpl_eq (s t : Bytes) : findAndDeleteImpl s t = findAndDelete s t := by
  unfold findAndDeleteImpl findAndDelete
  split
  · rfl
  · rw [fadIdx_eq s t (s.length + 1) 0 0 [] 0 (Nat.le_refl 0)]
    simp

/-- `calculate_script_code` for a pre-segwit check: whenever it answers, the script code is Core's -- the script
    from the offset on with every signature's push removed by `FindAndDelete`, in order -- and under
    CONST_SCRIPTCODE it answers only if nothing was found -/
theorem calculateScriptCode_ok {script : Bytes} {offset : Nat} {sigs : List Bytes} {cs : Bool} {sc : Bytes}
    (h : calculateScriptCode script offset sigs cs false = .ok sc) :
    sc = legacyScriptCode script offset sigs := by
  unfold calculateScriptCode at h
  simp only [Bool.false_eq_true, ↓reduceIte] at h
  unfold legacyScriptCode
  generalize script.drop offset = acc at h ⊢
  induction sigs generalizing acc with
  | nil => simp only [List.foldlM, pure, Except.pure] at h; cases h; rfl
  | cons x xs ih =>
    simp only [List.foldlM, bind, Except.bind] at h
    split at h
    · cases h
    · next v hv =>
      split at hv
      · cases hv
      · simp only [pure, Except.pure] at hv
        cases hv
        rw [findAndDeleteImpl_eq] at h
        exact ih _ h

/-- without CONST_SCRIPTCODE it always answers -/
theorem calculateScriptCode_lax (script : Bytes) (offset : Nat) (sigs : List Bytes) :
    calculateScriptCode script offset sigs false false = .ok (legacyScriptCode script offset sigs) := by
  unfold calculateScriptCode legacyScriptCode
  simp only [Bool.false_eq_true, ↓reduceIte, and_false]
  generalize script.drop offset = acc
  induction sigs generalizing acc with
  | nil => rfl
  | cons x xs ih =>
    simp only [List.foldlM, List.foldl, bind, Except.bind, pure, Except.pure]
    rw [findAndDeleteImpl_eq]
    exact ih _

end Btc.Sighash.Impl
