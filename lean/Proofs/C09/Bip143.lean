import Proofs.C09.Wire
/-
C09 helper lemmas: what the BIP143 preimage commits to, directly and through its three inner
hashes (where the alternative is an explicit collision).  Core Lean only.
-/
namespace Btc.Sighash

open Btc

/-- two distinct inputs with the same hash -/
def Collides (H : Bytes → Bytes) (a b : Bytes) : Prop := a ≠ b ∧ H a = H b

theorem open_hash {H : Bytes → Bytes} {a b : Bytes} (h : H a = H b) : a = b ∨ Collides H a b := by
  by_cases e : a = b
  · exact Or.inl e
  · exact Or.inr ⟨e, h⟩

/-- self-delimiting non-empty items, one after the other with no count: still read back one way -/
theorem flatMap_inj_of_prefixInj {P : α → Prop} {ser : α → Bytes} (hs : PrefixInj P ser)
    (hne : ∀ a, P a → ser a ≠ []) :
    ∀ (l l' : List α), (∀ x ∈ l, P x) → (∀ x ∈ l', P x) → l.flatMap ser = l'.flatMap ser → l = l'
  | [], [], _, _, _ => rfl
  | [], y :: ys, _, hP', h => by
    simp only [List.flatMap_nil, List.flatMap_cons] at h
    have := (List.append_eq_nil_iff.mp h.symm).1
    exact absurd this (hne y (hP' y (by simp)))
  | x :: xs, [], hP, _, h => by
    simp only [List.flatMap_nil, List.flatMap_cons] at h
    have := (List.append_eq_nil_iff.mp h).1
    exact absurd this (hne x (hP x (by simp)))
  | x :: xs, y :: ys, hP, hP', h => by
    simp only [List.flatMap_cons] at h
    obtain ⟨h1, h2⟩ := hs x y _ _ (hP x (by simp)) (hP' y (by simp)) h
    have := flatMap_inj_of_prefixInj hs hne xs ys (fun z hz => hP z (by simp [hz]))
      (fun z hz => hP' z (by simp [hz])) h2
    rw [h1, this]

theorem ne_nil_of_length_pos {b : Bytes} (h : 0 < b.length) : b ≠ [] := by
  intro e; simp [e] at h

theorem serOutPoint_ne_nil (o : OutPoint) (_ : o.WF) : serOutPoint o ≠ [] :=
  ne_nil_of_length_pos (by simp [serOutPoint])
theorem le4_ne_nil (x : Int) (_ : U32 x) : le4 x ≠ [] := ne_nil_of_length_pos (by simp)
theorem le8s_ne_nil (x : Int) (_ : I64 x) : le8s x ≠ [] := ne_nil_of_length_pos (by simp)
theorem serTxOut_ne_nil (o : TxOut) (_ : o.WF) : serTxOut o ≠ [] :=
  ne_nil_of_length_pos (by simp [serTxOut]; omega)
theorem varBytes_ne_nil (b : Bytes) (_ : Sized b) : varBytes b ≠ [] := by
  unfold varBytes
  intro h
  exact compactSize_ne_nil _ (List.append_eq_nil_iff.mp h).1

theorem serPrevouts_eq (tx : Tx) : serPrevouts tx = (tx.vin.map (·.prev)).flatMap serOutPoint := by
  simp [serPrevouts, List.flatMap_map]
theorem serSequences_eq (tx : Tx) : serSequences tx = (tx.vin.map (·.sequence)).flatMap le4 := by
  simp [serSequences, List.flatMap_map]
theorem serAmounts_eq (l : List TxOut) : serAmounts l = (l.map (·.value)).flatMap le8s := by
  simp [serAmounts, List.flatMap_map]
theorem serScriptPubKeys_eq (l : List TxOut) : serScriptPubKeys l = (l.map (·.spk)).flatMap varBytes := by
  simp [serScriptPubKeys, List.flatMap_map]

theorem serPrevouts_inj {tx tx' : Tx} (wf : ∀ i ∈ tx.vin, i.WF) (wf' : ∀ i ∈ tx'.vin, i.WF)
    (h : serPrevouts tx = serPrevouts tx') : tx.vin.map (·.prev) = tx'.vin.map (·.prev) := by
  rw [serPrevouts_eq, serPrevouts_eq] at h
  refine flatMap_inj_of_prefixInj serOutPoint_prefixInj serOutPoint_ne_nil _ _ ?_ ?_ h
  · intro x hx; obtain ⟨i, hi, rfl⟩ := List.mem_map.mp hx; exact (wf i hi).prev
  · intro x hx; obtain ⟨i, hi, rfl⟩ := List.mem_map.mp hx; exact (wf' i hi).prev

theorem serSequences_inj {tx tx' : Tx} (wf : ∀ i ∈ tx.vin, i.WF) (wf' : ∀ i ∈ tx'.vin, i.WF)
    (h : serSequences tx = serSequences tx') : tx.vin.map (·.sequence) = tx'.vin.map (·.sequence) := by
  rw [serSequences_eq, serSequences_eq] at h
  refine flatMap_inj_of_prefixInj le4_prefixInj le4_ne_nil _ _ ?_ ?_ h
  · intro x hx; obtain ⟨i, hi, rfl⟩ := List.mem_map.mp hx; exact (wf i hi).sequence
  · intro x hx; obtain ⟨i, hi, rfl⟩ := List.mem_map.mp hx; exact (wf' i hi).sequence

theorem serOutputs_inj {tx tx' : Tx} (wf : ∀ o ∈ tx.vout, o.WF) (wf' : ∀ o ∈ tx'.vout, o.WF)
    (h : serOutputs tx = serOutputs tx') : tx.vout = tx'.vout :=
  flatMap_inj_of_prefixInj serTxOut_prefixInj serTxOut_ne_nil _ _ wf wf' h

theorem serAmounts_inj {l l' : List TxOut} (wf : ∀ o ∈ l, o.WF) (wf' : ∀ o ∈ l', o.WF)
    (h : serAmounts l = serAmounts l') : l.map (·.value) = l'.map (·.value) := by
  rw [serAmounts_eq, serAmounts_eq] at h
  refine flatMap_inj_of_prefixInj le8s_prefixInj le8s_ne_nil _ _ ?_ ?_ h
  · intro x hx; obtain ⟨i, hi, rfl⟩ := List.mem_map.mp hx; exact (wf i hi).value
  · intro x hx; obtain ⟨i, hi, rfl⟩ := List.mem_map.mp hx; exact (wf' i hi).value

theorem serScriptPubKeys_inj {l l' : List TxOut} (wf : ∀ o ∈ l, o.WF) (wf' : ∀ o ∈ l', o.WF)
    (h : serScriptPubKeys l = serScriptPubKeys l') : l.map (·.spk) = l'.map (·.spk) := by
  rw [serScriptPubKeys_eq, serScriptPubKeys_eq] at h
  refine flatMap_inj_of_prefixInj varBytes_prefixInj varBytes_ne_nil _ _ ?_ ?_ h
  · intro x hx; obtain ⟨i, hi, rfl⟩ := List.mem_map.mp hx; exact (wf i hi).spk
  · intro x hx; obtain ⟨i, hi, rfl⟩ := List.mem_map.mp hx; exact (wf' i hi).spk

theorem getD_wf_in {l : List TxIn} (h : ∀ i ∈ l, i.WF) {j : Nat} (hj : j < l.length) : (l.getD j dfltIn).WF := by
  rw [List.getD_eq_getElem?_getD, List.getElem?_eq_getElem hj]
  exact h _ (List.getElem_mem hj)

/-! ### BIP143 -/

section
variable {H : Bytes → Bytes} (hH : ∀ x, (H x).length = 32)
include hH

theorem bip143HashPrevouts_length (tx : Tx) (ht : Nat) : (bip143HashPrevouts H tx ht).length = 32 := by
  unfold bip143HashPrevouts; split <;> simp [hH, zero32]
theorem bip143HashSequence_length (tx : Tx) (ht : Nat) : (bip143HashSequence H tx ht).length = 32 := by
  unfold bip143HashSequence; split <;> simp [hH, zero32]
theorem bip143HashOutputs_length (tx : Tx) (nIn ht : Nat) : (bip143HashOutputs H tx nIn ht).length = 32 := by
  unfold bip143HashOutputs; repeat' split
  all_goals simp [hH, zero32]

/-- equal BIP143 preimages: the ten items are equal one by one -/
theorem bip143Preimage_inj {sc sc' : Bytes} {tx tx' : Tx} {nIn nIn' ht ht' : Nat} {amount amount' : Int}
    (wv : U32 tx.version) (wv' : U32 tx'.version) (wl : U32 tx.lockTime) (wl' : U32 tx'.lockTime)
    (wi : (tx.vin.getD nIn dfltIn).WF) (wi' : (tx'.vin.getD nIn' dfltIn).WF)
    (hsc : Sized sc) (hsc' : Sized sc') (ha : I64 amount) (ha' : I64 amount')
    (hht : ht < 4294967296) (hht' : ht' < 4294967296)
    (h : bip143Preimage H sc tx nIn ht amount = bip143Preimage H sc' tx' nIn' ht' amount') :
    tx.version = tx'.version ∧
    bip143HashPrevouts H tx ht = bip143HashPrevouts H tx' ht' ∧
    bip143HashSequence H tx ht = bip143HashSequence H tx' ht' ∧
    (tx.vin.getD nIn dfltIn).prev = (tx'.vin.getD nIn' dfltIn).prev ∧
    sc = sc' ∧ amount = amount' ∧
    (tx.vin.getD nIn dfltIn).sequence = (tx'.vin.getD nIn' dfltIn).sequence ∧
    bip143HashOutputs H tx nIn ht = bip143HashOutputs H tx' nIn' ht' ∧
    tx.lockTime = tx'.lockTime ∧ ht = ht' := by
  unfold bip143Preimage at h
  obtain ⟨e1, h⟩ := le4_prefixInj _ _ _ _ wv wv' h
  obtain ⟨e2, h⟩ := List.append_inj h (by rw [bip143HashPrevouts_length hH, bip143HashPrevouts_length hH])
  obtain ⟨e3, h⟩ := List.append_inj h (by rw [bip143HashSequence_length hH, bip143HashSequence_length hH])
  obtain ⟨e4, h⟩ := serOutPoint_prefixInj _ _ _ _ wi.prev wi'.prev h
  obtain ⟨e5, h⟩ := varBytes_prefixInj _ _ _ _ hsc hsc' h
  obtain ⟨e6, h⟩ := le8s_prefixInj _ _ _ _ ha ha' h
  obtain ⟨e7, h⟩ := le4_prefixInj _ _ _ _ wi.sequence wi'.sequence h
  obtain ⟨e8, h⟩ := List.append_inj h (by rw [bip143HashOutputs_length hH, bip143HashOutputs_length hH])
  obtain ⟨e9, h⟩ := le4_prefixInj _ _ _ _ wl wl' h
  have e10 := le4_inj (a := (ht : Int)) (b := (ht' : Int)) (by unfold U32; omega) (by unfold U32; omega) h
  exact ⟨e1, e2, e3, e4, e5, e6, e7, e8, e9, by omega⟩

end

end Btc.Sighash
