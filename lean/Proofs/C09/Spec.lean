import Proofs.C09.Impl
namespace Btc.Sighash.Impl
open Btc Btc.Py Btc.Sighash

theorem unit_bind_ok {β : Type} {x : R Unit} {f : Unit → R β} {b : β} (h : (x >>= f) = .ok b) :
    x = .ok () ∧ f () = .ok b := by
  obtain ⟨a, h1, h2⟩ := bind_ok h
  exact ⟨h1, h2⟩

theorem ser4_ok {x : Int} {b : Bytes} (h : ser4 x = .ok b) : b = le4 x := by
  unfold ser4 at h
  obtain ⟨_, _, h⟩ := bind_ok h
  cases h; rfl
theorem serCAmount_ok {x : Int} {b : Bytes} (h : serCAmount x = .ok b) : b = le8s x := by
  unfold serCAmount at h
  obtain ⟨_, _, h⟩ := bind_ok h
  cases h; rfl
theorem serOutPointC_ok {o : OutPoint} {b : Bytes} (h : serOutPointC o = .ok b) : b = serOutPoint o := by
  unfold serOutPointC at h
  obtain ⟨_, _, h⟩ := bind_ok h
  cases h; rfl
theorem serOutputC_ok {o : TxOut} {b : Bytes} (h : serOutputC o = .ok b) : b = serTxOut o := by
  unfold serOutputC at h
  obtain ⟨_, _, h⟩ := bind_ok h
  cases h; rfl

theorem joinM_ok {f : α → R Bytes} {g : α → Bytes} (hf : ∀ x b, f x = .ok b → b = g x) :
    ∀ (l : List α) (b : Bytes), joinM f l = .ok b → b = l.flatMap g
  | [], b, h => by cases h; rfl
  | x :: xs, b, h => by
    unfold joinM at h
    obtain ⟨a, ha, h⟩ := bind_ok h
    obtain ⟨c, hc, h⟩ := bind_ok h
    cases h
    rw [hf x a ha, joinM_ok hf xs c hc]; rfl

theorem serializedPrevouts_ok {tx : Tx} {b : Bytes} (h : serializedPrevouts tx = .ok b) : b = serPrevouts tx :=
  joinM_ok (f := fun i : TxIn => serOutPointC i.prev) (g := fun i : TxIn => serOutPoint i.prev)
    (fun _ _ hx => serOutPointC_ok hx) _ _ h
theorem serializedSequences_ok {tx : Tx} {b : Bytes} (h : serializedSequences tx = .ok b) : b = serSequences tx :=
  joinM_ok (f := fun i : TxIn => ser4 i.sequence) (g := fun i : TxIn => le4 i.sequence)
    (fun _ _ hx => ser4_ok hx) _ _ h
theorem serializedOutputs_ok {tx : Tx} {b : Bytes} (h : serializedOutputs tx = .ok b) : b = serOutputs tx :=
  joinM_ok (g := serTxOut) (fun _ _ hx => serOutputC_ok hx) _ _ h
theorem serializedAmounts_ok {l : List TxOut} {b : Bytes} (h : serializedAmounts l = .ok b) : b = serAmounts l :=
  joinM_ok (f := fun o : TxOut => serCAmount o.value) (g := fun o : TxOut => le8s o.value)
    (fun _ _ hx => serCAmount_ok hx) _ _ h

theorem hashDirect_ok {S : Bytes → Bytes} {x : R Bytes} {d : Bytes} (h : hashOrPre S x none = .ok d) :
    ∃ b, x = .ok b ∧ d = hash256 S b := by
  unfold hashOrPre at h
  obtain ⟨b, hb, h⟩ := bind_ok h
  cases h
  exact ⟨b, hb, rfl⟩

/-- the translated `_serialized_hash_type` on a non-negative hash type: the four bytes of the word -/
theorem serialized_hash_type_ok {ht : Int} {b : Bytes} (h0 : 0 ≤ ht)
    (h : Gen.SigHash.serialized_hash_type ht = .ok b) : b = le4 (word ht) ∧ ht < 4294967296 := by
  unfold Gen.SigHash.serialized_hash_type at h
  split at h
  · cases h
  · next hr =>
    obtain ⟨n, rfl⟩ := Int.eq_ofNat_of_zero_le h0
    have hr : n < 4294967296 := by omega
    have hl : Py.land (n : Int) 4294967295 = (n : Int) := by
      show ((n &&& 4294967295 : Nat) : Int) = n
      have := Nat.and_two_pow_sub_one_eq_mod n 32
      simp only [Nat.reducePow, Nat.add_one_sub_one] at this
      rw [this, Nat.mod_eq_of_lt hr]
    rw [hl] at h
    simp only [Py.toBytesLE, bind, Except.bind, pure, Except.pure] at h
    split at h
    · cases h
    · split at h
      · cases h
      · cases h
        refine ⟨?_, by omega⟩
        simp only [le4, word]
        congr 1
        omega

/-- the btclib-shaped `segwit_v0` computes BIP143's digest (proved for the non-negative spelling of the
    hash type; the negative `int32_t` spelling is tied by the correspondence streams) -/
theorem segwitV0_eq_spec {S : Bytes → Bytes} {sc : Bytes} {tx : Tx} {i ht amount : Int} {d : Bytes} (h0 : 0 ≤ ht)
    (h : segwitV0 S sc tx i ht amount none = .ok d) :
    d = bip143Digest (hash256 S) sc tx i.toNat (word ht) amount := by
  unfold segwitV0 at h
  obtain ⟨_, h⟩ := unit_bind_ok h
  obtain ⟨n, hn, h⟩ := bind_ok h
  obtain ⟨_, _, rfl⟩ := assertVin_ok hn
  obtain ⟨hp, hhp, h⟩ := bind_ok h
  obtain ⟨hs, hhs, h⟩ := bind_ok h
  obtain ⟨ho, hho, h⟩ := bind_ok h
  obtain ⟨p1, hp1, h⟩ := bind_ok h
  obtain ⟨p4, hp4, h⟩ := bind_ok h
  obtain ⟨p6, hp6, h⟩ := bind_ok h
  obtain ⟨p7, hp7, h⟩ := bind_ok h
  obtain ⟨p9, hp9, h⟩ := bind_ok h
  obtain ⟨p10, hp10, h⟩ := bind_ok h
  cases h
  rw [ser4_ok hp1, serOutPointC_ok hp4, serCAmount_ok hp6, ser4_ok hp7, ser4_ok hp9,
    (serialized_hash_type_ok h0 hp10).1]
  have e1 : hp = bip143HashPrevouts (hash256 S) tx (word ht) := by
    unfold bip143HashPrevouts
    unfold segHashPrevouts at hhp
    simp only [Option.map_none] at hhp
    split at hhp
    · next c =>
      obtain ⟨b, hb, rfl⟩ := hashDirect_ok hhp
      rw [serializedPrevouts_ok hb]; simp [c]
    · next c => cases hhp; simp [c]
  have e2 : hs = bip143HashSequence (hash256 S) tx (word ht) := by
    unfold bip143HashSequence
    unfold segHashSequence at hhs
    simp only [Option.map_none] at hhs
    split at hhs
    · next c =>
      obtain ⟨b, hb, rfl⟩ := hashDirect_ok hhs
      rw [serializedSequences_ok hb]
      have : (!anyoneCanPay (word ht)) = true ∧ (!isSingle (word ht)) = true ∧ (!isNone (word ht)) = true := by
        simpa [isSingle, isNone] using c
      rw [if_pos this]
    · next c =>
      cases hhs
      have : ¬ ((!anyoneCanPay (word ht)) = true ∧ (!isSingle (word ht)) = true ∧ (!isNone (word ht)) = true) := by
        simpa [isSingle, isNone] using c
      rw [if_neg this]
  have e3 : ho = bip143HashOutputs (hash256 S) tx i.toNat (word ht) := by
    unfold bip143HashOutputs
    unfold segHashOutputs at hho
    simp only [Option.map_none] at hho
    split at hho
    · next c =>
      obtain ⟨b, hb, rfl⟩ := hashDirect_ok hho
      rw [serializedOutputs_ok hb]
      have : (!isSingle (word ht)) = true ∧ (!isNone (word ht)) = true := by simpa [isSingle, isNone] using c
      rw [if_pos this]
    · next c =>
      have c' : ¬ ((!isSingle (word ht)) = true ∧ (!isNone (word ht)) = true) := by simpa [isSingle, isNone] using c
      rw [if_neg c']
      split at hho
      · next c2 =>
        obtain ⟨b, hb, hho⟩ := bind_ok hho
        cases hho
        rw [serOutputC_ok hb]
        have : isSingle (word ht) = true ∧ i.toNat < tx.vout.length := by simpa [isSingle] using c2
        rw [if_pos this]
      · next c2 =>
        cases hho
        have : ¬ (isSingle (word ht) = true ∧ i.toNat < tx.vout.length) := by simpa [isSingle] using c2
        rw [if_neg this]
  rw [e1, e2, e3]
  rfl

end Btc.Sighash.Impl
