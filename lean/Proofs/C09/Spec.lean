import Proofs.C09.Impl
namespace Btc.Sighash.Impl
open Btc Btc.Py Btc.Sighash

theorem unit_bind_ok {β : Type} {x : R Unit} {f : Unit → R β} {b : β} (h : (x >>= f) = .ok b) :
    x = .ok () ∧ f () = .ok b := by
  obtain ⟨a, h1, h2⟩ := bind_ok h
  exact ⟨h1, h2⟩

theorem ser4_ok {x : Int} {b : Bytes} (h : ser4 x = .ok b) : b = le4 x := by
  unfold ser4 at h
  obtain ⟨_, _, h⟩ := bind_ok h
  cases h; rfl
theorem serCAmount_ok {x : Int} {b : Bytes} (h : serCAmount x = .ok b) : b = le8s x := by
  unfold serCAmount at h
  obtain ⟨_, _, h⟩ := bind_ok h
  cases h; rfl
theorem serOutPointC_ok {o : OutPoint} {b : Bytes} (h : serOutPointC o = .ok b) : b = serOutPoint o := by
  unfold serOutPointC at h
  obtain ⟨_, _, h⟩ := bind_ok h
  cases h; rfl
theorem serOutputC_ok {o : TxOut} {b : Bytes} (h : serOutputC o = .ok b) : b = serTxOut o := by
  unfold serOutputC at h
  obtain ⟨_, _, h⟩ := bind_ok h
  cases h; rfl

theorem joinM_ok {f : α → R Bytes} {g : α → Bytes} (hf : ∀ x b, f x = .ok b → b = g x) :
    ∀ (l : List α) (b : Bytes), joinM f l = .ok b → b = l.flatMap g
  | [], b, h => by cases h; rfl
  | x :: xs, b, h => by
    unfold joinM at h
    obtain ⟨a, ha, h⟩ := bind_ok h
    obtain ⟨c, hc, h⟩ := bind_ok h
    cases h
    rw [hf x a ha, joinM_ok hf xs c hc]; rfl

theorem serializedPrevouts_ok {tx : Tx} {b : Bytes} (h : serializedPrevouts tx = .ok b) : b = serPrevouts tx :=
  joinM_ok (f := fun i : TxIn => serOutPointC i.prev) (g := fun i : TxIn => serOutPoint i.prev)
    (fun _ _ hx => serOutPointC_ok hx) _ _ h
theorem serializedSequences_ok {tx : Tx} {b : Bytes} (h : serializedSequences tx = .ok b) : b = serSequences tx :=
  joinM_ok (f := fun i : TxIn => ser4 i.sequence) (g := fun i : TxIn => le4 i.sequence)
    (fun _ _ hx => ser4_ok hx) _ _ h
theorem serializedOutputs_ok {tx : Tx} {b : Bytes} (h : serializedOutputs tx = .ok b) : b = serOutputs tx :=
  joinM_ok (g := serTxOut) (fun _ _ hx => serOutputC_ok hx) _ _ h
theorem serializedAmounts_ok {l : List TxOut} {b : Bytes} (h : serializedAmounts l = .ok b) : b = serAmounts l :=
  joinM_ok (f := fun o : TxOut => serCAmount o.value) (g := fun o : TxOut => le8s o.value)
    (fun _ _ hx => serCAmount_ok hx) _ _ h

theorem hashDirect_ok {S : Bytes → Bytes} {x : R Bytes} {d : Bytes} (h : hashOrPre S x none = .ok d) :
    ∃ b, x = .ok b ∧ d = hash256 S b := by
  unfold hashOrPre at h
  obtain ⟨b, hb, h⟩ := bind_ok h
  cases h
  exact ⟨b, hb, rfl⟩

theorem xor_mask32 (m : Nat) (hm : m < 2 ^ 32) : (2 ^ 32 - 1) ^^^ ((2 ^ 32 - 1) &&& m) = 2 ^ 32 - 1 - m := by
  apply Nat.eq_of_testBit_eq
  intro i
  have e : 2 ^ 32 - 1 - m = 2 ^ 32 - (m + 1) := by omega
  rw [e, Nat.testBit_two_pow_sub_succ hm]
  simp only [Nat.testBit_xor, Nat.testBit_and, Nat.testBit_two_pow_sub_one]
  cases decide (i < 32) <;> cases m.testBit i <;> rfl

theorem land_mask32 {ht : Int} (h : -2147483648 ≤ ht ∧ ht < 4294967296) :
    Py.land ht 4294967295 = ((word ht : Nat) : Int) := by
  cases ht with
  | ofNat n =>
    simp only [Int.ofNat_eq_natCast] at h ⊢
    have hr : n < 4294967296 := by omega
    show ((n &&& 4294967295 : Nat) : Int) = _
    have := Nat.and_two_pow_sub_one_eq_mod n 32
    simp only [Nat.reducePow, Nat.add_one_sub_one] at this
    rw [this, Nat.mod_eq_of_lt hr]
    simp only [word]; omega
  | negSucc m =>
    have hneg : Int.negSucc m = -((m : Int) + 1) := Int.negSucc_eq m
    rw [hneg] at h
    have hm : m < 2 ^ 32 := by omega
    show ((4294967295 ^^^ (4294967295 &&& m) : Nat) : Int) = _
    have := xor_mask32 m hm
    simp only [Nat.reducePow, Nat.add_one_sub_one] at this
    rw [this]
    simp only [word, hneg]; omega

/-- the translated `_serialized_hash_type`: the four bytes of the two's complement word, for either spelling
    (`-2^31 ≤ ht < 2^32`), and nothing outside that range -/
theorem serialized_hash_type_ok {ht : Int} {b : Bytes}
    (h : Gen.SigHash.serialized_hash_type ht = .ok b) :
    b = le4 (word ht) ∧ -2147483648 ≤ ht ∧ ht < 4294967296 := by
  unfold Gen.SigHash.serialized_hash_type at h
  split at h
  · cases h
  · next hr =>
    have hr : -2147483648 ≤ ht ∧ ht < 4294967296 := by omega
    rw [land_mask32 hr] at h
    have hw : word ht < 4294967296 := by simp only [word]; omega
    simp only [Py.toBytesLE, bind, Except.bind, pure, Except.pure] at h
    split at h
    · cases h
    · split at h
      · cases h
      · cases h
        exact ⟨by simp [le4], hr⟩

/-- the btclib-shaped `segwit_v0` computes BIP143's digest, for either spelling of the hash type -/
theorem segwitV0_eq_spec {S : Bytes → Bytes} {sc : Bytes} {tx : Tx} {i ht amount : Int} {d : Bytes}
    (h : segwitV0 S sc tx i ht amount none = .ok d) :
    d = bip143Digest (hash256 S) sc tx i.toNat (word ht) amount := by
  unfold segwitV0 at h
  obtain ⟨_, h⟩ := unit_bind_ok h
  obtain ⟨n, hn, h⟩ := bind_ok h
  obtain ⟨_, _, rfl⟩ := assertVin_ok hn
  obtain ⟨hp, hhp, h⟩ := bind_ok h
  obtain ⟨hs, hhs, h⟩ := bind_ok h
  obtain ⟨ho, hho, h⟩ := bind_ok h
  obtain ⟨p1, hp1, h⟩ := bind_ok h
  obtain ⟨p4, hp4, h⟩ := bind_ok h
  obtain ⟨p6, hp6, h⟩ := bind_ok h
  obtain ⟨p7, hp7, h⟩ := bind_ok h
  obtain ⟨p9, hp9, h⟩ := bind_ok h
  obtain ⟨p10, hp10, h⟩ := bind_ok h
  cases h
  rw [ser4_ok hp1, serOutPointC_ok hp4, serCAmount_ok hp6, ser4_ok hp7, ser4_ok hp9,
    (serialized_hash_type_ok hp10).1]
  have e1 : hp = bip143HashPrevouts (hash256 S) tx (word ht) := by
    unfold bip143HashPrevouts
    unfold segHashPrevouts at hhp
    simp only [Option.map_none] at hhp
    split at hhp
    · next c =>
      obtain ⟨b, hb, rfl⟩ := hashDirect_ok hhp
      rw [serializedPrevouts_ok hb]; simp [c]
    · next c => cases hhp; simp [c]
  have e2 : hs = bip143HashSequence (hash256 S) tx (word ht) := by
    unfold bip143HashSequence
    unfold segHashSequence at hhs
    simp only [Option.map_none] at hhs
    split at hhs
    · next c =>
      obtain ⟨b, hb, rfl⟩ := hashDirect_ok hhs
      rw [serializedSequences_ok hb]
      have : (!anyoneCanPay (word ht)) = true ∧ (!isSingle (word ht)) = true ∧ (!isNone (word ht)) = true := by
        simpa [isSingle, isNone] using c
      rw [if_pos this]
    · next c =>
      cases hhs
      have : ¬ ((!anyoneCanPay (word ht)) = true ∧ (!isSingle (word ht)) = true ∧ (!isNone (word ht)) = true) := by
        simpa [isSingle, isNone] using c
      rw [if_neg this]
  have e3 : ho = bip143HashOutputs (hash256 S) tx i.toNat (word ht) := by
    unfold bip143HashOutputs
    unfold segHashOutputs at hho
    simp only [Option.map_none] at hho
    split at hho
    · next c =>
      obtain ⟨b, hb, rfl⟩ := hashDirect_ok hho
      rw [serializedOutputs_ok hb]
      have : (!isSingle (word ht)) = true ∧ (!isNone (word ht)) = true := by simpa [isSingle, isNone] using c
      rw [if_pos this]
    · next c =>
      have c' : ¬ ((!isSingle (word ht)) = true ∧ (!isNone (word ht)) = true) := by simpa [isSingle, isNone] using c
      rw [if_neg c']
      split at hho
      · next c2 =>
        obtain ⟨b, hb, hho⟩ := bind_ok hho
        cases hho
        rw [serOutputC_ok hb]
        have : isSingle (word ht) = true ∧ i.toNat < tx.vout.length := by simpa [isSingle] using c2
        rw [if_pos this]
      · next c2 =>
        cases hho
        have : ¬ (isSingle (word ht) = true ∧ i.toNat < tx.vout.length) := by simpa [isSingle] using c2
        rw [if_neg this]
  rw [e1, e2, e3]
  rfl

/-- what position `j` of the copied-and-edited input list holds, before ANYONECANPAY -/
def editedIn (sc : Bytes) (tx : Tx) (i w j : Nat) : TxIn where
  prev := (tx.vin.getD j dfltIn).prev
  scriptSig := if j ≠ i then [] else withoutCodeSeparators sc
  sequence := if j ≠ i ∧ (isSingle w ∨ isNone w) then 0 else (tx.vin.getD j dfltIn).sequence

theorem copy_get (tx : Tx) (i : Nat) (s : Bytes) (j : Nat) (hj : j < tx.vin.length) :
    (legacyTxCopy tx i s).vin[j]? = some
      { prev := (tx.vin.getD j dfltIn).prev, scriptSig := if j ≠ i then [] else s,
        sequence := (tx.vin.getD j dfltIn).sequence } := by
  simp only [legacyTxCopy, List.getElem?_set, List.length_map, List.getD_eq_getElem?_getD, List.getElem?_map]
  by_cases e : i = j
  · subst e
    simp [hj]
  · have : ¬ j = i := fun h => e h.symm
    simp [e, this, hj]

theorem zero_get (l : List TxIn) (i j : Nat) :
    (zeroOtherSequences l i)[j]? = l[j]?.map (fun t => if j ≠ i then { t with sequence := 0 } else t) := by
  simp [zeroOtherSequences, List.getElem?_mapIdx]


theorem none_ne_single {w : Nat} (h : baseType w = Gen.SigHash.NONE) : baseType w ≠ Gen.SigHash.SINGLE := by
  rw [h]; decide

/-- the input list of the copy after the NONE / SINGLE edits, before ANYONECANPAY -/
def editedVin (sc : Bytes) (tx : Tx) (i w : Nat) : List TxIn :=
  if baseType w = Gen.SigHash.NONE ∨ baseType w = Gen.SigHash.SINGLE then
    zeroOtherSequences (legacyTxCopy tx i (withoutCodeSeparators sc)).vin i
  else (legacyTxCopy tx i (withoutCodeSeparators sc)).vin

def editedVout (tx : Tx) (i w : Nat) : List TxOut :=
  if baseType w = Gen.SigHash.NONE then []
  else if baseType w = Gen.SigHash.SINGLE then List.replicate i blankOut ++ [tx.vout.getD i blankOut]
  else tx.vout

theorem legacyEdited_eq_parts (sc : Bytes) (tx : Tx) (i w : Nat) :
    legacyEdited sc tx i w =
      { version := tx.version, lockTime := tx.lockTime, vout := editedVout tx i w
        vin := if w &&& Gen.SigHash.ACP_MASK ≠ 0 then [(editedVin sc tx i w).getD i dfltIn]
               else editedVin sc tx i w } := by
  unfold legacyEdited editedVin editedVout
  by_cases hn : baseType w = Gen.SigHash.NONE
  · have hs := none_ne_single hn
    by_cases ha : w &&& Gen.SigHash.ACP_MASK ≠ 0 <;>
      simp only [eq_true hn, eq_false hs, eq_true ha, eq_false ha, ↓reduceIte, or_false, or_true, true_or] <;> rfl
  · by_cases hs : baseType w = Gen.SigHash.SINGLE
    · by_cases ha : w &&& Gen.SigHash.ACP_MASK ≠ 0 <;>
        simp only [eq_false hn, eq_true hs, eq_true ha, eq_false ha, ↓reduceIte, or_false, or_true, true_or,
          false_or] <;> rfl
    · by_cases ha : w &&& Gen.SigHash.ACP_MASK ≠ 0 <;>
        simp only [eq_false hn, eq_false hs, eq_true ha, eq_false ha, ↓reduceIte, or_false, or_true, true_or,
          false_or] <;> rfl

theorem editedVin_get (sc : Bytes) (tx : Tx) (i w j : Nat) (hj : j < tx.vin.length) :
    (editedVin sc tx i w)[j]? = some (editedIn sc tx i w j) := by
  unfold editedVin editedIn
  have hc := copy_get tx i (withoutCodeSeparators sc) j hj
  by_cases hz : baseType w = Gen.SigHash.NONE ∨ baseType w = Gen.SigHash.SINGLE
  · have hb : (isSingle w = true ∨ isNone w = true) := by
      rcases hz with h | h
      · right; simp [isNone, h]
      · left; simp [isSingle, h]
    simp only [hz, ↓reduceIte, zero_get, hc, Option.map_some, hb, and_true]
    by_cases e : j = i <;> simp [e]
  · have hb : ¬ (isSingle w = true ∨ isNone w = true) := by
      intro h; apply hz
      rcases h with h | h
      · right; simpa [isSingle] using h
      · left; simpa [isNone] using h
    simp only [hz, ↓reduceIte, hc, hb, and_false]

theorem editedVin_length (sc : Bytes) (tx : Tx) (i w : Nat) : (editedVin sc tx i w).length = tx.vin.length := by
  unfold editedVin
  split <;> simp [zeroOtherSequences, legacyTxCopy]


theorem acp_iff (w : Nat) : anyoneCanPay w = true ↔ w &&& Gen.SigHash.ACP_MASK ≠ 0 := by
  simp [anyoneCanPay]

theorem editedVout_eq (tx : Tx) (i w : Nat) :
    editedVout tx i w = (List.range (legacyNOut tx i w)).map (legacyOut tx i w) := by
  unfold editedVout legacyNOut
  by_cases hn : baseType w = Gen.SigHash.NONE
  · have : isNone w = true := by simp [isNone, hn]
    simp [hn, this]
  · have hn' : isNone w = false := by simp [isNone, hn]
    by_cases h3 : baseType w = Gen.SigHash.SINGLE
    · have h3' : isSingle w = true := by simp [isSingle, h3]
      simp only [eq_false hn, eq_true h3, ↓reduceIte, hn', h3', Bool.false_eq_true]
      rw [List.range_succ, List.map_append]
      congr 1
      · apply List.ext_getElem (by simp)
        intro j h1 h2
        simp only [List.length_replicate] at h1
        simp [legacyOut, h3', Nat.ne_of_lt h1]
      · simp [legacyOut]
    · have h3' : isSingle w = false := by simp [isSingle, h3]
      simp only [eq_false hn, eq_false h3, ↓reduceIte, hn', h3', Bool.false_eq_true]
      apply List.ext_getElem (by simp)
      intro j h1 h2
      simp [legacyOut, h3', h1]

/-- btclib's copy-and-edit of the transaction IS the transaction Core's serializer virtually writes -/
theorem legacyEdited_eq (sc : Bytes) (tx : Tx) (i w : Nat) (hi : i < tx.vin.length) :
    legacyEdited sc tx i w = legacyTx sc tx i w := by
  rw [legacyEdited_eq_parts]
  unfold legacyTx
  rw [← editedVout_eq tx i w]
  congr 1
  by_cases ha : w &&& Gen.SigHash.ACP_MASK ≠ 0
  · have ha' : anyoneCanPay w = true := (acp_iff w).mpr ha
    rw [if_pos ha]
    simp only [legacyNIn, ha', ↓reduceIte]
    have := editedVin_get sc tx i w i hi
    simp only [List.getD_eq_getElem?_getD, this, Option.getD_some]
    simp [legacyIn, legacyIdx, ha', editedIn]
  · have ha' : anyoneCanPay w = false := by
      cases h : anyoneCanPay w
      · rfl
      · exact absurd ((acp_iff w).mp h) ha
    rw [if_neg ha]
    simp only [legacyNIn, ha', ↓reduceIte, Bool.false_eq_true]
    apply List.ext_getElem?
    intro j
    by_cases hj : j < tx.vin.length
    · rw [editedVin_get sc tx i w j hj]
      simp [hj, legacyIn, legacyIdx, ha', editedIn]
    · have h1 : (editedVin sc tx i w)[j]? = none := by
        rw [List.getElem?_eq_none_iff, editedVin_length]; omega
      rw [h1]
      simp [hj]


/-- the btclib-shaped `legacy` computes the legacy digest of the specification: codeseparator elision, the
    NONE / SINGLE edits, ANYONECANPAY, the SIGHASH_SINGLE out-of-range constant, either spelling of the type -/
theorem legacy_eq_spec {S : Bytes → Bytes} {sc : Bytes} {tx : Tx} {i ht : Int} {d : Bytes}
    (h : legacy S sc tx i ht = .ok d) : d = legacyDigest (hash256 S) sc tx i.toNat (word ht) := by
  unfold legacy at h
  obtain ⟨sht, hsht, h⟩ := bind_ok h
  obtain ⟨n, hn, h⟩ := bind_ok h
  obtain ⟨h0, h1, rfl⟩ := assertVin_ok hn
  have hi : i.toNat < tx.vin.length := by omega
  unfold legacyDigest legacySingleBug
  simp only at h
  split at h
  · next c =>
    cases h
    have : (isSingle (word ht) && decide (i.toNat ≥ tx.vout.length)) = true := by
      simp [isSingle, c.1, c.2]
    rw [if_pos this]
  · next c =>
    have : ¬ ((isSingle (word ht) && decide (i.toNat ≥ tx.vout.length)) = true) := by
      simpa [isSingle] using c
    rw [if_neg this]
    unfold legacyChecked at h
    obtain ⟨_, h⟩ := unit_bind_ok h
    obtain ⟨_, h⟩ := unit_bind_ok h
    obtain ⟨_, h⟩ := unit_bind_ok h
    obtain ⟨_, h⟩ := unit_bind_ok h
    cases h
    rw [legacyEdited_eq sc tx i.toNat (word ht) hi, (serialized_hash_type_ok hsht).1]
    rfl

/-! ### taproot -/

theorem tapMid_ok {S : Bytes → Bytes} {tx : Tx} {prevouts : List TxOut} {w : Nat} {b : Bytes}
    (h : tapMid S tx prevouts w none = .ok b) :
    b = tapTxHashes S tx prevouts w ++ tapOutputsHash S tx w := by
  unfold tapMid at h
  unfold tapTxHashes tapOutputsHash
  split at h
  · obtain ⟨p, hp, h⟩ := bind_ok h
    cases h
    obtain ⟨a, b', d, e, ha, hb, hd, he, rfl⟩ := precompute_ok hp
    rw [serializedPrevouts_ok ha, serializedAmounts_ok hb, serializedSequences_ok hd, serializedOutputs_ok he]
    cases tapAcp w <;> cases tapNone w <;> cases tapSingle w <;> simp
  · next c =>
    cases h
    revert c
    cases tapAcp w <;> cases tapNone w <;> cases tapSingle w <;> simp

theorem tapOwn_ok {tx : Tx} {i : Nat} {prevouts : List TxOut} {w : Nat} {b : Bytes}
    (h : tapOwn tx i prevouts w = .ok b) : b = tapInputData tx i prevouts w := by
  unfold tapOwn at h
  unfold tapInputData
  split at h
  · next c =>
    rw [if_pos c]
    split at h
    · cases h
    · next po hpo =>
      obtain ⟨a, ha, h⟩ := bind_ok h
      obtain ⟨b', hb, h⟩ := bind_ok h
      obtain ⟨d, hd, h⟩ := bind_ok h
      cases h
      rw [serOutPointC_ok ha, serCAmount_ok hb, ser4_ok hd]
      simp [List.getD_eq_getElem?_getD, hpo]
  · next c =>
    cases h
    rw [if_neg c]

theorem tapSgl_ok {S : Bytes → Bytes} {tx : Tx} {i w : Nat} {b : Bytes}
    (h : tapSgl S tx i w = .ok b) : b = tapSingleHash S tx i w := by
  unfold tapSgl at h
  unfold tapSingleHash
  split at h
  · next c =>
    obtain ⟨x, hx, h⟩ := bind_ok h
    cases h
    rw [if_pos c, serOutputC_ok hx]
  · next c =>
    cases h
    rw [if_neg c]

/-- the annex as BIP341 sees it: present iff non-empty -/
def annexOpt (annex : Bytes) : Option Bytes := if annex.isEmpty then none else some annex

theorem spend_type_ok {ext : Option TapExt} {annex : Bytes} {st : Bytes}
    (h : Gen.SigHash.serialized_spend_type (if ext.isSome then 1 else 0) (if !annex.isEmpty then 1 else 0) = .ok st) :
    st = [spendType ext (annexOpt annex)] := by
  unfold annexOpt
  cases ext <;> cases annex <;> simp at h <;> cases h <;> rfl

/-- the btclib-shaped `taproot` computes BIP341's digest of the specification -- every one of the seven
    hash types, annex present or not, key path (`ext = none`: flag 0, empty extension) or script path
    (`ext = some e`: flag 1, the BIP342 extension bytes) -/
theorem taproot_eq_spec {S : Bytes → Bytes} {tx : Tx} {i : Int} {prevouts : List TxOut} {ht : Int}
    {annex : Bytes} {d : Bytes} (ext : Option TapExt)
    (h : taproot S tx i prevouts ht (if ext.isSome then 1 else 0) annex (tapExtBytes ext) none = .ok d) :
    d = bip341Digest S tx i.toNat prevouts ht.toNat (annexOpt annex) ext := by
  unfold taproot at h
  obtain ⟨_, h⟩ := unit_bind_ok h
  obtain ⟨n, hn, h⟩ := bind_ok h
  obtain ⟨_, _, rfl⟩ := assertVin_ok hn
  split at h
  · cases h
  split at h
  · cases h
  split at h
  · cases h
  unfold taprootChecked at h
  obtain ⟨v, hv, h⟩ := bind_ok h
  obtain ⟨l, hl, h⟩ := bind_ok h
  obtain ⟨mid, hmid, h⟩ := bind_ok h
  obtain ⟨st, hst, h⟩ := bind_ok h
  obtain ⟨own, hown, h⟩ := bind_ok h
  obtain ⟨sgl, hsgl, h⟩ := bind_ok h
  cases h
  rw [ser4_ok hv, ser4_ok hl, tapMid_ok hmid, spend_type_ok hst, tapOwn_ok hown, tapSgl_ok hsgl]
  unfold bip341Digest bip341Preimage
  have ea : (if (!annex.isEmpty) = true then S (varBytes annex) else []) = tapAnnexHash S (annexOpt annex) := by
    unfold annexOpt tapAnnexHash
    cases annex <;> simp
  rw [ea]
  simp only [List.append_assoc]

end Btc.Sighash.Impl
