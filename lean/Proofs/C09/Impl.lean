import Model.C09.Impl
/-
C09 helper lemmas about the btclib-shaped functions (`Model/C09/Impl.lean`): precomputed = direct,
and the refusals.  Core Lean only.
-/
namespace Btc.Sighash.Impl

open Btc Btc.Py Btc.Sighash

theorem bind_ok {α β : Type} {x : R α} {f : α → R β} {b : β} (h : (x >>= f) = .ok b) :
    ∃ a, x = .ok a ∧ f a = .ok b := by
  cases x with
  | error e => simp [bind, Except.bind] at h
  | ok a => exact ⟨a, rfl, h⟩

theorem assertVin_ok {tx : Tx} {i : Int} {n : Nat} (h : assertVin tx i = .ok n) :
    0 ≤ i ∧ i < tx.vin.length ∧ n = i.toNat := by
  unfold assertVin at h
  split at h
  · next hc => cases h; exact ⟨hc.1, hc.2, rfl⟩
  · cases h

/-- what a successfully built `PrecomputedTxData` is -/
theorem precompute_ok {S : Bytes → Bytes} {tx : Tx} {prevouts : List TxOut} {p : Precomputed}
    (h : precompute S tx prevouts = .ok p) :
    ∃ a b d e, serializedPrevouts tx = .ok a ∧ serializedAmounts prevouts = .ok b ∧
      serializedSequences tx = .ok d ∧ serializedOutputs tx = .ok e ∧
      p = ⟨S a, S b, S (serScriptPubKeys prevouts), S d, S e⟩ := by
  unfold precompute at h
  split at h
  · cases h
  · obtain ⟨a, ha, h⟩ := bind_ok h
    obtain ⟨b, hb, h⟩ := bind_ok h
    obtain ⟨d, hd, h⟩ := bind_ok h
    obtain ⟨e, he, h⟩ := bind_ok h
    cases h
    exact ⟨a, b, d, e, ha, hb, hd, he, rfl⟩

/-- T1 (BIP143): with the precomputed hashes of this very transaction = without -/
theorem segwitV0_precomputed {S : Bytes → Bytes} {tx : Tx} {prevouts : List TxOut} {p : Precomputed}
    (hp : precompute S tx prevouts = .ok p) (sc : Bytes) (i ht amount : Int) :
    segwitV0 S sc tx i ht amount (some p) = segwitV0 S sc tx i ht amount none := by
  obtain ⟨a, b, d, e, ha, _, hd, he, rfl⟩ := precompute_ok hp
  unfold segwitV0 segHashPrevouts segHashSequence segHashOutputs
  simp only [Option.map_some, Option.map_none, hashOrPre, ha, hd, he, hash256, bind_pure_comp, Except.map,
    pure, Except.pure, bind, Except.bind]

/-- T1 (BIP341): with the precomputed hashes of this very transaction and spent outputs = without -/
theorem taproot_precomputed {S : Bytes → Bytes} {tx : Tx} {prevouts : List TxOut} {p : Precomputed}
    (hp : precompute S tx prevouts = .ok p) (i ht extFlag : Int) (annex msgExt : Bytes) :
    taproot S tx i prevouts ht extFlag annex msgExt (some p) =
      taproot S tx i prevouts ht extFlag annex msgExt none := by
  unfold taproot taprootChecked tapMid
  simp only [hp]
  rfl


/-- T3 (BIP341): whatever `taproot` answers with a digest is not one of BIP341's error cases -/
theorem taproot_ok_defined {S : Bytes → Bytes} {tx : Tx} {i : Int} {prevouts : List TxOut} {ht extFlag : Int}
    {annex msgExt : Bytes} {pre : Option Precomputed} {d : Bytes}
    (h : taproot S tx i prevouts ht extFlag annex msgExt pre = .ok d) :
    0 ≤ i ∧ i < tx.vin.length ∧ prevouts.length = tx.vin.length ∧
      intMem ht Gen.SigHash.SIG_HASH_TYPES = true ∧
      ¬ (tapSingle ht.toNat = true ∧ i.toNat ≥ tx.vout.length) := by
  unfold taproot at h
  obtain ⟨_, _, h⟩ := bind_ok h
  obtain ⟨n, hn, h⟩ := bind_ok h
  obtain ⟨h0, h1, rfl⟩ := assertVin_ok hn
  split at h
  · cases h
  · next hl =>
    split at h
    · cases h
    · next hm =>
      split at h
      · cases h
      · next hs => exact ⟨h0, h1, by simpa using hl, by simpa using hm, hs⟩

/-- T3 (legacy, BIP143): an input index outside the transaction is refused -/
theorem legacy_ok_index {S : Bytes → Bytes} {sc : Bytes} {tx : Tx} {i ht : Int} {d : Bytes}
    (h : legacy S sc tx i ht = .ok d) : 0 ≤ i ∧ i < tx.vin.length := by
  unfold legacy at h
  obtain ⟨_, _, h⟩ := bind_ok h
  obtain ⟨n, hn, h⟩ := bind_ok h
  obtain ⟨h0, h1, rfl⟩ := assertVin_ok hn
  exact ⟨h0, h1⟩

theorem segwitV0_ok_index {S : Bytes → Bytes} {sc : Bytes} {tx : Tx} {i ht amount : Int}
    {pre : Option Precomputed} {d : Bytes}
    (h : segwitV0 S sc tx i ht amount pre = .ok d) : 0 ≤ i ∧ i < tx.vin.length := by
  unfold segwitV0 at h
  obtain ⟨_, _, h⟩ := bind_ok h
  obtain ⟨n, hn, h⟩ := bind_ok h
  obtain ⟨h0, h1, rfl⟩ := assertVin_ok hn
  exact ⟨h0, h1⟩

/-- the SIGHASH_SINGLE bug, kept: an input with no matching output signs the constant -/
theorem legacy_single_bug {S : Bytes → Bytes} {sc : Bytes} {tx : Tx} {i ht : Int} {sht : Bytes}
    (hht : Gen.SigHash.serialized_hash_type ht = .ok sht) (h0 : 0 ≤ i) (h1 : i < tx.vin.length)
    (hs : baseType (word ht) = Gen.SigHash.SINGLE) (ho : i.toNat ≥ tx.vout.length) :
    legacy S sc tx i ht = .ok Gen.SigHash.SINGLE_BUG_DIGEST := by
  unfold legacy
  simp only [hht, assertVin, h0, h1, and_self, ↓reduceIte, bind, Except.bind, pure, Except.pure, hs, ho]

end Btc.Sighash.Impl
