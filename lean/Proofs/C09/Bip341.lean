import Proofs.C09.Bip143
/-
C09 helper lemmas: what the BIP341/342 message commits to.  Core Lean only.
-/
namespace Btc.Sighash

open Btc

theorem u8_ofNat_inj' {a b : Nat} (ha : a < 256) (hb : b < 256) (h : UInt8.ofNat a = UInt8.ofNat b) : a = b := by
  have := congrArg UInt8.toNat h
  simp [UInt8.toNat_ofNat'] at this
  omega

theorem spendType_inj {ext ext' : Option TapExt} {annex annex' : Option Bytes}
    (h : spendType ext annex = spendType ext' annex') :
    ext.isSome = ext'.isSome ∧ annex.isSome = annex'.isSome := by
  unfold spendType at h
  cases ext <;> cases ext' <;> cases annex <;> cases annex' <;> simp at h ⊢ <;>
    exact absurd h (by decide)

theorem TapExt.ser_inj {e e' : TapExt} (w : e.WF) (w' : e'.WF) (h : e.ser = e'.ser) : e = e' := by
  unfold TapExt.ser at h
  obtain ⟨h1, h2⟩ := List.append_inj h (by rw [w.leaf, w'.leaf])
  simp only [List.cons.injEq] at h2
  have h3 := u8_ofNat_inj' w.key w'.key h2.1
  have h4 := le4_inj w.pos w'.pos h2.2
  cases e; cases e'; simp_all

section
variable {S : Bytes → Bytes} (hS : ∀ x, (S x).length = 32)
include hS

theorem tapTxHashes_length (tx : Tx) (spent : List TxOut) (ht : Nat) :
    (tapTxHashes S tx spent ht).length = if !tapAcp ht then 128 else 0 := by
  unfold tapTxHashes; split <;> simp [hS]
theorem tapOutputsHash_length (tx : Tx) (ht : Nat) :
    (tapOutputsHash S tx ht).length = if !tapNone ht ∧ !tapSingle ht then 32 else 0 := by
  unfold tapOutputsHash; split <;> simp [hS]
theorem tapAnnexHash_length (annex : Option Bytes) :
    (tapAnnexHash S annex).length = if annex.isSome then 32 else 0 := by
  unfold tapAnnexHash; cases annex <;> simp [hS]
theorem tapSingleHash_length (tx : Tx) (nIn ht : Nat) :
    (tapSingleHash S tx nIn ht).length = if tapSingle ht then 32 else 0 := by
  unfold tapSingleHash; split <;> simp [hS]

/-- equal BIP341 messages: every segment is equal, segment by segment -/
theorem bip341Preimage_inj {tx tx' : Tx} {nIn nIn' : Nat} {spent spent' : List TxOut} {ht ht' : Nat}
    {annex annex' : Option Bytes} {ext ext' : Option TapExt}
    (hht : ht < 256) (hht' : ht' < 256)
    (wv : U32 tx.version) (wv' : U32 tx'.version) (wl : U32 tx.lockTime) (wl' : U32 tx'.lockTime)
    (wi : tapAcp ht = true → (tx.vin.getD nIn dfltIn).WF ∧ (spent.getD nIn blankOut).WF)
    (wi' : tapAcp ht' = true → (tx'.vin.getD nIn' dfltIn).WF ∧ (spent'.getD nIn' blankOut).WF)
    (hn : nIn < 4294967296) (hn' : nIn' < 4294967296)
    (we : ∀ e, ext = some e → e.WF) (we' : ∀ e, ext' = some e → e.WF)
    (h : bip341Preimage S tx nIn spent ht annex ext = bip341Preimage S tx' nIn' spent' ht' annex' ext') :
    ht = ht' ∧ tx.version = tx'.version ∧ tx.lockTime = tx'.lockTime ∧
    tapTxHashes S tx spent ht = tapTxHashes S tx' spent' ht' ∧
    tapOutputsHash S tx ht = tapOutputsHash S tx' ht' ∧
    ext.isSome = ext'.isSome ∧ annex.isSome = annex'.isSome ∧
    tapInputData tx nIn spent ht = tapInputData tx' nIn' spent' ht' ∧
    tapAnnexHash S annex = tapAnnexHash S annex' ∧
    tapSingleHash S tx nIn ht = tapSingleHash S tx' nIn' ht' ∧
    ext = ext' := by
  unfold bip341Preimage at h
  have h := List.append_cancel_left h
  simp only [List.cons_append, List.nil_append, List.cons.injEq] at h
  obtain ⟨e0, h⟩ := h
  have e0 := u8_ofNat_inj' hht hht' e0
  subst e0
  obtain ⟨e1, h⟩ := le4_prefixInj _ _ _ _ wv wv' h
  obtain ⟨e2, h⟩ := le4_prefixInj _ _ _ _ wl wl' h
  obtain ⟨e3, h⟩ := List.append_inj h (by rw [tapTxHashes_length hS, tapTxHashes_length hS])
  obtain ⟨e4, h⟩ := List.append_inj h (by rw [tapOutputsHash_length hS, tapOutputsHash_length hS])
  simp only [List.cons.injEq] at h
  obtain ⟨e5, h⟩ := h
  obtain ⟨e5a, e5b⟩ := spendType_inj e5
  have e6 : tapInputData tx nIn spent ht = tapInputData tx' nIn' spent' ht ∧
      tapAnnexHash S annex ++ (tapSingleHash S tx nIn ht ++ tapExtBytes ext) =
      tapAnnexHash S annex' ++ (tapSingleHash S tx' nIn' ht ++ tapExtBytes ext') := by
    by_cases hacp : tapAcp ht = true
    · obtain ⟨w1, w2⟩ := wi hacp
      obtain ⟨w1', w2'⟩ := wi' hacp
      simp only [tapInputData, hacp, ↓reduceIte, List.append_assoc] at h ⊢
      obtain ⟨a1, h⟩ := serOutPoint_prefixInj _ _ _ _ w1.prev w1'.prev h
      obtain ⟨a2, h⟩ := le8s_prefixInj _ _ _ _ w2.value w2'.value h
      obtain ⟨a3, h⟩ := varBytes_prefixInj _ _ _ _ w2.spk w2'.spk h
      obtain ⟨a4, h⟩ := le4_prefixInj _ _ _ _ w1.sequence w1'.sequence h
      exact ⟨by rw [a1, a2, a3, a4], h⟩
    · simp only [tapInputData, hacp, Bool.false_eq_true, ↓reduceIte] at h ⊢
      obtain ⟨a1, h⟩ := le4_prefixInj (nIn : Int) (nIn' : Int) _ _ (by unfold U32; omega) (by unfold U32; omega) h
      exact ⟨by rw [a1], h⟩
  obtain ⟨e6, h⟩ := e6
  obtain ⟨e7, h⟩ := List.append_inj h (by rw [tapAnnexHash_length hS, tapAnnexHash_length hS, e5b])
  obtain ⟨e8, h⟩ := List.append_inj h (by rw [tapSingleHash_length hS, tapSingleHash_length hS])
  have e9 : ext = ext' := by
    cases ext with
    | none => cases ext' with
      | none => rfl
      | some _ => simp at e5a
    | some e => cases ext' with
      | none => simp at e5a
      | some e' =>
        simp only [tapExtBytes] at h
        rw [TapExt.ser_inj (we e rfl) (we' e' rfl) h]
  exact ⟨rfl, e1, e2, e3, e4, e5a, e5b, e6, e7, e8, e9⟩

end

end Btc.Sighash
