import Proofs.C09.Refusals
/-
C09 helper lemma: `from_tx`, opened -- whatever it answers is the answer of the ONE single-algorithm function its
dispatch names, on the arguments it derives.  Core Lean only.
-/
namespace Btc.Sighash.Impl
open Btc Btc.Py Btc.Sighash

theorem optR_ok {α : Type} {o : Option α} {x : α} (h : optR o = .ok x) : o = some x := by
  cases o with
  | none => cases h
  | some y => cases h; rfl

theorem fromTx_ok {S H160 : Bytes → Bytes} {prevouts : List TxOut} {tx : Tx} {wits : List (List Bytes)}
    {i ht : Int} {pre : Option Precomputed} {codesep : Int} {d : Bytes}
    (h : fromTx S H160 prevouts tx wits i ht pre codesep = .ok d) :
    0 ≤ i ∧ i < tx.vin.length ∧ prevouts.length = tx.vin.length ∧
    (if isP2tr (prevouts.getD i.toNat blankOut).spk then
      codesep = 0 ∧ ∃ annex ext, annexAndExt S (wits.getD i.toNat []) = .ok (annex, ext) ∧
        taproot S tx i prevouts ht (if ext.isEmpty then 0 else 1) annex ext pre = .ok d
    else ∃ script,
      (if isP2sh (prevouts.getD i.toNat blankOut).spk then
          redeemScript H160 (tx.vin.getD i.toNat dfltIn).scriptSig (prevouts.getD i.toNat blankOut).spk = .ok script
        else script = (prevouts.getD i.toNat blankOut).spk) ∧
      (if isP2wpkh script then
        codesep = 0 ∧ segwitV0 S (p2pkhScript (script.drop 2)) tx i ht (prevouts.getD i.toNat blankOut).value pre = .ok d
      else if isP2wsh script then
        ∃ ws sc, (wits.getD i.toNat []).getLast? = some ws ∧ scriptCodeFrom ws codesep = some sc ∧
          segwitV0 S sc tx i ht (prevouts.getD i.toNat blankOut).value pre = .ok d
      else isP2tr script = false ∧ ∃ sc, scriptCodeFrom script codesep = some sc ∧ legacy S sc tx i ht = .ok d)) := by
  unfold fromTx at h
  obtain ⟨_, _, h⟩ := bind_ok h
  obtain ⟨n, hn, h⟩ := bind_ok h
  obtain ⟨h0, h1, rfl⟩ := assertVin_ok hn
  by_cases hl : prevouts.length ≠ tx.vin.length
  · simp [hl, bind, Except.bind, throw, throwThe, MonadExceptOf.throw] at h
  refine ⟨h0, h1, by omega, ?_⟩
  simp only [hl, ↓reduceIte] at h
  generalize prevouts.getD i.toNat blankOut = po at h ⊢
  generalize wits.getD i.toNat [] = stack at h ⊢
  by_cases ht' : isP2tr po.spk = true
  · simp only [ht', ↓reduceIte] at h ⊢
    by_cases hc : codesep ≠ 0
    · simp [hc, bind, Except.bind, throw, throwThe, MonadExceptOf.throw] at h
    · simp only [hc, ↓reduceIte] at h
      refine ⟨by omega, ?_⟩
      obtain ⟨x, hx, h⟩ := bind_ok h
      obtain ⟨annex, ext⟩ := x
      exact ⟨annex, ext, hx, h⟩
  · simp only [ht', Bool.false_eq_true, ↓reduceIte] at h ⊢
    -- the script the rest dispatches on
    have key : ∀ script,
        ((if isP2wpkh script = true then
            (if codesep ≠ 0 then (throw PyErr.value : R Unit) >>= fun _ =>
                segwitV0 S (p2pkhScript (List.drop 2 script)) tx i ht po.value pre
              else segwitV0 S (p2pkhScript (List.drop 2 script)) tx i ht po.value pre)
          else
            (if isP2wsh script = true then
              match stack.getLast? with
              | none => (throw PyErr.value : R Unit) >>= fun _ =>
                  (if isP2tr script = true then (throw PyErr.value : R Unit) >>= fun _ =>
                      (optR (scriptCodeFrom script codesep) >>= fun sc => legacy S sc tx i ht)
                    else optR (scriptCodeFrom script codesep) >>= fun sc => legacy S sc tx i ht)
              | some ws => optR (scriptCodeFrom ws codesep) >>= fun sc => segwitV0 S sc tx i ht po.value pre
            else
              (if isP2tr script = true then (throw PyErr.value : R Unit) >>= fun _ =>
                  (optR (scriptCodeFrom script codesep) >>= fun sc => legacy S sc tx i ht)
                else optR (scriptCodeFrom script codesep) >>= fun sc => legacy S sc tx i ht))) = .ok d) →
        (if isP2wpkh script then
          codesep = 0 ∧ segwitV0 S (p2pkhScript (script.drop 2)) tx i ht po.value pre = .ok d
        else if isP2wsh script then
          ∃ ws sc, stack.getLast? = some ws ∧ scriptCodeFrom ws codesep = some sc ∧
            segwitV0 S sc tx i ht po.value pre = .ok d
        else isP2tr script = false ∧ ∃ sc, scriptCodeFrom script codesep = some sc ∧ legacy S sc tx i ht = .ok d) := by
      intro script hb
      by_cases h1 : isP2wpkh script = true
      · simp only [h1, ↓reduceIte] at hb ⊢
        by_cases hc : codesep ≠ 0
        · simp [hc, bind, Except.bind, throw, throwThe, MonadExceptOf.throw] at hb
        · simp only [hc, ↓reduceIte] at hb
          exact ⟨by omega, hb⟩
      · simp only [h1, Bool.false_eq_true, ↓reduceIte] at hb ⊢
        by_cases h2 : isP2wsh script = true
        · simp only [h2, ↓reduceIte] at hb ⊢
          cases hg : stack.getLast? with
          | none => simp [hg, bind, Except.bind, throw, throwThe, MonadExceptOf.throw] at hb
          | some ws =>
            simp only [hg] at hb
            obtain ⟨sc, hsc, hb⟩ := bind_ok hb
            exact ⟨ws, sc, rfl, optR_ok hsc, hb⟩
        · simp only [h2, Bool.false_eq_true, ↓reduceIte] at hb ⊢
          by_cases h3 : isP2tr script = true
          · simp [h3, bind, Except.bind, throw, throwThe, MonadExceptOf.throw] at hb
          · simp only [h3, Bool.false_eq_true, ↓reduceIte] at hb
            obtain ⟨sc, hsc, hb⟩ := bind_ok hb
            exact ⟨by simpa using h3, sc, optR_ok hsc, hb⟩
    by_cases hs : isP2sh po.spk = true
    · simp only [hs, ↓reduceIte] at h ⊢
      obtain ⟨script, hr, h⟩ := bind_ok h
      exact ⟨script, hr, key script h⟩
    · simp only [hs, Bool.false_eq_true, ↓reduceIte] at h ⊢
      exact ⟨po.spk, rfl, key po.spk h⟩

end Btc.Sighash.Impl
