import Model.C09.Sighash
/-
C09 helper lemmas, scripts: the op-code walk (`readOp`, `walk`) and OP_CODESEPARATOR removal.
Core Lean only.
-/
namespace Btc.Sighash

open Btc

theorem readOp_spec {s : Bytes} {op : UInt8} {n : Nat} (h : readOp s = some (op, n)) :
    1 ≤ n ∧ n ≤ s.length ∧ s.head? = some op := by
  cases s with
  | nil => simp [readOp] at h
  | cons x rest =>
    simp only [readOp] at h
    split at h
    · split at h
      · split at h
        · simp at h
        · split at h
          · simp at h
          · simp only [Option.some.injEq, Prod.mk.injEq] at h
            obtain ⟨h1, h2⟩ := h
            subst h1 h2
            simp only [List.length_cons, List.head?_cons, and_true]
            rename_i hfit _
            have hp : 0 < 2 ^ (x.toNat - Gen.SigHash.PUSHDATA1) := Nat.two_pow_pos _
            generalize 2 ^ (x.toNat - Gen.SigHash.PUSHDATA1) = size at *
            omega
      · split at h
        · simp at h
        · simp only [Option.some.injEq, Prod.mk.injEq] at h
          obtain ⟨h1, h2⟩ := h
          subst h1 h2
          simp only [List.length_cons, List.head?_cons, and_true]
          omega
    · simp only [Option.some.injEq, Prod.mk.injEq] at h
      obtain ⟨h1, h2⟩ := h
      subst h1 h2
      simp

/-- an operation is read from its own bytes alone: what follows it does not matter -/
theorem readOp_take_append {s : Bytes} {op : UInt8} {n : Nat} (h : readOp s = some (op, n)) (r : Bytes) :
    readOp (s.take n ++ r) = some (op, n) := by
  cases s with
  | nil => simp [readOp] at h
  | cons x rest =>
    simp only [readOp] at h
    split at h
    next hpush =>
      split at h
      next hdata =>
        split at h
        · simp at h
        next hsz =>
          split at h
          · simp at h
          next hfit =>
            simp only [Option.some.injEq, Prod.mk.injEq] at h
            obtain ⟨h1, h2⟩ := h
            subst h1 h2
            have e : (x :: rest).take (1 + (2 ^ (x.toNat - Gen.SigHash.PUSHDATA1) +
                ofLE (List.take (2 ^ (x.toNat - Gen.SigHash.PUSHDATA1)) rest))) =
                x :: rest.take (2 ^ (x.toNat - Gen.SigHash.PUSHDATA1) +
                  ofLE (List.take (2 ^ (x.toNat - Gen.SigHash.PUSHDATA1)) rest)) := by
              rw [Nat.add_comm 1]; rfl
            rw [e]
            simp only [List.cons_append, readOp, hpush, hdata, ↓reduceIte]
            have hl : (List.take (2 ^ (x.toNat - Gen.SigHash.PUSHDATA1) +
                ofLE (List.take (2 ^ (x.toNat - Gen.SigHash.PUSHDATA1)) rest)) rest ++ r).length ≥
                2 ^ (x.toNat - Gen.SigHash.PUSHDATA1) +
                ofLE (List.take (2 ^ (x.toNat - Gen.SigHash.PUSHDATA1)) rest) := by
              simp only [List.length_append, List.length_take]; omega
            have ht : List.take (2 ^ (x.toNat - Gen.SigHash.PUSHDATA1))
                (List.take (2 ^ (x.toNat - Gen.SigHash.PUSHDATA1) +
                  ofLE (List.take (2 ^ (x.toNat - Gen.SigHash.PUSHDATA1)) rest)) rest ++ r) =
                List.take (2 ^ (x.toNat - Gen.SigHash.PUSHDATA1)) rest := by
              rw [List.take_append_of_le_length (by simp only [List.length_take]; omega), List.take_take]
              congr 1; omega
            rw [ht]
            have h1 : ¬ ((List.take (2 ^ (x.toNat - Gen.SigHash.PUSHDATA1) +
                ofLE (List.take (2 ^ (x.toNat - Gen.SigHash.PUSHDATA1)) rest)) rest ++ r).length <
                2 ^ (x.toNat - Gen.SigHash.PUSHDATA1)) := by omega
            have h2 : ¬ (2 ^ (x.toNat - Gen.SigHash.PUSHDATA1) +
                ofLE (List.take (2 ^ (x.toNat - Gen.SigHash.PUSHDATA1)) rest) >
                (List.take (2 ^ (x.toNat - Gen.SigHash.PUSHDATA1) +
                ofLE (List.take (2 ^ (x.toNat - Gen.SigHash.PUSHDATA1)) rest)) rest ++ r).length) := by omega
            simp only [h1, h2, ↓reduceIte]
            simp
      next hdata =>
        split at h
        · simp at h
        next hfit =>
          simp only [Option.some.injEq, Prod.mk.injEq] at h
          obtain ⟨h1, h2⟩ := h
          subst h1 h2
          have e : (x :: rest).take (1 + x.toNat) = x :: rest.take x.toNat := by
            rw [Nat.add_comm 1]; rfl
          rw [e]
          simp only [List.cons_append, readOp, hpush, hdata, ↓reduceIte]
          have h1 : ¬ (x.toNat > (List.take x.toNat rest ++ r).length) := by
            simp only [List.length_append, List.length_take]; omega
          simp only [h1, ↓reduceIte]
          simp
    next hpush =>
      simp only [Option.some.injEq, Prod.mk.injEq] at h
      obtain ⟨h1, h2⟩ := h
      subst h1 h2
      simp [readOp, hpush]

/-- `Walks s cs t`: reading `s` operation by operation gives the chunks `cs` and stops at `t`,
    from which no operation can be read. -/
inductive Walks : Bytes → List Bytes → Bytes → Prop
  | done {s : Bytes} : readOp s = none → Walks s [] s
  | step {s : Bytes} {op : UInt8} {n : Nat} {cs : List Bytes} {t : Bytes} :
      readOp s = some (op, n) → Walks (s.drop n) cs t → Walks s (s.take n :: cs) t

theorem walkAux_walks : ∀ (fuel : Nat) (s : Bytes), s.length ≤ fuel →
    Walks s (walkAux fuel s).1 (walkAux fuel s).2
  | 0, s, h => by
    have : s = [] := List.eq_nil_of_length_eq_zero (by omega)
    subst this
    exact Walks.done rfl
  | fuel + 1, s, h => by
    simp only [walkAux]
    split
    next hr => exact Walks.done hr
    next op n hr =>
      have := readOp_spec hr
      exact Walks.step hr (walkAux_walks fuel (s.drop n) (by simp only [List.length_drop]; omega))

theorem walk_walks (s : Bytes) : Walks s (walk s).1 (walk s).2 := walkAux_walks _ s (Nat.le_refl _)

theorem Walks.unique {s : Bytes} {cs cs' : List Bytes} {t t' : Bytes} (h : Walks s cs t) (h' : Walks s cs' t') :
    cs = cs' ∧ t = t' := by
  induction h generalizing cs' t' with
  | done hr =>
    cases h' with
    | done _ => exact ⟨rfl, rfl⟩
    | step hr' _ => rw [hr] at hr'; cases hr'
  | step hr _ ih =>
    cases h' with
    | done hr' => rw [hr] at hr'; cases hr'
    | step hr' hw' =>
      rw [hr] at hr'
      cases hr'
      obtain ⟨h1, h2⟩ := ih hw'
      exact ⟨by rw [h1], h2⟩

theorem Walks.eq_walk {s : Bytes} {cs : List Bytes} {t : Bytes} (h : Walks s cs t) : walk s = (cs, t) := by
  obtain ⟨h1, h2⟩ := (walk_walks s).unique h
  exact Prod.ext h1 h2

/-- the chunks and the tail are the script, byte for byte -/
theorem Walks.flatten {s : Bytes} {cs : List Bytes} {t : Bytes} (h : Walks s cs t) : cs.flatten ++ t = s := by
  induction h with
  | done _ => simp
  | step _ _ ih => simp only [List.flatten_cons, List.append_assoc, ih, List.take_append_drop]

theorem Walks.tail_unreadable {s : Bytes} {cs : List Bytes} {t : Bytes} (h : Walks s cs t) : readOp t = none := by
  induction h with
  | done hr => exact hr
  | step _ _ ih => exact ih

/-- every chunk is one whole operation: reading it back, whatever follows, gives the chunk -/
theorem Walks.chunk_whole {s : Bytes} {cs : List Bytes} {t : Bytes} (h : Walks s cs t) :
    ∀ c ∈ cs, ∃ op, c.head? = some op ∧ ∀ r, readOp (c ++ r) = some (op, c.length) := by
  induction h with
  | done _ => simp
  | @step s op n cs t hr _ ih =>
    intro c hc
    simp only [List.mem_cons] at hc
    cases hc with
    | inl h1 =>
      subst h1
      have sp := readOp_spec hr
      refine ⟨op, ?_, ?_⟩
      · cases s with
        | nil => simp at sp
        | cons x xs =>
          have : n = (n - 1) + 1 := by omega
          rw [this]; simpa using sp.2.2
      · intro r
        have : (List.take n s).length = n := by simp only [List.length_take]; omega
        rw [this]
        exact readOp_take_append hr r
    | inr h1 => exact ih c h1

/-- chunks made of whole operations followed by an unreadable tail walk back to themselves -/
theorem walks_of_whole : ∀ (cs : List Bytes) (t : Bytes), readOp t = none →
    (∀ c ∈ cs, ∃ op, c.head? = some op ∧ ∀ r, readOp (c ++ r) = some (op, c.length)) →
    Walks (cs.flatten ++ t) cs t
  | [], t, ht, _ => by simpa using Walks.done ht
  | c :: cs, t, ht, hc => by
    obtain ⟨op, _, hr⟩ := hc c (by simp)
    have ih := walks_of_whole cs t ht (fun c' h' => hc c' (by simp [h']))
    have hr' := hr (cs.flatten ++ t)
    have e : (c :: cs).flatten ++ t = c ++ (cs.flatten ++ t) := by simp
    rw [e]
    have st := Walks.step (s := c ++ (cs.flatten ++ t)) hr' (by simpa using ih)
    simpa using st

/-- T4 core: walking the stripped script gives exactly the chunks that are not OP_CODESEPARATOR, in
    order and byte for byte, and the same unreadable tail. -/
theorem walk_withoutCodeSeparators (s : Bytes) :
    walk (withoutCodeSeparators s) = ((walk s).1.filter (fun c => !chunkIsSep c), (walk s).2) := by
  have w := walk_walks s
  unfold withoutCodeSeparators
  apply Walks.eq_walk
  apply walks_of_whole _ _ w.tail_unreadable
  intro c hc
  exact w.chunk_whole c (List.mem_filter.mp hc).1

theorem withoutCodeSeparators_idem (s : Bytes) :
    withoutCodeSeparators (withoutCodeSeparators s) = withoutCodeSeparators s := by
  have e : ∀ x, withoutCodeSeparators x =
      ((walk x).1.filter (fun c => !chunkIsSep c)).flatten ++ (walk x).2 := fun _ => rfl
  rw [e (withoutCodeSeparators s), walk_withoutCodeSeparators, e s]
  simp only [List.filter_filter, Bool.and_self]

theorem walk_reconstructs (s : Bytes) : (walk s).1.flatten ++ (walk s).2 = s := (walk_walks s).flatten

private theorem filter_flatten_length_le (p : Bytes → Bool) (l : List Bytes) :
    ((l.filter p).flatten).length ≤ l.flatten.length := by
  induction l with
  | nil => simp
  | cons x xs ih =>
    simp only [List.filter_cons]
    split <;> simp only [List.flatten_cons, List.length_append] <;> omega

theorem withoutCodeSeparators_length_le (s : Bytes) : (withoutCodeSeparators s).length ≤ s.length := by
  have h := congrArg List.length (walk_reconstructs s)
  unfold withoutCodeSeparators
  have := filter_flatten_length_le (fun c => !chunkIsSep c) (walk s).1
  simp only [List.length_append] at h ⊢
  omega


/-! ### `_script_code_from`: the suffix after the k-th OP_CODESEPARATOR operation -/

/-- the chunks after the k-th OP_CODESEPARATOR chunk (`k ≥ 1`; occurrences are operations, never bytes of a push) -/
def afterKthSep : List Bytes → Nat → Option (List Bytes)
  | [], _ => none
  | c :: cs, k =>
    if chunkIsSep c then (if k ≤ 1 then some cs else afterKthSep cs (k - 1)) else afterKthSep cs k

theorem chunkIsSep_take {s : Bytes} {op : UInt8} {n : Nat} (h : readOp s = some (op, n)) :
    chunkIsSep (s.take n) = isSep op := by
  have sp := readOp_spec h
  cases s with
  | nil => simp at sp
  | cons x xs =>
    have : n = (n - 1) + 1 := by omega
    rw [this]
    have hx : x = op := by simpa using sp.2.2
    simp [chunkIsSep, hx]

theorem scriptCodeFromAux_walks {s : Bytes} {cs : List Bytes} {t : Bytes} (w : Walks s cs t) :
    ∀ (fuel k : Nat), s.length ≤ fuel →
      scriptCodeFromAux fuel s k = (afterKthSep cs k).map (fun post => post.flatten ++ t) := by
  induction w with
  | done hr =>
    intro fuel k _
    cases fuel with
    | zero => simp [scriptCodeFromAux, afterKthSep]
    | succ f => simp [scriptCodeFromAux, hr, afterKthSep]
  | @step s op n cs t hr hw ih =>
    intro fuel k hf
    have sp := readOp_spec hr
    cases fuel with
    | zero => omega
    | succ f =>
      have hf' : (s.drop n).length ≤ f := by simp only [List.length_drop]; omega
      simp only [scriptCodeFromAux, hr, afterKthSep, chunkIsSep_take hr]
      by_cases hsep : isSep op = true
      · simp only [hsep, ↓reduceIte]
        by_cases hk : k ≤ 1
        · simp only [hk, ↓reduceIte, Option.map_some, hw.flatten]
        · simp only [hk, ↓reduceIte]
          exact ih f (k - 1) hf'
      · simp only [hsep, Bool.false_eq_true, ↓reduceIte]
        exact ih f k hf'

theorem afterKthSep_some : ∀ (cs : List Bytes) (k : Nat) (post : List Bytes), 1 ≤ k → afterKthSep cs k = some post →
    ∃ pre c, cs = pre ++ c :: post ∧ chunkIsSep c = true ∧ pre.countP chunkIsSep + 1 = k
  | [], _, _, _, h => by simp [afterKthSep] at h
  | c :: cs, k, post, hk, h => by
    simp only [afterKthSep] at h
    by_cases hsep : chunkIsSep c = true
    · simp only [hsep, ↓reduceIte] at h
      by_cases hk1 : k ≤ 1
      · simp only [hk1, ↓reduceIte, Option.some.injEq] at h
        subst h
        exact ⟨[], c, rfl, hsep, by simp; omega⟩
      · simp only [hk1, ↓reduceIte] at h
        obtain ⟨pre, c', e, hc', hn⟩ := afterKthSep_some cs (k - 1) post (by omega) h
        exact ⟨c :: pre, c', by simp [e], hc', by simp [List.countP_cons, hsep]; omega⟩
    · simp only [hsep, Bool.false_eq_true, ↓reduceIte] at h
      obtain ⟨pre, c', e, hc', hn⟩ := afterKthSep_some cs k post hk h
      exact ⟨c :: pre, c', by simp [e], hc', by simp [List.countP_cons, hsep]; omega⟩

theorem afterKthSep_none : ∀ (cs : List Bytes) (k : Nat), 1 ≤ k →
    (afterKthSep cs k = none ↔ cs.countP chunkIsSep < k)
  | [], k, hk => by simp [afterKthSep]; omega
  | c :: cs, k, hk => by
    simp only [afterKthSep, List.countP_cons]
    by_cases hsep : chunkIsSep c = true
    · simp only [hsep, ↓reduceIte]
      by_cases hk1 : k ≤ 1
      · simp only [hk1, ↓reduceIte]
        constructor
        · intro h; cases h
        · intro h; omega
      · simp only [hk1, ↓reduceIte]
        rw [afterKthSep_none cs (k - 1) (by omega)]
        omega
    · simp only [hsep, Bool.false_eq_true, ↓reduceIte]
      rw [afterKthSep_none cs k hk]
      omega

/-- `_script_code_from s k` for `k ≥ 1`: the bytes after the k-th OP_CODESEPARATOR *operation* of the walk -/
theorem scriptCodeFrom_some {s r : Bytes} {k : Int} (hk : 1 ≤ k) (h : scriptCodeFrom s k = some r) :
    ∃ pre c post, (walk s).1 = pre ++ c :: post ∧ chunkIsSep c = true ∧ pre.countP chunkIsSep + 1 = k.toNat ∧
      r = post.flatten ++ (walk s).2 ∧ s = (pre.flatten ++ c) ++ r := by
  unfold scriptCodeFrom at h
  have h1 : ¬ k < 0 := by omega
  have h2 : ¬ k = 0 := by omega
  simp only [h1, h2, ↓reduceIte] at h
  rw [scriptCodeFromAux_walks (walk_walks s) _ _ (Nat.le_refl _)] at h
  cases ha : afterKthSep (walk s).1 k.toNat with
  | none => simp [ha] at h
  | some post =>
    simp only [ha, Option.map_some, Option.some.injEq] at h
    obtain ⟨pre, c, e, hc, hn⟩ := afterKthSep_some _ _ _ (by omega) ha
    refine ⟨pre, c, post, e, hc, hn, h.symm, ?_⟩
    have := walk_reconstructs s
    rw [e] at this
    subst h
    simpa using this.symm

theorem scriptCodeFrom_none {s : Bytes} {k : Int} (hk : 1 ≤ k) :
    scriptCodeFrom s k = none ↔ (walk s).1.countP chunkIsSep < k.toNat := by
  unfold scriptCodeFrom
  have h1 : ¬ k < 0 := by omega
  have h2 : ¬ k = 0 := by omega
  simp only [h1, h2, ↓reduceIte]
  rw [scriptCodeFromAux_walks (walk_walks s) _ _ (Nat.le_refl _)]
  rw [← afterKthSep_none _ _ (by omega)]
  cases afterKthSep (walk s).1 k.toNat <;> simp

end Btc.Sighash
