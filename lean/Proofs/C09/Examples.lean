import Model.C09.Sighash
/-
C09: concrete well-formed instances used by the non-vacuity `example`s of Props/C09.lean (kept out of Props so
that they are not counted as property obligations).
-/
namespace Props.C09
open Btc Btc.Sighash

def exTx : Tx := ⟨2, [⟨⟨List.replicate 32 7, 1⟩, [], 0xFFFFFFFE⟩], [⟨1000, [0x51]⟩], 0⟩

theorem exTx_wf : exTx.WF := by
  refine ⟨by decide, by decide, ?_, ?_, by decide, by decide⟩
  · intro i hi
    simp only [exTx, List.mem_singleton] at hi
    subst hi
    exact ⟨⟨by decide, by decide⟩, by unfold Sized; decide, by decide⟩
  · intro o ho
    simp only [exTx, List.mem_singleton] at ho
    subst ho
    exact ⟨by decide, by unfold Sized; decide⟩
def exExt : TapExt := ⟨List.replicate 32 9, 0, 4294967295⟩
theorem exExt_wf : exExt.WF := ⟨by decide, by decide, by decide⟩
def exH : Bytes → Bytes := fun b => (b ++ List.replicate 32 0).take 32
theorem exH_len : ∀ x, (exH x).length = 32 := by intro x; simp [exH]

end Props.C09
