import Model.C09.Sighash
import Proofs.Common.Bytes
import Generated.VarInt
/-
C09 helper lemmas, wire layer: every piece of a preimage can be read back from the front
(`PrefixInj`), which is what makes equal preimages mean equal committed fields.  Core Lean only.
-/
namespace Btc.Sighash

open Btc

/-! ### fixed-width integers -/

theorem leBytes_inj {k a b : Nat} (h : leBytes k a = leBytes k b) (ha : a < 256 ^ k) (hb : b < 256 ^ k) :
    a = b := by
  have := congrArg ofLE h
  rw [ofLE_leBytes, ofLE_leBytes, Nat.mod_eq_of_lt ha, Nat.mod_eq_of_lt hb] at this
  exact this

@[simp] theorem le4_length (x : Int) : (le4 x).length = 4 := by simp [le4]
@[simp] theorem le8s_length (x : Int) : (le8s x).length = 8 := by simp [le8s]

theorem le4_inj {a b : Int} (ha : U32 a) (hb : U32 b) (h : le4 a = le4 b) : a = b := by
  unfold U32 at ha hb
  have := leBytes_inj h (by omega) (by omega)
  omega

theorem le8s_inj {a b : Int} (ha : I64 a) (hb : I64 b) (h : le8s a = le8s b) : a = b := by
  unfold I64 at ha hb
  have h1 : (a % 18446744073709551616).toNat < 256 ^ 8 := by omega
  have h2 : (b % 18446744073709551616).toNat < 256 ^ 8 := by omega
  have := leBytes_inj h h1 h2
  omega

/-! ### CompactSize -/

theorem compactSize_length (n : Nat) :
    (compactSize n).length = if n < 253 then 1 else if n ≤ 65535 then 3 else if n ≤ 4294967295 then 5 else 9 := by
  unfold compactSize
  repeat' split
  all_goals simp

theorem compactSize_ne_nil (n : Nat) : compactSize n ≠ [] := by
  unfold compactSize
  repeat' split
  all_goals simp

private theorem u8_ofNat_inj {a b : Nat} (ha : a < 256) (hb : b < 256) (h : UInt8.ofNat a = UInt8.ofNat b) : a = b := by
  have := congrArg UInt8.toNat h
  simp [UInt8.toNat_ofNat'] at this
  omega

private theorem u8_ofNat_ne {a : Nat} (ha : a < 253) (c : UInt8) (hc : c.toNat ≥ 253) : UInt8.ofNat a ≠ c := by
  intro h
  have := congrArg UInt8.toNat h
  simp [UInt8.toNat_ofNat'] at this
  omega

/-- a CompactSize can be read back from the front of anything it is followed by -/
theorem compactSize_prefix_inj {n m : Nat} {r r' : Bytes} (hn : n < 18446744073709551616)
    (hm : m < 18446744073709551616) (h : compactSize n ++ r = compactSize m ++ r') : n = m ∧ r = r' := by
  unfold compactSize at h
  split at h <;> split at h <;> (try split at h) <;> (try split at h) <;> (try split at h) <;> (try split at h) <;>
    simp only [List.cons_append, List.nil_append, List.cons.injEq] at h
  all_goals first
    | (obtain ⟨h1, h2⟩ := h
       first
        | (have := u8_ofNat_inj (by omega) (by omega) h1; exact ⟨this, h2⟩)
        | (exact absurd h1 (u8_ofNat_ne (by omega) _ (by decide)))
        | (exact absurd h1.symm (u8_ofNat_ne (by omega) _ (by decide)))
        | (exact absurd h1 (by decide))
        | (have hl := List.append_inj h2 (by simp)
           have := leBytes_inj hl.1 (by omega) (by omega)
           exact ⟨this, hl.2⟩))

/-! ### reading back from the front -/

/-- `ser` can be read back from the front of whatever follows it, on the values satisfying `P` -/
def PrefixInj (P : α → Prop) (ser : α → Bytes) : Prop :=
  ∀ a b r r', P a → P b → ser a ++ r = ser b ++ r' → a = b ∧ r = r'

theorem PrefixInj.inj {P : α → Prop} {ser : α → Bytes} (h : PrefixInj P ser) {a b : α} (ha : P a) (hb : P b)
    (e : ser a = ser b) : a = b :=
  (h a b [] [] ha hb (by simp [e])).1

/-- a fixed-width encoding that is injective reads back from the front -/
theorem prefixInj_of_fixed {P : α → Prop} {ser : α → Bytes} (k : Nat) (hlen : ∀ a, P a → (ser a).length = k)
    (hinj : ∀ a b, P a → P b → ser a = ser b → a = b) : PrefixInj P ser := by
  intro a b r r' ha hb h
  have := List.append_inj h (by rw [hlen a ha, hlen b hb])
  exact ⟨hinj a b ha hb this.1, this.2⟩

theorem le4_prefixInj : PrefixInj U32 le4 :=
  prefixInj_of_fixed 4 (fun _ _ => le4_length _) (fun _ _ ha hb h => le4_inj ha hb h)

theorem le8s_prefixInj : PrefixInj I64 le8s :=
  prefixInj_of_fixed 8 (fun _ _ => le8s_length _) (fun _ _ ha hb h => le8s_inj ha hb h)

theorem varBytes_prefixInj : PrefixInj Sized varBytes := by
  intro a b r r' ha hb h
  unfold varBytes at h
  rw [List.append_assoc, List.append_assoc] at h
  obtain ⟨hl, h2⟩ := compactSize_prefix_inj ha hb h
  have := List.append_inj h2 hl
  exact this

theorem serOutPoint_prefixInj : PrefixInj OutPoint.WF serOutPoint := by
  intro a b r r' ha hb h
  unfold serOutPoint at h
  rw [List.append_assoc, List.append_assoc] at h
  obtain ⟨h1, h2⟩ := List.append_inj h (by rw [ha.txid, hb.txid])
  obtain ⟨h3, h4⟩ := le4_prefixInj _ _ _ _ ha.vout hb.vout h2
  refine ⟨?_, h4⟩
  cases a; cases b; simp_all

theorem serTxOut_prefixInj : PrefixInj TxOut.WF serTxOut := by
  intro a b r r' ha hb h
  unfold serTxOut at h
  rw [List.append_assoc, List.append_assoc] at h
  obtain ⟨h1, h2⟩ := le8s_prefixInj _ _ _ _ ha.value hb.value h
  obtain ⟨h3, h4⟩ := varBytes_prefixInj _ _ _ _ ha.spk hb.spk h2
  refine ⟨?_, h4⟩
  cases a; cases b; simp_all

theorem serTxIn_prefixInj : PrefixInj TxIn.WF serTxIn := by
  intro a b r r' ha hb h
  unfold serTxIn at h
  simp only [List.append_assoc] at h
  obtain ⟨h1, h2⟩ := serOutPoint_prefixInj _ _ _ _ ha.prev hb.prev h
  obtain ⟨h3, h4⟩ := varBytes_prefixInj _ _ _ _ ha.script hb.script h2
  obtain ⟨h5, h6⟩ := le4_prefixInj _ _ _ _ ha.sequence hb.sequence h4
  refine ⟨?_, h6⟩
  cases a; cases b; simp_all

/-- a known number of items, one after the other -/
theorem flatMap_prefix_inj {P : α → Prop} {ser : α → Bytes} (hs : PrefixInj P ser) :
    ∀ (l l' : List α) (r r' : Bytes), (∀ x ∈ l, P x) → (∀ x ∈ l', P x) → l.length = l'.length →
      l.flatMap ser ++ r = l'.flatMap ser ++ r' → l = l' ∧ r = r'
  | [], [], r, r', _, _, _, h => by simpa using h
  | [], _ :: _, _, _, _, _, hl, _ => by simp at hl
  | _ :: _, [], _, _, _, _, hl, _ => by simp at hl
  | x :: xs, y :: ys, r, r', hP, hP', hl, h => by
    simp only [List.flatMap_cons, List.append_assoc] at h
    obtain ⟨h1, h2⟩ := hs x y _ _ (hP x (by simp)) (hP' y (by simp)) h
    obtain ⟨h3, h4⟩ := flatMap_prefix_inj hs xs ys r r' (fun z hz => hP z (by simp [hz]))
      (fun z hz => hP' z (by simp [hz])) (by simpa using hl) h2
    exact ⟨by rw [h1, h3], h4⟩

/-- a CompactSize count, then that many items -/
theorem counted_prefix_inj {P : α → Prop} {ser : α → Bytes} (hs : PrefixInj P ser) (l l' : List α) (r r' : Bytes)
    (hP : ∀ x ∈ l, P x) (hP' : ∀ x ∈ l', P x) (hn : l.length < 18446744073709551616)
    (hn' : l'.length < 18446744073709551616)
    (h : compactSize l.length ++ (l.flatMap ser ++ r) = compactSize l'.length ++ (l'.flatMap ser ++ r')) :
    l = l' ∧ r = r' := by
  obtain ⟨h1, h2⟩ := compactSize_prefix_inj hn hn' h
  exact flatMap_prefix_inj hs l l' r r' hP hP' h1 h2

/-- the stripped transaction serialization reads back from the front -/
theorem serTx_prefixInj : PrefixInj Tx.WF serTx := by
  intro a b r r' ha hb h
  unfold serTx at h
  simp only [List.append_assoc] at h
  obtain ⟨h1, h2⟩ := le4_prefixInj _ _ _ _ ha.version hb.version h
  obtain ⟨h3, h4⟩ := counted_prefix_inj serTxIn_prefixInj _ _ _ _ ha.vin hb.vin ha.nin hb.nin h2
  obtain ⟨h5, h6⟩ := counted_prefix_inj serTxOut_prefixInj _ _ _ _ ha.vout hb.vout ha.nout hb.nout h4
  obtain ⟨h7, h8⟩ := le4_prefixInj _ _ _ _ ha.lockTime hb.lockTime h6
  refine ⟨?_, h8⟩
  cases a; cases b; simp_all

/-! ### the CompactSize writer is the translated `var_int.serialize` -/

theorem compactSize_eq_gen (n : Nat) (hn : n < 18446744073709551616) :
    Gen.VarInt.serialize (n : Int) = .ok (compactSize n) := by
  unfold Gen.VarInt.serialize compactSize
  have h0 : ¬ ((n : Int) < 0) := by omega
  simp only [h0, ↓reduceIte]
  by_cases h1 : n < 253
  · have : (n : Int) < 253 := by omega
    simp [this, h1, Py.byteOf]
    omega
  · have h1' : ¬ (n : Int) < 253 := by omega
    simp only [h1', h1, ↓reduceIte]
    by_cases h2 : n ≤ 65535
    · have : (n : Int) ≤ 65535 := by omega
      have e : ¬ (65536 ≤ n) := by omega
      simp [this, h2, Py.toBytesLE, bind, Except.bind, pure, Except.pure, h0, e]
    · have h2' : ¬ (n : Int) ≤ 65535 := by omega
      simp only [h2', h2, ↓reduceIte]
      by_cases h3 : n ≤ 4294967295
      · have : (n : Int) ≤ 4294967295 := by omega
        have e : ¬ (4294967296 ≤ n) := by omega
        simp [this, h3, Py.toBytesLE, bind, Except.bind, pure, Except.pure, h0, e]
      · have h3' : ¬ (n : Int) ≤ 4294967295 := by omega
        have h4 : (n : Int) ≤ 18446744073709551615 := by omega
        have e : ¬ (18446744073709551616 ≤ n) := by omega
        simp [h3', h3, h4, Py.toBytesLE, bind, Except.bind, pure, Except.pure, h0, e]

end Btc.Sighash
