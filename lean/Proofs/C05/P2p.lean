import Model.C05.P2p
import Proofs.C05.Tx
/-! Lawfulness of the p2p envelope and of the payload classes built from the generic codecs. -/
namespace Btc.Wire
open Btc

theorem printable_ne_zero (x : UInt8) (h : printable x = true) : (x != 0) = true := by
  simp only [printable, Bool.and_eq_true, decide_eq_true_eq] at h
  have h1 : 32 ≤ x.toNat := h.1
  simp only [bne_iff_ne, ne_eq]
  intro hx; subst hx; simp at h1

theorem takeWhile_pad (c : Bytes) (k : Nat) (h : c.all printable = true) :
    (c ++ List.replicate k 0).takeWhile (· != 0) = c ∧
    (c ++ List.replicate k 0).dropWhile (· != 0) = List.replicate k 0 := by
  induction c with
  | nil =>
    cases k with
    | zero => simp
    | succ k => simp [List.replicate_succ]
  | cons x xs ih =>
    simp only [List.all_cons, Bool.and_eq_true] at h
    have hx := printable_ne_zero x h.1
    have := ih h.2
    simp only [List.cons_append, List.takeWhile_cons, List.dropWhile_cons, hx, if_true, this, and_self]

theorem commandFromBytes_pad (c : Bytes) (k : Nat) (h : c.all printable = true) :
    commandFromBytes (c ++ List.replicate k 0) = .ok c := by
  have ⟨a, b⟩ := takeWhile_pad c k h
  unfold commandFromBytes
  simp only [a, b]
  have h1 : (List.replicate k (0 : UInt8)).any (· != 0) = false := by
    simp [List.any_replicate]
  have h2 : c.any (fun x => !printable x) = false := by
    rw [List.any_eq_false]
    intro x hx
    have := List.all_eq_true.1 h x hx
    simp [this]
  simp [h1, h2]

theorem commandFromBytes_sound (o c : Bytes) (h : commandFromBytes o = .ok c) :
    c.all printable = true ∧ c.length ≤ o.length ∧ o = c ++ List.replicate (o.length - c.length) 0 := by
  unfold commandFromBytes at h
  simp only at h
  split at h
  · cases h
  · rename_i hpad
    split at h
    · cases h
    · rename_i hcmd
      cases h
      have e := List.takeWhile_append_dropWhile (p := (· != 0)) (l := o)
      have hz : o.dropWhile (· != 0) = List.replicate (o.dropWhile (· != 0)).length 0 := by
        apply List.eq_replicate_iff.2
        refine ⟨rfl, ?_⟩
        intro x hx
        have : ¬ ((o.dropWhile (· != 0)).any (· != 0) = true) := hpad
        rw [List.any_eq_true] at this
        by_cases hx0 : x = 0
        · exact hx0
        · exact absurd ⟨x, hx, by simpa using hx0⟩ this
      have hl : o.length = (o.takeWhile (· != 0)).length + (o.dropWhile (· != 0)).length := by
        have := congrArg List.length e
        simp only [List.length_append] at this
        omega
      refine ⟨?_, by omega, ?_⟩
      · rw [List.all_eq_true]
        intro x hx
        have : ¬ ((o.takeWhile (· != 0)).any (fun c => !printable c) = true) := hcmd
        rw [List.any_eq_true] at this
        by_cases hp : printable x = true
        · exact hp
        · exact absurd ⟨x, hx, by simpa using hp⟩ this
      · have : o.length - (o.takeWhile (· != 0)).length = (o.dropWhile (· != 0)).length := by omega
        rw [this, ← hz, e]

theorem cmdSize : Gen.Wire.MSG_COMMAND_SIZE = 12 := rfl

theorem lawful_command12 : Lawful command12 where
  parse_ser t rest hv := by
    simp only [command12] at hv ⊢
    have hl : (padCommand t).length = Gen.Wire.MSG_COMMAND_SIZE := by
      simp only [padCommand, List.length_append, List.length_replicate]; omega
    have h1 : ¬ (padCommand t ++ rest).length < Gen.Wire.MSG_COMMAND_SIZE := by
      simp only [List.length_append, hl]; omega
    simp only [h1, if_false]
    rw [List.take_left' hl, List.drop_left' hl]
    simp only [padCommand, commandFromBytes_pad t _ hv.2]
  ser_parse b t rest hp := by
    simp only [command12] at hp ⊢
    split at hp
    · cases hp
    · rename_i hlen
      split at hp
      · cases hp
      · rename_i c hc
        cases hp
        have ⟨a, bl, e⟩ := commandFromBytes_sound _ _ hc
        have hl : (b.take Gen.Wire.MSG_COMMAND_SIZE).length = Gen.Wire.MSG_COMMAND_SIZE := by
          simp only [List.length_take]; omega
        rw [hl] at bl e
        refine ⟨⟨bl, a⟩, ?_⟩
        simp only [padCommand]
        rw [← e, List.take_append_drop]
  size_eq t hv := by
    simp only [command12, padCommand, List.length_append, List.length_replicate] at hv ⊢
    omega

theorem lawful_msgHead : Lawful msgHead := by
  have hf := lawful_pair (lawful_bytesN Gen.Wire.MSG_MAGIC_SIZE .incomplete) (lawful_pair lawful_command12
    (lawful_pair (lawful_refine (lawful_uintLE Gen.Wire.MSG_LENGTH_SIZE)
        (fun n => decide (n ≤ Gen.Wire.MAX_PROTOCOL_MESSAGE_LENGTH)) .toobig)
      (lawful_bytesN Gen.Wire.MSG_CHECKSUM_SIZE .incomplete)))
  have hm := lawful_map hf (fun p => (⟨p.1, p.2.1, p.2.2.1, p.2.2.2⟩ : MsgHead))
    (fun h => (h.magic, h.command, h.length, h.checksum)) (fun _ _ => rfl)
  apply lawful_guardLen hm
  intro t hv
  rw [← hm.size_eq t hv]
  exact Nat.le_of_eq rfl

theorem lawful_msg (H : Bytes → Bytes) : Lawful (msg H) := by
  apply lawful_prefixedBy lawful_msgHead
  · intro h
    exact lawful_map (lawful_refine (lawful_bytesN _ _) _ _) _ _ (fun _ _ => rfl)
  · intro k x hv
    simp only [Codec.map, Codec.refine, bytesN, beq_iff_eq] at hv
    obtain ⟨⟨hl, hc⟩, hx⟩ := hv
    have h1 := congrArg Msg.magic hx
    have h2 := congrArg Msg.command hx
    simp only at h1 h2
    cases k
    simp_all [Msg.head]

/-- what a valid message is, for a hash with at least four output bytes -/
theorem msg_valid (H : Bytes → Bytes) (hH : ∀ x, 4 ≤ (H x).length) (m : Msg) :
    (msg H).valid m ↔ m.magic.length = 4 ∧ (m.command.length ≤ 12 ∧ m.command.all printable = true)
      ∧ m.payload.length ≤ Gen.Wire.MAX_PROTOCOL_MESSAGE_LENGTH := by
  have h4 : ((H m.payload).take Gen.Wire.MSG_CHECKSUM_SIZE).length = 4 := by
    have := hH m.payload
    simp only [List.length_take, show Gen.Wire.MSG_CHECKSUM_SIZE = 4 from rfl]; omega
  have hmax : Gen.Wire.MAX_PROTOCOL_MESSAGE_LENGTH < 256 ^ Gen.Wire.MSG_LENGTH_SIZE := by decide
  simp only [msg, prefixedBy, msgHead, Codec.guardLen, Codec.map, Codec.refine, pair, bytesN, command12,
    Msg.head, uintLE_valid, decide_eq_true_eq, beq_self_eq_true, and_true, h4]
  constructor
  · rintro ⟨a, b, ⟨_, c⟩, _⟩
    exact ⟨a, b, c⟩
  · rintro ⟨a, b, c⟩
    exact ⟨a, b, ⟨by omega, c⟩, rfl⟩

-- ------------------------------------------------------------------ payloads
theorem lawful_netAddr : Lawful netAddr :=
  lawful_map (lawful_pair (lawful_uintLE 8) (lawful_pair (lawful_bytesN 16 _) (lawful_uintBE 2))) _ _
    (fun _ _ => rfl)
theorem lawful_timedAddr : Lawful timedAddr := lawful_pair (lawful_uintLE 4) lawful_netAddr
theorem lawful_countUpTo (m : Nat) : Lawful (countUpTo m) := lawful_refine (lawful_varInt _) _ _
theorem lawful_listUpTo (m : Nat) {c : Codec α} (h : Lawful c) : Lawful (listUpTo m c) :=
  lawful_prefixed (lawful_countUpTo m) (fun n => lawful_listN h n) (fun _ _ h => h.1)
theorem lawful_addr : Lawful addr := lawful_listUpTo _ lawful_timedAddr
theorem lawful_inventory : Lawful inventory := lawful_pair (lawful_uintLE 4) (lawful_revBytesN 32)
theorem lawful_inv : Lawful inv := lawful_listUpTo _ lawful_inventory
theorem lawful_locator : Lawful locator :=
  lawful_pair (lawful_intLE 4) (lawful_pair (lawful_listUpTo _ (lawful_revBytesN 32)) (lawful_revBytesN 32))
theorem lawful_zeroCount : Lawful zeroCount :=
  lawful_map (lawful_refine (lawful_varInt _) _ _) _ _ (fun a hv => by
    simp only [Codec.refine, beq_iff_eq] at hv; exact hv.2.symm)
theorem lawful_headers : Lawful headers := lawful_listUpTo _ (lawful_pair lawful_blockHeader lawful_zeroCount)
theorem lawful_versionBody : Lawful versionBody :=
  lawful_map (lawful_pair (lawful_intLE 4) (lawful_pair (lawful_uintLE 8) (lawful_pair (lawful_intLE 8)
    (lawful_pair lawful_netAddr (lawful_pair lawful_netAddr (lawful_pair (lawful_uintLE 8)
      (lawful_pair lawful_varBytes (lawful_intLE 4)))))))) _ _ (fun _ _ => rfl)

theorem lawful_sendCmpct : Lawful sendCmpct := lawful_pair (lawful_refine (lawful_uintLE 1) _ _) (lawful_uintLE 8)
theorem lawful_filterRange : Lawful filterRange :=
  lawful_pair (lawful_uintLE 1) (lawful_pair (lawful_uintLE 4) (lawful_revBytesN 32))
theorem lawful_cfilter : Lawful cfilter := lawful_pair (lawful_uintLE 1) (lawful_pair (lawful_revBytesN 32) lawful_varBytes)
theorem lawful_cfheaders : Lawful cfheaders :=
  lawful_pair (lawful_uintLE 1) (lawful_pair (lawful_revBytesN 32) (lawful_pair (lawful_revBytesN 32)
    (lawful_listUpTo _ (lawful_revBytesN 32))))
theorem lawful_getcfcheckpt : Lawful getcfcheckpt := lawful_pair (lawful_uintLE 1) (lawful_revBytesN 32)
theorem lawful_cfcheckpt : Lawful cfcheckpt :=
  lawful_pair (lawful_uintLE 1) (lawful_pair (lawful_revBytesN 32) (lawful_listOf _ (lawful_revBytesN 32)))

theorem sendCmpct_valid (t : Nat × Nat) : sendCmpct.valid t ↔ t.1 ≤ 1 ∧ t.2 < 2 ^ 64 := by
  simp only [sendCmpct, pair, Codec.refine, uintLE_valid, decide_eq_true_eq]
  constructor
  · rintro ⟨⟨_, a⟩, b⟩; exact ⟨a, by omega⟩
  · rintro ⟨a, b⟩; exact ⟨⟨by omega, a⟩, by omega⟩

theorem netAddr_valid (a : NetAddr) :
    netAddr.valid a ↔ a.services < 2 ^ 64 ∧ a.ip.length = 16 ∧ a.port < 2 ^ 16 := by
  simp only [netAddr, Codec.map, pair, uintLE_valid, uintBE_valid, bytesN]
  constructor
  · rintro ⟨⟨a1, b, c⟩, _⟩; exact ⟨by omega, b, by omega⟩
  · rintro ⟨a1, b, c⟩; exact ⟨⟨by omega, b, by omega⟩, trivial⟩

theorem inventory_valid (i : Nat × Bytes) : inventory.valid i ↔ i.1 < 2 ^ 32 ∧ i.2.length = 32 := by
  simp only [inventory, pair, uintLE_valid, revBytesN_valid]

theorem listUpTo_valid (m : Nat) (c : Codec α) (l : List α) :
    (listUpTo m c).valid l ↔ (l.length ≤ Gen.VarInt.MAX_SIZE ∧ l.length ≤ m) ∧ ∀ x ∈ l, c.valid x := by
  have : Gen.VarInt.MAX_SIZE < 2 ^ 64 := by decide
  simp only [listUpTo, prefixed, countUpTo, Codec.refine, varInt, listN, decide_eq_true_eq, true_and]
  constructor
  · rintro ⟨⟨⟨a, _⟩, b⟩, c⟩; exact ⟨⟨a, b⟩, c⟩
  · rintro ⟨⟨a, b⟩, c⟩; exact ⟨⟨⟨a, by omega⟩, b⟩, c⟩

-- what `valid` asks of the later payload classes, spelled out
theorem filterRange_valid (t : Nat × Nat × Bytes) :
    filterRange.valid t ↔ t.1 < 256 ∧ t.2.1 < 2 ^ 32 ∧ t.2.2.length = 32 := by
  simp only [filterRange, pair, uintLE_valid, revBytesN_valid]

theorem cfilter_valid (t : Nat × Bytes × Bytes) :
    cfilter.valid t ↔ t.1 < 256 ∧ t.2.1.length = 32 ∧ t.2.2.length ≤ Gen.VarInt.MAX_SIZE := by
  simp only [cfilter, pair, uintLE_valid, revBytesN_valid, varBytes_valid]

theorem getcfcheckpt_valid (t : Nat × Bytes) : getcfcheckpt.valid t ↔ t.1 < 256 ∧ t.2.length = 32 := by
  simp only [getcfcheckpt, pair, uintLE_valid, revBytesN_valid]

theorem cfheaders_valid (t : Nat × Bytes × Bytes × List Bytes) :
    cfheaders.valid t ↔ t.1 < 256 ∧ t.2.1.length = 32 ∧ t.2.2.1.length = 32 ∧
      (t.2.2.2.length ≤ Gen.VarInt.MAX_SIZE ∧ t.2.2.2.length ≤ Gen.Wire.MAX_GETCFHEADERS_SIZE) ∧
      ∀ x ∈ t.2.2.2, x.length = 32 := by
  unfold cfheaders
  simp only [pair, uintLE_valid, revBytesN_valid, listUpTo_valid]

theorem cfcheckpt_valid (t : Nat × Bytes × List Bytes) :
    cfcheckpt.valid t ↔ t.1 < 256 ∧ t.2.1.length = 32 ∧
      (t.2.2.length ≤ Gen.VarInt.MAX_SIZE ∧ t.2.2.length < 2 ^ 64) ∧ ∀ x ∈ t.2.2, x.length = 32 := by
  unfold cfcheckpt
  simp only [pair, uintLE_valid, revBytesN_valid, listOf_valid]

theorem locator_valid (t : Int × List Bytes × Bytes) :
    locator.valid t ↔ (-(2 ^ 31 : Int) ≤ t.1 ∧ t.1 < 2 ^ 31) ∧
      ((t.2.1.length ≤ Gen.VarInt.MAX_SIZE ∧ t.2.1.length ≤ Gen.Wire.MAX_LOCATOR_SZ) ∧ ∀ x ∈ t.2.1, x.length = 32) ∧
      t.2.2.length = 32 := by
  unfold locator
  simp only [pair, intLE4_valid, revBytesN_valid, listUpTo_valid]

theorem versionBody_valid (v : Version) :
    versionBody.valid v ↔ (-(2 ^ 31 : Int) ≤ v.version ∧ v.version < 2 ^ 31) ∧ v.services < 2 ^ 64 ∧
      (-(2 ^ 63 : Int) ≤ v.timestamp ∧ v.timestamp < 2 ^ 63) ∧ netAddr.valid v.addrRecv ∧ netAddr.valid v.addrFrom ∧
      v.nonce < 2 ^ 64 ∧ v.userAgent.length ≤ Gen.VarInt.MAX_SIZE ∧
      (-(2 ^ 31 : Int) ≤ v.startHeight ∧ v.startHeight < 2 ^ 31) := by
  unfold versionBody
  simp only [Codec.map, pair, intLE4_valid, intLE8_valid, uintLE_valid, varBytes_valid]
  constructor
  · rintro ⟨⟨a, b, c, d, e, f, g, h⟩, _⟩; exact ⟨a, by omega, c, d, e, by omega, g, h⟩
  · rintro ⟨a, b, c, d, e, f, g, h⟩; exact ⟨⟨a, by omega, c, d, e, by omega, g, h⟩, trivial⟩

/-- a headers payload never carries a non-zero transaction count -/
theorem zeroCount_ser (u : Unit) : zeroCount.ser u = [0] := rfl

theorem parseRelay_iff (r : Bytes) (f : Option Bool) : parseRelay r = .ok f ↔ r = serRelay f := by
  constructor
  · intro h
    match r, h with
    | [], h => cases h; rfl
    | [x], h =>
      simp only [parseRelay] at h
      split at h
      · cases h
      · rename_i hx
        cases h
        have hx' : x.toNat = 0 ∨ x.toNat = 1 := by omega
        rcases hx' with h0 | h1
        · have : x = 0 := UInt8.toNat_inj.mp (by simpa using h0)
          subst this; rfl
        · have : x = 1 := UInt8.toNat_inj.mp (by simpa using h1)
          subst this; rfl
    | x :: _ :: _, h =>
      simp only [parseRelay] at h
      split at h <;> cases h
  · rintro rfl
    cases f with
    | none => rfl
    | some b => cases b <;> rfl

/-- `Version` on octets: accepted iff the serialization of a valid body followed by nothing, `00` or
    `01` -- a relay flag of 2 or a byte after the flag is never accepted -/
theorem version_parseAll_iff (b : Bytes) (v : Version × Option Bool) :
    Version.parseAll b = .ok v ↔ versionBody.valid v.1 ∧ b = Version.serAll v := by
  unfold Version.parseAll Version.serAll
  constructor
  · intro h
    split at h
    · cases h
    · rename_i w r hp
      split at h
      · cases h
      · rename_i f hf
        cases h
        have ⟨hv, e⟩ := lawful_versionBody.ser_parse _ _ _ hp
        exact ⟨hv, by rw [e, (parseRelay_iff r f).1 hf]⟩
  · rintro ⟨hv, rfl⟩
    rw [lawful_versionBody.parse_ser _ _ hv]
    simp only [(parseRelay_iff _ _).2 rfl]

end Btc.Wire
