import Model.C05.Codec
import Proofs.C05.VarInt
/-!
Lawfulness of the generic codecs: every combinator preserves the three laws
(T1 `parse_ser`, T2 `ser_parse`, T3 `size_eq`).  Core Lean only.
-/
namespace Btc.Wire
open Btc

/-- The C05 laws of one wire class. -/
structure Lawful (c : Codec α) : Prop where
  /-- T1: a valid object parses back from its serialization, whatever follows it is left unread. -/
  parse_ser : ∀ t rest, c.valid t → c.parse (c.ser t ++ rest) = .ok (t, rest)
  /-- T2: whatever the parser accepts is the serialization of what it returns, followed by
      exactly what it left; and what it returns is valid. -/
  ser_parse : ∀ b t rest, c.parse b = .ok (t, rest) → c.valid t ∧ b = c.ser t ++ rest
  /-- T3: the reported size is the length of the serialization. -/
  size_eq : ∀ t, c.valid t → c.size t = (c.ser t).length

/-- On octets: the accepted byte strings are exactly the serializations of the valid objects. -/
theorem Lawful.parseAll_iff {c : Codec α} (h : Lawful c) (b : Bytes) (t : α) :
    c.parseAll b = .ok t ↔ c.valid t ∧ b = c.ser t := by
  unfold Codec.parseAll
  constructor
  · intro hp
    split at hp
    · cases hp
    · rename_i t' hq
      cases hp
      have := h.ser_parse _ _ _ hq
      simpa using this
    · cases hp
  · rintro ⟨hv, rfl⟩
    have := h.parse_ser t [] hv
    simp only [List.append_nil] at this
    rw [this]

theorem Lawful.parseAll_ser {c : Codec α} (h : Lawful c) (t : α) (hv : c.valid t) :
    c.parseAll (c.ser t) = .ok t := (h.parseAll_iff _ _).2 ⟨hv, rfl⟩

/-- two valid objects with the same serialization are the same object -/
theorem Lawful.ser_injective {c : Codec α} (h : Lawful c) (t u : α) (ht : c.valid t) (hu : c.valid u)
    (e : c.ser t = c.ser u) : t = u := by
  have a := h.parse_ser t [] ht
  have b := h.parse_ser u [] hu
  rw [e, b] at a
  cases a; rfl

/-- prefix-freedom: no valid serialization is a proper prefix of another -/
theorem Lawful.prefix_free {c : Codec α} (h : Lawful c) (t u : α) (r s : Bytes)
    (ht : c.valid t) (hu : c.valid u) (e : c.ser t ++ r = c.ser u ++ s) : t = u ∧ r = s := by
  have a := h.parse_ser t r ht
  have b := h.parse_ser u s hu
  rw [e, b] at a
  cases a; exact ⟨rfl, rfl⟩

-- ---------------------------------------------------------------- bytesN
theorem lawful_bytesN (n : Nat) (e : Err) : Lawful (bytesN n e) where
  parse_ser t rest hv := by
    simp only [bytesN] at hv ⊢
    have : ¬ ((t ++ rest).take n).length < n := by simp; omega
    simp [← hv]
  ser_parse b t rest hp := by
    simp only [bytesN] at hp ⊢
    split at hp
    · cases hp
    · rename_i hl
      cases hp
      simp only [List.length_take] at hl
      refine ⟨by simp; omega, by simp⟩
  size_eq t hv := by simp only [bytesN] at hv ⊢; exact hv.symm

-- ---------------------------------------------------------------- map
theorem lawful_map {c : Codec α} (h : Lawful c) (f : α → β) (g : β → α)
    (hgf : ∀ a, c.valid a → g (f a) = a) : Lawful (c.map f g) where
  parse_ser t rest hv := by
    simp only [Codec.map] at hv ⊢
    rw [h.parse_ser _ rest hv.1]
    simp [hv.2]
  ser_parse b t rest hp := by
    simp only [Codec.map] at hp ⊢
    split at hp
    · cases hp
    · rename_i a r hq
      cases hp
      have ⟨hv, hb⟩ := h.ser_parse _ _ _ hq
      have := hgf a hv
      rw [this]
      exact ⟨⟨hv, rfl⟩, hb⟩
  size_eq t hv := by
    simp only [Codec.map] at hv ⊢
    exact h.size_eq _ hv.1

-- ---------------------------------------------------------------- fixed-width integers
theorem lawful_uintLE (n : Nat) : Lawful (uintLE n) :=
  lawful_map (lawful_bytesN n .short) _ _ (fun a hv => by
    simp only [bytesN] at hv
    rw [← hv]; exact leBytes_ofLE a)

theorem lawful_uintBE (n : Nat) : Lawful (uintBE n) :=
  lawful_map (lawful_bytesN n .short) _ _ (fun a hv => by
    simp only [bytesN] at hv
    rw [← hv]; exact beBytes_ofBE a)

theorem uintLE_valid (n v : Nat) : (uintLE n).valid v ↔ v < 256 ^ n := by
  simp only [uintLE, Codec.map, bytesN, leBytes_length, true_and, ofLE_leBytes]
  constructor
  · intro h; rw [← h]; exact Nat.mod_lt _ (Nat.pow_pos (by omega))
  · intro h; exact Nat.mod_eq_of_lt h

theorem uintBE_valid (n v : Nat) : (uintBE n).valid v ↔ v < 256 ^ n := by
  simp only [uintBE, Codec.map, bytesN, beBytes_length, true_and, ofBE_beBytes]
  constructor
  · intro h; rw [← h]; exact Nat.mod_lt _ (Nat.pow_pos (by omega))
  · intro h; exact Nat.mod_eq_of_lt h

@[simp] theorem uintLE_ser (n v : Nat) : (uintLE n).ser v = leBytes n v := rfl
@[simp] theorem uintBE_ser (n v : Nat) : (uintBE n).ser v = beBytes n v := rfl
@[simp] theorem uintLE_size (n v : Nat) : (uintLE n).size v = n := rfl

theorem ofSigned_toSigned (n u : Nat) (h : u < 256 ^ n) : ofSigned n (toSigned n u) = u := by
  unfold ofSigned toSigned
  split
  · rw [Int.emod_eq_of_lt (by omega) (by omega)]; simp
  · have : ((u : Int) - ((256 ^ n : Nat) : Int)) % ((256 ^ n : Nat) : Int) = (u : Int) := by
      rw [Int.sub_emod, Int.emod_self, Int.sub_zero, Int.emod_emod_of_dvd _ (Int.dvd_refl _)]
      exact Int.emod_eq_of_lt (by omega) (by omega)
    rw [this]; simp

theorem lawful_intLE (n : Nat) : Lawful (intLE n) :=
  lawful_map (lawful_uintLE n) _ _ (fun a hv => ofSigned_toSigned n a ((uintLE_valid n a).1 hv))

/-- the 8-byte signed field (an amount) holds exactly the two's complement range -/
theorem intLE8_valid (i : Int) : (intLE 8).valid i ↔ -(2 ^ 63 : Int) ≤ i ∧ i < 2 ^ 63 := by
  simp only [intLE, Codec.map]
  rw [uintLE_valid]
  unfold toSigned ofSigned
  have e : (256 ^ 8 : Nat) = 18446744073709551616 := by decide
  rw [e]
  constructor
  · rintro ⟨_, h⟩
    split at h <;> omega
  · intro h
    refine ⟨by omega, ?_⟩
    split <;> omega

/-- the 4-byte signed field (header / protocol version) holds exactly the two's complement range -/
theorem intLE4_valid (i : Int) : (intLE 4).valid i ↔ -(2 ^ 31 : Int) ≤ i ∧ i < 2 ^ 31 := by
  simp only [intLE, Codec.map]
  rw [uintLE_valid]
  unfold toSigned ofSigned
  have e : (256 ^ 4 : Nat) = 4294967296 := by decide
  rw [e]
  constructor
  · rintro ⟨_, h⟩
    split at h <;> omega
  · intro h
    refine ⟨by omega, ?_⟩
    split <;> omega

theorem lawful_revBytesN (n : Nat) : Lawful (revBytesN n) :=
  lawful_map (lawful_bytesN n .short) _ _ (fun a _ => List.reverse_reverse a)

theorem revBytesN_valid (n : Nat) (b : Bytes) : (revBytesN n).valid b ↔ b.length = n := by
  simp [revBytesN, Codec.map, bytesN]

-- ---------------------------------------------------------------- pair
theorem lawful_pair {a : Codec α} {b : Codec β} (ha : Lawful a) (hb : Lawful b) :
    Lawful (pair a b) where
  parse_ser t rest hv := by
    simp only [pair] at hv ⊢
    rw [List.append_assoc, ha.parse_ser _ _ hv.1]
    simp only
    rw [hb.parse_ser _ _ hv.2]
  ser_parse bs t rest hp := by
    simp only [pair] at hp ⊢
    split at hp
    · cases hp
    · rename_i x r hx
      split at hp
      · cases hp
      · rename_i y r' hy
        cases hp
        have ⟨v1, e1⟩ := ha.ser_parse _ _ _ hx
        have ⟨v2, e2⟩ := hb.ser_parse _ _ _ hy
        refine ⟨⟨v1, v2⟩, ?_⟩
        rw [e1, e2, List.append_assoc]
  size_eq t hv := by
    simp only [pair] at hv ⊢
    rw [ha.size_eq _ hv.1, hb.size_eq _ hv.2, List.length_append]

-- ---------------------------------------------------------------- listN
theorem parseN_serList {c : Codec α} (h : Lawful c) (l : List α) (rest : Bytes)
    (hv : ∀ x ∈ l, c.valid x) : parseN c l.length (serList c l ++ rest) = .ok (l, rest) := by
  induction l with
  | nil => simp [parseN, serList]
  | cons x xs ih =>
    simp only [List.length_cons, parseN, serList, List.flatMap_cons, List.append_assoc]
    rw [h.parse_ser x _ (hv x (by simp))]
    simp only
    have := ih (fun y hy => hv y (by simp [hy]))
    simp only [serList] at this
    rw [this]

theorem serList_parseN {c : Codec α} (h : Lawful c) (n : Nat) (b : Bytes) (l : List α) (rest : Bytes)
    (hp : parseN c n b = .ok (l, rest)) :
    (l.length = n ∧ ∀ x ∈ l, c.valid x) ∧ b = serList c l ++ rest := by
  induction n generalizing b l with
  | zero =>
    simp only [parseN] at hp
    cases hp
    simp [serList]
  | succ k ih =>
    simp only [parseN] at hp
    split at hp
    · cases hp
    · rename_i x r hx
      split at hp
      · cases hp
      · rename_i xs r' hxs
        cases hp
        have ⟨v1, e1⟩ := h.ser_parse _ _ _ hx
        have ⟨⟨hl, v2⟩, e2⟩ := ih _ _ hxs
        refine ⟨⟨by simp [hl], ?_⟩, ?_⟩
        · intro y hy
          rcases List.mem_cons.1 hy with rfl | hy
          · exact v1
          · exact v2 y hy
        · simp only [serList, List.flatMap_cons, List.append_assoc]
          simp only [serList] at e2
          rw [e1, e2]

theorem sizeList_eq {c : Codec α} (h : Lawful c) (l : List α) (hv : ∀ x ∈ l, c.valid x) :
    sizeList c l = (serList c l).length := by
  induction l with
  | nil => simp [sizeList, serList]
  | cons x xs ih =>
    have := ih (fun y hy => hv y (by simp [hy]))
    simp only [sizeList, serList, List.map_cons, List.sum_cons, List.flatMap_cons,
      List.length_append] at this ⊢
    rw [this, h.size_eq x (hv x (by simp))]

theorem lawful_listN {c : Codec α} (h : Lawful c) (n : Nat) : Lawful (listN c n) where
  parse_ser t rest hv := by
    simp only [listN] at hv ⊢
    rw [← hv.1]; exact parseN_serList h t rest hv.2
  ser_parse b t rest hp := serList_parseN h n b t rest hp
  size_eq t hv := sizeList_eq h t hv.2

-- ---------------------------------------------------------------- prefixed
theorem lawful_prefixed {cnt : Codec Nat} {body : Nat → Codec α} {len : α → Nat}
    (hc : Lawful cnt) (hb : ∀ n, Lawful (body n)) (hlen : ∀ n x, (body n).valid x → len x = n) :
    Lawful (prefixed cnt body len) where
  parse_ser t rest hv := by
    simp only [prefixed] at hv ⊢
    rw [List.append_assoc, hc.parse_ser _ _ hv.1]
    simp only
    exact (hb _).parse_ser _ _ hv.2
  ser_parse b t rest hp := by
    simp only [prefixed] at hp ⊢
    split at hp
    · cases hp
    · rename_i n r hn
      have ⟨v1, e1⟩ := hc.ser_parse _ _ _ hn
      have ⟨v2, e2⟩ := (hb n).ser_parse _ _ _ hp
      have := hlen n t v2
      subst this
      exact ⟨⟨v1, v2⟩, by rw [e1, e2, List.append_assoc]⟩
  size_eq t hv := by
    simp only [prefixed] at hv ⊢
    rw [hc.size_eq _ hv.1, (hb _).size_eq _ hv.2, List.length_append]

theorem lawful_prefixedBy {hd : Codec κ} {body : κ → Codec α} {key : α → κ}
    (hc : Lawful hd) (hb : ∀ k, Lawful (body k)) (hkey : ∀ k x, (body k).valid x → key x = k) :
    Lawful (prefixedBy hd body key) where
  parse_ser t rest hv := by
    simp only [prefixedBy] at hv ⊢
    rw [List.append_assoc, hc.parse_ser _ _ hv.1]
    simp only
    exact (hb _).parse_ser _ _ hv.2
  ser_parse b t rest hp := by
    simp only [prefixedBy] at hp ⊢
    split at hp
    · cases hp
    · rename_i n r hn
      have ⟨v1, e1⟩ := hc.ser_parse _ _ _ hn
      have ⟨v2, e2⟩ := (hb n).ser_parse _ _ _ hp
      have := hkey n t v2
      subst this
      exact ⟨⟨v1, v2⟩, by rw [e1, e2, List.append_assoc]⟩
  size_eq t hv := by
    simp only [prefixedBy] at hv ⊢
    rw [hc.size_eq _ hv.1, (hb _).size_eq _ hv.2, List.length_append]

theorem lawful_refine {c : Codec α} (h : Lawful c) (p : α → Bool) (e : Err) : Lawful (c.refine p e) where
  parse_ser t rest hv := by
    simp only [Codec.refine] at hv ⊢
    rw [h.parse_ser _ _ hv.1]
    simp [hv.2]
  ser_parse b t rest hp := by
    simp only [Codec.refine] at hp ⊢
    split at hp
    · cases hp
    · rename_i a r hq
      split at hp
      · rename_i hpa
        cases hp
        have ⟨v, e'⟩ := h.ser_parse _ _ _ hq
        exact ⟨⟨v, hpa⟩, e'⟩
      · cases hp
  size_eq t hv := h.size_eq t hv.1

theorem lawful_empty : Lawful empty where
  parse_ser t rest _ := by simp [empty]
  ser_parse b t rest hp := by simp only [empty] at hp ⊢; cases hp; simp
  size_eq t _ := rfl

end Btc.Wire

-- ---------------------------------------------------------------- CompactSize as a codec
namespace Btc.VarInt
open Btc

/-- the translated serializer answers the total `ser` on its whole domain -/
theorem serialize_eq_ser (n : Nat) (h : n < 2 ^ 64) : Gen.VarInt.serialize (n : Int) = .ok (ser n) := by
  rw [serialize_nat]
  unfold ser
  have : n ≤ 18446744073709551615 := by omega
  simp only [this, if_true]
  repeat' split
  all_goals rfl

theorem ser_length (n : Nat) (h : n < 2 ^ 64) : (ser n).length = (Gen.VarInt.size (n : Int)).toNat := by
  unfold ser Gen.VarInt.size
  by_cases h1 : n < 253
  · have : (n : Int) < 253 := by omega
    simp [h1, this]
  · have h1' : ¬ (n : Int) < 253 := by omega
    by_cases h2 : n ≤ 65535
    · have : (n : Int) ≤ 65535 := by omega
      simp [h1, h1', h2, this]
    · have h2' : ¬ (n : Int) ≤ 65535 := by omega
      by_cases h3 : n ≤ 4294967295
      · have : (n : Int) ≤ 4294967295 := by omega
        simp [h1, h1', h2, h2', h3, this]
      · have h3' : ¬ (n : Int) ≤ 4294967295 := by omega
        simp [h1, h1', h2, h2', h3, h3']

/-- first byte of a CompactSize: it is 0 only for 0 and 1 only for 1 (segwit marker ambiguity) -/
theorem ser_head (n : Nat) : ∃ h tl, ser n = h :: tl ∧ (h = 0 ↔ n = 0) ∧ (h = 1 ↔ n = 1) := by
  unfold ser
  by_cases h1 : n < 253
  · refine ⟨UInt8.ofNat n, [], by simp [h1], ?_, ?_⟩
    · constructor
      · intro h
        have := congrArg UInt8.toNat h
        simp [UInt8.toNat_ofNat'] at this; omega
      · rintro rfl; rfl
    · constructor
      · intro h
        have := congrArg UInt8.toNat h
        simp [UInt8.toNat_ofNat'] at this; omega
      · rintro rfl; rfl
  · have no0 : ∀ p : UInt8, p ≠ 0 → (p = 0 ↔ n = 0) := fun p hp =>
      ⟨fun h => absurd h hp, fun h => by omega⟩
    have no1 : ∀ p : UInt8, p ≠ 1 → (p = 1 ↔ n = 1) := fun p hp =>
      ⟨fun h => absurd h hp, fun h => by omega⟩
    by_cases h2 : n ≤ 65535
    · exact ⟨253, leBytes 2 n, by simp [h1, h2], no0 _ (by decide), no1 _ (by decide)⟩
    · by_cases h3 : n ≤ 4294967295
      · exact ⟨254, leBytes 4 n, by simp [h1, h2, h3], no0 _ (by decide), no1 _ (by decide)⟩
      · exact ⟨255, leBytes 8 n, by simp [h1, h2, h3], no0 _ (by decide), no1 _ (by decide)⟩

end Btc.VarInt

namespace Btc.Wire
open Btc

theorem lawful_varInt (m : Nat) : Lawful (varInt m) where
  parse_ser t rest hv := by
    simp only [varInt] at hv ⊢
    have := VarInt.parse_serialize (t : Int) (VarInt.ser t) rest m (VarInt.serialize_eq_ser t hv.2)
    simp only [Int.toNat_natCast] at this
    have hm : ¬ t > m := by omega
    rw [this]; simp [hm]
  ser_parse b t rest hp := by
    simp only [varInt] at hp ⊢
    split at hp
    · cases hp
    · rename_i r hq
      cases hp
      obtain ⟨b', hs, hb⟩ := VarInt.serialize_parse b rest t m hq
      have hdom : t < 2 ^ 64 := by
        by_cases h : t < 2 ^ 64
        · exact h
        · have := (VarInt.serialize_domain (t : Int)).2 (by omega)
          rw [this] at hs; cases hs
      rw [VarInt.serialize_eq_ser t hdom] at hs
      cases hs
      refine ⟨⟨?_, hdom⟩, hb⟩
      -- the cap: parse refuses above m
      cases b with
      | nil => simp [VarInt.parse, VarInt.parseWith] at hq
      | cons x xs =>
        rw [VarInt.parse_cons] at hq
        have cm : ∀ r : Nat × Bytes, VarInt.checkMax m r = .ok (t, rest) → t ≤ m := by
          intro r hr
          unfold VarInt.checkMax at hr
          split at hr
          · cases hr
          · cases hr; omega
        have bd : ∀ (e : Except VarInt.Err (Nat × Bytes)), e.bind (VarInt.checkMax m) = .ok (t, rest) → t ≤ m := by
          intro e he
          cases e with
          | error _ => cases he
          | ok r => exact cm r he
        repeat' split at hq
        all_goals first | exact bd _ hq | exact cm _ hq
  size_eq t hv := by
    simp only [varInt] at hv ⊢
    exact (VarInt.ser_length t hv.2).symm

theorem lawful_varBytes : Lawful varBytes :=
  lawful_prefixed (lawful_varInt _) (fun n => lawful_bytesN n .shortBytes) (fun _ _ h => h)

theorem lawful_listOf (m : Nat) {c : Codec α} (h : Lawful c) : Lawful (listOf m c) :=
  lawful_prefixed (lawful_varInt _) (fun n => lawful_listN h n) (fun _ _ h => h.1)

theorem varBytes_valid (b : Bytes) : varBytes.valid b ↔ b.length ≤ Gen.VarInt.MAX_SIZE := by
  simp only [varBytes, prefixed, varInt, bytesN, and_true]
  constructor
  · exact fun h => h.1
  · intro h
    refine ⟨h, ?_⟩
    have : Gen.VarInt.MAX_SIZE < 2 ^ 64 := by decide
    omega

theorem listOf_valid (m : Nat) (c : Codec α) (l : List α) :
    (listOf m c).valid l ↔ (l.length ≤ m ∧ l.length < 2 ^ 64) ∧ ∀ x ∈ l, c.valid x := by
  simp [listOf, prefixed, varInt, listN]

@[simp] theorem varBytes_ser (b : Bytes) : varBytes.ser b = VarInt.ser b.length ++ b := rfl
@[simp] theorem listOf_ser (m : Nat) (c : Codec α) (l : List α) :
    (listOf m c).ser l = VarInt.ser l.length ++ serList c l := rfl

end Btc.Wire
