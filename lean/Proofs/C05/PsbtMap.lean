import Model.C05.PsbtMap
import Proofs.C05.Codec
/-!
PSBT map layer: `deserialize_map` and sorted emission are inverse on duplicate-free maps; the
normal form keeps every record, does not depend on the order the records came in, and is a fixed
point.  Core Lean only.
-/
namespace Btc.Psbt
open Btc Btc.Wire

theorem lawful_lenBytes : Lawful lenBytes :=
  lawful_prefixed (lawful_varInt _) (fun n => lawful_bytesN n .short) (fun _ _ h => h)

theorem lawful_record : Lawful record := lawful_pair lawful_lenBytes lawful_lenBytes

/-- a record starts with the CompactSize of its key length: `00` only for the empty key -/
theorem record_ser_head (r : Rec) :
    ∃ h tl, record.ser r = h :: tl ∧ (h = 0 ↔ r.1 = []) := by
  obtain ⟨h, tl, e, z, _⟩ := VarInt.ser_head r.1.length
  refine ⟨h, tl ++ (r.1 ++ lenBytes.ser r.2), ?_, ?_⟩
  · simp only [record, pair, lenBytes, prefixed, varInt, bytesN]
    rw [e]; simp
  · rw [z]; exact List.length_eq_zero_iff

theorem serList_length_ge (recs : List Rec) : recs.length ≤ (serList record recs).length := by
  induction recs with
  | nil => simp [serList]
  | cons r rs ih =>
    obtain ⟨h, tl, e, _⟩ := record_ser_head r
    simp only [serList, List.flatMap_cons, List.length_append, List.length_cons] at ih ⊢
    rw [e]; simp only [List.length_cons]; omega

theorem parseRecs_ser (recs : List Rec) : ∀ (fuel : Nat) (seen : List Bytes) (rest : Bytes),
    recs.length < fuel → (∀ r ∈ recs, r.1 ≠ [] ∧ record.valid r) → (recs.map (·.1)).Nodup →
    (∀ r ∈ recs, r.1 ∉ seen) →
    parseRecs fuel (serList record recs ++ 0 :: rest) seen = .ok (recs, rest) := by
  induction recs with
  | nil =>
    intro fuel seen rest hf _ _ _
    obtain ⟨f, rfl⟩ : ∃ f, fuel = f + 1 := ⟨fuel - 1, by simp at hf; omega⟩
    simp [serList, parseRecs]
  | cons r rs ih =>
    intro fuel seen rest hf hv hnd hseen
    obtain ⟨f, rfl⟩ : ∃ f, fuel = f + 1 := ⟨fuel - 1, by simp at hf; omega⟩
    obtain ⟨h, tl, e, z⟩ := record_ser_head r
    have hr := hv r (by simp)
    have hne : h ≠ 0 := fun hh => hr.1 (z.1 hh)
    have hp := lawful_record.parse_ser r (serList record rs ++ 0 :: rest) hr.2
    simp only [serList, List.flatMap_cons, List.append_assoc] at hp ⊢
    rw [e] at hp ⊢
    simp only [List.cons_append] at hp
    simp only [List.cons_append, parseRecs, hne, if_false]
    rw [hp]
    have hns : ¬ (seen.contains r.1 = true) := by
      simp only [List.contains_iff_mem]; exact hseen r (by simp)
    simp only [hns]
    simp only [List.map_cons, List.nodup_cons] at hnd
    have := ih f (r.1 :: seen) rest (by simp at hf; omega)
      (fun x hx => hv x (by simp [hx])) hnd.2
      (fun x hx => by
        simp only [List.mem_cons, not_or]
        refine ⟨?_, hseen x (by simp [hx])⟩
        intro hxr
        exact hnd.1 (hxr ▸ List.mem_map.2 ⟨x, hx, rfl⟩))
    simp only [serList] at this
    rw [this]
    simp

theorem parseRecs_sound : ∀ (fuel : Nat) (b : Bytes) (seen : List Bytes) (recs : List Rec) (rest : Bytes),
    parseRecs fuel b seen = .ok (recs, rest) →
    b = serList record recs ++ 0 :: rest ∧ (∀ r ∈ recs, r.1 ≠ [] ∧ record.valid r) ∧
    (recs.map (·.1)).Nodup ∧ (∀ r ∈ recs, r.1 ∉ seen) := by
  intro fuel
  induction fuel with
  | zero => intro b seen recs rest hp; simp [parseRecs] at hp
  | succ f ih =>
    intro b seen recs rest hp
    cases b with
    | nil => simp [parseRecs] at hp
    | cons x xs =>
      simp only [parseRecs] at hp
      split at hp
      · rename_i hx
        cases hp
        subst hx
        simp [serList]
      · rename_i hx
        split at hp
        · cases hp
        · rename_i k v r hq
          split at hp
          · cases hp
          · rename_i hns
            split at hp
            · cases hp
            · rename_i recs' r' hrec
              cases hp
              have ⟨hv, eb⟩ := lawful_record.ser_parse _ _ _ hq
              have ⟨e2, v2, nd2, s2⟩ := ih _ _ _ _ hrec
              have hk : k ≠ [] := by
                obtain ⟨h, tl, e, z⟩ := record_ser_head (k, v)
                intro hk
                rw [e] at eb
                have : x = h := by cases eb; rfl
                exact hx (this ▸ z.2 hk)
              refine ⟨?_, ?_, ?_, ?_⟩
              · simp only [serList, List.flatMap_cons, List.append_assoc]
                simp only [serList] at e2
                rw [eb, e2]
              · intro y hy
                rcases List.mem_cons.1 hy with rfl | hy
                · exact ⟨hk, hv⟩
                · exact v2 y hy
              · simp only [List.map_cons, List.nodup_cons]
                refine ⟨?_, nd2⟩
                intro hmem
                obtain ⟨y, hy, hyk⟩ := List.mem_map.1 hmem
                exact s2 y hy (by rw [hyk]; simp)
              · intro y hy
                rcases List.mem_cons.1 hy with rfl | hy
                · simpa [List.contains_iff_mem] using hns
                · intro hc; exact s2 y hy (by simp [hc])

/-- T5a: `deserialize_map(serialize(m) ‖ rest) = (m, rest)` for every duplicate-free map with
    non-empty keys -/
theorem parseMap_serMap (recs : List Rec) (rest : Bytes) (hv : ValidRecs recs) :
    parseMap (serMap recs ++ rest) = .ok (recs, rest) := by
  unfold parseMap serMap
  simp only [List.append_assoc, List.cons_append, List.nil_append]
  have hne : (serList record recs ++ 0 :: rest).isEmpty = false := by
    cases h : serList record recs <;> simp
  simp only [hne, Bool.false_eq_true, if_false]
  apply parseRecs_ser recs _ [] rest _ hv.1 hv.2 (fun _ _ => by simp)
  have := serList_length_ge recs
  simp only [List.length_append, List.length_cons]; omega

/-- T5b: whatever `deserialize_map` accepts is the in-order serialization of the records it
    returns, closed by `00`, followed by what it left; keys are non-empty and pairwise distinct -/
theorem serMap_parseMap (b : Bytes) (recs : List Rec) (rest : Bytes)
    (hp : parseMap b = .ok (recs, rest)) : ValidRecs recs ∧ b = serMap recs ++ rest := by
  unfold parseMap at hp
  split at hp
  · cases hp
  · have ⟨e, v, nd, _⟩ := parseRecs_sound _ _ _ _ _ hp
    refine ⟨⟨v, nd⟩, ?_⟩
    rw [e]; simp [serMap]

-- ------------------------------------------------------------------ the order
theorem bytesLe_total : ∀ a b : Bytes, bytesLe a b || bytesLe b a
  | [], _ => by simp [bytesLe]
  | _ :: _, [] => by simp [bytesLe]
  | x :: xs, y :: ys => by
    have ih := bytesLe_total xs ys
    simp only [bytesLe]
    by_cases h1 : x.toNat < y.toNat
    · simp [h1]
    · by_cases h2 : y.toNat < x.toNat
      · simp [h2]
      · have : x = y := UInt8.toNat_inj.mp (by omega)
        subst this
        simpa using ih

theorem bytesLe_trans : ∀ a b c : Bytes, bytesLe a b → bytesLe b c → bytesLe a c
  | [], _, _ => by simp [bytesLe]
  | _ :: _, [], _ => by simp [bytesLe]
  | _ :: _, _ :: _, [] => by simp [bytesLe]
  | x :: xs, y :: ys, z :: zs => by
    have ih := bytesLe_trans xs ys zs
    simp only [bytesLe, Bool.or_eq_true, decide_eq_true_eq, Bool.and_eq_true, beq_iff_eq]
    rintro (h1 | ⟨rfl, h1⟩) (h2 | ⟨rfl, h2⟩)
    · left; omega
    · left; exact h1
    · left; exact h2
    · right; exact ⟨rfl, ih h1 h2⟩

theorem bytesLe_antisymm : ∀ a b : Bytes, bytesLe a b → bytesLe b a → a = b
  | [], [] => by simp
  | [], _ :: _ => by simp [bytesLe]
  | _ :: _, [] => by simp [bytesLe]
  | x :: xs, y :: ys => by
    have ih := bytesLe_antisymm xs ys
    simp only [bytesLe, Bool.or_eq_true, decide_eq_true_eq, Bool.and_eq_true, beq_iff_eq]
    rintro (h1 | ⟨rfl, h1⟩) (h2 | ⟨h2', h2⟩)
    · omega
    · subst h2'; omega
    · omega
    · rw [ih h1 h2]

theorem recLe_total (rank : Bytes → Nat) (a b : Rec) : recLe rank a b || recLe rank b a := by
  simp only [recLe]
  by_cases h1 : rank a.1 < rank b.1
  · simp [h1]
  · by_cases h2 : rank b.1 < rank a.1
    · simp [h2]
    · have : rank a.1 = rank b.1 := by omega
      have := bytesLe_total a.1 b.1
      simp_all

theorem recLe_trans (rank : Bytes → Nat) (a b c : Rec) :
    recLe rank a b → recLe rank b c → recLe rank a c := by
  simp only [recLe, Bool.or_eq_true, decide_eq_true_eq, Bool.and_eq_true, beq_iff_eq]
  rintro (h1 | ⟨e1, h1⟩) (h2 | ⟨e2, h2⟩)
  · left; omega
  · left; omega
  · left; omega
  · right; exact ⟨by omega, bytesLe_trans _ _ _ h1 h2⟩

theorem recLe_antisymm_key (rank : Bytes → Nat) (a b : Rec) :
    recLe rank a b → recLe rank b a → a.1 = b.1 := by
  simp only [recLe, Bool.or_eq_true, decide_eq_true_eq, Bool.and_eq_true, beq_iff_eq]
  rintro (h1 | ⟨e1, h1⟩) (h2 | ⟨e2, h2⟩)
  · omega
  · omega
  · omega
  · exact bytesLe_antisymm _ _ h1 h2

theorem sortRecs_perm (rank : Bytes → Nat) (recs : List Rec) : (sortRecs rank recs).Perm recs :=
  List.mergeSort_perm recs _

theorem sortRecs_sorted (rank : Bytes → Nat) (recs : List Rec) :
    (sortRecs rank recs).Pairwise (fun a b => recLe rank a b) :=
  List.pairwise_mergeSort (recLe_trans rank) (recLe_total rank) recs

theorem sortRecs_idem (rank : Bytes → Nat) (recs : List Rec) :
    sortRecs rank (sortRecs rank recs) = sortRecs rank recs :=
  List.mergeSort_of_pairwise (sortRecs_sorted rank recs)

theorem validRecs_perm {a b : List Rec} (h : a.Perm b) (hv : ValidRecs a) : ValidRecs b :=
  ⟨fun r hr => hv.1 r (h.mem_iff.2 hr), (h.map _).nodup_iff.1 hv.2⟩

/-- in a duplicate-free map two records with the same key are the same record -/
theorem eq_of_key_eq {l : List Rec} (nd : (l.map (·.1)).Nodup) {a b : Rec} (ha : a ∈ l) (hb : b ∈ l)
    (e : a.1 = b.1) : a = b := by
  induction l with
  | nil => cases ha
  | cons x xs ih =>
    simp only [List.map_cons, List.nodup_cons] at nd
    rcases List.mem_cons.1 ha with rfl | ha' <;> rcases List.mem_cons.1 hb with rfl | hb'
    · rfl
    · exact absurd (List.mem_map.2 ⟨b, hb', e.symm⟩) nd.1
    · exact absurd (List.mem_map.2 ⟨a, ha', e⟩) nd.1
    · exact ih nd.2 ha' hb'

/-- the sorted form does not depend on the order the records came in -/
theorem sortRecs_perm_eq (rank : Bytes → Nat) {a b : List Rec} (h : a.Perm b)
    (nd : (a.map (·.1)).Nodup) : sortRecs rank a = sortRecs rank b := by
  have p : (sortRecs rank a).Perm (sortRecs rank b) :=
    (sortRecs_perm rank a).trans (h.trans (sortRecs_perm rank b).symm)
  apply List.Perm.eq_of_pairwise (le := fun x y => recLe rank x y) _ (sortRecs_sorted rank a)
    (sortRecs_sorted rank b) p
  intro x y hx hy h1 h2
  have hx' : x ∈ a := (sortRecs_perm rank a).mem_iff.1 hx
  have hy' : y ∈ a := h.mem_iff.2 ((sortRecs_perm rank b).mem_iff.1 hy)
  exact eq_of_key_eq nd hx' hy' (recLe_antisymm_key rank x y h1 h2)

end Btc.Psbt
