import Model.C05.PsbtTyped
import Proofs.C05.PsbtMap
/-!
Typed layer of the PSBT maps.  Main result (`toRecs_fromRecs`): the serialize loop over the typed object
that the parse loop builds equals "sort by (field rank, key) the records that survive an explicit drop
predicate".  Then: which records are kept, fixed point.  Core Lean only.
-/
namespace Btc.Psbt
open Btc Btc.Wire

theorem validRecs_sublist {a b : List Rec} (h : a.Sublist b) (hv : ValidRecs b) : ValidRecs a :=
  ⟨fun r hr => hv.1 r (h.subset hr), List.Pairwise.sublist (h.map _) hv.2⟩

theorem bytesLe_refl (a : Bytes) : bytesLe a a = true := by
  have := bytesLe_total a a; simpa using this

theorem nodup_of_keys {l : List Rec} (h : (l.map (·.1)).Nodup) : l.Nodup := by
  induction l with
  | nil => exact List.nodup_nil
  | cons x xs ih =>
    simp only [List.map_cons, List.nodup_cons] at h ⊢
    exact ⟨fun hx => h.1 (List.mem_map.2 ⟨x, hx, rfl⟩), ih h.2⟩

theorem sortKeys_perm (l : List Rec) : (sortKeys l).Perm l := List.mergeSort_perm l _

theorem sortKeys_sorted (l : List Rec) : (sortKeys l).Pairwise (fun a b => bytesLe a.1 b.1 = true) :=
  List.pairwise_mergeSort (fun a b c => bytesLe_trans a.1 b.1 c.1) (fun a b => bytesLe_total a.1 b.1) l

/-- a list whose keys are all the same is left alone by `sorted` -/
theorem sortKeys_of_same_key (l : List Rec) (k : Bytes) (h : ∀ r ∈ l, r.1 = k) : sortKeys l = l := by
  apply List.mergeSort_of_pairwise
  induction l with
  | nil => exact List.Pairwise.nil
  | cons x xs ih =>
    refine List.Pairwise.cons ?_ (ih (fun r hr => h r (by simp [hr])))
    intro y hy
    rw [h x (by simp), h y (by simp [hy])]
    exact bytesLe_refl k

/-- GENERIC: emitting class by class in a fixed order, each class sorted by key, is sorting by
    (position of the class in the order, key) -/
theorem flatMap_sorted_groups (order : List Nat) (cls : Rec → Nat) (rank : Bytes → Nat) (l : List Rec)
    (hidx : order.Pairwise (fun a b => order.idxOf a < order.idxOf b))
    (hcls : ∀ r ∈ l, cls r ∈ order) (hrank : ∀ r ∈ l, rank r.1 = order.idxOf (cls r))
    (hnd : (l.map (·.1)).Nodup) :
    order.flatMap (fun ty => sortKeys (l.filter (fun r => cls r == ty))) = sortRecs rank l := by
  have hmemG : ∀ ty x, x ∈ sortKeys (l.filter (fun r => cls r == ty)) ↔ x ∈ l ∧ cls x = ty := by
    intro ty x
    rw [(sortKeys_perm _).mem_iff]; simp [List.mem_filter]
  have hmem : ∀ x, x ∈ order.flatMap (fun ty => sortKeys (l.filter (fun r => cls r == ty))) ↔ x ∈ l := by
    intro x
    simp only [List.mem_flatMap, hmemG]
    constructor
    · rintro ⟨_, _, hx, _⟩; exact hx
    · intro hx; exact ⟨cls x, hcls x hx, hx, rfl⟩
  have hln : l.Nodup := nodup_of_keys hnd
  have hdist : order.Pairwise (fun a b => a ≠ b) :=
    hidx.imp (fun {a b} h e => by subst e; exact Nat.lt_irrefl _ h)
  -- the emitted list has no repetition
  have hnodup : (order.flatMap (fun ty => sortKeys (l.filter (fun r => cls r == ty)))).Nodup := by
    apply List.pairwise_flatMap.2
    refine ⟨fun ty _ => ?_, ?_⟩
    · exact (sortKeys_perm _).nodup_iff.2 (List.Pairwise.sublist List.filter_sublist hln)
    · exact hdist.imp (fun {a b} hab x hx y hy e => by
        subst e
        exact hab (((hmemG a x).1 hx).2.symm.trans ((hmemG b x).1 hy).2))
  -- and is sorted by (rank, key)
  have hsorted : (order.flatMap (fun ty => sortKeys (l.filter (fun r => cls r == ty)))).Pairwise
      (fun a b => recLe rank a b = true) := by
    apply List.pairwise_flatMap.2
    refine ⟨fun ty _ => ?_, ?_⟩
    · have hs := sortKeys_sorted (l.filter (fun r => cls r == ty))
      have hall : ∀ x ∈ sortKeys (l.filter (fun r => cls r == ty)), rank x.1 = order.idxOf ty := by
        intro x hx
        have ⟨hxl, hc⟩ := (hmemG ty x).1 hx
        rw [hrank x hxl, hc]
      have : (sortKeys (l.filter (fun r => cls r == ty))).Pairwise
          (fun a b => rank a.1 = order.idxOf ty ∧ rank b.1 = order.idxOf ty) := by
        apply List.pairwise_iff_forall_sublist.2
        intro a b hab
        have ha : a ∈ sortKeys (l.filter (fun r => cls r == ty)) := hab.subset (by simp)
        have hb : b ∈ sortKeys (l.filter (fun r => cls r == ty)) := hab.subset (by simp)
        exact ⟨hall a ha, hall b hb⟩
      exact (hs.and this).imp (fun {a b} h => by
        simp only [recLe, h.2.1, h.2.2, Nat.lt_irrefl, decide_false, beq_self_eq_true, Bool.true_and,
          Bool.false_or]
        exact h.1)
    · exact hidx.imp (fun {a b} hab x hx y hy => by
        have ⟨hxl, hcx⟩ := (hmemG a x).1 hx
        have ⟨hyl, hcy⟩ := (hmemG b y).1 hy
        simp only [recLe, hrank x hxl, hrank y hyl, hcx, hcy, hab, decide_true, Bool.true_or])
  have hperm := (List.perm_ext_iff_of_nodup hnodup
    ((sortRecs_perm rank l).nodup_iff.2 hln)).2
      (fun x => by rw [hmem x, (sortRecs_perm rank l).mem_iff])
  apply List.Perm.eq_of_pairwise (le := fun x y => recLe rank x y) _ hsorted (sortRecs_sorted rank l) hperm
  intro x y hx hy h1 h2
  exact eq_of_key_eq hnd ((hmem x).1 hx) ((sortRecs_perm rank l).mem_iff.1 hy)
    (recLe_antisymm_key rank x y h1 h2)

-- ------------------------------------------------------------------ well-formed tables
/-- what the proofs need of the tables of a map kind; decidable, checked per instance by `decide` -/
structure Spec.WF (s : Spec) : Prop where
  idx : s.order.Pairwise (fun a b => s.order.idxOf a < s.order.idxOf b)
  unk : 256 ∈ s.order
  known_in : ∀ ty, s.known ty = true → ty ∈ s.order ∧ ty < 256
  order_known : ∀ ty ∈ s.order, ty ≠ 256 → s.known ty = true
  finals_kept : ∀ ty ∈ s.finals, s.droppedOnceFinal.contains ty = false
  v2only_refused : ∀ ty ∈ s.v2only, s.v2.contains ty = true

variable (s : Spec)

theorem flatMap_congr' {α β : Type} (l : List α) (f g : α → List β) (h : ∀ a ∈ l, f a = g a) :
    l.flatMap f = l.flatMap g := by
  induction l with
  | nil => rfl
  | cons x xs ih =>
    simp only [List.flatMap_cons, h x (by simp), ih (fun a ha => h a (by simp [ha]))]

theorem key_rebuild (k : Bytes) (h : k ≠ []) : UInt8.ofNat (tyOf k) :: keyData k = k := by
  cases k with
  | nil => exact absurd rfl h
  | cons x xs => simp [tyOf, keyData]

theorem cls_mem (wf : s.WF) (k : Bytes) : s.cls k ∈ s.order := by
  unfold Spec.cls
  split
  · rename_i h; exact (wf.known_in _ h).1
  · exact wf.unk

theorem finalized_fromRecs (recs : List Rec) : (fromRecs s recs).finalized s = s.finalized recs := by
  simp only [Typed.finalized, fromRecs, Spec.finalized, List.any_map, List.any_filter]
  congr 1
  funext r
  simp only [Function.comp, Spec.finalRec]
  cases s.whole.contains (tyOf r.1) <;> simp

/-- one turn of the serialize loop, in terms of the records the map held -/
theorem emit_fromRecs (wf : s.WF) (ver : Nat) (recs : List Rec) (hv : ValidRecs recs)
    (hok : ∀ r ∈ recs, s.whole.contains (tyOf r.1) = true → keyData r.1 = [])
    (hgate : ∀ r ∈ recs, s.gated ver (tyOf r.1) = false) (fin : Bool)
    (ty : Nat) (hty : ty ∈ s.order) :
    emit s ver (fromRecs s recs) fin ty =
      sortKeys ((recs.filter (fun r => !s.dropped fin r)).filter (fun r => s.cls r.1 == ty)) := by
  have hne : ∀ r ∈ recs, r.1 ≠ [] := fun r hr => (hv.1 r hr).1
  unfold emit
  by_cases h256 : ty = 256
  · -- the unknown records
    subst h256
    simp only [if_true, fromRecs, List.filter_filter]
    congr 1
    apply List.filter_congr
    intro r _
    simp only [Spec.cls, Spec.dropped]
    cases hk : s.known (tyOf r.1)
    · have hw : s.whole.contains (tyOf r.1) = false := by
        simp only [Spec.known, Bool.or_eq_false_iff] at hk; exact hk.1
      simp only [hk, hw, Bool.false_eq_true, if_false, beq_self_eq_true, Bool.false_and, Bool.and_false,
        Bool.or_self, Bool.not_false, Bool.and_self]
    · have := (wf.known_in _ hk).2
      simp only [if_true, Bool.not_true, Bool.false_eq]
      simp only [Bool.and_eq_false_iff, beq_eq_false_iff_ne]
      left; omega
  · have hk : s.known ty = true := wf.order_known ty hty h256
    have hlt : ty < 256 := (wf.known_in ty hk).2
    simp only [h256, if_false]
    -- records of class ty are the records of type ty
    have hcls : ∀ r : Rec, (s.cls r.1 == ty) = (tyOf r.1 == ty) := by
      intro r
      simp only [Spec.cls]
      cases hkr : s.known (tyOf r.1)
      · simp only [Bool.false_eq_true, if_false]
        have h1 : (256 == ty) = false := by simp; omega
        have h2 : (tyOf r.1 == ty) = false := by
          simp only [beq_eq_false_iff_ne]; intro e; rw [e, hk] at hkr; cases hkr
        rw [h1, h2]
      · simp
    by_cases hg : s.gated ver ty = true
    · -- passed over at this version: the parser admitted no record of this type
      simp only [hg, if_true]
      have : (recs.filter (fun r => !s.dropped fin r)).filter (fun r => s.cls r.1 == ty) = [] := by
        simp only [List.filter_filter, List.filter_eq_nil_iff, Bool.and_eq_true, Bool.not_eq_true', hcls,
          beq_iff_eq, not_and]
        intro r hr he
        have := hgate r hr
        rw [he, hg] at this; cases this
      rw [this]; simp [sortKeys]
    simp only [hg, Bool.false_eq_true, if_false]
    by_cases hdrop : (fin && s.droppedOnceFinal.contains ty) = true
    · -- dropped once finalized: nothing of this type survives
      simp only [hdrop, if_true]
      have : (recs.filter (fun r => !s.dropped fin r)).filter (fun r => s.cls r.1 == ty) = [] := by
        simp only [List.filter_filter, List.filter_eq_nil_iff, Bool.and_eq_true, Bool.not_eq_true', hcls,
          beq_iff_eq, not_and]
        intro r _ hr
        simp only [Bool.and_eq_true] at hdrop
        simp only [Spec.dropped, hr, hk, hdrop.1, hdrop.2, Bool.and_self, Bool.or_true, Bool.true_eq_false,
          not_false_eq_true]
      rw [this]; simp [sortKeys]
    · simp only [hdrop, Bool.false_eq_true, if_false]
      have hdrop' : (fin && s.known ty && s.droppedOnceFinal.contains ty) = false := by
        simp only [hk, Bool.and_true]; simpa using hdrop
      by_cases hw : s.whole.contains ty = true
      · -- a whole-value field: its one record, when the value is truthy
        simp only [hw, if_true, fromRecs, List.filter_map, List.map_map, List.filter_filter]
        have hgoal : recs.filter (fun a => s.cls a.1 == ty && !s.dropped fin a)
            = recs.filter (fun r => tyOf r.1 == ty && !s.falsy ty r.2) := by
          apply List.filter_congr
          intro r _
          rw [hcls]
          cases hr : (tyOf r.1 == ty)
          · simp
          · have e : tyOf r.1 = ty := by simpa using hr
            simp only [Spec.dropped, e, hw, hdrop', Bool.true_and, Bool.or_false]
        rw [hgoal]
        have hmap : ((recs.filter (fun r => ((fun e : Nat × Bytes => e.1 == ty && !s.falsy ty e.2) ∘
              fun r : Rec => (tyOf r.1, r.2)) r && s.whole.contains (tyOf r.1))).map
              ((fun e : Nat × Bytes => (([UInt8.ofNat ty] : Bytes), e.2)) ∘ fun r : Rec => (tyOf r.1, r.2)))
            = recs.filter (fun r => tyOf r.1 == ty && !s.falsy ty r.2) := by
          have hf : ∀ r ∈ recs, (((fun e : Nat × Bytes => e.1 == ty && !s.falsy ty e.2) ∘
              fun r : Rec => (tyOf r.1, r.2)) r && s.whole.contains (tyOf r.1))
              = (tyOf r.1 == ty && !s.falsy ty r.2) := by
            intro r _
            simp only [Function.comp]
            cases hr : (tyOf r.1 == ty)
            · simp
            · have e : tyOf r.1 = ty := by simpa using hr
              simp only [e, hw, beq_self_eq_true, Bool.true_and, Bool.and_true]
          rw [List.filter_congr hf]
          conv => rhs; rw [← List.map_id (recs.filter (fun r => tyOf r.1 == ty && !s.falsy ty r.2))]
          apply List.map_congr_left
          intro r hr
          have ⟨hrl, hp⟩ := List.mem_filter.1 hr
          have e : tyOf r.1 = ty := by
            simp only [Bool.and_eq_true, beq_iff_eq] at hp; exact hp.1
          have hkd := hok r hrl (by rw [e]; exact hw)
          have := key_rebuild r.1 (hne r hrl)
          rw [e, hkd] at this
          simp only [Function.comp, id]
          rw [this]
        rw [hmap]
        symm
        apply sortKeys_of_same_key _ [UInt8.ofNat ty]
        intro r hr
        have ⟨hrl, hp⟩ := List.mem_filter.1 hr
        have e : tyOf r.1 = ty := by
          simp only [Bool.and_eq_true, beq_iff_eq] at hp; exact hp.1
        have hkd := hok r hrl (by rw [e]; exact hw)
        have := key_rebuild r.1 (hne r hrl)
        rw [e, hkd] at this
        exact this.symm
      · -- a key-data field: the dict, sorted
        have hw' : s.whole.contains ty = false := by simpa using hw
        have hkeyed : s.keyed.contains ty = true := by
          simp only [Spec.known, hw', Bool.false_or] at hk; exact hk
        simp only [hw', Bool.false_eq_true, if_false, fromRecs, List.filter_map, List.map_map,
          List.filter_filter]
        congr 1
        have hf : ∀ r ∈ recs, (((fun e : Nat × Bytes × Bytes => e.1 == ty) ∘
            fun r : Rec => (tyOf r.1, keyData r.1, r.2)) r &&
              (!s.whole.contains (tyOf r.1) && s.keyed.contains (tyOf r.1)))
            = (s.cls r.1 == ty && !s.dropped fin r) := by
          intro r _
          rw [hcls]
          simp only [Function.comp]
          cases hr : (tyOf r.1 == ty)
          · simp
          · have e : tyOf r.1 = ty := by simpa using hr
            simp only [Spec.dropped, e, hw', hkeyed, hdrop', Bool.false_and, Bool.or_false, Bool.not_false,
              Bool.and_self]
        rw [List.filter_congr hf]
        conv => rhs; rw [← List.map_id (recs.filter (fun r => s.cls r.1 == ty && !s.dropped fin r))]
        apply List.map_congr_left
        intro r hr
        have ⟨hrl, hp⟩ := List.mem_filter.1 hr
        have e : tyOf r.1 = ty := by
          simp only [Bool.and_eq_true, hcls, beq_iff_eq] at hp; exact hp.1
        have := key_rebuild r.1 (hne r hrl)
        rw [e] at this
        simp only [Function.comp, id]
        rw [this]

/-- MAIN: the serialize loop over the typed object the parse loop builds is
    "sort by (field rank, key) the records that survive the drop predicate" -/
theorem toRecs_fromRecs (wf : s.WF) (ver : Nat) (recs : List Rec) (hv : ValidRecs recs)
    (hok : ∀ r ∈ recs, s.whole.contains (tyOf r.1) = true → keyData r.1 = [])
    (hgate : ∀ r ∈ recs, s.gated ver (tyOf r.1) = false) :
    toRecs s ver (fromRecs s recs) = sortRecs s.rank (s.kept recs) := by
  unfold toRecs
  rw [finalized_fromRecs]
  have h1 : s.order.flatMap (emit s ver (fromRecs s recs) (s.finalized recs)) =
      s.order.flatMap (fun ty => sortKeys ((s.kept recs).filter (fun r => s.cls r.1 == ty))) := by
    apply flatMap_congr'
    intro ty hty
    rw [emit_fromRecs s wf ver recs hv hok hgate _ ty hty]; rfl
  rw [h1]
  have hvk : ValidRecs (s.kept recs) := validRecs_sublist List.filter_sublist hv
  exact flatMap_sorted_groups s.order (fun r => s.cls r.1) s.rank (s.kept recs) wf.idx
    (fun r _ => cls_mem s wf r.1) (fun r _ => rfl) hvk.2

theorem recordOk_keyData (ver : Nat) (r : Rec) (h : s.recordOk ver r = true)
    (hw : s.whole.contains (tyOf r.1) = true) : keyData r.1 = [] := by
  unfold Spec.recordOk at h
  simp only [hw, if_true] at h
  repeat' split at h
  all_goals first | cases h | (simp only [Bool.and_eq_true, List.isEmpty_iff] at h; exact h.1)

/-- what the parser admits at a version is never a field the serializer passes over at that version -/
theorem recordOk_not_gated (wf : s.WF) (ver : Nat) (r : Rec) (h : s.recordOk ver r = true) :
    s.gated ver (tyOf r.1) = false := by
  unfold Spec.gated
  by_cases h0 : ver = 0
  · subst h0
    cases hv2 : s.v2.contains (tyOf r.1)
    · cases hvo : s.v2only.contains (tyOf r.1)
      · simp
      · have := wf.v2only_refused _ (by simpa using hvo)
        rw [hv2] at this; cases this
    · have hv2' : tyOf r.1 ∈ s.v2 := by simpa using hv2
      have : s.recordOk 0 r = false := by simp [Spec.recordOk, hv2']
      rw [this] at h; cases h
  · have hne : (ver != 0) = true := by simpa using h0
    have heq : (ver == 0) = false := by simpa using h0
    cases hvo : s.v0only.contains (tyOf r.1)
    · simp [heq]
    · have hvo' : tyOf r.1 ∈ s.v0only := by simpa using hvo
      have : s.recordOk ver r = false := by simp [Spec.recordOk, h0, hvo']
      rw [this] at h; cases h

-- ------------------------------------------------------------------ consequences
theorem mem_sorted_kept (recs : List Rec) (r : Rec) :
    r ∈ sortRecs s.rank (s.kept recs) ↔ r ∈ recs ∧ s.dropped (s.finalized recs) r = false := by
  rw [(sortRecs_perm s.rank (s.kept recs)).mem_iff]
  simp [Spec.kept, List.mem_filter]

theorem finalRec_kept (wf : s.WF) (fin : Bool) (r : Rec) (h : s.finalRec r = true) : s.dropped fin r = false := by
  simp only [Spec.finalRec, Bool.and_eq_true, Bool.not_eq_true'] at h
  obtain ⟨⟨hf, hw⟩, hfal⟩ := h
  have := wf.finals_kept _ (by simpa using hf)
  simp only [Spec.dropped, hw, hfal, this, Bool.and_false, Bool.or_self]

theorem finalized_sorted_kept (wf : s.WF) (recs : List Rec) :
    s.finalized (sortRecs s.rank (s.kept recs)) = s.finalized recs := by
  apply Bool.eq_iff_iff.2
  simp only [Spec.finalized, List.any_eq_true]
  constructor
  · rintro ⟨r, hr, hf⟩
    exact ⟨r, ((mem_sorted_kept s recs r).1 hr).1, hf⟩
  · rintro ⟨r, hr, hf⟩
    exact ⟨r, (mem_sorted_kept s recs r).2 ⟨hr, finalRec_kept s wf _ r hf⟩, hf⟩

theorem kept_sorted_kept (wf : s.WF) (recs : List Rec) :
    s.kept (sortRecs s.rank (s.kept recs)) = sortRecs s.rank (s.kept recs) := by
  show (sortRecs s.rank (s.kept recs)).filter
    (fun r => !s.dropped (s.finalized (sortRecs s.rank (s.kept recs))) r) = _
  rw [finalized_sorted_kept s wf recs]
  apply List.filter_eq_self.2
  intro r hr
  have := ((mem_sorted_kept s recs r).1 hr).2
  simp [this]

theorem admitsVersion_iff (ver : Nat) : admitsVersion ver = true ↔ ver = 0 ∨ ver = 2 := by
  simp [admitsVersion, Gen.Wire.PSBT_VERSIONS]

/-- pairwise distinct key origins survive dropping and reordering records -/
theorem distinctOk_of_perm_sublist (l l' l'' : List Rec) (hp : l'.Perm l'') (hs : l''.Sublist l)
    (h : s.distinctOk l = true) : s.distinctOk l' = true := by
  simp only [Spec.distinctOk, List.all_eq_true, decide_eq_true_eq] at h ⊢
  intro ty hty
  have h1 := h ty hty
  have h2 : ((l''.filter (fun r => tyOf r.1 == ty)).map (·.2)).Nodup :=
    List.Nodup.sublist ((hs.filter _).map _) h1
  exact ((hp.filter _).map _).nodup_iff.2 h2

/-- what `reser` answers with, spelled out -/
theorem reser_ok (wf : s.WF) (ver : Nat) (b out : Bytes) (h : reser s ver b = .ok out) :
    ∃ recs, parseMap b = .ok (recs, []) ∧ recs.all (s.recordOk ver) = true ∧ ValidRecs recs ∧
      toRecs s ver (fromRecs s recs) = sortRecs s.rank (s.kept recs) ∧
      out = serMap (sortRecs s.rank (s.kept recs)) ∧ (ver = 0 ∨ ver = 2) ∧ s.distinctOk recs = true := by
  unfold reser at h
  split at h
  · cases h
  · rename_i recs rest hp
    split at h
    · cases h
    · rename_i hadm
      split at h
      · cases h
      · rename_i hr
        split at h
        · rename_i hall'
          cases h
          have hall : recs.all (s.recordOk ver) = true := (Bool.and_eq_true _ _ ▸ hall').1
          have hdist : s.distinctOk recs = true := (Bool.and_eq_true _ _ ▸ hall').2
          have : rest = [] := by simpa using hr
          subst this
          have ⟨hv, _⟩ := serMap_parseMap _ _ _ hp
          have hok : ∀ r ∈ recs, s.whole.contains (tyOf r.1) = true → keyData r.1 = [] :=
            fun r hr hw => recordOk_keyData s ver r (List.all_eq_true.1 hall r hr) hw
          have hgate : ∀ r ∈ recs, s.gated ver (tyOf r.1) = false :=
            fun r hr => recordOk_not_gated s wf ver r (List.all_eq_true.1 hall r hr)
          have e := toRecs_fromRecs s wf ver recs hv hok hgate
          have hver : ver = 0 ∨ ver = 2 := by
            apply (admitsVersion_iff ver).1
            simpa using hadm
          exact ⟨recs, hp, hall, hv, e, by rw [e], hver, hdist⟩
        · cases h

theorem parseMap_sorted_kept (recs : List Rec) (hv : ValidRecs recs) :
    parseMap (serMap (sortRecs s.rank (s.kept recs))) = .ok (sortRecs s.rank (s.kept recs), []) := by
  have hv' : ValidRecs (sortRecs s.rank (s.kept recs)) :=
    validRecs_perm (sortRecs_perm s.rank _).symm (validRecs_sublist List.filter_sublist hv)
  have := parseMap_serMap _ [] hv'
  simpa using this

/-- re-serialization is a fixed point after one round -/
theorem reser_fixed (wf : s.WF) (ver : Nat) (b out : Bytes) (h : reser s ver b = .ok out) :
    reser s ver out = .ok out := by
  obtain ⟨recs, hp, hall, hv, _, rfl, hver, hdist⟩ := reser_ok s wf ver b out h
  have hdist' : s.distinctOk (sortRecs s.rank (s.kept recs)) = true :=
    distinctOk_of_perm_sublist s recs _ (s.kept recs) (sortRecs_perm s.rank _) List.filter_sublist hdist
  have hv' : ValidRecs (sortRecs s.rank (s.kept recs)) :=
    validRecs_perm (sortRecs_perm s.rank _).symm (validRecs_sublist List.filter_sublist hv)
  have hall' : (sortRecs s.rank (s.kept recs)).all (s.recordOk ver) = true := by
    rw [List.all_eq_true] at hall ⊢
    intro r hr
    exact hall r ((mem_sorted_kept s recs r).1 hr).1
  have hok : ∀ r ∈ sortRecs s.rank (s.kept recs), s.whole.contains (tyOf r.1) = true → keyData r.1 = [] :=
    fun r hr hw => recordOk_keyData s ver r (List.all_eq_true.1 hall' r hr) hw
  have hgate : ∀ r ∈ sortRecs s.rank (s.kept recs), s.gated ver (tyOf r.1) = false :=
    fun r hr => recordOk_not_gated s wf ver r (List.all_eq_true.1 hall' r hr)
  have hadm : admitsVersion ver = true := (admitsVersion_iff ver).2 hver
  unfold reser
  rw [parseMap_sorted_kept s recs hv]
  simp only [hadm, List.isEmpty_nil, Bool.not_true, Bool.false_eq_true, if_false, hall', hdist', Bool.and_self,
    if_true, toRecs_fromRecs s wf ver _ hv' hok hgate, kept_sorted_kept s wf, sortRecs_idem]

-- ------------------------------------------------------------------ the three map kinds
instance (s : Spec) : Decidable (Spec.WF s) :=
  decidable_of_iff
    (s.order.Pairwise (fun a b => s.order.idxOf a < s.order.idxOf b) ∧ 256 ∈ s.order ∧
      (∀ ty ∈ s.whole ++ s.keyed, ty ∈ s.order ∧ ty < 256) ∧
      (∀ ty ∈ s.order, ty ≠ 256 → s.known ty = true) ∧
      (∀ ty ∈ s.finals, s.droppedOnceFinal.contains ty = false) ∧
      (∀ ty ∈ s.v2only, s.v2.contains ty = true))
    ⟨fun ⟨a, b, c, d, e, f⟩ => ⟨a, b, fun ty h => c ty (by
        simp only [Spec.known, Bool.or_eq_true, List.contains_iff_mem] at h
        simpa using h), d, e, f⟩,
     fun w => ⟨w.idx, w.unk, fun ty h => w.known_in ty (by
        simp only [Spec.known, Bool.or_eq_true, List.contains_iff_mem]
        simpa using h), w.order_known, w.finals_kept, w.v2only_refused⟩⟩

theorem wf_specIn : specIn.WF := by decide
theorem wf_specOut : specOut.WF := by decide
theorem wf_specGlobal : specGlobal.WF := by decide

/-- the falsy / object tables computed from the generated kind tables, evaluated -/
theorem specIn_emptyIs : specIn.emptyIs = [(Gen.Wire.PSBT_IN_FINAL_SCRIPTWITNESS, [0])] := by decide
theorem specGlobal_emptyIs : specGlobal.emptyIs = [(Gen.Wire.PSBT_GLOBAL_VERSION, [0, 0, 0, 0])] := by decide
theorem specOut_emptyIs : specOut.emptyIs = [] := by decide

theorem tyOf_ofNat_cons (ty : Nat) (h : ty < 256) (k : Bytes) : tyOf (UInt8.ofNat ty :: k) = ty := by
  simp only [tyOf, UInt8.toNat_ofNat']
  omega

/-- the version gate of the serialize loop, on ANY typed object (constructed ones included): a record of a
    field this version does not write comes out only if the caller filed it under `unknown` -/
theorem toRecs_gated (wf : s.WF) (ver : Nat) (t : Typed) (r : Rec) (hr : r ∈ toRecs s ver t)
    (hg : s.gated ver (tyOf r.1) = true) : r ∈ t.unknown := by
  unfold toRecs at hr
  obtain ⟨ty, hty, hmem⟩ := List.mem_flatMap.1 hr
  unfold emit at hmem
  by_cases h256 : ty = 256
  · simp only [h256, if_true] at hmem
    exact (sortKeys_perm _).mem_iff.1 hmem
  · have hk : s.known ty = true := wf.order_known ty hty h256
    have hlt : ty < 256 := (wf.known_in ty hk).2
    simp only [h256, if_false] at hmem
    by_cases hgt : s.gated ver ty = true
    · simp [hgt] at hmem
    · simp only [hgt, Bool.false_eq_true, if_false] at hmem
      exfalso
      apply hgt
      split at hmem
      · cases hmem
      · split at hmem
        · obtain ⟨e, _, he⟩ := List.mem_map.1 hmem
          rw [← he] at hg
          rw [tyOf_ofNat_cons ty hlt] at hg
          exact hg
        · have hmem' := (sortKeys_perm _).mem_iff.1 hmem
          obtain ⟨e, _, he⟩ := List.mem_map.1 hmem'
          rw [← he] at hg
          rw [tyOf_ofNat_cons ty hlt] at hg
          exact hg

theorem reserGlobal_ok (b out : Bytes) (h : reserGlobal b = .ok out) :
    ∃ ver, (ver = 0 ∨ ver = 2) ∧ reser specGlobal ver b = .ok out := by
  unfold reserGlobal at h
  split at h
  · cases h
  · rename_i recs _ _
    simp only at h
    split at h
    · cases h
    · rename_i hv
      split at h
      · cases h
      · refine ⟨globalVersion recs, ?_, h⟩
        apply (admitsVersion_iff _).1
        simpa using hv

end Btc.Psbt
