import Model.C05.PsbtTyped
import Proofs.C05.PsbtMap
/-! Typed layer of a PSBT input: what re-serialization keeps, what it normalises away, fixed point. -/
namespace Btc.Psbt
open Btc Btc.Wire

theorem validRecs_sublist {a b : List Rec} (h : a.Sublist b) (hv : ValidRecs b) : ValidRecs a :=
  ⟨fun r hr => hv.1 r (h.subset hr), List.Pairwise.sublist (h.map _) hv.2⟩

theorem keptIn_sublist (recs : List Rec) : (keptIn recs).Sublist recs := List.filter_sublist

theorem mem_sorted_kept (recs : List Rec) (r : Rec) :
    r ∈ sortRecs inRank (keptIn recs) ↔ r ∈ recs ∧ droppedIn (finalized recs) r = false := by
  rw [(sortRecs_perm inRank (keptIn recs)).mem_iff]
  simp [keptIn, List.mem_filter]

/-- a truthy final field is never one of the fields a finalized input drops (generated tables) -/
theorem finalRec_kept (fin : Bool) (r : Rec) (h : finalRec r = true) : droppedIn fin r = false := by
  simp only [finalRec, Bool.and_eq_true, Bool.or_eq_true, beq_iff_eq, Bool.not_eq_true'] at h
  obtain ⟨⟨hw, hty⟩, hf⟩ := h
  simp only [droppedIn, hw, hf, Bool.and_false, Bool.false_or, Bool.and_eq_false_iff]
  right
  rcases hty with e | e <;> rw [e] <;> decide

theorem finalized_sorted_kept (recs : List Rec) :
    finalized (sortRecs inRank (keptIn recs)) = finalized recs := by
  apply Bool.eq_iff_iff.2
  simp only [finalized, List.any_eq_true]
  constructor
  · rintro ⟨r, hr, hf⟩
    exact ⟨r, ((mem_sorted_kept recs r).1 hr).1, hf⟩
  · rintro ⟨r, hr, hf⟩
    exact ⟨r, (mem_sorted_kept recs r).2 ⟨hr, finalRec_kept _ r hf⟩, hf⟩

theorem keptIn_sorted_kept (recs : List Rec) :
    keptIn (sortRecs inRank (keptIn recs)) = sortRecs inRank (keptIn recs) := by
  unfold keptIn
  rw [show finalized (sortRecs inRank (List.filter (fun r => !droppedIn (finalized recs) r) recs))
      = finalized recs from finalized_sorted_kept recs]
  apply List.filter_eq_self.2
  intro r hr
  have := ((mem_sorted_kept recs r).1 hr).2
  simp [this]

/-- what `reserIn` answers with, spelled out -/
theorem reserIn_ok (ver : Nat) (b out : Bytes) (h : reserIn ver b = .ok out) :
    ∃ recs, parseMap b = .ok (recs, []) ∧ recs.all (recordOkIn ver) = true ∧
      out = serMap (sortRecs inRank (keptIn recs)) := by
  unfold reserIn at h
  split at h
  · cases h
  · rename_i recs rest hp
    split at h
    · cases h
    · rename_i hr
      split at h
      · rename_i hall
        cases h
        have : rest = [] := by simpa using hr
        subst this
        exact ⟨recs, hp, hall, rfl⟩
      · cases h

theorem parseMap_sorted_kept (recs : List Rec) (hv : ValidRecs recs) :
    parseMap (serMap (sortRecs inRank (keptIn recs))) = .ok (sortRecs inRank (keptIn recs), []) := by
  have hv' : ValidRecs (sortRecs inRank (keptIn recs)) :=
    validRecs_perm (sortRecs_perm inRank _).symm (validRecs_sublist (keptIn_sublist recs) hv)
  have := parseMap_serMap _ [] hv'
  simpa using this

/-- re-serialization is a fixed point after one round -/
theorem reserIn_fixed (ver : Nat) (b out : Bytes) (h : reserIn ver b = .ok out) :
    reserIn ver out = .ok out := by
  obtain ⟨recs, hp, hall, rfl⟩ := reserIn_ok ver b out h
  have ⟨hv, _⟩ := serMap_parseMap _ _ _ hp
  unfold reserIn
  rw [parseMap_sorted_kept recs hv]
  have hall' : (sortRecs inRank (keptIn recs)).all (recordOkIn ver) = true := by
    rw [List.all_eq_true] at hall ⊢
    intro r hr
    exact hall r ((mem_sorted_kept recs r).1 hr).1
  simp only [List.isEmpty_nil, Bool.not_true, Bool.false_eq_true, if_false, hall', if_true,
    keptIn_sorted_kept, sortRecs_idem]

-- ------------------------------------------------------------------ output maps
theorem mem_sorted_keptOut (recs : List Rec) (r : Rec) :
    r ∈ sortRecs outRank (keptOut recs) ↔ r ∈ recs ∧ droppedOut r = false := by
  rw [(sortRecs_perm outRank (keptOut recs)).mem_iff]
  simp [keptOut, List.mem_filter]

theorem reserOut_ok (ver : Nat) (b out : Bytes) (h : reserOut ver b = .ok out) :
    ∃ recs, parseMap b = .ok (recs, []) ∧ recs.all (recordOkOut ver) = true ∧
      out = serMap (sortRecs outRank (keptOut recs)) := by
  unfold reserOut at h
  split at h
  · cases h
  · rename_i recs rest hp
    split at h
    · cases h
    · rename_i hr
      split at h
      · rename_i hall
        cases h
        have : rest = [] := by simpa using hr
        subst this
        exact ⟨recs, hp, hall, rfl⟩
      · cases h

theorem parseMap_sorted_keptOut (recs : List Rec) (hv : ValidRecs recs) :
    parseMap (serMap (sortRecs outRank (keptOut recs))) = .ok (sortRecs outRank (keptOut recs), []) := by
  have hv' : ValidRecs (sortRecs outRank (keptOut recs)) :=
    validRecs_perm (sortRecs_perm outRank _).symm (validRecs_sublist List.filter_sublist hv)
  have := parseMap_serMap _ [] hv'
  simpa using this

theorem reserOut_fixed (ver : Nat) (b out : Bytes) (h : reserOut ver b = .ok out) :
    reserOut ver out = .ok out := by
  obtain ⟨recs, hp, hall, rfl⟩ := reserOut_ok ver b out h
  have ⟨hv, _⟩ := serMap_parseMap _ _ _ hp
  unfold reserOut
  rw [parseMap_sorted_keptOut recs hv]
  have hall' : (sortRecs outRank (keptOut recs)).all (recordOkOut ver) = true := by
    rw [List.all_eq_true] at hall ⊢
    intro r hr
    exact hall r ((mem_sorted_keptOut recs r).1 hr).1
  have hk : keptOut (sortRecs outRank (keptOut recs)) = sortRecs outRank (keptOut recs) := by
    apply List.filter_eq_self.2
    intro r hr
    have := ((mem_sorted_keptOut recs r).1 hr).2
    simp [this]
  simp only [List.isEmpty_nil, Bool.not_true, Bool.false_eq_true, if_false, hall', if_true, hk, sortRecs_idem]

end Btc.Psbt
