import Model.C05.Misc
import Proofs.C05.Tx
namespace Btc.Wire
open Btc

theorem lawful_xkeyFields : Lawful xkeyFields :=
  lawful_pair (lawful_bytesN 4 _) (lawful_pair (lawful_uintBE 1) (lawful_pair (lawful_bytesN 4 _)
    (lawful_pair (lawful_uintBE 4) (lawful_pair (lawful_bytesN 32 _) (lawful_bytesN 33 _)))))

theorem lawful_xkey : Lawful xkey := by
  apply lawful_guardLen
  · exact lawful_map lawful_xkeyFields _ _ (fun _ _ => rfl)
  · intro t hv
    have hl := lawful_map lawful_xkeyFields
      (fun p => (⟨p.1, p.2.1, p.2.2.1, p.2.2.2.1, p.2.2.2.2.1, p.2.2.2.2.2⟩ : XKey))
      (fun k => (k.version, k.depth, k.parentFp, k.index, k.chainCode, k.key)) (fun _ _ => rfl)
    rw [← hl.size_eq t hv]
    exact Nat.le_of_eq rfl

theorem xkey_length (k : XKey) (hv : xkey.valid k) : (xkey.ser k).length = 78 := by
  rw [← lawful_xkey.size_eq k hv]; rfl

theorem xkey_valid (k : XKey) :
    xkey.valid k ↔ k.version.length = 4 ∧ k.depth < 256 ∧ k.parentFp.length = 4 ∧ k.index < 2 ^ 32
      ∧ k.chainCode.length = 32 ∧ k.key.length = 33 := by
  simp only [xkey, Codec.guardLen, Codec.map, xkeyFields, pair, uintBE_valid, bytesN]
  constructor
  · rintro ⟨⟨a, b, c, d, e, f⟩, _⟩; exact ⟨a, by omega, c, by omega, e, f⟩
  · rintro ⟨a, b, c, d, e, f⟩; exact ⟨⟨a, by omega, c, by omega, e, f⟩, trivial⟩

theorem lawful_ssaSig : Lawful ssaSig := by
  have h := lawful_pair (lawful_uintBE 32) (lawful_uintBE 32)
  apply lawful_guardLen h
  intro t hv; rw [← h.size_eq t hv]; exact Nat.le_of_eq rfl

theorem lawful_bmsSig : Lawful bmsSig := by
  have h := lawful_pair (lawful_uintBE 1) (lawful_pair (lawful_uintBE 32) (lawful_uintBE 32))
  apply lawful_guardLen h
  intro t hv; rw [← h.size_eq t hv]; exact Nat.le_of_eq rfl

theorem ssaSig_valid (t : Nat × Nat) : ssaSig.valid t ↔ t.1 < 2 ^ 256 ∧ t.2 < 2 ^ 256 := by
  simp only [ssaSig, Codec.guardLen, pair, uintBE_valid]

theorem bmsSig_valid (t : Nat × Nat × Nat) :
    bmsSig.valid t ↔ t.1 < 256 ∧ t.2.1 < 2 ^ 256 ∧ t.2.2 < 2 ^ 256 := by
  simp only [bmsSig, Codec.guardLen, pair, uintBE_valid]

theorem lawful_keyOriginN (n : Nat) : Lawful (keyOriginN n) :=
  lawful_pair (lawful_bytesN 4 _) (lawful_listN (lawful_uintLE 4) n)

theorem sizeList_uint4 (l : List Nat) : sizeList (uintLE 4) l = 4 * l.length := by
  induction l with
  | nil => rfl
  | cons x xs ih => simp only [sizeList, List.map_cons, List.sum_cons, List.length_cons] at ih ⊢; rw [ih]; simp; omega

/-- `BIP32KeyOrigin` on octets: accepted iff a 4-byte fingerprint followed by 4-byte little-endian
    indexes below 2^32 and nothing else -/
theorem keyOrigin_parseAll_iff (b : Bytes) (k : Bytes × List Nat) :
    keyOriginParseAll b = .ok k ↔ (k.1.length = 4 ∧ ∀ i ∈ k.2, i < 2 ^ 32) ∧ b = keyOriginSer k := by
  have hvalid : ∀ n, (keyOriginN n).valid k ↔ (k.1.length = 4 ∧ k.2.length = n ∧ ∀ i ∈ k.2, i < 2 ^ 32) := by
    intro n
    simp only [keyOriginN, pair, bytesN, listN, uintLE_valid]
  unfold keyOriginParseAll keyOriginSer
  constructor
  · intro h
    split at h
    · cases h
    · split at h
      · cases h
      · have ⟨hv, e⟩ := ((lawful_keyOriginN _).parseAll_iff b k).1 h
        have ⟨a, l, c⟩ := (hvalid _).1 hv
        rw [l]
        exact ⟨⟨a, c⟩, e⟩
  · rintro ⟨⟨a, c⟩, rfl⟩
    have hv : (keyOriginN k.2.length).valid k := (hvalid _).2 ⟨a, rfl, c⟩
    have hl := (lawful_keyOriginN k.2.length).size_eq k hv
    simp only [keyOriginN, pair, bytesN, listN, sizeList_uint4] at hl
    have hl' : ((keyOriginN k.2.length).ser k).length = 4 + 4 * k.2.length := by
      simp only [keyOriginN, pair, bytesN, listN]; exact hl.symm
    rw [hl']
    have h1 : ¬ (4 + 4 * k.2.length < 4) := by omega
    have h2 : ¬ ((4 + 4 * k.2.length - 4) % 4 ≠ 0) := by omega
    have h3 : (4 + 4 * k.2.length - 4) / 4 = k.2.length := by omega
    simp only [h1, h2, h3, if_false]
    exact (lawful_keyOriginN _).parseAll_ser k hv

end Btc.Wire
