import Model.C05.Misc
import Proofs.C05.Tx
namespace Btc.Wire
open Btc

theorem lawful_xkeyFields : Lawful xkeyFields :=
  lawful_pair (lawful_bytesN 4 _) (lawful_pair (lawful_uintBE 1) (lawful_pair (lawful_bytesN 4 _)
    (lawful_pair (lawful_uintBE 4) (lawful_pair (lawful_bytesN 32 _) (lawful_bytesN 33 _)))))

theorem lawful_xkey : Lawful xkey := by
  apply lawful_guardLen
  · exact lawful_map lawful_xkeyFields _ _ (fun _ _ => rfl)
  · intro t hv
    have hl := lawful_map lawful_xkeyFields
      (fun p => (⟨p.1, p.2.1, p.2.2.1, p.2.2.2.1, p.2.2.2.2.1, p.2.2.2.2.2⟩ : XKey))
      (fun k => (k.version, k.depth, k.parentFp, k.index, k.chainCode, k.key)) (fun _ _ => rfl)
    rw [← hl.size_eq t hv]
    exact Nat.le_of_eq rfl

theorem xkey_length (k : XKey) (hv : xkey.valid k) : (xkey.ser k).length = 78 := by
  rw [← lawful_xkey.size_eq k hv]; rfl

theorem xkey_valid (k : XKey) :
    xkey.valid k ↔ k.version.length = 4 ∧ k.depth < 256 ∧ k.parentFp.length = 4 ∧ k.index < 2 ^ 32
      ∧ k.chainCode.length = 32 ∧ k.key.length = 33 := by
  simp only [xkey, Codec.guardLen, Codec.map, xkeyFields, pair, uintBE_valid, bytesN]
  constructor
  · rintro ⟨⟨a, b, c, d, e, f⟩, _⟩; exact ⟨a, by omega, c, by omega, e, f⟩
  · rintro ⟨a, b, c, d, e, f⟩; exact ⟨⟨a, by omega, c, by omega, e, f⟩, trivial⟩

end Btc.Wire
