import Model.C05.Tx
import Proofs.C05.Codec
/-!
Lawfulness of the transaction family, the header and the block.  Core Lean only.
-/
namespace Btc.Wire
open Btc

theorem lawful_guardLen {c : Codec α} (h : Lawful c) (n : Nat) (e : Err)
    (hn : ∀ t, c.valid t → n ≤ (c.ser t).length) : Lawful (c.guardLen n e) where
  parse_ser t rest hv := by
    simp only [Codec.guardLen] at hv ⊢
    have := hn t hv
    have hl : ¬ ((c.ser t ++ rest).take n).length < n := by simp; omega
    simp only [hl, if_false]
    exact h.parse_ser t rest hv
  ser_parse b t rest hp := by
    simp only [Codec.guardLen] at hp ⊢
    split at hp
    · cases hp
    · exact h.ser_parse b t rest hp
  size_eq t hv := h.size_eq t hv

-- ------------------------------------------------------------------ leaves
theorem lawful_outPoint : Lawful outPoint :=
  lawful_map (lawful_pair (lawful_revBytesN 32) (lawful_uintLE 4)) _ _ (fun _ _ => rfl)

theorem outPoint_valid (o : OutPoint) : outPoint.valid o ↔ o.txId.length = 32 ∧ o.vout < 2 ^ 32 := by
  simp only [outPoint, Codec.map, pair, revBytesN_valid, uintLE_valid]
  constructor
  · rintro ⟨⟨a, b⟩, _⟩; exact ⟨a, by omega⟩
  · rintro ⟨a, b⟩; exact ⟨⟨a, by omega⟩, trivial⟩

theorem lawful_witness : Lawful witness := lawful_listOf _ lawful_varBytes

theorem lawful_txIn : Lawful txIn :=
  lawful_map (lawful_pair lawful_outPoint (lawful_pair lawful_varBytes (lawful_uintLE 4))) _ _
    (fun _ _ => rfl)

theorem txIn_valid (i : TxIn) :
    txIn.valid i ↔ outPoint.valid i.prevOut ∧ varBytes.valid i.scriptSig ∧ i.sequence < 2 ^ 32
      ∧ i.witness = [] := by
  simp only [txIn, Codec.map, pair, uintLE_valid]
  constructor
  · rintro ⟨⟨a, b, c⟩, d⟩
    refine ⟨a, b, by omega, ?_⟩
    have := congrArg TxIn.witness d
    simpa using this.symm
  · rintro ⟨a, b, c, d⟩
    refine ⟨⟨a, b, by omega⟩, ?_⟩
    cases i; simp_all

theorem lawful_txOut : Lawful txOut :=
  lawful_map (lawful_pair (lawful_intLE 8) lawful_varBytes) _ _ (fun _ _ => rfl)

theorem txOut_valid (o : TxOut) :
    txOut.valid o ↔ (-(2 ^ 63 : Int) ≤ o.value ∧ o.value < 2 ^ 63) ∧ varBytes.valid o.script := by
  simp only [txOut, Codec.map, pair, intLE8_valid]
  constructor
  · rintro ⟨⟨a, b⟩, _⟩; exact ⟨a, b⟩
  · rintro ⟨a, b⟩; exact ⟨⟨a, b⟩, trivial⟩

theorem lawful_vinC : Lawful vinC := lawful_listOf _ lawful_txIn
theorem lawful_voutC : Lawful voutC := lawful_listOf _ lawful_txOut

-- ------------------------------------------------------------------ Tx helpers
@[simp] theorem txIn_ser_strip (i : TxIn) : txIn.ser i.strip = txIn.ser i := rfl
@[simp] theorem txIn_size_strip (i : TxIn) : txIn.size i.strip = txIn.size i := rfl

theorem serList_strip (l : List TxIn) : serList txIn (l.map TxIn.strip) = serList txIn l := by
  induction l with
  | nil => rfl
  | cons x xs ih => simp only [serList, List.map_cons, List.flatMap_cons] at ih ⊢; rw [ih]; rfl

theorem vinC_ser_strip (l : List TxIn) : vinC.ser (l.map TxIn.strip) = vinC.ser l := by
  simp only [vinC, listOf_ser, List.length_map, serList_strip]

theorem sizeList_strip (l : List TxIn) : sizeList txIn (l.map TxIn.strip) = sizeList txIn l := by
  induction l with
  | nil => rfl
  | cons x xs ih => simp only [sizeList, List.map_cons, List.sum_cons] at ih ⊢; rw [ih]; rfl

theorem vinC_size_strip (l : List TxIn) : vinC.size (l.map TxIn.strip) = vinC.size l := by
  simp only [vinC, listOf, prefixed, listN, List.length_map, sizeList_strip]

theorem setWitnesses_strip (l : List TxIn) :
    setWitnesses (l.map TxIn.strip) (l.map (·.witness)) = l := by
  induction l with
  | nil => rfl
  | cons x xs ih => simp only [List.map_cons, setWitnesses, ih]; rfl

theorem setWitnesses_spec (l : List TxIn) (ws : List (List Bytes)) (h : ws.length = l.length)
    (hs : ∀ i ∈ l, i.witness = []) :
    (setWitnesses l ws).map TxIn.strip = l ∧ (setWitnesses l ws).map (·.witness) = ws := by
  induction l generalizing ws with
  | nil => cases ws with
    | nil => exact ⟨rfl, rfl⟩
    | cons _ _ => simp at h
  | cons x xs ih =>
    cases ws with
    | nil => simp at h
    | cons w ws =>
      have ⟨a, b⟩ := ih ws (by simpa using h) (fun i hi => hs i (by simp [hi]))
      have hx := hs x (by simp)
      simp only [setWitnesses, List.map_cons, a, b, and_true]
      congr 1
      cases x; simp_all [TxIn.strip]

theorem any_isSegwit (l : List TxIn) :
    l.any TxIn.isSegwit = !(l.map (·.witness)).all List.isEmpty := by
  induction l with
  | nil => rfl
  | cons x xs ih => simp only [List.any_cons, List.map_cons, List.all_cons, ih, TxIn.isSegwit,
      Bool.not_and]

theorem strip_eq_self (l : List TxIn) (h : l.any TxIn.isSegwit = false) : l.map TxIn.strip = l := by
  induction l with
  | nil => rfl
  | cons x xs ih =>
    simp only [List.any_cons, Bool.or_eq_false_iff] at h
    simp only [List.map_cons, ih h.2]
    congr 1
    have : x.witness = [] := by
      have := h.1; simp only [TxIn.isSegwit, Bool.not_eq_false', List.isEmpty_iff] at this; exact this
    cases x; simp_all [TxIn.strip]

theorem marker_eq : Gen.Wire.SEGWIT_MARKER = [0, 1] := rfl

theorem take2_eq (b : Bytes) (h : (b.take 2 == Gen.Wire.SEGWIT_MARKER) = true) :
    b = [0, 1] ++ b.drop 2 := by
  rw [marker_eq] at h
  have h' : b.take 2 = [0, 1] := by simpa using h
  conv => lhs; rw [← List.take_append_drop 2 b]
  rw [h']

/-- the two bytes after the version are not the marker when inputs are present, or absent with an
    output count other than one -/
theorem no_marker (vin : List TxIn) (vout : List TxOut) (rest : Bytes)
    (h : ¬ (vin = [] ∧ vout.length = 1)) :
    ((vinC.ser vin ++ (voutC.ser vout ++ rest)).take 2 == Gen.Wire.SEGWIT_MARKER) = false := by
  rw [marker_eq]
  simp only [vinC, voutC, listOf_ser]
  obtain ⟨h1, t1, e1, z1, _⟩ := VarInt.ser_head vin.length
  obtain ⟨h2, t2, e2, _, o2⟩ := VarInt.ser_head vout.length
  rw [e1, e2]
  by_cases hv : vin = []
  · subst hv
    have hz : h1 = 0 := z1.2 rfl
    have ht : t1 = [] := by
      have : VarInt.ser 0 = [0] := rfl
      simp only [List.length_nil] at e1
      rw [this] at e1; cases e1; rfl
    have : h2 ≠ 1 := fun hh => h ⟨rfl, o2.1 hh⟩
    subst hz ht
    simp [serList, this]
  · have : h1 ≠ 0 := fun hh => hv (List.length_eq_zero_iff.1 (z1.1 hh))
    cases t1 with
    | nil =>
      cases hs : serList txIn vin with
      | nil => simp [this]
      | cons _ _ => simp [this]
    | cons _ _ => simp [this]

-- ------------------------------------------------------------------ Tx
theorem tx_parse_ser (t : Tx) (rest : Bytes) (hv : Tx.Valid t) :
    Tx.parse (Tx.ser true t ++ rest) = .ok (t, rest) := by
  obtain ⟨hver, hlock, hvin, hvout, hwit, hamb⟩ := hv
  have e1 : ∀ (v : Nat) (r : Bytes), (uintLE 4).valid v → (uintLE 4).parse (leBytes 4 v ++ r) = .ok (v, r) :=
    fun v r hv => (lawful_uintLE 4).parse_ser v r hv
  unfold Tx.parse Tx.ser
  simp only [Bool.true_and, List.append_assoc]
  rw [e1 _ _ ((uintLE_valid 4 _).2 hver)]
  simp only
  have hstrip := vinC_ser_strip t.vin
  cases hseg : t.isSegwit with
  | true =>
    simp only [if_true, marker_eq, List.cons_append, List.nil_append, List.take_succ_cons,
      List.take_zero, beq_self_eq_true, List.drop_succ_cons, List.drop_zero]
    rw [← hstrip, lawful_vinC.parse_ser _ _ hvin]
    simp only
    rw [lawful_voutC.parse_ser _ _ hvout]
    simp only [parseWitnesses, List.length_map]
    have hw : parseN witness t.vin.length (serList witness t.witnesses ++ (leBytes 4 t.lockTime ++ rest))
        = .ok (t.witnesses, leBytes 4 t.lockTime ++ rest) := by
      have := parseN_serList lawful_witness t.witnesses (leBytes 4 t.lockTime ++ rest)
        (by intro w hw'; simp only [Tx.witnesses, List.mem_map] at hw'
            obtain ⟨i, hi, rfl⟩ := hw'; exact hwit i hi)
      simpa [Tx.witnesses] using this
    rw [hw]
    have hall : t.witnesses.all List.isEmpty = false := by
      have := any_isSegwit t.vin
      simp only [Tx.isSegwit] at hseg
      rw [hseg] at this
      simpa [Tx.witnesses] using this.symm
    simp only [hall, Bool.false_eq_true, if_false]
    rw [e1 _ _ ((uintLE_valid 4 _).2 hlock)]
    simp only [Tx.witnesses, setWitnesses_strip]
  | false =>
    simp only [Bool.false_eq_true, if_false, List.nil_append]
    rw [no_marker t.vin t.vout _ hamb]
    simp only [Bool.false_eq_true, if_false]
    have hs : t.vin.map TxIn.strip = t.vin := strip_eq_self t.vin hseg
    rw [hs] at hvin
    rw [lawful_vinC.parse_ser _ _ hvin]
    simp only
    rw [lawful_voutC.parse_ser _ _ hvout]
    simp only
    rw [e1 _ _ ((uintLE_valid 4 _).2 hlock)]

theorem tx_ser_parse (b : Bytes) (t : Tx) (rest : Bytes) (hp : Tx.parse b = .ok (t, rest)) :
    Tx.Valid t ∧ b = Tx.ser true t ++ rest := by
  unfold Tx.parse at hp
  split at hp
  · cases hp
  · rename_i version b1 h1
    have ⟨v1, e1⟩ := (lawful_uintLE 4).ser_parse _ _ _ h1
    simp only at hp
    split at hp
    · cases hp
    · rename_i vin b3 h2
      have ⟨v2, e2⟩ := lawful_vinC.ser_parse _ _ _ h2
      split at hp
      · cases hp
      · rename_i vout b4 h3
        have ⟨v3, e3⟩ := lawful_voutC.ser_parse _ _ _ h3
        have hnow : ∀ i ∈ vin, i.witness = [] := by
          intro i hi
          have := ((listOf_valid _ _ _).1 v2).2 i hi
          exact ((txIn_valid i).1 this).2.2.2
        split at hp
        · cases hp
        · rename_i vin' b5 h4
          split at hp
          · cases hp
          · rename_i lockTime b6 h5
            have ⟨v5, e5⟩ := (lawful_uintLE 4).ser_parse _ _ _ h5
            cases hp
            simp only [uintLE_ser] at e1 e5
            by_cases hseg : (b1.take 2 == Gen.Wire.SEGWIT_MARKER) = true
            · -- segwit
              simp only [hseg, if_true] at h4 e2
              unfold parseWitnesses at h4
              split at h4
              · cases h4
              · rename_i ws r hw
                split at h4
                · cases h4
                · rename_i hall
                  cases h4
                  have ⟨⟨hl, vw⟩, ew⟩ := serList_parseN lawful_witness _ _ _ _ hw
                  have ⟨s1, s2⟩ := setWitnesses_spec vin ws hl hnow
                  have hsg : (setWitnesses vin ws).any TxIn.isSegwit = true := by
                    rw [any_isSegwit, s2]; simpa using hall
                  refine ⟨⟨(uintLE_valid 4 _).1 v1, (uintLE_valid 4 _).1 v5, by rw [s1]; exact v2, v3,
                    ?_, ?_⟩, ?_⟩
                  · intro i hi
                    apply vw
                    rw [← s2]; exact List.mem_map.2 ⟨i, hi, rfl⟩
                  · rintro ⟨hnil, _⟩
                    have hnil' : setWitnesses vin ws = [] := hnil
                    rw [hnil'] at hsg; simp at hsg
                  · unfold Tx.ser
                    simp only [Bool.true_and, Tx.isSegwit, hsg, if_true, Tx.witnesses, s2]
                    rw [← vinC_ser_strip, s1, e1, take2_eq b1 hseg, e2, e3, ew, e5, marker_eq]
                    simp only [List.append_assoc]
            · -- not segwit
              simp only [hseg, Bool.false_eq_true, if_false] at h4 e2
              cases h4
              have hsg : vin.any TxIn.isSegwit = false := by
                rw [any_isSegwit]
                have : (vin.map (·.witness)).all List.isEmpty = true := by
                  simp only [List.all_map, List.all_eq_true]
                  intro i hi; simp [hnow i hi]
                simp [this]
              refine ⟨⟨(uintLE_valid 4 _).1 v1, (uintLE_valid 4 _).1 v5,
                by rw [strip_eq_self vin hsg]; exact v2, v3, ?_, ?_⟩, ?_⟩
              · intro i hi
                rw [hnow i hi]
                exact (listOf_valid _ _ _).2 ⟨by simp, by simp⟩
              · rintro ⟨hnil, hone⟩
                have hnil' : vin = [] := hnil
                have hone' : vout.length = 1 := hone
                apply hseg
                rw [e2, e3, hnil', marker_eq]
                obtain ⟨h2', t2, e2', _, o2⟩ := VarInt.ser_head vout.length
                simp only [vinC, voutC, listOf_ser, List.length_nil, serList, List.flatMap_nil,
                  List.append_nil]
                have : VarInt.ser 0 = [0] := rfl
                rw [this, e2', o2.2 hone']
                rfl
              · unfold Tx.ser
                simp only [Bool.true_and, Tx.isSegwit, hsg, Bool.false_eq_true, if_false,
                  List.append_nil]
                rw [e1, e2, e3, e5]
                simp only [List.append_assoc]

theorem Tx.Valid.struct {t : Tx} (hv : Tx.Valid t) : Tx.StructValid t :=
  ⟨hv.1, hv.2.1, hv.2.2.1, hv.2.2.2.1, hv.2.2.2.2.1⟩

theorem tx_size_eq (w : Bool) (t : Tx) (hv : Tx.StructValid t) : Tx.size w t = (Tx.ser w t).length := by
  obtain ⟨_, _, hvin, hvout, hwit⟩ := hv
  unfold Tx.size Tx.ser
  have a := lawful_vinC.size_eq _ hvin
  rw [vinC_size_strip, vinC_ser_strip] at a
  have b := lawful_voutC.size_eq _ hvout
  have c := sizeList_eq lawful_witness t.witnesses (by
    intro x hx; simp only [Tx.witnesses, List.mem_map] at hx
    obtain ⟨i, hi, rfl⟩ := hx; exact hwit i hi)
  simp only [List.length_append, leBytes_length, a, b]
  split
  · simp only [c]; omega
  · simp only [List.length_nil]; omega

theorem lawful_tx : Lawful tx where
  parse_ser t rest hv := tx_parse_ser t rest hv
  ser_parse b t rest hp := tx_ser_parse b t rest hp
  size_eq t hv := tx_size_eq true t hv.struct

/-- the stripped serialization parses to the stripped transaction -/
theorem tx_parse_ser_stripped (t : Tx) (rest : Bytes) (hv : Tx.Valid t) :
    Tx.parse (Tx.ser false t ++ rest) = .ok (t.strip, rest) := by
  have hs : Tx.ser false t = Tx.ser true t.strip := by
    unfold Tx.ser Tx.strip
    have : (List.map TxIn.strip t.vin).any TxIn.isSegwit = false := by
      simp [List.any_map, TxIn.isSegwit, TxIn.strip]
    simp only [Bool.false_and, Bool.true_and, Tx.isSegwit, this, Bool.false_eq_true, if_false,
      vinC_ser_strip]
  rw [hs]
  apply tx_parse_ser
  obtain ⟨a, b, c, d, e, f⟩ := hv
  refine ⟨a, b, ?_, d, ?_, ?_⟩
  · show vinC.valid ((t.vin.map TxIn.strip).map TxIn.strip)
    rw [List.map_map]
    have : TxIn.strip ∘ TxIn.strip = TxIn.strip := by funext i; rfl
    rw [this]; exact c
  · intro i hi
    simp only [Tx.strip, List.mem_map] at hi
    obtain ⟨j, _, rfl⟩ := hi
    exact (listOf_valid _ _ _).2 ⟨by simp [TxIn.strip], by simp [TxIn.strip]⟩
  · simpa [Tx.strip] using f

-- ------------------------------------------------------------------ BlockHeader, Block
theorem lawful_headerFields : Lawful headerFields :=
  lawful_pair (lawful_intLE 4) (lawful_pair (lawful_revBytesN _) (lawful_pair (lawful_revBytesN 32)
    (lawful_pair (lawful_uintLE 4) (lawful_pair (lawful_revBytesN 4) (lawful_uintLE 4)))))

theorem lawful_blockHeader : Lawful blockHeader := by
  apply lawful_guardLen
  · exact lawful_map lawful_headerFields _ _ (fun _ _ => rfl)
  · intro t hv
    have hl := lawful_map lawful_headerFields
      (fun p => (⟨p.1, p.2.1, p.2.2.1, p.2.2.2.1, p.2.2.2.2.1, p.2.2.2.2.2⟩ : BlockHeader))
      (fun h => (h.version, h.prevHash, h.merkleRoot, h.time, h.bits, h.nonce)) (fun _ _ => rfl)
    rw [← hl.size_eq t hv]
    exact Nat.le_of_eq rfl

/-- a valid header is `HEADER_LENGTH` (80) bytes -/
theorem blockHeader_length (h : BlockHeader) (hv : blockHeader.valid h) :
    (blockHeader.ser h).length = Gen.Wire.HEADER_LENGTH := by
  rw [← lawful_blockHeader.size_eq h hv]; rfl

theorem witness_valid (w : List Bytes) :
    witness.valid w ↔ (w.length ≤ Gen.Wire.MAX_WITNESS_STACK_ITEMS ∧ w.length < 2 ^ 64) ∧
      ∀ x ∈ w, x.length ≤ Gen.VarInt.MAX_SIZE := by
  simp only [witness, listOf_valid, varBytes_valid]

theorem blockHeader_valid (h : BlockHeader) :
    blockHeader.valid h ↔ (-(2 ^ 31 : Int) ≤ h.version ∧ h.version < 2 ^ 31) ∧ h.prevHash.length = 32 ∧
      h.merkleRoot.length = 32 ∧ h.time < 2 ^ 32 ∧ h.bits.length = 4 ∧ h.nonce < 2 ^ 32 := by
  simp only [blockHeader, Codec.guardLen, Codec.map, headerFields, pair, intLE4_valid, revBytesN_valid,
    uintLE_valid]
  constructor
  · rintro ⟨⟨a, b, c, d, e, f⟩, _⟩; exact ⟨a, b, c, by omega, e, by omega⟩
  · rintro ⟨a, b, c, d, e, f⟩; exact ⟨⟨a, b, c, by omega, e, by omega⟩, trivial⟩

theorem block_valid (b : Block) :
    block.valid b ↔ blockHeader.valid b.header ∧
      ((b.txs.length ≤ Gen.Wire.MAX_BLOCK_TX_COUNT ∧ b.txs.length < 2 ^ 64) ∧ ∀ t ∈ b.txs, Tx.Valid t) := by
  simp only [block, Codec.map, pair, listOf_valid]
  constructor
  · rintro ⟨⟨a, c⟩, _⟩; exact ⟨a, c⟩
  · rintro ⟨a, c⟩; exact ⟨⟨a, c⟩, trivial⟩

theorem lawful_block : Lawful block :=
  lawful_map (lawful_pair lawful_blockHeader (lawful_listOf _ lawful_tx)) _ _ (fun _ _ => rfl)

end Btc.Wire
