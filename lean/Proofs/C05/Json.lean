import Model.C05.Json
import Proofs.C05.Tx
/-!
JSON form: `fromDict (toDict x) = x` for OutPoint, Witness, script dicts, TxIn, TxOut, Tx.  Core Lean only.
-/
namespace Btc.Json
open Btc Btc.Wire

@[simp] theorem ok_bind {α β : Type} (x : α) (f : α → Except Err β) : (Except.ok x >>= f) = f x := rfl

theorem hexChar_ok : ∀ n, n < 16 → isSpace (hexChar n) = false ∧ hexVal? (hexChar n) = some n := by decide

theorem unhex_hexOf (b : Bytes) : unhex (hexOf b) = some b := by
  induction b with
  | nil => rfl
  | cons x xs ih =>
    have h1 := hexChar_ok (x.toNat / 16) (by have := x.toNat_lt; omega)
    have h2 := hexChar_ok (x.toNat % 16) (by omega)
    show unhex (hexChar (x.toNat / 16) :: hexChar (x.toNat % 16) :: hexOf xs) = _
    simp only [unhex, h1.1, h1.2, h2.2, ih, Bool.false_eq_true, if_false]
    have : 16 * (x.toNat / 16) + x.toNat % 16 = x.toNat := by omega
    rw [this]
    simp

theorem octets_hex (b : Bytes) : octets (.str (hexOf b)) = .ok b := by
  simp [octets, unhex_hexOf]

theorem mapM_map_ok {α β : Type} (f : α → β) (g : β → Except Err α) (l : List α)
    (h : ∀ x ∈ l, g (f x) = .ok x) : (l.map f).mapM g = .ok l := by
  induction l with
  | nil => rfl
  | cons x xs ih =>
    simp only [List.map_cons, List.mapM_cons, h x (by simp), ih (fun y hy => h y (by simp [hy]))]
    rfl

theorem witness_round (w : List Bytes) : witnessFromDict (witnessToDict w) = .ok w := by
  simp only [witnessFromDict, witnessToDict, J.fields, J.field, List.lookup, beq_self_eq_true, J.items, ok_bind]
  show (w.map (fun x => J.str (hexOf x))).mapM octets = .ok w
  exact mapM_map_ok _ _ w (fun x _ => octets_hex x)

theorem script_round (e : Env) (s : Bytes) : scriptFromDict e (scriptToDict e s) = .ok s := by
  have h1 : (['h', 'e', 'x'] == ['a', 's', 'm']) = false := by decide
  simp [scriptFromDict, scriptToDict, J.field, List.lookup, h1, octets_hex, pure, Except.pure]

theorem outpoint_round (cv : Bool) (o : OutPoint) (h : cv = false ∨ o.Valid) :
    OutPoint.fromDict cv o.toDict = .ok o := by
  have h1 : (['v', 'o', 'u', 't'] == ['t', 'x', 'i', 'd']) = false := by decide
  have hc : (cv && !decide o.Valid) = false := by
    rcases h with h | h
    · simp [h]
    · simp [h]
  have e : OutPoint.fromDict cv o.toDict =
      (if (cv && !decide o.Valid) = true then Except.error Err.value else Except.ok o) := by
    simp [OutPoint.fromDict, OutPoint.toDict, J.fields, J.field, List.lookup, h1, octets_hex, intField, pure, Except.pure]
  rw [e, hc]; rfl

theorem txin_round (e : Env) (cv : Bool) (i : TxIn) (h : cv = false ∨ i.Valid) :
    TxIn.fromDict e cv (i.toDict e) = .ok i := by
  have k10 : (['s', 'c', 'r', 'i', 'p', 't', 'S', 'i', 'g'] == ['p', 'r', 'e', 'v', '_', 'o', 'u', 't']) = false := by decide
  have k20 : (['s', 'e', 'q', 'u', 'e', 'n', 'c', 'e'] == ['p', 'r', 'e', 'v', '_', 'o', 'u', 't']) = false := by decide
  have k30 : (['t', 'x', 'i', 'n', 'w', 'i', 't', 'n', 'e', 's', 's'] == ['p', 'r', 'e', 'v', '_', 'o', 'u', 't']) = false := by decide
  have k21 : (['s', 'e', 'q', 'u', 'e', 'n', 'c', 'e'] == ['s', 'c', 'r', 'i', 'p', 't', 'S', 'i', 'g']) = false := by decide
  have k31 : (['t', 'x', 'i', 'n', 'w', 'i', 't', 'n', 'e', 's', 's'] == ['s', 'c', 'r', 'i', 'p', 't', 'S', 'i', 'g']) = false := by decide
  have k32 : (['t', 'x', 'i', 'n', 'w', 'i', 't', 'n', 'e', 's', 's'] == ['s', 'e', 'q', 'u', 'e', 'n', 'c', 'e']) = false := by decide
  have hc : (cv && !decide i.Valid) = false := by
    rcases h with h | h
    · simp [h]
    · simp [h]
  have e1 : TxIn.fromDict e cv (i.toDict e) =
      (if (cv && !decide i.Valid) = true then Except.error Err.value else Except.ok i) := by
    simp [TxIn.fromDict, TxIn.toDict, J.fields, J.field, List.lookup, k10, k20, k30, k21, k31, k32, intField, pure, Except.pure,
      outpoint_round false i.prevOut (Or.inl rfl), script_round, witness_round]
  rw [e1, hc]; rfl

/-- what the round trip of an output asks of the amount text layer (amount.py: C18's business) and of the
    network name the object carries -/
def TxOut.TextOk (e : Env) (o : TxOut) : Prop :=
  e.satsOf (.str (e.btcText o.value)) = some o.value ∧ o.network ∈ networks

theorem txout_round (e : Env) (cv : Bool) (o : TxOut) (ht : o.TextOk e) (h : cv = false ∨ o.Valid) :
    TxOut.fromDict e cv (o.toDict e) = .ok o := by
  have k10 : (['s', 'c', 'r', 'i', 'p', 't', 'P', 'u', 'b', 'K', 'e', 'y'] == ['v', 'a', 'l', 'u', 'e']) = false := by decide
  have k20 : (['t', 'y', 'p', 'e'] == ['v', 'a', 'l', 'u', 'e']) = false := by decide
  have k30 : (['a', 'd', 'd', 'r', 'e', 's', 's', 'e', 's'] == ['v', 'a', 'l', 'u', 'e']) = false := by decide
  have k40 : (['n', 'e', 't', 'w', 'o', 'r', 'k'] == ['v', 'a', 'l', 'u', 'e']) = false := by decide
  have k21 : (['t', 'y', 'p', 'e'] == ['s', 'c', 'r', 'i', 'p', 't', 'P', 'u', 'b', 'K', 'e', 'y']) = false := by decide
  have k31 : (['a', 'd', 'd', 'r', 'e', 's', 's', 'e', 's'] == ['s', 'c', 'r', 'i', 'p', 't', 'P', 'u', 'b', 'K', 'e', 'y']) = false := by decide
  have k41 : (['n', 'e', 't', 'w', 'o', 'r', 'k'] == ['s', 'c', 'r', 'i', 'p', 't', 'P', 'u', 'b', 'K', 'e', 'y']) = false := by decide
  have k32 : (['a', 'd', 'd', 'r', 'e', 's', 's', 'e', 's'] == ['t', 'y', 'p', 'e']) = false := by decide
  have k42 : (['n', 'e', 't', 'w', 'o', 'r', 'k'] == ['t', 'y', 'p', 'e']) = false := by decide
  have k43 : (['n', 'e', 't', 'w', 'o', 'r', 'k'] == ['a', 'd', 'd', 'r', 'e', 's', 's', 'e', 's']) = false := by decide
  have hc : (cv && !decide o.Valid) = false := by
    rcases h with h | h
    · simp [h]
    · simp [h]
  have e1 : TxOut.fromDict e cv (o.toDict e) =
      (if (cv && !decide o.Valid) = true then Except.error Err.value else Except.ok o) := by
    simp [TxOut.fromDict, TxOut.toDict, J.fields, J.field, List.lookup, k10, k20, k30, k40, k21, k31, k41, k32, k42, k43, pure, Except.pure,
      script_round, ht.1, ht.2]
  rw [e1, hc]; rfl

theorem tx_round (e : Env) (cv : Bool) (t : Tx) (ht : ∀ o ∈ t.vout, o.TextOk e) (h : cv = false ∨ t.Valid) :
    Tx.fromDict e cv (t.toDict e) = .ok t := by
  have k10 : (['h', 'a', 's', 'h'] == ['t', 'x', 'i', 'd']) = false := by decide
  have k20 : (['v', 'e', 'r', 's', 'i', 'o', 'n'] == ['t', 'x', 'i', 'd']) = false := by decide
  have k30 : (['s', 'i', 'z', 'e'] == ['t', 'x', 'i', 'd']) = false := by decide
  have k40 : (['v', 's', 'i', 'z', 'e'] == ['t', 'x', 'i', 'd']) = false := by decide
  have k50 : (['w', 'e', 'i', 'g', 'h', 't'] == ['t', 'x', 'i', 'd']) = false := by decide
  have k60 : (['l', 'o', 'c', 'k', 't', 'i', 'm', 'e'] == ['t', 'x', 'i', 'd']) = false := by decide
  have k70 : (['v', 'i', 'n'] == ['t', 'x', 'i', 'd']) = false := by decide
  have k80 : (['v', 'o', 'u', 't'] == ['t', 'x', 'i', 'd']) = false := by decide
  have k21 : (['v', 'e', 'r', 's', 'i', 'o', 'n'] == ['h', 'a', 's', 'h']) = false := by decide
  have k31 : (['s', 'i', 'z', 'e'] == ['h', 'a', 's', 'h']) = false := by decide
  have k41 : (['v', 's', 'i', 'z', 'e'] == ['h', 'a', 's', 'h']) = false := by decide
  have k51 : (['w', 'e', 'i', 'g', 'h', 't'] == ['h', 'a', 's', 'h']) = false := by decide
  have k61 : (['l', 'o', 'c', 'k', 't', 'i', 'm', 'e'] == ['h', 'a', 's', 'h']) = false := by decide
  have k71 : (['v', 'i', 'n'] == ['h', 'a', 's', 'h']) = false := by decide
  have k81 : (['v', 'o', 'u', 't'] == ['h', 'a', 's', 'h']) = false := by decide
  have k32 : (['s', 'i', 'z', 'e'] == ['v', 'e', 'r', 's', 'i', 'o', 'n']) = false := by decide
  have k42 : (['v', 's', 'i', 'z', 'e'] == ['v', 'e', 'r', 's', 'i', 'o', 'n']) = false := by decide
  have k52 : (['w', 'e', 'i', 'g', 'h', 't'] == ['v', 'e', 'r', 's', 'i', 'o', 'n']) = false := by decide
  have k62 : (['l', 'o', 'c', 'k', 't', 'i', 'm', 'e'] == ['v', 'e', 'r', 's', 'i', 'o', 'n']) = false := by decide
  have k72 : (['v', 'i', 'n'] == ['v', 'e', 'r', 's', 'i', 'o', 'n']) = false := by decide
  have k82 : (['v', 'o', 'u', 't'] == ['v', 'e', 'r', 's', 'i', 'o', 'n']) = false := by decide
  have k43 : (['v', 's', 'i', 'z', 'e'] == ['s', 'i', 'z', 'e']) = false := by decide
  have k53 : (['w', 'e', 'i', 'g', 'h', 't'] == ['s', 'i', 'z', 'e']) = false := by decide
  have k63 : (['l', 'o', 'c', 'k', 't', 'i', 'm', 'e'] == ['s', 'i', 'z', 'e']) = false := by decide
  have k73 : (['v', 'i', 'n'] == ['s', 'i', 'z', 'e']) = false := by decide
  have k83 : (['v', 'o', 'u', 't'] == ['s', 'i', 'z', 'e']) = false := by decide
  have k54 : (['w', 'e', 'i', 'g', 'h', 't'] == ['v', 's', 'i', 'z', 'e']) = false := by decide
  have k64 : (['l', 'o', 'c', 'k', 't', 'i', 'm', 'e'] == ['v', 's', 'i', 'z', 'e']) = false := by decide
  have k74 : (['v', 'i', 'n'] == ['v', 's', 'i', 'z', 'e']) = false := by decide
  have k84 : (['v', 'o', 'u', 't'] == ['v', 's', 'i', 'z', 'e']) = false := by decide
  have k65 : (['l', 'o', 'c', 'k', 't', 'i', 'm', 'e'] == ['w', 'e', 'i', 'g', 'h', 't']) = false := by decide
  have k75 : (['v', 'i', 'n'] == ['w', 'e', 'i', 'g', 'h', 't']) = false := by decide
  have k85 : (['v', 'o', 'u', 't'] == ['w', 'e', 'i', 'g', 'h', 't']) = false := by decide
  have k76 : (['v', 'i', 'n'] == ['l', 'o', 'c', 'k', 't', 'i', 'm', 'e']) = false := by decide
  have k86 : (['v', 'o', 'u', 't'] == ['l', 'o', 'c', 'k', 't', 'i', 'm', 'e']) = false := by decide
  have k87 : (['v', 'o', 'u', 't'] == ['v', 'i', 'n']) = false := by decide
  have hc : (cv && !decide t.Valid) = false := by
    rcases h with h | h
    · simp [h]
    · simp [h]
  have hin : (t.vin.map (TxIn.toDict e)).mapM (TxIn.fromDict e false) = .ok t.vin :=
    mapM_map_ok _ _ _ (fun i _ => txin_round e false i (Or.inl rfl))
  have hout : (t.vout.map (TxOut.toDict e)).mapM (TxOut.fromDict e false) = .ok t.vout :=
    mapM_map_ok _ _ _ (fun o ho => txout_round e false o (ht o ho) (Or.inl rfl))
  have e1 : Tx.fromDict e cv (t.toDict e) =
      (if (cv && !decide t.Valid) = true then Except.error Err.value else Except.ok t) := by
    simp [Tx.fromDict, Tx.toDict, J.fields, J.field, J.items, List.lookup, k10, k20, k30, k40, k50, k60, k70, k80, k21, k31, k41, k51, k61, k71, k81, k32, k42, k52, k62, k72, k82, k43, k53, k63, k73, k83, k54, k64, k74, k84, k65, k75, k85, k76, k86, k87, intField, pure, Except.pure,
      hin, hout]
  rw [e1, hc]; rfl

/-- the txid, hash, size, vsize and weight a transaction's dict reports are those of its octets -/
theorem tx_dict_reports_bytes (e : Env) (t : Tx) (hv : Wire.Tx.StructValid t.toWire) :
    Tx.toDict e t = .obj [
      (['t', 'x', 'i', 'd'], .str (hexOf (e.H (Wire.Tx.ser false t.toWire)).reverse)),
      (['h', 'a', 's', 'h'], .str (hexOf (e.H (Wire.Tx.ser true t.toWire)).reverse)),
      (['v', 'e', 'r', 's', 'i', 'o', 'n'], .num t.version),
      (['s', 'i', 'z', 'e'], .num ((Wire.Tx.ser true t.toWire).length : Nat)),
      (['v', 's', 'i', 'z', 'e'], .num (((3 * (Wire.Tx.ser false t.toWire).length + (Wire.Tx.ser true t.toWire).length + 3) / 4 : Nat))),
      (['w', 'e', 'i', 'g', 'h', 't'], .num ((3 * (Wire.Tx.ser false t.toWire).length + (Wire.Tx.ser true t.toWire).length : Nat))),
      (['l', 'o', 'c', 'k', 't', 'i', 'm', 'e'], .num t.lockTime),
      (['v', 'i', 'n'], .arr (t.vin.map (TxIn.toDict e))),
      (['v', 'o', 'u', 't'], .arr (t.vout.map (TxOut.toDict e)))] := by
  simp only [Tx.toDict, Wire.Tx.id, Wire.Tx.wid, Wire.Tx.vsize, Wire.Tx.weight, tx_size_eq true _ hv, tx_size_eq false _ hv]

end Btc.Json
