import Model.C05.VarInt
import Proofs.Common.Bytes
namespace Btc.VarInt
open Btc Btc.Py

theorem byteOf_ok (n : Nat) (h : n < 256) : byteOf (n : Int) = .ok [UInt8.ofNat n] := by
  unfold byteOf; simp; omega

theorem toBytesLE_ok (i k : Int) (hi : 0 ≤ i) (hk : 0 ≤ k) (h : i.toNat < 256 ^ k.toNat) :
    toBytesLE i k = .ok (leBytes k.toNat i.toNat) := by
  unfold toBytesLE
  have : ¬ (i < 0 ∨ k < 0) := by omega
  simp [this]; omega

theorem serialize_nat (n : Nat) :
    Gen.VarInt.serialize (n : Int) =
      if n < 253 then .ok [UInt8.ofNat n]
      else if n ≤ 65535 then .ok (253 :: leBytes 2 n)
      else if n ≤ 4294967295 then .ok (254 :: leBytes 4 n)
      else if n ≤ 18446744073709551615 then .ok (255 :: leBytes 8 n)
      else .error .value := by
  unfold Gen.VarInt.serialize
  have h0 : ¬ ((n : Int) < 0) := by omega
  simp only [h0, if_false]
  by_cases h1 : n < 253
  · have : (n : Int) < 253 := by omega
    simp [this, h1, byteOf_ok n (by omega)]
  · have h1' : ¬ (n : Int) < 253 := by omega
    simp only [h1, h1', if_false]
    by_cases h2 : n ≤ 65535
    · have : (n : Int) ≤ 65535 := by omega
      simp [this, h2, toBytesLE_ok n 2 (by omega) (by omega) (by simp; omega)]; rfl
    · have h2' : ¬ (n : Int) ≤ 65535 := by omega
      simp only [h2, h2', if_false]
      by_cases h3 : n ≤ 4294967295
      · have : (n : Int) ≤ 4294967295 := by omega
        simp [this, h3, toBytesLE_ok n 4 (by omega) (by omega) (by simp; omega)]; rfl
      · have h3' : ¬ (n : Int) ≤ 4294967295 := by omega
        simp only [h3, h3', if_false]
        by_cases h4 : n ≤ 18446744073709551615
        · have : (n : Int) ≤ 18446744073709551615 := by omega
          simp [this, h4, toBytesLE_ok n 8 (by omega) (by omega) (by simp; omega)]; rfl
        · have h4' : ¬ (n : Int) ≤ 18446744073709551615 := by omega
          simp [h4, h4']
          rfl

/-- every prefix-free branch of the hand-modelled parser, evaluated on the generated table -/
theorem parse_cons (x : UInt8) (rest : Bytes) (m : Nat) :
    parse (x :: rest) m =
      if x.toNat = 253 then (parseNumber rest 2 253).bind (checkMax m)
      else if x.toNat = 254 then (parseNumber rest 4 65536).bind (checkMax m)
      else if x.toNat = 255 then (parseNumber rest 8 4294967296).bind (checkMax m)
      else checkMax m (x.toNat, rest) := by
  simp only [parse, parseWith, Gen.VarInt.parseTable, List.find?]
  by_cases h1 : x.toNat = 253
  · simp [h1]
  · by_cases h2 : x.toNat = 254
    · simp [h2]
    · by_cases h3 : x.toNat = 255
      · simp [h3]
      · have e1 : ((253 : Nat) == x.toNat) = false := by simp; omega
        have e2 : ((254 : Nat) == x.toNat) = false := by simp; omega
        have e3 : ((255 : Nat) == x.toNat) = false := by simp; omega
        simp [h1, h2, h3, e1, e2, e3]

theorem parseNumber_le (k n : Nat) (rest : Bytes) (minimum : Nat) (h : n < 256 ^ k) :
    parseNumber (leBytes k n ++ rest) k minimum =
      if n < minimum then .error .noncanonical else .ok (n, rest) := by
  unfold parseNumber
  simp [ofLE_leBytes, Nat.mod_eq_of_lt h]
  omega

end Btc.VarInt
