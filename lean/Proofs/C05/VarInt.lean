import Model.C05.VarInt
import Proofs.Common.Bytes
namespace Btc.VarInt
open Btc Btc.Py

theorem byteOf_ok (n : Nat) (h : n < 256) : byteOf (n : Int) = .ok [UInt8.ofNat n] := by
  unfold byteOf; simp; omega

theorem toBytesLE_ok (i k : Int) (hi : 0 ≤ i) (hk : 0 ≤ k) (h : i.toNat < 256 ^ k.toNat) :
    toBytesLE i k = .ok (leBytes k.toNat i.toNat) := by
  unfold toBytesLE
  have : ¬ (i < 0 ∨ k < 0) := by omega
  simp [this]; omega

theorem serialize_nat (n : Nat) :
    Gen.VarInt.serialize (n : Int) =
      if n < 253 then .ok [UInt8.ofNat n]
      else if n ≤ 65535 then .ok (253 :: leBytes 2 n)
      else if n ≤ 4294967295 then .ok (254 :: leBytes 4 n)
      else if n ≤ 18446744073709551615 then .ok (255 :: leBytes 8 n)
      else .error .value := by
  unfold Gen.VarInt.serialize
  have h0 : ¬ ((n : Int) < 0) := by omega
  simp only [h0, if_false]
  by_cases h1 : n < 253
  · have : (n : Int) < 253 := by omega
    simp [this, h1, byteOf_ok n (by omega)]
  · have h1' : ¬ (n : Int) < 253 := by omega
    simp only [h1, h1', if_false]
    by_cases h2 : n ≤ 65535
    · have : (n : Int) ≤ 65535 := by omega
      simp [this, h2, toBytesLE_ok n 2 (by omega) (by omega) (by simp; omega)]; rfl
    · have h2' : ¬ (n : Int) ≤ 65535 := by omega
      simp only [h2, h2', if_false]
      by_cases h3 : n ≤ 4294967295
      · have : (n : Int) ≤ 4294967295 := by omega
        simp [this, h3, toBytesLE_ok n 4 (by omega) (by omega) (by simp; omega)]; rfl
      · have h3' : ¬ (n : Int) ≤ 4294967295 := by omega
        simp only [h3, h3', if_false]
        by_cases h4 : n ≤ 18446744073709551615
        · have : (n : Int) ≤ 18446744073709551615 := by omega
          simp [this, h4, toBytesLE_ok n 8 (by omega) (by omega) (by simp; omega)]; rfl
        · have h4' : ¬ (n : Int) ≤ 18446744073709551615 := by omega
          simp [h4, h4']
          rfl

/-- every prefix-free branch of the hand-modelled parser, evaluated on the generated table -/
theorem parse_cons (x : UInt8) (rest : Bytes) (m : Nat) :
    parse (x :: rest) m =
      if x.toNat = 253 then (parseNumber rest 2 253).bind (checkMax m)
      else if x.toNat = 254 then (parseNumber rest 4 65536).bind (checkMax m)
      else if x.toNat = 255 then (parseNumber rest 8 4294967296).bind (checkMax m)
      else checkMax m (x.toNat, rest) := by
  simp only [parse, parseWith, Gen.VarInt.parseTable, List.find?]
  by_cases h1 : x.toNat = 253
  · simp [h1]
  · by_cases h2 : x.toNat = 254
    · simp [h2]
    · by_cases h3 : x.toNat = 255
      · simp [h3]
      · have e1 : ((253 : Nat) == x.toNat) = false := by simp; omega
        have e2 : ((254 : Nat) == x.toNat) = false := by simp; omega
        have e3 : ((255 : Nat) == x.toNat) = false := by simp; omega
        simp [h1, h2, h3, e1, e2, e3]

theorem parseNumber_le (k n : Nat) (rest : Bytes) (minimum : Nat) (h : n < 256 ^ k) :
    parseNumber (leBytes k n ++ rest) k minimum =
      if n < minimum then .error .noncanonical else .ok (n, rest) := by
  unfold parseNumber
  simp [ofLE_leBytes, Nat.mod_eq_of_lt h]
  omega

/-- T4: `serialize` answers exactly on `0 ≤ i < 2^64`, refuses the rest with the library's
    ValueError, and never leaves through a foreign exception. -/
theorem serialize_domain (i : Int) :
    (0 ≤ i ∧ i < 2 ^ 64 → ∃ b, Gen.VarInt.serialize i = .ok b) ∧
    (¬ (0 ≤ i ∧ i < 2 ^ 64) → Gen.VarInt.serialize i = .error .value) := by
  constructor
  · rintro ⟨h0, h1⟩
    obtain ⟨n, rfl⟩ := Int.eq_ofNat_of_zero_le h0
    rw [serialize_nat]
    have : n ≤ 18446744073709551615 := by omega
    simp only [this, if_true]
    repeat' split
    all_goals exact ⟨_, rfl⟩
  · intro h
    by_cases h0 : 0 ≤ i
    · obtain ⟨n, rfl⟩ := Int.eq_ofNat_of_zero_le h0
      rw [serialize_nat]
      have : ¬ n ≤ 18446744073709551615 := by omega
      have h1 : ¬ n < 253 := by omega
      have h2 : ¬ n ≤ 65535 := by omega
      have h3 : ¬ n ≤ 4294967295 := by omega
      simp [h1, h2, h3, this]
    · unfold Gen.VarInt.serialize
      have : i < 0 := by omega
      simp [this]
      rfl

/-- T1 (parse ∘ serialize, prefix-free): whatever follows the encoding is left unread, and the
    value comes back — or is refused as too big, exactly when it exceeds the cap. -/
theorem parse_serialize (i : Int) (b rest : Bytes) (m : Nat)
    (h : Gen.VarInt.serialize i = .ok b) :
    parse (b ++ rest) m = if i.toNat > m then .error .toobig else .ok (i.toNat, rest) := by
  have h0 : 0 ≤ i := by
    by_cases h0 : 0 ≤ i
    · exact h0
    · have := (serialize_domain i).2 (by omega)
      rw [this] at h; cases h
  obtain ⟨n, rfl⟩ := Int.eq_ofNat_of_zero_le h0
  rw [serialize_nat] at h
  simp only [Int.toNat_natCast]
  split at h
  · cases h
    rename_i h1
    have hx : (UInt8.ofNat n).toNat = n := by simp [UInt8.toNat_ofNat']; omega
    simp only [List.cons_append, List.nil_append, parse_cons, hx]
    have a1 : n ≠ 253 := by omega
    have a2 : n ≠ 254 := by omega
    have a3 : n ≠ 255 := by omega
    simp [a1, a2, a3, checkMax]
  · split at h
    · cases h
      rename_i h1 h2
      simp only [List.cons_append, parse_cons]
      simp [parseNumber_le 2 n rest 253 (by omega), h1, Except.bind, checkMax]
    · split at h
      · cases h
        rename_i h1 h2 h3
        simp only [List.cons_append, parse_cons]
        have : ¬ n < 65536 := by omega
        simp [parseNumber_le 4 n rest 65536 (by omega), this, Except.bind, checkMax]
      · split at h
        · cases h
          rename_i h1 h2 h3 h4
          simp only [List.cons_append, parse_cons]
          have : ¬ n < 4294967296 := by omega
          simp [parseNumber_le 8 n rest 4294967296 (by omega), this, Except.bind, checkMax]
        · cases h

/-- T2 (serialize ∘ parse): any byte string the parser accepts starts with exactly the canonical
    encoding of the value it returns; hence no non-minimal prefix and no short read is accepted. -/
theorem serialize_parse (b rest : Bytes) (v m : Nat)
    (h : parse b m = .ok (v, rest)) :
    ∃ b', Gen.VarInt.serialize (v : Int) = .ok b' ∧ b = b' ++ rest := by
  cases b with
  | nil => simp [parse, parseWith] at h
  | cons x xs =>
    rw [parse_cons] at h
    have hx : x.toNat < 256 := x.toNat_lt
    have number : ∀ (k minimum : Nat) (p : UInt8), p = x →
        (parseNumber xs k minimum).bind (checkMax m) = .ok (v, rest) →
        minimum ≤ v ∧ v < 256 ^ k ∧ p :: xs = p :: leBytes k v ++ rest := by
      intro k minimum p _ hp
      unfold parseNumber at hp
      split at hp
      · cases hp
      · rename_i hlen
        simp only at hp
        split at hp
        · cases hp
        · rename_i hmin
          simp only [Except.bind, checkMax] at hp
          split at hp
          · cases hp
          · cases hp
            have hl : (xs.take k).length = k := by simp; omega
            refine ⟨by omega, ?_, ?_⟩
            · have := ofLE_lt (xs.take k); rwa [hl] at this
            · have := leBytes_ofLE (xs.take k)
              rw [hl] at this
              rw [this, List.cons_append, List.take_append_drop]
    rw [serialize_nat]
    split at h
    · rename_i e
      obtain ⟨h1, h2, h3⟩ := number 2 253 x rfl h
      have p : x = 253 := by apply UInt8.toNat_inj.mp; simpa using e
      have a1 : ¬ v < 253 := by omega
      have a2 : v ≤ 65535 := by omega
      exact ⟨253 :: leBytes 2 v, by simp only [a1, a2, if_true, if_false], by rw [h3, p]⟩
    · split at h
      · rename_i _ e
        obtain ⟨h1, h2, h3⟩ := number 4 65536 x rfl h
        have p : x = 254 := by apply UInt8.toNat_inj.mp; simpa using e
        have a1 : ¬ v < 253 := by omega
        have a2 : ¬ v ≤ 65535 := by omega
        have a3 : v ≤ 4294967295 := by omega
        exact ⟨254 :: leBytes 4 v, by simp only [a1, a2, a3, if_true, if_false], by rw [h3, p]⟩
      · split at h
        · rename_i _ _ e
          obtain ⟨h1, h2, h3⟩ := number 8 4294967296 x rfl h
          have p : x = 255 := by apply UInt8.toNat_inj.mp; simpa using e
          have a1 : ¬ v < 253 := by omega
          have a2 : ¬ v ≤ 65535 := by omega
          have a3 : ¬ v ≤ 4294967295 := by omega
          have a4 : v ≤ 18446744073709551615 := by omega
          exact ⟨255 :: leBytes 8 v, by simp only [a1, a2, a3, a4, if_true, if_false], by rw [h3, p]⟩
        · rename_i n1 n2 n3
          simp only [checkMax] at h
          split at h
          · cases h
          · cases h
            have a1 : x.toNat < 253 := by omega
            refine ⟨_, by simp only [a1, if_true]; rfl, ?_⟩
            simp

/-- T3: the reported width is the length of the serialization (translated `_size` against the
    translated `serialize`, for every integer the latter accepts). -/
theorem size_eq_length (i : Int) (b : Bytes) (h : Gen.VarInt.serialize i = .ok b) :
    Gen.VarInt.size i = b.length := by
  have h0 : 0 ≤ i := by
    by_cases h0 : 0 ≤ i
    · exact h0
    · have := (serialize_domain i).2 (by omega)
      rw [this] at h; cases h
  obtain ⟨n, rfl⟩ := Int.eq_ofNat_of_zero_le h0
  rw [serialize_nat] at h
  unfold Gen.VarInt.size
  split at h
  · cases h; rename_i h1; have : (n:Int) < 253 := by omega
    simp [this]
  · rename_i h1
    have a1 : ¬ (n:Int) < 253 := by omega
    split at h
    · cases h; rename_i h2; have : (n:Int) ≤ 65535 := by omega
      simp [a1, this]
    · rename_i h2
      have a2 : ¬ (n:Int) ≤ 65535 := by omega
      split at h
      · cases h; rename_i h3; have : (n:Int) ≤ 4294967295 := by omega
        simp [a1, a2, this]
      · rename_i h3
        have a3 : ¬ (n:Int) ≤ 4294967295 := by omega
        split at h
        · cases h; simp [a1, a2, a3]
        · cases h


end Btc.VarInt
