import Model.C01.NumberTheory
import Proofs.C01.CapstoneArith
import Mathlib.NumberTheory.LegendreSymbol.QuadraticReciprocity
/-
C01 — T9: `mod_sqrt_var` on its two closed-form branches, `p ≡ 3 (mod 4)` and `p ≡ 5 (mod 8)`:
an answer squares back to the operand (any modulus), a refusal means the operand is not a square (prime modulus).
-/
namespace Btc.C01.NT
open Btc.EC Btc.C01

/-- soundness needs no primality: on the closed-form branches the code checks the square before answering -/
theorem modSqrtVar_sound (a p r : ℤ) (hbr : p % 4 = 3 ∨ p % 8 = 5) (h : modSqrtVar a p = some r) :
    0 ≤ r ∧ r < p ∧ r * r % p = a % p := by
  unfold modSqrtVar at h
  split at h; · simp at h
  next hp1 =>
  have hp0 : (0 : ℤ) < p := by omega
  obtain ⟨n, rfl⟩ : ∃ n : ℕ, p = n := ⟨p.toNat, by omega⟩
  have hn : 0 < n := by omega
  simp only [] at h
  split at h
  · split at h
    · next hsq =>
      simp only [Option.some.injEq] at h; subst h
      exact ⟨(modPow_range hn _ _).1, (modPow_range hn _ _).2, hsq⟩
    · simp at h
  · next h43 =>
    have h85 : (n : ℤ) % 8 = 5 := by omega
    simp only [h85, if_true] at h
    split at h
    · next hsq =>
      simp only [Option.some.injEq] at h; subst h
      exact ⟨(modPow_range hn _ _).1, (modPow_range hn _ _).2, hsq⟩
    · split at h
      · next hsq =>
        simp only [Option.some.injEq] at h; subst h
        exact ⟨Int.emod_nonneg _ (by omega), Int.emod_lt_of_pos _ hp0, hsq⟩
      · simp at h

variable {p : ℕ} [hpf : Fact p.Prime]

theorem modSqrtVar_eq_modSqrt34 (h34 : p % 4 = 3) (a : ℤ) : modSqrtVar a (p : ℤ) = modSqrt34 a (p : ℤ) := by
  have hp4 : (p : ℤ) % 4 = 3 := by omega
  have hp1 : ¬ (p : ℤ) < 1 := by have := hpf.out.pos; omega
  simp only [modSqrtVar, modSqrt34, hp1, hp4, if_true, if_false]

/-- `p ≡ 3 (mod 4)`: a refusal means `a` is not a square mod `p` -/
theorem modSqrtVar_none_3mod4 (h34 : p % 4 = 3) (a : ℤ) (h : modSqrtVar a (p : ℤ) = none) (y : ZMod p) :
    y ^ 2 ≠ (a : ZMod p) := by
  rw [modSqrtVar_eq_modSqrt34 h34] at h
  exact modSqrt34_none h34 a h y

/-- `2` is a non-residue for `p ≡ 5 (mod 8)`: `2^((p-1)/2) = -1` -/
theorem two_pow_half (h58 : p % 8 = 5) : (2 : ZMod p) ^ (p / 2) = -1 := by
  have hp2 : p ≠ 2 := by omega
  have h1 := legendreSym.eq_pow p 2
  rw [legendreSym.at_two hp2, ZMod.χ₈_nat_eq_if_mod_eight] at h1
  have e1 : ¬ p % 2 = 0 := by omega
  have e2 : ¬ (p % 8 = 1 ∨ p % 8 = 7) := by omega
  simp only [e1, e2, if_false] at h1
  have h2 := h1.symm
  push_cast at h2
  exact h2

/-- `p ≡ 5 (mod 8)`: a refusal means `a` is not a square mod `p` -/
theorem modSqrtVar_none_5mod8 (h58 : p % 8 = 5) (a : ℤ) (h : modSqrtVar a (p : ℤ) = none) (y : ZMod p) :
    y ^ 2 ≠ (a : ZMod p) := by
  intro hy
  obtain ⟨k, hk⟩ : ∃ k, p = 8 * k + 5 := ⟨p / 8, by omega⟩
  have hp1 : ¬ (p : ℤ) < 1 := by omega
  have hp4 : ¬ (p : ℤ) % 4 = 3 := by omega
  have hp8 : (p : ℤ) % 8 = 5 := by omega
  simp only [modSqrtVar, hp1, hp4, hp8, if_true, if_false] at h
  have e8 : (p : ℤ).toNat / 8 + 1 = k + 1 := by simp only [Int.toNat_natCast]; omega
  have e4 : (p : ℤ).toNat / 4 = 2 * k + 1 := by simp only [Int.toNat_natCast]; omega
  rw [e8, e4] at h
  -- r₁ = a^(k+1)
  have hr1 : ((modPow (a % p) (k + 1) (p : ℤ) : ℤ) : ZMod p) = (a : ZMod p) ^ (k + 1) := by
    rw [modPow_cast, ZMod.intCast_mod]
  split at h
  · simp at h
  · next hsq1 =>
    split at h
    · simp at h
    · next hsq2 =>
      -- z = y^(4k+2) is ±1 or y = 0
      by_cases hy0 : y = 0
      · apply hsq1
        rw [emod_eq_iff_cast, Int.cast_mul, hr1, ← hy, hy0]
        simp
      · have hz : (y ^ (4 * k + 2)) ^ 2 = 1 := by
          rw [← pow_mul]
          have := ZMod.pow_card_sub_one_eq_one hy0
          rwa [show p - 1 = (4 * k + 2) * 2 by omega] at this
        have hA : (a : ZMod p) ^ (k + 1) * (a : ZMod p) ^ (k + 1) = (a : ZMod p) * y ^ (4 * k + 2) := by
          rw [← hy]; ring
        rcases sq_eq_one_iff.mp hz with h1 | h1
        · apply hsq1
          rw [emod_eq_iff_cast, Int.cast_mul, hr1, hA, h1, mul_one]
        · apply hsq2
          have h2 := two_pow_half (p := p) h58
          rw [show p / 2 = (2 * k + 1) + (2 * k + 1) by omega, pow_add] at h2
          rw [emod_eq_iff_cast, Int.cast_mul, ZMod.intCast_mod, Int.cast_mul, hr1, modPow_cast]
          push_cast
          calc (a : ZMod p) ^ (k + 1) * 2 ^ (2 * k + 1) * ((a : ZMod p) ^ (k + 1) * 2 ^ (2 * k + 1))
              = ((a : ZMod p) ^ (k + 1) * (a : ZMod p) ^ (k + 1)) * (2 ^ (2 * k + 1) * 2 ^ (2 * k + 1)) := by ring
            _ = (a : ZMod p) := by rw [hA, h1, h2]; ring

end Btc.C01.NT
