import Proofs.C01.CapstoneToy
import Proofs.C02.Ecdsa
/-
C01 capstone, part 3b: non-vacuity of the WHOLE chain (A) → (C) → a scheme-level theorem.  C02's ECDSA
completeness theorem (`Btc.Ecdsa.sign_verifies`, re-exported as `Props.C02.ecdsa_sign_verifies`), whose hypothesis
`L : Lawful o G` is a named assumption in C02, is instantiated here with the PROVED `lawful_ec` on the toy curve:
an actual execution of btclib's arithmetic (`signRecoverable` over `opsSub`, i.e. `Btc.EC.ops toyC` on the
underlying pairs) yields a signature, and the theorem — with no hypothesis left — says the verifier accepts it.
(Kept out of `Props/C01.lean`'s imports so that C01's check does not depend on C02's proofs building.)
-/
namespace Btc.C01.Toy
open Btc Btc.EC Btc.C01 Btc.Ecdsa

/-- the signing run: challenge 3, key 5, nonce 2, low-s -/
theorem toy_sign : signRecoverable (opsSub toyOk) 3 5 2 true = .ok (7, 12, 0) := by decide +kernel

/-- … is accepted under the public key `5·G`, by C02-T1 instantiated with `lawful_ec` -/
theorem toy_sign_verifies :
    verify (opsSub toyOk) 3 ((opsSub toyOk).mul 5 (opsSub toyOk).gen) 7 12 = true :=
  (sign_verifies toyLawful (show (0 : ℤ) < 2 ∧ (2 : ℤ) < 31 by decide) _ (toyLawful.abs_mul 5 _) toy_sign).1

/-- and the verdict is about the very pairs the driver computes with -/
example : ((opsSub toyOk).mul 5 (opsSub toyOk).gen).1 = (EC.ops toyC).mul 5 toyC.G := rfl

end Btc.C01.Toy
