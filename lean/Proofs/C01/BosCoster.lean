import Proofs.C01.Ladders
import Model.C01.Instance
/-
C01 — T5 completed: Bos–Coster terminates (the fuel the model hands the loop always suffices when the heap hands
back a largest pair), and the regular window always answers.
-/
namespace Btc.C01
variable {α β G : Type} [AddCommGroup G] {o : JacOps α β}

/-- the heap hands back a pair whose scalar is largest -/
def SelectMax (sel : Select α) : Prop := ∀ xs x rest, sel xs = some (x, rest) → ∀ y ∈ rest, y.1 ≤ x.1

/-- `Σ nᵢ` -/
def nsum (xs : List (ℕ × α)) : ℕ := (xs.map (·.1)).sum

theorem nsum_cons (x : ℕ × α) (xs : List (ℕ × α)) : nsum (x :: xs) = x.1 + nsum xs := by simp [nsum]

theorem nsum_perm {xs ys : List (ℕ × α)} (h : xs.Perm ys) : nsum xs = nsum ys := by
  unfold nsum; exact (h.map _).sum_eq

theorem foldl_add_eq_nsum (xs : List (ℕ × α)) (s : ℕ) : xs.foldl (fun s np => s + np.1) s = s + nsum xs := by
  induction xs generalizing s with
  | nil => simp [nsum]
  | cons x xs ih => simp only [List.foldl_cons, ih, nsum_cons]; omega

/-- T5 (termination): with a heap that hands back a largest pair, `Σ nᵢ + 1` steps always suffice — the sum of
the scalars strictly decreases at every Euclidean step -/
theorem bosCosterLoop_terminates (sel : Select α) (hsel : SelectOk sel) (hmax : SelectMax sel) (fuel : ℕ)
    (xs : List (ℕ × α)) (hpos : ∀ np ∈ xs, 1 ≤ np.1) (hne : xs ≠ []) (hfuel : nsum xs < fuel) :
    ∃ r, bosCosterLoop o sel fuel xs = some r ∧ 1 ≤ r.1 := by
  induction fuel generalizing xs with
  | zero => omega
  | succ fuel ih =>
    simp only [bosCosterLoop]
    cases h1 : sel xs with
    | none => exact absurd (hsel.2 _ h1) hne
    | some pr =>
      obtain ⟨np1, rest⟩ := pr
      simp only []
      have hperm1 := hsel.1 _ _ _ h1
      cases h2 : sel rest with
      | none => exact ⟨_, rfl, hpos np1 (hperm1.mem_iff.mpr List.mem_cons_self)⟩
      | some pr2 =>
        obtain ⟨np2, rest2⟩ := pr2
        simp only []
        have hperm2 := hsel.1 _ _ _ h2
        have hle : np2.1 ≤ np1.1 := hmax _ _ _ h1 np2 (hperm2.mem_iff.mpr List.mem_cons_self)
        have hmem2 : ∀ np ∈ np2 :: rest2, 1 ≤ np.1 := fun np hnp =>
          hpos np (hperm1.mem_iff.mpr (List.mem_cons_of_mem _ (hperm2.mem_iff.mpr hnp)))
        have hn2 : 1 ≤ np2.1 := hmem2 np2 List.mem_cons_self
        have hsum : nsum xs = np1.1 + (np2.1 + nsum rest2) := by
          rw [nsum_perm hperm1, nsum_cons, nsum_perm hperm2, nsum_cons]
        have hdm := Nat.div_add_mod np1.1 np2.1
        have hq : 1 ≤ np1.1 / np2.1 := (Nat.one_le_div_iff (by omega)).mpr hle
        have hr : np1.1 % np2.1 + np2.1 ≤ np1.1 := by
          have : np2.1 * 1 ≤ np2.1 * (np1.1 / np2.1) := Nat.mul_le_mul_left _ hq
          omega
        apply ih
        · intro np hnp
          rcases List.mem_cons.mp hnp with rfl | hnp
          · exact hn2
          · split at hnp
            · next hr0 =>
              rcases List.mem_cons.mp hnp with rfl | hnp
              · exact hr0
              · exact hmem2 np (List.mem_cons_of_mem _ hnp)
            · exact hmem2 np (List.mem_cons_of_mem _ hnp)
        · simp
        · rw [nsum_cons]
          split
          · rw [nsum_cons]; simp only []; omega
          · simp only []; omega

/-! ## the regular window always answers -/

theorem lt_two_pow_bitLength (m : ℕ) : m < 2 ^ bitLength m := by
  unfold bitLength
  split
  · next h => subst h; simp
  · exact Nat.lt_log2_self

theorem le_mul_ceilDiv (a w : ℕ) (hw : 1 ≤ w) : a ≤ w * ceilDiv a w := by
  unfold ceilDiv
  have := Nat.lt_mul_div_succ (a + w - 1) (show 0 < w by omega)
  rw [Nat.mul_succ] at this
  omega

theorem multRegularWindow_answers (scalarLen m w : ℕ) (hw : 1 ≤ w) (hs : 1 ≤ scalarLen ∨ 1 ≤ m) (Q : α) :
    ∃ r, multRegularWindow o scalarLen m Q w = some r := by
  unfold multRegularWindow
  have hw0 : ¬ w = 0 := by omega
  simp only [hw0, if_false]
  set B := max scalarLen (bitLength m) with hB
  have hBpos : 1 ≤ B := by
    rcases hs with h | h
    · omega
    · have : 1 ≤ bitLength m := by unfold bitLength; split <;> omega
      omega
  have hsize : 1 ≤ ceilDiv B w := by
    have := le_mul_ceilDiv B w hw
    rcases Nat.eq_zero_or_pos (ceilDiv B w) with h0 | h0
    · rw [h0] at this; omega
    · exact h0
  have hfit : orOne m < 2 ^ (w * ceilDiv B w) := by
    have h1 : m < 2 ^ (w * ceilDiv B w) :=
      lt_of_lt_of_le (lt_two_pow_bitLength m) (Nat.pow_le_pow_right (by omega) (le_trans (le_max_right _ _) (le_mul_ceilDiv B w hw)))
    obtain ⟨e, he⟩ : ∃ e, w * ceilDiv B w = e + 1 := ⟨w * ceilDiv B w - 1, by have := le_mul_ceilDiv B w hw; omega⟩
    rw [he, pow_succ] at h1 ⊢
    unfold orOne; split <;> omega
  have hdig : signedOddDigits ((orOne m : ℕ) : ℤ) w (ceilDiv B w) =
      some (sodLoop w (ceilDiv B w - 1) ((orOne m : ℕ) : ℤ)) := by
    unfold signedOddDigits
    have hodd : ¬ ((orOne m : ℕ) : ℤ) % 2 = 0 := by unfold orOne; split <;> omega
    have hz : ((orOne m : ℕ) : ℤ) / 2 ^ (w * ceilDiv B w) = 0 := by
      apply Int.ediv_eq_zero_of_lt (by omega)
      exact_mod_cast hfit
    simp [hw0, hodd, hz]; omega
  rw [hdig]
  exact ⟨_, rfl⟩

/-- T5 (total): `_multi_mult_bos_coster_var` always answers on admissible arguments (equal lengths, at least two
terms) when the heap hands back a largest pair -/
theorem multiMultBosCoster_answers (sel : Select α) (hsel : SelectOk sel) (hmax : SelectMax sel)
    (scalarLen multW : ℕ) (hw : 1 ≤ multW) (scalars : List ℕ) (points : List α)
    (hlen : scalars.length = points.length) (h2 : 2 ≤ scalars.length) :
    ∃ r, multiMultBosCoster o sel scalarLen multW scalars points = some r := by
  unfold multiMultBosCoster multiMultPairs
  have h1 : ¬ scalars.length ≠ points.length := by omega
  have h3 : ¬ scalars.length < 2 := by omega
  simp only [h1, h3, if_false]
  cases hp : (scalars.zip points).filter (fun np => np.1 ≠ 0) with
  | nil => exact ⟨_, rfl⟩
  | cons x xs =>
    simp only []
    have hpos : ∀ np ∈ x :: xs, 1 ≤ np.1 := by
      intro np hnp
      rw [← hp] at hnp
      have := (List.mem_filter.mp hnp).2
      simp at this; omega
    obtain ⟨r, hr, hr1⟩ := bosCosterLoop_terminates (o := o) sel hsel hmax
      ((x :: xs).foldl (fun s np => s + np.1) 0 + 1) (x :: xs) hpos (by simp)
      (by rw [foldl_add_eq_nsum]; omega)
    rw [hr]
    obtain ⟨n1, p1⟩ := r
    exact multRegularWindow_answers scalarLen n1 multW hw (Or.inr hr1) p1


/-! ## the model's heap (`heapSelect`: Python's `heappop` on `(-n, PJ)` tuples) is such a selection -/

theorem removeFirst_perm (x : ℕ × EC.JacPoint) (l : List (ℕ × EC.JacPoint)) (hx : x ∈ l) :
    l.Perm (x :: removeFirst x l) := by
  induction l with
  | nil => simp at hx
  | cons y ys ih =>
    simp only [removeFirst]
    split
    · next h => subst h; exact List.Perm.refl _
    · next h =>
      have hx' : x ∈ ys := by
        rcases List.mem_cons.mp hx with rfl | h'
        · exact absurd rfl h
        · exact h'
      exact (List.Perm.cons y (ih hx')).trans (List.Perm.swap x y _)

theorem heapBest_spec (l : List (ℕ × EC.JacPoint)) (b : ℕ × EC.JacPoint) :
    (l.foldl (fun b y => if heapBefore y b then y else b) b ∈ b :: l) ∧
    b.1 ≤ (l.foldl (fun b y => if heapBefore y b then y else b) b).1 ∧
    ∀ y ∈ l, y.1 ≤ (l.foldl (fun b y => if heapBefore y b then y else b) b).1 := by
  induction l generalizing b with
  | nil => simp
  | cons y ys ih =>
    simp only [List.foldl_cons]
    obtain ⟨h1, h2, h3⟩ := ih (if heapBefore y b then y else b)
    have hyb : b.1 ≤ (if heapBefore y b then y else b).1 ∧ y.1 ≤ (if heapBefore y b then y else b).1 := by
      unfold heapBefore
      by_cases hgt : y.1 > b.1
      · simp [hgt]; omega
      · by_cases heq : y.1 = b.1
        · by_cases hl : jacLt y.2 b.2 <;> simp [heq, hl]
        · have : ¬ (y.1 == b.1) = true := by simpa using heq
          simp [hgt, heq]; omega
    refine ⟨?_, by omega, ?_⟩
    · rcases List.mem_cons.mp h1 with h | h
      · rw [h]; split
        · exact List.mem_cons_of_mem _ List.mem_cons_self
        · exact List.mem_cons_self
      · exact List.mem_cons_of_mem _ (List.mem_cons_of_mem _ h)
    · intro z hz
      rcases List.mem_cons.mp hz with rfl | hz
      · omega
      · exact h3 z hz

theorem heapSelect_ok : SelectOk heapSelect := by
  constructor
  · intro xs x rest h
    cases xs with
    | nil => simp [heapSelect] at h
    | cons y ys =>
      simp only [heapSelect, Option.some.injEq, Prod.mk.injEq] at h
      obtain ⟨rfl, rfl⟩ := h
      exact removeFirst_perm _ _ (heapBest_spec ys y).1
  · intro xs h
    cases xs with
    | nil => rfl
    | cons y ys => simp [heapSelect] at h

theorem heapSelect_max : SelectMax heapSelect := by
  intro xs x rest h z hz
  cases xs with
  | nil => simp [heapSelect] at h
  | cons y ys =>
    simp only [heapSelect, Option.some.injEq, Prod.mk.injEq] at h
    obtain ⟨rfl, rfl⟩ := h
    obtain ⟨hmem, hb, hall⟩ := heapBest_spec ys y
    have hz' : z ∈ y :: ys := (removeFirst_perm _ _ hmem).mem_iff.mpr (List.mem_cons_of_mem _ hz)
    rcases List.mem_cons.mp hz' with rfl | hz'
    · exact hb
    · exact hall z hz'

end Btc.C01
