import Proofs.C01.CapstoneJac
import Proofs.C01.Entry
/-
C01 capstone, part 1b: every ladder theorem of (B) (`Proofs/C01/Ladders.lean`, `Entry.lean`), instantiated for
btclib's real arithmetic `ecOps c` through `jacRel_ec`.  No hypothesis `JacRel` is left: the statements speak of
`JValid` triples and Mathlib's point group directly, for every prime `p`, every curve, every subgroup `H` without
2-torsion that contains the operands (`⊤` if the curve has no rational point of order 2; `torsionSub p c n` for an
odd `n` otherwise).
-/
open WeierstrassCurve

namespace Btc.C01
open Btc.EC

variable {p : ℕ} [Fact p.Prime] {c : CurveGroup} (hp : c.p = (p : ℤ))
  (H : AddSubgroup (Pt p c)) (hH : NoTwoTorsionIn H)
include hp hH

theorem R_mk {Q : JacPoint} (hQ : JValid p c Q) (hQH : absJ p c Q ∈ H) :
    (jacRel_ec hp H hH).R Q (absJ p c Q) := ⟨hQ, rfl, hQH⟩

theorem RA_mk {q : Point} (hq : AValid p c q) (hqH : absA p c q ∈ H) :
    (jacRel_ec hp H hH).RA q (absA p c q) := ⟨hq, rfl, hqH⟩

/-- `for _ in range(k): R = ec.double_jac(R)` -/
theorem dblN_ec (k : ℕ) (Q : JacPoint) (hQ : JValid p c Q) (hQH : absJ p c Q ∈ H) :
    JValid p c (dblN (ecOps c) k Q) ∧ absJ p c (dblN (ecOps c) k Q) = ((2 : ℤ) ^ k) • absJ p c Q := by
  obtain ⟨hv, he, _⟩ := dblN_spec (jacRel_ec hp H hH) k (R_mk hp H hH hQ hQH)
  exact ⟨hv, he⟩

/-- `_mult_recursive_jac_var` on btclib's arithmetic -/
theorem multRecursiveJac_ec (m : ℕ) (Q : JacPoint) (hQ : JValid p c Q) (hQH : absJ p c Q ∈ H) :
    JValid p c (multRecursiveJac (ecOps c) m Q) ∧
      absJ p c (multRecursiveJac (ecOps c) m Q) = (m : ℤ) • absJ p c Q := by
  obtain ⟨hv, he, _⟩ := multRecursiveJac_spec (jacRel_ec hp H hH) m (R_mk hp H hH hQ hQH)
  exact ⟨hv, he⟩

/-- `_mult_jac_var` -/
theorem multJacVar_ec (m : ℕ) (Q : JacPoint) (hQ : JValid p c Q) (hQH : absJ p c Q ∈ H) :
    JValid p c (multJacVar (ecOps c) m Q) ∧
      absJ p c (multJacVar (ecOps c) m Q) = (m : ℤ) • absJ p c Q := by
  obtain ⟨hv, he, _⟩ := multJacVar_spec (jacRel_ec hp H hH) m (R_mk hp H hH hQ hQH)
  exact ⟨hv, he⟩

/-- `_mult_mont_ladder_var` -/
theorem multMontLadder_ec (m : ℕ) (Q : JacPoint) (hQ : JValid p c Q) (hQH : absJ p c Q ∈ H) :
    JValid p c (multMontLadder (ecOps c) m Q) ∧
      absJ p c (multMontLadder (ecOps c) m Q) = (m : ℤ) • absJ p c Q := by
  obtain ⟨hv, he, _⟩ := multMontLadder_spec (jacRel_ec hp H hH) m (R_mk hp H hH hQ hQH)
  exact ⟨hv, he⟩

/-- `_mult_base_3_var` -/
theorem multBase3_ec (m : ℕ) (Q : JacPoint) (hQ : JValid p c Q) (hQH : absJ p c Q ∈ H) :
    JValid p c (multBase3 (ecOps c) m Q) ∧
      absJ p c (multBase3 (ecOps c) m Q) = (m : ℤ) • absJ p c Q := by
  obtain ⟨hv, he, _⟩ := multBase3_spec (jacRel_ec hp H hH) m (R_mk hp H hH hQ hQH)
  exact ⟨hv, he⟩

/-- `_mult_regular_window(m, Q, ec, w)` — hence `_mult` — on btclib's arithmetic: whenever it answers, the
answer is a valid triple denoting `m • Q`; every `m ≥ 0`, every `w ≥ 1`, every valid `Q` (infinity included) -/
theorem multRegularWindow_ec (scalarLen m w : ℕ) (Q r : JacPoint) (hQ : JValid p c Q)
    (hQH : absJ p c Q ∈ H) (h : multRegularWindow (ecOps c) scalarLen m Q w = some r) :
    JValid p c r ∧ absJ p c r = (m : ℤ) • absJ p c Q := by
  obtain ⟨hv, he, _⟩ := multRegularWindow_spec (jacRel_ec hp H hH) scalarLen m w (R_mk hp H hH hQ hQH) h
  exact ⟨hv, he⟩

/-- `_mult_fixed_base(m, Q, ec, w)` (what `mult(m, G)` runs), any blind `λ ≢ 0 (mod p)` -/
theorem multFixedBase_ec (scalarLen m w : ℕ) (lam : ℤ) (hlam : (lam : ZMod p) ≠ 0) (Q r : JacPoint)
    (hQ : JValid p c Q) (hQH : absJ p c Q ∈ H)
    (h : multFixedBase (ecOps c) scalarLen lam m Q w = some r) :
    JValid p c r ∧ absJ p c r = (m : ℤ) • absJ p c Q := by
  obtain ⟨hv, he, _⟩ :=
    multFixedBase_spec (jacRel_ec hp H hH) scalarLen m w hlam (R_mk hp H hH hQ hQH) h
  exact ⟨hv, he⟩

/-! ## multi-scalar -/

/-- `Σ nᵢ • abs Pᵢ` in Mathlib's point group -/
noncomputable def psum (p : ℕ) [Fact p.Prime] (c : CurveGroup) (xs : List (ℕ × JacPoint)) : Pt p c :=
  (xs.map fun np => ((np.1 : ℕ) : ℤ) • absJ p c np.2).sum

theorem val_ec {Q : JacPoint} (hQ : JValid p c Q) (hQH : absJ p c Q ∈ H) :
    (jacRel_ec hp H hH).val Q = absJ p c Q :=
  (jacRel_ec hp H hH).val_eq (jacRel_ec_functional hp H hH) (R_mk hp H hH hQ hQH)

theorem tsum_ec (xs : List (ℕ × JacPoint)) (hxs : ∀ np ∈ xs, JValid p c np.2 ∧ absJ p c np.2 ∈ H) :
    tsum (jacRel_ec hp H hH) xs = psum p c xs := by
  unfold tsum psum
  congr 1
  apply List.map_congr_left
  intro np hnp
  rw [val_ec hp H hH (hxs np hnp).1 (hxs np hnp).2]

omit hH hp in
theorem zip_valid {scalars : List ℕ} {points : List JacPoint}
    (hpts : ∀ P ∈ points, JValid p c P ∧ absJ p c P ∈ H) :
    ∀ np ∈ scalars.zip points, JValid p c np.2 ∧ absJ p c np.2 ∈ H :=
  fun np hnp => hpts np.2 (List.of_mem_zip hnp).2

theorem pts_R {points : List JacPoint} (hpts : ∀ P ∈ points, JValid p c P ∧ absJ p c P ∈ H) :
    ∀ P ∈ points, ∃ g, (jacRel_ec hp H hH).R P g :=
  fun P hP => ⟨_, R_mk hp H hH (hpts P hP).1 (hpts P hP).2⟩

/-- `_multi_mult_w_NAF_var` / `_double_mult_w_NAF_var` on btclib's arithmetic -/
theorem multiMultWNAF_ec (isFixed : JacPoint → Bool) (fixedW w : ℕ) (hfw : 1 ≤ fixedW) (scalars : List ℕ)
    (points : List JacPoint) (hpts : ∀ P ∈ points, JValid p c P ∧ absJ p c P ∈ H) (r : JacPoint)
    (h : multiMultWNAF (ecOps c) isFixed fixedW scalars points w = some r) :
    JValid p c r ∧ absJ p c r = psum p c (scalars.zip points) := by
  obtain ⟨hv, he, _⟩ := multiMultWNAF_spec (jacRel_ec hp H hH) isFixed fixedW w hfw scalars points
    (pts_R hp H hH hpts) h
  exact ⟨hv, by rw [he, tsum_ec hp H hH _ (zip_valid H hpts)]⟩

/-- Bos–Coster on btclib's arithmetic, any selection function (`heapSelect` in particular) -/
theorem multiMultBosCoster_ec (sel : Select JacPoint) (hsel : SelectOk sel) (scalarLen multW : ℕ)
    (scalars : List ℕ) (points : List JacPoint) (hpts : ∀ P ∈ points, JValid p c P ∧ absJ p c P ∈ H)
    (r : JacPoint) (h : multiMultBosCoster (ecOps c) sel scalarLen multW scalars points = some r) :
    JValid p c r ∧ absJ p c r = psum p c (scalars.zip points) := by
  obtain ⟨hv, he, _⟩ := multiMultBosCoster_spec (jacRel_ec hp H hH) (jacRel_ec_functional hp H hH) sel hsel
    scalarLen multW scalars points (pts_R hp H hH hpts) h
  exact ⟨hv, by rw [he, tsum_ec hp H hH _ (zip_valid H hpts)]⟩

/-- `_multi_mult_var` on btclib's arithmetic, every threshold -/
theorem multiMultVar_ec (sel : Select JacPoint) (hsel : SelectOk sel) (isFixed : JacPoint → Bool)
    (fixedW scalarLen multW multiW threshold : ℕ) (hfw : 1 ≤ fixedW) (scalars : List ℕ)
    (points : List JacPoint) (hpts : ∀ P ∈ points, JValid p c P ∧ absJ p c P ∈ H) (r : JacPoint)
    (h : multiMultVar (ecOps c) sel isFixed fixedW scalarLen multW multiW threshold scalars points = some r) :
    JValid p c r ∧ absJ p c r = psum p c (scalars.zip points) := by
  obtain ⟨hv, he, _⟩ := multiMultVar_spec (jacRel_ec hp H hH) (jacRel_ec_functional hp H hH) sel hsel isFixed
    fixedW scalarLen multW multiW threshold hfw scalars points (pts_R hp H hH hpts) h
  exact ⟨hv, by rw [he, tsum_ec hp H hH _ (zip_valid H hpts)]⟩

end Btc.C01

/-! ## the public entry points of a `Curve` (pure-Python path) -/
namespace Btc.C01
open Btc.EC

variable {p : ℕ} [Fact p.Prime]

theorem GJ_R (C : Curve) (hC : C.p = (p : ℤ)) (H : AddSubgroup (Pt p C.toCurveGroup))
    (hH : NoTwoTorsionIn H) (hgy : C.gy ≠ 0) (hG : AValid p C.toCurveGroup C.G)
    (hGH : absA p C.toCurveGroup C.G ∈ H) :
    (jacRel_ec hC H hH).R C.GJ (absA p C.toCurveGroup C.G) := by
  have h : C.G.2 ≠ 0 := hgy
  have e : C.GJ = (C.G.1, C.G.2, 1) := rfl
  have hJ : JValid p C.toCurveGroup C.GJ := by rw [e]; exact JValid_of_AValid h hG
  have ha : absA p C.toCurveGroup C.G = absJ p C.toCurveGroup C.GJ := by
    rw [absA_of_y_ne_zero h, e]
  rw [ha] at hGH ⊢
  exact R_mk hC H hH hJ hGH

/-- T8 on btclib's arithmetic: `mult(m, Q, ec)` (every curve but secp256k1, Python path; regular window, or fixed
base for the generator) returns a valid pair denoting `m • Q`, for EVERY integer `m`, any blind `λ ≢ 0`, every
valid `Q` of the subgroup `H` whose order divides `n` -/
theorem multEntry_ec (C : Curve) (hC : C.p = (p : ℤ)) (H : AddSubgroup (Pt p C.toCurveGroup))
    (hH : NoTwoTorsionIn H) (hsecp : (ctxOf C).isSecp = false) (hn0 : 0 < C.n) (lam : ℤ)
    (hlam : (lam : ZMod p) ≠ 0) (m : ℤ) (Q A : Point) (hQ : AValid p C.toCurveGroup Q)
    (hQH : absA p C.toCurveGroup Q ∈ H) (hgy : C.gy ≠ 0) (hG : AValid p C.toCurveGroup C.G)
    (hn : C.n • absA p C.toCurveGroup Q = 0) (h : multEntry (ctxOf C) lam m Q = some A) :
    AValid p C.toCurveGroup A ∧ absA p C.toCurveGroup A = m • absA p C.toCurveGroup Q := by
  have hnn : (((ctxOf C).n : ℕ) : ℤ) = C.n := by
    show ((C.n.toNat : ℕ) : ℤ) = C.n
    omega
  obtain ⟨hv, he, _⟩ := multEntry_spec (ctxOf C) (jacRel_ec hC H hH) hsecp
    (by show 0 < C.n.toNat; omega) hlam m (RA_mk hC H hH hQ hQH)
    (by
      intro heq
      have hQG : Q = C.G := by simpa [ctxOf] using heq
      have := GJ_R C hC H hH hgy hG (hQG ▸ hQH)
      rw [hQG]; exact this)
    (by rw [hnn]; exact hn) h
  exact ⟨hv, he⟩

/-- `PreparedPoint(Q, ec).mult(m)` on btclib's arithmetic -/
theorem preparedMult_ec (C : Curve) (hC : C.p = (p : ℤ)) (H : AddSubgroup (Pt p C.toCurveGroup))
    (hH : NoTwoTorsionIn H) (hsecp : (ctxOf C).isSecp = false) (hn0 : 0 < C.n) (lam : ℤ)
    (hlam : (lam : ZMod p) ≠ 0) (m : ℤ) (Q A : Point) (hQ : AValid p C.toCurveGroup Q)
    (hQH : absA p C.toCurveGroup Q ∈ H) (hgy : C.gy ≠ 0) (hG : AValid p C.toCurveGroup C.G)
    (hn : C.n • absA p C.toCurveGroup Q = 0) (h : preparedMult (ctxOf C) lam Q m = some A) :
    AValid p C.toCurveGroup A ∧ absA p C.toCurveGroup A = m • absA p C.toCurveGroup Q := by
  have hnn : (((ctxOf C).n : ℕ) : ℤ) = C.n := by
    show ((C.n.toNat : ℕ) : ℤ) = C.n
    omega
  obtain ⟨hv, he, _⟩ := preparedMult_spec (ctxOf C) (jacRel_ec hC H hH) hsecp
    (by show 0 < C.n.toNat; omega) hlam m (RA_mk hC H hH hQ hQH)
    (by
      intro heq
      have hQG : Q = C.G := by simpa [ctxOf] using heq
      have := GJ_R C hC H hH hgy hG (hQG ▸ hQH)
      rw [hQG]; exact this)
    (by rw [hnn]; exact hn) h
  exact ⟨hv, he⟩

end Btc.C01
