import Proofs.C01.CapstoneLawful
import Proofs.C01.CapstoneLadders
import Proofs.C01.CapstoneCofactor
/-
C01 capstone, part 3: the hypotheses are satisfiable.  A miniature secp256k1: `y² = x³ + 7` over `F₄₃`
(`43 ≡ 3 mod 4`), 31 points (prime), generator `(2, 12)`.  `CurveOk 43 toyC` is PROVED (the order of the
generator by running the proved ladder: `31·G` has `Z = 0`), hence `lawful_ec` and the ladder corollaries
apply to it.
-/
open WeierstrassCurve

namespace Btc.C01.Toy
open Btc Btc.EC Btc.C01

def toyC : Curve := { p := 43, a := 0, b := 7, gx := 2, gy := 12, n := 31, h := 1 }

instance fact43 : Fact (Nat.Prime 43) := ⟨by decide⟩

theorem toyC_G_valid : JValid 43 toyC.toCurveGroup (2, 12, 1) := by
  refine ⟨by decide, fun _ => ?_⟩
  rw [curveOf, Jacobian.nonsingular_iff, Jacobian.equation_iff]
  simp only [swc_a₁, swc_a₂, swc_a₃, swc_a₄, swc_a₆, castJ_0, castJ_1, castJ_2, toyC]
  decide

theorem toyC_gen_valid : AValid 43 toyC.toCurveGroup toyC.G := fun _ => toyC_G_valid.2 (by decide)

theorem toyC_absA_G : absA 43 toyC.toCurveGroup toyC.G = absJ 43 toyC.toCurveGroup (2, 12, 1) :=
  absA_of_y_ne_zero (show toyC.G.2 ≠ 0 by decide)

/-- `31·G = ∞`, by running the PROVED double-and-add on the model and reading `Z = 0` -/
theorem toyC_order : toyC.n • absA 43 toyC.toCurveGroup toyC.G = 0 := by
  have h := multJac_refines (p := 43) (c := toyC.toCurveGroup) rfl 31 (2, 12, 1) toyC_G_valid
  have hz : (multJac toyC.toCurveGroup 31 (2, 12, 1)).2.2 = 0 := by decide +kernel
  rw [absJ_of_Z_eq_zero hz] at h
  rw [toyC_absA_G]
  show (31 : ℤ) • absJ 43 toyC.toCurveGroup (2, 12, 1) = 0
  rw [h, ← natCast_zsmul]
  rfl

theorem toyOk : CurveOk 43 toyC where
  hC := rfl
  p_ne_two := by decide
  n_pos := by decide
  n_prime := by decide
  n_odd := by decide
  gen_valid := toyC_gen_valid
  gen_red := ⟨by decide, fun _ => by decide⟩
  gen_ne := by decide
  gen_order := toyC_order

/-- non-vacuity of `lawful_ec`: `Btc.EC.ops toyC` IS lawful (no hypothesis left) -/
noncomputable def toyLawful : Lawful (opsSub toyOk) (Pt 43 toyC.toCurveGroup) := lawful_ec toyOk (by decide)

/-- non-vacuity of the ladder corollaries: the regular window on btclib's arithmetic answers, and what it
answers denotes `22 • G` in Mathlib's group -/
example : multRegularWindow (ecOps toyC.toCurveGroup) 5 22 (2, 12, 1) 3 = some (7, 19, 14) := by decide +kernel

example : absJ 43 toyC.toCurveGroup (7, 19, 14) = (22 : ℤ) • absJ 43 toyC.toCurveGroup (2, 12, 1) :=
  (multRegularWindow_ec (p := 43) rfl (torsionSub 43 toyC.toCurveGroup 31)
    (noTwoTorsionIn_torsionSub 31 (by decide)) 5 22 3 (2, 12, 1) (7, 19, 14) toyC_G_valid
    (by rw [mem_torsionSub, ← toyC_absA_G]; exact toyC_order) (by decide +kernel)).2

/-- every solution of `y² = x³ + 7` over `F₄₃` is killed by 31: run the PROVED double-and-add on all 43² pairs (kernel) -/
theorem toy_all_points_Z : ∀ x y : ZMod 43, y ^ 2 = x ^ 3 + 7 →
    (multJac toyC.toCurveGroup 31 ((x.val : ℤ), (y.val : ℤ), 1)).2.2 = 0 := by decide +kernel

/-- **cofactor one on the toy curve, PROVED**: every point of `y² = x³ + 7` over `F₄₃` has order dividing `n = 31` -/
theorem toy_hcof : ∀ g : Pt 43 toyC.toCurveGroup, toyC.n • g = 0 := by
  intro g
  rcases g with _ | ⟨x, y, h⟩
  · exact zsmul_zero _
  · have heq : y ^ 2 = x ^ 3 + 7 := by
      have := h.1
      rw [aff_equation_iff] at this
      simpa [toyC] using this
    have hz := toy_all_points_Z x y heq
    have hcx : (((x.val : ℕ) : ℤ) : ZMod 43) = x := by simp
    have hcy : (((y.val : ℕ) : ℤ) : ZMod 43) = y := by simp
    have e : castJ 43 ((x.val : ℤ), (y.val : ℤ), 1) = ![x, y, 1] := by simp [castJ, hcx, hcy]
    have hnsJ : (curveOf 43 toyC.toCurveGroup).Nonsingular (castJ 43 ((x.val : ℤ), (y.val : ℤ), 1)) := by
      rw [e]; exact (Jacobian.nonsingular_some ..).mpr h
    have hJ : JValid 43 toyC.toCurveGroup ((x.val : ℤ), (y.val : ℤ), 1) :=
      ⟨fun h0 => absurd (by simp at h0) (one_ne_zero (α := ZMod 43)), fun _ => hnsJ⟩
    have habs : absJ 43 toyC.toCurveGroup ((x.val : ℤ), (y.val : ℤ), 1) = Affine.Point.some x y h := by
      rw [absJ]
      have := Jacobian.Point.toAffine_some (W := curveOf 43 toyC.toCurveGroup) (X := x) (Y := y) ((Jacobian.nonsingular_some ..).mpr h)
      rw [e]; exact this
    have hm := multJac_refines (p := 43) (c := toyC.toCurveGroup) rfl 31 _ hJ
    rw [absJ_of_Z_eq_zero hz, habs] at hm
    show (31 : ℤ) • Affine.Point.some x y h = 0
    rw [← natCast_zsmul] at hm
    exact hm.symm

/-- the discriminant of the toy curve is non-zero -/
theorem toy_delta : (curveOf 43 toyC.toCurveGroup).toAffine.Δ ≠ 0 :=
  delta_ne_zero_of_a_zero (C := toyC) rfl (by decide)

/-- **a fully discharged cofactor-one instance**: on the toy curve the lawful carrier and the raw `Btc.EC.ops toyC`
run alike (`lift_x` included), no hypothesis left -/
theorem toy_opsHom : OpsHom (opsSub toyOk) (EC.ops toyC) (Subtype.val : SubPt 43 toyC → Point) :=
  opsSub_hom toyOk (by decide) toy_hcof toy_delta

end Btc.C01.Toy
