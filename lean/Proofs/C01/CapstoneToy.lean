import Proofs.C01.CapstoneLawful
import Proofs.C01.CapstoneLadders
/-
C01 capstone, part 3: the hypotheses are satisfiable.  A miniature secp256k1: `y² = x³ + 7` over `F₄₃`
(`43 ≡ 3 mod 4`), 31 points (prime), generator `(2, 12)`.  `CurveOk 43 toyC` is PROVED (the order of the
generator by running the proved ladder: `31·G` has `Z = 0`), hence `lawful_ec` and the ladder corollaries
apply to it.
-/
open WeierstrassCurve

namespace Btc.C01.Toy
open Btc Btc.EC Btc.C01

def toyC : Curve := { p := 43, a := 0, b := 7, gx := 2, gy := 12, n := 31, h := 1 }

instance fact43 : Fact (Nat.Prime 43) := ⟨by decide⟩

theorem toyC_G_valid : JValid 43 toyC.toCurveGroup (2, 12, 1) := by
  refine ⟨by decide, fun _ => ?_⟩
  rw [curveOf, Jacobian.nonsingular_iff, Jacobian.equation_iff]
  simp only [swc_a₁, swc_a₂, swc_a₃, swc_a₄, swc_a₆, castJ_0, castJ_1, castJ_2, toyC]
  decide

theorem toyC_gen_valid : AValid 43 toyC.toCurveGroup toyC.G := fun _ => toyC_G_valid.2 (by decide)

theorem toyC_absA_G : absA 43 toyC.toCurveGroup toyC.G = absJ 43 toyC.toCurveGroup (2, 12, 1) :=
  absA_of_y_ne_zero (show toyC.G.2 ≠ 0 by decide)

/-- `31·G = ∞`, by running the PROVED double-and-add on the model and reading `Z = 0` -/
theorem toyC_order : toyC.n • absA 43 toyC.toCurveGroup toyC.G = 0 := by
  have h := multJac_refines (p := 43) (c := toyC.toCurveGroup) rfl 31 (2, 12, 1) toyC_G_valid
  have hz : (multJac toyC.toCurveGroup 31 (2, 12, 1)).2.2 = 0 := by decide +kernel
  rw [absJ_of_Z_eq_zero hz] at h
  rw [toyC_absA_G]
  show (31 : ℤ) • absJ 43 toyC.toCurveGroup (2, 12, 1) = 0
  rw [h, ← natCast_zsmul]
  rfl

theorem toyOk : CurveOk 43 toyC where
  hC := rfl
  p_ne_two := by decide
  n_pos := by decide
  n_prime := by decide
  n_odd := by decide
  gen_valid := toyC_gen_valid
  gen_red := ⟨by decide, fun _ => by decide⟩
  gen_ne := by decide
  gen_order := toyC_order

/-- non-vacuity of `lawful_ec`: `Btc.EC.ops toyC` IS lawful (no hypothesis left) -/
noncomputable def toyLawful : Lawful (opsSub toyOk) (Pt 43 toyC.toCurveGroup) := lawful_ec toyOk (by decide)

/-- non-vacuity of the ladder corollaries: the regular window on btclib's arithmetic answers, and what it
answers denotes `22 • G` in Mathlib's group -/
example : multRegularWindow (ecOps toyC.toCurveGroup) 5 22 (2, 12, 1) 3 = some (7, 19, 14) := by decide +kernel

example : absJ 43 toyC.toCurveGroup (7, 19, 14) = (22 : ℤ) • absJ 43 toyC.toCurveGroup (2, 12, 1) :=
  (multRegularWindow_ec (p := 43) rfl (torsionSub 43 toyC.toCurveGroup 31)
    (noTwoTorsionIn_torsionSub 31 (by decide)) 5 22 3 (2, 12, 1) (7, 19, 14) toyC_G_valid
    (by rw [mem_torsionSub, ← toyC_absA_G]; exact toyC_order) (by decide +kernel)).2

end Btc.C01.Toy
