import Proofs.C01.JacRefine
import Mathlib.Algebra.Group.Basic
import Mathlib.Tactic.Abel
/-
C01: iterating T1 — the reference double-and-add `Btc.EC.multJac` (the multiplication every
scheme-level driver runs through `Btc.EC.mult` / `doubleMult`) computes `m • abs Q`.
Shows that `JValid` is the invariant that makes T1a/T1c iterate.
-/
open WeierstrassCurve

namespace Btc.C01
open Btc.EC

variable {p : ℕ} [Fact p.Prime] {c : CurveGroup} (hp : c.p = (p : ℤ))
include hp

theorem multJacAux_spec : ∀ (fuel m : ℕ) (Q acc : JacPoint), m < fuel →
    JValid p c Q → JValid p c acc →
    JValid p c (multJacAux c fuel m Q acc) ∧
      absJ p c (multJacAux c fuel m Q acc) = absJ p c acc + m • absJ p c Q
  | 0, m, Q, acc, hf, _, _ => by omega
  | fuel + 1, m, Q, acc, hf, hQ, hacc => by
    rw [multJacAux]
    by_cases hm : m = 0
    · subst hm
      simp only [if_true, zero_nsmul, add_zero]
      exact ⟨hacc, trivial⟩
    · simp only [hm, if_false]
      have hD := doubleJac_spec hp Q hQ
      by_cases hodd : m % 2 = 1
      · simp only [hodd, if_true]
        have hA := addJac_spec hp acc Q hacc hQ
        obtain ⟨hv, he⟩ := multJacAux_spec fuel (m / 2) (doubleJac c Q) (addJac c acc Q)
          (by omega) hD.1 hA.1
        refine ⟨hv, ?_⟩
        rw [he, hA.2, hD.2, ← two_nsmul, ← mul_nsmul, add_assoc, ← succ_nsmul']
        congr 2; omega
      · simp only [hodd, if_false]
        obtain ⟨hv, he⟩ := multJacAux_spec fuel (m / 2) (doubleJac c Q) acc
          (by omega) hD.1 hacc
        refine ⟨hv, ?_⟩
        rw [he, hD.2, ← two_nsmul, ← mul_nsmul]
        congr 2; omega

/-- the reference scalar multiplication: `abs (multJac m Q) = m • abs Q`, every `m`, every valid
triple (infinity included), result valid again. -/
theorem multJac_spec (m : ℕ) (Q : JacPoint) (hQ : JValid p c Q) :
    JValid p c (multJac c m Q) ∧ absJ p c (multJac c m Q) = m • absJ p c Q := by
  have := multJacAux_spec hp (m + 1) m Q INFJ (by omega) hQ JValid_INFJ
  rw [absJ_INFJ, zero_add] at this
  exact this

theorem multJac_refines (m : ℕ) (Q : JacPoint) (hQ : JValid p c Q) :
    absJ p c (multJac c m Q) = m • absJ p c Q := (multJac_spec hp m Q hQ).2

/-- `doubleMult`'s Jacobian core: `abs (u·H + v·Q) = u • abs H + v • abs Q` -/
theorem doubleMultJac_refines (u v : ℕ) (H Q : JacPoint) (hH : JValid p c H) (hQ : JValid p c Q) :
    absJ p c (addJac c (multJac c u H) (multJac c v Q)) = u • absJ p c H + v • absJ p c Q := by
  rw [addJac_refines hp _ _ (multJac_spec hp u H hH).1 (multJac_spec hp v Q hQ).1,
    multJac_refines hp u H hH, multJac_refines hp v Q hQ]

/-! ## the affine entry points `mult`, `doubleMult` (what `Btc.EC.ops` runs)

`aff_from_jac` can only express a result that is not a point of order 2 (`affFromJac_two_torsion`);
the hypothesis `NoTwoTorsion` (true when the point group has odd exponent, e.g. prime odd order with
cofactor 1) rules these out. -/

variable (p) in
/-- the curve has no point of order 2 -/
def NoTwoTorsion (c : CurveGroup) : Prop :=
  ∀ P : (curveOf p c).toAffine.Point, P + P = 0 → P = 0

omit hp in
/-- a group of odd exponent has no 2-torsion -/
theorem noTwoTorsion_of_odd_exponent (n : ℕ) (hn : n % 2 = 1)
    (h : ∀ P : (curveOf p c).toAffine.Point, n • P = 0) : NoTwoTorsion p c := by
  intro P hP
  have h2 : 2 • P = 0 := by rw [two_nsmul]; exact hP
  have := h P
  rw [← Nat.div_add_mod n 2, hn, add_nsmul, mul_nsmul, h2, nsmul_zero, zero_add, one_nsmul]
    at this
  exact this

/-- without 2-torsion a finite valid triple has `Y ≠ 0` in the field -/
theorem Y_ne_zero_of_noTwoTorsion (h2 : NoTwoTorsion p c) (Q : JacPoint) (hQ : JValid p c Q)
    (hQz : Q.2.2 ≠ 0) : (Q.2.1 : ZMod p) ≠ 0 := by
  intro hY
  obtain ⟨_, _, _, hne⟩ := affFromJac_two_torsion hp Q hQ hQz hY
  apply hne
  apply h2
  rw [← doubleJac_refines hp Q hQ]
  apply absJ_of_Z_eq_zero
  apply doubleJacHelper_Z_reduced hp
  have hc := doubleJac_eq hp Q
  have : castJ p (doubleJac c Q) 2 = 0 := by rw [hc]; simp [dbl, dblZ, hY]
  exact this

omit hp in
/-- `mult m Q = (m mod n) • Q` for every integer `m` and every valid affine `Q` (infinity included) -/
theorem mult_refines (C : Curve) (hC : C.p = (p : ℤ)) (h2 : NoTwoTorsion p C.toCurveGroup)
    (m : ℤ) (Q : Point) (hQ : AValid p C.toCurveGroup Q) :
    ∃ A : Point, mult C m Q = some A ∧ AValid p C.toCurveGroup A ∧
      absA p C.toCurveGroup A = (m % C.n).toNat • absA p C.toCurveGroup Q := by
  have hJ := multJac_spec hC (m % C.n).toNat (jacFromAff Q) (JValid_jacFromAff hQ)
  obtain ⟨A, hA, hAv, hAe⟩ := affFromJac_absA hC _ hJ.1
    (by
      by_cases hz : (multJac C.toCurveGroup (m % C.n).toNat (jacFromAff Q)).2.2 = 0
      · exact Or.inl hz
      · exact Or.inr (Y_ne_zero_of_noTwoTorsion hC h2 _ hJ.1 hz))
  exact ⟨A, hA, hAv, by rw [hAe, hJ.2]; rfl⟩

omit hp in
/-- `doubleMult u H v Q = (u mod n) • H + (v mod n) • Q` -/
theorem doubleMult_refines (C : Curve) (hC : C.p = (p : ℤ)) (h2 : NoTwoTorsion p C.toCurveGroup)
    (u v : ℤ) (H Q : Point) (hH : AValid p C.toCurveGroup H) (hQ : AValid p C.toCurveGroup Q) :
    ∃ A : Point, doubleMult C u H v Q = some A ∧ AValid p C.toCurveGroup A ∧
      absA p C.toCurveGroup A = (u % C.n).toNat • absA p C.toCurveGroup H
        + (v % C.n).toNat • absA p C.toCurveGroup Q := by
  have hJH := multJac_spec hC (u % C.n).toNat (jacFromAff H) (JValid_jacFromAff hH)
  have hJQ := multJac_spec hC (v % C.n).toNat (jacFromAff Q) (JValid_jacFromAff hQ)
  have hS := addJac_spec hC _ _ hJH.1 hJQ.1
  obtain ⟨A, hA, hAv, hAe⟩ := affFromJac_absA hC _ hS.1
    (by
      by_cases hz : (addJac C.toCurveGroup
          (multJac C.toCurveGroup (u % C.n).toNat (jacFromAff H))
          (multJac C.toCurveGroup (v % C.n).toNat (jacFromAff Q))).2.2 = 0
      · exact Or.inl hz
      · exact Or.inr (Y_ne_zero_of_noTwoTorsion hC h2 _ hS.1 hz))
  exact ⟨A, hA, hAv, by rw [hAe, hS.2, hJH.2, hJQ.2]; rfl⟩

end Btc.C01
