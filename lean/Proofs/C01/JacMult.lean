import Proofs.C01.JacRefine
import Mathlib.Algebra.Group.Basic
import Mathlib.Tactic.Abel
/-
C01: iterating T1 — the reference double-and-add `Btc.EC.multJac` (the multiplication every
scheme-level driver runs through `Btc.EC.mult` / `doubleMult`) computes `m • abs Q`.
Shows that `JValid` is the invariant that makes T1a/T1c iterate.
-/
open WeierstrassCurve

namespace Btc.C01
open Btc.EC

variable {p : ℕ} [Fact p.Prime] {c : CurveGroup} (hp : c.p = (p : ℤ))
include hp

theorem multJacAux_spec : ∀ (fuel m : ℕ) (Q acc : JacPoint), m < fuel →
    JValid p c Q → JValid p c acc →
    JValid p c (multJacAux c fuel m Q acc) ∧
      absJ p c (multJacAux c fuel m Q acc) = absJ p c acc + m • absJ p c Q
  | 0, m, Q, acc, hf, _, _ => by omega
  | fuel + 1, m, Q, acc, hf, hQ, hacc => by
    rw [multJacAux]
    by_cases hm : m = 0
    · subst hm
      simp only [if_true, zero_nsmul, add_zero]
      exact ⟨hacc, trivial⟩
    · simp only [hm, if_false]
      have hD := doubleJac_spec hp Q hQ
      by_cases hodd : m % 2 = 1
      · simp only [hodd, if_true]
        have hA := addJac_spec hp acc Q hacc hQ
        obtain ⟨hv, he⟩ := multJacAux_spec fuel (m / 2) (doubleJac c Q) (addJac c acc Q)
          (by omega) hD.1 hA.1
        refine ⟨hv, ?_⟩
        rw [he, hA.2, hD.2, ← two_nsmul, ← mul_nsmul, add_assoc, ← succ_nsmul']
        congr 2; omega
      · simp only [hodd, if_false]
        obtain ⟨hv, he⟩ := multJacAux_spec fuel (m / 2) (doubleJac c Q) acc
          (by omega) hD.1 hacc
        refine ⟨hv, ?_⟩
        rw [he, hD.2, ← two_nsmul, ← mul_nsmul]
        congr 2; omega

/-- the reference scalar multiplication: `abs (multJac m Q) = m • abs Q`, every `m`, every valid
triple (infinity included), result valid again. -/
theorem multJac_spec (m : ℕ) (Q : JacPoint) (hQ : JValid p c Q) :
    JValid p c (multJac c m Q) ∧ absJ p c (multJac c m Q) = m • absJ p c Q := by
  have := multJacAux_spec hp (m + 1) m Q INFJ (by omega) hQ JValid_INFJ
  rw [absJ_INFJ, zero_add] at this
  exact this

theorem multJac_refines (m : ℕ) (Q : JacPoint) (hQ : JValid p c Q) :
    absJ p c (multJac c m Q) = m • absJ p c Q := (multJac_spec hp m Q hQ).2

/-- `doubleMult`'s Jacobian core: `abs (u·H + v·Q) = u • abs H + v • abs Q` -/
theorem doubleMultJac_refines (u v : ℕ) (H Q : JacPoint) (hH : JValid p c H) (hQ : JValid p c Q) :
    absJ p c (addJac c (multJac c u H) (multJac c v Q)) = u • absJ p c H + v • absJ p c Q := by
  rw [addJac_refines hp _ _ (multJac_spec hp u H hH).1 (multJac_spec hp v Q hQ).1,
    multJac_refines hp u H hH, multJac_refines hp v Q hQ]

end Btc.C01
