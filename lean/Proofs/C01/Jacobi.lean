import Model.C01.NumberTheory
import Mathlib.NumberTheory.LegendreSymbol.JacobiSymbol
/-
C01 — T9: `legendre_symbol_var` (the binary Jacobi recursion) is Mathlib's Jacobi symbol for every odd modulus.
-/
namespace Btc.C01.NT
open scoped NumberTheorySymbols

theorem stripTwos_spec : ∀ (fuel a k : ℕ), 0 < a → a ≤ fuel →
    ∃ t a', stripTwos fuel a k = (k + t, a') ∧ a = 2 ^ t * a' ∧ a' % 2 = 1
  | 0, a, k, ha, hf => by omega
  | fuel + 1, a, k, ha, hf => by
    simp only [stripTwos]
    by_cases h : a % 2 = 0 ∧ a ≠ 0
    · simp only [h, and_self, ne_eq, not_false_eq_true, if_true]
      obtain ⟨t, a', h1, h2, h3⟩ := stripTwos_spec fuel (a / 2) (k + 1) (by omega) (by omega)
      refine ⟨t + 1, a', by rw [h1]; congr 1; omega, ?_, h3⟩
      rw [pow_succ, mul_assoc, mul_comm 2, ← mul_assoc, ← h2]; omega
    · rw [if_neg h]
      exact ⟨0, a, rfl, by simp, by omega⟩

theorem chi8_pow (P t : ℕ) (hP : P % 2 = 1) :
    (ZMod.χ₈ (P : ZMod 8)) ^ t = if t % 2 = 1 ∧ ((P : ℤ) % 8 = 3 ∨ (P : ℤ) % 8 = 5) then -1 else 1 := by
  rw [ZMod.χ₈_nat_eq_if_mod_eight]
  have e : ¬ P % 2 = 0 := by omega
  simp only [e, if_false]
  by_cases h17 : P % 8 = 1 ∨ P % 8 = 7
  · have : ¬ ((P : ℤ) % 8 = 3 ∨ (P : ℤ) % 8 = 5) := by omega
    simp [h17, this]
  · have h35 : (P : ℤ) % 8 = 3 ∨ (P : ℤ) % 8 = 5 := by omega
    simp only [h17, if_false, h35, and_true]
    rcases Nat.even_or_odd t with ht | ht
    · rw [ht.neg_one_pow]; have : ¬ t % 2 = 1 := by rcases ht with ⟨c, hc⟩; omega
      simp [this]
    · rw [ht.neg_one_pow]; have : t % 2 = 1 := by rcases ht with ⟨c, hc⟩; omega
      simp [this]

theorem flip_sign (A P : ℕ) (hA : A % 2 = 1) (hP : P % 2 = 1) :
    J((A : ℤ) | P) = (if (A : ℤ) % 4 = 3 ∧ (P : ℤ) % 4 = 3 then -1 else 1) * J((P : ℤ) | A) := by
  by_cases h : (A : ℤ) % 4 = 3 ∧ (P : ℤ) % 4 = 3
  · simp only [h, and_self, if_true]
    rw [jacobiSym.quadratic_reciprocity_three_mod_four (by omega) (by omega)]; ring
  · simp only [h, if_false, one_mul]
    by_cases hA1 : A % 4 = 1
    · exact jacobiSym.quadratic_reciprocity_one_mod_four hA1 (Nat.odd_iff.mpr hP)
    · have hP1 : P % 4 = 1 := by omega
      exact (jacobiSym.quadratic_reciprocity_one_mod_four hP1 (Nat.odd_iff.mpr hA)).symm

theorem legendreLoop_spec : ∀ (fuel A P : ℕ) (r : ℤ), P % 2 = 1 → A < fuel →
    legendreLoop fuel (A : ℤ) (P : ℤ) r = r * J((A : ℤ) | P)
  | 0, A, P, r, hP, hf => by omega
  | fuel + 1, A, P, r, hP, hf => by
    simp only [legendreLoop]
    by_cases hA : A = 0
    · subst hA
      simp only [Nat.cast_zero, if_true]
      by_cases h1 : P = 1
      · subst h1; simp [jacobiSym.one_right]
      · have : ¬ (P : ℤ) = 1 := by omega
        rw [if_neg this, jacobiSym.zero_left (by omega)]; simp
    · have hA0 : ¬ (A : ℤ) = 0 := by omega
      rw [if_neg hA0]
      obtain ⟨t, A', hs, hA2, hodd⟩ := stripTwos_spec A A 0 (by omega) (le_refl _)
      simp only [Int.toNat_natCast, hs, Nat.zero_add]
      have hA'pos : 0 < A' := by omega
      have hA'le : A' ≤ A := by rw [hA2]; exact Nat.le_mul_of_pos_left _ (by positivity)
      have hmod : (P : ℤ) % (A' : ℤ) = ((P % A' : ℕ) : ℤ) := by norm_cast
      rw [hmod, legendreLoop_spec fuel (P % A') A' _ hodd (by have := Nat.mod_lt P hA'pos; omega)]
      have hJ : J((A : ℤ) | P) = (ZMod.χ₈ (P : ZMod 8)) ^ t * J((A' : ℤ) | P) := by
        rw [hA2]; push_cast
        rw [jacobiSym.mul_left, jacobiSym.pow_left, jacobiSym.at_two (Nat.odd_iff.mpr hP)]
      rw [hJ, chi8_pow P t hP, flip_sign A' P hodd hP, ← hmod, ← jacobiSym.mod_left]
      split_ifs <;> ring

/-- T9: `legendre_symbol_var(a, p)` is the Jacobi symbol `(a | p)` for every odd `p ≥ 1` and every integer `a`
(hence the Legendre symbol for an odd prime `p`) -/
theorem legendreSymbolVar_eq_jacobiSym (a : ℤ) (P : ℕ) (hP : P % 2 = 1) :
    legendreSymbolVar a (P : ℤ) = some (J(a | P)) := by
  unfold legendreSymbolVar
  have h1 : ¬ (P : ℤ) < 1 := by omega
  simp only [h1, if_false]
  have hnn : 0 ≤ a % (P : ℤ) := Int.emod_nonneg _ (by omega)
  obtain ⟨A, hA⟩ : ∃ A : ℕ, a % (P : ℤ) = A := ⟨(a % P).toNat, by omega⟩
  have hlt : A < P := by have := Int.emod_lt_of_pos a (show (0 : ℤ) < P by omega); omega
  rw [hA, Int.toNat_natCast, legendreLoop_spec (P + 2) A P 1 hP (by omega), one_mul, ← hA, ← jacobiSym.mod_left]

end Btc.C01.NT
