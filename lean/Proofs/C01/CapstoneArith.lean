import Mathlib.Data.ZMod.Basic
import Mathlib.Algebra.Field.ZMod
import Mathlib.FieldTheory.Finite.Basic
import Mathlib.Tactic.Ring
import Mathlib.Tactic.LinearCombination
import Model.Common.EC
/-
C01 capstone, arithmetic for `lift_x`: `modPow` is `^` in `ZMod p`; `modSqrt34` (the `p ≡ 3 (mod 4)` arm of
`mod_sqrt_var`, which covers secp256k1) returns a square root iff there is one; `yEven` (`y_even_var`).
-/
namespace Btc.C01
open Btc.EC

section ModPow
variable {p : ℕ}

theorem modPowAux_cast : ∀ (fuel : ℕ) (b : ℤ) (e : ℕ) (acc : ℤ), e < fuel →
    ((modPowAux fuel b e (p : ℤ) acc : ℤ) : ZMod p) = (acc : ZMod p) * (b : ZMod p) ^ e
  | 0, _, e, _, h => by omega
  | fuel + 1, b, e, acc, h => by
    rw [modPowAux]
    by_cases he : e = 0
    · simp [he]
    · simp only [he, if_false]
      rw [modPowAux_cast fuel _ (e / 2) _ (by omega)]
      have hb : (((b * b % (p : ℤ) : ℤ)) : ZMod p) = (b : ZMod p) * (b : ZMod p) := by
        rw [ZMod.intCast_mod, Int.cast_mul]
      rw [hb, ← pow_two, ← pow_mul]
      by_cases hodd : e % 2 = 1
      · simp only [hodd, if_true]
        rw [ZMod.intCast_mod, Int.cast_mul, mul_assoc, ← pow_succ']
        congr 2; omega
      · simp only [hodd, if_false]
        congr 2; omega

theorem modPowAux_range (hp : 0 < p) : ∀ (fuel : ℕ) (b : ℤ) (e : ℕ) (acc : ℤ),
    (0 ≤ acc ∧ acc < p) → 0 ≤ modPowAux fuel b e (p : ℤ) acc ∧ modPowAux fuel b e (p : ℤ) acc < p
  | 0, _, _, _, h => by simpa [modPowAux] using h
  | fuel + 1, b, e, acc, h => by
    rw [modPowAux]
    by_cases he : e = 0
    · simpa [he] using h
    · simp only [he, if_false]
      apply modPowAux_range hp fuel
      have hpz : (p : ℤ) ≠ 0 := by omega
      have hpp : (0 : ℤ) < p := by omega
      split
      · exact ⟨Int.emod_nonneg _ hpz, Int.emod_lt_of_pos _ hpp⟩
      · exact h

/-- `pow(b, e, p)` is `b ^ e` in `ZMod p` -/
theorem modPow_cast (b : ℤ) (e : ℕ) : ((modPow b e (p : ℤ) : ℤ) : ZMod p) = (b : ZMod p) ^ e := by
  rw [modPow, modPowAux_cast _ _ _ _ (by omega), ZMod.intCast_mod, ZMod.intCast_mod]
  simp

theorem modPow_range (hp : 0 < p) (b : ℤ) (e : ℕ) : 0 ≤ modPow b e (p : ℤ) ∧ modPow b e (p : ℤ) < p := by
  rw [modPow]
  apply modPowAux_range hp
  have hpz : (p : ℤ) ≠ 0 := by omega
  have hpp : (0 : ℤ) < p := by omega
  exact ⟨Int.emod_nonneg _ hpz, Int.emod_lt_of_pos _ hpp⟩

end ModPow

section Sqrt
variable {p : ℕ} [hpf : Fact p.Prime]

/-- reduced integers with equal images in `ZMod p` are equal -/
theorem eq_of_cast_eq {x y : ℤ} (hx : 0 ≤ x ∧ x < p) (hy : 0 ≤ y ∧ y < p)
    (h : (x : ZMod p) = (y : ZMod p)) : x = y := by
  have := (ZMod.intCast_eq_intCast_iff x y p).mp h
  unfold Int.ModEq at this
  rwa [Int.emod_eq_of_lt hx.1 hx.2, Int.emod_eq_of_lt hy.1 hy.2] at this

theorem emod_eq_iff_cast (x a : ℤ) : x % (p : ℤ) = a % (p : ℤ) ↔ (x : ZMod p) = (a : ZMod p) :=
  (ZMod.intCast_eq_intCast_iff x a p).symm

/-- `mod_sqrt_var` for `p ≡ 3 (mod 4)`: soundness -/
theorem modSqrt34_some (h34 : p % 4 = 3) (a r : ℤ) (h : modSqrt34 a (p : ℤ) = some r) :
    (0 ≤ r ∧ r < p) ∧ (r : ZMod p) ^ 2 = (a : ZMod p) := by
  have hp4 : (p : ℤ) % 4 = 3 := by omega
  simp only [modSqrt34, hp4, if_true] at h
  split at h
  · next hsq =>
    simp only [Option.some.injEq] at h
    subst h
    refine ⟨modPow_range hpf.out.pos _ _, ?_⟩
    have := (emod_eq_iff_cast (p := p) _ a).mp hsq
    rw [← this, Int.cast_mul, pow_two]
  · simp at h

/-- `mod_sqrt_var` for `p ≡ 3 (mod 4)`: completeness — a refusal means `a` is not a square -/
theorem modSqrt34_none (h34 : p % 4 = 3) (a : ℤ) (h : modSqrt34 a (p : ℤ) = none) (y : ZMod p) :
    y ^ 2 ≠ (a : ZMod p) := by
  intro hy
  have hp4 : (p : ℤ) % 4 = 3 := by omega
  simp only [modSqrt34, hp4, if_true] at h
  split at h
  · simp at h
  · next hsq =>
    apply hsq
    rw [emod_eq_iff_cast, Int.cast_mul, modPow_cast, ZMod.intCast_mod, ← hy, ← pow_two, ← pow_mul, ← pow_mul,
      show 2 * (((p : ℤ).toNat / 4 + 1) * 2) = p + 1 by simp only [Int.toNat_natCast]; omega,
      pow_succ, ZMod.pow_card]
    exact (pow_two y).symm

end Sqrt

section YEven
variable {p : ℕ} [hpf : Fact p.Prime] {c : CurveGroup} (hp : c.p = (p : ℤ))
include hp

theorem y2_cast (x : ℤ) : ((y2 c x : ℤ) : ZMod p) = (x : ZMod p) ^ 3 + (c.a : ZMod p) * x + c.b := by
  rw [y2, hp, ZMod.intCast_mod]
  push_cast
  ring

/-- `y_even_var(x)` (for `p ≡ 3 mod 4`): a returned `y` is reduced, even, and `(x, y)` satisfies the curve
equation -/
theorem yEven_some (h34 : p % 4 = 3) (x y : ℤ) (h : yEven c x = some y) :
    (0 ≤ x ∧ x < p) ∧ (0 ≤ y ∧ y < p) ∧ y % 2 = 0 ∧
      (y : ZMod p) ^ 2 = (x : ZMod p) ^ 3 + (c.a : ZMod p) * x + c.b := by
  unfold yEven at h
  split at h
  · simp at h
  · next hx =>
    rw [hp] at hx h
    have hx' : 0 ≤ x ∧ x < p := by
      by_contra hc; exact hx hc
    obtain ⟨r, hr, hy⟩ := Option.map_eq_some_iff.mp h
    obtain ⟨hrr, hsq⟩ := modSqrt34_some h34 _ r hr
    rw [y2_cast hp] at hsq
    have hpodd : (p : ℤ) % 2 = 1 := by omega
    by_cases hodd : r % 2 = 1
    · rw [if_pos hodd] at hy
      subst hy
      refine ⟨hx', ⟨by omega, by omega⟩, by omega, ?_⟩
      rw [← hsq]; push_cast; simp
    · rw [if_neg hodd] at hy
      subst hy
      exact ⟨hx', hrr, by omega, hsq⟩

/-- `y_even_var(x)` refuses a reduced `x` only when `x³ + a x + b` is not a square -/
theorem yEven_none (h34 : p % 4 = 3) (x : ℤ) (hx : 0 ≤ x ∧ x < p) (h : yEven c x = none) (y : ZMod p) :
    y ^ 2 ≠ (x : ZMod p) ^ 3 + (c.a : ZMod p) * x + c.b := by
  unfold yEven at h
  rw [hp] at h
  rw [if_neg (by simpa using hx)] at h
  have := Option.map_eq_none_iff.mp h
  have hn := modSqrt34_none h34 _ this y
  rwa [y2_cast hp] at hn

end YEven
end Btc.C01
