import Proofs.C01.Ladders
import Proofs.C01.Arith
/-
C01 — double multiplications (Shamir–Strauss, regular double window) and the GLV endomorphism multiplications.
-/
namespace Btc.C01
variable {α β G : Type} [AddCommGroup G] {o : JacOps α β} (L : JacRel o G)

/-! ## Shamir–Strauss: `_double_mult_var` -/

theorem padLeft_length (n : ℕ) (l : List ℕ) : (padLeft n l).length = max n l.length := by
  unfold padLeft; simp; omega

theorem evalMSB_replicate_zero (b n k : ℕ) (l : List ℕ) (hk : k = 0) :
    evalMSB b k (List.replicate n 0 ++ l) = evalMSB b 0 l := by
  subst hk
  induction n with
  | zero => simp
  | succ n ih => simpa [List.replicate_succ, evalMSB] using ih

theorem padLeft_eval (b n : ℕ) (l : List ℕ) : evalMSB b 0 (padLeft n l) = evalMSB b 0 l :=
  evalMSB_replicate_zero b _ 0 l rfl

theorem padLeft_lt (n : ℕ) (l : List ℕ) (hl : ∀ d ∈ l, d < 2) : ∀ d ∈ padLeft n l, d < 2 := by
  intro d hd
  unfold padLeft at hd
  rcases List.mem_append.mp hd with h | h
  · have := List.eq_of_mem_replicate h; omega
  · exact hl d h

theorem shamir_loop {H Q : α} {h q : G} (hH : L.R H h) (hQ : L.R Q q) (lu lv : List ℕ)
    (hlen : lu.length = lv.length) (hu : ∀ d ∈ lu, d < 2) (hv : ∀ d ∈ lv, d < 2) (R : α) (ku kv : ℕ)
    (hR : L.R R ((ku : ℤ) • h + (kv : ℤ) • q)) :
    L.R ((List.zipWith (fun j k => j + 2 * k) lu lv).foldl
      (fun R i => o.add (o.dbl R) ([o.zero, H, Q, o.add H Q].getD i o.zero)) R)
      ((evalMSB 2 ku lu : ℤ) • h + (evalMSB 2 kv lv : ℤ) • q) := by
  induction lu generalizing lv R ku kv with
  | nil =>
    have : lv = [] := List.eq_nil_of_length_eq_zero (by simpa using hlen.symm)
    subst this
    simpa [evalMSB] using hR
  | cons j lu ih =>
    cases lv with
    | nil => simp at hlen
    | cons k lv =>
      simp only [List.zipWith_cons_cons, List.foldl_cons, evalMSB] at ih ⊢
      have hj := hu j List.mem_cons_self
      have hk := hv k List.mem_cons_self
      refine ih lv (by simpa using hlen) (fun x hx => hu x (List.mem_cons_of_mem _ hx))
        (fun x hx => hv x (List.mem_cons_of_mem _ hx)) _ (ku * 2 + j) (kv * 2 + k) ?_
      have hT : L.R ([o.zero, H, Q, o.add H Q].getD (j + 2 * k) o.zero) ((j : ℤ) • h + (k : ℤ) • q) := by
        have hj' : j = 0 ∨ j = 1 := by omega
        have hk' : k = 0 ∨ k = 1 := by omega
        rcases hj' with rfl | rfl <;> rcases hk' with rfl | rfl
        · simpa using L.zero
        · simpa using hQ
        · simpa using hH
        · simpa using L.add hH hQ
      exact L.cast (L.add (L.dbl hR) hT) (by push_cast; module)

/-- T3: `_double_mult_var(u, H, v, Q, ec)` (Shamir–Strauss) returns `u • H + v • Q` -/
theorem doubleMultVar_spec (u v : ℕ) {H Q : α} {h q : G} (hH : L.R H h) (hQ : L.R Q q) :
    L.R (doubleMultVar o u H v Q) ((u : ℤ) • h + (v : ℤ) • q) := by
  unfold doubleMultVar
  simp only []
  set vi := padLeft (toBase 2 u).length (toBase 2 v) with hvi
  set ui := padLeft vi.length (toBase 2 u) with hui
  have hlen : ui.length = vi.length := by
    rw [hui, padLeft_length, hvi, padLeft_length]; omega
  have hu : ∀ d ∈ ui, d < 2 := padLeft_lt _ _ (toBase_lt 2 u (by omega))
  have hv : ∀ d ∈ vi, d < 2 := padLeft_lt _ _ (toBase_lt 2 v (by omega))
  have heu : evalMSB 2 0 ui = u := by rw [hui, padLeft_eval, toBase_eval 2 u (by omega)]
  have hev : evalMSB 2 0 vi = v := by rw [hvi, padLeft_eval, toBase_eval 2 v (by omega)]
  have hne : ui ≠ [] := by
    intro h0
    have h1 : max vi.length (toBase 2 u).length = 0 := by rw [← padLeft_length, ← hui, h0]; rfl
    have h2 := toBase_ne_nil 2 u (by omega)
    have h3 : (toBase 2 u).length ≠ 0 := fun hz => h2 (List.eq_nil_of_length_eq_zero hz)
    omega
  cases hcu : ui with
  | nil => exact absurd hcu hne
  | cons j lu =>
    cases hcv : vi with
    | nil => rw [hcu, hcv] at hlen; simp at hlen
    | cons k lv =>
      rw [hcu] at hu heu hlen; rw [hcv] at hv hev hlen
      simp only [List.zipWith_cons_cons]
      rw [evalMSB_cons_zero] at heu hev
      rw [← heu, ← hev]
      have hj := hu j List.mem_cons_self
      have hk := hv k List.mem_cons_self
      refine shamir_loop L hH hQ lu lv (by simpa using hlen) (fun x hx => hu x (List.mem_cons_of_mem _ hx))
        (fun x hx => hv x (List.mem_cons_of_mem _ hx)) _ j k ?_
      have hj' : j = 0 ∨ j = 1 := by omega
      have hk' : k = 0 ∨ k = 1 := by omega
      rcases hj' with rfl | rfl <;> rcases hk' with rfl | rfl
      · simpa using L.zero
      · simpa using hQ
      · simpa using hH
      · simpa using L.add hH hQ


/-! ## the regular double window: `_double_mult_regular_window` -/

theorem regLoop2_spec (w : ℕ) (hw : 1 ≤ w) {H Q : α} {h q : G} (hH : L.R H h) (hQ : L.R Q q)
    (us vs : List ℤ) (hlen : us.length = vs.length) (hne : us ≠ [])
    (hgu : ∀ d ∈ us, GoodDigit w d) (hgv : ∀ d ∈ vs, GoodDigit w d) :
    L.R (regLoop2 o w (signedOddMultiplesAff o H w) (signedOddMultiplesAff o Q w) (us.zip vs))
      (evalLE w us • h + evalLE w vs • q) := by
  induction us generalizing vs with
  | nil => exact absurd rfl hne
  | cons du us ih =>
    cases vs with
    | nil => simp at hlen
    | cons dv vs =>
      have hdu := sodPick_spec L w hw hH du (hgu du List.mem_cons_self)
      have hdv := sodPick_spec L w hw hQ dv (hgv dv List.mem_cons_self)
      cases us with
      | nil =>
        have : vs = [] := List.eq_nil_of_length_eq_zero (by simpa using hlen.symm)
        subst this
        simp only [List.zip_cons_cons, List.zip_nil_left, regLoop2, evalLE]
        exact L.cast (L.addAff (L.jacFromAff hdu) hdv) (by module)
      | cons du' us' =>
        cases vs with
        | nil => simp at hlen
        | cons dv' vs' =>
          have := ih (dv' :: vs') (by simpa using hlen) (by simp)
            (fun x hx => hgu x (List.mem_cons_of_mem _ hx)) (fun x hx => hgv x (List.mem_cons_of_mem _ hx))
          simp only [List.zip_cons_cons, regLoop2] at this ⊢
          refine L.cast (L.addAff (L.addAff (dblN_spec L w this) hdu) hdv) ?_
          simp only [evalLE]; module

/-- T3: `_double_mult_regular_window(u, H, v, Q, ec, w, scalar_len)` returns `u • H + v • Q` whenever it answers -/
theorem doubleMultRegularWindow_spec (scalarLen u v w : ℕ) {H Q r : α} {h q : G} (hH : L.R H h) (hQ : L.R Q q)
    (hr : doubleMultRegularWindow o scalarLen u H v Q w = some r) :
    L.R r ((u : ℤ) • h + (v : ℤ) • q) := by
  unfold doubleMultRegularWindow at hr
  split at hr; · simp at hr
  next hw =>
  simp only [] at hr
  split at hr
  · next us vs hus hvs =>
    obtain ⟨heu, hgu, hneu⟩ := signedOddDigits_spec hus
    obtain ⟨hev, hgv, _⟩ := signedOddDigits_spec hvs
    obtain ⟨_, _, _, _, _, hdu⟩ := signedOddDigits_some hus
    obtain ⟨_, _, _, _, _, hdv⟩ := signedOddDigits_some hvs
    have hlen : us.length = vs.length := by rw [hdu, hdv, sodLoop_length, sodLoop_length]
    have hR := regLoop2_spec L w (by omega) hH hQ us vs hlen hneu hgu hgv
    rw [heu, hev, orOne_cast, orOne_cast] at hR
    simp only [Option.some.injEq] at hr
    subst hr
    have hcu : L.R (if u % 2 = 0 then o.neg H else o.zero) ((if u % 2 = 0 then (-1 : ℤ) else 0) • h) := by
      split
      · exact L.cast (L.neg hH) (by module)
      · exact L.cast L.zero (by module)
    have hcv : L.R (if v % 2 = 0 then o.neg Q else o.zero) ((if v % 2 = 0 then (-1 : ℤ) else 0) • q) := by
      split
      · exact L.cast (L.neg hQ) (by module)
      · exact L.cast L.zero (by module)
    refine L.cast (L.add (L.add hR hcu) hcv) ?_
    by_cases h1 : u % 2 = 0 <;> by_cases h2 : v % 2 = 0 <;> simp only [h1, h2, if_true, if_false] <;> module
  · simp at hr

/-! ## GLV: the endomorphism multiplications of secp256k1 -/

/-- The named hypothesis of the GLV theorems: on the group the relation speaks of, the map
`(X, Y, Z) ↦ (β·X, Y, Z)` is multiplication by `lam`, and every element has order dividing `N`.
(For secp256k1 with the generated `β`, `λ`, `N`: an efficiently computable endomorphism of a prime-order group.) -/
structure EndoLaw (lam N : ℤ) : Prop where
  endo : ∀ {x : α} {g : G}, L.R x g → L.R (o.endo x) (lam • g)
  order : ∀ {x : α} {g : G}, L.R x g → N • g = 0

theorem zsmul_of_congr {g : G} (N : ℤ) (hN : N • g = 0) (a b : ℤ) (hab : (a - b) % N = 0) : a • g = b • g := by
  obtain ⟨k, hk⟩ := Int.dvd_of_emod_eq_zero hab
  have : a = b + k * N := by rw [mul_comm]; omega
  rw [this, add_zsmul, mul_zsmul, hN, zsmul_zero, add_zero]

/-- `_endomorphism_split_secp256k1(m, Q, ec)`: `m₁•P + m₂•K = m•Q`, the signs moved onto the points -/
theorem endomorphismSplit_spec (E : EndoLaw L Gen.Curves.glv_LAM Gen.Curves.glv_N) (m : ℕ) {Q : α} {g : G}
    (hQ : L.R Q g) :
    ∃ gp gk : G, L.R (endomorphismSplit o m Q).2.1 gp ∧ L.R (endomorphismSplit o m Q).2.2.2 gk ∧
      ((endomorphismSplit o m Q).1 : ℤ) • gp + ((endomorphismSplit o m Q).2.2.1 : ℤ) • gk = (m : ℤ) • g := by
  unfold endomorphismSplit
  have hcong := multiplierDecomposer_congr (m : ℤ)
  generalize multiplierDecomposer (m : ℤ) = mm at hcong
  obtain ⟨m1, m2⟩ := mm
  simp only [] at hcong ⊢
  have hK := E.endo hQ
  have htot : (m1 + m2 * Gen.Curves.glv_LAM) • g = (m : ℤ) • g :=
    zsmul_of_congr _ (E.order hQ) _ _ hcong
  refine ⟨if m1 < 0 then -g else g, if m2 < 0 then -(Gen.Curves.glv_LAM • g) else Gen.Curves.glv_LAM • g, ?_, ?_, ?_⟩
  · split
    · exact L.neg hQ
    · exact hQ
  · split
    · exact L.neg hK
    · exact hK
  · rw [← htot]
    by_cases h1 : m1 < 0 <;> by_cases h2 : m2 < 0 <;> simp only [h1, h2, if_true, if_false]
    · have e1 : (m1.natAbs : ℤ) = -m1 := by omega
      have e2 : (m2.natAbs : ℤ) = -m2 := by omega
      rw [e1, e2]; module
    · have e1 : (m1.natAbs : ℤ) = -m1 := by omega
      have e2 : (m2.natAbs : ℤ) = m2 := by omega
      rw [e1, e2]; module
    · have e1 : (m1.natAbs : ℤ) = m1 := by omega
      have e2 : (m2.natAbs : ℤ) = -m2 := by omega
      rw [e1, e2]; module
    · have e1 : (m1.natAbs : ℤ) = m1 := by omega
      have e2 : (m2.natAbs : ℤ) = m2 := by omega
      rw [e1, e2]; module

/-- T7 (point level): `_mult_endomorphism_secp256k1(m, Q, ec, w)` returns `m • Q`, given the endomorphism law -/
theorem multEndomorphism_spec (E : EndoLaw L Gen.Curves.glv_LAM Gen.Curves.glv_N) (halfLen m w : ℕ)
    {Q r : α} {g : G} (hQ : L.R Q g) (h : multEndomorphism o halfLen m Q w = some r) : L.R r ((m : ℤ) • g) := by
  unfold multEndomorphism at h
  obtain ⟨gp, gk, hP, hK, hsum⟩ := endomorphismSplit_spec L E m hQ
  generalize endomorphismSplit o m Q = sp at h hP hK hsum
  obtain ⟨m1, P, m2, K⟩ := sp
  simp only [] at h hP hK hsum
  rw [← hsum]
  exact doubleMultRegularWindow_spec L halfLen m1 m2 w hP hK h

theorem tsum_two (hf : L.Functional) {n1 n2 : ℕ} {P K : α} {gp gk : G} (hP : L.R P gp) (hK : L.R K gk) :
    tsum L ([n1, n2].zip [P, K]) = (n1 : ℤ) • gp + (n2 : ℤ) • gk := by
  simp [tsum, L.val_eq hf hP, L.val_eq hf hK]

/-- `_mult_endomorphism_secp256k1_var(m, Q, ec, w)` (interleaved wNAFs over the two halves) -/
theorem multEndomorphismVar_spec (hf : L.Functional) (E : EndoLaw L Gen.Curves.glv_LAM Gen.Curves.glv_N)
    (isFixed : α → Bool) (fixedW m w : ℕ) (hfw : 1 ≤ fixedW) {Q r : α} {g : G} (hQ : L.R Q g)
    (h : multEndomorphismVar o isFixed fixedW m Q w = some r) : L.R r ((m : ℤ) • g) := by
  unfold multEndomorphismVar at h
  obtain ⟨gp, gk, hP, hK, hsum⟩ := endomorphismSplit_spec L E m hQ
  generalize endomorphismSplit o m Q = sp at h hP hK hsum
  obtain ⟨m1, P, m2, K⟩ := sp
  simp only [] at h hP hK hsum
  have := multiMultWNAF_spec L isFixed fixedW w hfw [m1, m2] [P, K]
    (by intro x hx; simp at hx; rcases hx with rfl | rfl; exacts [⟨_, hP⟩, ⟨_, hK⟩]) h
  rw [tsum_two L hf hP hK, hsum] at this
  exact this

/-- `_double_mult_endomorphism_secp256k1_var(u, H, v, Q, ec, w, fixed)`: four half-length terms interleaved -/
theorem doubleMultEndomorphismVar_spec (hf : L.Functional) (E : EndoLaw L Gen.Curves.glv_LAM Gen.Curves.glv_N)
    (isFixed : α → Bool) (eqv : α → α → Bool) (fixedW u v w : ℕ) (hfw : 1 ≤ fixedW) {H Q r : α} {h q : G}
    (hH : L.R H h) (hQ : L.R Q q)
    (hr : doubleMultEndomorphismVar o isFixed eqv fixedW u H v Q w = some r) :
    L.R r ((u : ℤ) • h + (v : ℤ) • q) := by
  unfold doubleMultEndomorphismVar at hr
  obtain ⟨g1, g2, hU1, hU2, hsu⟩ := endomorphismSplit_spec L E u hH
  obtain ⟨g3, g4, hV1, hV2, hsv⟩ := endomorphismSplit_spec L E v hQ
  generalize endomorphismSplit o u H = su at hr hU1 hU2 hsu
  generalize endomorphismSplit o v Q = sv at hr hV1 hV2 hsv
  obtain ⟨u1, U1, u2, U2⟩ := su
  obtain ⟨v1, V1, v2, V2⟩ := sv
  simp only [] at hr hU1 hU2 hsu hV1 hV2 hsv
  have := multiMultWNAF_spec L _ fixedW w hfw [u1, u2, v1, v2] [U1, U2, V1, V2]
    (by intro x hx; simp at hx; rcases hx with rfl | rfl | rfl | rfl; exacts [⟨_, hU1⟩, ⟨_, hU2⟩, ⟨_, hV1⟩, ⟨_, hV2⟩]) hr
  refine L.cast this ?_
  simp only [tsum, List.zip_cons_cons, List.zip_nil_right, List.map_cons, List.map_nil, List.sum_cons, List.sum_nil,
    L.val_eq hf hU1, L.val_eq hf hU2, L.val_eq hf hV1, L.val_eq hf hV2]
  rw [← hsu, ← hsv]; module

end Btc.C01
