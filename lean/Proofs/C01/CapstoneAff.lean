import Proofs.C01.CapstoneJac
import Proofs.C01.CapstoneArith
import Mathlib.Tactic.FieldSimp
import Mathlib.Tactic.LinearCombination
/-
C01 capstone, part 2a: btclib's AFFINE operations (`add_aff_var`, `double_aff_var`, `negate`, `mult`, `==`)
on reduced valid pairs refine Mathlib's affine group law.  `RedA`: coordinates in `0..p-1` (only `y` for the
spelling `(x, 0)` of infinity, whose `x` is arbitrary: `INF = (5, 0)` also on `p = 5`).
-/
open WeierstrassCurve

namespace Btc.C01
open Btc.EC

section Curve
variable {p : ℕ} [Fact p.Prime] {c : CurveGroup}

theorem curveOf_a₁ : (curveOf p c).toAffine.a₁ = 0 := rfl
theorem curveOf_a₂ : (curveOf p c).toAffine.a₂ = 0 := rfl
theorem curveOf_a₃ : (curveOf p c).toAffine.a₃ = 0 := rfl
theorem curveOf_a₄ : (curveOf p c).toAffine.a₄ = (c.a : ZMod p) := rfl
theorem curveOf_a₆ : (curveOf p c).toAffine.a₆ = (c.b : ZMod p) := rfl

theorem aff_equation_iff (x y : ZMod p) :
    (curveOf p c).toAffine.Equation x y ↔ y ^ 2 = x ^ 3 + (c.a : ZMod p) * x + (c.b : ZMod p) := by
  rw [Affine.equation_iff]
  simp only [curveOf_a₁, curveOf_a₂, curveOf_a₃, curveOf_a₄, curveOf_a₆]
  constructor <;> intro h <;> linear_combination h

theorem aff_negY (x y : ZMod p) : (curveOf p c).toAffine.negY x y = -y := by
  simp only [Affine.negY, curveOf_a₁, curveOf_a₃]; ring

theorem two_ne_zero_zmod (hp2 : p ≠ 2) : (2 : ZMod p) ≠ 0 := by
  intro h
  have h' : ((2 : ℕ) : ZMod p) = 0 := by exact_mod_cast h
  rw [ZMod.natCast_eq_zero_iff] at h'
  have h1 := Nat.le_of_dvd (by norm_num) h'
  have h2 := (Fact.out : p.Prime).two_le
  omega

theorem ne_neg_self (hp2 : p ≠ 2) {y : ZMod p} (hy : y ≠ 0) : y ≠ -y := by
  intro h
  have : 2 * y = 0 := by linear_combination h
  rcases mul_eq_zero.mp this with h | h
  · exact two_ne_zero_zmod hp2 h
  · exact hy h

/-- away from `y = 0` the curve equation alone gives nonsingularity (odd characteristic) -/
theorem aff_nonsingular_of_y_ne (hp2 : p ≠ 2) {x y : ZMod p}
    (he : (curveOf p c).toAffine.Equation x y) (hy : y ≠ 0) :
    (curveOf p c).toAffine.Nonsingular x y := by
  rw [Affine.nonsingular_iff]
  refine ⟨he, Or.inr ?_⟩
  simp only [curveOf_a₁, curveOf_a₃]
  intro h
  exact ne_neg_self hp2 hy (by linear_combination h)

/-- a point with `y = 0` has order 2 -/
theorem some_add_self_y_zero {x : ZMod p} (hns : (curveOf p c).toAffine.Nonsingular x 0) :
    (Affine.Point.some x 0 hns) + Affine.Point.some x 0 hns = 0 := by
  apply Affine.Point.add_self_of_Y_eq
  rw [aff_negY]; simp

theorem y_ne_zero_of_not_two_torsion {x y : ZMod p} (hns : (curveOf p c).toAffine.Nonsingular x y)
    (h2 : Affine.Point.some x y hns + Affine.Point.some x y hns = 0 → Affine.Point.some x y hns = 0) :
    y ≠ 0 := by
  rintro rfl
  exact Affine.Point.some_ne_zero hns (h2 (some_add_self_y_zero hns))

end Curve

section Red
variable {p : ℕ} [Fact p.Prime] {c : CurveGroup}

/-- reduced affine pair: `0 ≤ y < p`, and `0 ≤ x < p` unless the pair spells infinity -/
def RedA (c : CurveGroup) (A : Point) : Prop :=
  (0 ≤ A.2 ∧ A.2 < c.p) ∧ (A.2 ≠ 0 → 0 ≤ A.1 ∧ A.1 < c.p)

theorem absA_eq_zero_iff {R : Point} (hR : AValid p c R) : absA p c R = 0 ↔ R.2 = 0 := by
  constructor
  · intro h0
    by_contra h
    obtain ⟨hns, e⟩ := absA_eq_some h hR
    rw [e] at h0
    exact Affine.Point.some_ne_zero hns h0
  · exact absA_of_y_eq_zero

variable (hp : c.p = (p : ℤ))
include hp

theorem p_pos : 0 < c.p := by rw [hp]; exact_mod_cast (Fact.out : p.Prime).pos

theorem eq_of_cast_eq_c {x y : ℤ} (hx : 0 ≤ x ∧ x < c.p) (hy : 0 ≤ y ∧ y < c.p)
    (h : (x : ZMod p) = (y : ZMod p)) : x = y := by
  rw [hp] at hx hy
  exact eq_of_cast_eq hx hy h

theorem cast_ne_zero_of_red {y : ℤ} (hy : 0 ≤ y ∧ y < c.p) (h0 : y ≠ 0) : (y : ZMod p) ≠ 0 := by
  intro h
  apply h0
  have := (emod_eq_zero_iff hp y).mpr h
  rwa [Int.emod_eq_of_lt hy.1 hy.2] at this

theorem RedA_INF : RedA c INF := ⟨⟨le_refl _, p_pos hp⟩, fun h => absurd rfl h⟩

omit hp in
/-- a reduced pair whose image is a nonsingular point that is not of order 2 is a valid pair denoting it -/
theorem finish_some (A : Point) (hA1 : 0 ≤ A.1 ∧ A.1 < c.p) (hA2 : 0 ≤ A.2 ∧ A.2 < c.p) (g : Pt p c)
    (hns : (curveOf p c).toAffine.Nonsingular (A.1 : ZMod p) (A.2 : ZMod p))
    (hg : g = Affine.Point.some _ _ hns) (h2 : g + g = 0 → g = 0) :
    AValid p c A ∧ RedA c A ∧ absA p c A = g := by
  have hy : (A.2 : ZMod p) ≠ 0 := y_ne_zero_of_not_two_torsion hns (by rw [← hg]; exact h2)
  have hA2ne : A.2 ≠ 0 := by
    intro h0; apply hy; rw [h0]; simp
  have e : castJ p (A.1, A.2, 1) = ![(A.1 : ZMod p), (A.2 : ZMod p), 1] := by simp [castJ]
  have hAv : AValid p c A := fun _ => by
    rw [e]; exact (Jacobian.nonsingular_some ..).mpr hns
  refine ⟨hAv, ⟨hA2, fun _ => hA1⟩, ?_⟩
  obtain ⟨hns', e'⟩ := absA_eq_some hA2ne hAv
  rw [e', hg]

/-- on reduced valid pairs the abstraction is injective (away from infinity, whose `x` is free) -/
theorem absA_inj (P Q : Point) (hP : AValid p c P) (hQ : AValid p c Q) (rP : RedA c P) (rQ : RedA c Q)
    (hP2 : P.2 ≠ 0) (h : absA p c P = absA p c Q) : P = Q := by
  have hQ2 : Q.2 ≠ 0 := by
    intro h0
    rw [absA_of_y_eq_zero h0] at h
    exact hP2 ((absA_eq_zero_iff hP).mp h)
  obtain ⟨h1, e1⟩ := absA_eq_some hP2 hP
  obtain ⟨h2, e2⟩ := absA_eq_some hQ2 hQ
  rw [e1, e2, Affine.Point.some.injEq] at h
  exact Prod.ext (eq_of_cast_eq_c hp (rP.2 hP2) (rQ.2 hQ2) h.1) (eq_of_cast_eq_c hp rP.1 rQ.1 h.2)

/-- the x-coordinate identifies a finite point up to sign -/
theorem x_eq_iff_aff (P Q : Point) (hP : AValid p c P) (hQ : AValid p c Q) (rP : RedA c P)
    (rQ : RedA c Q) (hP2 : P.2 ≠ 0) (hQ2 : Q.2 ≠ 0) :
    P.1 = Q.1 ↔ absA p c P = absA p c Q ∨ absA p c P = -absA p c Q := by
  obtain ⟨h1, e1⟩ := absA_eq_some hP2 hP
  obtain ⟨h2, e2⟩ := absA_eq_some hQ2 hQ
  rw [e1, e2, ← Affine.Point.X_eq_iff]
  constructor
  · intro h; rw [h]
  · intro h; exact eq_of_cast_eq_c hp (rP.2 hP2) (rQ.2 hQ2) h

theorem negate_red (P : Point) (rP : RedA c P) : RedA c (negate c P) := by
  have hpp := p_pos hp
  refine ⟨⟨Int.emod_nonneg _ (by omega), Int.emod_lt_of_pos _ hpp⟩, fun h => rP.2 ?_⟩
  intro h0
  exact h (negate_y_zero P h0)

/-- for `0 < y < p` the negation is `p - y`, of the other parity (`p` odd) -/
theorem negate_parity (hp2 : p ≠ 2) (P : Point) (rP : RedA c P) (hP2 : P.2 ≠ 0) :
    (negate c P).2 % 2 = 0 ↔ ¬ (P.2 % 2 = 0) := by
  have hodd : c.p % 2 = 1 := by
    rw [hp]
    rcases (Fact.out : p.Prime).eq_two_or_odd with h | h
    · exact absurd h hp2
    · omega
  have h1 := rP.1
  have : (negate c P).2 = c.p - P.2 := by
    show (c.p - P.2) % c.p = c.p - P.2
    exact Int.emod_eq_of_lt (by omega) (by omega)
  rw [this]; omega

end Red

/-! ## `double_aff_var`, `add_aff_var` -/
section Add
variable {p : ℕ} [Fact p.Prime] {c : CurveGroup}

/-- the pair `double_aff_var` computes from the inverse of `2y` -/
def dblAffPt (c : CurveGroup) (Q : Point) (inv : ℤ) : Point :=
  let p := c.p
  let lam := (3 * Q.1 * Q.1 + c.a) * inv % p
  let x := (lam * lam - Q.1 - Q.1) % p
  let y := (lam * (Q.1 - x) - Q.2) % p
  (x, y)

/-- the pair `add_aff_var` computes from the inverse of `x₂ - x₁` -/
def chordAffPt (c : CurveGroup) (Q R : Point) (inv : ℤ) : Point :=
  let p := c.p
  let lam := (R.2 - Q.2) * inv % p
  let x := (lam * lam - Q.1 - R.1) % p
  let y := (lam * (Q.1 - x) - Q.2) % p
  (x, y)

theorem doubleAff_eq (Q : Point) (h : Q.2 ≠ 0) :
    doubleAff c Q = (modInv (2 * Q.2) c.p).map (dblAffPt c Q) := by
  simp only [doubleAff, h, if_false]; rfl

theorem addAff_eq (Q R : Point) (hQ : Q.2 ≠ 0) (hR : R.2 ≠ 0) (hx : R.1 ≠ Q.1) :
    addAff c Q R = (modInv (R.1 - Q.1) c.p).map (chordAffPt c Q R) := by
  simp only [addAff, hQ, hR, hx, if_false]; rfl

variable (hp : c.p = (p : ℤ))
include hp

theorem dblAffPt_range (Q : Point) (inv : ℤ) :
    (0 ≤ (dblAffPt c Q inv).1 ∧ (dblAffPt c Q inv).1 < c.p) ∧
      (0 ≤ (dblAffPt c Q inv).2 ∧ (dblAffPt c Q inv).2 < c.p) := by
  have hpp := p_pos hp
  exact ⟨⟨Int.emod_nonneg _ (by omega), Int.emod_lt_of_pos _ hpp⟩,
    ⟨Int.emod_nonneg _ (by omega), Int.emod_lt_of_pos _ hpp⟩⟩

theorem chordAffPt_range (Q R : Point) (inv : ℤ) :
    (0 ≤ (chordAffPt c Q R inv).1 ∧ (chordAffPt c Q R inv).1 < c.p) ∧
      (0 ≤ (chordAffPt c Q R inv).2 ∧ (chordAffPt c Q R inv).2 < c.p) := by
  have hpp := p_pos hp
  exact ⟨⟨Int.emod_nonneg _ (by omega), Int.emod_lt_of_pos _ hpp⟩,
    ⟨Int.emod_nonneg _ (by omega), Int.emod_lt_of_pos _ hpp⟩⟩

theorem dblAffPt_cast (Q : Point) (inv : ℤ) (x y i : ZMod p) (hx : (Q.1 : ZMod p) = x)
    (hy : (Q.2 : ZMod p) = y) (hi : (inv : ZMod p) = i) :
    ((dblAffPt c Q inv).1 : ZMod p) = ((3 * x ^ 2 + c.a) * i) ^ 2 - x - x ∧
    ((dblAffPt c Q inv).2 : ZMod p) =
      ((3 * x ^ 2 + c.a) * i) * (x - (((3 * x ^ 2 + c.a) * i) ^ 2 - x - x)) - y := by
  subst hx hy hi
  constructor
  · simp only [dblAffPt, cast_emod hp, Int.cast_sub, Int.cast_mul, Int.cast_add, Int.cast_ofNat]
    ring
  · simp only [dblAffPt, cast_emod hp, Int.cast_sub, Int.cast_mul, Int.cast_add, Int.cast_ofNat]
    ring

theorem chordAffPt_cast (Q R : Point) (inv : ℤ) (x₁ y₁ x₂ y₂ i : ZMod p) (hx₁ : (Q.1 : ZMod p) = x₁)
    (hy₁ : (Q.2 : ZMod p) = y₁) (hx₂ : (R.1 : ZMod p) = x₂) (hy₂ : (R.2 : ZMod p) = y₂)
    (hi : (inv : ZMod p) = i) :
    ((chordAffPt c Q R inv).1 : ZMod p) = ((y₂ - y₁) * i) ^ 2 - x₁ - x₂ ∧
    ((chordAffPt c Q R inv).2 : ZMod p) =
      ((y₂ - y₁) * i) * (x₁ - (((y₂ - y₁) * i) ^ 2 - x₁ - x₂)) - y₁ := by
  subst hx₁ hy₁ hx₂ hy₂ hi
  constructor
  · simp only [chordAffPt, cast_emod hp, Int.cast_sub, Int.cast_mul]
    ring
  · simp only [chordAffPt, cast_emod hp, Int.cast_sub, Int.cast_mul]
    ring

omit hp in
/-- Mathlib's tangent formulas on `y² = x³ + ax + b` -/
theorem aff_double_formula (hp2 : p ≠ 2) {x y i : ZMod p} (hy : y ≠ 0) (hi : (2 * y) * i = 1) :
    (curveOf p c).toAffine.addX x x ((curveOf p c).toAffine.slope x x y y)
        = ((3 * x ^ 2 + c.a) * i) ^ 2 - x - x ∧
    (curveOf p c).toAffine.addY x x y ((curveOf p c).toAffine.slope x x y y)
        = ((3 * x ^ 2 + c.a) * i) * (x - (((3 * x ^ 2 + c.a) * i) ^ 2 - x - x)) - y := by
  have hne : y ≠ (curveOf p c).toAffine.negY x y := by rw [aff_negY]; exact ne_neg_self hp2 hy
  have hs : (curveOf p c).toAffine.slope x x y y = (3 * x ^ 2 + c.a) * i := by
    rw [Affine.slope_of_Y_ne rfl hne, aff_negY]
    simp only [curveOf_a₁, curveOf_a₂, curveOf_a₄]
    have h2y : y - -y ≠ 0 := by
      intro h; exact ne_neg_self hp2 hy (by linear_combination h)
    rw [div_eq_iff h2y]
    linear_combination (-(3 * x ^ 2 + (c.a : ZMod p))) * hi
  rw [hs]
  constructor
  · simp only [Affine.addX, curveOf_a₁, curveOf_a₂]; ring
  · simp only [Affine.addY, Affine.negAddY, Affine.addX, Affine.negY, curveOf_a₁, curveOf_a₂, curveOf_a₃]
    ring

omit hp in
/-- Mathlib's chord formulas on `y² = x³ + ax + b` -/
theorem aff_chord_formula {x₁ y₁ x₂ y₂ i : ZMod p} (hx : x₁ ≠ x₂) (hi : (x₂ - x₁) * i = 1) :
    (curveOf p c).toAffine.addX x₁ x₂ ((curveOf p c).toAffine.slope x₁ x₂ y₁ y₂)
        = ((y₂ - y₁) * i) ^ 2 - x₁ - x₂ ∧
    (curveOf p c).toAffine.addY x₁ x₂ y₁ ((curveOf p c).toAffine.slope x₁ x₂ y₁ y₂)
        = ((y₂ - y₁) * i) * (x₁ - (((y₂ - y₁) * i) ^ 2 - x₁ - x₂)) - y₁ := by
  have hs : (curveOf p c).toAffine.slope x₁ x₂ y₁ y₂ = (y₂ - y₁) * i := by
    rw [Affine.slope_of_X_ne hx, div_eq_iff (sub_ne_zero.mpr hx)]
    linear_combination (y₂ - y₁) * hi
  rw [hs]
  constructor
  · simp only [Affine.addX, curveOf_a₁, curveOf_a₂]; ring
  · simp only [Affine.addY, Affine.negAddY, Affine.addX, Affine.negY, curveOf_a₁, curveOf_a₂, curveOf_a₃]
    ring

/-- `double_aff_var` on a finite reduced valid pair: answers, with the coordinates of `Q + Q` -/
theorem doubleAff_spec (hp2 : p ≠ 2) (Q : Point) (hQ : AValid p c Q) (rQ : RedA c Q) (hQ2 : Q.2 ≠ 0) :
    ∃ A : Point, doubleAff c Q = some A ∧ (0 ≤ A.1 ∧ A.1 < c.p) ∧ (0 ≤ A.2 ∧ A.2 < c.p) ∧
      ∃ hns : (curveOf p c).toAffine.Nonsingular (A.1 : ZMod p) (A.2 : ZMod p),
        absA p c Q + absA p c Q = Affine.Point.some _ _ hns := by
  obtain ⟨hnsQ, eQ⟩ := absA_eq_some hQ2 hQ
  have hy : (Q.2 : ZMod p) ≠ 0 := cast_ne_zero_of_red hp rQ.1 hQ2
  have h2y : ((2 * Q.2 : ℤ) : ZMod p) ≠ 0 := by
    push_cast; exact mul_ne_zero (two_ne_zero_zmod hp2) hy
  obtain ⟨inv, hinv, _, _, hmul⟩ := modInv_prime (2 * Q.2) h2y
  have hmul' : (2 * (Q.2 : ZMod p)) * (inv : ZMod p) = 1 := by
    rw [← hmul]; push_cast; ring
  have hr := dblAffPt_range hp Q inv
  refine ⟨dblAffPt c Q inv, ?_, hr.1, hr.2, ?_⟩
  · rw [doubleAff_eq Q hQ2, hp, hinv]; rfl
  · obtain ⟨c1, c2⟩ := dblAffPt_cast hp Q inv _ _ _ rfl rfl rfl
    obtain ⟨f1, f2⟩ := aff_double_formula (c := c) hp2 (x := (Q.1 : ZMod p)) hy hmul'
    have hne : (Q.2 : ZMod p) ≠ (curveOf p c).toAffine.negY (Q.1 : ZMod p) (Q.2 : ZMod p) := by
      rw [aff_negY]; exact ne_neg_self hp2 hy
    rw [eQ, Affine.Point.add_self_of_Y_ne hne]
    apply some_congr
    · rw [f1, c1]
    · rw [f2, c2]

/-- `add_aff_var`, all branches, on reduced valid pairs whose sum is not a point of order 2 -/
theorem addAff_spec (hp2 : p ≠ 2) (P Q : Point) (hP : AValid p c P) (hQ : AValid p c Q)
    (rP : RedA c P) (rQ : RedA c Q)
    (h2 : (absA p c P + absA p c Q) + (absA p c P + absA p c Q) = 0 → absA p c P + absA p c Q = 0) :
    ∃ A : Point, addAff c P Q = some A ∧ AValid p c A ∧ RedA c A ∧
      absA p c A = absA p c P + absA p c Q := by
  by_cases hQ2 : Q.2 = 0
  · refine ⟨P, by simp [addAff, hQ2], hP, rP, ?_⟩
    rw [absA_of_y_eq_zero hQ2, add_zero]
  by_cases hP2 : P.2 = 0
  · refine ⟨Q, by simp [addAff, hQ2, hP2], hQ, rQ, ?_⟩
    rw [absA_of_y_eq_zero hP2, zero_add]
  obtain ⟨hnsP, eP⟩ := absA_eq_some hP2 hP
  obtain ⟨hnsQ, eQ⟩ := absA_eq_some hQ2 hQ
  by_cases hx : Q.1 = P.1
  · by_cases hy : Q.2 = P.2
    · -- doubling
      have hPQ : P = Q := Prod.ext hx.symm hy.symm
      subst hPQ
      obtain ⟨A, hA, h1, h2', hns, habs⟩ := doubleAff_spec hp hp2 P hP rP hP2
      obtain ⟨hv, hr, he⟩ := finish_some A h1 h2' _ hns habs h2
      exact ⟨A, by simp [addAff, hP2, hA], hv, hr, he⟩
    · -- opposite points
      refine ⟨INF, by simp [addAff, hQ2, hP2, hx, hy], fun h => absurd rfl h, RedA_INF hp, ?_⟩
      rw [absA_of_y_eq_zero (show INF.2 = 0 from rfl), eP, eQ]
      symm
      apply Affine.Point.add_of_Y_eq (by rw [hx])
      rcases Affine.Y_eq_of_X_eq hnsP.1 hnsQ.1 (by rw [hx]) with h | h
      · exact absurd (eq_of_cast_eq_c hp rP.1 rQ.1 h).symm hy
      · exact h
  · -- chord
    have hxf : (P.1 : ZMod p) ≠ (Q.1 : ZMod p) := by
      intro h; exact hx (eq_of_cast_eq_c hp (rP.2 hP2) (rQ.2 hQ2) h).symm
    have hd : ((Q.1 - P.1 : ℤ) : ZMod p) ≠ 0 := by
      push_cast; exact sub_ne_zero.mpr (Ne.symm hxf)
    obtain ⟨inv, hinv, _, _, hmul⟩ := modInv_prime (Q.1 - P.1) hd
    have hmul' : ((Q.1 : ZMod p) - (P.1 : ZMod p)) * (inv : ZMod p) = 1 := by
      rw [← hmul]; push_cast; ring
    have hr := chordAffPt_range hp P Q inv
    obtain ⟨c1, c2⟩ := chordAffPt_cast hp P Q inv _ _ _ _ _ rfl rfl rfl rfl rfl
    obtain ⟨f1, f2⟩ := aff_chord_formula (c := c) (y₁ := (P.2 : ZMod p)) (y₂ := (Q.2 : ZMod p)) hxf hmul'
    have hsum : ∃ hns : (curveOf p c).toAffine.Nonsingular ((chordAffPt c P Q inv).1 : ZMod p)
        ((chordAffPt c P Q inv).2 : ZMod p),
        absA p c P + absA p c Q = Affine.Point.some _ _ hns := by
      rw [eP, eQ, Affine.Point.add_of_X_ne hxf]
      apply some_congr
      · rw [f1, c1]
      · rw [f2, c2]
    obtain ⟨hns, habs⟩ := hsum
    obtain ⟨hv, hrd, he⟩ := finish_some _ hr.1 hr.2 _ hns habs h2
    refine ⟨chordAffPt c P Q inv, ?_, hv, hrd, he⟩
    rw [addAff_eq P Q hP2 hQ2 hx, hp, hinv]; rfl

end Add

/-! ## `aff_from_jac`, `mult` with the range of the result -/
section Mult
variable {p : ℕ} [Fact p.Prime] {c : CurveGroup}

theorem zsmul_emod_of_order {G : Type} [AddCommGroup G] {g : G} (n : ℤ) (hn : n • g = 0) (m : ℤ) :
    (m % n) • g = m • g := by
  have h := Int.emod_add_mul_ediv m n
  conv_rhs => rw [← h]
  rw [add_zsmul, mul_comm, mul_zsmul, hn, zsmul_zero, add_zero]

variable (hp : c.p = (p : ℤ))
include hp

/-- `aff_from_jac_var` on a valid triple that is not a point of order 2: a reduced valid pair for the same point -/
theorem affFromJac_sub (Q : JacPoint) (hQ : JValid p c Q)
    (h2 : absJ p c Q + absJ p c Q = 0 → absJ p c Q = 0) :
    ∃ A : Point, affFromJac c Q = some A ∧ AValid p c A ∧ RedA c A ∧ absA p c A = absJ p c Q := by
  by_cases hz : Q.2.2 = 0
  · refine ⟨INF, affFromJac_inf Q hz, fun h => absurd rfl h, RedA_INF hp, ?_⟩
    rw [absJ_of_Z_eq_zero hz, absA_of_y_eq_zero rfl]
  · obtain ⟨A, hA, h1, h2', hns, habs⟩ := affFromJac_spec hp Q hQ hz
    obtain ⟨hv, hr, he⟩ := finish_some A h1 h2' _ hns habs h2
    exact ⟨A, hA, hv, hr, he⟩

omit hp in
/-- `mult m Q` on a valid pair of the odd-`n`-torsion: a reduced valid pair denoting `m • Q`, EVERY integer `m`,
whatever the cofactor -/
theorem mult_sub (C : Curve) (hC : C.p = (p : ℤ)) (_hn0 : 0 < C.n) (hodd : C.n % 2 = 1) (m : ℤ) (Q : Point)
    (hQ : AValid p C.toCurveGroup Q) (hQn : C.n • absA p C.toCurveGroup Q = 0) :
    ∃ A : Point, mult C m Q = some A ∧ AValid p C.toCurveGroup A ∧ RedA C.toCurveGroup A ∧
      absA p C.toCurveGroup A = m • absA p C.toCurveGroup Q := by
  have hJ := multJac_spec hC (m % C.n).toNat (jacFromAff Q) (JValid_jacFromAff hQ)
  have hk : (((m % C.n).toNat : ℕ) : ℤ) = m % C.n := Int.toNat_of_nonneg (Int.emod_nonneg _ (by omega))
  have he : absJ p C.toCurveGroup (multJac C.toCurveGroup (m % C.n).toNat (jacFromAff Q))
      = m • absA p C.toCurveGroup Q := by
    rw [hJ.2, ← natCast_zsmul, hk]
    exact zsmul_emod_of_order C.n hQn m
  have hmem : absJ p C.toCurveGroup (multJac C.toCurveGroup (m % C.n).toNat (jacFromAff Q))
      ∈ torsionSub p C.toCurveGroup C.n := by
    rw [he, mem_torsionSub, smul_comm, hQn, zsmul_zero]
  obtain ⟨A, hA, hv, hr, hab⟩ := affFromJac_sub hC _ hJ.1
    (noTwoTorsionIn_torsionSub C.n hodd _ hmem)
  exact ⟨A, hA, hv, hr, by rw [hab, he]⟩

end Mult

end Btc.C01
