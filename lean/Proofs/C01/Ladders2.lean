import Proofs.C01.Ladders
/-
C01 — T3 continued: the fixed-window variants, the sliding window, the single wNAF.
-/
namespace Btc.C01
variable {α β G : Type} [AddCommGroup G] {o : JacOps α β} (L : JacRel o G)

/-! ## tables of consecutive multiples (`_multiples`, `_cached_multiples`, `_cached_multiples_fixwind`) -/

theorem getD_append_two (T : List α) (x y d : α) (j : ℕ) :
    (T ++ [x, y]).getD j d =
      if j < T.length then T.getD j d else if j = T.length then x else if j = T.length + 1 then y else d := by
  rw [List.getD_eq_getElem?_getD, List.getD_eq_getElem?_getD]
  split
  · next h => rw [List.getElem?_append_left h]
  · next h =>
    rw [List.getElem?_append_right (by omega)]
    split
    · next h1 => subst h1; simp
    · split
      · next h1 h2 => subst h2; simp
      · next h1 h2 =>
        have : 2 ≤ j - T.length := by omega
        rw [List.getElem?_eq_none (by simpa using this)]; rfl

theorem multiplesLoop_spec {Q : α} {g : G} (hQ : L.R Q g) (n : ℕ) (T : List α) (heven : T.length % 2 = 0)
    (hpos : 0 < T.length) (hT : IsMultTable L T g) :
    (multiplesLoop o Q n T).length = T.length + 2 * n ∧ IsMultTable L (multiplesLoop o Q n T) g := by
  induction n generalizing T with
  | zero => exact ⟨by simp [multiplesLoop], by simpa [multiplesLoop] using hT⟩
  | succ n ih =>
    simp only [multiplesLoop]
    have hD : L.R (o.dbl (T.getD (T.length / 2) o.zero)) ((T.length : ℤ) • g) := by
      refine L.cast (L.dbl (hT (T.length / 2) (by omega))) ?_
      have : (T.length : ℤ) = 2 * ((T.length / 2 : ℕ) : ℤ) := by omega
      rw [this]; module
    have hT' : IsMultTable L (T ++ [o.dbl (T.getD (T.length / 2) o.zero),
        o.add (o.dbl (T.getD (T.length / 2) o.zero)) Q]) g := by
      intro j hj
      simp only [List.length_append, List.length_cons, List.length_nil] at hj
      rw [getD_append_two]
      split
      · next h => exact hT j h
      · split
        · next h1 h2 => subst h2; exact hD
        · next h1 h2 =>
          have : j = T.length + 1 := by omega
          subst this
          simp only [if_true]
          exact L.cast (L.add hD hQ) (by push_cast; module)
    obtain ⟨h1, h2⟩ := ih _ (by simp; omega) (by simp) hT'
    exact ⟨by rw [h1]; simp; omega, h2⟩

theorem initTable {Q : α} {g : G} (hQ : L.R Q g) : IsMultTable L [o.zero, Q] g := by
  intro j hj
  simp only [List.length_cons, List.length_nil] at hj
  rcases j with _ | _ | j
  · simpa using L.zero
  · simpa using hQ
  · omega

/-- the table of `2^w` consecutive multiples, `w ≥ 1` -/
theorem powTable_spec (w : ℕ) (hw : 1 ≤ w) {Q : α} {g : G} (hQ : L.R Q g) :
    (multiplesLoop o Q (2 ^ w / 2 - 1) [o.zero, Q]).length = 2 ^ w ∧
      IsMultTable L (multiplesLoop o Q (2 ^ w / 2 - 1) [o.zero, Q]) g := by
  obtain ⟨h1, h2⟩ := multiplesLoop_spec L hQ (2 ^ w / 2 - 1) [o.zero, Q] (by simp) (by simp) (initTable L hQ)
  refine ⟨?_, h2⟩
  rw [h1]
  obtain ⟨w', rfl⟩ : ∃ w', w = w' + 1 := ⟨w - 1, by omega⟩
  have : 0 < 2 ^ w' := Nat.pos_of_ne_zero (by positivity)
  simp only [List.length_cons, List.length_nil, pow_succ]; omega

theorem multiples_pow_spec (w : ℕ) (hw : 1 ≤ w) {Q : α} {g : G} (hQ : L.R Q g) :
    (multiples o Q (2 ^ w)).length = 2 ^ w ∧ IsMultTable L (multiples o Q (2 ^ w)) g := by
  unfold multiples
  have : 2 ^ w % 2 = 0 := by
    obtain ⟨w', rfl⟩ : ∃ w', w = w' + 1 := ⟨w - 1, by omega⟩
    rw [pow_succ]; omega
  simp only [this, Nat.zero_ne_one, if_false]
  exact powTable_spec L w hw hQ

/-! ## T3: fixed window, plain and cached -/

theorem two_le_pow (w : ℕ) (hw : 1 ≤ w) : 2 ≤ 2 ^ w := by
  obtain ⟨w', rfl⟩ : ∃ w', w = w' + 1 := ⟨w - 1, by omega⟩
  have : 0 < 2 ^ w' := Nat.pos_of_ne_zero (by positivity)
  rw [pow_succ]; omega

theorem fixedWindowLoop_spec (w : ℕ) (hw : 1 ≤ w) (T : List α) {g : G}
    (hT : ∀ i, i < 2 ^ w → L.R (T.getD i o.zero) ((i : ℤ) • g)) (m : ℕ) :
    L.R (fixedWindowLoop o w T m) ((m : ℤ) • g) := by
  unfold fixedWindowLoop
  have hb := two_le_pow w hw
  have hlt := toBase_lt (2 ^ w) m hb
  have hev := toBase_eval (2 ^ w) m hb
  have hne := toBase_ne_nil (2 ^ w) m hb
  cases hds : toBase (2 ^ w) m with
  | nil => exact absurd hds hne
  | cons d0 ds =>
    rw [hds] at hlt hev
    simp only []
    rw [evalMSB_cons_zero] at hev
    rw [← hev]
    refine foldl_msb_spec L (2 ^ w) _ ?_ ds (fun x hx => hlt x (List.mem_cons_of_mem _ hx)) _ d0
      (hT d0 (hlt d0 List.mem_cons_self))
    intro R k i hi hR
    refine L.cast (L.add (dblN_spec L w hR) (hT i hi)) ?_
    push_cast; module

/-- T3: `_mult_fixed_window_var(m, Q, ec, w, cached=False)` -/
theorem multFixedWindow_spec (m w : ℕ) (hw : 1 ≤ w) {Q : α} {g : G} (hQ : L.R Q g) :
    L.R (multFixedWindow o m Q w) ((m : ℤ) • g) := by
  obtain ⟨hlen, hT⟩ := multiples_pow_spec L w hw hQ
  exact fixedWindowLoop_spec L w hw _ (fun i hi => hT i (by rw [hlen]; exact hi)) m

/-- T3: `_mult_fixed_window_var(m, Q, ec, w, cached=True)`, for the widths the cached table serves (`w ≤ MAX_W`) -/
theorem multFixedWindowCached_spec (maxW m w : ℕ) (hw : 1 ≤ w) (hmax : w ≤ maxW) {Q : α} {g : G} (hQ : L.R Q g) :
    L.R (multFixedWindowCached o maxW m Q w) ((m : ℤ) • g) := by
  obtain ⟨hlen, hT⟩ := powTable_spec L maxW (by omega) hQ
  refine fixedWindowLoop_spec L w hw _ (fun i hi => hT i ?_) m
  rw [hlen]
  exact lt_of_lt_of_le hi (Nat.pow_le_pow_right (by omega) hmax)


/-! ## T3: fixed window with one cached table per digit position -/

theorem evalMSB_shift (b k : ℕ) (ds : List ℕ) : evalMSB b k ds = k * b ^ ds.length + evalMSB b 0 ds := by
  induction ds generalizing k with
  | nil => simp [evalMSB]
  | cons d ds ih =>
    simp only [evalMSB, List.foldl_cons, List.length_cons] at ih ⊢
    rw [ih (k * b + d), ih (0 * b + d)]; ring

theorem fixwindTables_spec (w : ℕ) (hw : 1 ≤ w) (n : ℕ) {K : α} {k : G} (hK : L.R K k) :
    (fixwindTables o w n K).length = n ∧
    ∀ pos, pos < n → ∀ d, d < 2 ^ w →
      L.R (((fixwindTables o w n K).getD pos []).getD d o.zero) (((d * (2 ^ w) ^ pos : ℕ) : ℤ) • k) := by
  induction n generalizing K k with
  | zero => simp [fixwindTables]
  | succ n ih =>
    simp only [fixwindTables]
    obtain ⟨hlen, hT⟩ := powTable_spec L w hw hK
    have hhalf : 2 ^ (w - 1) < 2 ^ w := Nat.pow_lt_pow_right (by omega) (by omega)
    have hK' : L.R (o.dbl ((multiplesLoop o K (2 ^ w / 2 - 1) [o.zero, K]).getD (2 ^ (w - 1)) o.zero))
        (((2 : ℤ) ^ w) • k) := by
      refine L.cast (L.dbl (hT _ (by rw [hlen]; exact hhalf))) ?_
      obtain ⟨w', rfl⟩ : ∃ w', w = w' + 1 := ⟨w - 1, by omega⟩
      simp only [Nat.add_sub_cancel]; push_cast; rw [pow_succ]; module
    obtain ⟨h1, h2⟩ := ih hK'
    refine ⟨by simp only [List.length_cons, h1], ?_⟩
    intro pos hpos d hd
    rcases pos with _ | pos
    · simp only [List.getD_cons_zero, pow_zero, Nat.mul_one]
      exact hT d (by rw [hlen]; exact hd)
    · simp only [List.getD_cons_succ]
      refine L.cast (h2 pos (by omega) d hd) ?_
      push_cast; rw [pow_succ]; module

/-- T3: `_mult_fixed_window_cached_var(m, Q, ec, w)`: whenever it answers (the scalar has no more digits than
there are tables) the answer is `m • Q` -/
theorem multFixedWindowCachedPos_spec (pSize m w : ℕ) (hw : 1 ≤ w) {Q r : α} {g : G} (hQ : L.R Q g)
    (h : multFixedWindowCachedPos o pSize m Q w = some r) : L.R r ((m : ℤ) • g) := by
  unfold multFixedWindowCachedPos at h
  simp only [] at h
  obtain ⟨hlen, hT⟩ := fixwindTables_spec L w hw (pSize * 8 / w + 1) hQ
  have hb := two_le_pow w hw
  have hlt := toBase_lt (2 ^ w) m hb
  have hev := toBase_eval (2 ^ w) m hb
  have hne := toBase_ne_nil (2 ^ w) m hb
  split at h; · simp at h
  next hfit =>
  rw [hlen] at hfit
  cases hds : toBase (2 ^ w) m with
  | nil => exact absurd hds hne
  | cons d0 ds =>
    rw [hds] at h hlt hev hfit
    simp only [Option.some.injEq, List.length_cons] at h hfit
    subst h
    -- the loop: state (acc, k), k = digits still to come
    have key : ∀ (ds : List ℕ), (∀ d ∈ ds, d < 2 ^ w) → ds.length ≤ pSize * 8 / w + 1 → ∀ (acc : α) (a : ℤ),
        L.R acc (a • g) →
        L.R (ds.foldl (fun (st : α × ℕ) d =>
          (o.add st.1 (((fixwindTables o w (pSize * 8 / w + 1) Q).getD (st.2 - 1) []).getD d o.zero), st.2 - 1))
          (acc, ds.length)).1 ((a + (evalMSB (2 ^ w) 0 ds : ℤ)) • g) := by
      intro ds
      induction ds with
      | nil => intro _ _ acc a hacc; simpa [evalMSB] using hacc
      | cons d ds ih =>
        intro hds hl acc a hacc
        simp only [List.foldl_cons, List.length_cons, Nat.add_sub_cancel]
        simp only [List.length_cons] at hl
        have hd := hT ds.length (by omega) d (hds d List.mem_cons_self)
        have := ih (fun x hx => hds x (List.mem_cons_of_mem _ hx)) (by omega) _ (a + ((d * (2 ^ w) ^ ds.length : ℕ) : ℤ))
          (L.cast (L.add hacc hd) (by module))
        refine L.cast this ?_
        rw [evalMSB_cons_zero, evalMSB_shift (2 ^ w) d ds]; push_cast; module
    have h0 := hT ds.length (by omega) d0 (hlt d0 List.mem_cons_self)
    have := key ds (fun x hx => hlt x (List.mem_cons_of_mem _ hx)) (by omega) _ _ h0
    refine L.cast this ?_
    rw [← hev, evalMSB_cons_zero, evalMSB_shift (2 ^ w) d0 ds]; push_cast; module

/-! ## T3: sliding window -/

theorem evalMSB_append (b k : ℕ) (l1 l2 : List ℕ) : evalMSB b k (l1 ++ l2) = evalMSB b (evalMSB b k l1) l2 := by
  simp [evalMSB, List.foldl_append]

theorem evalMSB_lt (ds : List ℕ) (hds : ∀ d ∈ ds, d < 2) : evalMSB 2 0 ds < 2 ^ ds.length := by
  induction ds using List.reverseRecOn with
  | nil => simp [evalMSB]
  | append_singleton ds d ih =>
    rw [evalMSB_append]
    have := ih (fun x hx => hds x (List.mem_append_left _ hx))
    have hd := hds d (by simp)
    simp only [evalMSB, List.foldl_cons, List.foldl_nil, List.length_append, List.length_singleton, pow_succ] at this ⊢
    omega

theorem doubleAndAdd_spec {Q : α} {g : G} (hQ : L.R Q g) (ds : List ℕ) (hds : ∀ d ∈ ds, d < 2) (R : α) (k : ℕ)
    (hR : L.R R ((k : ℤ) • g)) : L.R (doubleAndAdd o Q R ds) ((evalMSB 2 k ds : ℤ) • g) := by
  unfold doubleAndAdd
  refine foldl_msb_spec L 2 _ ?_ ds hds R k hR
  intro R k i hi hR
  by_cases h1 : i = 1
  · subst h1
    simp only [if_true]
    exact L.cast (L.add (L.dbl hR) hQ) (by push_cast; module)
  · have : i = 0 := by omega
    subst this
    simp only [Nat.zero_ne_one, if_false]
    exact L.cast (L.dbl hR) (by push_cast; module)

/-- `_sliding_window_table`: entry `j` is `(2^(w-1) + j)·Q`, `j < 2^(w-1)` -/
theorem slidingTable_spec (w : ℕ) {Q : α} {g : G} (hQ : L.R Q g) :
    ∀ j : ℕ, j < 2 ^ (w - 1) → L.R ((slidingTable o Q w).getD j o.zero) ((((2 ^ (w - 1) + j : ℕ)) : ℤ) • g) := by
  intro j hj
  unfold slidingTable
  have hP := dblN_spec L (w - 1) hQ
  obtain ⟨hlen, hent⟩ := oddMultLoop_spec L hQ (2 ^ (w - 1) - 1) hP
  rcases j with _ | j
  · simp only [List.getD_cons_zero]
    exact L.cast hP (by push_cast; module)
  · obtain ⟨x, hx, hR⟩ := hent j (by omega)
    rw [List.getD_cons_succ, List.getD_eq_getElem?_getD, hx]
    simp only [Option.getD_some]
    exact L.cast hR (by push_cast; module)

theorem slidingLoop_spec (w : ℕ) (hw : 1 ≤ w) {Q : α} {g : G} (hQ : L.R Q g) (fuel : ℕ) (ds : List ℕ)
    (hf : ds.length ≤ fuel) (hds : ∀ d ∈ ds, d < 2) (R : α) (k : ℕ) (hR : L.R R ((k : ℤ) • g)) :
    L.R (slidingLoop o Q w (slidingTable o Q w) fuel ds R) ((evalMSB 2 k ds : ℤ) • g) := by
  induction fuel generalizing ds R k with
  | zero =>
    have : ds = [] := List.eq_nil_of_length_eq_zero (by omega)
    subst this
    simpa [slidingLoop, evalMSB] using hR
  | succ fuel ih =>
    cases ds with
    | nil => simpa [slidingLoop, evalMSB] using hR
    | cons d ds =>
      simp only [slidingLoop]
      have hds' : ∀ x ∈ ds, x < 2 := fun x hx => hds x (List.mem_cons_of_mem _ hx)
      simp only [List.length_cons] at hf
      split
      · next h0 =>
        subst h0
        have := ih ds (by omega) hds' _ (k * 2 + 0) (L.cast (L.dbl hR) (by push_cast; module))
        simpa [evalMSB] using this
      · next h0 =>
        have hd1 : d = 1 := by have := hds d List.mem_cons_self; omega
        split
        · exact doubleAndAdd_spec L hQ (d :: ds) hds R k hR
        · next hlen =>
          simp only [List.length_cons, not_lt] at hlen
          -- a whole window
          have htake : ((d :: ds).take w).length = w := by simp; omega
          have hbits : ∀ x ∈ (d :: ds).take w, x < 2 := fun x hx => hds x (List.mem_of_mem_take hx)
          have hthi := evalMSB_lt _ hbits
          rw [htake] at hthi
          have htlo : 2 ^ (w - 1) ≤ evalMSB 2 0 ((d :: ds).take w) := by
            obtain ⟨w', rfl⟩ : ∃ w', w = w' + 1 := ⟨w - 1, by omega⟩
            rw [List.take_succ_cons, evalMSB_cons_zero, evalMSB_shift, hd1]
            have : (ds.take w').length = w' := by simp; omega
            rw [this]; simp
          set t := evalMSB 2 0 ((d :: ds).take w) with ht
          have hentry := slidingTable_spec L w hQ (t - 2 ^ (w - 1)) (by
            have : 2 ^ w = 2 * 2 ^ (w - 1) := by
              obtain ⟨w', rfl⟩ : ∃ w', w = w' + 1 := ⟨w - 1, by omega⟩
              simp [pow_succ]; ring
            omega)
          have hnew : L.R (o.add (dblN o w R) ((slidingTable o Q w).getD (t - 2 ^ (w - 1)) o.zero))
              (((k * 2 ^ w + t : ℕ) : ℤ) • g) := by
            refine L.cast (L.add (dblN_spec L w hR) hentry) ?_
            have : ((2 ^ (w - 1) + (t - 2 ^ (w - 1)) : ℕ) : ℤ) = t := by
              have : 2 ^ (w - 1) + (t - 2 ^ (w - 1)) = t := by omega
              rw [this]
            rw [this]; push_cast; module
          have := ih ((d :: ds).drop w) (by simp; omega) (fun x hx => hds x (List.mem_of_mem_drop hx)) _ _ hnew
          refine L.cast this ?_
          congr 1
          conv_rhs => rw [← List.take_append_drop w (d :: ds), evalMSB_append, evalMSB_shift 2 k, htake]

/-- T3: `_mult_sliding_window_var(m, Q, ec, w)` -/
theorem multSlidingWindow_spec (m w : ℕ) (hw : 1 ≤ w) {Q : α} {g : G} (hQ : L.R Q g) :
    L.R (multSlidingWindow o m Q w) ((m : ℤ) • g) := by
  unfold multSlidingWindow
  have := slidingLoop_spec L w hw hQ _ (toBase 2 m) (le_refl _) (toBase_lt 2 m (by omega)) o.zero 0
    (by simpa using L.zero)
  rwa [toBase_eval 2 m (by omega)] at this


/-! ## T3: single-scalar wNAF -/

theorem wnafLoop_spec {g : G} (pick : ℤ → α) (ds : List ℤ) (hpick : ∀ d ∈ ds, d ≠ 0 → L.R (pick d) (d • g)) :
    L.R (wnafLoop o pick ds) (evalLE 1 ds • g) := by
  induction ds with
  | nil => simpa [wnafLoop, evalLE] using L.zero
  | cons d ds ih =>
    simp only [wnafLoop]
    have hR := L.dbl (ih (fun x hx => hpick x (List.mem_cons_of_mem _ hx)))
    by_cases hd : d = 0
    · subst hd
      simp only [ne_eq, not_true_eq_false, if_false]
      exact L.cast hR (by rw [evalLE_one_cons]; module)
    · simp only [ne_eq, hd, not_false_eq_true, if_true]
      exact L.cast (L.add hR (hpick d List.mem_cons_self hd)) (by rw [evalLE_one_cons]; module)

/-- T3: `_mult_w_NAF_var(m, Q, ec, w)` -/
theorem multWNAF_spec (m w : ℕ) (hw : 1 ≤ w) {Q : α} {g : G} (hQ : L.R Q g) :
    L.R (multWNAF o m Q w) ((m : ℤ) • g) := by
  unfold multWNAF
  simp only []
  obtain ⟨hev, hdig⟩ := wnaf_spec w hw m
  rw [← hev]
  apply wnafLoop_spec
  intro d hd hd0
  obtain ⟨hlen, hent⟩ := oddMultiples_spec L w hQ
  rcases hdig d hd with h | ⟨hodd, hlo, hhi⟩
  · exact absurd h hd0
  have hB : nafBound w ≤ 2 * ((2 ^ (w - 2) : ℕ) : ℤ) := by
    unfold nafBound
    split
    · next h => subst h; simp
    · next h =>
      obtain ⟨w'', rfl⟩ : ∃ w'', w = w'' + 2 := ⟨w - 2, by omega⟩
      have : w'' + 2 - 1 = w'' + 1 := by omega
      rw [this]; simp only [Nat.add_sub_cancel]; push_cast; rw [pow_succ]; omega
  by_cases hpos : d > 0
  · simp only [hpos, if_true]
    obtain ⟨i, hi⟩ : ∃ i : ℕ, (d - 1) / 2 = i := ⟨((d - 1) / 2).toNat, by omega⟩
    have hilt : i < 2 ^ (w - 2) := by
      have : (i : ℤ) < ((2 ^ (w - 2) : ℕ) : ℤ) := by omega
      exact_mod_cast this
    obtain ⟨x, hx, hR⟩ := hent i hilt
    rw [hi, Int.toNat_natCast, List.getD_eq_getElem?_getD, List.getElem?_append_left (by rw [hlen]; exact hilt), hx]
    simp only [Option.getD_some]
    refine L.cast hR ?_
    have : 2 * (i : ℤ) + 1 = d := by omega
    rw [this]
  · simp only [hpos, if_false]
    by_cases h1 : w = 1
    · subst h1
      have hd1 : d = -1 := by unfold nafBound at hlo hhi; simp at hlo hhi; omega
      subst hd1
      simp only [if_true]
      have hT : oddMultiples o Q 1 = [Q] := by simp [oddMultiples]
      rw [hT]
      simp only [List.map_cons, List.map_nil, List.singleton_append, List.getD_cons_succ, List.getD_cons_zero]
      exact L.cast (L.neg hQ) (by simp)
    · simp only [h1, if_false]
      obtain ⟨w'', rfl⟩ : ∃ w'', w = w'' + 2 := ⟨w - 2, by omega⟩
      have hb4 : (2 ^ (w'' + 2) / 4 : ℕ) = 2 ^ w'' := by rw [pow_add]; omega
      simp only [Nat.add_sub_cancel] at hlen hent hB
      obtain ⟨i, hi⟩ : ∃ i : ℕ, (-d - 1) / 2 = i := ⟨((-d - 1) / 2).toNat, by omega⟩
      have hilt : i < 2 ^ w'' := by
        have : (i : ℤ) < ((2 ^ w'' : ℕ) : ℤ) := by omega
        exact_mod_cast this
      have hidx : (((2 ^ (w'' + 2) / 4 : ℕ) : ℤ) - (d + 1) / 2).toNat = 2 ^ w'' + i := by
        rw [hb4]; omega
      obtain ⟨x, hx, hR⟩ := hent i hilt
      rw [hidx, List.getD_eq_getElem?_getD, List.getElem?_append_right (by rw [hlen]; omega), hlen]
      simp only [Nat.add_sub_cancel_left, List.getElem?_map, hx, Option.map_some, Option.getD_some]
      refine L.cast (L.neg hR) ?_
      have : 2 * (i : ℤ) + 1 = -d := by omega
      rw [this]; module

end Btc.C01
