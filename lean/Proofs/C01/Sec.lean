import Model.C01.Sec
import Proofs.Common.Bytes
import Proofs.C01.Sqrt
/-
C01 — T10: the SEC 1 point codec.  The both-coordinates forms (04, and 06/07 under `hybrid=True`) are accepted
EXACTLY when: right length, `y ≠ 0`, matching parity for a hybrid prefix, coordinates reduced, on the curve;
`point_from_octets (bytes_from_point Q, uncompressed) = Q`; any prefix other than 02/03/04(/06/07) is refused; the
compressed lift returns an even root of `x³ + ax + b` (closed-form square-root branches).
-/
namespace Btc.C01
open Btc Btc.EC

theorem beBytes_length (len n : ℕ) : (beBytes len n).length = len := by simp [beBytes]

/-- `is_on_curve` answers `True` on a pair with `y ≠ 0` exactly for reduced coordinates satisfying the equation -/
theorem isOnCurveX_true_iff (g : CurveGroup) (Q : Point) (hy : Q.2 ≠ 0) :
    isOnCurveX g Q = some true ↔
      (0 ≤ Q.1 ∧ Q.1 < g.p) ∧ (0 < Q.2 ∧ Q.2 < g.p) ∧ y2 g Q.1 = Q.2 * Q.2 % g.p := by
  unfold isOnCurveX isOnCurve
  simp only [hy, if_false]
  by_cases hx : 0 ≤ Q.1 ∧ Q.1 < g.p
  · by_cases hyr : 0 < Q.2 ∧ Q.2 < g.p
    · simp [hx, hyr]
    · simp [hx, hyr]
  · simp [hx]

/-- T10 (accepted set, both-coordinates forms): with a prefix other than 02/03, `point_from_octets` answers `Q` iff
the prefix is 04 — or 06/07 under `hybrid=True` with the parity of `y` matching —, the length is `2·p_size + 1`,
`Q` is the pair of big-endian coordinates, `y ≠ 0`, and `is_on_curve(Q)` (coordinates reduced, equation holds) -/
theorem pointFromOctets_both_iff (g : CurveGroup) (pSize : ℕ) (hybrid : Bool) (pfxB : UInt8) (body : Bytes)
    (Q : Point) (h23 : ¬ (pfxB.toNat = 2 ∨ pfxB.toNat = 3)) :
    pointFromOctets g pSize hybrid (pfxB :: body) = .ok Q ↔
      (pfxB.toNat = 4 ∨ (hybrid = true ∧ (pfxB.toNat = 6 ∨ pfxB.toNat = 7))) ∧
      (pfxB :: body).length = 2 * pSize + 1 ∧
      Q = ((ofBE (body.take pSize) : ℤ), (ofBE (body.drop pSize) : ℤ)) ∧ Q.2 ≠ 0 ∧
      (pfxB.toNat ≠ 4 → Q.2 % 2 = (pfxB.toNat : ℤ) - 6) ∧ isOnCurveX g Q = some true := by
  unfold pointFromOctets
  by_cases hlen : (pfxB :: body).length ≠ pSize + 1 ∧ (pfxB :: body).length ≠ 2 * pSize + 1
  · rw [if_pos hlen]
    constructor
    · intro h; cases h
    · rintro ⟨_, h2, _⟩; exact absurd h2 hlen.2
  · rw [if_neg hlen]
    simp only [h23, if_false]
    by_cases hp : pfxB.toNat = 4 ∨ (hybrid = true ∧ (pfxB.toNat = 6 ∨ pfxB.toNat = 7))
    · rw [if_pos hp]
      by_cases hsz : (pfxB :: body).length ≠ 2 * pSize + 1
      · rw [if_pos hsz]
        constructor
        · intro h; cases h
        · rintro ⟨_, h2, _⟩; exact absurd h2 hsz
      · rw [if_neg hsz]
        by_cases hy0 : (ofBE (body.drop pSize) : ℤ) = 0
        · rw [if_pos hy0]
          constructor
          · intro h; cases h
          · rintro ⟨_, _, rfl, h4, _⟩; exact absurd hy0 h4
        · rw [if_neg hy0]
          by_cases hpar : pfxB.toNat ≠ 4 ∧ (ofBE (body.drop pSize) : ℤ) % 2 ≠ (pfxB.toNat : ℤ) - 6
          · rw [if_pos hpar]
            constructor
            · intro h; cases h
            · rintro ⟨_, _, rfl, _, h5, _⟩; exact absurd (h5 hpar.1) hpar.2
          · rw [if_neg hpar]
            have hsz' : (pfxB :: body).length = 2 * pSize + 1 := not_not.mp hsz
            have hpar' : pfxB.toNat ≠ 4 → (ofBE (body.drop pSize) : ℤ) % 2 = (pfxB.toNat : ℤ) - 6 := by
              intro h4; by_contra hne; exact hpar ⟨h4, hne⟩
            cases hoc : isOnCurveX g ((ofBE (body.take pSize) : ℤ), (ofBE (body.drop pSize) : ℤ)) with
            | none =>
              simp only []
              constructor
              · intro h; cases h
              · rintro ⟨_, _, rfl, _, _, h6⟩; rw [hoc] at h6; cases h6
            | some bb =>
              cases bb with
              | false =>
                simp only []
                constructor
                · intro h; cases h
                · rintro ⟨_, _, rfl, _, _, h6⟩; rw [hoc] at h6; cases h6
              | true =>
                simp only []
                constructor
                · intro h
                  have : Q = ((ofBE (body.take pSize) : ℤ), (ofBE (body.drop pSize) : ℤ)) := by
                    injection h with h; exact h.symm
                  subst this
                  exact ⟨hp, hsz', rfl, hy0, hpar', hoc⟩
                · rintro ⟨_, _, rfl, _, _, _⟩; rfl
    · rw [if_neg hp]
      constructor
      · intro h; cases h
      · rintro ⟨h1, _⟩; exact absurd h1 hp

/-- T10: a prefix outside {02, 03, 04} (∪ {06, 07} under `hybrid`) is refused -/
theorem pointFromOctets_refuses_prefix (g : CurveGroup) (pSize : ℕ) (hybrid : Bool) (pfxB : UInt8) (body : Bytes)
    (h : ¬ (pfxB.toNat = 2 ∨ pfxB.toNat = 3 ∨ pfxB.toNat = 4 ∨ (hybrid = true ∧ (pfxB.toNat = 6 ∨ pfxB.toNat = 7)))) :
    ∃ e, pointFromOctets g pSize hybrid (pfxB :: body) = .error e := by
  cases hr : pointFromOctets g pSize hybrid (pfxB :: body) with
  | error e => exact ⟨e, rfl⟩
  | ok Q =>
    have h23 : ¬ (pfxB.toNat = 2 ∨ pfxB.toNat = 3) := fun h' => h (by rcases h' with h' | h' <;> simp [h'])
    have := ((pointFromOctets_both_iff g pSize hybrid pfxB body Q h23).mp hr).1
    exact absurd (by rcases this with h' | h' <;> simp [h']) h

/-- T10 (round trip, uncompressed): `point_from_octets(bytes_from_point(Q, compressed=False)) = Q`, hybrid or not,
for every `Q` the encoder accepts (`p ≤ 256^p_size`) -/
theorem pointFromOctets_bytesFromPoint_uncompressed (g : CurveGroup) (pSize : ℕ) (hybrid : Bool) (Q : Point) (b : Bytes)
    (hp : g.p ≤ 256 ^ pSize) (h : bytesFromPoint g pSize Q false = some b) :
    pointFromOctets g pSize hybrid b = .ok Q := by
  unfold bytesFromPoint at h
  split at h; · simp at h
  next hoc =>
  have hoc' : isOnCurveX g Q = some true := not_not.mp hoc
  split at h; · simp at h
  next hy =>
  simp only [Bool.false_eq_true, if_false, Option.some.injEq] at h
  subst h
  obtain ⟨hx, hyr, _⟩ := (isOnCurveX_true_iff g Q hy).mp hoc'
  have hxn : Q.1.toNat < 256 ^ pSize := by
    have : (Q.1.toNat : ℤ) < 256 ^ pSize := by
      have h1 : (g.p : ℤ) ≤ ((256 ^ pSize : ℕ) : ℤ) := by exact_mod_cast hp
      push_cast at h1; omega
    exact_mod_cast this
  have hyn : Q.2.toNat < 256 ^ pSize := by
    have : (Q.2.toNat : ℤ) < 256 ^ pSize := by
      have h1 : (g.p : ℤ) ≤ ((256 ^ pSize : ℕ) : ℤ) := by exact_mod_cast hp
      push_cast at h1; omega
    exact_mod_cast this
  have h4 : (4 : UInt8).toNat = 4 := rfl
  rw [pointFromOctets_both_iff g pSize hybrid 4 _ Q (by rw [h4]; omega)]
  have htake : (beBytes pSize Q.1.toNat ++ beBytes pSize Q.2.toNat).take pSize = beBytes pSize Q.1.toNat := by
    rw [List.take_append_of_le_length (by rw [beBytes_length])]
    rw [List.take_of_length_le (by rw [beBytes_length])]
  have hdrop : (beBytes pSize Q.1.toNat ++ beBytes pSize Q.2.toNat).drop pSize = beBytes pSize Q.2.toNat := by
    rw [List.drop_append_of_le_length (by rw [beBytes_length])]
    rw [List.drop_of_length_le (by rw [beBytes_length])]; simp
  refine ⟨Or.inl h4, by simp [beBytes_length]; omega, ?_, hy, fun h' => absurd h4 h', hoc'⟩
  rw [htake, hdrop, ofBE_beBytes, ofBE_beBytes, Nat.mod_eq_of_lt hxn, Nat.mod_eq_of_lt hyn]
  ext
  · simp; omega
  · simp; omega


/-- the lift `y_even_var(x)` on the closed-form square-root branches (`p ≡ 3 mod 4`, `p ≡ 5 mod 8`): `x` is reduced and
the answer is a reduced EVEN root of `x³ + ax + b` -/
theorem yEvenVar_sound (g : CurveGroup) (x y : ℤ) (hbr : g.p % 4 = 3 ∨ g.p % 8 = 5) (h : yEvenVar g x = some y) :
    (0 ≤ x ∧ x < g.p) ∧ (0 ≤ y ∧ y < g.p) ∧ y % 2 = 0 ∧ y * y % g.p = y2 g x := by
  unfold yEvenVar at h
  split at h; · simp at h
  next hx =>
  have hx' : 0 ≤ x ∧ x < g.p := not_not.mp hx
  obtain ⟨r, hr, rfl⟩ := Option.map_eq_some_iff.mp h
  obtain ⟨hr0, hr1, hrr⟩ := NT.modSqrtVar_sound _ _ _ hbr hr
  have hp0 : 0 < g.p := by omega
  have hy2 : y2 g x % g.p = y2 g x := by
    unfold y2; exact Int.emod_emod_of_dvd _ (dvd_refl _)
  rw [hy2] at hrr
  refine ⟨hx', ?_, ?_, ?_⟩
  · split <;> omega
  · split <;> omega
  · split
    · have : (g.p - r) * (g.p - r) = r * r + g.p * (g.p - 2 * r) := by ring
      rw [this, Int.add_mul_emod_self_left]; exact hrr
    · exact hrr

/-- T10 (compressed forms): what `point_from_octets` answers on a 02/03 prefix is `(x, y)` resp. `(x, p − y)` with `y`
the even root the lift found, `y ≠ 0` (a lifted `0` — the `x` of a point of order two — is refused), and it is a
reduced point of the curve with the parity the prefix names (closed-form square-root branches) -/
theorem pointFromOctets_compressed_sound (g : CurveGroup) (pSize : ℕ) (hybrid : Bool) (pfxB : UInt8) (body : Bytes)
    (Q : Point) (h23 : pfxB.toNat = 2 ∨ pfxB.toNat = 3) (hbr : g.p % 4 = 3 ∨ g.p % 8 = 5)
    (h : pointFromOctets g pSize hybrid (pfxB :: body) = .ok Q) :
    (pfxB :: body).length = pSize + 1 ∧ Q.1 = (ofBE body : ℤ) ∧ Q.2 ≠ 0 ∧ isOnCurveX g Q = some true ∧
      Q.2 % 2 = (pfxB.toNat : ℤ) - 2 := by
  unfold pointFromOctets at h
  split at h; · cases h
  simp only [h23, if_true] at h
  split at h; · cases h
  next hsz =>
  split at h
  · cases h
  · next y hy =>
    split at h; · cases h
    next hy0 =>
    have hQ : Q = ((ofBE body : ℤ), if pfxB.toNat = 2 then y else g.p - y) := by
      injection h with h; exact h.symm
    obtain ⟨hxr, hyr, hev, hsq⟩ := yEvenVar_sound g _ y hbr hy
    subst hQ
    refine ⟨not_not.mp hsz, rfl, ?_⟩
    by_cases h2 : pfxB.toNat = 2
    · simp only [h2, if_true]
      exact ⟨hy0, (isOnCurveX_true_iff g _ hy0).mpr ⟨hxr, by omega, hsq.symm⟩, by omega⟩
    · have h3 : pfxB.toNat = 3 := by omega
      simp only [h2, if_false]
      have hne : g.p - y ≠ 0 := by omega
      refine ⟨hne, (isOnCurveX_true_iff g _ hne).mpr ⟨hxr, by omega, ?_⟩, by omega⟩
      have : (g.p - y) * (g.p - y) = y * y + g.p * (g.p - 2 * y) := by ring
      show y2 g _ = (g.p - y) * (g.p - y) % g.p
      rw [this, Int.add_mul_emod_self_left]; exact hsq.symm

/-- T10: whatever `point_from_octets` answers — any prefix, hybrid or not — is a reduced point of the curve, never the
spelling of infinity (closed-form square-root branches for the compressed forms) -/
theorem pointFromOctets_on_curve (g : CurveGroup) (pSize : ℕ) (hybrid : Bool) (b : Bytes) (Q : Point)
    (hbr : g.p % 4 = 3 ∨ g.p % 8 = 5) (h : pointFromOctets g pSize hybrid b = .ok Q) :
    Q.2 ≠ 0 ∧ isOnCurveX g Q = some true := by
  cases b with
  | nil => simp [pointFromOctets] at h
  | cons pfxB body =>
    by_cases h23 : pfxB.toNat = 2 ∨ pfxB.toNat = 3
    · obtain ⟨_, _, h1, h2, _⟩ := pointFromOctets_compressed_sound g pSize hybrid pfxB body Q h23 hbr h
      exact ⟨h1, h2⟩
    · obtain ⟨_, _, _, h1, _, h2⟩ := (pointFromOctets_both_iff g pSize hybrid pfxB body Q h23).mp h
      exact ⟨h1, h2⟩

end Btc.C01
