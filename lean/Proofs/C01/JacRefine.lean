import Mathlib.AlgebraicGeometry.EllipticCurve.Jacobian.Point
import Mathlib.Tactic.LinearCombination
import Mathlib.Tactic.Ring
import Mathlib.Data.ZMod.Basic
import Model.Common.EC
/-
C01-T1 ("L2 refines L2'"): btclib's Jacobian arithmetic (`Btc.EC.addJac`, `addJacAff`, `doubleJac`,
`negateJac`, `affFromJac`: the transcription of `CurveGroup.add_jac` … in `Model/Common/EC.lean`)
computes the group law of Mathlib's elliptic-curve point group.

Part 1: the formulas in an arbitrary field `F` (short Weierstrass curve `swc a b`), related to Mathlib's
        `Jacobian.addXYZ` / `dblXYZ`.
Part 2: the `% p` integer code is carried to `ZMod p` by `Int.cast`.
Part 3: the refinement theorems T1a–T1e and preservation of validity.

No hypothesis on the discriminant and none on `p ≠ 2` is needed: Mathlib's point group consists of the
nonsingular points of any Weierstrass curve, and validity of a triple is `Nonsingular`.
-/
open WeierstrassCurve
open scoped WeierstrassCurve.Jacobian

namespace Btc.C01

/-! ## Part 1: field level -/
section Field
variable {F : Type} [Field F]

/-- the short Weierstrass curve `y² = x³ + a x + b` -/
def swc (a b : F) : Jacobian F := ⟨0, 0, 0, a, b⟩

@[simp] theorem swc_a₁ (a b : F) : (swc a b).a₁ = 0 := rfl
@[simp] theorem swc_a₂ (a b : F) : (swc a b).a₂ = 0 := rfl
@[simp] theorem swc_a₃ (a b : F) : (swc a b).a₃ = 0 := rfl
@[simp] theorem swc_a₄ (a b : F) : (swc a b).a₄ = a := rfl
@[simp] theorem swc_a₆ (a b : F) : (swc a b).a₆ = b := rfl

theorem swc_equation_iff (a b : F) (P : Fin 3 → F) :
    (swc a b).Equation P ↔ P 1 ^ 2 = P 0 ^ 3 + a * P 0 * P 2 ^ 4 + b * P 2 ^ 6 := by
  rw [Jacobian.equation_iff]
  simp only [swc_a₁, swc_a₂, swc_a₃, swc_a₄, swc_a₆]
  constructor <;> intro h <;> linear_combination h

/-! ### btclib's chord formula (`add_jac` after the early returns), in the field -/
def chordV (P Q : Fin 3 → F) : F := Q 0 * P 2 ^ 2 - P 0 * Q 2 ^ 2
def chordW (P Q : Fin 3 → F) : F := Q 1 * P 2 ^ 3 - P 1 * Q 2 ^ 3
def chordX (P Q : Fin 3 → F) : F :=
  chordW P Q ^ 2 - chordV P Q ^ 3 - 2 * (P 0 * Q 2 ^ 2) * chordV P Q ^ 2
def chordY (P Q : Fin 3 → F) : F :=
  chordW P Q * ((P 0 * Q 2 ^ 2) * chordV P Q ^ 2 - chordX P Q) - (P 1 * Q 2 ^ 3) * chordV P Q ^ 3
def chordZ (P Q : Fin 3 → F) : F := chordV P Q * P 2 * Q 2
def chord (P Q : Fin 3 → F) : Fin 3 → F := ![chordX P Q, chordY P Q, chordZ P Q]

theorem chordZ_eq (P Q : Fin 3 → F) :
    chordZ P Q = -(P 2 * Q 2) * Jacobian.addZ P Q := by
  simp only [chordZ, chordV, Jacobian.addZ]; ring

theorem chordX_eq {a b : F} {P Q : Fin 3 → F} (hP : (swc a b).Equation P)
    (hQ : (swc a b).Equation Q) :
    chordX P Q = (-(P 2 * Q 2)) ^ 2 * (swc a b).addX P Q := by
  rw [swc_equation_iff] at hP hQ
  simp only [chordX, chordV, chordW, Jacobian.addX, swc_a₁, swc_a₂, swc_a₃, swc_a₄, swc_a₆]
  linear_combination (Q 2 ^ 6) * hP + (P 2 ^ 6) * hQ

theorem chordY_eq {a b : F} {P Q : Fin 3 → F} (hP : (swc a b).Equation P)
    (hQ : (swc a b).Equation Q) :
    chordY P Q = (-(P 2 * Q 2)) ^ 3 * (swc a b).addY P Q := by
  rw [swc_equation_iff] at hP hQ
  simp only [chordY, chordX, chordV, chordW, Jacobian.addY, Jacobian.negY_eq, Jacobian.negAddY,
    Jacobian.addX, Jacobian.addZ, swc_a₁, swc_a₂, swc_a₃, swc_a₄, swc_a₆]
  linear_combination (P 1 * Q 2 ^ 9 - Q 1 * P 2 ^ 3 * Q 2 ^ 6) * hP
    + (P 1 * P 2 ^ 6 * Q 2 ^ 3 - Q 1 * P 2 ^ 9) * hQ

/-- btclib's chord triple is Mathlib's `addXYZ` scaled by the unit `-(Z₁Z₂)` -/
theorem chord_eq_smul {a b : F} {P Q : Fin 3 → F} (hP : (swc a b).Equation P)
    (hQ : (swc a b).Equation Q) :
    chord P Q = (-(P 2 * Q 2)) • (swc a b).addXYZ P Q := by
  rw [Jacobian.smul_fin3, Jacobian.addXYZ_X, Jacobian.addXYZ_Y, Jacobian.addXYZ_Z, chord,
    chordX_eq hP hQ, chordY_eq hP hQ, chordZ_eq]

/-! ### btclib's doubling formula (`_double_jac_helper`), in the field -/
def dblW (a : F) (P : Fin 3 → F) : F := 3 * P 0 ^ 2 + a * P 2 ^ 4
def dblV (P : Fin 3 → F) : F := 4 * P 0 * P 1 ^ 2
def dblX (a : F) (P : Fin 3 → F) : F := dblW a P ^ 2 - 2 * dblV P
def dblY (a : F) (P : Fin 3 → F) : F := dblW a P * (dblV P - dblX a P) - 8 * P 1 ^ 2 * P 1 ^ 2
def dblZ (P : Fin 3 → F) : F := 2 * P 1 * P 2
def dbl (a : F) (P : Fin 3 → F) : Fin 3 → F := ![dblX a P, dblY a P, dblZ P]

theorem dblX_eq (a b : F) (P : Fin 3 → F) : dblX a P = (swc a b).dblX P := by
  simp only [dblX, dblW, dblV, Jacobian.dblX, Jacobian.dblU_eq, Jacobian.negY,
    swc_a₁, swc_a₂, swc_a₃, swc_a₄]
  ring

theorem dblY_eq (a b : F) (P : Fin 3 → F) : dblY a P = (swc a b).dblY P := by
  simp only [dblY, dblX, dblW, dblV, Jacobian.dblY, Jacobian.negDblY, Jacobian.dblX,
    Jacobian.dblU_eq, Jacobian.negY, Jacobian.fin3_def_ext, swc_a₁, swc_a₂, swc_a₃, swc_a₄]
  ring

theorem dblZ_eq (a b : F) (P : Fin 3 → F) : dblZ P = (swc a b).dblZ P := by
  simp only [dblZ, Jacobian.dblZ, Jacobian.negY, swc_a₁, swc_a₃]
  ring

/-- btclib's doubling triple is Mathlib's `dblXYZ` on the nose -/
theorem dbl_eq (a b : F) (P : Fin 3 → F) : dbl a P = (swc a b).dblXYZ P := by
  rw [dbl, Jacobian.dblXYZ, dblX_eq a b, dblY_eq a b, dblZ_eq a b]

variable [DecidableEq F]

open Jacobian.Point in
/-- `V ≠ 0`: the chord branch -/
theorem chord_spec {a b : F} {P Q : Fin 3 → F} (hP : (swc a b).Nonsingular P)
    (hQ : (swc a b).Nonsingular Q) (hPz : P 2 ≠ 0) (hQz : Q 2 ≠ 0) (hV : chordV P Q ≠ 0) :
    (swc a b).Nonsingular (chord P Q) ∧ chord P Q 2 ≠ 0 ∧
      toAffine (swc a b) (chord P Q) = toAffine (swc a b) P + toAffine (swc a b) Q := by
  have hu : IsUnit (-(P 2 * Q 2)) := (neg_ne_zero.mpr (mul_ne_zero hPz hQz)).isUnit
  have hx : P 0 * Q 2 ^ 2 ≠ Q 0 * P 2 ^ 2 := by
    intro h; apply hV; rw [chordV, h, sub_self]
  have hadd : (swc a b).add P Q = (swc a b).addXYZ P Q :=
    Jacobian.add_of_not_equiv (Jacobian.not_equiv_of_X_ne hx)
  rw [chord_eq_smul hP.1 hQ.1, ← hadd]
  refine ⟨(Jacobian.nonsingular_smul _ hu).mpr (Jacobian.nonsingular_add hP hQ), ?_, ?_⟩
  · rw [hadd, (Jacobian.smul_fin3_ext _ _).2.2, Jacobian.addXYZ_Z]
    exact mul_ne_zero hu.ne_zero (Jacobian.addZ_ne_zero_of_X_ne hx)
  · rw [toAffine_smul _ hu, toAffine_add hP hQ]

open Jacobian.Point in
/-- `V = 0 ∧ W = 0`: the two operands are the same point, the answer is the doubling -/
theorem same_spec {a b : F} {P Q : Fin 3 → F} (hP : (swc a b).Nonsingular P)
    (hQ : (swc a b).Nonsingular Q) (hPz : P 2 ≠ 0) (hQz : Q 2 ≠ 0) (hV : chordV P Q = 0)
    (hW : chordW P Q = 0) :
    (swc a b).Nonsingular (dbl a P) ∧
      toAffine (swc a b) (dbl a P) = toAffine (swc a b) P + toAffine (swc a b) Q := by
  have hx : P 0 * Q 2 ^ 2 = Q 0 * P 2 ^ 2 := by rw [chordV] at hV; linear_combination -hV
  have hy : P 1 * Q 2 ^ 3 = Q 1 * P 2 ^ 3 := by rw [chordW] at hW; linear_combination -hW
  have hadd : (swc a b).add P Q = (swc a b).dblXYZ P :=
    Jacobian.add_of_equiv (Jacobian.equiv_of_X_eq_of_Y_eq hPz hQz hx hy)
  rw [dbl_eq a b, ← hadd]
  exact ⟨Jacobian.nonsingular_add hP hQ, toAffine_add hP hQ⟩

open Jacobian.Point in
/-- doubling of any valid triple (including `Z = 0`) -/
theorem dbl_spec {a b : F} {P : Fin 3 → F} (hP : (swc a b).Nonsingular P) :
    (swc a b).Nonsingular (dbl a P) ∧
      toAffine (swc a b) (dbl a P) = toAffine (swc a b) P + toAffine (swc a b) P := by
  rw [dbl_eq a b, ← Jacobian.add_self]
  exact ⟨Jacobian.nonsingular_add hP hP, toAffine_add hP hP⟩

open Jacobian.Point in
/-- `V = 0 ∧ W ≠ 0`: opposite points, the sum is the point at infinity -/
theorem opp_spec {a b : F} {P Q : Fin 3 → F} (hP : (swc a b).Nonsingular P)
    (hQ : (swc a b).Nonsingular Q) (hPz : P 2 ≠ 0) (hQz : Q 2 ≠ 0) (hV : chordV P Q = 0)
    (hW : chordW P Q ≠ 0) :
    toAffine (swc a b) P + toAffine (swc a b) Q = 0 := by
  have hx : P 0 * Q 2 ^ 2 = Q 0 * P 2 ^ 2 := by rw [chordV] at hV; linear_combination -hV
  have hy : P 1 * Q 2 ^ 3 ≠ Q 1 * P 2 ^ 3 := by
    intro h; apply hW; rw [chordW, h, sub_self]
  rw [← toAffine_add hP hQ, Jacobian.add_of_Y_ne hP.1 hQ.1 hPz hQz hx hy,
    toAffine_smul _ (Jacobian.isUnit_addU_of_Y_ne hPz hQz hy), toAffine_zero]

omit [DecidableEq F] in
open Jacobian.Point in
/-- negation: `(X, -Y, Z)` -/
theorem neg_spec {a b : F} {P : Fin 3 → F} (hP : (swc a b).Nonsingular P) :
    (swc a b).Nonsingular ![P 0, -P 1, P 2] ∧
      toAffine (swc a b) ![P 0, -P 1, P 2] = -toAffine (swc a b) P := by
  have h : (swc a b).neg P = ![P 0, -P 1, P 2] := by
    simp [Jacobian.neg, Jacobian.negY]
  rw [← h]
  exact ⟨Jacobian.nonsingular_neg hP, toAffine_neg hP⟩

end Field

end Btc.C01
