import Mathlib.AlgebraicGeometry.EllipticCurve.Jacobian.Point
import Mathlib.Tactic.LinearCombination
import Mathlib.Tactic.Ring
import Mathlib.Data.ZMod.Basic
import Mathlib.Algebra.Field.ZMod
import Model.Common.EC
/-
C01-T1 ("L2 refines L2'"): btclib's Jacobian arithmetic (`Btc.EC.addJac`, `addJacAff`, `doubleJac`,
`negateJac`, `affFromJac`: the transcription of `CurveGroup.add_jac` … in `Model/Common/EC.lean`)
computes the group law of Mathlib's elliptic-curve point group.

Part 1: the formulas in an arbitrary field `F` (short Weierstrass curve `swc a b`), related to Mathlib's
        `Jacobian.addXYZ` / `dblXYZ`.
Part 2: the `% p` integer code is carried to `ZMod p` by `Int.cast`.
Part 3: the refinement theorems T1a–T1e and preservation of validity.

No hypothesis on the discriminant and none on `p ≠ 2` is needed: Mathlib's point group consists of the
nonsingular points of any Weierstrass curve, and validity of a triple is `Nonsingular`.
-/
open WeierstrassCurve
open scoped WeierstrassCurve.Jacobian

namespace Btc.C01

/-! ## Part 1: field level -/
section Field
variable {F : Type} [Field F]

/-- the short Weierstrass curve `y² = x³ + a x + b` -/
def swc (a b : F) : Jacobian F := ⟨0, 0, 0, a, b⟩

@[simp] theorem swc_a₁ (a b : F) : (swc a b).a₁ = 0 := rfl
@[simp] theorem swc_a₂ (a b : F) : (swc a b).a₂ = 0 := rfl
@[simp] theorem swc_a₃ (a b : F) : (swc a b).a₃ = 0 := rfl
@[simp] theorem swc_a₄ (a b : F) : (swc a b).a₄ = a := rfl
@[simp] theorem swc_a₆ (a b : F) : (swc a b).a₆ = b := rfl

theorem swc_equation_iff (a b : F) (P : Fin 3 → F) :
    (swc a b).Equation P ↔ P 1 ^ 2 = P 0 ^ 3 + a * P 0 * P 2 ^ 4 + b * P 2 ^ 6 := by
  rw [Jacobian.equation_iff]
  simp only [swc_a₁, swc_a₂, swc_a₃, swc_a₄, swc_a₆]
  constructor <;> intro h <;> linear_combination h

/-! ### btclib's chord formula (`add_jac` after the early returns), in the field -/
def chordV (P Q : Fin 3 → F) : F := Q 0 * P 2 ^ 2 - P 0 * Q 2 ^ 2
def chordW (P Q : Fin 3 → F) : F := Q 1 * P 2 ^ 3 - P 1 * Q 2 ^ 3
def chordX (P Q : Fin 3 → F) : F :=
  chordW P Q ^ 2 - chordV P Q ^ 3 - 2 * (P 0 * Q 2 ^ 2) * chordV P Q ^ 2
def chordY (P Q : Fin 3 → F) : F :=
  chordW P Q * ((P 0 * Q 2 ^ 2) * chordV P Q ^ 2 - chordX P Q) - (P 1 * Q 2 ^ 3) * chordV P Q ^ 3
def chordZ (P Q : Fin 3 → F) : F := chordV P Q * P 2 * Q 2
def chord (P Q : Fin 3 → F) : Fin 3 → F := ![chordX P Q, chordY P Q, chordZ P Q]

theorem chordZ_eq (P Q : Fin 3 → F) :
    chordZ P Q = -(P 2 * Q 2) * Jacobian.addZ P Q := by
  simp only [chordZ, chordV, Jacobian.addZ]; ring

theorem chordX_eq {a b : F} {P Q : Fin 3 → F} (hP : (swc a b).Equation P)
    (hQ : (swc a b).Equation Q) :
    chordX P Q = (-(P 2 * Q 2)) ^ 2 * (swc a b).addX P Q := by
  rw [swc_equation_iff] at hP hQ
  simp only [chordX, chordV, chordW, Jacobian.addX, swc_a₁, swc_a₂, swc_a₃, swc_a₄, swc_a₆]
  linear_combination (Q 2 ^ 6) * hP + (P 2 ^ 6) * hQ

theorem chordY_eq {a b : F} {P Q : Fin 3 → F} (hP : (swc a b).Equation P)
    (hQ : (swc a b).Equation Q) :
    chordY P Q = (-(P 2 * Q 2)) ^ 3 * (swc a b).addY P Q := by
  rw [swc_equation_iff] at hP hQ
  simp only [chordY, chordX, chordV, chordW, Jacobian.addY, Jacobian.negY_eq, Jacobian.negAddY,
    Jacobian.addX, Jacobian.addZ, swc_a₁, swc_a₂, swc_a₃, swc_a₄, swc_a₆]
  linear_combination (P 1 * Q 2 ^ 9 - Q 1 * P 2 ^ 3 * Q 2 ^ 6) * hP
    + (P 1 * P 2 ^ 6 * Q 2 ^ 3 - Q 1 * P 2 ^ 9) * hQ

/-- btclib's chord triple is Mathlib's `addXYZ` scaled by the unit `-(Z₁Z₂)` -/
theorem chord_eq_smul {a b : F} {P Q : Fin 3 → F} (hP : (swc a b).Equation P)
    (hQ : (swc a b).Equation Q) :
    chord P Q = (-(P 2 * Q 2)) • (swc a b).addXYZ P Q := by
  rw [Jacobian.smul_fin3, Jacobian.addXYZ_X, Jacobian.addXYZ_Y, Jacobian.addXYZ_Z, chord,
    chordX_eq hP hQ, chordY_eq hP hQ, chordZ_eq]

/-! ### btclib's doubling formula (`_double_jac_helper`), in the field -/
def dblW (a : F) (P : Fin 3 → F) : F := 3 * P 0 ^ 2 + a * P 2 ^ 4
def dblV (P : Fin 3 → F) : F := 4 * P 0 * P 1 ^ 2
def dblX (a : F) (P : Fin 3 → F) : F := dblW a P ^ 2 - 2 * dblV P
def dblY (a : F) (P : Fin 3 → F) : F := dblW a P * (dblV P - dblX a P) - 8 * P 1 ^ 2 * P 1 ^ 2
def dblZ (P : Fin 3 → F) : F := 2 * P 1 * P 2
def dbl (a : F) (P : Fin 3 → F) : Fin 3 → F := ![dblX a P, dblY a P, dblZ P]

theorem dblX_eq (a b : F) (P : Fin 3 → F) : dblX a P = (swc a b).dblX P := by
  simp only [dblX, dblW, dblV, Jacobian.dblX, Jacobian.dblU_eq, Jacobian.negY,
    swc_a₁, swc_a₂, swc_a₃, swc_a₄]
  ring

theorem dblY_eq (a b : F) (P : Fin 3 → F) : dblY a P = (swc a b).dblY P := by
  simp only [dblY, dblX, dblW, dblV, Jacobian.dblY, Jacobian.negDblY, Jacobian.dblX,
    Jacobian.dblU_eq, Jacobian.negY, Jacobian.fin3_def_ext, swc_a₁, swc_a₂, swc_a₃, swc_a₄]
  ring

theorem dblZ_eq (a b : F) (P : Fin 3 → F) : dblZ P = (swc a b).dblZ P := by
  simp only [dblZ, Jacobian.dblZ, Jacobian.negY, swc_a₁, swc_a₃]
  ring

/-- btclib's doubling triple is Mathlib's `dblXYZ` on the nose -/
theorem dbl_eq (a b : F) (P : Fin 3 → F) : dbl a P = (swc a b).dblXYZ P := by
  rw [dbl, Jacobian.dblXYZ, dblX_eq a b, dblY_eq a b, dblZ_eq a b]

variable [DecidableEq F]

open Jacobian.Point in
/-- `V ≠ 0`: the chord branch -/
theorem chord_spec {a b : F} {P Q : Fin 3 → F} (hP : (swc a b).Nonsingular P)
    (hQ : (swc a b).Nonsingular Q) (hPz : P 2 ≠ 0) (hQz : Q 2 ≠ 0) (hV : chordV P Q ≠ 0) :
    (swc a b).Nonsingular (chord P Q) ∧ chord P Q 2 ≠ 0 ∧
      toAffine (swc a b) (chord P Q) = toAffine (swc a b) P + toAffine (swc a b) Q := by
  have hu : IsUnit (-(P 2 * Q 2)) := (neg_ne_zero.mpr (mul_ne_zero hPz hQz)).isUnit
  have hx : P 0 * Q 2 ^ 2 ≠ Q 0 * P 2 ^ 2 := by
    intro h; apply hV; rw [chordV, h, sub_self]
  have hadd : (swc a b).add P Q = (swc a b).addXYZ P Q :=
    Jacobian.add_of_not_equiv (Jacobian.not_equiv_of_X_ne hx)
  rw [chord_eq_smul hP.1 hQ.1, ← hadd]
  refine ⟨(Jacobian.nonsingular_smul _ hu).mpr (Jacobian.nonsingular_add hP hQ), ?_, ?_⟩
  · rw [hadd, (Jacobian.smul_fin3_ext _ _).2.2, Jacobian.addXYZ_Z]
    exact mul_ne_zero hu.ne_zero (Jacobian.addZ_ne_zero_of_X_ne hx)
  · rw [toAffine_smul _ hu, toAffine_add hP hQ]

open Jacobian.Point in
/-- `V = 0 ∧ W = 0`: the two operands are the same point, the answer is the doubling -/
theorem same_spec {a b : F} {P Q : Fin 3 → F} (hP : (swc a b).Nonsingular P)
    (hQ : (swc a b).Nonsingular Q) (hPz : P 2 ≠ 0) (hQz : Q 2 ≠ 0) (hV : chordV P Q = 0)
    (hW : chordW P Q = 0) :
    (swc a b).Nonsingular (dbl a P) ∧
      toAffine (swc a b) (dbl a P) = toAffine (swc a b) P + toAffine (swc a b) Q := by
  have hx : P 0 * Q 2 ^ 2 = Q 0 * P 2 ^ 2 := by rw [chordV] at hV; linear_combination -hV
  have hy : P 1 * Q 2 ^ 3 = Q 1 * P 2 ^ 3 := by rw [chordW] at hW; linear_combination -hW
  have hadd : (swc a b).add P Q = (swc a b).dblXYZ P :=
    Jacobian.add_of_equiv (Jacobian.equiv_of_X_eq_of_Y_eq hPz hQz hx hy)
  rw [dbl_eq a b, ← hadd]
  exact ⟨Jacobian.nonsingular_add hP hQ, toAffine_add hP hQ⟩

open Jacobian.Point in
/-- doubling of any valid triple (including `Z = 0`) -/
theorem dbl_spec {a b : F} {P : Fin 3 → F} (hP : (swc a b).Nonsingular P) :
    (swc a b).Nonsingular (dbl a P) ∧
      toAffine (swc a b) (dbl a P) = toAffine (swc a b) P + toAffine (swc a b) P := by
  rw [dbl_eq a b, ← Jacobian.add_self]
  exact ⟨Jacobian.nonsingular_add hP hP, toAffine_add hP hP⟩

open Jacobian.Point in
/-- `V = 0 ∧ W ≠ 0`: opposite points, the sum is the point at infinity -/
theorem opp_spec {a b : F} {P Q : Fin 3 → F} (hP : (swc a b).Nonsingular P)
    (hQ : (swc a b).Nonsingular Q) (hPz : P 2 ≠ 0) (hQz : Q 2 ≠ 0) (hV : chordV P Q = 0)
    (hW : chordW P Q ≠ 0) :
    toAffine (swc a b) P + toAffine (swc a b) Q = 0 := by
  have hx : P 0 * Q 2 ^ 2 = Q 0 * P 2 ^ 2 := by rw [chordV] at hV; linear_combination -hV
  have hy : P 1 * Q 2 ^ 3 ≠ Q 1 * P 2 ^ 3 := by
    intro h; apply hW; rw [chordW, h, sub_self]
  rw [← toAffine_add hP hQ, Jacobian.add_of_Y_ne hP.1 hQ.1 hPz hQz hx hy,
    toAffine_smul _ (Jacobian.isUnit_addU_of_Y_ne hPz hQz hy), toAffine_zero]

omit [DecidableEq F] in
open Jacobian.Point in
/-- negation: `(X, -Y, Z)` -/
theorem neg_spec {a b : F} {P : Fin 3 → F} (hP : (swc a b).Nonsingular P) :
    (swc a b).Nonsingular ![P 0, -P 1, P 2] ∧
      toAffine (swc a b) ![P 0, -P 1, P 2] = -toAffine (swc a b) P := by
  have h : (swc a b).neg P = ![P 0, -P 1, P 2] := by
    simp [Jacobian.neg, Jacobian.negY]
  rw [← h]
  exact ⟨Jacobian.nonsingular_neg hP, toAffine_neg hP⟩

end Field

/-! ## Part 2: from the `% p` integer code to `ZMod p` -/
section Cast
open Btc.EC

variable (p : ℕ)

/-- the coordinate-wise image of an integer triple in `ZMod p` -/
def castJ (Q : JacPoint) : Fin 3 → ZMod p := ![(Q.1 : ZMod p), (Q.2.1 : ZMod p), (Q.2.2 : ZMod p)]

@[simp] theorem castJ_0 (Q : JacPoint) : castJ p Q 0 = (Q.1 : ZMod p) := rfl
@[simp] theorem castJ_1 (Q : JacPoint) : castJ p Q 1 = (Q.2.1 : ZMod p) := rfl
@[simp] theorem castJ_2 (Q : JacPoint) : castJ p Q 2 = (Q.2.2 : ZMod p) := rfl

variable {p}
variable {c : CurveGroup} (hp : c.p = (p : ℤ))
include hp

theorem cast_emod (x : ℤ) : ((x % c.p : ℤ) : ZMod p) = (x : ZMod p) := by
  rw [hp]; exact ZMod.intCast_mod x p

theorem emod_eq_zero_iff (x : ℤ) : x % c.p = 0 ↔ (x : ZMod p) = 0 := by
  rw [hp, ZMod.intCast_zmod_eq_zero_iff_dvd, Int.dvd_iff_emod_eq_zero]

/-- a reduced value that is `0` in the field is the integer `0` -/
theorem emod_eq_zero_of_cast (x : ℤ) (h : ((x % c.p : ℤ) : ZMod p) = 0) : x % c.p = 0 := by
  rw [cast_emod hp] at h; exact (emod_eq_zero_iff hp x).mpr h

/-! ### `add_jac` with both operands finite -/

def coreV (c : CurveGroup) (Q R : JacPoint) : ℤ :=
  (R.1 * (Q.2.2 * Q.2.2 % c.p) - Q.1 * (R.2.2 * R.2.2 % c.p) % c.p) % c.p

def coreW (c : CurveGroup) (Q R : JacPoint) : ℤ :=
  (R.2.1 * (Q.2.2 * Q.2.2 % c.p * Q.2.2 % c.p)
    - Q.2.1 * (R.2.2 * R.2.2 % c.p * R.2.2 % c.p) % c.p) % c.p

def coreChord (c : CurveGroup) (Q R : JacPoint) : JacPoint :=
  let p := c.p
  let M := Q.1 * (R.2.2 * R.2.2 % p) % p
  let T := Q.2.1 * (R.2.2 * R.2.2 % p * R.2.2 % p) % p
  let V := coreV c Q R
  let W := coreW c Q R
  let V2 := V * V % p
  let V3 := V2 * V % p
  let MV2 := M * V2 % p
  let X := (W * W - V3 - 2 * MV2) % p
  let Y := (W * (MV2 - X) - T * V3) % p
  let Z := V * Q.2.2 % p * R.2.2 % p
  (X, Y, Z)

omit hp in
theorem addJac_finite (c : CurveGroup) (Q R : JacPoint) (hQ : Q.2.2 ≠ 0) (hR : R.2.2 ≠ 0) :
    addJac c Q R =
      if coreV c Q R = 0 then
        (if coreW c Q R = 0 then doubleJacHelper c Q (Q.2.2 * Q.2.2 % c.p) else INFJ)
      else coreChord c Q R := by
  simp only [addJac, hQ, hR, if_false, ne_eq, not_false_eq_true, and_true]
  rfl

omit hp in
theorem addJac_inf_inf (c : CurveGroup) (Q R : JacPoint) (hQ : Q.2.2 = 0) (hR : R.2.2 = 0) :
    addJac c Q R = INFJ := by
  simp [addJac, hQ, hR]

omit hp in
theorem addJac_inf_left (c : CurveGroup) (Q R : JacPoint) (hQ : Q.2.2 = 0) (hR : R.2.2 ≠ 0) :
    addJac c Q R = R := by
  simp [addJac, hQ, hR]

omit hp in
theorem addJac_inf_right (c : CurveGroup) (Q R : JacPoint) (hQ : Q.2.2 ≠ 0) (hR : R.2.2 = 0) :
    addJac c Q R = Q := by
  simp [addJac, hQ, hR]

variable [Fact p.Prime]

theorem coreV_cast (Q R : JacPoint) :
    ((coreV c Q R : ℤ) : ZMod p) = chordV (castJ p Q) (castJ p R) := by
  simp only [coreV, chordV, castJ_0, castJ_2, cast_emod hp, Int.cast_sub, Int.cast_mul]
  ring

theorem coreW_cast (Q R : JacPoint) :
    ((coreW c Q R : ℤ) : ZMod p) = chordW (castJ p Q) (castJ p R) := by
  simp only [coreW, chordW, castJ_1, castJ_2, cast_emod hp, Int.cast_sub, Int.cast_mul]
  ring

theorem coreV_eq_zero_iff (Q R : JacPoint) :
    coreV c Q R = 0 ↔ chordV (castJ p Q) (castJ p R) = 0 := by
  rw [← coreV_cast hp]
  constructor
  · intro h; rw [h]; exact Int.cast_zero
  · intro h; rw [coreV] at h ⊢; exact emod_eq_zero_of_cast hp _ h

theorem coreW_eq_zero_iff (Q R : JacPoint) :
    coreW c Q R = 0 ↔ chordW (castJ p Q) (castJ p R) = 0 := by
  rw [← coreW_cast hp]
  constructor
  · intro h; rw [h]; exact Int.cast_zero
  · intro h; rw [coreW] at h ⊢; exact emod_eq_zero_of_cast hp _ h

theorem coreChord_cast (Q R : JacPoint) :
    castJ p (coreChord c Q R) = chord (castJ p Q) (castJ p R) := by
  have h0 : ((coreChord c Q R).1 : ZMod p) = chordX (castJ p Q) (castJ p R) := by
    simp only [coreChord, chordX, cast_emod hp, Int.cast_sub, Int.cast_mul, Int.cast_ofNat,
      coreV_cast hp, coreW_cast hp, castJ_0, castJ_2]
    ring
  have h1 : ((coreChord c Q R).2.1 : ZMod p) = chordY (castJ p Q) (castJ p R) := by
    simp only [coreChord, chordY, chordX, cast_emod hp, Int.cast_sub, Int.cast_mul,
      Int.cast_ofNat, coreV_cast hp, coreW_cast hp, castJ_0, castJ_1, castJ_2]
    ring
  have h2 : ((coreChord c Q R).2.2 : ZMod p) = chordZ (castJ p Q) (castJ p R) := by
    simp only [coreChord, chordZ, cast_emod hp, Int.cast_mul, coreV_cast hp, castJ_2]
  rw [castJ, chord, h0, h1, h2]

/-! ### `_double_jac_helper`: the three spellings of `a·Z⁴` -/

theorem cast_a_minus_3 (ha : c.a = c.p - 3) : ((c.a : ℤ) : ZMod p) = -3 := by
  rw [ha, hp]; simp

theorem doubleJacHelper_cast (Q : JacPoint) (QZ2 : ℤ)
    (hz : c.a = 0 ∨ (QZ2 : ZMod p) = (Q.2.2 : ZMod p) ^ 2) :
    castJ p (doubleJacHelper c Q QZ2) = dbl (c.a : ZMod p) (castJ p Q) := by
  obtain ⟨X1, Y1, Z1⟩ := Q
  have hW : (((if c.a = 0 then 3 * X1 * X1 % c.p
        else if c.a = c.p - 3 then 3 * (X1 - QZ2) * (X1 + QZ2) % c.p
        else (3 * X1 * X1 + c.a * QZ2 * QZ2) % c.p : ℤ)) : ZMod p)
      = dblW (c.a : ZMod p) (castJ p (X1, Y1, Z1)) := by
    by_cases h0 : c.a = 0
    · simp only [h0, if_true, dblW, cast_emod hp, Int.cast_mul, Int.cast_ofNat, castJ_0,
        Int.cast_zero]
      ring
    · have hz' : (QZ2 : ZMod p) = (Z1 : ZMod p) ^ 2 := by
        rcases hz with h | h
        · exact absurd h h0
        · exact h
      by_cases h3 : c.a = c.p - 3
      · simp only [h0, if_false, if_pos h3, dblW, cast_emod hp, Int.cast_mul, Int.cast_ofNat,
          Int.cast_sub, Int.cast_add, castJ_0, castJ_2, hz', cast_a_minus_3 hp h3]
        ring
      · simp only [h0, h3, if_false, dblW, cast_emod hp, Int.cast_mul, Int.cast_ofNat,
          Int.cast_add, castJ_0, castJ_2, hz']
        ring
  have h0 : ((doubleJacHelper c (X1, Y1, Z1) QZ2).1 : ZMod p)
      = dblX (c.a : ZMod p) (castJ p (X1, Y1, Z1)) := by
    simp only [doubleJacHelper, dblX, dblV, cast_emod hp, Int.cast_sub, Int.cast_mul,
      Int.cast_ofNat, hW, castJ_0, castJ_1]
    ring
  have h1 : ((doubleJacHelper c (X1, Y1, Z1) QZ2).2.1 : ZMod p)
      = dblY (c.a : ZMod p) (castJ p (X1, Y1, Z1)) := by
    simp only [doubleJacHelper, dblY, dblX, dblV, cast_emod hp, Int.cast_sub, Int.cast_mul,
      Int.cast_ofNat, hW, castJ_0, castJ_1]
    ring
  have h2 : ((doubleJacHelper c (X1, Y1, Z1) QZ2).2.2 : ZMod p)
      = dblZ (castJ p (X1, Y1, Z1)) := by
    simp only [doubleJacHelper, dblZ, cast_emod hp, Int.cast_mul, Int.cast_ofNat, castJ_1,
      castJ_2]
  rw [castJ, dbl, h0, h1, h2]

/-- the `Z` returned by the doubling is reduced: `0` in the field ⇒ the integer `0` -/
theorem doubleJacHelper_Z_reduced (Q : JacPoint) (QZ2 : ℤ)
    (h : ((doubleJacHelper c Q QZ2).2.2 : ZMod p) = 0) : (doubleJacHelper c Q QZ2).2.2 = 0 := by
  obtain ⟨X1, Y1, Z1⟩ := Q
  exact emod_eq_zero_of_cast hp _ h

theorem coreChord_Z_reduced (Q R : JacPoint)
    (h : ((coreChord c Q R).2.2 : ZMod p) = 0) : (coreChord c Q R).2.2 = 0 :=
  emod_eq_zero_of_cast hp _ h

theorem doubleJac_eq (Q : JacPoint) :
    castJ p (doubleJac c Q) = dbl (c.a : ZMod p) (castJ p Q) := by
  rw [doubleJac]
  apply doubleJacHelper_cast hp
  by_cases h0 : c.a = 0
  · exact Or.inl h0
  · right; simp only [h0, if_false, cast_emod hp, Int.cast_mul]; ring

/-! ### `add_jac_aff` with both operands finite -/

def affV (c : CurveGroup) (Q : JacPoint) (R : Point) : ℤ :=
  (R.1 * (Q.2.2 * Q.2.2 % c.p) - Q.1) % c.p

def affW (c : CurveGroup) (Q : JacPoint) (R : Point) : ℤ :=
  (R.2 * (Q.2.2 * Q.2.2 % c.p * Q.2.2 % c.p) - Q.2.1) % c.p

def affChord (c : CurveGroup) (Q : JacPoint) (R : Point) : JacPoint :=
  let p := c.p
  let M := Q.1
  let T := Q.2.1
  let V := affV c Q R
  let W := affW c Q R
  let V2 := V * V % p
  let V3 := V2 * V % p
  let MV2 := M * V2 % p
  let X := (W * W - V3 - 2 * MV2) % p
  let Y := (W * (MV2 - X) - T * V3) % p
  let Z := V * Q.2.2 % p
  (X, Y, Z)

omit hp [Fact p.Prime] in
theorem addJacAff_finite (c : CurveGroup) (Q : JacPoint) (R : Point) (hQ : Q.2.2 ≠ 0)
    (hR : R.2 ≠ 0) :
    addJacAff c Q R =
      if affV c Q R = 0 then
        (if affW c Q R = 0 then doubleJacHelper c Q (Q.2.2 * Q.2.2 % c.p) else INFJ)
      else affChord c Q R := by
  simp only [addJacAff, hQ, hR, if_false, ne_eq, not_false_eq_true, and_true]
  rfl

omit hp [Fact p.Prime] in
theorem addJacAff_inf_inf (c : CurveGroup) (Q : JacPoint) (R : Point) (hQ : Q.2.2 = 0)
    (hR : R.2 = 0) : addJacAff c Q R = INFJ := by
  simp [addJacAff, hQ, hR]

omit hp [Fact p.Prime] in
theorem addJacAff_inf_left (c : CurveGroup) (Q : JacPoint) (R : Point) (hQ : Q.2.2 = 0)
    (hR : R.2 ≠ 0) : addJacAff c Q R = (R.1, R.2, 1) := by
  simp [addJacAff, hQ, hR]

omit hp [Fact p.Prime] in
theorem addJacAff_inf_right (c : CurveGroup) (Q : JacPoint) (R : Point) (hQ : Q.2.2 ≠ 0)
    (hR : R.2 = 0) : addJacAff c Q R = Q := by
  simp [addJacAff, hQ, hR]

theorem affV_cast (Q : JacPoint) (R : Point) :
    ((affV c Q R : ℤ) : ZMod p) = chordV (castJ p Q) (castJ p (R.1, R.2, 1)) := by
  simp only [affV, chordV, castJ_0, castJ_2, cast_emod hp, Int.cast_sub, Int.cast_mul,
    Int.cast_one]
  ring

theorem affW_cast (Q : JacPoint) (R : Point) :
    ((affW c Q R : ℤ) : ZMod p) = chordW (castJ p Q) (castJ p (R.1, R.2, 1)) := by
  simp only [affW, chordW, castJ_1, castJ_2, cast_emod hp, Int.cast_sub, Int.cast_mul,
    Int.cast_one]
  ring

theorem affV_eq_zero_iff (Q : JacPoint) (R : Point) :
    affV c Q R = 0 ↔ chordV (castJ p Q) (castJ p (R.1, R.2, 1)) = 0 := by
  rw [← affV_cast hp]
  constructor
  · intro h; rw [h]; exact Int.cast_zero
  · intro h; rw [affV] at h ⊢; exact emod_eq_zero_of_cast hp _ h

theorem affW_eq_zero_iff (Q : JacPoint) (R : Point) :
    affW c Q R = 0 ↔ chordW (castJ p Q) (castJ p (R.1, R.2, 1)) = 0 := by
  rw [← affW_cast hp]
  constructor
  · intro h; rw [h]; exact Int.cast_zero
  · intro h; rw [affW] at h ⊢; exact emod_eq_zero_of_cast hp _ h

theorem affChord_cast (Q : JacPoint) (R : Point) :
    castJ p (affChord c Q R) = chord (castJ p Q) (castJ p (R.1, R.2, 1)) := by
  have h0 : ((affChord c Q R).1 : ZMod p) = chordX (castJ p Q) (castJ p (R.1, R.2, 1)) := by
    simp only [affChord, chordX, cast_emod hp, Int.cast_sub, Int.cast_mul, Int.cast_ofNat,
      affV_cast hp, affW_cast hp, castJ_0, castJ_2, Int.cast_one]
    ring
  have h1 : ((affChord c Q R).2.1 : ZMod p) = chordY (castJ p Q) (castJ p (R.1, R.2, 1)) := by
    simp only [affChord, chordY, chordX, cast_emod hp, Int.cast_sub, Int.cast_mul,
      Int.cast_ofNat, affV_cast hp, affW_cast hp, castJ_0, castJ_1, castJ_2, Int.cast_one]
    ring
  have h2 : ((affChord c Q R).2.2 : ZMod p) = chordZ (castJ p Q) (castJ p (R.1, R.2, 1)) := by
    simp only [affChord, chordZ, cast_emod hp, Int.cast_mul, affV_cast hp, castJ_2, Int.cast_one,
      mul_one]
  rw [castJ, chord, h0, h1, h2]

theorem affChord_Z_reduced (Q : JacPoint) (R : Point)
    (h : ((affChord c Q R).2.2 : ZMod p) = 0) : (affChord c Q R).2.2 = 0 :=
  emod_eq_zero_of_cast hp _ h

/-! ### `negate_jac` -/

theorem negateJac_cast (Q : JacPoint) :
    castJ p (negateJac c Q) = ![castJ p Q 0, -castJ p Q 1, castJ p Q 2] := by
  have h1 : (((c.p - Q.2.1) % c.p : ℤ) : ZMod p) = -(Q.2.1 : ZMod p) := by
    rw [cast_emod hp, hp]; simp
  rw [negateJac, castJ, h1]
  rfl

end Cast

/-! ## Part 3: the refinement theorems -/
section Refine
open Btc.EC Jacobian.Point

variable (p : ℕ) [Fact p.Prime]

/-- Mathlib's curve `y² = x³ + a x + b` over `ZMod p` for btclib's `CurveGroup(p, a, b)` -/
def curveOf (c : CurveGroup) : Jacobian (ZMod p) := swc (c.a : ZMod p) (c.b : ZMod p)

/-- abstraction: the point of Mathlib's group denoted by an integer Jacobian triple
(`0` when `Z = 0` in the field) -/
noncomputable def absJ (c : CurveGroup) (Q : JacPoint) : (curveOf p c).toAffine.Point :=
  toAffine (curveOf p c) (castJ p Q)

/-- validity of btclib's Jacobian triple: `Z` is `0` as an integer whenever it is `0` in the field
(true of every reduced triple `0 ≤ Z < p`), and a triple with `Z ≠ 0` is a nonsingular point of the
curve.  EVERY triple `(X, Y, 0)` is valid (it denotes infinity), `INFJ = (7,0,0)` included. -/
def JValid (c : CurveGroup) (Q : JacPoint) : Prop :=
  ((Q.2.2 : ZMod p) = 0 → Q.2.2 = 0) ∧ (Q.2.2 ≠ 0 → (curveOf p c).Nonsingular (castJ p Q))

variable {p} {c : CurveGroup}

theorem absJ_of_Z_eq_zero {Q : JacPoint} (h : Q.2.2 = 0) : absJ p c Q = 0 := by
  apply toAffine_of_Z_eq_zero
  rw [castJ_2, h, Int.cast_zero]

theorem JValid_of_Z_eq_zero {Q : JacPoint} (h : Q.2.2 = 0) : JValid p c Q :=
  ⟨fun _ => h, fun h' => absurd h h'⟩

theorem JValid_INFJ : JValid p c INFJ := JValid_of_Z_eq_zero rfl

theorem absJ_INFJ : absJ p c INFJ = 0 := absJ_of_Z_eq_zero rfl

/-- Mathlib-valid triples with a reduced `Z` are valid -/
theorem JValid_of_nonsingular {Q : JacPoint} (hp : c.p = (p : ℤ))
    (hZ : 0 ≤ Q.2.2 ∧ Q.2.2 < c.p) (h : (curveOf p c).Nonsingular (castJ p Q)) : JValid p c Q := by
  refine ⟨fun h0 => ?_, fun _ => h⟩
  have := (emod_eq_zero_iff hp Q.2.2).mpr h0
  rwa [Int.emod_eq_of_lt hZ.1 hZ.2] at this

theorem JValid.Z_ne {Q : JacPoint} (h : JValid p c Q) (hZ : Q.2.2 ≠ 0) : castJ p Q 2 ≠ 0 :=
  fun h0 => hZ (h.1 h0)

variable (hp : c.p = (p : ℤ))
include hp

/-- T1a: `add_jac` computes the group law, all cases (stand-ins, doubling, opposite points). -/
theorem addJac_spec (Q R : JacPoint) (hQ : JValid p c Q) (hR : JValid p c R) :
    JValid p c (addJac c Q R) ∧ absJ p c (addJac c Q R) = absJ p c Q + absJ p c R := by
  by_cases hQz : Q.2.2 = 0
  · by_cases hRz : R.2.2 = 0
    · rw [addJac_inf_inf c Q R hQz hRz, absJ_INFJ, absJ_of_Z_eq_zero hQz, absJ_of_Z_eq_zero hRz,
        add_zero]
      exact ⟨JValid_INFJ, rfl⟩
    · rw [addJac_inf_left c Q R hQz hRz, absJ_of_Z_eq_zero hQz, zero_add]
      exact ⟨hR, rfl⟩
  · by_cases hRz : R.2.2 = 0
    · rw [addJac_inf_right c Q R hQz hRz, absJ_of_Z_eq_zero hRz, add_zero]
      exact ⟨hQ, rfl⟩
    · have hPn := hQ.2 hQz
      have hRn := hR.2 hRz
      have hPz := hQ.Z_ne hQz
      have hRz' := hR.Z_ne hRz
      rw [addJac_finite c Q R hQz hRz]
      by_cases hV : coreV c Q R = 0
      · rw [if_pos hV]
        have hV' := (coreV_eq_zero_iff hp Q R).mp hV
        by_cases hW : coreW c Q R = 0
        · rw [if_pos hW]
          have hW' := (coreW_eq_zero_iff hp Q R).mp hW
          have hc := doubleJacHelper_cast hp Q (Q.2.2 * Q.2.2 % c.p)
            (Or.inr (by rw [cast_emod hp, Int.cast_mul]; ring))
          obtain ⟨hn, ha⟩ := same_spec hPn hRn hPz hRz' hV' hW'
          refine ⟨⟨doubleJacHelper_Z_reduced hp _ _, fun _ => ?_⟩, ?_⟩
          · rw [hc]; exact hn
          · rw [absJ, hc]; exact ha
        · rw [if_neg hW]
          have hW' : chordW (castJ p Q) (castJ p R) ≠ 0 :=
            fun h => hW ((coreW_eq_zero_iff hp Q R).mpr h)
          refine ⟨JValid_INFJ, ?_⟩
          rw [absJ_INFJ]
          exact (opp_spec hPn hRn hPz hRz' hV' hW').symm
      · rw [if_neg hV]
        have hV' : chordV (castJ p Q) (castJ p R) ≠ 0 :=
          fun h => hV ((coreV_eq_zero_iff hp Q R).mpr h)
        obtain ⟨hn, _, ha⟩ := chord_spec hPn hRn hPz hRz' hV'
        have hc := coreChord_cast hp Q R
        refine ⟨⟨coreChord_Z_reduced hp _ _, fun _ => ?_⟩, ?_⟩
        · rw [hc]; exact hn
        · rw [absJ, hc]; exact ha

theorem addJac_refines (Q R : JacPoint) (hQ : JValid p c Q) (hR : JValid p c R) :
    absJ p c (addJac c Q R) = absJ p c Q + absJ p c R :=
  (addJac_spec hp Q R hQ hR).2

theorem addJac_valid (Q R : JacPoint) (hQ : JValid p c Q) (hR : JValid p c R) :
    JValid p c (addJac c Q R) :=
  (addJac_spec hp Q R hQ hR).1

/-- T1c: `double_jac` computes `Q + Q`, whichever of the three spellings of `a·Z⁴` the curve selects
(`a = 0`, `a = p - 3`, general: the selection is inside `doubleJacHelper`, mirrored from the code). -/
theorem doubleJacHelper_spec (Q : JacPoint) (QZ2 : ℤ)
    (hz : c.a = 0 ∨ (QZ2 : ZMod p) = (Q.2.2 : ZMod p) ^ 2) (hQ : JValid p c Q) :
    JValid p c (doubleJacHelper c Q QZ2) ∧
      absJ p c (doubleJacHelper c Q QZ2) = absJ p c Q + absJ p c Q := by
  have hc := doubleJacHelper_cast hp Q QZ2 hz
  by_cases hQz : Q.2.2 = 0
  · have hz0 : (doubleJacHelper c Q QZ2).2.2 = 0 := by
      apply doubleJacHelper_Z_reduced hp
      have : castJ p (doubleJacHelper c Q QZ2) 2 = 0 := by
        rw [hc]; simp [dbl, dblZ, hQz]
      exact this
    rw [absJ_of_Z_eq_zero hz0, absJ_of_Z_eq_zero hQz, add_zero]
    exact ⟨JValid_of_Z_eq_zero hz0, rfl⟩
  · obtain ⟨hn, ha⟩ := dbl_spec (hQ.2 hQz)
    refine ⟨⟨doubleJacHelper_Z_reduced hp _ _, fun _ => ?_⟩, ?_⟩
    · rw [hc]; exact hn
    · rw [absJ, hc]; exact ha

theorem doubleJac_spec (Q : JacPoint) (hQ : JValid p c Q) :
    JValid p c (doubleJac c Q) ∧ absJ p c (doubleJac c Q) = absJ p c Q + absJ p c Q := by
  rw [doubleJac]
  apply doubleJacHelper_spec hp _ _ _ hQ
  by_cases h0 : c.a = 0
  · exact Or.inl h0
  · right; simp only [h0, if_false, cast_emod hp, Int.cast_mul]; ring

theorem doubleJac_refines (Q : JacPoint) (hQ : JValid p c Q) :
    absJ p c (doubleJac c Q) = absJ p c Q + absJ p c Q := (doubleJac_spec hp Q hQ).2

theorem doubleJac_valid (Q : JacPoint) (hQ : JValid p c Q) : JValid p c (doubleJac c Q) :=
  (doubleJac_spec hp Q hQ).1

/-- T1c, spelling 1 (`_a_is_zero`): `W = 3X²` -/
theorem doubleJac_refines_a_zero (_ha : c.a = 0) (Q : JacPoint) (hQ : JValid p c Q) :
    absJ p c (doubleJac c Q) = absJ p c Q + absJ p c Q := doubleJac_refines hp Q hQ

/-- T1c, spelling 2 (`_a_is_minus_3`): `W = 3(X - Z²)(X + Z²)` -/
theorem doubleJac_refines_a_minus_3 (_ha : c.a = c.p - 3) (Q : JacPoint) (hQ : JValid p c Q) :
    absJ p c (doubleJac c Q) = absJ p c Q + absJ p c Q := doubleJac_refines hp Q hQ

/-- T1c, spelling 3 (general `a`): `W = 3X² + a·Z⁴` -/
theorem doubleJac_refines_general (_h0 : c.a ≠ 0) (_h3 : c.a ≠ c.p - 3) (Q : JacPoint)
    (hQ : JValid p c Q) :
    absJ p c (doubleJac c Q) = absJ p c Q + absJ p c Q := doubleJac_refines hp Q hQ

/-- T1d: `negate_jac` computes the inverse. -/
theorem negateJac_spec (Q : JacPoint) (hQ : JValid p c Q) :
    JValid p c (negateJac c Q) ∧ absJ p c (negateJac c Q) = -absJ p c Q := by
  have hc := negateJac_cast hp Q
  have hz : (negateJac c Q).2.2 = Q.2.2 := rfl
  by_cases hQz : Q.2.2 = 0
  · rw [absJ_of_Z_eq_zero (hz.trans hQz), absJ_of_Z_eq_zero hQz, neg_zero]
    exact ⟨JValid_of_Z_eq_zero (hz.trans hQz), rfl⟩
  · obtain ⟨hn, ha⟩ := neg_spec (hQ.2 hQz)
    refine ⟨⟨fun h => ?_, fun _ => ?_⟩, ?_⟩
    · rw [hz] at h ⊢; exact hQ.1 h
    · rw [hc]; exact hn
    · rw [absJ, hc]; exact ha

theorem negateJac_refines (Q : JacPoint) (hQ : JValid p c Q) :
    absJ p c (negateJac c Q) = -absJ p c Q := (negateJac_spec hp Q hQ).2

theorem negateJac_valid (Q : JacPoint) (hQ : JValid p c Q) : JValid p c (negateJac c Q) :=
  (negateJac_spec hp Q hQ).1

/-! ### affine second operand -/
omit hp

variable (p) in
/-- validity of btclib's affine pair: `y = 0` (the integer) spells infinity; any other pair is a
nonsingular point of the curve.  (No range condition: `(x, p)` is read, correctly, as the
2-torsion point `(x, 0)` of the field, because the code tests the integer `y`.) -/
def AValid (c : CurveGroup) (R : Point) : Prop :=
  R.2 ≠ 0 → (curveOf p c).Nonsingular (castJ p (R.1, R.2, 1))

variable (p) in
/-- abstraction of an affine pair (`0` when `y = 0`) -/
noncomputable def absA (c : CurveGroup) (R : Point) : (curveOf p c).toAffine.Point :=
  absJ p c (jacFromAff R)

theorem absA_of_y_eq_zero {R : Point} (h : R.2 = 0) : absA p c R = 0 := by
  apply absJ_of_Z_eq_zero
  simp [jacFromAff, h]

theorem absA_of_y_ne_zero {R : Point} (h : R.2 ≠ 0) : absA p c R = absJ p c (R.1, R.2, 1) := by
  simp [absA, jacFromAff, h]

/-- a valid affine pair with `y ≠ 0` denotes the affine point with these coordinates -/
theorem absA_eq_some {R : Point} (h : R.2 ≠ 0) (hR : AValid p c R) :
    ∃ hns : (curveOf p c).toAffine.Nonsingular (R.1 : ZMod p) (R.2 : ZMod p),
      absA p c R = .some _ _ hns := by
  have e : castJ p (R.1, R.2, 1) = ![(R.1 : ZMod p), (R.2 : ZMod p), 1] := by simp [castJ]
  have hn : (curveOf p c).Nonsingular ![(R.1 : ZMod p), (R.2 : ZMod p), 1] := by
    have := hR h; rwa [e] at this
  refine ⟨(Jacobian.nonsingular_some ..).mp hn, ?_⟩
  rw [absA_of_y_ne_zero h, absJ, e, toAffine_some hn]

theorem JValid_of_AValid {R : Point} (h : R.2 ≠ 0) (hR : AValid p c R) :
    JValid p c (R.1, R.2, 1) := by
  refine ⟨fun h1 => ?_, fun _ => hR h⟩
  simp at h1

theorem JValid_jacFromAff {R : Point} (hR : AValid p c R) : JValid p c (jacFromAff R) := by
  by_cases h : R.2 = 0
  · exact JValid_of_Z_eq_zero (by simp [jacFromAff, h])
  · have : jacFromAff R = (R.1, R.2, 1) := by simp [jacFromAff, h]
    rw [this]; exact JValid_of_AValid h hR

include hp

/-- T1b: `add_jac_aff` computes the group law (second operand affine, infinity spelled `y = 0`). -/
theorem addJacAff_spec (Q : JacPoint) (R : Point) (hQ : JValid p c Q) (hR : AValid p c R) :
    JValid p c (addJacAff c Q R) ∧ absJ p c (addJacAff c Q R) = absJ p c Q + absA p c R := by
  by_cases hQz : Q.2.2 = 0
  · by_cases hRz : R.2 = 0
    · rw [addJacAff_inf_inf c Q R hQz hRz, absJ_INFJ, absJ_of_Z_eq_zero hQz,
        absA_of_y_eq_zero hRz, add_zero]
      exact ⟨JValid_INFJ, rfl⟩
    · rw [addJacAff_inf_left c Q R hQz hRz, absJ_of_Z_eq_zero hQz, zero_add,
        absA_of_y_ne_zero hRz]
      exact ⟨JValid_of_AValid hRz hR, rfl⟩
  · by_cases hRz : R.2 = 0
    · rw [addJacAff_inf_right c Q R hQz hRz, absA_of_y_eq_zero hRz, add_zero]
      exact ⟨hQ, rfl⟩
    · have hPn := hQ.2 hQz
      have hRn := hR hRz
      have hPz := hQ.Z_ne hQz
      have hRz' : castJ p (R.1, R.2, 1) 2 ≠ 0 := by simp
      rw [addJacAff_finite c Q R hQz hRz, absA_of_y_ne_zero hRz]
      by_cases hV : affV c Q R = 0
      · rw [if_pos hV]
        have hV' := (affV_eq_zero_iff hp Q R).mp hV
        by_cases hW : affW c Q R = 0
        · rw [if_pos hW]
          have hW' := (affW_eq_zero_iff hp Q R).mp hW
          have hc := doubleJacHelper_cast hp Q (Q.2.2 * Q.2.2 % c.p)
            (Or.inr (by rw [cast_emod hp, Int.cast_mul]; ring))
          obtain ⟨hn, ha⟩ := same_spec hPn hRn hPz hRz' hV' hW'
          refine ⟨⟨doubleJacHelper_Z_reduced hp _ _, fun _ => ?_⟩, ?_⟩
          · rw [hc]; exact hn
          · rw [absJ, hc]; exact ha
        · rw [if_neg hW]
          have hW' : chordW (castJ p Q) (castJ p (R.1, R.2, 1)) ≠ 0 :=
            fun h => hW ((affW_eq_zero_iff hp Q R).mpr h)
          refine ⟨JValid_INFJ, ?_⟩
          rw [absJ_INFJ]
          exact (opp_spec hPn hRn hPz hRz' hV' hW').symm
      · rw [if_neg hV]
        have hV' : chordV (castJ p Q) (castJ p (R.1, R.2, 1)) ≠ 0 :=
          fun h => hV ((affV_eq_zero_iff hp Q R).mpr h)
        obtain ⟨hn, _, ha⟩ := chord_spec hPn hRn hPz hRz' hV'
        have hc := affChord_cast hp Q R
        refine ⟨⟨affChord_Z_reduced hp _ _, fun _ => ?_⟩, ?_⟩
        · rw [hc]; exact hn
        · rw [absJ, hc]; exact ha

theorem addJacAff_refines (Q : JacPoint) (R : Point) (hQ : JValid p c Q) (hR : AValid p c R) :
    absJ p c (addJacAff c Q R) = absJ p c Q + absA p c R := (addJacAff_spec hp Q R hQ hR).2

theorem addJacAff_valid (Q : JacPoint) (R : Point) (hQ : JValid p c Q) (hR : AValid p c R) :
    JValid p c (addJacAff c Q R) := (addJacAff_spec hp Q R hQ hR).1

end Refine

/-! ## `mod_inv_var` (`pow(a, -1, m)`): correct from the extended-Euclid invariant -/
section ModInv
open Btc.EC

/-- Bézout invariant, read in `ZMod n`: the returned pair satisfies `g = a·x`. -/
theorem xgcdAux_cast {n : ℕ} (a : ZMod n) : ∀ (fuel : ℕ) (r0 r1 x0 x1 : ℤ),
    (r0 : ZMod n) = a * x0 → (r1 : ZMod n) = a * x1 →
    ((xgcdAux fuel r0 r1 x0 x1).1 : ZMod n) = a * ((xgcdAux fuel r0 r1 x0 x1).2 : ZMod n)
  | 0, r0, r1, x0, x1, h0, _ => by simpa [xgcdAux] using h0
  | fuel + 1, r0, r1, x0, x1, h0, h1 => by
    rw [xgcdAux]
    by_cases hr : r1 = 0
    · simpa [hr] using h0
    · simp only [hr, if_false]
      apply xgcdAux_cast a fuel _ _ _ _ h1
      push_cast
      rw [h0, h1]; ring

/-- with enough fuel the first component is the gcd -/
theorem xgcdAux_gcd : ∀ (fuel : ℕ) (r0 r1 x0 x1 : ℤ), 0 ≤ r0 → 0 ≤ r1 → r1 < fuel →
    (xgcdAux fuel r0 r1 x0 x1).1 = (Int.gcd r0 r1 : ℤ)
  | 0, r0, r1, x0, x1, _, h1, hf => by omega
  | fuel + 1, r0, r1, x0, x1, h0, h1, hf => by
    rw [xgcdAux]
    by_cases hr : r1 = 0
    · simp only [hr, if_true, Int.gcd_zero_right]
      omega
    · simp only [hr, if_false]
      have hpos : 0 < r1 := by omega
      have hmod : r0 - r0 / r1 * r1 = r0 % r1 := by rw [Int.emod_def]; ring
      have hb0 : 0 ≤ r0 % r1 := Int.emod_nonneg _ hr
      have hb1 : r0 % r1 < r1 := Int.emod_lt_of_pos _ hpos
      rw [xgcdAux_gcd fuel r1 (r0 - r0 / r1 * r1) _ _ h1 (by rw [hmod]; exact hb0)
        (by rw [hmod]; omega), Int.gcd_sub_mul_right_right, Int.gcd_comm]

/-- T9 (one direction, every modulus `n ≥ 1`, every integer `a`): when `gcd a n = 1`, `modInv`
returns the reduced inverse. -/
theorem modInv_spec {n : ℕ} (hn : 1 ≤ n) (a : ℤ) (hg : Int.gcd a n = 1) :
    ∃ x, modInv a n = some x ∧ 0 ≤ x ∧ x < n ∧ ((a : ZMod n) * (x : ZMod n) = 1) := by
  have hn' : ¬ ((n : ℤ) < 1) := by omega
  have hnz : (n : ℤ) ≠ 0 := by omega
  have hg1 : (xgcdAux ((n : ℤ).toNat + 2) (a % n) n 1 0).1 = 1 := by
    rw [xgcdAux_gcd _ _ _ _ _ (Int.emod_nonneg _ hnz) (by omega) (by simp), Int.gcd_emod, hg]
    rfl
  have hc := xgcdAux_cast (n := n) (a : ZMod n) ((n : ℤ).toNat + 2) (a % n) n 1 0
    (by rw [ZMod.intCast_mod]; simp) (by simp)
  rw [hg1] at hc
  refine ⟨(xgcdAux ((n : ℤ).toNat + 2) (a % n) n 1 0).2 % n, ?_, Int.emod_nonneg _ hnz,
    Int.emod_lt_of_pos _ (by omega), ?_⟩
  · simp only [modInv, hn', if_false]
    rw [if_pos hg1]
  · rw [ZMod.intCast_mod, ← hc]; simp

/-- in a prime field every nonzero residue is inverted -/
theorem modInv_prime {p : ℕ} [hpf : Fact p.Prime] (a : ℤ) (ha : (a : ZMod p) ≠ 0) :
    ∃ x, modInv a p = some x ∧ 0 ≤ x ∧ x < p ∧ ((a : ZMod p) * (x : ZMod p) = 1) := by
  apply modInv_spec hpf.out.one_le
  rw [Int.gcd_comm, Int.gcd_eq_natAbs, Int.natAbs_natCast]
  apply (Nat.Prime.coprime_iff_not_dvd hpf.out).mpr
  intro hd
  exact ha ((ZMod.intCast_zmod_eq_zero_iff_dvd a p).mpr (Int.natCast_dvd.mpr hd))

end ModInv

/-! ## T1e: `aff_from_jac` -/
section AffFromJac
open Btc.EC Jacobian.Point

variable {p : ℕ} [Fact p.Prime] {c : CurveGroup}

omit [Fact p.Prime] in
theorem some_congr {W : Affine (ZMod p)} {x x' y y' : ZMod p} (h : W.Nonsingular x y)
    (hx : x = x') (hy : y = y') : ∃ h', Affine.Point.some x y h = Affine.Point.some x' y' h' := by
  subst hx hy; exact ⟨h, rfl⟩

omit [Fact p.Prime] in
theorem affFromJac_inf (Q : JacPoint) (hQz : Q.2.2 = 0) : affFromJac c Q = some INF := by
  simp [affFromJac, hQz]

variable (hp : c.p = (p : ℤ))
include hp

/-- the affine pair computed from a field inverse of `Z` is the point denoted by the triple -/
theorem affFromZInv_spec (Q : JacPoint) (hQ : JValid p c Q) (hQz : Q.2.2 ≠ 0) (zi : ℤ)
    (hzi : (Q.2.2 : ZMod p) * (zi : ZMod p) = 1) :
    ∃ hns : (curveOf p c).toAffine.Nonsingular ((affFromZInv c Q zi).1 : ZMod p)
        ((affFromZInv c Q zi).2 : ZMod p),
      absJ p c Q = .some _ _ hns := by
  have hz := hQ.Z_ne hQz
  rw [absJ, toAffine_of_Z_ne_zero (hQ.2 hQz) hz]
  rw [castJ_2] at hz
  have hinv : (zi : ZMod p) = (Q.2.2 : ZMod p)⁻¹ := eq_inv_of_mul_eq_one_right hzi
  apply some_congr
  · simp only [affFromZInv, castJ_0, castJ_2, cast_emod hp, Int.cast_mul, hinv]
    field_simp
  · simp only [affFromZInv, castJ_1, castJ_2, cast_emod hp, Int.cast_mul, hinv]
    field_simp

/-- T1e: for a finite valid triple `aff_from_jac` succeeds and returns the coordinates of `abs Q`;
`(Z·zinv) % p = 1` is not assumed: `modInv` is proved to return the field inverse. -/
theorem affFromJac_spec (Q : JacPoint) (hQ : JValid p c Q) (hQz : Q.2.2 ≠ 0) :
    ∃ A : Point, affFromJac c Q = some A ∧ (0 ≤ A.1 ∧ A.1 < c.p) ∧ (0 ≤ A.2 ∧ A.2 < c.p) ∧
      ∃ hns : (curveOf p c).toAffine.Nonsingular (A.1 : ZMod p) (A.2 : ZMod p),
        absJ p c Q = .some _ _ hns := by
  have hz := hQ.Z_ne hQz
  rw [castJ_2] at hz
  obtain ⟨zi, hzi, _, _, hmul⟩ := modInv_prime Q.2.2 hz
  have hpz : c.p ≠ 0 := by rw [hp]; exact_mod_cast (Fact.out : p.Prime).ne_zero
  have hpp : 0 < c.p := by rw [hp]; exact_mod_cast (Fact.out : p.Prime).pos
  refine ⟨affFromZInv c Q zi, ?_, ⟨Int.emod_nonneg _ hpz, Int.emod_lt_of_pos _ hpp⟩,
    ⟨Int.emod_nonneg _ hpz, Int.emod_lt_of_pos _ hpp⟩, affFromZInv_spec hp Q hQ hQz zi hmul⟩
  simp [affFromJac, hQz, hp, hzi]

/-- T1e in btclib's own affine convention (`y = 0` spells infinity): the returned pair denotes
`abs Q`, PROVIDED `Q` is not a 2-torsion point (`Y ≠ 0` in the field when `Z ≠ 0`).  For a
2-torsion point `(x, 0)` the pair returned is `(x, 0)`, which btclib reads as infinity: the affine
representation cannot express points of order 2 (see `affFromJac_two_torsion`). -/
theorem affFromJac_absA (Q : JacPoint) (hQ : JValid p c Q)
    (h2 : Q.2.2 = 0 ∨ (Q.2.1 : ZMod p) ≠ 0) :
    ∃ A : Point, affFromJac c Q = some A ∧ AValid p c A ∧ absA p c A = absJ p c Q := by
  by_cases hQz : Q.2.2 = 0
  · refine ⟨INF, affFromJac_inf Q hQz, fun h => absurd rfl h, ?_⟩
    rw [absJ_of_Z_eq_zero hQz, absA_of_y_eq_zero rfl]
  · have hY : (Q.2.1 : ZMod p) ≠ 0 := h2.resolve_left hQz
    obtain ⟨A, hA, _, _, hns, habs⟩ := affFromJac_spec hp Q hQ hQz
    have e : castJ p (A.1, A.2, 1) = ![(A.1 : ZMod p), (A.2 : ZMod p), 1] := by simp [castJ]
    have hn : (curveOf p c).Nonsingular (castJ p (A.1, A.2, 1)) := by
      rw [e]; exact (Jacobian.nonsingular_some ..).mpr hns
    have hAv : AValid p c A := fun _ => hn
    refine ⟨A, hA, hAv, ?_⟩
    -- `A.2 ≠ 0`: otherwise `abs Q = (x, 0)` and then `Y = 0`
    have hA2 : A.2 ≠ 0 := by
      intro h0
      have hz := hQ.Z_ne hQz
      rw [absJ, toAffine_of_Z_ne_zero (hQ.2 hQz) hz, Affine.Point.some.injEq, h0] at habs
      have := habs.2
      rw [castJ_1, castJ_2, Int.cast_zero, div_eq_zero_iff] at this
      rcases this with h | h
      · exact hY h
      · exact hz (by rw [castJ_2]; exact pow_eq_zero_iff (by norm_num) |>.mp h)
    obtain ⟨hns', hsome⟩ := absA_eq_some hA2 hAv
    rw [hsome, habs]

/-- the limitation made explicit: a finite triple with `Y = 0` in the field is a point of order 2,
`abs Q ≠ 0`, and `aff_from_jac` returns a pair with `y = 0`, which every affine routine of btclib
reads as infinity.  (Real btclib, `CurveGroup(11, 0, 10)`, `P = (7,1)` of order 4:
`aff_from_jac_var(double_jac(P)) = (1, 0)` and `add_aff_var((1,0), P) = P ≠ 3P`.) -/
theorem affFromJac_two_torsion (Q : JacPoint) (hQ : JValid p c Q) (hQz : Q.2.2 ≠ 0)
    (hY : (Q.2.1 : ZMod p) = 0) :
    ∃ A : Point, affFromJac c Q = some A ∧ A.2 = 0 ∧ absJ p c Q ≠ 0 := by
  obtain ⟨A, hA, _, hA2, hns, habs⟩ := affFromJac_spec hp Q hQ hQz
  refine ⟨A, hA, ?_, by rw [habs]; exact Affine.Point.some_ne_zero hns⟩
  have hz := hQ.Z_ne hQz
  rw [absJ, toAffine_of_Z_ne_zero (hQ.2 hQz) hz, Affine.Point.some.injEq] at habs
  have h0 : (A.2 : ZMod p) = 0 := by rw [← habs.2, castJ_1, hY, zero_div]
  have := (emod_eq_zero_iff hp A.2).mpr h0
  rwa [Int.emod_eq_of_lt hA2.1 hA2.2] at this

end AffFromJac

/-! ## non-vacuity: a toy curve (`y² = x³ + 10` over `F₁₁`, the point `(7,1)` of order 4) -/
section Examples
open Btc.EC

instance fact11 : Fact (Nat.Prime 11) := ⟨by decide⟩

def toy : CurveGroup := ⟨11, 0, 10⟩

theorem toy_valid : JValid 11 toy (7, 1, 1) := by
  refine ⟨by decide, fun _ => ?_⟩
  rw [curveOf, Jacobian.nonsingular_iff, Jacobian.equation_iff]
  simp only [swc_a₁, swc_a₂, swc_a₃, swc_a₄, swc_a₆, castJ_0, castJ_1, castJ_2, toy]
  decide

example : absJ 11 toy (addJac toy (7, 1, 1) (doubleJac toy (7, 1, 1)))
    = absJ 11 toy (7, 1, 1) + (absJ 11 toy (7, 1, 1) + absJ 11 toy (7, 1, 1)) := by
  rw [addJac_refines rfl _ _ toy_valid (doubleJac_valid rfl _ toy_valid),
    doubleJac_refines rfl _ toy_valid]

example : AValid 11 toy (7, 1) := fun _ => toy_valid.2 (by decide)

end Examples

end Btc.C01
