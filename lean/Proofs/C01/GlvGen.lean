import Generated.C01Glv
import Proofs.C01.Arith
/-
C01 — T7 on the TRANSLATED `_multiplier_decomposer` (Generated/C01Glv.lean, rewritten from the source's AST on
every run): it is the hand model of `Model/C01/Ladders.lean`, so every GLV theorem speaks of the function as the
source spells it now.  A change to the body of `_multiplier_decomposer` breaks `multiplierDecomposer_eq_generated`.
-/
namespace Btc.C01
open Gen.Curves

theorem glvgen_N : Gen.C01Glv.N = glv_N := by decide +kernel
theorem glvgen_A1 : Gen.C01Glv.A1 = glv_A1 := by decide +kernel
theorem glvgen_A2 : Gen.C01Glv.A2 = glv_A2 := by decide +kernel
theorem glvgen_B1 : Gen.C01Glv.B1 = glv_B1 := by decide +kernel
theorem glvgen_B2 : Gen.C01Glv.B2 = glv_B2 := by decide +kernel

/-- the function translated from the source IS the model the ladders use -/
theorem multiplierDecomposer_eq_generated (m : ℤ) :
    Gen.C01Glv.multiplier_decomposer m = multiplierDecomposer m := by
  have h1 : glv_N / 2 = 57896044618658097711785492504343953926418782139537452191302581570759080747168 := by
    decide +kernel
  have h2 : -glv_B1 = 303414439467246543595250775667605759171 := by decide +kernel
  simp only [Gen.C01Glv.multiplier_decomposer, multiplierDecomposer, glvgen_N, glvgen_A1, glvgen_A2, glvgen_B1,
    glvgen_B2, h1, h2]

/-- T7 stated about the translated function: `m₁ + m₂·λ ≡ m (mod N)` for every integer `m` -/
theorem generated_decomposer_congr (m : ℤ) :
    ((Gen.C01Glv.multiplier_decomposer m).1 + (Gen.C01Glv.multiplier_decomposer m).2 * glv_LAM - m) % glv_N = 0 := by
  rw [multiplierDecomposer_eq_generated]; exact multiplierDecomposer_congr m

end Btc.C01
