import Proofs.C01.CapstoneLawful
/-
C01 capstone, part 2b: on a curve of cofactor 1 (every point has order dividing `n`: secp256k1's case) with
non-zero discriminant, the filter in `liftXSub` never fires: the restricted `lift_x` IS `Btc.EC.ops C`'s.
-/
open WeierstrassCurve

namespace Btc.C01
open Btc Btc.EC

variable {p : ℕ} [Fact p.Prime] {C : Curve}

theorem liftX_inSub_of_cofactor_one (K : CurveOk p C) (h34 : p % 4 = 3)
    (hcof : ∀ g : Pt p C.toCurveGroup, C.n • g = 0)
    (hΔ : (curveOf p C.toCurveGroup).toAffine.Δ ≠ 0) {x : ℤ} {Q : Point}
    (hl : (EC.ops C).liftX x = some Q) : InSub p C Q ∧ Q.2 ≠ 0 := by
  obtain ⟨hQx, hQy⟩ := ops_liftX_some hl
  obtain ⟨hxr, hyr, _, hysq⟩ := yEven_some K.hC h34 x _ hQy
  have heq : (curveOf p C.toCurveGroup).toAffine.Equation ((Q.1 : ℤ) : ZMod p) ((Q.2 : ℤ) : ZMod p) := by
    rw [aff_equation_iff, hQx]; exact hysq
  have hyrc : 0 ≤ Q.2 ∧ Q.2 < C.p := by rw [K.hC]; exact hyr
  have hxrc : 0 ≤ Q.1 ∧ Q.1 < C.p := by rw [K.hC, hQx]; exact hxr
  have hy0 : ((Q.2 : ℤ) : ZMod p) ≠ 0 := by
    have hns := (Affine.equation_iff_nonsingular_of_Δ_ne_zero hΔ).mp heq
    exact y_ne_zero_of_not_two_torsion hns (InSub.h2 K (hcof _))
  have hQ2 : Q.2 ≠ 0 := by
    intro h0; apply hy0; rw [h0]; simp
  have hns := aff_nonsingular_of_y_ne K.p_ne_two heq hy0
  obtain ⟨hv, hr, _⟩ := finish_some Q hxrc hyrc _ hns rfl (InSub.h2 K (hcof _))
  exact ⟨⟨hv, hr, hcof _⟩, hQ2⟩

/-- cofactor 1, `Δ ≠ 0`: `opsSub`'s `liftX` returns exactly the pair `Btc.EC.ops C`'s does -/
theorem liftXSub_val_of_cofactor_one (K : CurveOk p C) (h34 : p % 4 = 3)
    (hcof : ∀ g : Pt p C.toCurveGroup, C.n • g = 0)
    (hΔ : (curveOf p C.toCurveGroup).toAffine.Δ ≠ 0) (x : ℤ) :
    ((opsSub K).liftX x).map Subtype.val = (EC.ops C).liftX x := by
  show (liftXSub p C x).map Subtype.val = _
  cases hl : (EC.ops C).liftX x with
  | none =>
    unfold liftXSub
    rw [hl]
    rfl
  | some Q =>
    have hin := liftX_inSub_of_cofactor_one K h34 hcof hΔ hl
    unfold liftXSub
    rw [hl]
    simp only []
    rw [dif_pos hin]
    rfl


/-! ## transfer to the raw `Btc.EC.ops C` under the single named assumption `hcof` (cofactor one)

`OpsHom o₁ o₂ f`: `f` commutes with every operation of a `GroupOps`.  Any scheme-level function written over
`GroupOps` (a composition of these operations) therefore commutes with `f`: a run over `opsSub K` (where the
`Lawful` theorems live) and the run the drivers execute over `Btc.EC.ops C` return the same integers.  For
`f = Subtype.val : SubPt p C → Point` this holds as soon as `lift_x` agrees, i.e. under cofactor one and `Δ ≠ 0`
(`opsSub_hom`); and under cofactor one every reduced valid pair IS in the carrier (`inSub_of_cofactor_one`), so a
statement quantified over `SubPt` is a statement about every key the raw arithmetic can be handed. -/

/-- `f` commutes with every operation -/
structure OpsHom {α β : Type} (o₁ : GroupOps α) (o₂ : GroupOps β) (f : α → β) : Prop where
  n : o₁.n = o₂.n
  p : o₁.p = o₂.p
  zero : f o₁.zero = o₂.zero
  gen : f o₁.gen = o₂.gen
  add : ∀ P Q, f (o₁.add P Q) = o₂.add (f P) (f Q)
  neg : ∀ P, f (o₁.neg P) = o₂.neg (f P)
  mul : ∀ (m : ℤ) P, f (o₁.mul m P) = o₂.mul m (f P)
  isZero : ∀ P, o₁.isZero P = o₂.isZero (f P)
  x : ∀ P, o₁.x P = o₂.x (f P)
  y : ∀ P, o₁.y P = o₂.y (f P)
  eq : ∀ P Q, o₁.eq P Q = o₂.eq (f P) (f Q)
  liftX : ∀ x, (o₁.liftX x).map f = o₂.liftX x

namespace OpsHom
variable {α β : Type} {o₁ : GroupOps α} {o₂ : GroupOps β} {f : α → β} (h : OpsHom o₁ o₂ f)
include h

theorem sub (P Q : α) : f (o₁.sub P Q) = o₂.sub (f P) (f Q) := by
  simp only [GroupOps.sub, h.add, h.neg]

theorem dmul (u : ℤ) (H : α) (v : ℤ) (Q : α) : f (o₁.dmul u H v Q) = o₂.dmul u (f H) v (f Q) := by
  simp only [GroupOps.dmul, h.add, h.mul]

theorem hasEvenY (P : α) : o₁.hasEvenY P = o₂.hasEvenY (f P) := by
  simp only [GroupOps.hasEvenY, h.y]

theorem liftX_some {x : ℤ} {P : α} (hl : o₁.liftX x = some P) : o₂.liftX x = some (f P) := by
  rw [← h.liftX x, hl]; rfl

theorem liftX_none {x : ℤ} (hl : o₁.liftX x = none) : o₂.liftX x = none := by
  rw [← h.liftX x, hl]; rfl

theorem liftX_of_some {x : ℤ} {Q : β} (hl : o₂.liftX x = some Q) : ∃ P, o₁.liftX x = some P ∧ f P = Q := by
  rw [← h.liftX x] at hl
  cases hP : o₁.liftX x with
  | none => rw [hP] at hl; simp at hl
  | some P => rw [hP] at hl; exact ⟨P, rfl, by simpa using hl⟩
end OpsHom

/-- **cofactor one ⇒ the lawful carrier and the raw arithmetic run alike**: `Subtype.val` commutes with every operation
of `opsSub K` / `Btc.EC.ops C`, `lift_x` included -/
theorem opsSub_hom (K : CurveOk p C) (h34 : p % 4 = 3) (hcof : ∀ g : Pt p C.toCurveGroup, C.n • g = 0)
    (hΔ : (curveOf p C.toCurveGroup).toAffine.Δ ≠ 0) :
    OpsHom (opsSub K) (EC.ops C) (Subtype.val : SubPt p C → Point) where
  n := rfl
  p := rfl
  zero := rfl
  gen := rfl
  add _ _ := rfl
  neg _ := rfl
  mul _ _ := rfl
  isZero _ := rfl
  x _ := rfl
  y _ := rfl
  eq _ _ := rfl
  liftX := liftXSub_val_of_cofactor_one K h34 hcof hΔ

/-- cofactor one ⇒ every reduced valid pair (every on-curve key, infinity included) is in the carrier -/
theorem inSub_of_cofactor_one (hcof : ∀ g : Pt p C.toCurveGroup, C.n • g = 0) {P : Point}
    (hv : AValid p C.toCurveGroup P) (hr : RedA C.toCurveGroup P) : InSub p C P := ⟨hv, hr, hcof _⟩

/-- … so a raw pair lifts to the carrier: statements over `SubPt` cover every admissible raw operand -/
theorem exists_subPt_of_cofactor_one (hcof : ∀ g : Pt p C.toCurveGroup, C.n • g = 0) (P : Point)
    (hv : AValid p C.toCurveGroup P) (hr : RedA C.toCurveGroup P) : ∃ S : SubPt p C, S.1 = P :=
  ⟨⟨P, inSub_of_cofactor_one hcof hv hr⟩, rfl⟩

/-- the discriminant of a curve with `a = 0`: non-zero as soon as `p ∤ 2·3·b` (secp256k1: `b = 7`) -/
theorem delta_ne_zero_of_a_zero (ha : C.a = 0) (hb : ((2 * 3 * C.b : ℤ) : ZMod p) ≠ 0) :
    (curveOf p C.toCurveGroup).toAffine.Δ ≠ 0 := by
  have hΔ : (curveOf p C.toCurveGroup).toAffine.Δ = -(2 * 3 * (C.b : ZMod p)) ^ 2 * (2 * 2 * 3) := by
    simp only [curveOf, swc, WeierstrassCurve.Δ, WeierstrassCurve.b₂, WeierstrassCurve.b₄, WeierstrassCurve.b₆,
      WeierstrassCurve.b₈, ha, Int.cast_zero]
    ring
  rw [hΔ]
  have h1 : (2 * 3 * (C.b : ZMod p)) ≠ 0 := by
    have h := hb
    push_cast at h
    have e : (2 : ZMod p) * 3 * (C.b : ZMod p) = 6 * (C.b : ZMod p) := by ring
    rw [e]; exact h
  have h2 : ((2 : ZMod p) * 2 * 3) ≠ 0 := by
    intro h0
    apply h1
    have : (2 : ZMod p) * 3 = 0 := by
      rcases mul_eq_zero.mp h0 with h | h
      · rcases mul_eq_zero.mp h with h | h <;> simp [h]
      · simp [h]
    rw [this]; ring
  exact mul_ne_zero (neg_ne_zero.mpr (pow_ne_zero 2 h1)) h2

end Btc.C01
