import Proofs.C01.CapstoneLawful
/-
C01 capstone, part 2b: on a curve of cofactor 1 (every point has order dividing `n`: secp256k1's case) with
non-zero discriminant, the filter in `liftXSub` never fires: the restricted `lift_x` IS `Btc.EC.ops C`'s.
-/
open WeierstrassCurve

namespace Btc.C01
open Btc Btc.EC

variable {p : ℕ} [Fact p.Prime] {C : Curve}

theorem liftX_inSub_of_cofactor_one (K : CurveOk p C) (h34 : p % 4 = 3)
    (hcof : ∀ g : Pt p C.toCurveGroup, C.n • g = 0)
    (hΔ : (curveOf p C.toCurveGroup).toAffine.Δ ≠ 0) {x : ℤ} {Q : Point}
    (hl : (EC.ops C).liftX x = some Q) : InSub p C Q ∧ Q.2 ≠ 0 := by
  obtain ⟨hQx, hQy⟩ := ops_liftX_some hl
  obtain ⟨hxr, hyr, _, hysq⟩ := yEven_some K.hC h34 x _ hQy
  have heq : (curveOf p C.toCurveGroup).toAffine.Equation ((Q.1 : ℤ) : ZMod p) ((Q.2 : ℤ) : ZMod p) := by
    rw [aff_equation_iff, hQx]; exact hysq
  have hyrc : 0 ≤ Q.2 ∧ Q.2 < C.p := by rw [K.hC]; exact hyr
  have hxrc : 0 ≤ Q.1 ∧ Q.1 < C.p := by rw [K.hC, hQx]; exact hxr
  have hy0 : ((Q.2 : ℤ) : ZMod p) ≠ 0 := by
    have hns := (Affine.equation_iff_nonsingular_of_Δ_ne_zero hΔ).mp heq
    exact y_ne_zero_of_not_two_torsion hns (InSub.h2 K (hcof _))
  have hQ2 : Q.2 ≠ 0 := by
    intro h0; apply hy0; rw [h0]; simp
  have hns := aff_nonsingular_of_y_ne K.p_ne_two heq hy0
  obtain ⟨hv, hr, _⟩ := finish_some Q hxrc hyrc _ hns rfl (InSub.h2 K (hcof _))
  exact ⟨⟨hv, hr, hcof _⟩, hQ2⟩

/-- cofactor 1, `Δ ≠ 0`: `opsSub`'s `liftX` returns exactly the pair `Btc.EC.ops C`'s does -/
theorem liftXSub_val_of_cofactor_one (K : CurveOk p C) (h34 : p % 4 = 3)
    (hcof : ∀ g : Pt p C.toCurveGroup, C.n • g = 0)
    (hΔ : (curveOf p C.toCurveGroup).toAffine.Δ ≠ 0) (x : ℤ) :
    ((opsSub K).liftX x).map Subtype.val = (EC.ops C).liftX x := by
  show (liftXSub p C x).map Subtype.val = _
  cases hl : (EC.ops C).liftX x with
  | none =>
    unfold liftXSub
    rw [hl]
    rfl
  | some Q =>
    have hin := liftX_inSub_of_cofactor_one K h34 hcof hΔ hl
    unfold liftXSub
    rw [hl]
    simp only []
    rw [dif_pos hin]
    rfl

end Btc.C01
