import Model.C01.Ladders
import Model.C01.NumberTheory
import Mathlib.Tactic.Ring
import Mathlib.Tactic.LinearCombination
import Mathlib.Tactic.Linarith
import Mathlib.Tactic.Module
/-
C01 — T7 (GLV integer identities on the GENERATED constants) and T9 (modular inverse).
-/
namespace Btc.C01
open Gen.Curves

theorem glv_lattice1 : (glv_A1 + glv_B1 * glv_LAM) % glv_N = 0 := by decide +kernel
theorem glv_lattice2 : (glv_A2 + glv_B2 * glv_LAM) % glv_N = 0 := by decide +kernel
theorem glv_lam_cube : glv_LAM * glv_LAM * glv_LAM % glv_N = 1 := by decide +kernel
theorem glv_beta_cube : glv_BETA * glv_BETA * glv_BETA % secp256k1.p = 1 := by decide +kernel
theorem glv_lam_ne_one : glv_LAM % glv_N ≠ 1 := by decide +kernel
theorem glv_beta_ne_one : glv_BETA % secp256k1.p ≠ 1 := by decide +kernel
theorem glv_N_is_n : glv_N = secp256k1.n := by decide +kernel

/-- T7: `_multiplier_decomposer(m) = (m₁, m₂)` satisfies `m₁ + m₂·λ ≡ m (mod N)` for EVERY integer `m`
(negative and oversized included), with the constants as generated from the source -/
theorem multiplierDecomposer_congr (m : ℤ) :
    ((multiplierDecomposer m).1 + (multiplierDecomposer m).2 * glv_LAM - m) % glv_N = 0 := by
  obtain ⟨k1, hk1⟩ := Int.dvd_of_emod_eq_zero glv_lattice1
  obtain ⟨k2, hk2⟩ := Int.dvd_of_emod_eq_zero glv_lattice2
  have hm := Int.emod_add_mul_ediv m glv_N
  apply Int.emod_eq_zero_of_dvd
  simp only [multiplierDecomposer]
  generalize (glv_B2 * (m % glv_N) + glv_N / 2) / glv_N = c1
  generalize (-glv_B1 * (m % glv_N) + glv_N / 2) / glv_N = c2
  refine ⟨-(m / glv_N) - c1 * k1 - c2 * k2, ?_⟩
  linear_combination hm - c1 * hk1 - c2 * hk2

/-! ## T9: `mod_inv_var` -/
open Btc.EC

theorem xgcdAux_inv (a m : ℤ) (fuel : Nat) (r0 r1 x0 x1 : ℤ) (h0 : m ∣ r0 - a * x0) (h1 : m ∣ r1 - a * x1) :
    m ∣ (xgcdAux fuel r0 r1 x0 x1).1 - a * (xgcdAux fuel r0 r1 x0 x1).2 := by
  induction fuel generalizing r0 r1 x0 x1 with
  | zero => simpa [xgcdAux] using h0
  | succ fuel ih =>
    simp only [xgcdAux]
    split
    · simpa using h0
    · apply ih _ _ _ _ h1
      have : r0 - r0 / r1 * r1 - a * (x0 - r0 / r1 * x1) = (r0 - a * x0) - r0 / r1 * (r1 - a * x1) := by ring
      rw [this]
      exact dvd_sub h0 (Dvd.dvd.mul_left h1 _)

/-- T9 (soundness of `mod_inv_var`): whatever it returns is THE inverse: in `0 .. m-1` and `a·x ≡ 1 (mod m)`,
for every integer `a` and every modulus -/
theorem modInv_sound (a m x : ℤ) (h : modInv a m = some x) : 0 ≤ x ∧ x < m ∧ a * x % m = 1 % m := by
  unfold modInv at h
  split at h; · simp at h
  next hm =>
  have hmpos : 0 < m := by omega
  simp only [] at h
  have hinv := xgcdAux_inv (a % m) m (m.toNat + 2) (a % m) m 1 0 (by simp) (by simp)
  generalize xgcdAux (m.toNat + 2) (a % m) m 1 0 = gx at h hinv
  obtain ⟨g, y⟩ := gx
  simp only [] at h hinv
  split at h
  · next hg =>
    subst hg
    simp only [Option.some.injEq] at h
    subst h
    refine ⟨Int.emod_nonneg _ (by omega), Int.emod_lt_of_pos _ hmpos, ?_⟩
    rw [Int.mul_emod, Int.emod_emod_of_dvd _ (dvd_refl m), ← Int.mul_emod]
    have h2 : (a % m * y) % m = 1 % m := by
      apply Int.emod_eq_emod_iff_emod_sub_eq_zero.mpr
      apply Int.emod_eq_zero_of_dvd
      have : a % m * y - 1 = -(1 - a % m * y) := by ring
      rw [this]; exact (Int.dvd_neg).mpr hinv
    rw [Int.mul_emod, Int.emod_emod_of_dvd _ (dvd_refl m), ← Int.mul_emod] at h2
    exact h2
  · split at h
    · next hm1 => subst hm1; simp only [Option.some.injEq] at h; subst h; simp
    · simp at h

end Btc.C01
