import Proofs.C01.CapstoneLawful
import Proofs.C02.Ecdsa
/-
C01 capstone, part 3c: what the join buys.  C02's ECDSA completeness, proved there under the named hypothesis
`L : Lawful o G`, becomes a statement about `Btc.EC.ops C` ITSELF — the raw integer pairs the driver computes with and
the correspondence ties to btclib — with no lawfulness hypothesis left, for every curve satisfying `CurveOk`
(`p ≡ 3 mod 4` only because `Lawful` bundles `lift_x`).  The transfer from the carrier `SubPt` to raw pairs is
definitional: the scheme's verdicts are integers / booleans computed through the same operations.
(Separate from `Props/C01.lean`'s imports so that C01's check does not depend on C02's proofs building.)
-/
namespace Btc.C01
open Btc Btc.EC Btc.Ecdsa

variable {p : ℕ} [Fact p.Prime] {C : Curve}

theorem signRecoverable_opsSub (K : CurveOk p C) (c q k : ℤ) (lowerS : Bool) :
    signRecoverable (opsSub K) c q k lowerS = signRecoverable (EC.ops C) c q k lowerS := rfl

theorem verify_opsSub (K : CurveOk p C) (c : ℤ) (P : SubPt p C) (r s : ℤ) :
    verify (opsSub K) c P r s = verify (EC.ops C) c P.1 r s := rfl

/-- ECDSA completeness on btclib's arithmetic, no `Lawful` hypothesis: whatever `_sign_recoverable_` returns when run
over `Btc.EC.ops C` is accepted by the verifier run over `Btc.EC.ops C` under the public key `mult q G` -/
theorem ecdsa_sign_verifies_ec (K : CurveOk p C) (h34 : p % 4 = 3) {c q k : ℤ} {lowerS : Bool} {r s kid : ℤ}
    (hk : 0 < k ∧ k < C.n) (h : signRecoverable (EC.ops C) c q k lowerS = .ok (r, s, kid)) :
    verify (EC.ops C) c ((EC.ops C).mul q C.G) r s = true ∧ (lowerS = true → s ≤ C.n / 2) := by
  have L := lawful_ec K h34
  have := sign_verifies L (c := c) (q := q) (k := k) (lowerS := lowerS) (r := r) (s := s) (kid := kid) hk
    ((opsSub K).mul q (opsSub K).gen) (L.abs_mul q _) (by rw [signRecoverable_opsSub]; exact h)
  rw [verify_opsSub] at this
  exact this

end Btc.C01
