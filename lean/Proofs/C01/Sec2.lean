import Proofs.C01.Sec
import Proofs.C01.Tonelli
/-
C01 — T10 finished: the compressed SEC 1 forms (`02`/`03` ‖ x) on EVERY odd prime field (Tonelli–Shanks branch of the
square root included): `point_from_octets` accepts EXACTLY the encodings of the finite points of the curve with the
parity the prefix names, and the compressed round trip.
-/
namespace Btc.C01
open Btc Btc.EC

variable {p : ℕ} [hpf : Fact p.Prime]

theorem p_odd_int (hp2 : p ≠ 2) : (p : ℤ) % 2 = 1 := by
  rcases hpf.out.eq_two_or_odd with h | h
  · exact absurd h hp2
  · omega

/-- the lift `y_even_var(x)`, every odd prime: `x` reduced, the answer a reduced EVEN root of `x³ + ax + b` -/
theorem yEvenVar_sound_prime (g : CurveGroup) (hg : g.p = (p : ℤ)) (hp2 : p ≠ 2) (x y : ℤ)
    (h : yEvenVar g x = some y) :
    (0 ≤ x ∧ x < g.p) ∧ (0 ≤ y ∧ y < g.p) ∧ y % 2 = 0 ∧ y * y % g.p = y2 g x := by
  have hodd := p_odd_int (p := p) hp2
  unfold yEvenVar at h
  split at h; · simp at h
  next hx =>
  have hx' : 0 ≤ x ∧ x < g.p := not_not.mp hx
  obtain ⟨r, hr, rfl⟩ := Option.map_eq_some_iff.mp h
  rw [hg] at hr
  obtain ⟨⟨hr0, hr1⟩, hrr⟩ := NT.modSqrtVar_sound_prime _ _ hr
  have hrr' : r * r % g.p = y2 g x := by
    have h1 : r * r % (p : ℤ) = y2 g x % (p : ℤ) := by
      rw [emod_eq_iff_cast]; push_cast; rw [← pow_two]; exact hrr
    have hy2 : y2 g x % g.p = y2 g x := by
      unfold y2; exact Int.emod_emod_of_dvd _ (dvd_refl _)
    rw [hg] at hy2 ⊢
    rw [h1, hy2]
  rw [hg]
  refine ⟨by rw [← hg]; exact hx', ?_, ?_, ?_⟩
  · split <;> omega
  · split <;> omega
  · split
    · have : ((p : ℤ) - r) * ((p : ℤ) - r) = r * r + (p : ℤ) * ((p : ℤ) - 2 * r) := by ring
      rw [this, Int.add_mul_emod_self_left, ← hg]; exact hrr'
    · rw [← hg]; exact hrr'

/-- … and it ANSWERS, with the even one of `y₀`, `p − y₀`, whenever `x` is reduced and `x³ + ax + b` has a reduced
root `y₀ ≠ 0` -/
theorem yEvenVar_complete_prime (g : CurveGroup) (hg : g.p = (p : ℤ)) (hp2 : p ≠ 2) (x y0 : ℤ)
    (hx : 0 ≤ x ∧ x < g.p) (hy : 0 < y0 ∧ y0 < g.p) (hsq : y2 g x = y0 * y0 % g.p) :
    yEvenVar g x = some (if y0 % 2 = 0 then y0 else g.p - y0) := by
  have hodd := p_odd_int (p := p) hp2
  unfold yEvenVar
  rw [if_neg (not_not.mpr hx)]
  rw [hg] at hsq hy ⊢
  have hroot : ((y0 : ℤ) : ZMod p) ^ 2 = ((y2 g x : ℤ) : ZMod p) := by
    rw [hsq, ZMod.intCast_mod]; push_cast; ring
  cases hr : NT.modSqrtVar (y2 g x) (p : ℤ) with
  | none => exact absurd hroot ((NT.modSqrtVar_none_iff _).mp hr _)
  | some r =>
    obtain ⟨⟨hr0, hr1⟩, hrr⟩ := NT.modSqrtVar_sound_prime _ _ hr
    simp only [Option.map_some, Option.some.injEq]
    have hpm : (r : ZMod p) = (y0 : ZMod p) ∨ (r : ZMod p) = -(y0 : ZMod p) := by
      have : (r : ZMod p) ^ 2 = (y0 : ZMod p) ^ 2 := by rw [hrr, hroot]
      exact sq_eq_sq_iff_eq_or_eq_neg.mp this
    rcases hpm with h1 | h1
    · have : r = y0 := eq_of_cast_eq ⟨hr0, hr1⟩ ⟨by omega, hy.2⟩ h1
      subst this
      split <;> split <;> omega
    · have : r = (p : ℤ) - y0 := by
        apply eq_of_cast_eq ⟨hr0, hr1⟩ ⟨by omega, by omega⟩
        rw [h1]; push_cast; simp
      subst this
      split <;> split <;> omega

/-- **T10, compressed forms, every odd prime field**: `point_from_octets(02/03 ‖ x)` answers `Q` EXACTLY when the string
has `p_size + 1` octets, `x` is the big-endian body, `Q` is a finite point passing `is_on_curve` (coordinates in range,
equation) and the parity of `y` is the one the prefix names — off-curve `x`, `x ≥ p` and the `x` of a 2-torsion point
(lifted `y = 0`) are refused -/
theorem pointFromOctets_compressed_iff (g : CurveGroup) (hg : g.p = (p : ℤ)) (hp2 : p ≠ 2) (pSize : ℕ)
    (hybrid : Bool) (pfxB : UInt8) (body : Bytes) (Q : Point) (h23 : pfxB.toNat = 2 ∨ pfxB.toNat = 3) :
    pointFromOctets g pSize hybrid (pfxB :: body) = .ok Q ↔
      (pfxB :: body).length = pSize + 1 ∧ Q.1 = (ofBE body : ℤ) ∧ Q.2 ≠ 0 ∧ isOnCurveX g Q = some true ∧
        Q.2 % 2 = (pfxB.toNat : ℤ) - 2 := by
  have hodd := p_odd_int (p := p) hp2
  constructor
  · intro h
    unfold pointFromOctets at h
    split at h; · cases h
    simp only [h23, if_true] at h
    split at h; · cases h
    next hsz =>
    split at h
    · cases h
    · next y hy =>
      split at h; · cases h
      next hy0 =>
      have hQ : Q = ((ofBE body : ℤ), if pfxB.toNat = 2 then y else g.p - y) := by
        injection h with h; exact h.symm
      obtain ⟨hxr, hyr, hev, hsq⟩ := yEvenVar_sound_prime g hg hp2 _ y hy
      subst hQ
      refine ⟨not_not.mp hsz, rfl, ?_⟩
      by_cases h2 : pfxB.toNat = 2
      · simp only [h2, if_true]
        exact ⟨hy0, (isOnCurveX_true_iff g _ hy0).mpr ⟨hxr, by omega, hsq.symm⟩, by omega⟩
      · have h3 : pfxB.toNat = 3 := by omega
        simp only [h2, if_false]
        have hne : g.p - y ≠ 0 := by omega
        refine ⟨hne, (isOnCurveX_true_iff g _ hne).mpr ⟨hxr, by omega, ?_⟩, by omega⟩
        have : (g.p - y) * (g.p - y) = y * y + g.p * (g.p - 2 * y) := by ring
        show y2 g _ = (g.p - y) * (g.p - y) % g.p
        rw [this, Int.add_mul_emod_self_left]; exact hsq.symm
  · rintro ⟨hlen, hx, hy0, hon, hpar⟩
    obtain ⟨hxr, hyr, heq⟩ := (isOnCurveX_true_iff g Q hy0).mp hon
    have hlift := yEvenVar_complete_prime g hg hp2 Q.1 Q.2 hxr hyr heq
    unfold pointFromOctets
    rw [if_neg (by rw [hlen]; omega)]
    simp only [h23, if_true]
    rw [if_neg (by rw [hlen]; omega), ← hx, hlift]
    have hgp : g.p % 2 = 1 := by rw [hg]; exact hodd
    obtain ⟨qx, qy⟩ := Q
    simp only at hpar hyr hy0 ⊢
    rcases h23 with h2 | h3
    · have hev : qy % 2 = 0 := by omega
      simp only [hev, if_true, h2]
      rw [if_neg hy0]
    · have hod : ¬ qy % 2 = 0 := by omega
      have h3' : ¬ pfxB.toNat = 2 := by omega
      simp only [hod, if_false, h3']
      rw [if_neg (by omega)]
      congr 2
      omega

/-- T10: whatever `point_from_octets` answers — any prefix byte, hybrid or not, every odd prime field — is a finite
reduced point of the curve -/
theorem pointFromOctets_on_curve_prime (g : CurveGroup) (hg : g.p = (p : ℤ)) (hp2 : p ≠ 2) (pSize : ℕ)
    (hybrid : Bool) (b : Bytes) (Q : Point) (h : pointFromOctets g pSize hybrid b = .ok Q) :
    Q.2 ≠ 0 ∧ isOnCurveX g Q = some true := by
  cases b with
  | nil => simp [pointFromOctets] at h
  | cons pfxB body =>
    by_cases h23 : pfxB.toNat = 2 ∨ pfxB.toNat = 3
    · obtain ⟨_, _, h1, h2, _⟩ := (pointFromOctets_compressed_iff g hg hp2 pSize hybrid pfxB body Q h23).mp h
      exact ⟨h1, h2⟩
    · obtain ⟨_, _, _, h1, _, h2⟩ := (pointFromOctets_both_iff g pSize hybrid pfxB body Q h23).mp h
      exact ⟨h1, h2⟩

/-- compressed round trip: `point_from_octets(bytes_from_point(Q, compressed=True)) = Q`, every odd prime field -/
theorem pointFromOctets_bytesFromPoint_compressed (g : CurveGroup) (hg : g.p = (p : ℤ)) (hp2 : p ≠ 2) (pSize : ℕ)
    (hybrid : Bool) (Q : Point) (b : Bytes) (hps : g.p ≤ 256 ^ pSize) (h : bytesFromPoint g pSize Q true = some b) :
    pointFromOctets g pSize hybrid b = .ok Q := by
  unfold bytesFromPoint at h
  split at h; · cases h
  next hon =>
  have hon' : isOnCurveX g Q = some true := not_not.mp hon
  split at h; · cases h
  next hy0 =>
  simp only [if_true, Option.some.injEq] at h
  subst h
  obtain ⟨hxr, hyr, _⟩ := (isOnCurveX_true_iff g Q hy0).mp hon'
  have hxn : Q.1.toNat < 256 ^ pSize := by
    have : (Q.1.toNat : ℤ) < ((256 ^ pSize : ℕ) : ℤ) := by push_cast; omega
    exact_mod_cast this
  by_cases hodd : Q.2 % 2 = 1
  · simp only [hodd, if_true]
    rw [pointFromOctets_compressed_iff g hg hp2 pSize hybrid 3 _ Q (Or.inr rfl)]
    refine ⟨by simp, ?_, hy0, hon', by rw [hodd]; rfl⟩
    rw [ofBE_beBytes, Nat.mod_eq_of_lt hxn]; omega
  · simp only [hodd, if_false]
    rw [pointFromOctets_compressed_iff g hg hp2 pSize hybrid 2 _ Q (Or.inl rfl)]
    refine ⟨by simp, ?_, hy0, hon', by
      have : (2 : UInt8).toNat = 2 := rfl
      rw [this]; omega⟩
    rw [ofBE_beBytes, Nat.mod_eq_of_lt hxn]; omega

end Btc.C01
