import Proofs.C01.Sqrt
import Proofs.C01.Jacobi
/-
C01 — T9: `tonelli_var` (Tonelli–Shanks) and hence `mod_sqrt_var` for EVERY odd prime `p` (the `p ≡ 1 (mod 8)` branch
included): an answer is a reduced square root, a quadratic residue is ANSWERED (the loops terminate within their
bounds), a non-residue is refused.
-/
namespace Btc.C01.NT
open Btc.EC
open scoped NumberTheorySymbols

variable {p : ℕ} [hpf : Fact p.Prime]

theorem one_lt_p : (1 : ℤ) < p := by have := hpf.out.two_le; omega

theorem emod_eq_one_iff (x : ℤ) : x % (p : ℤ) = 1 ↔ (x : ZMod p) = 1 := by
  have h1 : (1 : ℤ) % (p : ℤ) = 1 := Int.emod_eq_of_lt (by omega) one_lt_p
  rw [← h1, emod_eq_iff_cast]; simp

/-! ### soundness of the main loop: the invariant `r² = a·t` -/

theorem tonelliLoop_sound (a : ZMod p) : ∀ (fuel s : ℕ) (c r t res : ℤ), (r : ZMod p) ^ 2 = a * (t : ZMod p) →
    (0 ≤ r ∧ r < p) → tonelliLoop (p : ℤ) fuel s c r t = some res → (res : ZMod p) ^ 2 = a ∧ (0 ≤ res ∧ res < p)
  | 0, _, _, _, _, _, _, _, h => by simp [tonelliLoop] at h
  | fuel + 1, s, c, r, t, res, hinv, hr, h => by
    unfold tonelliLoop at h
    split at h
    · next ht =>
      cases h
      rw [ht, Int.cast_one, mul_one] at hinv
      exact ⟨hinv, hr⟩
    · split at h
      · cases h
      · next i _ =>
        refine tonelliLoop_sound a fuel i _ _ _ res ?_ ?_ h
        · rw [ZMod.intCast_mod, ZMod.intCast_mod, Int.cast_mul, Int.cast_mul, ZMod.intCast_mod, Int.cast_mul,
            mul_pow, hinv]
          ring
        · exact ⟨Int.emod_nonneg _ (by have := one_lt_p (p := p); omega),
            Int.emod_lt_of_pos _ (by have := one_lt_p (p := p); omega)⟩

/-! ### `leastI` finds the least exponent -/

theorem leastI_spec (t : ZMod p) : ∀ (k i : ℕ) (t2i : ℤ), (t2i : ZMod p) = t ^ 2 ^ i → t ^ 2 ^ i ≠ 1 →
    (∃ j, i < j ∧ j ≤ i + k ∧ t ^ 2 ^ j = 1) →
    ∃ j, leastI (p : ℤ) k (i + 1) t2i = some j ∧ i < j ∧ j ≤ i + k ∧ t ^ 2 ^ j = 1 ∧ t ^ 2 ^ (j - 1) ≠ 1
  | 0, i, _, _, _, ⟨j, h1, h2, _⟩ => by omega
  | k + 1, i, t2i, hc, hne, ⟨j, h1, h2, hj⟩ => by
    unfold leastI
    have hsq : ((t2i * t2i % (p : ℤ) : ℤ) : ZMod p) = t ^ 2 ^ (i + 1) := by
      rw [ZMod.intCast_mod, Int.cast_mul, hc, pow_succ, pow_mul, pow_two]
    by_cases h1' : t2i * t2i % (p : ℤ) = 1
    · simp only [h1', if_true]
      refine ⟨i + 1, rfl, by omega, by omega, ?_, by simpa using hne⟩
      rw [← hsq, h1']; simp
    · simp only [h1', if_false]
      have hne' : t ^ 2 ^ (i + 1) ≠ 1 := by
        intro h0
        apply h1'
        rw [emod_eq_one_iff, ← h0, ← hsq, ZMod.intCast_mod]
      have hj' : i + 1 < j := by
        rcases Nat.lt_or_ge (i + 1) j with h | h
        · exact h
        · have : j = i + 1 := by omega
          rw [this] at hj; exact absurd hj hne'
      obtain ⟨j0, e, a1, a2, a3, a4⟩ := leastI_spec t k (i + 1) _ hsq hne' ⟨j, hj', by omega, hj⟩
      exact ⟨j0, e, by omega, by omega, a3, a4⟩

/-! ### termination of the main loop: `c` has order `2^s`, `t^(2^(s-1)) = 1` -/

theorem tonelliLoop_answers : ∀ (fuel s : ℕ) (c r t : ℤ), s < fuel → 1 ≤ s → (0 ≤ t ∧ t < p) →
    (c : ZMod p) ^ 2 ^ (s - 1) = -1 → (t : ZMod p) ^ 2 ^ (s - 1) = 1 →
    ∃ res, tonelliLoop (p : ℤ) fuel s c r t = some res
  | 0, _, _, _, _, h, _, _, _, _ => by omega
  | fuel + 1, s, c, r, t, hf, hs, htr, hc, ht => by
    unfold tonelliLoop
    by_cases h1 : t = 1
    · exact ⟨r, by simp [h1]⟩
    · simp only [h1, if_false]
      have hp1 := one_lt_p (p := p)
      have hne : (t : ZMod p) ^ 2 ^ 0 ≠ 1 ∨ (t : ZMod p) = 1 := by
        by_cases h : (t : ZMod p) = 1
        · exact Or.inr h
        · exact Or.inl (by simpa using h)
      rcases hne with hne | hone
      · -- t ≠ 1 in the field: the search succeeds
        have hs2 : 2 ≤ s := by
          rcases Nat.lt_or_ge s 2 with h | h
          · have : s = 1 := by omega
            subst this
            simp only [Nat.sub_self, pow_zero, pow_one] at ht
            exact absurd (by simpa using ht) hne
          · exact h
        obtain ⟨i, hi, i1, i2, i3, i4⟩ := leastI_spec (t : ZMod p) (s - 1) 0 t (by simp) hne
          ⟨s - 1, by omega, by omega, ht⟩
        simp only [Nat.zero_add] at hi
        rw [hi]
        have hi2 : i ≤ s - 1 := by omega
        -- t^(2^(i-1)) = -1
        have hm1 : (t : ZMod p) ^ 2 ^ (i - 1) = -1 := by
          have hsq : ((t : ZMod p) ^ 2 ^ (i - 1)) ^ 2 = 1 := by
            rw [← pow_mul, ← pow_succ, show i - 1 + 1 = i by omega]; exact i3
          rcases sq_eq_one_iff.mp hsq with h | h
          · exact absurd h i4
          · exact h
        have he : 2 ^ (s - i - 1) * (2 * 2 ^ (i - 1)) = 2 ^ (s - 1) := by
          rw [← pow_succ', ← pow_add]; congr 1; omega
        apply tonelliLoop_answers fuel i _ _ _ (by omega) (by omega)
          ⟨Int.emod_nonneg _ (by omega), Int.emod_lt_of_pos _ (by omega)⟩
        · -- c' = c^(2^(s-i)),  c'^(2^(i-1)) = c^(2^(s-1)) = -1
          rw [ZMod.intCast_mod, Int.cast_mul, modPow_cast, ← pow_two, ← pow_mul, ← pow_mul, he]
          exact hc
        · rw [ZMod.intCast_mod, Int.cast_mul, mul_pow, hm1, ZMod.intCast_mod, Int.cast_mul, modPow_cast, ← pow_two,
            ← pow_mul, ← pow_mul, he, hc]
          ring
      · exfalso
        exact h1 (eq_of_cast_eq htr ⟨by omega, hp1⟩ (by simpa using hone))

/-! ### the non-residue search -/

theorem findNonResidue_spec (P : ℤ) : ∀ (fuel : ℕ) (z : ℤ),
    (∃ z0, z ≤ z0 ∧ z0 < z + fuel ∧ legendreSymbolVar z0 P = some (-1)) →
    ∃ z1, findNonResidue P fuel z = some z1 ∧ legendreSymbolVar z1 P = some (-1)
  | 0, z, ⟨z0, h1, h2, _⟩ => by simp at h2; omega
  | fuel + 1, z, ⟨z0, h1, h2, h3⟩ => by
    unfold findNonResidue
    by_cases hz : legendreSymbolVar z P = some (-1)
    · exact ⟨z, by simp [hz], hz⟩
    · simp only [hz, if_false]
      have hne : z0 ≠ z := by intro h; rw [h] at h3; exact hz h3
      exact findNonResidue_spec P fuel (z + 1) ⟨z0, by omega, by push_cast at h2; omega, h3⟩

/-- Euler's criterion for the model's symbol: `a^((p-1)/2) = (a | p)` in `ZMod p`, odd prime `p` -/
theorem legendre_pow (hp2 : p ≠ 2) (a e : ℤ) (h : legendreSymbolVar a (p : ℤ) = some e) :
    (a : ZMod p) ^ (p / 2) = (e : ZMod p) := by
  have hodd : p % 2 = 1 := by
    rcases hpf.out.eq_two_or_odd with h2 | h2
    · exact absurd h2 hp2
    · exact h2
  rw [legendreSymbolVar_eq_jacobiSym a p hodd] at h
  cases h
  rw [← jacobiSym.legendreSym.to_jacobiSym, legendreSym.eq_pow]

theorem exists_nonresidue (hp2 : p ≠ 2) :
    ∃ z0 : ℤ, 2 ≤ z0 ∧ z0 < 2 + ((p : ℤ).toNat : ℕ) ∧ legendreSymbolVar z0 (p : ℤ) = some (-1) := by
  have hodd : p % 2 = 1 := by
    rcases hpf.out.eq_two_or_odd with h2 | h2
    · exact absurd h2 hp2
    · exact h2
  obtain ⟨x, hx⟩ := FiniteField.exists_nonsquare (F := ZMod p) (by rw [ZMod.ringChar_zmod_n]; exact hp2)
  have hx0 : x ≠ 0 := by rintro rfl; exact hx ⟨0, by simp⟩
  have hx1 : x ≠ 1 := by rintro rfl; exact hx ⟨1, by simp⟩
  have hv0 : x.val ≠ 0 := by rwa [Ne, ZMod.val_eq_zero]
  have hv1 : x.val ≠ 1 := by
    intro h
    apply hx1
    have := ZMod.natCast_zmod_val x
    rw [h] at this; simpa using this.symm
  have hlt := ZMod.val_lt x
  refine ⟨(x.val : ℤ), by omega, by simp only [Int.toNat_natCast]; omega, ?_⟩
  rw [legendreSymbolVar_eq_jacobiSym _ p hodd, ← jacobiSym.legendreSym.to_jacobiSym]
  congr 1
  rw [legendreSym.eq_neg_one_iff]
  have : (((x.val : ℤ) : ℤ) : ZMod p) = x := by simp
  rw [this]; exact hx

/-! ### `tonelli_var` -/

theorem cast_emod_self (a : ℤ) : (((a % (p : ℤ)) : ℤ) : ZMod p) = (a : ZMod p) := ZMod.intCast_mod a p

theorem strip_p (hp2 : p ≠ 2) : ∃ s q : ℕ, stripTwos ((p : ℤ) - 1).toNat ((p : ℤ) - 1).toNat 0 = (s, q) ∧
    p - 1 = 2 ^ s * q ∧ q % 2 = 1 ∧ 1 ≤ s := by
  have h2 := hpf.out.two_le
  have hodd : p % 2 = 1 := by
    rcases hpf.out.eq_two_or_odd with h | h
    · exact absurd h hp2
    · exact h
  have e : ((p : ℤ) - 1).toNat = p - 1 := by omega
  rw [e]
  obtain ⟨t, a', h1, h2', h3⟩ := stripTwos_spec (p - 1) (p - 1) 0 (by omega) (le_refl _)
  refine ⟨t, a', by simpa using h1, h2', h3, ?_⟩
  rcases Nat.eq_zero_or_pos t with h0 | h0
  · subst h0; simp at h2'; omega
  · exact h0

/-- **`tonelli_var(a, p)`, soundness, every prime `p`**: an answer is a reduced square root of `a` -/
theorem tonelliVar_sound (a r : ℤ) (h : tonelliVar a (p : ℤ) = some r) :
    (0 ≤ r ∧ r < p) ∧ (r : ZMod p) ^ 2 = (a : ZMod p) := by
  have hp1 := one_lt_p (p := p)
  have hpos : (0 : ℤ) < p := by omega
  unfold tonelliVar at h
  rw [if_neg (by omega)] at h
  simp only [] at h
  split at h
  · next h0 =>
    cases h
    refine ⟨⟨Int.emod_nonneg _ (by omega), Int.emod_lt_of_pos _ hpos⟩, ?_⟩
    rcases h0 with h0 | h0
    · rw [h0]; rw [← cast_emod_self a, h0]; simp
    · have hp2 : p = 2 := by exact_mod_cast h0
      subst hp2
      rw [cast_emod_self]
      exact ZMod.pow_card (a : ZMod 2)
  · next h0 =>
    have hp2 : p ≠ 2 := by intro h2; apply h0; right; exact_mod_cast h2
    split at h
    · cases h
    · next hleg =>
      have hleg' : legendreSymbolVar (a % (p : ℤ)) (p : ℤ) = some 1 := not_not.mp hleg
      have heul := legendre_pow hp2 _ _ hleg'
      rw [cast_emod_self, Int.cast_one] at heul
      obtain ⟨s, q, hst, hpq, hq, hs⟩ := strip_p (p := p) hp2
      rw [hst] at h
      simp only [] at h
      split at h
      · next hs1 =>
        cases h
        refine ⟨modPow_range (by omega) _ _, ?_⟩
        rw [modPow_cast, cast_emod_self, ← pow_mul]
        subst hs1
        have e : ((p : ℤ) + 1) / 4 = ((p + 1) / 4 : ℕ) := by omega
        have e2 : ((((p : ℤ) + 1) / 4).toNat) * 2 = p / 2 + 1 := by
          rw [e, Int.toNat_natCast]; simp at hpq; omega
        rw [e2, pow_succ, heul, one_mul]
      · next hs1 =>
        split at h
        · cases h
        · next z hz =>
          obtain ⟨hres, hrange⟩ := tonelliLoop_sound (a : ZMod p) _ _ _ _ _ r
            (by
              rw [modPow_cast, modPow_cast, cast_emod_self, ← pow_mul, ← pow_succ']
              congr 1; omega)
            (modPow_range (by omega) _ _) h
          exact ⟨hrange, hres⟩

/-- **`tonelli_var(a, p)`, completeness, every prime `p`**: a quadratic residue is ANSWERED — the non-residue search
and the main loop terminate within the bounds the code gives them (`c` has order `2^s`, `t^(2^(s-1)) = 1`) -/
theorem tonelliVar_answers (a : ℤ) (hsq : ∃ y : ZMod p, y ^ 2 = (a : ZMod p)) :
    ∃ r, tonelliVar a (p : ℤ) = some r := by
  have hp1 := one_lt_p (p := p)
  have hpos : (0 : ℤ) < p := by omega
  unfold tonelliVar
  rw [if_neg (by omega)]
  simp only []
  by_cases h0 : a % (p : ℤ) = 0 ∨ (p : ℤ) = 2
  · exact ⟨_, by rw [if_pos h0]⟩
  · rw [if_neg h0]
    have hp2 : p ≠ 2 := by intro h2; apply h0; right; exact_mod_cast h2
    have hodd : p % 2 = 1 := by
      rcases hpf.out.eq_two_or_odd with h | h
      · exact absurd h hp2
      · exact h
    have ha0 : ((a % (p : ℤ) : ℤ) : ZMod p) ≠ 0 := by
      intro h
      apply h0; left
      have := (ZMod.intCast_zmod_eq_zero_iff_dvd _ p).mp h
      have h1 := Int.emod_emod_of_dvd a (dvd_refl (p : ℤ))
      rw [← h1]; exact Int.emod_eq_zero_of_dvd this
    have hleg : legendreSymbolVar (a % (p : ℤ)) (p : ℤ) = some 1 := by
      rw [legendreSymbolVar_eq_jacobiSym _ p hodd, ← jacobiSym.legendreSym.to_jacobiSym]
      congr 1
      rw [legendreSym.eq_one_iff p ha0, cast_emod_self]
      obtain ⟨y, hy⟩ := hsq
      exact ⟨y, by rw [← hy, pow_two]⟩
    rw [if_neg (by rw [hleg]; simp)]
    have heul := legendre_pow hp2 _ _ hleg
    rw [cast_emod_self, Int.cast_one] at heul
    obtain ⟨s, q, hst, hpq, hq, hs⟩ := strip_p (p := p) hp2
    rw [hst]
    simp only []
    by_cases hs1 : s = 1
    · exact ⟨_, by rw [if_pos hs1]⟩
    · rw [if_neg hs1]
      obtain ⟨z0, hz1, hz2, hz3⟩ := exists_nonresidue (p := p) hp2
      obtain ⟨z, hz, hzl⟩ := findNonResidue_spec (p : ℤ) (p : ℤ).toNat 2 ⟨z0, hz1, hz2, hz3⟩
      rw [hz]
      simp only []
      have hzeul := legendre_pow hp2 _ _ hzl
      have hhalf : p / 2 = q * 2 ^ (s - 1) := by
        have : 2 ^ s = 2 * 2 ^ (s - 1) := by rw [← pow_succ']; congr 1; omega
        rw [this] at hpq
        have h2 : p - 1 = 2 * (2 ^ (s - 1) * q) := by rw [hpq]; ring
        have : p / 2 = 2 ^ (s - 1) * q := by omega
        rw [this]; ring
      apply tonelliLoop_answers (s + 1) s _ _ _ (by omega) hs (modPow_range (by omega) _ _)
      · rw [modPow_cast, ← pow_mul, ← hhalf, hzeul]; simp
      · rw [modPow_cast, cast_emod_self, ← pow_mul, ← hhalf, heul]

/-! ### `mod_sqrt_var` for every prime -/

/-- **`mod_sqrt_var(a, p)` squares back, EVERY prime `p`** (all three branches: `p ≡ 3 mod 4`, `p ≡ 5 mod 8`, Tonelli) -/
theorem modSqrtVar_sound_prime (a r : ℤ) (h : modSqrtVar a (p : ℤ) = some r) :
    (0 ≤ r ∧ r < p) ∧ (r : ZMod p) ^ 2 = (a : ZMod p) := by
  by_cases hbr : (p : ℤ) % 4 = 3 ∨ (p : ℤ) % 8 = 5
  · obtain ⟨h0, h1, h2⟩ := modSqrtVar_sound a p r hbr h
    refine ⟨⟨h0, h1⟩, ?_⟩
    rw [pow_two, ← Int.cast_mul, ← emod_eq_iff_cast]; exact h2
  · have hp1 := one_lt_p (p := p)
    unfold modSqrtVar at h
    rw [if_neg (by omega)] at h
    simp only [] at h
    rw [if_neg (fun h' => hbr (Or.inl h')), if_neg (fun h' => hbr (Or.inr h'))] at h
    obtain ⟨hr, hs⟩ := tonelliVar_sound (a % (p : ℤ)) r h
    exact ⟨hr, by rw [hs, cast_emod_self]⟩

/-- **`mod_sqrt_var(a, p)` answers every quadratic residue and refuses exactly the non-residues, EVERY prime `p`** -/
theorem modSqrtVar_none_iff (a : ℤ) : modSqrtVar a (p : ℤ) = none ↔ ∀ y : ZMod p, y ^ 2 ≠ (a : ZMod p) := by
  constructor
  · intro h y hy
    by_cases h34 : p % 4 = 3
    · exact modSqrtVar_none_3mod4 h34 a h y hy
    · by_cases h58 : p % 8 = 5
      · exact modSqrtVar_none_5mod8 h58 a h y hy
      · have hp1 := one_lt_p (p := p)
        unfold modSqrtVar at h
        rw [if_neg (by omega)] at h
        simp only [] at h
        rw [if_neg (by omega), if_neg (by omega)] at h
        obtain ⟨r, hr⟩ := tonelliVar_answers (p := p) (a % (p : ℤ)) ⟨y, by rw [cast_emod_self]; exact hy⟩
        rw [hr] at h; cases h
  · intro h
    cases hr : modSqrtVar a (p : ℤ) with
    | none => rfl
    | some r => exact absurd (modSqrtVar_sound_prime a r hr).2 (h _)

end Btc.C01.NT
